module verif/mutate

go 1.23
