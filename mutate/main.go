// mutate lists syntactic mutants of the library source of a mux checkout (one JSON object per line):
// file, byte range, replacement text, operator, enclosing function, line. The orchestrator (bin/mutants)
// splices the replacement into a scratch copy, keeps the mutants that compile and pass the existing test
// suite, and runs the checks against them. Used to measure which single-site changes the checks are blind to.
package main

import (
	"encoding/json"
	"fmt"
	"go/ast"
	"go/parser"
	"go/token"
	"os"
	"path/filepath"
	"strconv"
	"strings"
)

type mutant struct {
	ID   int    `json:"id"`
	File string `json:"file"`
	Line int    `json:"line"`
	Func string `json:"func"`
	Op   string `json:"op"`
	Beg  int    `json:"beg"`
	End  int    `json:"end"`
	Orig string `json:"orig"`
	Repl string `json:"repl"`
}

var dirs = []string{".", "internal/syntax", "internal/tree", "internal/trace", "types"}

func main() {
	repo := os.Args[1]
	id := 0
	enc := json.NewEncoder(os.Stdout)
	for _, d := range dirs {
		files, _ := filepath.Glob(filepath.Join(repo, d, "*.go"))
		for _, f := range files {
			base := filepath.Base(f)
			if strings.HasSuffix(base, "_test.go") || base == "test.go" || strings.HasPrefix(base, "verif_") {
				continue
			}
			src, err := os.ReadFile(f)
			if err != nil {
				panic(err)
			}
			if strings.Contains(string(src), "//go:build verif") {
				continue
			}
			fset := token.NewFileSet()
			af, err := parser.ParseFile(fset, f, src, 0)
			if err != nil {
				panic(err)
			}
			rel, _ := filepath.Rel(repo, f)
			emit := func(fn string, op string, beg, end token.Pos, repl string) {
				b, e := fset.Position(beg).Offset, fset.Position(end).Offset
				id++
				enc.Encode(mutant{ID: id, File: rel, Line: fset.Position(beg).Line, Func: fn, Op: op, Beg: b, End: e, Orig: string(src[b:e]), Repl: repl})
			}
			for _, decl := range af.Decls {
				fd, ok := decl.(*ast.FuncDecl)
				if !ok || fd.Body == nil {
					continue
				}
				name := fd.Name.Name
				if fd.Recv != nil && len(fd.Recv.List) > 0 {
					name = recvName(fd.Recv.List[0].Type) + "." + name
				}
				text := func(n ast.Node) string {
					return string(src[fset.Position(n.Pos()).Offset:fset.Position(n.End()).Offset])
				}
				ast.Inspect(fd.Body, func(n ast.Node) bool {
					switch x := n.(type) {
					case *ast.BinaryExpr:
						var alts []string
						switch x.Op {
						case token.EQL:
							alts = []string{"!="}
						case token.NEQ:
							alts = []string{"=="}
						case token.LSS:
							alts = []string{"<=", ">"}
						case token.LEQ:
							alts = []string{"<", ">="}
						case token.GTR:
							alts = []string{">=", "<"}
						case token.GEQ:
							alts = []string{">", "<="}
						case token.LAND:
							alts = []string{"||"}
						case token.LOR:
							alts = []string{"&&"}
						case token.ADD:
							alts = []string{"-"}
						case token.SUB:
							alts = []string{"+"}
						case token.AND:
							alts = []string{"|"}
						case token.OR:
							alts = []string{"&"}
						case token.SHL:
							alts = []string{">>"}
						}
						for _, a := range alts {
							emit(name, "binop:"+x.Op.String()+"->"+a, x.OpPos, x.OpPos+token.Pos(len(x.Op.String())), a)
						}
						if x.Op == token.LAND || x.Op == token.LOR {
							emit(name, "drop-left", x.Pos(), x.End(), text(x.Y))
							emit(name, "drop-right", x.Pos(), x.End(), text(x.X))
						}
					case *ast.BasicLit:
						if x.Kind == token.INT {
							if v, err := strconv.ParseInt(x.Value, 0, 64); err == nil {
								emit(name, "int+1", x.Pos(), x.End(), strconv.FormatInt(v+1, 10))
								if v > 0 {
									emit(name, "int-1", x.Pos(), x.End(), strconv.FormatInt(v-1, 10))
								}
							}
						}
					case *ast.Ident:
						if x.Name == "true" {
							emit(name, "true->false", x.Pos(), x.End(), "false")
						} else if x.Name == "false" {
							emit(name, "false->true", x.Pos(), x.End(), "true")
						}
					case *ast.UnaryExpr:
						if x.Op == token.NOT {
							emit(name, "drop-not", x.Pos(), x.End(), text(x.X))
						}
					case *ast.IfStmt:
						emit(name, "negate-if", x.Cond.Pos(), x.Cond.End(), "!("+text(x.Cond)+")")
					case *ast.ForStmt:
						if x.Cond != nil {
							emit(name, "for-false", x.Cond.Pos(), x.Cond.End(), "false && ("+text(x.Cond)+")")
						}
					case *ast.BranchStmt:
						if x.Label == nil {
							if x.Tok == token.BREAK {
								emit(name, "break->continue", x.Pos(), x.End(), "continue")
							} else if x.Tok == token.CONTINUE {
								emit(name, "continue->break", x.Pos(), x.End(), "break")
							}
						}
					case *ast.ExprStmt:
						emit(name, "del-stmt", x.Pos(), x.End(), "{}")
					case *ast.IncDecStmt:
						emit(name, "del-stmt", x.Pos(), x.End(), "{}")
					case *ast.DeferStmt:
						emit(name, "del-defer", x.Pos(), x.End(), "{}")
					case *ast.AssignStmt:
						if x.Tok != token.DEFINE {
							emit(name, "del-assign", x.Pos(), x.End(), "{}")
						}
					case *ast.SliceExpr:
						if x.Low != nil {
							emit(name, "slice-low+1", x.Low.Pos(), x.Low.End(), "("+text(x.Low)+")+1")
						}
						if x.High != nil {
							emit(name, "slice-high-1", x.High.Pos(), x.High.End(), "("+text(x.High)+")-1")
						}
					case *ast.ReturnStmt:
						// early `return` inside a block that is not the function's last statement: drop it (only result-less ones compile)
						if len(x.Results) == 0 {
							emit(name, "del-return", x.Pos(), x.End(), "{}")
						} else if len(x.Results) == 1 {
							if id, ok := x.Results[0].(*ast.Ident); ok && (id.Name == "nil") {
								_ = id
							}
						}
					}
					return true
				})
			}
		}
	}
	fmt.Fprintln(os.Stderr, id, "mutants")
}

func recvName(e ast.Expr) string {
	switch x := e.(type) {
	case *ast.StarExpr:
		return recvName(x.X)
	case *ast.Ident:
		return x.Name
	case *ast.IndexExpr:
		return recvName(x.X)
	case *ast.IndexListExpr:
		return recvName(x.X)
	}
	return "?"
}
