# Judges: executable statements of the properties, evaluated on the observations of the
# IMPLEMENTATION (never on the model's).  They are the oracle of the failing-input search and run
# on every check; they are deliberately table-based and tree-free (a second, simpler
# implementation of the specification), so that they share no structure with mux or with the
# Lean model L1.  A judge returns a list of (line_index, message) failures.
import re

# ---------------------------------------------------------------- protocol helpers

def decB(tok):
    if tok == '%_':
        return b''
    out = bytearray()
    i = 0
    t = tok.encode('latin-1')
    while i < len(t):
        if t[i] == 0x25 and i + 2 < len(t):
            try:
                out.append(int(t[i+1:i+3], 16)); i += 3; continue
            except ValueError:
                pass
        out.append(t[i]); i += 1
    return bytes(out)

def decL(tok):
    return [] if tok == '%-' else [decB(x) for x in tok.split(',')]

def decM(tok):
    if tok == '%-':
        return []
    out = []
    for kv in tok.split(','):
        e = kv.split('=')
        if len(e) == 2:
            out.append((decB(e[0]), decB(e[1])))
    return out

def decNat(tok):
    return [] if tok == '%-' else [int(x) for x in tok.split(',') if x.isdigit()]

def fields(obs):
    """key=value fields of an observation line (values still encoded)."""
    d = {}
    for t in obs.split(' '):
        if '=' in t and not t.startswith('='):
            k, v = t.split('=', 1)
            if k not in d:
                d[k] = v
    return d

def dec_hdr(tok):
    if tok in ('%-', '-'):
        return {}
    out = {}
    for kv in tok.split(','):
        k, v = kv.split('=', 1)
        out[decB(k).decode('latin-1')] = [decB(x).decode('latin-1') for x in v.split('|')]
    return out

def dec_methods(tok):
    return [] if tok in ('%-', '-') else [decB(x).decode('latin-1') for x in tok.split('+')]

FAULT_RE = re.compile(r'(^fault$|panicked:fault|recovered:fault|^nocall => )')

# ---------------------------------------------------------------- pattern syntax (port of CheckSyntax)

ICPT = {
    0: lambda s: len(s) > 0,
    1: lambda s: len(s) > 0 and all(0x30 <= c <= 0x39 for c in s),
    2: lambda s: len(s) > 0 and all((0x30 <= c <= 0x39) or (0x41 <= c <= 0x5a) or (0x61 <= c <= 0x7a) for c in s),
    3: lambda s: len(s) > 0 and s[0] == 0x61,
    4: lambda s: True,
    5: lambda s: False,
    6: lambda s: len(s) % 2 == 0,
}

def split_string(s):
    out = []; cur = bytearray(); inb = False
    for b in s:
        if not inb:
            if b == 0x7b:
                if cur:
                    out.append(bytes(cur))
                cur = bytearray([b]); inb = True
            else:
                cur.append(b)
        else:
            cur.append(b)
            if b == 0x7d:
                inb = False
    out.append(bytes(cur))
    return out

class Seg:
    __slots__ = ('value', 'kind', 'name', 'ignore', 'rule', 'suffix', 'endpoint')

def new_segment(val, ic):
    """returns Seg or an error class string"""
    s = Seg(); s.value = val; s.kind = 'str'; s.name = b''; s.ignore = False; s.rule = b''; s.suffix = b''; s.endpoint = False
    if len(val) > 32767:
        return 'too-long'
    start = val.find(b'{'); end = val.find(b'}')
    if start < 0 or end < 0:
        return s
    sep = val.find(b':')
    if start > end or start + 1 == end or (sep > 0 and start + 1 == sep):
        return 'syntax'
    if sep == -1 or sep + 1 == end or sep > end:
        name = val[start+1:end]
        if sep != -1 and sep < end:
            name = val[start+1:sep]
        s.kind = 'named'
    else:
        s.rule = val[sep+1:end]
        name = val[start+1:sep]
        s.kind = 'icpt' if s.rule in ic else 'rx'
    if name[:1] == b'-':
        s.ignore = True; name = name[1:]
    s.name = name
    s.suffix = val[end+1:]
    s.endpoint = (s.kind != 'rx') and val[-1:] == b'}'
    if s.kind == 'rx':
        try:
            (s.rule + s.suffix).decode('utf-8')
            re.compile(s.rule.decode('latin-1'))
        except (re.error, UnicodeDecodeError):
            return 'regexp'
        if not s.ignore and not re.fullmatch(rb'[A-Za-z0-9_]+', name):
            return 'regexp'
    return s

def split_pattern(p, ic):
    """returns list of Seg or error class"""
    if p == b'':
        return 'empty'
    segs = []; last = False; names = set()
    for piece in split_string(p):
        if last and piece[:1] == b'{':
            return 'adjacent'
        last = piece[-1:] == b'}'
        s = new_segment(piece, ic)
        if isinstance(s, str):
            return s
        if s.kind != 'str':
            if s.name in names:
                return 'dup-name'
            names.add(s.name)
        segs.append(s)
    return segs

def seg_accepts(s, v, ic):
    if s.kind == 'icpt':
        return ICPT.get(ic.get(s.rule, 5), ICPT[5])(v)
    if s.kind == 'rx':
        try:
            return re.fullmatch(b'(?:' + s.rule + b')', v, re.S) is not None or re.fullmatch(b'(?:' + s.rule + b')', v) is not None
        except re.error:
            return True
    return True

def aligns(segs, path, params, ic):
    """Is `path` the pattern with every parameter replaced by its reported value (values of
    '-' parameters existentially quantified) and every value accepted?"""
    def go(i, pos):
        if i == len(segs):
            return pos == len(path)
        s = segs[i]
        if s.kind == 'str':
            return path.startswith(s.value, pos) and go(i + 1, pos + len(s.value))
        if not s.ignore:
            v = params.get(s.name)
            if v is None or not path.startswith(v + s.suffix, pos) or not seg_accepts(s, v, ic):
                return False
            return go(i + 1, pos + len(v) + len(s.suffix))
        for l in range(0, len(path) - pos + 1):
            v = path[pos:pos+l]
            if path.startswith(s.suffix, pos + l) and seg_accepts(s, v, ic) and go(i + 1, pos + l + len(s.suffix)):
                return True
        return False
    return go(0, 0)

def erase_names(p, ic=None):
    """the pattern with every parameter name (and '-' flag) erased; None when the pattern is malformed"""
    segs = split_pattern(p, ic or {})
    if isinstance(segs, str) or not braces_ok(segs):
        return None
    out = b''
    for s in segs:
        out += s.value if s.kind == 'str' else b'{' + (b':' + s.rule if s.rule else b'') + b'}' + s.suffix
    return out

def braces_ok(segs):
    """well-formed in the sense of the properties: balanced tokens, no braces in literal text, names or rules"""
    for s in segs:
        for part in ((s.value,) if s.kind == 'str' else (s.name, s.rule, s.suffix)):
            if b'{' in part or b'}' in part:
                return False
    return True

# ---------------------------------------------------------------- the abstract route table (L0)

ANY = ['GET', 'POST', 'DELETE', 'PUT', 'PATCH', 'CONNECT']
ORDER = ['CONNECT', 'DELETE', 'GET', 'HEAD', 'OPTIONS', 'PATCH', 'POST', 'PUT', 'TRACE']

class RouterSpec:
    def __init__(self, toks):
        self.name = decB(toks[2]); self.trace = toks[3] == '1'; self.recover = toks[5] != '0'; self.rec_kind = toks[5]
        self.domain = decB(toks[6])
        self.ic = {k: int(v) for k, v in decM(toks[7])}
        self.cors = None
        if toks[8] == '1':
            self.cors = dict(origins=[x.decode('latin-1') for x in decL(toks[9])], allow=[x.decode('latin-1') for x in decL(toks[10])],
                             exposed=[x.decode('latin-1') for x in decL(toks[11])], maxage=int(toks[12]), cred=toks[13] == '1')
        self.table = {}        # pattern -> {method: (hid, mws)}
        self.first_ms = {}     # pattern -> mws of the call that made it live
        self.use = []          # Router.Use / Group.Use middlewares, chronological
        self.routes_obs = None
        self.tainted = False
        self.illformed = False   # a pattern with braces inside names / literal text was accepted: outside the well-formedness hypothesis

    def note_pattern(self, pattern):
        segs = split_pattern(pattern, self.ic)
        if isinstance(segs, str) or not braces_ok(segs):
            self.illformed = True

    def add(self, pattern, hid, mws, methods):
        self.note_pattern(pattern)
        ms = [m.decode('latin-1') for m in methods] or ANY
        if pattern not in self.table or not self.table[pattern]:
            self.first_ms[pattern] = list(mws)
        t = self.table.setdefault(pattern, {})
        for m in ms:
            t[m] = (hid, list(mws))

    def remove(self, pattern, methods):
        if pattern not in self.table:
            return
        if not methods:
            del self.table[pattern]
            return
        t = self.table[pattern]
        for m in methods:
            t.pop(m.decode('latin-1'), None)
        if not t:
            del self.table[pattern]

    def clean(self, pre):
        for p in [p for p in self.table if p.startswith(pre)]:
            del self.table[p]

    def method_set(self, pattern):
        t = self.table.get(pattern)
        if not t:
            return None
        s = set(t)
        if 'GET' in s:
            s.add('HEAD')
        s.add('OPTIONS')
        if self.trace:
            s.add('TRACE')
        return sorted(s)

    def star_set(self):
        s = {'OPTIONS'}
        if self.trace:
            s.add('TRACE')
        for t in self.table.values():
            s |= set(t)
        return s

class World:
    """Replays an op file together with the implementation's observations and maintains L0."""
    def __init__(self):
        self.routers = {}
        self.facades = {}     # fid -> (rid, pattern, ms, is_resource)
        self.groups = {}      # gid -> dict(use=[], routers=[rid...], recover)
        self.hosts = {}       # hid -> dict(doms=[...], tainted)

    def apply(self, toks, obs):
        op = toks[0]
        if op == 'hosts' and len(toks) == 3:
            if obs == 'ok':
                self.hosts[int(toks[1])] = dict(doms=[d.lower() for d in decL(toks[2])], tainted=False)
            else:
                self.hosts.pop(int(toks[1]), None)
            return
        if op in ('hosts-add', 'hosts-del', 'hosts-icpt') and int(toks[1]) in self.hosts:
            h = self.hosts[int(toks[1])]
            if op == 'hosts-icpt':
                h['tainted'] = True
            elif obs == 'ok':
                d = decB(toks[2]).lower()
                if op == 'hosts-add' and d not in h['doms']:
                    h['doms'].append(d)
                if op == 'hosts-del':
                    h['doms'] = [x for x in h['doms'] if x != d]
            return
        if op == 'router' and len(toks) == 14:
            if obs == 'ok':
                self.routers[int(toks[1])] = RouterSpec(toks)
            else:
                self.routers.pop(int(toks[1]), None)
            return
        if op in ('handle', 'remove', 'clean', 'use', 'routes'):
            r = self.routers.get(int(toks[1]))
            if r is None:
                return
            if op == 'handle' and obs == 'ok':
                r.add(decB(toks[2]), int(toks[3]), decNat(toks[4]) , decL(toks[5]))
            elif op == 'remove' and obs == 'ok':
                r.remove(decB(toks[2]), decL(toks[3]))
            elif op == 'clean' and obs == 'ok':
                r.clean(decB(toks[2]))
            elif op == 'use':
                r.use += decNat(toks[2])
            elif op == 'routes' and obs.startswith('routes '):
                r.routes_obs = parse_routes(obs)
            return
        if op == 'facade':
            parent = self.facades.get(int(toks[4])) if toks[4] != '-' else None
            pat = decB(toks[5]); ms = decNat(toks[6])
            if parent:
                pat = parent[1] + pat; ms = ms + parent[2]
            self.facades[int(toks[1])] = (int(toks[2]), pat, ms, toks[3] == 'resource')
            return
        if op in ('fhandle', 'fremove', 'fclean'):
            f = self.facades.get(int(toks[1]))
            if not f:
                return
            r = self.routers.get(f[0])
            if r is None or obs != 'ok':
                return
            if op == 'fhandle':
                sub = b'' if f[3] else decB(toks[2])
                r.add(f[1] + sub, int(toks[3]), decNat(toks[4]) + f[2], decL(toks[5]))
            elif op == 'fremove':
                sub = b'' if f[3] else decB(toks[2])
                r.remove(f[1] + sub, decL(toks[3]))
            else:
                if f[3]:
                    r.remove(f[1], [])
                else:
                    r.clean(f[1])
            return
        if op == 'group' and obs == 'ok':
            self.groups[int(toks[1])] = dict(use=[], routers=[], recover=toks[2] != '0', rec_kind=toks[2], cfg=toks)
            return
        if op == 'group-add' and obs == 'ok':
            g = self.groups.get(int(toks[1])); r = self.routers.get(int(toks[2]))
            if g is not None and r is not None:
                r.use += g['use']; g['routers'].append(int(toks[2])); g.setdefault('matchers', {})[int(toks[2])] = toks[3]
            return
        if op == 'group-new' and obs == 'ok':
            g = self.groups.get(int(toks[1]))
            if g is not None:
                c = g['cfg']
                rt = ['router', toks[2], toks[3], c[3], '0', c[2], c[4], c[5], c[6], c[7], c[8], c[9], c[10], c[11]]
                r = RouterSpec(rt); r.use += g['use']
                self.routers[int(toks[2])] = r; g['routers'].append(int(toks[2])); g.setdefault('matchers', {})[int(toks[2])] = toks[4]
            return
        if op == 'group-use':
            g = self.groups.get(int(toks[1]))
            if g is not None:
                ms = decNat(toks[2]); g['use'] += ms
                for rid in g['routers']:
                    if rid in self.routers:
                        self.routers[rid].use += ms
            return
        if op == 'group-remove':
            g = self.groups.get(int(toks[1]))
            if g is not None:
                name = decB(toks[2])
                g['routers'] = [rid for rid in g['routers'] if rid in self.routers and self.routers[rid].name != name]
            return

def parse_routes(obs):
    out = {}
    body = obs[len('routes '):]
    if not body:
        return out
    for kv in body.split(','):
        k, v = kv.split('=', 1)
        out[decB(k)] = dec_methods(v)
    return out

def parse_wraps(tok):
    if tok == '%-':
        return []
    out = []
    for w in tok.split('|'):
        a = w.split(':')
        out.append((int(a[0]), decB(a[1]), decB(a[2]), decB(a[3])))
    return out

# ---------------------------------------------------------------- judges

def walk(ops, impl):
    """yield (index, toks, obs, world-before) while maintaining the world."""
    w = World()
    for i, (line, obs) in enumerate(zip(ops, impl)):
        toks = line.split()
        if not toks or toks[0] == '#':
            continue
        yield i, toks, obs, w
        try:
            w.apply(toks, obs)
        except Exception:
            pass

def judge_c05_agree(ops, impl):
    """Handle(pattern) on a brand-new router without interceptors registers iff CheckSyntax(pattern) accepts, and rejects
    with the same class of error otherwise (the crash stream puts the pair on consecutive lines)"""
    bad = []
    n = min(len(ops), len(impl))
    for i in range(n - 2):
        a, b, c = ops[i].split(), ops[i+1].split(), ops[i+2].split()
        if a and a[0] == 'syntax' and b and b[0] == 'router' and impl[i+1] == 'ok' and b[7] == '%-' and c and c[0] == 'handle' and c[1] == b[1] and c[2] == a[1]:
            if impl[i].startswith('fault') or impl[i+2].startswith('fault') or 'unsupported' in (impl[i], impl[i+2]):
                continue
            if impl[i] != impl[i+2]:
                bad.append((i + 2, 'CheckSyntax says %s, Handle on a fresh router says %s' % (impl[i], impl[i+2])))
    return bad

def judge_nofault(ops, impl):
    """C05 (and part of C03/C14): no runtime fault anywhere; Handle either registers or rejects with an error value."""
    bad = []
    panic_active = [False]
    for i, toks, obs, w in walk(ops, impl):
        if toks[0] == 'panic-cfg':
            panic_active[0] = toks[1:4] != ['%-', '%-', '%-']
        if toks[0] in ('serve', 'gserve'):
            r = None
            if toks[0] == 'serve':
                r = w.routers.get(int(toks[1]))
            # a user panic injected by panic-cfg is not mux's fault; runtime faults are
            if 'panicked:fault' in obs or 'recovered:fault' in obs or obs.startswith('fault'):
                bad.append((i, 'runtime fault while serving: ' + obs[:120]))
            elif obs.startswith('nocall => normal'):
                bad.append((i, 'ServeHTTP returned without calling any handler'))
            elif ' => panicked:' in obs and not panic_active[0]:
                bad.append((i, 'a panic escaped ServeHTTP although no user function was told to panic: ' + obs[-40:]))
        elif toks[0].startswith('u-'):
            # unit-level observations of unexported functions on arbitrary strings (tie only): NewSegment is only
            # ever called on Split pieces; its fault on strings like "/:{a}" is proved unreachable (C05.lean)
            continue
        elif obs == 'fault' or obs.startswith('fault'):
            bad.append((i, 'runtime fault in ' + toks[0]))
    return bad

def serve_ctx(toks, obs, w):
    if toks[0] != 'serve' or not obs.startswith('call '):
        return None
    r = w.routers.get(int(toks[1]))
    if r is None or r.illformed:
        return None
    f = fields(obs)
    return r, f, decB(toks[2]).decode('latin-1'), decB(toks[3])

def judge_c01(ops, impl):
    bad = []
    for i, toks, obs, w in walk(ops, impl):
        c = serve_ctx(toks, obs, w)
        if not c:
            continue
        r, f, method, path = c
        params = dict(decM(f.get('params', '%-')))
        base = f['base']
        if f['node'] == '-':
            if base in ('notFound',) and params:
                bad.append((i, '404 reports route parameters %r' % params))
            if base.startswith('user:') or base in ('options', 'notAllowed'):
                bad.append((i, 'handler %s called without a matched node' % base))
            continue
        pattern = decB(f['node'])
        if pattern == b'':
            continue   # the server-wide node (OPTIONS *, TRACE)
        if pattern not in r.table:
            bad.append((i, 'reported route %r is not a live pattern' % pattern)); continue
        segs = split_pattern(pattern, r.ic)
        if isinstance(segs, str):
            bad.append((i, 'reported route %r is malformed (%s)' % (pattern, segs))); continue
        if not braces_ok(segs):
            continue      # literal text with braces: outside the property's well-formedness hypothesis
        want = {s.name for s in segs if s.kind != 'str' and not s.ignore}
        if set(params) != want:
            bad.append((i, 'parameters %r are not exactly the capturing parameters %r of %r' % (sorted(params), sorted(want), pattern))); continue
        if not aligns(segs, path, params, r.ic):
            bad.append((i, 'path %r is not %r instantiated with %r (or a value violates its constraint)' % (path, pattern, params))); continue
        if base.startswith('user:'):
            m = 'GET' if method == 'HEAD' else method
            ent = r.table[pattern].get(m)
            if ent is None or ent[0] != int(base[5:]):
                bad.append((i, 'handler %s is not the one registered for (%r, %s)' % (base, pattern, m)))
        elif base == 'notAllowed':
            if method in r.table[pattern] or (method == 'HEAD' and 'GET' in r.table[pattern]) or method == 'OPTIONS':
                bad.append((i, '405 for a served method %s on %r' % (method, pattern)))
    return bad

# C02: the tree-free reference resolver (DESIGN §8 C02)
def lead_lit(r):
    i = r.find(b'{')
    return r if i < 0 else r[:i]

def lcp(strs):
    if not strs:
        return b''
    s = min(strs); t = max(strs); i = 0
    while i < len(s) and s[i] == t[i]:
        i += 1
    return s[:i]

def parse_tok(tok, ic):
    inner = tok[1:-1]
    if b':' in inner:
        name, rule = inner.split(b':', 1)
    else:
        name, rule = inner, b''
    ignore = name.startswith(b'-')
    if ignore:
        name = name[1:]
    kind = 'named' if rule == b'' else ('icpt' if rule in ic else 'rx')
    return name, ignore, rule, kind

def match_group(tok, sigma, endpoint, path, ic):
    name, ignore, rule, kind = parse_tok(tok, ic)
    if kind in ('named', 'icpt'):
        m = (lambda s: True) if kind == 'named' else ICPT.get(ic.get(rule, 5), ICPT[5])
        if endpoint:
            return (path, b'') if m(path) else None
        idx = path.find(sigma)
        while idx >= 0:
            if m(path[:idx]):
                return (path[:idx], path[idx+len(sigma):])
            idx = path.find(sigma, idx + 1)
        return None
    try:
        mm = re.match(b'(' + rule + b')' + re.escape(sigma), path)
    except re.error:
        return None
    if not mm:
        return None
    return (mm.group(1), path[mm.end():])

KINDS = ['icpt', 'rx', 'named']

def adm(R, path, ic):
    if path:
        G = [(r, rt, ps) for (r, rt, ps) in R if r and r[:1] != b'{' and r[0] == path[0]]
        if G:
            q = lcp([lead_lit(r) for (r, _, _) in G])
            if path.startswith(q):
                s = adm([(r[len(q):], rt, ps) for (r, rt, ps) in G], path[len(q):], ic)
                if s:
                    return s
    E = [(rt, ps) for (r, rt, ps) in R if r == b'']
    for kind in KINDS:
        groups = {}
        for (r, rt, ps) in R:
            if r and r[:1] == b'{':
                e = r.find(b'}')
                if e < 0:
                    continue
                tok = r[:e+1]
                if parse_tok(tok, ic)[3] != kind:
                    continue
                lit = lead_lit(r[e+1:])
                key = (tok, lit[:1] if lit else None)
                groups.setdefault(key, []).append((r, rt, ps, lit))
        succ = set()
        for (tok, b), members in groups.items():
            sigma = lcp([lit for (_, _, _, lit) in members])
            m = match_group(tok, sigma, b is None, path, ic)
            if m is None:
                continue
            cap, rest = m
            name, ignore, _, _ = parse_tok(tok, ic)
            sub = []
            for (r, rt, ps, lit) in members:
                nps = ps if ignore else ps + ((name, cap),)
                sub.append((r[len(tok)+len(sigma):], rt, nps))
            succ |= adm(sub, rest, ic)
        if succ:
            if path == b'' and E:
                succ |= {(rt, tuple(sorted(ps))) for (rt, ps) in E}
            return succ
    if path == b'' and E:
        return {(rt, tuple(sorted(ps))) for (rt, ps) in E}
    return set()

def well_formed_for_c02(p, ic):
    segs = split_pattern(p, ic)
    if isinstance(segs, str):
        return False
    for s in segs:
        lit = s.value if s.kind == 'str' else s.suffix
        if b'{' in lit or b'}' in lit:
            return False
        if s.kind == 'rx':
            # rules whose Python and Go semantics may differ, or that contain braces
            if not re.fullmatch(rb'[\\\[\]\w\-\+\*\.\|\(\)\^/]+', s.rule) or b'{' in s.rule:
                return False
    return True

def judge_c02(ops, impl):
    """add-only routers: the outcome must be admissible under the reference resolver."""
    bad = []
    addonly = {}
    for i, toks, obs, w in walk(ops, impl):
        if toks[0] == 'router':
            addonly[int(toks[1])] = True
        elif toks[0] in ('remove', 'clean', 'fremove', 'fclean'):
            addonly[int(toks[1])] = False
        c = serve_ctx(toks, obs, w)
        if not c:
            continue
        r, f, method, path = c
        if not addonly.get(int(toks[1])) or path in (b'', b'*') or (r.trace and method == 'TRACE'):
            continue
        pats = [p for p in r.table]
        if not all(well_formed_for_c02(p, r.ic) for p in pats):
            continue
        if any(x >= 0x80 for x in path):
            continue
        try:
            a = adm([(p, p, ()) for p in pats], path, r.ic)
        except RecursionError:
            continue
        a = {(rt, tuple(sorted(ps))) for (rt, ps) in a}
        if f['node'] == '-':
            if a:
                bad.append((i, '404 although the documented procedure resolves %r to one of %r' % (path, sorted(a)[:3])))
        else:
            got = (decB(f['node']), tuple(sorted(decM(f.get('params', '%-')))))
            if got not in a:
                bad.append((i, 'resolved %r to %r, the documented procedure admits only %r' % (path, got, sorted(a)[:3])))
    return bad

def simple_witness(segs, path, litbytes, ic, overshoot):
    """is `path` the pattern instantiated with SIMPLE values: every value non-empty, sharing no byte with literal text of
    any live pattern, and accepted by its constraint (the witnesses of C03)"""
    pos = 0
    for s in segs:
        if s.kind == 'str':
            if not path.startswith(s.value, pos):
                return False
            pos += len(s.value)
        else:
            j = pos
            while j < len(path) and path[j] not in litbytes:
                j += 1
            v = path[pos:j]
            if not v or not path.startswith(s.suffix, j) or not seg_accepts(s, v, ic):
                return False
            if s.kind == 'rx' and s.suffix:
                # can the rule match the first byte of the literal text that follows it? then the leftmost-first (greedy)
                # match of the segment - whose literal part may be cut shorter in the tree, as far as siblings share it -
                # can run past the intended value (D31); C03_witness_rx covers exactly the rules that AVOID that byte
                b0 = s.suffix[:1]
                try:
                    if any(re.fullmatch(s.rule, c, re.S) for c in (b0, v + b0, b0 + v, v + b0 + v)):
                        overshoot.append(s.value)
                except re.error:
                    pass
            pos = j + len(s.suffix)
    return pos == len(path)

def judge_c03(ops, impl):
    bad = []
    last = {}       # (router, serve line without the op name) -> (obs, node pattern, method, hid)   [frame clause]
    for i, toks, obs, w in walk(ops, impl):
        if toks[0] in ('handle', 'use', 'fhandle', 'router', 'facade', 'group-use', 'group-add'):
            # the frame clause is about Remove/Clean only: forget what was seen before any other mutation
            rid = toks[1] if toks[0] in ('handle', 'use', 'router') else None
            for k in [k for k in last if rid is None or k[0] == rid]:
                del last[k]
        if toks[0] == 'serve' and obs.startswith('call '):
            r0 = w.routers.get(int(toks[1]))
            if r0 is not None and not r0.illformed and not getattr(r0, 'rxwide', False):
                f0 = fields(obs); key = (toks[1], ' '.join(toks[2:]))
                # frame: only removals since the same request was answered by a (pattern, method) pair that is still live
                if key in last:
                    pobs, ppat, pm, phid = last[key]
                    t = r0.table.get(ppat, {})
                    def essence(o):
                        ff = fields(o)
                        return (ff.get('base'), ff.get('wraps'), ff.get('node'), ff.get('params'), ff.get('path'), o.split(' => ', 1)[-1].split(' live=')[0])
                    if pm in t and t[pm][0] == phid and essence(pobs) != essence(obs):
                        bad.append((i, 'Remove/Clean of OTHER routes changed the answer to %r: %s -> %s' % (' '.join(toks[2:4]), pobs[:110], obs[:110])))
                if f0['base'].startswith('user:') and f0['node'] != '-':
                    m0 = decB(toks[2]).decode('latin-1'); m0 = 'GET' if m0 == 'HEAD' else m0
                    last[key] = (obs, decB(f0['node']), m0, int(f0['base'][5:]))
                else:
                    last.pop(key, None)
                # reachability: a request built from a live pattern with simple values is never answered 404
                if f0['base'] == 'notFound' and r0.table:
                    path0 = decB(toks[3])
                    if path0 not in (b'', b'*') and all(c < 0x80 for c in path0):
                        parsed = {}
                        for pt in r0.table:
                            sg = split_pattern(pt, r0.ic)
                            if not isinstance(sg, str) and braces_ok(sg):
                                parsed[pt] = sg
                        litbytes = set()
                        for sg in parsed.values():
                            for x in sg:
                                litbytes.update(x.value if x.kind == 'str' else x.suffix)
                        for pt, sg in parsed.items():
                            over = []
                            if r0.table[pt] and simple_witness(sg, path0, litbytes, r0.ic, over):
                                if over:
                                    bad.append((i, 'live route %r is not served (greedy-overshoot: the regexp of %r runs past its following literal): its simple-value witness %r is answered 404' % (pt, over[0], path0)))
                                else:
                                    bad.append((i, 'live route %r is not served: its simple-value witness %r is answered 404' % (pt, path0)))
                                break
        if toks[0] == 'routes' and obs.startswith('routes '):
            r = w.routers.get(int(toks[1]))
            if r is None or r.illformed:
                continue
            got = parse_routes(obs)
            want = {b'*': ['OPTIONS'] + (['TRACE'] if r.trace else [])}
            for p in r.table:
                ms = r.method_set(p)
                if ms:
                    want[p] = ms
            if got != want:
                extra = sorted(set(got) - set(want)); missing = sorted(set(want) - set(got))
                diff = [p for p in got if p in want and got[p] != want[p]]
                bad.append((i, 'Routes() differs from the live table: extra=%r missing=%r wrong-methods=%r' % (extra[:3], missing[:3], [(p, got[p], want[p]) for p in diff[:2]])))
        c = serve_ctx(toks, obs, w)
        if not c:
            continue
        r, f, method, path = c
        base = f['base']
        if base.startswith('user:') and f['node'] != '-':
            pattern = decB(f['node'])
            m = 'GET' if method == 'HEAD' else method
            if pattern not in r.table or m not in r.table[pattern]:
                bad.append((i, 'removed or never registered pair (%r, %s) is still served' % (pattern, method)))
    return bad

def judge_c04(ops, impl):
    bad = []
    for i, toks, obs, w in walk(ops, impl):
        c = serve_ctx(toks, obs, w)
        if not c:
            continue
        r, f, method, path = c
        if f['node'] == '-':
            continue
        pattern = decB(f['node'])
        methods = dec_methods(f['methods'])
        allow = decB(f['allow']).decode('latin-1')
        if ', '.join(methods) != allow:
            bad.append((i, 'Node().Methods() %r and AllowHeader() %r disagree' % (methods, allow)))
        live = dec_hdr(f.get('live', '%-')).get('Allow')
        if f['base'] in ('options', 'notAllowed') and (live is None or live[0] != allow):
            bad.append((i, 'Allow header sent %r differs from the node method set %r' % (live, allow)))
        if pattern == b'':
            if r.trace and method == 'TRACE':
                continue
            want = r.star_set()
            if set(methods) - {'HEAD'} != want - {'HEAD'}:
                bad.append((i, 'OPTIONS * lists %r, live methods are %r' % (methods, sorted(want))))
        else:
            want = r.method_set(pattern)
            if want is None:
                bad.append((i, 'matched a pattern %r with no live method' % pattern))
            elif methods != want:
                bad.append((i, 'method set of %r is %r, should be %r' % (pattern, methods, want)))
    return bad

def judge_c08(ops, impl):
    bad = []
    last_get = {}
    scripts = {}
    for i, toks, obs, w in walk(ops, impl):
        if toks[0] in ('serve', 'gserve') and obs.startswith('call ') and decB(toks[2]) == b'HEAD' and ' head=1 ' in obs:
            # whatever happens below the HEAD wrapper (also a recovery function answering a panic): no body bytes
            m = re.search(r' body=(\d+) ', obs)
            if m and int(m.group(1)) != 0:
                bad.append((i, 'HEAD served by a GET route delivered %s body bytes' % m.group(1)))
        if toks[0] == 'gserve' and obs.startswith('call ') and decB(toks[2]) == b'HEAD' and ' base=user:' in obs:
            # through a Group the HEAD request of a GET route is the same HEAD request: no body, whether or not the harness
            # saw the wrapper
            m = re.search(r' body=(\d+) ', obs)
            if m and int(m.group(1)) != 0:
                bad.append((i, 'HEAD through a Group, served by a GET route, delivered %s body bytes' % m.group(1)))
        if toks[0] == 'script':
            scripts[int(toks[1])] = toks[2]
        if toks[0] == 'handle' and obs == 'ok':
            for m in decL(toks[5]):
                if m in (b'HEAD', b'OPTIONS') or m.decode('latin-1') not in ORDER:
                    bad.append((i, 'Handle accepted the reserved/unknown method %r' % m))
                r = w.routers.get(int(toks[1]))
                if r is not None and r.trace and m == b'TRACE':
                    bad.append((i, 'Handle accepted TRACE although a TRACE handler is configured'))
        c = serve_ctx(toks, obs, w)
        if not c:
            continue
        r, f, method, path = c
        key = (int(toks[1]), path)
        if method == 'GET':
            last_get[key] = (i, f, obs)
        if f['node'] == '-':
            # the head stream registers literal patterns only: a request for a live pattern always finds its node
            if r.table.get(path) and method in ORDER and b'{' not in path:
                bad.append((i, '%s on the live pattern %r is answered by %s without a node' % (method, path, f['base'])))
            continue
        pattern = decB(f['node'])
        t = r.table.get(pattern, {})
        if method == 'HEAD':
            if ('GET' in t) != f['base'].startswith('user:'):
                bad.append((i, 'HEAD served=%s but GET registered=%s on %r' % (f['base'].startswith('user:'), 'GET' in t, pattern)))
            if f['base'].startswith('user:') and ' => panicked:' not in obs:
                if f.get('body') != '0':
                    bad.append((i, 'HEAD delivered %s body bytes' % f.get('body')))
                if f['base'] != 'user:%d' % t['GET'][0] if 'GET' in t else False:
                    bad.append((i, 'HEAD ran %s, GET handler is %s' % (f['base'], t['GET'][0])))
                g = last_get.get(key)
                if g and g[1]['base'] == f['base'] and g[0] == i - 1 and ' => normal ' in obs and ' => normal ' in g[2]:
                    gl = dec_hdr(g[1].get('live', '%-')); hl = dec_hdr(f.get('live', '%-'))
                    gl.pop('Content-Length', None); cl = hl.pop('Content-Length', None)
                    st = lambda x: '200' if x == '-' else x     # an unset status is an implicit 200
                    if st(g[1].get('status')) != st(f.get('status')) or gl != hl:
                        bad.append((i, 'HEAD status/headers %s %r differ from GET %s %r' % (f.get('status'), hl, g[1].get('status'), gl)))
                    # ... and the headers AS SENT (snapshot when the header was written), when both wrote one
                    gs, hs = g[1].get('snap', '-'), f.get('snap', '-')
                    if gs not in ('-', None) and hs not in ('-', None):
                        gsd = dec_hdr(gs); hsd = dec_hdr(hs)
                        gsd.pop('Content-Length', None); hsd.pop('Content-Length', None)
                        if gsd != hsd:
                            bad.append((i, 'headers sent with the HEAD answer %r differ from those sent with GET %r' % (hsd, gsd)))
                    elif gs not in ('-', None):
                        # HEAD never sent the header itself: net/http sends the map as it is when the handler returns
                        gsd = dec_hdr(gs); hsd = dec_hdr(f.get('live', '%-'))
                        gsd.pop('Content-Length', None); hsd.pop('Content-Length', None)
                        if gsd != hsd:
                            hid0 = int(f['base'][5:]); acts0 = scripts.get(hid0, '%-').split(';')
                            def final(a):      # an informational WriteHeader (1xx except 101) sends nothing final
                                return a.startswith('b:') or (a.startswith('w:') and not (100 <= int(a[2:]) <= 199 and int(a[2:]) != 101))
                            fw = next((k for k, a in enumerate(acts0) if final(a)), None)
                            late = fw is not None and acts0[fw].startswith('b:') and any(a[:2] in ('s:', 'a:', 'd:') for a in acts0[fw + 1:])
                            bad.append((i, 'headers sent with the HEAD answer %r differ from those sent with GET %r%s' % (hsd, gsd,
                                        ' (late-header: the handler changes a header after its first body write)' if late else '')))
                    hid = int(f['base'][5:])
                    acts = scripts.get(hid, '%-')
                    acts_l = acts.split(';') if acts != '%-' else []
                    final_w = any(a.startswith('w:') and not (100 <= int(a[2:]) <= 199 and int(a[2:]) != 101) for a in acts_l)
                    last_b = max((k for k, a in enumerate(acts_l) if a.startswith('b:')), default=None)
                    # Content-Length of the HEAD answer = bytes the handler wrote: when the handler sends no final status itself
                    # (informational ones do not count) and does not touch Content-Length after its last write (what it did to
                    # that header BEFORE a write is overwritten by the next write)
                    if acts_l and not final_w and last_b is not None and not any('content-length' in a.lower() for a in acts_l[last_b + 1:]):
                        total = sum(int(a[2:]) for a in acts_l if a.startswith('b:'))
                        if cl is None or cl[0] != str(total):
                            bad.append((i, 'HEAD Content-Length %r, handler wrote %d bytes' % (cl, total)))
        if method == 'OPTIONS' and t and f['base'] != 'options':
            bad.append((i, 'OPTIONS on live pattern %r answered by %s' % (pattern, f['base'])))
    return bad

def judge_c09(ops, impl):
    bad = []
    for i, toks, obs, w in walk(ops, impl):
        if toks[0] not in ('serve', 'gserve') or not obs.startswith('call '):
            continue
        f = fields(obs)
        wraps = parse_wraps(f['wraps'])
        base = f['base']
        if toks[0] == 'gserve' and base == 'groupNotFound' and f['router'] == '%_':
            g = w.groups.get(int(toks[1]))
            if g is None:
                continue
            want = [(m, b'', b'', b'') for m in g['use']]
            if wraps != want:
                bad.append((i, 'group not-found wraps %r, expected %r' % (wraps, want)))
            continue
        rname = decB(f['router'])
        r = None
        if toks[0] == 'serve':
            r = w.routers.get(int(toks[1]))
        else:
            g = w.groups.get(int(toks[1]))
            if g:
                for rid in g['routers']:
                    if rid in w.routers and w.routers[rid].name == rname:
                        r = w.routers[rid]
        if r is None or r.illformed:
            continue
        method = decB(toks[2]).decode('latin-1')
        pattern = decB(f['node']) if f['node'] != '-' else None
        if base in ('notFound', 'groupNotFound'):
            inner, m, p = [], b'', b''
        elif base == 'trace':
            inner, m, p = [], b'TRACE', b''
        elif pattern == b'':
            inner, m, p = [], (b'OPTIONS' if base == 'options' else b''), b''
        elif base.startswith('user:'):
            ent = r.table.get(pattern, {}).get('GET' if method == 'HEAD' else method)
            if ent is None:
                continue
            inner, m, p = ent[1], method.encode('latin-1'), pattern
        elif base in ('options', 'notAllowed'):
            if pattern not in r.first_ms:
                continue
            inner, m, p = r.first_ms[pattern], (b'OPTIONS' if base == 'options' else b''), pattern
        else:
            continue
        want = [(x, m, p, r.name) for x in list(inner) + list(r.use)]
        if wraps != want:
            bad.append((i, 'middleware chain %r, expected (innermost first) %r' % (wraps, want)))
    return bad

def judge_c09_factories(ops, impl):
    """every middleware factory is invoked exactly once per wrapped handler: between two `mw-calls` lines that bracket ONE
    Handle or Use on a plain router, the number of factory invocations is the number of handlers the call wraps"""
    bad = []
    last = None          # (index, count) of the previous mw-calls line
    between = []         # mutating ops since then: (i, toks, obs, expected or None)
    for i, toks, obs, w in walk(ops, impl):
        if toks[0] == 'mw-calls' and obs.startswith('mwcalls '):
            n = int(obs.split()[1])
            if last is not None and len(between) == 1 and between[0][3] is not None:
                j, t2, o2, exp = between[0]
                if n - last[1] != exp:
                    bad.append((j, 'middleware factories invoked %d times by this call, it wraps %d handler layers' % (n - last[1], exp)))
            last = (i, n); between = []
            continue
        if toks[0] in ('serve', 'gserve', 'routes', 'dump', 'url', 'group-names', 'group-routes', 'group-router', 'match', 'spec-adm'):
            continue
        exp = None
        r = w.routers.get(int(toks[1])) if len(toks) > 1 and toks[1].isdigit() and toks[0] in ('handle', 'use') else None
        in_group = r is not None and any(int(toks[1]) in g['routers'] for g in w.groups.values())
        if r is not None and not r.illformed and not in_group:
            if toks[0] == 'handle':
                if obs != 'ok':
                    exp = 0
                else:
                    pattern = decB(toks[2]); ms = decL(toks[5])
                    methods = [m.decode('latin-1') for m in ms] if ms else list(ANY)
                    layers = len(decNat(toks[4])) + len(r.use)
                    live = bool(r.table.get(pattern))
                    exp = layers * (len(methods) + (1 if 'GET' in methods else 0) + (0 if live else 2))
            elif toks[0] == 'use' and obs == 'ok':
                handlers = sum(len(t) + (1 if 'GET' in t else 0) + 2 for t in r.table.values() if t)
                handlers += 1 + (1 if r.trace else 0) + 2        # 404, TRACE, and the server-wide node's OPTIONS and 405
                exp = len(decNat(toks[2])) * handlers
        between.append((i, toks, obs, exp))
    return bad

def subst(segs, params):
    out = b''
    for s in segs:
        if s.kind == 'str':
            out += s.value
        else:
            if s.name not in params:
                return None
            out += params[s.name] + s.suffix
    return out

def judge_c10(ops, impl):
    bad = []
    for i, toks, obs, w in walk(ops, impl):
        if toks[0] == 'murl':
            r = None; strict = False; pattern = decB(toks[1]); ps = dict(decM(toks[2])); dom = b''
        elif toks[0] == 'url':
            r = w.routers.get(int(toks[1]))
            if r is None:
                continue
            strict = toks[2] == '1'; pattern = decB(toks[3]); ps = dict(decM(toks[4]))
            dom = r.domain[:-1] if r.domain.endswith(b'/') else r.domain
        else:
            continue
        ok = obs.startswith('url ')
        got = decB(obs[4:]) if ok else None
        if pattern == b'':
            if got != dom:
                bad.append((i, 'empty pattern gives %r' % (obs,)))
            continue
        segs = split_pattern(pattern, {})
        if not isinstance(segs, str) and not braces_ok(segs):
            continue      # braces inside names / literal text: not a well-formed pattern
        if not strict:
            if not ps:
                if got != dom + pattern:
                    bad.append((i, 'empty params must return the pattern itself, got %r' % obs))
                continue
            if isinstance(segs, str):
                if ok:
                    bad.append((i, 'malformed pattern (%s) built %r' % (segs, got)))
                continue
            want = subst(segs, ps)
            if want is None:
                if ok:
                    bad.append((i, 'missing parameter but built %r' % got))
            elif not ok or got != dom + want:
                bad.append((i, 'built %r, expected %r' % (obs, dom + want)))
        else:
            segs = split_pattern(pattern, r.ic)
            if not isinstance(segs, str) and not braces_ok(segs):
                continue
            if any(isinstance(split_pattern(q, r.ic), str) or not braces_ok(split_pattern(q, r.ic)) for q in r.table):
                continue  # the table contains ill-formed patterns; the tree may segment them differently
            live = pattern in r.table and not isinstance(segs, str)
            if not live:
                if ok:
                    bad.append((i, 'strict URL accepted %r which is not a live route' % pattern))
                continue
            want = subst(segs, ps)
            valid = want is not None and all(s.kind == 'str' or seg_accepts(s, ps[s.name], r.ic) for s in segs)
            if ok and not valid:
                bad.append((i, 'strict URL built %r although a parameter is missing or violates its constraint' % got))
            if ok and valid and got != dom + want:
                bad.append((i, 'strict URL built %r, expected %r' % (got, dom + want)))
            # live route, every parameter present and satisfying its constraint: strict building must succeed
            # (regexp rules with alternation are excluded: leftmost-first matching may prefer a shorter alternative)
            if not ok and valid and not any(s.kind == 'rx' and (b'|' in s.rule or b'?' in s.rule) for s in segs) \
                    and all(all(c < 0x80 for c in ps[s.name]) for s in segs if s.kind != 'str') and obs != 'unsupported':
                bad.append((i, 'strict URL refused %r with params %r although the route is live and every value satisfies its constraint: %s' % (pattern, ps, obs)))
    return bad

def cors_expect(cfg, method, path, hdrs, node_methods, allow, served):
    """decision table of C11/C12: returns dict of expected CORS headers, or None when nothing may be granted"""
    def allowed_origin(o):
        if '*' in cfg['origins']:
            return '*'
        return o if o in cfg['origins'] else None
    if not cfg['origins'] or not served:
        return None
    origin = hdrs.get('Origin', '')
    acrm = hdrs.get('Access-Control-Request-Method', '')
    preflight = method == 'OPTIONS' and acrm != '' and path != b'*'
    exp = {}
    if preflight:
        if acrm not in node_methods:
            return None
        anyh = '*' in cfg['allow']
        h = hdrs.get('Access-Control-Request-Headers', '').strip(' \t\n\v\f\r')
        if not anyh and h != '':
            for item in h.split(','):
                item = item.strip(' \t\n\v\f\r').lower()
                if item not in [a.lower() for a in cfg['allow']]:
                    return None
        exp['Access-Control-Allow-Methods'] = allow
        if anyh:
            exp['Access-Control-Allow-Headers'] = '*,Authorization'
        elif cfg['allow']:
            exp['Access-Control-Allow-Headers'] = ','.join(cfg['allow'])
        if cfg['maxage'] != 0:
            exp['Access-Control-Max-Age'] = str(cfg['maxage'])
    g = allowed_origin(origin)
    if g is None:
        return None
    exp['Access-Control-Allow-Origin'] = g
    if cfg['cred']:
        exp['Access-Control-Allow-Credentials'] = 'true'
    if cfg['exposed']:
        exp['Access-Control-Expose-Headers'] = ','.join(cfg['exposed'])
    exp['_preflight'] = preflight
    return exp

CORS_KEYS = ['Access-Control-Allow-Origin', 'Access-Control-Allow-Credentials', 'Access-Control-Expose-Headers',
             'Access-Control-Allow-Methods', 'Access-Control-Allow-Headers', 'Access-Control-Max-Age']

def judge_cors(ops, impl, part):
    bad = []
    for i, toks, obs, w in walk(ops, impl):
        c = serve_ctx(toks, obs, w)
        if not c:
            continue
        r, f, method, path = c
        cfg = r.cors or dict(origins=[], allow=[], exposed=[], maxage=0, cred=False)
        hdrs = {k.decode('latin-1'): v.decode('latin-1') for k, v in decM(toks[5])}
        if any(ord(c) >= 0x80 for c in hdrs.get('Access-Control-Request-Headers', '')) or any(any(b >= 0x80 for b in h) for h in cfg.get('allow', []) if isinstance(h, (bytes, bytearray))):
            continue      # strings.EqualFold / TrimSpace are Unicode-aware; this judge (like the model) reads ASCII
        hdr_all = dec_hdr(f.get('hdr', '%-'))
        got = {k: v[0] for k, v in hdr_all.items()}
        vary = hdr_all.get('Vary', [])
        for k in CORS_KEYS:
            if len(hdr_all.get(k, [])) > 1:
                bad.append((i, '%s is sent %d times: %r' % (k, len(hdr_all[k]), hdr_all[k])))
        base = f['base']
        served = base.startswith('user:') or base in ('options', 'trace')
        node_methods = dec_methods(f['methods'])
        allow = decB(f['allow']).decode('latin-1') if f['allow'] != '-' else ''
        if f['node'] != '-':
            # the route's methods are those the HISTORY of Handle/Remove/Clean leaves (the route table of the judge), not what
            # the implementation's own bookkeeping reports
            ms = r.method_set(decB(f['node']))
            if decB(f['node']) == b'' and not r.illformed:
                # the server-wide node (path "*" or ""): its methods are OPTIONS, TRACE iff configured, and the methods some
                # live route has (HEAD as the implementation reports it: the property does not fix it for this node)
                st = r.star_set() - {'HEAD'}
                if 'HEAD' in node_methods:
                    st = st | {'HEAD'}
                ms = sorted(st)
            if ms is not None:
                node_methods = [m if isinstance(m, str) else m.decode('latin-1') for m in ms]
                allow = ', '.join(node_methods)
        exp = cors_expect(cfg, method, path, hdrs, node_methods, allow, served)
        acao = got.get('Access-Control-Allow-Origin')
        if part == 'C11':
            origin = hdrs.get('Origin', '')
            if acao is not None:
                if acao == '*' and '*' not in cfg['origins']:
                    bad.append((i, 'ACAO * although * is not configured'))
                elif acao != '*' and (acao != origin or origin not in cfg['origins']):
                    bad.append((i, 'ACAO %r for request origin %r, configured %r' % (acao, origin, cfg['origins'])))
                if exp is None:
                    bad.append((i, 'ACAO granted where nothing may be granted (404/405, unserved preflight method, refused header or no origins)'))
            if got.get('Access-Control-Allow-Credentials') == 'true' and (acao is None or acao == '*' or acao != origin or origin not in cfg['origins']):
                bad.append((i, 'Allow-Credentials without an echoed listed origin'))
        else:
            if exp is None:
                continue
            pre = exp.pop('_preflight')
            for k in CORS_KEYS:
                if got.get(k) != exp.get(k):
                    bad.append((i, '%s is %r, configured answer is %r' % (k, got.get(k), exp.get(k))))
            if exp['Access-Control-Allow-Origin'] != '*' and 'Origin' not in vary:
                bad.append((i, 'Vary lacks Origin although the origin was picked from a list: %r' % vary))
            if pre and 'Access-Control-Request-Method' not in vary:
                bad.append((i, 'Vary lacks Access-Control-Request-Method on a preflight: %r' % vary))
            if pre and 'Access-Control-Allow-Headers' in exp and 'Access-Control-Request-Headers' not in vary:
                bad.append((i, 'Vary lacks Access-Control-Request-Headers although an allow-list was sent: %r' % vary))
            for v in vary:
                if v not in ('Origin', 'Access-Control-Request-Method', 'Access-Control-Request-Headers'):
                    bad.append((i, 'Vary names %r, which is not a request header the answer depends on' % v))
    return bad

def split_top(s, sep):
    out = []; depth = 0; cur = ''
    for ch in s:
        if ch == '(':
            depth += 1
        elif ch == ')':
            depth -= 1
        if ch == sep and depth == 0:
            out.append(cur); cur = ''
        else:
            cur += ch
    out.append(cur)
    return out

def eval_matcher(expr, path, accept_raw, accept_params, ps, env=None):
    # env = dict(host=<request Host>, hosts=<the World's Hosts table>) for `hosts:ID` members (passed explicitly: judges run
    # concurrently in threads)
    """reference semantics of the bundled matchers and combinators:
    returns (accepted, path, params); a rejecting matcher returns its inputs unchanged.
    `hosts:ID` is decided with the reference resolver over the tracked domains; ValueError = cannot be decided here"""
    if expr == 'any':
        return True, path, ps
    if expr.startswith('hosts:'):
        hs = ((env or {}).get('hosts') or {}).get(int(expr[6:])); host = (env or {}).get('host')
        if hs is None or host is None or hs['tainted'] or any(c >= 0x80 for c in host):
            raise ValueError(expr)
        if not all(well_formed_for_c02(d, {}) for d in hs['doms']):
            raise ValueError(expr)
        nh = norm_host(host)
        if nh in (b'', b'*'):
            return False, path, ps
        outs = {tuple(sorted(p)) for (_, p) in adm([(d, d, ()) for d in hs['doms']], nh, {})}
        if not outs:
            return False, path, ps
        if len(outs) > 1:
            raise ValueError(expr)      # a tie the procedure leaves open
        nps = dict(ps); nps.update(dict(next(iter(outs))))
        return True, path, nps
    if expr.startswith('pv:'):
        param, vs = expr[3:].split(':')
        vs = [] if vs == '%-' else [norm_version(decB(x)) for x in vs.split('+')]
        for v in vs:
            if path.startswith(v):
                nps = dict(ps)
                if decB(param):
                    nps[decB(param)] = v[:-1]
                return True, path[len(v)-1:], nps
        return False, path, ps
    if expr.startswith('hv:'):
        param, key, vs = expr[3:].split(':')
        key = decB(key) or b'version'
        vs = [] if vs == '%-' else [decB(x) for x in vs.split('+')]
        if accept_raw != b'' and accept_params is not None and accept_params.get(key, b'') in vs:
            nps = dict(ps)
            if decB(param):
                nps[decB(param)] = accept_params.get(key, b'')
            return True, path, nps
        return False, path, ps
    if expr.startswith('and(') or expr.startswith('or('):
        inner = expr[expr.index('(')+1:-1]
        members = split_top(inner, ';') if inner else []
        if expr.startswith('and('):
            p, q = path, ps
            for m in members:
                ok, p, q = eval_matcher(m, p, accept_raw, accept_params, q, env)
                if not ok:
                    return False, path, ps      # a rejecting And leaves no trace
            return True, p, q
        for m in members:
            ok, p, q = eval_matcher(m, path, accept_raw, accept_params, ps, env)
            if ok:
                return True, p, q
        return False, path, ps
    raise ValueError(expr)

def judge_c13(ops, impl):
    bad = []
    for i, (line, obs) in enumerate(zip(ops, impl)):
        toks = line.split()
        if toks and toks[0] == 'match' and obs.startswith('match ') and 'hosts:' not in toks[1]:
            hdrs = dict(decM(toks[5]))
            mp = None if toks[6] == '%!' else dict(decM(toks[6]))
            try:
                ok, p, q = eval_matcher(toks[1], decB(toks[3]), hdrs.get(b'Accept', b''), mp, dict(decM(toks[7])))
            except Exception:
                continue
            f = fields(obs)
            got = (obs.split(' ')[1] == '1', decB(f['path']), dict(decM(f['params'])))
            if got != (ok, p, q):
                bad.append((i, 'matcher %s on path %r: got accepted=%s path=%r params=%r, the combinators prescribe accepted=%s path=%r params=%r'
                            % (toks[1], decB(toks[3]), got[0], got[1], got[2], ok, p, q)))
    for i, toks, obs, w in walk(ops, impl):
        if toks[0] == 'group-names' and obs.startswith('names '):
            names = decL(obs[6:])
            if len(set(names)) != len(names):
                bad.append((i, 'router names are not unique: %r' % names))
            g = w.groups.get(int(toks[1]))
            if g is not None:
                want = [w.routers[rid].name for rid in g['routers'] if rid in w.routers]
                if names != want:
                    bad.append((i, 'routers of the group are %r, the history of Add/New/Remove leaves %r in that order' % (names, want)))
        if toks[0] == 'group-router':
            g = w.groups.get(int(toks[1]))
            if g is not None:
                want = [w.routers[rid].name for rid in g['routers'] if rid in w.routers]
                name = decB(toks[2])
                if obs.startswith('fault'):
                    bad.append((i, 'Group.Router(%r) raised a runtime fault (routers of the group: %r)' % (name, want)))
                elif obs == 'grouter %!' and name in want:
                    bad.append((i, 'Group.Router(%r) finds nothing although the history of Add/New/Remove leaves %r' % (name, want)))
                elif obs.startswith('grouter ') and obs != 'grouter %!' and (decB(obs.split(' ')[1]) != name or name not in want):
                    bad.append((i, 'Group.Router(%r) returns the router %r; the history of Add/New/Remove leaves %r' % (name, decB(obs.split(' ')[1]), want)))
        if toks[0] != 'gserve' or not obs.startswith('call '):
            continue
        f = fields(obs)
        g = w.groups.get(int(toks[1]))
        if g is None:
            continue
        path = decB(toks[3])
        names = [w.routers[rid].name for rid in g['routers'] if rid in w.routers]
        # the first router, in the order added, whose matcher accepts (decidable here for hosts-free matchers)
        hdrs = dict(decM(toks[5])); mp = None if toks[6] == '%!' else dict(decM(toks[6]))
        first = 'unknown'; mparams = None; mpath = None
        for rid in g['routers']:
            expr = g.get('matchers', {}).get(rid)
            if expr is None or rid not in w.routers:
                break
            try:
                ok, mp2, mq = eval_matcher(expr, path, hdrs.get(b'Accept', b''), mp, {}, dict(host=decB(toks[4]), hosts=w.hosts))
            except Exception:
                break
            if ok:
                first = w.routers[rid].name; mparams = mq; mpath = mp2; break
        else:
            first = None
        served = None if (f['base'] == 'groupNotFound' and f['router'] == '%_') else decB(f['router'])
        if first != 'unknown' and served != first:
            bad.append((i, 'served by %r, but the first router in the order added whose matcher accepts is %r (routers %r)' % (served, first, names)))
        elif mparams is not None and served == first and first is not None:
            # "... plus the parameters the matcher captured": every matcher parameter reaches the handler, unless the served
            # route has a capturing parameter of the same name (then the route's value wins)
            got = dict(decM(f['params']))
            own = set()
            if f['node'] != '-':
                segs = split_pattern(decB(f['node']), {})
                own = None if isinstance(segs, str) else {sg.name for sg in segs if sg.kind != 'str' and not sg.ignore}
            if own is not None:
                for k, v in mparams.items():
                    if k not in own and got.get(k) != v:
                        bad.append((i, 'matcher parameter %r=%r did not reach the handler (it got %r; served route %s)' % (k, v, got, f['node'])))
                        break
                extra = [k for k in got if k not in own and k not in mparams]
                if extra:
                    bad.append((i, 'parameters %r reach the handler but are neither captured by the accepting matcher nor by the served route %s (left by a rejecting matcher or an abandoned branch)' % (extra, f['node'])))
            if mpath is not None and decB(f['path']) != mpath:
                bad.append((i, 'the accepting matcher leaves the path %r, the router was entered with %r' % (mpath, decB(f['path']))))
        if f['base'] == 'groupNotFound' and f['router'] == '%_':
            if decB(f['path']) != path or f['params'] != '%-':
                bad.append((i, 'no router accepted, but the request reached the not-found handler as path=%s params=%s' % (f['path'], f['params'])))
        else:
            if decB(f['router']) not in names:
                bad.append((i, 'served by router %s which is not in the group %r' % (f['router'], names)))
            got = decB(f['path'])
            if got != path and not (path.endswith(got) and path[:len(path)-len(got)].count(b'/') >= 1):
                bad.append((i, 'request path %r was rewritten to %r' % (path, got)))
    return bad

SIMPLE_CASE = set('ÄÖÜÉÈÀÇÑäöüéèàçñß')

def go_lower_simple(b):
    """lower case of a UTF-8 string whose non-ASCII letters map one-to-one; None when it is anything else"""
    try:
        t = b.decode('utf-8')
    except UnicodeDecodeError:
        return None
    if any(ord(c) >= 0x80 and c not in SIMPLE_CASE for c in t):
        return None
    return t.lower().encode('utf-8')

def lower_dom(d):
    return go_lower_simple(d) or d.lower()

def norm_host(h):
    i = h.rfind(b':')
    if i != -1:
        port = h[i:]
        if port == b'' or (port[:1] == b':' and all(0x30 <= c <= 0x39 for c in port[1:])):
            h = h[:i]
    if h.startswith(b'[') and h.endswith(b']'):
        h = h[1:-1]
    return h.lower()

def domain_fits(host, pattern):
    """could `host` be an instance of the domain pattern, whatever its parameter constraints mean?"""
    rx = b''
    i = 0
    while i < len(pattern):
        if pattern[i:i+1] == b'{':
            j = pattern.find(b'}', i)
            if j < 0:
                rx += re.escape(pattern[i:]); break
            rx += b'.*'; i = j + 1
        else:
            rx += re.escape(pattern[i:i+1]); i += 1
    return re.fullmatch(rx, host, re.S) is not None

def judge_c14(ops, impl):
    """Hosts.Match accepts iff the normalised host resolves (reference resolver of C02) against the
    registered domains, and reports that pattern's parameters."""
    bad = []
    hosts = {}
    for i, (line, obs) in enumerate(zip(ops, impl)):
        toks = line.split()
        if not toks:
            continue
        if toks[0] == 'hosts' and obs == 'ok':
            hosts[int(toks[1])] = dict(doms=[lower_dom(d) for d in decL(toks[2])], ic={}, tainted=False)
        elif toks[0] == 'hosts-add' and obs == 'ok' and int(toks[1]) in hosts:
            hosts[int(toks[1])].pop('deleted', None); hosts[int(toks[1])]['answers'] = {}
            d = lower_dom(decB(toks[2]))
            if d not in hosts[int(toks[1])]['doms']:
                hosts[int(toks[1])]['doms'].append(d)
            # an interceptor registered later changes the kind of later-added domains only
        elif toks[0] == 'hosts-del' and int(toks[1]) in hosts:
            d = lower_dom(decB(toks[2]))
            hh = hosts[int(toks[1])]
            hh['doms'] = [x for x in hh['doms'] if x != d]
            # frame of Delete: a host accepted before and rejected right after must have been served by the deleted domain
            # (answers = what was observed since the previous mutation of this instance)
            hh['deleted'] = (d, dict(hh.get('answers', {}))); hh['answers'] = {}
            if b'{' in d:
                hh['param_deleted'] = True   # the tree keeps a split parameter node: "resolves" is the reference for add-only tables (DESIGN §0.4b)
        elif toks[0] == 'hosts-icpt' and obs == 'ok' and int(toks[1]) in hosts:
            hosts[int(toks[1])].pop('deleted', None); hosts[int(toks[1])]['answers'] = {}
            hosts[int(toks[1])]['tainted'] = True   # kinds now depend on registration time: judge only literals
        elif toks[0] == 'hosts-match' and obs.startswith('match ') and int(toks[1]) in hosts:
            h = hosts[int(toks[1])]
            host = decB(toks[2])
            if any(c >= 0x80 for c in host):
                # outside the modelled domain (ASCII); one clause is still judged for well-formed UTF-8 whose letters have a
                # one-to-one lower case (Go's strings.ToLower and Python's str.lower agree there): Add and Match lower-case
                # alike, so a registered literal domain accepts every case spelling of itself
                ci = host.rfind(b':')
                if ci >= 0 and all(c < 0x80 for c in host[:ci]) and any(c >= 0x80 for c in host[ci:]) and obs.split(' ')[1] == '1':
                    base = host[:ci]
                    base = base[1:-1] if base.startswith(b'[') and base.endswith(b']') else base
                    if base.lower() in [d for d in h['doms'] if b'{' not in d] or not any(b':' in d or b'{' in d and d.endswith(b'}') for d in h['doms']):
                        bad.append((i, 'host %r accepted: a port made of non-ASCII digits was stripped (a port is ASCII digits only)' % host))
                lh = go_lower_simple(norm_host(host))
                if lh is not None and obs.split(' ')[1] != '1' and any(go_lower_simple(d) == lh for d in h['doms'] if b'{' not in d):
                    bad.append((i, 'registered domain %r (host %r) is rejected: Add and Match do not lower-case alike' % (lh, host)))
                continue
            nh = norm_host(host)
            parts = obs.split(' ')
            ok = parts[1] == '1'
            ps = tuple(sorted(decM(parts[2])))
            h.setdefault('answers', {})[nh] = ok
            if h.get('deleted') and not ok and h['deleted'][1].get(nh) is True and not domain_fits(nh, h['deleted'][0]):
                bad.append((i, 'host %r was accepted before Delete(%r) and is rejected after it, although it cannot belong to the deleted domain' % (host, h['deleted'][0])))
            if h.get('deleted') and ok and h['deleted'][1].get(nh) is False:
                bad.append((i, 'host %r was rejected before Delete(%r) and is accepted after it: a Delete leaves every other answer as it was' % (host, h['deleted'][0])))
            lits = [d for d in h['doms'] if b'{' not in d]
            if nh in lits and nh not in (b'', b'*'):
                if not ok:
                    bad.append((i, 'registered domain %r (host %r) is rejected' % (nh, host)))
                continue
            if h['tainted'] or nh in (b'', b'*'):
                if nh in (b'', b'*') and ok:
                    bad.append((i, 'empty or * host accepted'))
                continue
            if not all(well_formed_for_c02(d, {}) for d in h['doms']):
                continue
            a = adm([(d, d, ()) for d in h['doms']], nh, {})
            a = {(rt, tuple(sorted(p))) for (rt, p) in a}
            if ok and not any(p == ps for (_, p) in a):
                bad.append((i, 'host %r accepted with parameters %r; the registered domains admit %r' % (host, ps, sorted(a)[:3])))
            if not ok and a and not h.get('param_deleted'):
                bad.append((i, 'host %r rejected although it resolves to %r' % (host, sorted(a)[:3])))
    return bad

def norm_version(v):
    if not v.startswith(b'/'):
        v = b'/' + v
    if not v.endswith(b'/'):
        v += b'/'
    return v

def judge_c15(ops, impl):
    bad = []
    for i, (line, obs) in enumerate(zip(ops, impl)):
        toks = line.split()
        if not toks or toks[0] != 'match' or not obs.startswith('match '):
            continue
        expr = toks[1]
        path = decB(toks[3]); ps0 = dict(decM(toks[7]))
        f = fields(obs); ok = obs.split(' ')[1] == '1'
        gp = decB(f['path']); gps = dict(decM(f['params']))
        if expr.startswith('pv:'):
            param, vs = expr[3:].split(':')
            vs = [] if vs == '%-' else [norm_version(decB(x)) for x in vs.split('+')]
            hit = next((v for v in vs if path.startswith(v)), None)
            if (hit is not None) != ok:
                bad.append((i, 'path-version matcher %s for path %r, versions %r' % ('accepted' if ok else 'rejected', path, vs)))
            elif ok:
                want = dict(ps0)
                if decB(param):
                    want[decB(param)] = hit[:-1]
                if gp != path[len(hit)-1:] or gps != want:
                    bad.append((i, 'accepted %r: path became %r params %r; expected %r %r' % (path, gp, gps, path[len(hit)-1:], want)))
            elif gp != path or gps != ps0:
                bad.append((i, 'rejected but left path=%r params=%r' % (gp, gps)))
        elif expr.startswith('hv:'):
            param, key, vs = expr[3:].split(':')
            key = decB(key) or b'version'
            vs = [] if vs == '%-' else [decB(x) for x in vs.split('+')]
            hdrs = dict(decM(toks[5]))
            acc = hdrs.get(b'Accept', b'')
            mp = None if toks[6] == '%!' else dict(decM(toks[6]))
            should = acc != b'' and mp is not None and mp.get(key, b'') in vs
            if should != ok:
                bad.append((i, 'header-version matcher %s for Accept %r (parsed %r), versions %r' % ('accepted' if ok else 'rejected', acc, mp, vs)))
            elif ok:
                want = dict(ps0)
                if decB(param):
                    want[decB(param)] = mp.get(key, b'')
                if gps != want or gp != path:
                    bad.append((i, 'accepted but params %r path %r; expected %r' % (gps, gp, want)))
            elif gp != path or gps != ps0:
                bad.append((i, 'rejected but left path=%r params=%r' % (gp, gps)))
    return bad

import http as _http
STATUS_TEXT = {int(c): c.phrase for c in _http.HTTPStatus}
STATUS_TEXT[418] = "I'm a teapot"; STATUS_TEXT[414] = 'Request URI Too Long'      # Go's spellings

def judge_c16(ops, impl):
    bad = []
    pc = ({}, {}, {})
    def nat_map(tok):
        return {} if tok == '%-' else {int(a.split('=')[0]): int(a.split('=')[1]) for a in tok.split(',')}
    codes = {'options': 1, 'notAllowed': 2, 'notFound': 3, 'trace': 4, 'groupNotFound': 7}
    for i, toks, obs, w in walk(ops, impl):
        if toks[0] == 'panic-cfg':
            pc = (nat_map(toks[1]), nat_map(toks[2]), nat_map(toks[3]))
            continue
        if toks[0] not in ('serve', 'gserve') or not obs.startswith('call '):
            continue
        f = fields(obs)
        wraps = parse_wraps(f['wraps'])
        base = f['base']
        v = None
        for mw in reversed(wraps):
            if mw[0] in pc[1]:
                v = pc[1][mw[0]]; break
        if v is None:
            if base.startswith('user:'):
                v = pc[0].get(int(base[5:]))
            else:
                v = pc[2].get(codes.get(base, -1))
        # which recover option covers this call?
        rec = None; kind = '0'
        if base == 'groupNotFound' and f['router'] == '%_':
            g = w.groups.get(int(toks[1])); rec = g['recover'] if g else None; kind = g['rec_kind'] if g else '0'
        else:
            cand = []
            if toks[0] == 'serve':
                cand = [w.routers.get(int(toks[1]))]
            else:
                g = w.groups.get(int(toks[1]))
                if g:
                    cand = [w.routers[rid] for rid in g['routers'] if rid in w.routers and w.routers[rid].name == decB(f['router'])]
            if cand and cand[0] is not None:
                rec = cand[0].recover; kind = cand[0].rec_kind
        if rec is None:
            continue
        tail = obs.split(' => ', 1)[1]
        if v is None:
            if not tail.startswith('normal'):
                bad.append((i, 'no panic injected, outcome %s' % tail[:40]))
        elif rec:
            # WithStatusRecovery hands the value to nothing observable: the harness prints "?"
            if not (tail.startswith('recovered:v%d ' % v) or (kind[0] == 's' and tail.startswith('recovered:? '))):
                bad.append((i, 'recovery configured, panic v%d, outcome %s' % (v, tail[:40])))
            elif len(kind) > 1:
                # the bundled options answer with http.Error(w, http.StatusText(status), status)
                code = int(kind[1:]); text = STATUS_TEXT.get(code, '')
                m = re.search(r' status=(\S+) body=(\d+) live=(\S+) snap=(\S+)$', tail)
                snap = dict(kv.split('=', 1) for kv in m.group(4).split(',')) if m and m.group(4) not in ('-', '%-') else {}
                head = f.get('head') == '1'
                want_body = 0 if head else len(text) + 1
                if not m or m.group(1) != str(code) or int(m.group(2)) != want_body or \
                        decB(snap.get('Content-Type', '%_')) != b'text/plain; charset=utf-8' or decB(snap.get('X-Content-Type-Options', '%_')) != b'nosniff':
                    bad.append((i, 'bundled recovery option %s: answer is not http.Error(StatusText(%d), %d): %s' % (kind, code, code, tail[:160])))
        else:
            if tail != 'panicked:v%d' % v:
                bad.append((i, 'no recovery configured, panic v%d, outcome %s' % (v, tail[:40])))
    return bad

MUTATING = ('handle', 'remove', 'clean', 'use', 'router', 'fhandle', 'fremove', 'fclean', 'facade')

def judge_c17(ops, impl):
    """a rejected Handle changes nothing: every probe (Routes(), serve) repeated after it gets the answer it got before it"""
    bad = []
    answers = {}     # rid -> {probe line: observation} since the last accepted mutation (latest answer per probe)
    frozen = {}      # rid -> (index of the rejected Handle, answers before it)
    flagged = set()
    for i, toks, obs, w in walk(ops, impl):
        if toks[0] == 'router':
            answers[int(toks[1])] = {}; frozen.pop(int(toks[1]), None)
            continue
        if toks[0] in ('handle', 'remove', 'clean', 'use'):
            rid = int(toks[1])
            if rid not in answers:
                continue
            if toks[0] == 'handle' and obs.startswith('reject:'):
                if rid not in frozen:
                    frozen[rid] = (i, dict(answers[rid]))
            else:
                answers[rid] = {}; frozen.pop(rid, None)
            if toks[0] == 'handle':
                r = w.routers.get(rid)
                pattern = decB(toks[2]); ms = [m.decode('latin-1') for m in decL(toks[5])] or ANY
                if r is not None and obs == 'ok':
                    if pattern in r.table and any(m in r.table[pattern] for m in ms):
                        bad.append((i, 'duplicate pattern+method accepted: %r %r' % (pattern, ms)))
                    if len(set(ms)) != len(ms):
                        bad.append((i, 'method listed twice accepted: %r' % ms))
                    others = [p for p in r.table if p != pattern]
                    if len(others) == 1 and len(r.table) == 1 and erase_names(pattern, r.ic) is not None and erase_names(others[0], r.ic) == erase_names(pattern, r.ic):
                        bad.append((i, 'pattern %r differs from the only route %r in parameter names only, but was accepted' % (pattern, others[0])))
                if r is not None and obs == 'reject:ambiguous':
                    if erase_names(pattern, r.ic) is not None and all(erase_names(p, r.ic) is not None for p in r.table) and \
                            not any(p != pattern and erase_names(p, r.ic) == erase_names(pattern, r.ic) for p in r.table):
                        bad.append((i, 'rejected as ambiguous although no live route is identical up to parameter names: %r vs %r' % (pattern, sorted(r.table)[:4])))
            continue
        if toks[0] in ('serve', 'routes') and int(toks[1]) in answers:
            rid = int(toks[1]); key = ' '.join(toks)
            if rid in frozen:
                j, before = frozen[rid]
                if key in before and before[key] != obs and j not in flagged:
                    flagged.add(j)
                    bad.append((i, 'the Handle rejected at line %d changed the answer to %r: %s -> %s' % (j, key[:80], before[key][:90], obs[:90])))
            answers[rid][key] = obs
    return bad

def judge_c18_register(ops, impl):
    """TRACE can never be registered by hand on a router with a configured TRACE handler; without the option it is an
    ordinary method (registrable, served by its handler)"""
    bad = []
    for i, toks, obs, w in walk(ops, impl):
        if toks[0] != 'handle':
            continue
        r = w.routers.get(int(toks[1]))
        if r is None or r.illformed:
            continue
        ms = [m.decode('latin-1') for m in decL(toks[5])]
        if 'TRACE' not in ms:
            continue
        if r.trace and obs == 'ok':
            bad.append((i, 'TRACE registered by hand although a TRACE handler is configured'))
        if not r.trace and obs == 'reject:reserved-method' and all(m in ORDER and m not in ('HEAD', 'OPTIONS') for m in ms):
            bad.append((i, 'TRACE refused as reserved although no TRACE handler is configured'))
    return bad

def judge_c18(ops, impl):
    bad = []
    for i, toks, obs, w in walk(ops, impl):
        if toks[0] == 'trace-helper' and obs.startswith('trace '):
            f = fields(obs)
            if toks[6] == '%!':
                continue
            dump = decB(toks[6])
            snap = dec_hdr(f.get('snap', '-'))
            if f.get('status') != '200':
                bad.append((i, 'Trace helper status %s' % f.get('status')))
            if snap.get('Content-Type') != ['message/http']:
                bad.append((i, 'Content-Type message/http was not sent with the response: %r' % snap))
            text = decB(f['text'])
            esc = dump.replace(b'&', b'&amp;').replace(b'<', b'&lt;').replace(b'>', b'&gt;').replace(b"'", b'&#39;').replace(b'"', b'&#34;')
            if text != esc:
                bad.append((i, 'body is not the HTML-escaped dump'))
            continue
        c = serve_ctx(toks, obs, w)
        if not c:
            continue
        r, f, method, path = c
        if method == 'TRACE':
            if r.trace:
                want = [(x, b'TRACE', b'', r.name) for x in r.use]
                if f['base'] != 'trace' or parse_wraps(f['wraps']) != want:
                    bad.append((i, 'TRACE with a configured handler answered by %s wraps=%s' % (f['base'], f['wraps'])))
            else:
                if f['base'] == 'trace':
                    bad.append((i, 'TRACE handler ran although none is configured'))
                # "without the option TRACE is an ordinary method": served by its own registration, otherwise 404/405
                node = decB(f['node']) if f['node'] != '-' else None
                ent = r.table.get(node, {}).get('TRACE') if node not in (None, b'') else None
                if f['base'].startswith('user:') and (ent is None or ent[0] != int(f['base'][5:])):
                    bad.append((i, 'TRACE answered by %s although (%r, TRACE) is not registered (removed or never registered)' % (f['base'], node)))
                if ent is not None and not f['base'].startswith('user:'):
                    bad.append((i, 'hand-registered TRACE on %r answered by %s' % (node, f['base'])))
        if f['node'] not in ('-', '') and not r.trace and decB(f['node']) in r.table:
            has = 'TRACE' in r.table[decB(f['node'])]
            if ('TRACE' in dec_methods(f['methods'])) != has:
                bad.append((i, 'without the option TRACE is an ordinary method: Allow set %s of %r, registered: %s' % (f['methods'], decB(f['node']), has)))
        if f['node'] != '-' and r.trace and 'TRACE' not in dec_methods(f['methods']):
            bad.append((i, 'TRACE missing from the Allow set %s' % f['methods']))
        if f['node'] != '-' and not r.trace and decB(f['node']) == b'':
            anyt = any('TRACE' in t for t in r.table.values())
            if 'TRACE' in dec_methods(f['methods']) and not anyt:
                bad.append((i, 'TRACE listed for OPTIONS * although it is neither configured nor registered'))
            if 'TRACE' not in dec_methods(f['methods']) and anyt:
                bad.append((i, 'OPTIONS * does not list TRACE although a live route has a hand-registered TRACE'))
    return bad

def judge_c19(ops, impl):
    """façade stream: every façade op is immediately followed by its desugared Router call on a twin router"""
    bad = []
    n = min(len(ops), len(impl))
    i = 0
    while i + 1 < n:
        a, b = ops[i].split(), ops[i+1].split()
        if a and b and ((a[0] in ('fhandle', 'fremove', 'fclean', 'furl') and b[0] in ('handle', 'remove', 'clean', 'url')) or
                        (a[0] == b[0] and a[0] in ('routes', 'serve', 'use') and a[2:] == b[2:] and a[1] != b[1])):
            if impl[i] != impl[i+1]:
                bad.append((i, 'façade and plain Router call disagree: %s | %s' % (impl[i][:100], impl[i+1][:100])))
            i += 2
        else:
            i += 1
    return bad

def py_parse_int(s, lo, hi):
    m = re.fullmatch(rb'([+-]?)([0-9]+)', s)
    if not m:
        return 'syntax'
    v = int(m.group(2)) * (-1 if m.group(1) == b'-' else 1)
    if v > hi:
        return 'range:%d' % hi
    if v < lo:
        return 'range:%d' % lo
    return 'ok:%d' % v

def judge_c20(ops, impl):
    bad = [(i, 'runtime fault in a Params operation (%s)' % l.split(' ', 1)[0]) for i, (l, o) in enumerate(zip(ops, impl)) if l.startswith('ctx-') and o == 'fault']
    if bad:
        return bad[:3]
    shadow = {}
    pf = {}        # value -> what strconv.ParseFloat returns for it (computed by the generator with the real strconv)
    for i, (line, obs) in enumerate(zip(ops, impl)):
        toks = line.split()
        if not toks:
            continue
        if toks[0] == 'pf' and len(toks) == 3:
            pf[decB(toks[1])] = toks[2]
        if toks[0] == 'ctx-new':
            cid = int(toks[1]); shadow[cid] = {}
            if obs != 'ctx count=0 path=%_ router=%_ node=0':
                bad.append((i, 'a context obtained from the pool is not empty: ' + obs))
        elif toks[0] == 'ctx-set' and int(toks[1]) in shadow:
            shadow[int(toks[1])][decB(toks[2])] = decB(toks[3])
        elif toks[0] == 'ctx-del' and int(toks[1]) in shadow:
            shadow[int(toks[1])].pop(decB(toks[2]), None)
        elif toks[0] == 'ctx-reset' and int(toks[1]) in shadow:
            shadow[int(toks[1])] = {}
        elif toks[0] == 'ctx-dump' and int(toks[1]) in shadow:
            f = fields(obs); m = shadow[int(toks[1])]
            if int(f['count']) != len(m) or dict(decM(f['range'])) != m:
                bad.append((i, 'Count/Range %s disagree with the map %r' % (obs, m)))
            if f.get('nested', 'ok') != 'ok':
                bad.append((i, 'a Range started inside the callback of another Range on the same parameters: %s (Count=%s)' % (f['nested'], f['count'])))
        elif toks[0] == 'ctx-acc' and int(toks[1]) in shadow:
            f = fields(obs); m = shadow[int(toks[1])]; k = decB(toks[2]); v = m.get(k)
            ds, di, du, db, df = toks[3], toks[4], toks[5], toks[6], toks[7]
            want_exists = '1' if v is not None else '0'
            if f['exists'] != want_exists or (f['get'] == '%!') != (v is None) or (v is not None and decB(f['get']) != v):
                bad.append((i, 'Exists/Get disagree with the map'))
            if v is None:
                for a in ('string', 'int', 'uint', 'bool', 'float'):
                    if f[a] != 'not-exists':
                        bad.append((i, '%s of an absent key is %s' % (a, f[a])))
            else:
                if f['string'] != 'ok:' + toks_enc(v, f['get']):
                    bad.append((i, 'String disagrees with Get'))
                wi = py_parse_int(v, -2**63, 2**63 - 1)
                if f['int'] != wi:
                    bad.append((i, 'Int(%r) = %s, strconv gives %s' % (v, f['int'], wi)))
                wu = 'syntax' if not re.fullmatch(rb'[0-9]+', v) else ('ok:%d' % int(v) if int(v) < 2**64 else 'range:%d' % (2**64 - 1))
                if f['uint'] != wu:
                    bad.append((i, 'Uint(%r) = %s, strconv gives %s' % (v, f['uint'], wu)))
                wb = 'ok:true' if v in (b'1', b't', b'T', b'TRUE', b'true', b'True') else ('ok:false' if v in (b'0', b'f', b'F', b'FALSE', b'false', b'False') else 'syntax')
                if f['bool'] != wb:
                    bad.append((i, 'Bool(%r) = %s, strconv gives %s' % (v, f['bool'], wb)))
                if v in pf and f['float'] != pf[v]:
                    bad.append((i, 'Float(%r) = %s, strconv gives %s' % (v, f['float'], pf[v])))
            # Must* returns the default precisely when the strict accessor fails
            def must(strict, mustv, dflt, conv=lambda x: x):
                if strict.startswith('ok:'):
                    return mustv == strict[3:]
                return conv(mustv) == conv(dflt)
            if not must(f['string'], f['mustString'], ds):
                bad.append((i, 'MustString inconsistent: %s vs %s' % (f['string'], f['mustString'])))
            if not must(f['int'], f['mustInt'], di, int):
                bad.append((i, 'MustInt inconsistent: %s vs %s default %s' % (f['int'], f['mustInt'], di)))
            if not must(f['uint'], f['mustUint'], du, int):
                bad.append((i, 'MustUint inconsistent: %s vs %s default %s' % (f['uint'], f['mustUint'], du)))
            if not must(f['bool'], f['mustBool'], 'true' if db == '1' else 'false'):
                bad.append((i, 'MustBool inconsistent: %s vs %s' % (f['bool'], f['mustBool'])))
            if f['float'].startswith('ok:'):
                if f['mustFloat'] != f['float'][3:]:
                    bad.append((i, 'MustFloat inconsistent: %s vs %s' % (f['float'], f['mustFloat'])))
            elif float(decB(f['mustFloat']).decode()) != float(decB(df).decode()):
                bad.append((i, 'MustFloat does not return the default when Float fails'))
    return bad

def toks_enc(v, enc_from_get):
    return enc_from_get

def judge_c07(ops, impl):
    """a fresh router answers identically whatever other routers did before (the stream is also run
    without its decoy lines by bin/check; here: OPTIONS * on a brand-new router)"""
    bad = []
    fresh = {}
    rules = {}      # hosts instance -> rules registered on THAT instance
    for i, (line, obs) in enumerate(zip(ops, impl)):
        t = line.split()
        if t and t[0] == 'hosts':
            rules[int(t[1])] = set()
        elif t and t[0] == 'hosts-icpt' and int(t[1]) in rules:
            if obs == 'reject:dup-interceptor' and decB(t[2]) not in rules[int(t[1])]:
                bad.append((i, 'RegisterInterceptor(%r) on this Hosts is refused as already existing although only ANOTHER instance registered it' % decB(t[2])))
            elif obs == 'ok':
                rules[int(t[1])].add(decB(t[2]))
    for i, toks, obs, w in walk(ops, impl):
        if toks[0] == 'router' and obs == 'ok':
            fresh[int(toks[1])] = True
        elif toks[0] in ('handle', 'use', 'remove', 'clean'):
            fresh[int(toks[1])] = False
        c = serve_ctx(toks, obs, w)
        if c and fresh.get(int(toks[1])) and c[2] == 'OPTIONS' and c[3] == b'*':
            r, f, _, _ = c
            want = ['OPTIONS'] + (['TRACE'] if r.trace else [])
            if dec_methods(f['methods']) != want:
                bad.append((i, 'a brand-new router answers OPTIONS * with %s' % f['methods']))
    return bad

def judge_nested(ops, impl):
    """op nserve: the handler of the outer request serves a second request on the same router and then re-reads its own
    parameters: it must still see exactly what it saw before (request contexts are pooled and reused)"""
    bad = []
    for i, (line, obs) in enumerate(zip(ops, impl)):
        if not line.startswith('nserve ') or ' nested={' not in obs:
            continue
        m = re.match(r'call .*? params=(\S+) .*? nested=\{.*\} after=(\S+)$', obs)
        if not m:
            continue
        if m.group(1) != m.group(2):
            bad.append((i, 'two requests alive at once on one router: the outer request saw parameters %s before and %s after its handler served a sub-request' % (m.group(1)[:60], m.group(2)[:60])))
        mi = re.search(r' nested=\{(call .*?|nocall) => (\S+)', obs)
        t = line.split()
        if mi and mi.group(1).startswith('call ') and ' base=user:' in mi.group(1):
            # the sub-request's own parameters spell its own path (it shares nothing with the outer request)
            ip = re.search(r' params=(\S+) ', mi.group(1)).group(1)
            vals = [v for _, v in decM(ip)]
            path = decB(t[8])
            if any(v not in path for v in vals):
                bad.append((i, 'the sub-request reports parameters %s that are not part of its own path %r' % (ip[:60], path)))
    return bad

EXEC = None   # set by bin/check: runs an op list on the implementation and returns its observation lines

def is_decoy_line(line):
    t = line.split()
    if len(t) > 2 and t[0] in ('group-new', 'group-add') and t[2].isdigit() and 1000 <= int(t[2]) < 2000:
        return True      # a decoy router created in / added to an observed group
    return len(t) > 1 and t[1].isdigit() and 1000 <= int(t[1]) < 2000

def judge_c07_decoys(ops, impl):
    """the isolation stream interleaves decoy instances (ids 1000..1999) with the observed ones: the same program
    without the decoy lines must produce the same observations on every remaining line"""
    if EXEC is None or not any(is_decoy_line(l) for l in ops):
        return []
    keep = [i for i, l in enumerate(ops) if not is_decoy_line(l)]
    impl2 = EXEC([ops[i] for i in keep])
    bad = []
    for k, i in enumerate(keep):
        if k < len(impl2) and i < len(impl) and impl2[k] != impl[i]:
            bad.append((i, 'answer depends on what OTHER instances did before: with decoys %s | without %s' % (impl[i][:110], impl2[k][:110])))
            break
    return bad

JUDGES = {
    'C01': [judge_c01],
    'C02': [judge_c02],
    'C03': [judge_c03, judge_nofault],
    'C04': [judge_c04, judge_c03],
    'C05': [judge_nofault, judge_c05_agree],
    'C06': [judge_c03, judge_c04, judge_nofault],
    'C07': [judge_c07, judge_c07_decoys, judge_nested, judge_c09],
    'C08': [judge_c08],
    'C09': [judge_c09, judge_c09_factories],
    'C10': [judge_c10, judge_c01],      # C01's alignment check = "URL from the captured parameters reproduces the path"
    'C11': [lambda o, i: judge_cors(o, i, 'C11')],
    'C12': [lambda o, i: judge_cors(o, i, 'C12')],
    'C13': [judge_c13, judge_c09, judge_nested, judge_c15],
    'C14': [judge_c14, judge_nofault],
    'C15': [judge_c15],
    'C16': [judge_c16, judge_nested],
    'C17': [judge_c17],
    'C18': [judge_c18, judge_c18_register],
    'C19': [judge_c19, judge_c03],
    'C20': [judge_c20],
}

def wf_pattern(p):
    """Mux.WfPattern (Spec/Table.lean): balanced, non-nested braces — the hypothesis of C02_resolve"""
    inside = False
    for b in p:
        if b == 0x7b:
            if inside:
                return False
            inside = True
        elif b == 0x7d:
            if not inside:
                return False
            inside = False
    return not inside

def judge_c02_lean_spec(ops, impl, model):
    """the implementation's answer to a `serve` must be one of the outcomes the LEAN reference resolver (Spec.resolveAll,
    the specification of theorem C02_resolve) admits: the following `spec-adm` line is answered by the compiled model only"""
    bad = []
    n = min(len(ops), len(impl), len(model))
    routers_ill = {}
    for i in range(n - 1):
        t = ops[i].split()
        if t and t[0] == 'handle' and not wf_pattern(decB(t[2])):
            routers_ill[t[1]] = True
        if not t or t[0] != 'serve' or not ops[i + 1].startswith('spec-adm ') or not model[i + 1].startswith('adm '):
            continue
        if t[1] in routers_ill or model[i] == 'unsupported' or not impl[i].startswith('call '):
            continue
        path = decB(t[3])
        if path in (b'', b'*'):
            continue
        f = fields(impl[i])
        adm = model[i + 1][4:]
        if f['base'] == 'notFound':
            if adm != '%-':
                bad.append((i, 'implementation answers 404 but the Lean reference resolver admits %s' % adm[:120]))
        elif f['node'] != '-':
            got = f['node'] + '{' + f['params'] + '}'
            if got not in adm.split('|'):
                bad.append((i, 'implementation resolves to %s, not admitted by the Lean reference resolver (%s)' % (got[:100], adm[:120])))
    return bad

JUDGES_WITH_MODEL = {'C02': [judge_c02_lean_spec]}

def judge_caller_slices(ops, impl):
    """arguments belong to the caller: a method list spread into Remove reads the same after the call"""
    return [(i, 'Remove modified the method list of its caller: %s' % o[3:80]) for i, o in enumerate(impl[:len(ops)]) if o.startswith('ok caller-method-list-modified')]

def run_judges(prop, ops, impl, model=None):
    out = []
    for j in JUDGES.get(prop, []):
        try:
            out += j(ops, impl)
        except RecursionError:
            pass
        except (KeyError, ValueError, IndexError) as e:
            # an observation the judge cannot read: the implementation answered something that is not an observation of this
            # op at all (a recovered runtime fault, typically) — that line is the finding, the judge must not crash on it
            k = next((i for i, o in enumerate(impl[:len(ops)]) if o == 'fault' or o.startswith('panicked') or ' => panicked:fault' in o or 'runtime error' in o), None)
            if k is None:
                raise
            out.append((k, 'runtime fault instead of an observation: %s' % impl[k][:120]))
    if prop in ('C03', 'C04', 'C19'):
        out += judge_caller_slices(ops, impl)
    if model is not None:
        for j in JUDGES_WITH_MODEL.get(prop, []):
            out += j(ops, impl, model)
    return sorted(set(out))
