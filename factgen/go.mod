module verif/factgen

go 1.23.0
