// factgen re-reads the Go source of /repo on every check run and emits facts as Lean definitions
// (Mux/Generated/Facts.lean): constants the model is parametric in, the lock-discipline shape of the
// Tree API, the inventory of package-level mutable state, the write set of the serve path and the
// inventory of fault sites.  It extracts facts; it does not translate function bodies.  A shape it
// does not understand is emitted as `unknown`, never guessed.
package main

import (
	"encoding/json"
	"fmt"
	"go/ast"
	"go/importer"
	"go/parser"
	"go/token"
	"go/types"
	"net/http"
	"os"
	"path/filepath"
	"sort"
	"strconv"
	"strings"
)

type funcInfo struct {
	pkg, recv, name string
	decl            *ast.FuncDecl
	info            *types.Info
}

var modulePath = "github.com/issue9/mux/v9"

// types of values that are shared between requests / goroutines
var sharedTypes = map[string]bool{"node": true, "Tree": true, "Segment": true, "cors": true, "Router": true, "Hosts": true,
	"Interceptors": true, "Group": true, "pathVersion": true, "headerVersion": true, "options": true, "Prefix": true, "Resource": true}

func namedOf(t types.Type) string {
	for {
		switch x := t.(type) {
		case *types.Pointer:
			t = x.Elem()
		case *types.Named:
			if x.Obj().Pkg() != nil && strings.HasPrefix(x.Obj().Pkg().Path(), modulePath) || (x.Obj().Pkg() != nil && x.Obj().Pkg().Path() == "x") {
				return x.Obj().Name()
			}
			return ""
		default:
			return ""
		}
	}
}

// rootExpr returns the expression at the root of a selector/index chain.
func rootExpr(e ast.Expr) ast.Expr {
	for {
		switch x := e.(type) {
		case *ast.SelectorExpr:
			e = x.X
		case *ast.IndexExpr:
			e = x.X
		case *ast.SliceExpr:
			e = x.X
		case *ast.StarExpr:
			e = x.X
		case *ast.ParenExpr:
			e = x.X
		default:
			return e
		}
	}
}

// sharedChain: does an lvalue reach into a value of a shared type (through any prefix of the chain),
// or into a package-level variable?
func sharedChain(fi *funcInfo, e ast.Expr) bool {
	for {
		if id, ok := e.(*ast.Ident); ok {
			if obj := fi.info.Uses[id]; obj != nil {
				if v, ok := obj.(*types.Var); ok && v.Parent() == v.Pkg().Scope() {
					return true // package-level variable
				}
			}
			return false
		}
		var inner ast.Expr
		switch x := e.(type) {
		case *ast.SelectorExpr:
			inner = x.X
		case *ast.IndexExpr:
			inner = x.X
		case *ast.SliceExpr:
			inner = x.X
		case *ast.StarExpr:
			inner = x.X
		case *ast.ParenExpr:
			inner = x.X
		default:
			return false
		}
		if tv, ok := fi.info.Types[inner]; ok && sharedTypes[namedOf(tv.Type)] {
			return true
		}
		e = inner
	}
}

// sharedWrites lists the writes of a function body to shared state.
func sharedWrites(fi *funcInfo) []string {
	var out []string
	ast.Inspect(fi.decl.Body, func(n ast.Node) bool {
		switch x := n.(type) {
		case *ast.AssignStmt:
			for _, l := range x.Lhs {
				if _, isIdent := l.(*ast.Ident); isIdent {
					if id := l.(*ast.Ident); x.Tok != token.DEFINE {
						if obj := fi.info.Uses[id]; obj != nil {
							if v, ok := obj.(*types.Var); ok && v.Pkg() != nil && v.Parent() == v.Pkg().Scope() {
								out = append(out, id.Name)
							}
						}
					}
					continue
				}
				if sharedChain(fi, l) {
					out = append(out, exprString(l))
				}
			}
		case *ast.IncDecStmt:
			if _, isIdent := x.X.(*ast.Ident); !isIdent && sharedChain(fi, x.X) {
				out = append(out, exprString(x.X))
			}
		case *ast.CallExpr:
			if id, ok := x.Fun.(*ast.Ident); ok && (id.Name == "delete" || id.Name == "clear") && len(x.Args) > 0 {
				if sharedChain(fi, x.Args[0]) || isPkgVar(fi, x.Args[0]) {
					out = append(out, id.Name+"("+exprString(x.Args[0])+")")
				}
			}
		}
		return true
	})
	return out
}

func isPkgVar(fi *funcInfo, e ast.Expr) bool {
	if id, ok := e.(*ast.Ident); ok {
		if obj := fi.info.Uses[id]; obj != nil {
			if v, ok := obj.(*types.Var); ok && v.Pkg() != nil && v.Parent() == v.Pkg().Scope() {
				return true
			}
		}
	}
	return false
}

// callees: statically resolved callees defined in the repository (interface method calls resolve to every
// repository method of that name).
func callees(fi *funcInfo) []*funcInfo {
	var out []*funcInfo
	seen := map[*funcInfo]bool{}
	add := func(g *funcInfo) {
		if g != nil && !seen[g] {
			seen[g] = true
			out = append(out, g)
		}
	}
	ast.Inspect(fi.decl.Body, func(n ast.Node) bool {
		ce, ok := n.(*ast.CallExpr)
		if !ok {
			return true
		}
		var fun ast.Expr = ce.Fun
		for {
			if ie, ok := fun.(*ast.IndexExpr); ok {
				fun = ie.X
			} else if ie, ok := fun.(*ast.IndexListExpr); ok {
				fun = ie.X
			} else if pe, ok := fun.(*ast.ParenExpr); ok {
				fun = pe.X
			} else {
				break
			}
		}
		switch f := fun.(type) {
		case *ast.Ident:
			if fn, ok := fi.info.Uses[f].(*types.Func); ok {
				add(lookupFunc(fn))
			}
		case *ast.SelectorExpr:
			if sel, ok := fi.info.Selections[f]; ok {
				if fn, ok := sel.Obj().(*types.Func); ok {
					if _, isIface := sel.Recv().Underlying().(*types.Interface); isIface {
						for _, g := range funcs {
							if g.name == fn.Name() && g.recv != "" {
								add(g)
							}
						}
					} else {
						add(lookupFunc(fn))
					}
				}
			} else if fn, ok := fi.info.Uses[f.Sel].(*types.Func); ok { // pkg.Func
				add(lookupFunc(fn))
			}
		}
		return true
	})
	return out
}

func lookupFunc(fn *types.Func) *funcInfo {
	if fn.Pkg() == nil {
		return nil
	}
	path := fn.Pkg().Path()
	if !strings.HasPrefix(path, modulePath) {
		return nil
	}
	rel := strings.TrimPrefix(strings.TrimPrefix(path, modulePath), "/")
	recv := ""
	if sig, ok := fn.Type().(*types.Signature); ok && sig.Recv() != nil {
		recv = namedOfAny(sig.Recv().Type())
	}
	return byKey[rel+"."+recv+"."+fn.Name()]
}

func namedOfAny(t types.Type) string {
	for {
		switch x := t.(type) {
		case *types.Pointer:
			t = x.Elem()
		case *types.Named:
			return x.Obj().Name()
		default:
			return "?"
		}
	}
}

var (
	fset  = token.NewFileSet()
	funcs []*funcInfo
	byKey = map[string]*funcInfo{} // "pkg.recv.name"
)

var pkgs = []string{"", "internal/tree", "internal/syntax", "internal/trace", "types"}

func recvName(fd *ast.FuncDecl) string {
	if fd.Recv == nil || len(fd.Recv.List) == 0 {
		return ""
	}
	t := fd.Recv.List[0].Type
	for {
		switch tt := t.(type) {
		case *ast.StarExpr:
			t = tt.X
		case *ast.IndexExpr:
			t = tt.X
		case *ast.IndexListExpr:
			t = tt.X
		case *ast.Ident:
			return tt.Name
		default:
			return "?"
		}
	}
}

func recvVar(fd *ast.FuncDecl) string {
	if fd.Recv == nil || len(fd.Recv.List) == 0 || len(fd.Recv.List[0].Names) == 0 {
		return ""
	}
	return fd.Recv.List[0].Names[0].Name
}

type global struct {
	Pkg, Name, Type string
	IsSyncPool      bool
	IsLock          bool
	MutatedIn       []string
	AccessedIn      []string
	GuardedBy       string
	Guarded         bool
}

func main() {
	if len(os.Args) < 3 {
		fmt.Fprintln(os.Stderr, "usage: factgen <repo> <Facts.lean> [facts.json]")
		os.Exit(2)
	}
	repo := os.Args[1]
	files := map[string][]*ast.File{}
	for _, p := range pkgs {
		matches, _ := filepath.Glob(filepath.Join(repo, p, "*.go"))
		sort.Strings(matches)
		for _, f := range matches {
			if strings.HasSuffix(f, "_test.go") || strings.HasSuffix(f, "/test.go") {
				continue
			}
			af, err := parser.ParseFile(fset, f, nil, 0)
			if err != nil {
				fmt.Fprintln(os.Stderr, "parse error:", err)
				os.Exit(1)
			}
			files[p] = append(files[p], af)
		}
	}
	os.Chdir(repo) // the source importer resolves module imports relative to the working directory
	for _, p := range pkgs {
		info := &types.Info{Uses: map[*ast.Ident]types.Object{}, Defs: map[*ast.Ident]types.Object{},
			Selections: map[*ast.SelectorExpr]*types.Selection{}, Types: map[ast.Expr]types.TypeAndValue{}}
		path := modulePath
		if p != "" {
			path += "/" + p
		}
		conf := types.Config{Importer: importer.ForCompiler(fset, "source", nil), Error: func(err error) {}}
		conf.Check(path, fset, files[p], info)
		for _, af := range files[p] {
			for _, d := range af.Decls {
				if fd, ok := d.(*ast.FuncDecl); ok && fd.Body != nil {
					fi := &funcInfo{pkg: p, recv: recvName(fd), name: fd.Name.Name, decl: fd, info: info}
					funcs = append(funcs, fi)
					byKey[p+"."+fi.recv+"."+fi.name] = fi
				}
			}
		}
	}

	var out strings.Builder
	out.WriteString("/- GENERATED by factgen from the Go source of the repository on every check run. Do not edit. -/\n")
	out.WriteString("namespace Mux.Facts\n\n")
	out.WriteString("inductive LockEv where\n  | acqR | acqW | rel | read (what : String) | write (what : String)\n  deriving DecidableEq, Repr\n\n")
	out.WriteString("structure Global where\n  pkg : String\n  name : String\n  isSyncPool : Bool\n  isLock : Bool\n  mutatedIn : List String\n  guarded : Bool\n  deriving DecidableEq, Repr\n\n")
	js := map[string]any{}

	// ---- constants
	consts := map[string]string{}
	for _, p := range pkgs {
		for _, f := range files[p] {
			ast.Inspect(f, func(n ast.Node) bool {
				gd, ok := n.(*ast.GenDecl)
				if !ok || gd.Tok != token.CONST {
					return true
				}
				for _, s := range gd.Specs {
					vs := s.(*ast.ValueSpec)
					for i, nm := range vs.Names {
						if i < len(vs.Values) {
							if bl, ok := vs.Values[i].(*ast.BasicLit); ok {
								consts[nm.Name] = bl.Value
							}
						}
					}
				}
				return true
			})
		}
	}
	natConst := func(name string) string {
		v, ok := consts[name]
		if !ok {
			return "none"
		}
		if strings.HasPrefix(v, "'") {
			r, _, _, err := strconv.UnquoteChar(v[1:len(v)-1], '\'')
			if err != nil {
				return "none"
			}
			return fmt.Sprintf("some %d", r)
		}
		if n, err := strconv.Atoi(v); err == nil {
			return fmt.Sprintf("some %d", n)
		}
		if v == `""` {
			return "some 0"
		}
		return "none"
	}
	for _, c := range []string{"indexesSize", "handlersSize", "destroyMaxSize", "startByte", "endByte", "separatorByte", "ignoreByte"} {
		fmt.Fprintf(&out, "def %s : Option Nat := %s\n", c, natConst(c))
		js[c] = natConst(c)
	}
	fmt.Fprintf(&out, "def methodNotAllowedIsEmpty : Bool := %v\n", consts["methodNotAllowed"] == `""`)

	// ---- Methods table and the AnyMethods cut
	methods, anyCut := "none", "none"
	kinds := "none"
	for _, f := range files["internal/tree"] {
		ast.Inspect(f, func(n ast.Node) bool {
			vs, ok := n.(*ast.ValueSpec)
			if !ok {
				return true
			}
			for i, nm := range vs.Names {
				if i >= len(vs.Values) {
					continue
				}
				if nm.Name == "Methods" {
					if cl, ok := vs.Values[i].(*ast.CompositeLit); ok {
						var ms []string
						good := true
						for _, e := range cl.Elts {
							se, ok := e.(*ast.SelectorExpr)
							if !ok || !strings.HasPrefix(se.Sel.Name, "Method") {
								good = false
								break
							}
							ms = append(ms, strconv.Quote(strings.ToUpper(strings.TrimPrefix(se.Sel.Name, "Method"))))
						}
						if good {
							methods = "some [" + strings.Join(ms, ", ") + "]"
						}
					}
				}
				if nm.Name == "AnyMethods" {
					// Methods[:len(Methods)-N]
					if se, ok := vs.Values[i].(*ast.SliceExpr); ok && se.Low == nil {
						if be, ok := se.High.(*ast.BinaryExpr); ok && be.Op == token.SUB {
							if bl, ok := be.Y.(*ast.BasicLit); ok {
								anyCut = "some " + bl.Value
							}
						}
					}
				}
			}
			return true
		})
	}
	fmt.Fprintf(&out, "def methods : Option (List String) := %s\n", methods)
	fmt.Fprintf(&out, "def anyCut : Option Nat := %s\n", anyCut)
	js["methods"], js["anyCut"] = methods, anyCut

	// ---- kind order: the iota block of syntax.Type
	for _, f := range files["internal/syntax"] {
		for _, d := range f.Decls {
			gd, ok := d.(*ast.GenDecl)
			if !ok || gd.Tok != token.CONST || len(gd.Specs) == 0 {
				continue
			}
			first := gd.Specs[0].(*ast.ValueSpec)
			if id, ok := first.Type.(*ast.Ident); !ok || id.Name != "Type" {
				continue
			}
			if len(first.Values) != 1 {
				continue
			}
			if id, ok := first.Values[0].(*ast.Ident); !ok || id.Name != "iota" {
				continue
			}
			var ks []string
			for _, s := range gd.Specs {
				ks = append(ks, strconv.Quote(s.(*ast.ValueSpec).Names[0].Name))
			}
			kinds = "some [" + strings.Join(ks, ", ") + "]"
		}
	}
	fmt.Fprintf(&out, "def kindOrder : Option (List String) := %s\n", kinds)
	js["kindOrder"] = kinds

	// ---- priority weights: `int(n.segment.Type) * K` followed by `ret++` increments
	weights := "none"
	if fi := byKey["internal/tree.node.priority"]; fi != nil {
		k, incs := 0, 0
		ast.Inspect(fi.decl.Body, func(n ast.Node) bool {
			switch x := n.(type) {
			case *ast.BinaryExpr:
				if x.Op == token.MUL {
					if bl, ok := x.Y.(*ast.BasicLit); ok {
						k, _ = strconv.Atoi(bl.Value)
					} else if tv, ok := fi.info.Types[x.Y]; ok && tv.Value != nil { // a named constant (typeWeight)
						k, _ = strconv.Atoi(tv.Value.ExactString())
					}
				}
			case *ast.IncDecStmt:
				if x.Tok == token.INC {
					incs++
				}
			}
			return true
		})
		if k > 0 {
			weights = fmt.Sprintf("some (%d, %d)", k, incs)
		}
	}
	fmt.Fprintf(&out, "def priorityWeights : Option (Nat × Nat) := %s   -- (kind multiplier, number of +1 increments)\n", weights)
	js["priorityWeights"] = weights

	// ---- middleware concatenation order in Handle / Prefix / Resource
	concat := []string{}
	for _, key := range []string{".Router.Handle", ".Prefix.Handle", ".Resource.Handle", ".Prefix.Prefix", ".Prefix.Resource"} {
		fi := byKey[key]
		order := "unknown"
		if fi != nil {
			ast.Inspect(fi.decl.Body, func(n ast.Node) bool {
				ce, ok := n.(*ast.CallExpr)
				if !ok {
					return true
				}
				if se, ok := ce.Fun.(*ast.SelectorExpr); ok && se.Sel.Name == "Concat" && len(ce.Args) == 2 {
					a, b := exprString(ce.Args[0]), exprString(ce.Args[1])
					order = a + "," + b
				}
				return true
			})
		}
		concat = append(concat, fmt.Sprintf("(%s, %s)", strconv.Quote(strings.TrimPrefix(key, ".")), strconv.Quote(order)))
	}
	fmt.Fprintf(&out, "def concatOrder : List (String × String) := [%s]\n\n", strings.Join(concat, ", "))
	js["concatOrder"] = concat

	// ---- the bundled recovery options answer through http.Error(w, http.StatusText(status), status); and the shorthand
	// registration methods pass the method they are named after
	var recov []string
	for _, key := range []string{"..WithStatusRecovery", "..WithWriteRecovery", "..WithLogRecovery", "..WithSLogRecovery"} {
		fi := byKey[key]
		shape := "unknown"
		if fi != nil {
			// the http.Error call may sit in the option itself or in a helper of the package that the option calls with
			// its own arguments (statusRecovery(status, report)): parameters are renamed back to the caller's expressions
			var find func(fi *funcInfo, bind map[string]string, depth int)
			sub := func(e ast.Expr, bind map[string]string) string {
				if id, ok := e.(*ast.Ident); ok && bind[id.Name] != "" {
					return bind[id.Name]
				}
				return exprString(e)
			}
			find = func(fi *funcInfo, bind map[string]string, depth int) {
				ast.Inspect(fi.decl.Body, func(n ast.Node) bool {
					ce, ok := n.(*ast.CallExpr)
					if !ok {
						return true
					}
					if se, ok := ce.Fun.(*ast.SelectorExpr); ok && exprString(se.X) == "http" && se.Sel.Name == "Error" && len(ce.Args) == 3 {
						mid := sub(ce.Args[1], bind)
						if inner, ok := ce.Args[1].(*ast.CallExpr); ok {
							var as []string
							for _, a := range inner.Args {
								as = append(as, sub(a, bind))
							}
							mid = exprString(inner.Fun) + "(" + strings.Join(as, ",") + ")"
						}
						shape = sub(ce.Args[0], bind) + "|" + mid + "|" + sub(ce.Args[2], bind)
						return true
					}
					if depth >= 2 {
						return true
					}
					var callee *funcInfo
					if id, ok := ce.Fun.(*ast.Ident); ok {
						if fn, ok := fi.info.Uses[id].(*types.Func); ok {
							callee = lookupFunc(fn)
						}
					}
					if callee != nil && callee.pkg == fi.pkg && callee != fi && callee.decl.Body != nil && !strings.HasPrefix(callee.name, "With") {
						b := map[string]string{}
						i := 0
						for _, fld := range callee.decl.Type.Params.List {
							for _, pn := range fld.Names {
								if i < len(ce.Args) {
									b[pn.Name] = sub(ce.Args[i], bind)
								}
								i++
							}
						}
						find(callee, b, depth+1)
					}
					return true
				})
			}
			find(fi, map[string]string{}, 0)
		}
		recov = append(recov, fmt.Sprintf("(%s, %s)", strconv.Quote(strings.TrimLeft(key, ".")), strconv.Quote(shape)))
	}
	fmt.Fprintf(&out, "def recoveryShapes : List (String × String) := [%s]\n", strings.Join(recov, ", "))
	js["recoveryShapes"] = recov
	var sts []string
	for code := 0; code < 600; code++ {
		sts = append(sts, fmt.Sprintf("(%d, %d)", code, len(http.StatusText(code))))
	}
	fmt.Fprintf(&out, "def statusTextLens : List (Nat × Nat) := [%s]   -- len(http.StatusText(code)) of the Go toolchain in use\n", strings.Join(sts, ", "))
	var shorts []string
	for _, recv := range []string{"Router", "Prefix", "Resource"} {
		for _, name := range []string{"Get", "Post", "Delete", "Put", "Patch", "Any"} {
			fi := byKey["."+recv+"."+name]
			arg := "unknown"
			if fi != nil {
				ast.Inspect(fi.decl.Body, func(n ast.Node) bool {
					ce, ok := n.(*ast.CallExpr)
					if !ok {
						return true
					}
					if se, ok := ce.Fun.(*ast.SelectorExpr); ok && se.Sel.Name == "Handle" {
						arg = "-"
						if len(ce.Args) > 0 {
							if last := exprString(ce.Args[len(ce.Args)-1]); strings.HasPrefix(last, "http.Method") {
								arg = strings.ToUpper(strings.TrimPrefix(last, "http.Method"))
							}
						}
					}
					return true
				})
			}
			shorts = append(shorts, fmt.Sprintf("(%s, %s)", strconv.Quote(recv+"."+name), strconv.Quote(arg)))
		}
	}
	fmt.Fprintf(&out, "def shorthandMethods : List (String × String) := [%s]\n\n", strings.Join(shorts, ", "))
	js["shorthandMethods"] = shorts

	// ---- the order of the calls in Tree.Add (every validation before the first mutation) and in Router.serveContext
	// The calls of interest are listed in source order, looking through helpers of the same package (a validation or a
	// recover block moved into a helper keeps its place) and through function-typed parameters (a helper that receives
	// r.recoverFunc as `f` and calls f(...) is a call of recoverFunc). Other calls (locking helpers, header writes,
	// formatting) do not take part: a refactoring may add or move them freely.
	callOrder := func(key string, interesting map[string]bool) string {
		fi := byKey[key]
		if fi == nil {
			return "none"
		}
		var names []string
		var walk func(fi *funcInfo, bind map[string]string, depth int)
		walk = func(fi *funcInfo, bind map[string]string, depth int) {
			ast.Inspect(fi.decl.Body, func(n ast.Node) bool {
				ce, ok := n.(*ast.CallExpr)
				if !ok {
					return true
				}
				nm := calleeName(ce)
				if id, isId := ce.Fun.(*ast.Ident); isId && bind[id.Name] != "" {
					nm = bind[id.Name]
				}
				if interesting[nm] {
					names = append(names, strconv.Quote(nm))
					return true
				}
				if depth >= 3 {
					return true
				}
				var callee *funcInfo
				switch f := ce.Fun.(type) {
				case *ast.Ident:
					if fn, ok := fi.info.Uses[f].(*types.Func); ok {
						callee = lookupFunc(fn)
					}
				case *ast.SelectorExpr:
					if fn, ok := fi.info.Uses[f.Sel].(*types.Func); ok {
						callee = lookupFunc(fn)
					}
				}
				if callee != nil && callee.pkg == fi.pkg && callee != fi && callee.decl.Body != nil {
					b := map[string]string{}
					i := 0
					for _, fld := range callee.decl.Type.Params.List {
						for _, pn := range fld.Names {
							if i < len(ce.Args) {
								switch a := ce.Args[i].(type) {
								case *ast.Ident:
									b[pn.Name] = a.Name
									if bind[a.Name] != "" {
										b[pn.Name] = bind[a.Name]
									}
								case *ast.SelectorExpr:
									b[pn.Name] = a.Sel.Name
								}
							}
							i++
						}
					}
					walk(callee, b, depth+1)
				}
				return true
			})
		}
		walk(fi, map[string]string{}, 0)
		return "some [" + strings.Join(names, ", ") + "]"
	}
	fmt.Fprintf(&out, "def addCallOrder : Option (List String) := %s\n", callOrder("internal/tree.Tree.Add", map[string]bool{"checkAmbiguous": true, "Split": true, "checkMethods": true, "getNode": true, "addMethods": true, "addSegment": true, "splitNode": true}))
	fmt.Fprintf(&out, "def serveCallOrder : Option (List String) := %s\n\n", callOrder(".Router.serveContext", map[string]bool{"recover": true, "recoverFunc": true, "panic": true, "Destroy": true, "Handler": true, "SetNode": true, "handle": true, "call": true}))

	// ---- which functions write shared state, directly or through a callee (fixpoint over the static call graph)
	writes := map[string]bool{}
	wset := map[*funcInfo]bool{}
	for _, fi := range funcs {
		if len(sharedWrites(fi)) > 0 {
			wset[fi] = true
		}
	}
	for changed := true; changed; {
		changed = false
		for _, fi := range funcs {
			if wset[fi] {
				continue
			}
			for _, g := range callees(fi) {
				if wset[g] {
					wset[fi] = true
					changed = true
					break
				}
			}
		}
	}
	for fi := range wset {
		if fi.pkg == "internal/tree" {
			writes[fi.name] = true
		}
	}

	// ---- lock shapes of the Tree API and of the node helpers called from handlers
	api := []string{"Tree.Add", "Tree.Remove", "Tree.Clean", "Tree.Routes", "Tree.URL", "Tree.Handler", "node.AllowHeader", "node.Methods", "node.methodIndexEntity"}
	var shapes []string
	shapeJS := map[string][]string{}
	for _, a := range api {
		fi := byKey["internal/tree."+a]
		if fi == nil {
			shapes = append(shapes, fmt.Sprintf("(%s, none)", strconv.Quote(a)))
			continue
		}
		evs := lockShape(fi, writes, 0)
		shapeJS[a] = evs
		shapes = append(shapes, fmt.Sprintf("(%s, some [%s])", strconv.Quote(a), strings.Join(evs, ", ")))
	}
	fmt.Fprintf(&out, "def lockShapes : List (String × Option (List LockEv)) := [\n  %s]\n\n", strings.Join(shapes, ",\n  "))
	js["lockShapes"] = shapeJS

	// ---- package-level variables
	var globals []*global
	for _, p := range pkgs {
		for _, f := range files[p] {
			for _, d := range f.Decls {
				gd, ok := d.(*ast.GenDecl)
				if !ok || gd.Tok != token.VAR {
					continue
				}
				for _, s := range gd.Specs {
					vs := s.(*ast.ValueSpec)
					for i, nm := range vs.Names {
						g := &global{Pkg: p, Name: nm.Name}
						if vs.Type != nil {
							g.Type = exprString(vs.Type)
						}
						if i < len(vs.Values) {
							v := exprString(vs.Values[i])
							if strings.Contains(v, "sync.Pool") {
								g.IsSyncPool = true
							}
						}
						if strings.Contains(g.Type, "sync.RWMutex") || strings.Contains(g.Type, "sync.Mutex") {
							g.IsLock = true
						}
						globals = append(globals, g)
					}
				}
			}
		}
	}
	for _, g := range globals {
		for _, fi := range funcs {
			if fi.pkg != g.Pkg {
				continue
			}
			acc, mut := globalAccess(fi, g.Name)
			if fi.name == "init" && fi.recv == "" {
				continue
			}
			if acc {
				g.AccessedIn = append(g.AccessedIn, fi.recv+"."+fi.name)
			}
			if mut {
				g.MutatedIn = append(g.MutatedIn, fi.recv+"."+fi.name)
			}
		}
	}
	// guard: a package lock such that every accessing function takes it first (Lock for writers)
	for _, g := range globals {
		if len(g.MutatedIn) == 0 || g.IsSyncPool {
			continue
		}
		for _, l := range globals {
			if !l.IsLock || l.Pkg != g.Pkg {
				continue
			}
			ok := true
			for _, fi := range funcs {
				if fi.pkg != g.Pkg || (fi.name == "init" && fi.recv == "") {
					continue
				}
				acc, mut := globalAccess(fi, g.Name)
				if !acc {
					continue
				}
				if !takesLockFirst(fi, l.Name, g.Name, mut) {
					ok = false
				}
			}
			if ok {
				g.GuardedBy, g.Guarded = l.Name, true
			}
		}
	}
	var gl []string
	for _, g := range globals {
		var mi []string
		for _, m := range g.MutatedIn {
			mi = append(mi, strconv.Quote(m))
		}
		gl = append(gl, fmt.Sprintf("{ pkg := %s, name := %s, isSyncPool := %v, isLock := %v, mutatedIn := [%s], guarded := %v }",
			strconv.Quote(g.Pkg), strconv.Quote(g.Name), g.IsSyncPool, g.IsLock, strings.Join(mi, ", "), g.Guarded))
	}
	fmt.Fprintf(&out, "def globals : List Global := [\n  %s]\n\n", strings.Join(gl, ",\n  "))
	js["globals"] = globals

	// ---- write set of the serve path: writes to shared state in functions statically reachable from ServeHTTP
	// (matcher combinators are reached through function values: their closures are roots too)
	reach := map[*funcInfo]bool{}
	var work []*funcInfo
	for _, k := range []string{".Router.ServeHTTP", ".Group.ServeHTTP", "..AndMatcher", "..OrMatcher", "..anyRouter", ".MatcherFunc.Match"} {
		if fi := byKey[k]; fi != nil {
			reach[fi] = true
			work = append(work, fi)
		}
	}
	for len(work) > 0 {
		fi := work[len(work)-1]
		work = work[:len(work)-1]
		for _, g := range callees(fi) {
			if !reach[g] {
				reach[g] = true
				work = append(work, g)
			}
		}
	}
	var sw []string
	for _, fi := range funcs {
		if !reach[fi] {
			continue
		}
		for _, w := range sharedWrites(fi) {
			sw = append(sw, strconv.Quote(fi.recv+"."+fi.name+":"+w))
		}
	}
	sort.Strings(sw)
	fmt.Fprintf(&out, "def serveWrites : List String := [%s]\n", strings.Join(sw, ", "))
	var rn []string
	for fi := range reach {
		rn = append(rn, fi.recv+"."+fi.name)
	}
	sort.Strings(rn)
	var rq []string
	for _, r := range rn {
		rq = append(rq, strconv.Quote(r))
	}
	fmt.Fprintf(&out, "def serveReach : List String := [%s]\n", strings.Join(rq, ", "))
	js["serveReach"], js["serveWrites"] = rn, sw

	// ---- fault-site inventory of the functions the model mirrors with explicit faults
	inv := []string{"internal/syntax.Interceptors.NewSegment", "internal/syntax.Interceptors.Split", "internal/syntax..splitString", "internal/syntax.Segment.cleanName",
		"internal/syntax.Segment.Match", "internal/syntax..longestPrefix", "internal/syntax.Segment.Split", "internal/syntax.Segment.Valid",
		"internal/tree.node.matchChildren", "internal/tree.node.buildIndexes", "internal/tree.node.checkAmbiguous", "internal/tree.Tree.Handler",
		".Hosts.Match", "..validOptionalPort", ".pathVersion.Match", "..NewPathVersion", ".headerVersion.Match", ".cors.handle", ".cors.headerIsAllowed"}
	var fs []string
	fjs := map[string][4]int{}
	for _, k := range inv {
		fi := byKey[k]
		if fi == nil {
			fs = append(fs, fmt.Sprintf("(%s, none)", strconv.Quote(k)))
			continue
		}
		var idx, sl, ta, pn int
		ast.Inspect(fi.decl.Body, func(n ast.Node) bool {
			switch x := n.(type) {
			case *ast.IndexExpr:
				idx++
			case *ast.SliceExpr:
				sl++
			case *ast.TypeAssertExpr:
				ta++
			case *ast.CallExpr:
				if id, ok := x.Fun.(*ast.Ident); ok && id.Name == "panic" {
					pn++
				}
			}
			return true
		})
		fjs[k] = [4]int{idx, sl, ta, pn}
		fs = append(fs, fmt.Sprintf("(%s, some (%d, %d, %d, %d))", strconv.Quote(k), idx, sl, ta, pn))
	}
	fmt.Fprintf(&out, "/-- per function: (index expressions, slice expressions, type assertions, panic calls) -/\ndef faultSites : List (String × Option (Nat × Nat × Nat × Nat)) := [\n  %s]\n", strings.Join(fs, ",\n  "))
	js["faultSites"] = fjs

	out.WriteString("\nend Mux.Facts\n")
	if err := os.WriteFile(os.Args[2], []byte(out.String()), 0o644); err != nil {
		fmt.Fprintln(os.Stderr, err)
		os.Exit(1)
	}
	if len(os.Args) > 3 {
		b, _ := json.MarshalIndent(js, "", " ")
		os.WriteFile(os.Args[3], b, 0o644)
	}
	// leaf functions translated to Lean (go2lean.go), next to Facts.lean
	writeFuncs(filepath.Join(filepath.Dir(os.Args[2]), "Funcs.lean"))
}

func writeFile(path, content string) {
	if err := os.WriteFile(path, []byte(content), 0o644); err != nil {
		fmt.Fprintln(os.Stderr, err)
		os.Exit(1)
	}
}

func exprString(e ast.Expr) string {
	switch x := e.(type) {
	case *ast.Ident:
		return x.Name
	case *ast.SelectorExpr:
		return exprString(x.X) + "." + x.Sel.Name
	case *ast.StarExpr:
		return "*" + exprString(x.X)
	case *ast.UnaryExpr:
		return x.Op.String() + exprString(x.X)
	case *ast.CompositeLit:
		return exprString(x.Type) + "{}"
	case *ast.CallExpr:
		return exprString(x.Fun) + "()"
	case *ast.MapType:
		return "map[" + exprString(x.Key) + "]" + exprString(x.Value)
	case *ast.ArrayType:
		return "[]" + exprString(x.Elt)
	case *ast.IndexExpr:
		return exprString(x.X) + "[" + exprString(x.Index) + "]"
	case *ast.SliceExpr:
		return exprString(x.X) + "[:]"
	case *ast.BasicLit:
		return x.Value
	case *ast.BinaryExpr:
		return exprString(x.X) + x.Op.String() + exprString(x.Y)
	case nil:
		return ""
	}
	return "?"
}

func calleeName(ce *ast.CallExpr) string {
	switch f := ce.Fun.(type) {
	case *ast.Ident:
		return f.Name
	case *ast.SelectorExpr:
		return f.Sel.Name
	case *ast.IndexExpr: // generic instantiation f[T](…)
		if id, ok := f.X.(*ast.Ident); ok {
			return id.Name
		}
	}
	return ""
}

func byNameInTree(name string) bool {
	for _, fi := range funcs {
		if fi.pkg == "internal/tree" && fi.name == name {
			return true
		}
	}
	return false
}

// rootIdent returns the identifier at the root of a selector/index chain.
func rootIdent(e ast.Expr) string {
	for {
		switch x := e.(type) {
		case *ast.Ident:
			return x.Name
		case *ast.SelectorExpr:
			e = x.X
		case *ast.IndexExpr:
			e = x.X
		case *ast.SliceExpr:
			e = x.X
		case *ast.StarExpr:
			e = x.X
		case *ast.ParenExpr:
			e = x.X
		default:
			return ""
		}
	}
}

// fieldWrites lists assignments / map writes / delete / clear on fields reached from `root`.
func fieldWrites(fi *funcInfo, root string) []string {
	var out []string
	if root == "" {
		return nil
	}
	ast.Inspect(fi.decl.Body, func(n ast.Node) bool {
		switch x := n.(type) {
		case *ast.AssignStmt:
			for _, l := range x.Lhs {
				if _, isIdent := l.(*ast.Ident); isIdent {
					continue
				}
				if rootIdent(l) == root {
					out = append(out, exprString(l))
				}
			}
		case *ast.IncDecStmt:
			if _, isIdent := x.X.(*ast.Ident); !isIdent && rootIdent(x.X) == root {
				out = append(out, exprString(x.X))
			}
		case *ast.CallExpr:
			if id, ok := x.Fun.(*ast.Ident); ok && (id.Name == "delete" || id.Name == "clear") && len(x.Args) > 0 {
				if _, isIdent := x.Args[0].(*ast.Ident); !isIdent && rootIdent(x.Args[0]) == root {
					out = append(out, id.Name+"("+exprString(x.Args[0])+")")
				}
			}
		}
		return true
	})
	return out
}

// directWrite: does a function of package tree assign to a field of any node/Tree value?
func directWrite(fi *funcInfo) bool {
	w := false
	ast.Inspect(fi.decl.Body, func(n ast.Node) bool {
		switch x := n.(type) {
		case *ast.AssignStmt:
			for _, l := range x.Lhs {
				switch l.(type) {
				case *ast.SelectorExpr, *ast.IndexExpr:
					if r := rootIdent(l); r != "" && !isLocalMapOrSlice(fi, r) {
						w = true
					}
				}
			}
		case *ast.IncDecStmt:
			if _, ok := x.X.(*ast.Ident); !ok {
				w = true
			}
		case *ast.CallExpr:
			if id, ok := x.Fun.(*ast.Ident); ok && (id.Name == "delete" || id.Name == "clear") {
				w = true
			}
		}
		return true
	})
	return w
}

// a root identifier declared inside the function with := make(...) / a literal is local scratch state
func isLocalMapOrSlice(fi *funcInfo, name string) bool {
	local := false
	ast.Inspect(fi.decl.Body, func(n ast.Node) bool {
		if as, ok := n.(*ast.AssignStmt); ok && as.Tok == token.DEFINE {
			for i, l := range as.Lhs {
				if id, ok := l.(*ast.Ident); ok && id.Name == name && i < len(as.Rhs) {
					switch r := as.Rhs[i].(type) {
					case *ast.CallExpr:
						if f, ok := r.Fun.(*ast.Ident); ok && f.Name == "make" {
							local = true
						}
					case *ast.CompositeLit:
						local = true
					}
				}
			}
		}
		return true
	})
	// parameters that are maps filled for the caller (e.g. routes map[string][]string) are scratch too
	if fi.decl.Type.Params != nil {
		for _, p := range fi.decl.Type.Params.List {
			if _, ok := p.Type.(*ast.MapType); ok {
				for _, nm := range p.Names {
					if nm.Name == name {
						local = true
					}
				}
			}
		}
	}
	return local
}

// lockShape: the ordered events of a Tree/node method: lock acquisitions (the `if x.locker != nil {…Lock()}` idiom),
// and accesses to shared tree state (tree.node…, tree.methods, tree.notFound, tree.trace, n.methodIndex, calls of
// node/Tree methods, classified read/write by the fixpoint `writes`).
func lockShape(fi *funcInfo, writes map[string]bool, depth int) []string {
	var evs []string
	recv := recvVar(fi.decl)
	releaseVars := map[string]bool{} // locals holding the release function of an acquire-and-return-release helper
	var visitStmt func(s ast.Stmt)
	access := func(e ast.Node) {
		ast.Inspect(e, func(n ast.Node) bool {
			switch x := n.(type) {
			case *ast.DeferStmt:
				if isReleaseCall(x.Call) {
					return false // the lock is held until the function returns
				}
				if inner, ok := x.Call.Fun.(*ast.CallExpr); ok { // defer tree.lockWrite()()
					if m := acquireReturningRelease(treeFunc(calleeName(inner))); m != "" {
						evs = append(evs, m)
						return false
					}
				}
				if id, ok := x.Call.Fun.(*ast.Ident); ok && releaseVars[id.Name] { // unlock := tree.lockRead(); defer unlock()
					return false
				}
			case *ast.CallExpr:
				nm := calleeName(x)
				if se, ok := x.Fun.(*ast.SelectorExpr); ok {
					if nm == "Unlock" || nm == "RUnlock" {
						evs = append(evs, ".rel") // an explicit release in the middle of the function
						return false
					}
					if nm == "Lock" || nm == "RLock" {
						return false
					}
					root := rootIdent(se.X)
					_ = root
					if callee := treeFunc(nm); callee != nil && depth < 3 {
						if callee.recv == "Tree" {
							// inline the callee's own shape (it may lock itself; its deferred unlock runs when it returns)
							inner := lockShape(callee, writes, depth+1)
							evs = append(evs, inner...)
							if hasDeferredRelease(callee) { // a helper that only acquires (tree.lock()) keeps the lock for its caller
								for _, e := range inner {
									if e == ".acqR" || e == ".acqW" {
										evs = append(evs, ".rel")
										break
									}
								}
							}
						} else if callee.recv == "node" {
							if writes[nm] {
								evs = append(evs, fmt.Sprintf(".write %s", strconv.Quote("node."+nm)))
							} else {
								evs = append(evs, fmt.Sprintf(".read %s", strconv.Quote("node."+nm)))
							}
						}
					}
				} else if id, ok := x.Fun.(*ast.Ident); ok {
					if callee := treeFunc(id.Name); callee != nil && callee.recv == "" && depth < 3 && id.Name != "buildMethodIndexes" && id.Name != "getMethodIndexEntity" {
						if writes[id.Name] {
							evs = append(evs, fmt.Sprintf(".write %s", strconv.Quote(id.Name)))
						}
					}
				}
			case *ast.AssignStmt:
				if len(x.Lhs) == 1 && len(x.Rhs) == 1 {
					if ce, ok := x.Rhs[0].(*ast.CallExpr); ok {
						if m := acquireReturningRelease(treeFunc(calleeName(ce))); m != "" {
							if id, ok := x.Lhs[0].(*ast.Ident); ok {
								releaseVars[id.Name] = true
								evs = append(evs, m)
								return false
							}
						}
					}
				}
				for _, l := range x.Lhs {
					if _, isIdent := l.(*ast.Ident); !isIdent && sharedChain(fi, l) {
						evs = append(evs, fmt.Sprintf(".write %s", strconv.Quote("direct:"+exprString(l))))
					}
				}
			case *ast.SelectorExpr:
				// field reads of shared state
				if id, ok := x.X.(*ast.Ident); ok && id.Name == recv {
					switch x.Sel.Name {
					case "node", "methods", "notFound", "trace", "methodIndex", "handlers", "children", "indexes", "segment":
						evs = append(evs, fmt.Sprintf(".read %s", strconv.Quote(fi.recv+"."+x.Sel.Name)))
					}
				} else if tv, ok := fi.info.Types[x.X]; ok && fi.recv == "Tree" && namedOf(tv.Type) == "node" {
					// a field of a tree node reached through a local variable (curr.parent, node.segment, child.handlers …)
					if sel := fi.info.Selections[x]; sel != nil && sel.Kind() == types.FieldVal {
						evs = append(evs, fmt.Sprintf(".read %s", strconv.Quote("nodeField:"+x.Sel.Name)))
					}
				}
			}
			return true
		})
	}
	visitStmt = func(s ast.Stmt) {
		if is, ok := s.(*ast.IfStmt); ok {
			// lock idiom?
			cond := exprString(is.Cond)
			if strings.Contains(cond, "locker") {
				mode := ""
				ast.Inspect(is.Body, func(n ast.Node) bool {
					if ce, ok := n.(*ast.CallExpr); ok {
						switch calleeName(ce) {
						case "Lock":
							mode = ".acqW"
						case "RLock":
							mode = ".acqR"
						}
					}
					return true
				})
				if mode != "" {
					evs = append(evs, mode)
					return
				}
			}
		}
		access(s)
	}
	for _, s := range fi.decl.Body.List {
		visitStmt(s)
	}
	// collapse consecutive duplicates
	var out []string
	for _, e := range evs {
		if len(out) == 0 || out[len(out)-1] != e {
			out = append(out, e)
		}
	}
	return out
}

// releaseOnly: a helper whose body releases the tree lock and never acquires it (tree.unlock(), tree.runlock()).
func releaseOnly(fi *funcInfo) bool {
	rel, acq := false, false
	ast.Inspect(fi.decl.Body, func(n ast.Node) bool {
		if ce, ok := n.(*ast.CallExpr); ok {
			switch calleeName(ce) {
			case "Unlock", "RUnlock":
				rel = true
			case "Lock", "RLock":
				acq = true
			}
		}
		return true
	})
	return rel && !acq
}

// acquireReturningRelease: a helper that takes the tree lock and hands the matching release back to its caller
// (`func (tree *Tree) lockWrite() func()`, used as `defer tree.lockWrite()()` or `unlock := tree.lockRead(); defer unlock()`).
// Returns ".acqW" / ".acqR", or "" when fi is not such a helper.
func acquireReturningRelease(fi *funcInfo) string {
	if fi == nil || fi.decl.Body == nil || fi.decl.Type.Results == nil || len(fi.decl.Type.Results.List) != 1 {
		return ""
	}
	if _, ok := fi.decl.Type.Results.List[0].Type.(*ast.FuncType); !ok {
		return ""
	}
	mode, relValue, relCall := "", false, false
	ast.Inspect(fi.decl.Body, func(n ast.Node) bool {
		switch x := n.(type) {
		case *ast.CallExpr:
			switch calleeName(x) {
			case "Lock":
				mode = ".acqW"
			case "RLock":
				mode = ".acqR"
			case "Unlock", "RUnlock":
				relCall = true // released inside a returned closure is fine, a direct call is not
			}
		case *ast.ReturnStmt:
			for _, r := range x.Results {
				if se, ok := r.(*ast.SelectorExpr); ok && (se.Sel.Name == "Unlock" || se.Sel.Name == "RUnlock") {
					relValue = true
				}
				if fl, ok := r.(*ast.FuncLit); ok {
					ast.Inspect(fl.Body, func(m ast.Node) bool {
						if ce, ok := m.(*ast.CallExpr); ok && (calleeName(ce) == "Unlock" || calleeName(ce) == "RUnlock") {
							relValue = true
						}
						return true
					})
				}
			}
		}
		return true
	})
	_ = relCall
	if mode != "" && relValue {
		return mode
	}
	return ""
}

func isReleaseCall(ce *ast.CallExpr) bool {
	nm := calleeName(ce)
	if nm == "Unlock" || nm == "RUnlock" {
		return true
	}
	if callee := treeFunc(nm); callee != nil && callee.decl.Body != nil && releaseOnly(callee) {
		return true
	}
	return false
}

func hasDeferredRelease(fi *funcInfo) bool {
	found := false
	ast.Inspect(fi.decl.Body, func(n ast.Node) bool {
		if d, ok := n.(*ast.DeferStmt); ok && isReleaseCall(d.Call) {
			found = true
		}
		if d, ok := n.(*ast.DeferStmt); ok {
			if inner, ok := d.Call.Fun.(*ast.CallExpr); ok && acquireReturningRelease(treeFunc(calleeName(inner))) != "" {
				found = true
			}
		}
		return true
	})
	return found
}

func treeFunc(name string) *funcInfo {
	for _, fi := range funcs {
		if fi.pkg == "internal/tree" && fi.name == name {
			return fi
		}
	}
	return nil
}

// globalAccess: does the function mention the package-level variable, and does it mutate it?
func globalAccess(fi *funcInfo, name string) (acc, mut bool) {
	// a local or parameter of the same name shadows the global
	shadow := false
	if fi.decl.Type.Params != nil {
		for _, p := range fi.decl.Type.Params.List {
			for _, nm := range p.Names {
				if nm.Name == name {
					shadow = true
				}
			}
		}
	}
	if shadow {
		return false, false
	}
	ast.Inspect(fi.decl.Body, func(n ast.Node) bool {
		switch x := n.(type) {
		case *ast.Ident:
			if x.Name == name && x.Obj == nil {
				acc = true
			}
		case *ast.AssignStmt:
			for _, l := range x.Lhs {
				if rootIdent(l) == name {
					if id, ok := l.(*ast.Ident); ok && x.Tok == token.DEFINE && id.Name == name {
						continue
					}
					mut = true
					acc = true
				}
			}
		case *ast.CallExpr:
			if id, ok := x.Fun.(*ast.Ident); ok && (id.Name == "delete" || id.Name == "clear") && len(x.Args) > 0 && rootIdent(x.Args[0]) == name {
				mut = true
				acc = true
			}
		}
		return true
	})
	return
}

// takesLockFirst: the first statements of the function take `lock` (Lock for a mutating function) before `name` is mentioned.
func takesLockFirst(fi *funcInfo, lock, name string, mut bool) bool {
	for _, s := range fi.decl.Body.List {
		mentions := false
		ast.Inspect(s, func(n ast.Node) bool {
			if id, ok := n.(*ast.Ident); ok && id.Name == name {
				mentions = true
			}
			return true
		})
		if es, ok := s.(*ast.ExprStmt); ok {
			if ce, ok := es.X.(*ast.CallExpr); ok {
				if se, ok := ce.Fun.(*ast.SelectorExpr); ok && rootIdent(se.X) == lock {
					if se.Sel.Name == "Lock" || (se.Sel.Name == "RLock" && !mut) {
						return true
					}
				}
			}
		}
		if mentions {
			return false
		}
	}
	return false
}
