package main

// go2lean: a tiny translator from a first-order subset of Go to Lean 4 `do` notation (DESIGN §5.3).
//
// It turns a few LEAF FUNCTIONS of the library (string scanners without calls into the rest of the code) into Lean
// definitions in the monad `Mux.Go.M = Except Unit`, regenerated from the current source on every run
// (lean/Mux/Generated/Funcs.lean). `lean/Mux/Ties/Funcs.lean` proves each generated definition equal to the hand-written
// model function — for all inputs, by induction/loop invariants, including the absence of index faults — so for these
// functions the tie between model and code is a theorem about the translated source text, not a sampled comparison.
//
// Subset (anything else makes the function "untranslatable", which breaks the tie theorem of that function only):
//   types       string (-> Bytes = List UInt8), int (-> Int), byte/uint8 and the rune of a range-over-string (-> UInt8), bool
//   statements  x := e | x = e | var x T | if/else | return e | switch tag { case c: ... } without fallthrough |
//               for i := 0; i < bound; i++ { } with i and the variables of bound not assigned in the body |
//               for _, c := range <string expr> { }
//   expressions constants (folded by go/types), locals, len(s), s[i], s[a:b], s[a:], s[:b], == != < <= > >=, && || !, + -
//
// What the translator assumes (trusted, DESIGN §9): Go ints do not overflow on these inputs (Lean `Int`); `for _, c := range s`
// iterates RUNES in Go and BYTES in the translation — the translator accepts such a loop only if `c` is used exclusively in
// comparisons with constants below 0x80, whose truth value is the same for every byte >= 0x80 and every rune >= 0x80
// (including U+FFFD), so both loops return at corresponding places; `(← e)` hoists an index expression out of a
// short-circuit operator, which can only ADD a fault to the translation, never hide one.

import (
	"fmt"
	"go/ast"
	"go/constant"
	"go/token"
	"go/types"
	"strings"
)

type l2 struct {
	info    *types.Info
	err     string
	tmp     int
	noWrite map[string]bool // variables a surrounding counted loop relies on
	ascii   map[string]bool // range-over-string variables (used only in ASCII comparisons)
}

func (t *l2) fail(format string, a ...any) string {
	if t.err == "" {
		t.err = fmt.Sprintf(format, a...)
	}
	return "sorry"
}

func (t *l2) leanType(ty types.Type) string {
	switch u := ty.Underlying().(type) {
	case *types.Basic:
		switch u.Kind() {
		case types.String, types.UntypedString:
			return "Bytes"
		case types.Int, types.UntypedInt:
			return "Int"
		case types.Uint8, types.Int32, types.UntypedRune: // byte; rune only as a range variable (checked separately)
			return "UInt8"
		case types.Bool, types.UntypedBool:
			return "Bool"
		}
	}
	return t.fail("unsupported type %s", ty)
}

func bytesLit(s string) string {
	if s == "" {
		return "([] : Bytes)"
	}
	parts := make([]string, len(s))
	for i := 0; i < len(s); i++ {
		parts[i] = fmt.Sprint(s[i])
	}
	return "([" + strings.Join(parts, ", ") + "] : Bytes)"
}

func (t *l2) constant(e ast.Expr, want types.Type) (string, bool) {
	tv, ok := t.info.Types[e]
	if !ok || tv.Value == nil {
		return "", false
	}
	switch tv.Value.Kind() {
	case constant.Int:
		n, _ := constant.Int64Val(tv.Value)
		if n < 0 {
			return fmt.Sprintf("(%d)", n), true
		}
		return fmt.Sprint(n), true
	case constant.String:
		return bytesLit(constant.StringVal(tv.Value)), true
	case constant.Bool:
		return fmt.Sprint(constant.BoolVal(tv.Value)), true
	}
	return "", false
}

func (t *l2) isASCIIConst(e ast.Expr) bool {
	tv, ok := t.info.Types[e]
	if !ok || tv.Value == nil || tv.Value.Kind() != constant.Int {
		return false
	}
	n, _ := constant.Int64Val(tv.Value)
	return n >= 0 && n < 128
}

func (t *l2) expr(e ast.Expr) string {
	if c, ok := t.constant(e, nil); ok {
		return c
	}
	switch x := e.(type) {
	case *ast.ParenExpr:
		return t.expr(x.X)
	case *ast.Ident:
		return "v_" + x.Name
	case *ast.CallExpr:
		if id, ok := x.Fun.(*ast.Ident); ok && id.Name == "len" && len(x.Args) == 1 {
			return "(Go.len " + t.expr(x.Args[0]) + ")"
		}
		if id, ok := x.Fun.(*ast.Ident); ok && (id.Name == "min" || id.Name == "max") && len(x.Args) == 2 && t.info.Uses[id] != nil && t.info.Uses[id].Pkg() == nil {
			if bt, ok := t.info.Types[e].Type.Underlying().(*types.Basic); ok && bt.Kind() == types.Int {
				return "(" + id.Name + " " + t.expr(x.Args[0]) + " " + t.expr(x.Args[1]) + ")"
			}
		}
		return t.fail("call %s", types.ExprString(x.Fun))
	case *ast.IndexExpr:
		return "(← Go.idx " + t.expr(x.X) + " " + t.expr(x.Index) + ")"
	case *ast.SliceExpr:
		if x.Slice3 {
			return t.fail("3-index slice")
		}
		s := t.expr(x.X)
		lo, hi := "0", "(Go.len "+s+")"
		if x.Low != nil {
			lo = t.expr(x.Low)
		}
		if x.High != nil {
			hi = t.expr(x.High)
		}
		return "(← Go.slice " + s + " " + lo + " " + hi + ")"
	case *ast.UnaryExpr:
		if x.Op == token.NOT {
			return "(!" + t.expr(x.X) + ")"
		}
		if x.Op == token.SUB {
			return "(-" + t.expr(x.X) + ")"
		}
	case *ast.BinaryExpr:
		for _, side := range [2][2]ast.Expr{{x.X, x.Y}, {x.Y, x.X}} {
			if id, ok := side[0].(*ast.Ident); ok && t.ascii[id.Name] {
				switch x.Op {
				case token.EQL, token.NEQ, token.LSS, token.LEQ, token.GTR, token.GEQ:
					if !t.isASCIIConst(side[1]) {
						return t.fail("range variable %s compared with something that is not an ASCII constant", id.Name)
					}
				default:
					return t.fail("range variable %s used outside a comparison", id.Name)
				}
			}
		}
		a, b := t.expr(x.X), t.expr(x.Y)
		switch x.Op {
		case token.EQL:
			return "(" + a + " == " + b + ")"
		case token.NEQ:
			return "(" + a + " != " + b + ")"
		case token.LSS, token.LEQ, token.GTR, token.GEQ:
			return "(decide (" + a + " " + map[token.Token]string{token.LSS: "<", token.LEQ: "≤", token.GTR: ">", token.GEQ: "≥"}[x.Op] + " " + b + "))"
		case token.LAND:
			return "(" + a + " && " + b + ")"
		case token.LOR:
			return "(" + a + " || " + b + ")"
		case token.ADD, token.SUB:
			if bt, ok := t.info.Types[e].Type.Underlying().(*types.Basic); !ok || bt.Kind() != types.Int {
				return t.fail("arithmetic on %s", t.info.Types[e].Type)
			}
			return "(" + a + " " + x.Op.String() + " " + b + ")"
		}
	}
	return t.fail("expression %s", types.ExprString(e))
}

// every identifier occurrence of a range variable must sit directly in a comparison (checked in expr); here: count uses
func (t *l2) usesOutsideComparison(body ast.Node, name string) bool {
	bad := false
	var parents []ast.Node
	ast.Inspect(body, func(n ast.Node) bool {
		if n == nil {
			parents = parents[:len(parents)-1]
			return true
		}
		if id, ok := n.(*ast.Ident); ok && id.Name == name {
			p := parents[len(parents)-1]
			if be, ok := p.(*ast.BinaryExpr); !ok || !(be.Op == token.EQL || be.Op == token.NEQ || be.Op == token.LSS || be.Op == token.LEQ || be.Op == token.GTR || be.Op == token.GEQ) {
				bad = true
			}
		}
		parents = append(parents, n)
		return true
	})
	return bad
}

func assigned(body ast.Node) map[string]bool {
	m := map[string]bool{}
	ast.Inspect(body, func(n ast.Node) bool {
		switch s := n.(type) {
		case *ast.AssignStmt:
			for _, l := range s.Lhs {
				if id, ok := l.(*ast.Ident); ok {
					m[id.Name] = true
				}
			}
		case *ast.IncDecStmt:
			if id, ok := s.X.(*ast.Ident); ok {
				m[id.Name] = true
			}
		}
		return true
	})
	return m
}

func idents(e ast.Expr) []string {
	var out []string
	ast.Inspect(e, func(n ast.Node) bool {
		if id, ok := n.(*ast.Ident); ok {
			out = append(out, id.Name)
		}
		return true
	})
	return out
}

func (t *l2) block(stmts []ast.Stmt, ind string, out *strings.Builder) {
	if len(stmts) == 0 {
		out.WriteString(ind + "pure ()\n")
	}
	for _, s := range stmts {
		t.stmt(s, ind, out)
	}
}

func (t *l2) stmt(s ast.Stmt, ind string, out *strings.Builder) {
	switch x := s.(type) {
	case *ast.AssignStmt:
		if len(x.Lhs) != 1 || len(x.Rhs) != 1 {
			t.fail("multi-assignment")
			return
		}
		id, ok := x.Lhs[0].(*ast.Ident)
		if !ok {
			t.fail("assignment to %s", types.ExprString(x.Lhs[0]))
			return
		}
		if x.Tok == token.DEFINE {
			ty := t.info.Defs[id].Type()
			fmt.Fprintf(out, "%slet mut v_%s : %s := %s\n", ind, id.Name, t.leanType(ty), t.expr(x.Rhs[0]))
		} else if x.Tok == token.ASSIGN {
			fmt.Fprintf(out, "%sv_%s := %s\n", ind, id.Name, t.expr(x.Rhs[0]))
		} else {
			t.fail("assignment operator %s", x.Tok)
		}
	case *ast.DeclStmt:
		gd, ok := x.Decl.(*ast.GenDecl)
		if !ok || gd.Tok != token.VAR {
			t.fail("declaration")
			return
		}
		for _, sp := range gd.Specs {
			vs := sp.(*ast.ValueSpec)
			for i, nm := range vs.Names {
				ty := t.leanType(t.info.Defs[nm].Type())
				val := map[string]string{"Int": "0", "Bool": "false", "Bytes": "([] : Bytes)", "UInt8": "0"}[ty]
				if i < len(vs.Values) {
					val = t.expr(vs.Values[i])
				}
				fmt.Fprintf(out, "%slet mut v_%s : %s := %s\n", ind, nm.Name, ty, val)
			}
		}
	case *ast.ReturnStmt:
		if len(x.Results) != 1 {
			t.fail("return with %d results", len(x.Results))
			return
		}
		fmt.Fprintf(out, "%sreturn %s\n", ind, t.expr(x.Results[0]))
	case *ast.IfStmt:
		if x.Init != nil {
			t.fail("if with init statement")
			return
		}
		fmt.Fprintf(out, "%sif %s then\n", ind, t.expr(x.Cond))
		t.block(x.Body.List, ind+"  ", out)
		switch e := x.Else.(type) {
		case nil:
		case *ast.BlockStmt:
			fmt.Fprintf(out, "%selse\n", ind)
			t.block(e.List, ind+"  ", out)
		case *ast.IfStmt:
			fmt.Fprintf(out, "%selse\n", ind)
			t.stmt(e, ind+"  ", out)
		}
	case *ast.SwitchStmt:
		if x.Init != nil || x.Tag == nil {
			t.fail("switch without tag / with init")
			return
		}
		t.tmp++
		tag := fmt.Sprintf("t%d_", t.tmp)
		fmt.Fprintf(out, "%slet %s := %s\n", ind, tag, t.expr(x.Tag))
		first := true
		var def *ast.CaseClause
		cur := ind
		for _, c := range x.Body.List {
			cc := c.(*ast.CaseClause)
			for _, st := range cc.Body {
				if br, ok := st.(*ast.BranchStmt); ok && br.Tok == token.FALLTHROUGH {
					t.fail("fallthrough")
				}
			}
			if cc.List == nil {
				def = cc
				continue
			}
			var conds []string
			for _, v := range cc.List {
				conds = append(conds, "("+tag+" == "+t.expr(v)+")")
			}
			if first {
				fmt.Fprintf(out, "%sif %s then\n", cur, strings.Join(conds, " || "))
			} else {
				fmt.Fprintf(out, "%selse if %s then\n", cur, strings.Join(conds, " || "))
			}
			first = false
			t.block(cc.Body, cur+"  ", out)
		}
		if def != nil {
			if first {
				t.block(def.Body, cur, out)
			} else {
				fmt.Fprintf(out, "%selse\n", cur)
				t.block(def.Body, cur+"  ", out)
			}
		}
	case *ast.ForStmt:
		// for i := 0; i < bound; i++
		init, ok1 := x.Init.(*ast.AssignStmt)
		cond, ok2 := x.Cond.(*ast.BinaryExpr)
		post, ok3 := x.Post.(*ast.IncDecStmt)
		if !ok1 || !ok2 || !ok3 || init.Tok != token.DEFINE || len(init.Lhs) != 1 || cond.Op != token.LSS || post.Tok != token.INC {
			t.fail("for loop that is not `for i := 0; i < bound; i++`")
			return
		}
		iv := init.Lhs[0].(*ast.Ident).Name
		if c, ok := t.constant(init.Rhs[0], nil); !ok || c != "0" {
			t.fail("for loop not starting at 0")
			return
		}
		if id, ok := cond.X.(*ast.Ident); !ok || id.Name != iv {
			t.fail("for condition is not i < bound")
			return
		}
		if id, ok := post.X.(*ast.Ident); !ok || id.Name != iv {
			t.fail("for post statement is not i++")
			return
		}
		as := assigned(x.Body)
		for _, n := range append(idents(cond.Y), iv) {
			if as[n] {
				t.fail("loop variable or bound %s assigned in the body", n)
				return
			}
		}
		fmt.Fprintf(out, "%sfor i_ in [0:(%s).toNat] do\n", ind, t.expr(cond.Y))
		fmt.Fprintf(out, "%s  let v_%s : Int := i_\n", ind, iv)
		t.block(x.Body.List, ind+"  ", out)
	case *ast.RangeStmt:
		if bt, ok := t.info.Types[x.X].Type.Underlying().(*types.Basic); ok && (bt.Kind() == types.Int || bt.Kind() == types.UntypedInt) {
			// for i := range n  (Go 1.22): n is evaluated once
			k, ok := x.Key.(*ast.Ident)
			if !ok || x.Value != nil || x.Tok != token.DEFINE || assigned(x.Body)[k.Name] {
				t.fail("range over an integer without a fresh, unassigned key")
				return
			}
			fmt.Fprintf(out, "%sfor i_ in [0:(%s).toNat] do\n", ind, t.expr(x.X))
			fmt.Fprintf(out, "%s  let v_%s : Int := i_\n", ind, k.Name)
			t.block(x.Body.List, ind+"  ", out)
			return
		}
		if x.Key != nil {
			if id, ok := x.Key.(*ast.Ident); !ok || id.Name != "_" {
				t.fail("range with a key")
				return
			}
		}
		v, ok := x.Value.(*ast.Ident)
		if !ok || x.Tok != token.DEFINE {
			t.fail("range without a fresh value variable")
			return
		}
		if bt, ok := t.info.Types[x.X].Type.Underlying().(*types.Basic); !ok || bt.Kind() != types.String {
			t.fail("range over %s", t.info.Types[x.X].Type)
			return
		}
		if assigned(x.Body)[v.Name] || t.usesOutsideComparison(x.Body, v.Name) {
			t.fail("range variable %s is not used in comparisons only", v.Name)
			return
		}
		if t.ascii == nil {
			t.ascii = map[string]bool{}
		}
		t.ascii[v.Name] = true
		fmt.Fprintf(out, "%sfor v_%s in %s do\n", ind, v.Name, t.expr(x.X))
		t.block(x.Body.List, ind+"  ", out)
		delete(t.ascii, v.Name)
	default:
		t.fail("statement %T", s)
	}
}

// translateFunc returns the Lean definition `def <leanName> ... : Go.M T := do ...` or a comment with the reason.
func translateFunc(fi *funcInfo, leanName string) (string, string) {
	t := &l2{info: fi.info}
	fd := fi.decl
	var params []string
	for _, f := range fd.Type.Params.List {
		for _, n := range f.Names {
			params = append(params, fmt.Sprintf("(v_%s : %s)", n.Name, t.leanType(fi.info.Defs[n].Type())))
		}
	}
	if fd.Type.Results == nil || len(fd.Type.Results.List) != 1 || len(fd.Type.Results.List[0].Names) > 1 {
		return "", "not exactly one result"
	}
	res := t.leanType(fi.info.Types[fd.Type.Results.List[0].Type].Type)
	var body strings.Builder
	t.block(fd.Body.List, "  ", &body)
	if t.err != "" {
		return "", t.err
	}
	return fmt.Sprintf("def %s %s : Go.M %s := do\n%s", leanName, strings.Join(params, " "), res, body.String()), ""
}

// the leaf functions that are translated: key in byKey -> Lean name
var translated = [][2]string{
	{".." + "validOptionalPort", "validOptionalPort"},
	{"internal/syntax..MatchAny", "matchAny"},
	{"internal/syntax..MatchDigit", "matchDigit"},
	{"internal/syntax..MatchWord", "matchWord"},
	{"internal/syntax..longestPrefix", "longestPrefix"},
}

func writeFuncs(path string) {
	var out strings.Builder
	out.WriteString("/- GENERATED by factgen/go2lean.go from the Go source of the repository on every check run. Do not edit.\n   Each definition is the translation of one Go function body (subset and assumptions: factgen/go2lean.go). -/\n")
	out.WriteString("import Mux.Ties.GoPrelude\nnamespace Mux.Gen\nopen Mux\n\n")
	for _, tr := range translated {
		fi := byKey[tr[0]]
		if fi == nil {
			fmt.Fprintf(&out, "-- %s: function not found in the source\n\n", tr[0])
			continue
		}
		def, err := translateFunc(fi, tr[1])
		if err != "" {
			fmt.Fprintf(&out, "-- %s: untranslatable (%s)\n\n", tr[0], err)
			continue
		}
		fmt.Fprintf(&out, "/-- translated from `%s` -/\n%s\n", tr[0], def)
	}
	out.WriteString("end Mux.Gen\n")
	writeFile(path, out.String())
}
