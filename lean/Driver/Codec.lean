/-
  Driver.Codec — the line protocol shared with the Go harness (see DESIGN §5.1).

  Byte strings are %-escaped; `%_` is the empty string, `%-` the empty list/map.
-/
import Mux.Model.Ctx
namespace Driver
open Mux

def hexVal (c : Char) : Option Nat :=
  if '0' ≤ c ∧ c ≤ '9' then some (c.toNat - '0'.toNat)
  else if 'a' ≤ c ∧ c ≤ 'f' then some (c.toNat - 'a'.toNat + 10)
  else if 'A' ≤ c ∧ c ≤ 'F' then some (c.toNat - 'A'.toNat + 10)
  else none

def decodeChars : List Char → Bytes
  | [] => []
  | '%' :: a :: b :: rest =>
    match hexVal a, hexVal b with
    | some x, some y => UInt8.ofNat (x * 16 + y) :: decodeChars rest
    | _, _ => decodeChars rest
  | c :: rest => UInt8.ofNat c.toNat :: decodeChars rest

/-- Decode one byte-string token. -/
def decB (tok : String) : Bytes :=
  if tok = "%_" then [] else decodeChars tok.toList

def hexDigit (n : Nat) : Char := if n < 10 then Char.ofNat (48 + n) else Char.ofNat (87 + n)

def isSafe (b : UInt8) : Bool :=
  (48 ≤ b ∧ b ≤ 57) ∨ (65 ≤ b ∧ b ≤ 90) ∨ (97 ≤ b ∧ b ≤ 122) ∨
  b = 47 ∨ b = 46 ∨ b = 45 ∨ b = 95 ∨ b = 123 ∨ b = 125 ∨ b = 42 ∨ b = 92 ∨ b = 91 ∨ b = 93 ∨
  b = 94 ∨ b = 36 ∨ b = 63 ∨ b = 33 ∨ b = 64 ∨ b = 126 ∨ b = 60 ∨ b = 62 ∨ b = 38 ∨ b = 35

/-- Encode one byte string. -/
def encB (s : Bytes) : String :=
  if s = [] then "%_"
  else String.ofList (s.flatMap (fun b =>
    if isSafe b then [Char.ofNat b.toNat] else ['%', hexDigit (b.toNat / 16), hexDigit (b.toNat % 16)]))

def splitOnChar (s : String) (c : Char) : List String := s.splitOn (String.singleton c)

/-- Decode a list token. -/
def decL (tok : String) : List Bytes :=
  if tok = "%-" then [] else (splitOnChar tok ',').map decB

def encL (l : List Bytes) : String :=
  if l = [] then "%-" else ",".intercalate (l.map encB)

/-- Decode a map token `k=v,k=v`. -/
def decM (tok : String) : List (Bytes × Bytes) :=
  if tok = "%-" then []
  else (splitOnChar tok ',').filterMap (fun kv =>
    match splitOnChar kv '=' with
    | [k, v] => some (decB k, decB v)
    | _ => none)

/-- Sort an association list by key (byte-wise), for canonical output. -/
def insertKV {α : Type} (e : Bytes × α) : List (Bytes × α) → List (Bytes × α)
  | [] => [e]
  | x :: xs => if bytesLt e.1 x.1 then e :: x :: xs else x :: insertKV e xs
def sortKV {α : Type} (l : List (Bytes × α)) : List (Bytes × α) := l.foldr insertKV []

def encM (m : List (Bytes × Bytes)) : String :=
  if m = [] then "%-" else ",".intercalate ((sortKV m).map (fun e => encB e.1 ++ "=" ++ encB e.2))

def decNatList (tok : String) : List Nat :=
  if tok = "%-" then [] else (splitOnChar tok ',').filterMap String.toNat?

def decHdr (tok : String) : Hdr := (decM tok).map (fun e => (e.1, [e.2]))

/-- Headers: `K=v1|v2,K=v` sorted by key. -/
def encHdr (h : Hdr) : String :=
  if h = [] then "%-"
  else ",".intercalate ((sortKV h).map (fun e => encB e.1 ++ "=" ++ "|".intercalate (e.2.map encB)))

def encMethods (ms : List Bytes) : String :=
  if ms = [] then "%-" else "+".intercalate (ms.map encB)

def boolStr (b : Bool) : String := if b then "1" else "0"
def decBool (s : String) : Bool := s = "1"

end Driver
