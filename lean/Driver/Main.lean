/-
  Driver.Main — runs the executable model (L1) over an operation file and prints one canonical
  observation line per operation.  `driver model < ops` is compared with `harness exec < ops`.
-/
import Driver.Codec
import Mux.Model.Call
import Mux.Spec.Resolve
namespace Driver
open Mux

/-- The interceptor functions known to both executors (ids are part of the protocol). -/
def driverEnv : Env where
  icpt := fun id v =>
    match id with
    | 0 => matchAny v
    | 1 => matchDigit v
    | 2 => matchWord v
    | 3 => v.head? = some 97                 -- starts with 'a'
    | 4 => true                              -- accepts everything, the empty string included
    | 5 => false
    | 6 => v.length % 2 = 0                  -- even length (accepts the empty string)
    | _ => false

structure FacadeSt where
  rid : Nat
  f : Facade
  isResource : Bool
  deriving Inhabited

structure St where
  routers : RTab := []
  facades : List (Nat × FacadeSt) := []
  hosts : List (Nat × Hosts) := []
  groups : List (Nat × Group) := []
  /-- options a group was created with, for `Group.New` -/
  groupCfg : List (Nat × RouterCfg) := []
  ctxs : List (Nat × Ctx) := []
  pool : Pool := []
  pc : PanicCfg := {}
  scripts : Scripts := []
  pf : List (Bytes × Acc Bytes) := []
  /-- routers whose model state is unknown because a mutation was outside the modelled domain -/
  tainted : List Nat := []
  /-- Hosts matchers whose model state is unknown for the same reason -/
  taintedHosts : List Nat := []
  /-- middlewares that write response headers at request time (op `mw-script`): the model's middlewares have no effect of
  their own, so a request that passes through one of them is outside the modelled domain (the requests after it are not) -/
  mwScripts : List Nat := []
  deriving Inhabited

def lookup {α : Type} (l : List (Nat × α)) (k : Nat) : Option α := (l.find? (·.1 = k)).map (·.2)
def update {α : Type} (l : List (Nat × α)) (k : Nat) (v : α) : List (Nat × α) :=
  if l.any (·.1 = k) then l.map (fun e => if e.1 = k then (k, v) else e) else l ++ [(k, v)]

def St.hostsTab (st : St) : Nat → Option Hosts := fun id => lookup st.hosts id

/-! ### Matcher expressions -/

def splitTop (cs : List Char) (sep : Char) : List (List Char) :=
  let rec go : List Char → Nat → List Char → List (List Char) → List (List Char)
    | [], _, cur, acc => (cur.reverse :: acc).reverse
    | c :: rest, depth, cur, acc =>
      if c = '(' then go rest (depth + 1) (c :: cur) acc
      else if c = ')' then go rest (depth - 1) (c :: cur) acc
      else if c = sep ∧ depth = 0 then go rest depth [] (cur.reverse :: acc)
      else go rest depth (c :: cur) acc
  go cs 0 [] []

def decVersions (tok : String) : List Bytes :=
  if tok = "%-" then [] else (splitOnChar tok '+').map decB

/-- `none` = a constructor panics (`NewPathVersion` with an empty version). -/
partial def parseMatcher (s : String) : Option Matcher :=
  if s = "any" then some .any
  else if s.startsWith "hosts:" then some (.hosts ((s.drop 6).toNat?.getD 0))
  else if s.startsWith "pv:" then
    match splitOnChar (s.drop 3).toString ':' with
    | [p, vs] => ((decVersions vs).mapM normVersion).map (fun vs' => .pathVersion (decB p) vs')
    | _ => none
  else if s.startsWith "hv:" then
    match splitOnChar (s.drop 3).toString ':' with
    | [p, k, vs] =>
      let key := decB k
      some (.headerVersion (decB p) (if key = [] then bytesOfString "version" else key) (decVersions vs))
    | _ => none
  else if s.startsWith "and(" then
    let inner := ((s.drop 4).dropEnd 1).toString
    ((if inner = "" then [] else (splitTop inner.toList ';')).mapM (fun cs => parseMatcher (String.ofList cs))).map .and
  else if s.startsWith "or(" then
    let inner := ((s.drop 3).dropEnd 1).toString
    ((if inner = "" then [] else (splitTop inner.toList ';')).mapM (fun cs => parseMatcher (String.ofList cs))).map .or
  else none

/-! ### Formatting observations -/

def fmtBase : Base → String
  | .user id => s!"user:{id}" | .options => "options" | .notAllowed => "notAllowed"
  | .notFound => "notFound" | .trace => "trace" | .nil => "nil" | .hostEmpty => "hostEmpty"
  | .groupNotFound => "groupNotFound"

def fmtWraps (ws : List Wrap) : String :=
  if ws = [] then "%-"
  else "|".intercalate (ws.map (fun w => s!"{w.mw}:{encB w.method}:{encB w.pattern}:{encB w.router}"))

def fmtRec (r : Rec) : String :=
  let code := match r.code with
    | some c => toString c
    | none => "-"
  let snap := match r.snap with
    | some h => encHdr h
    | none => "-"
  s!"status={code} body={r.body} live={encHdr r.hdr} snap={snap}"

def fmtPanicVal : PanicVal → String
  | .user v => s!"v{v}"
  | .fault => "fault"

def fmtOutcome : Outcome → String
  | .normal r => "normal " ++ fmtRec r
  | .recovered v r => s!"recovered:{fmtPanicVal v} " ++ fmtRec r
  | .panicked v => s!"panicked:{fmtPanicVal v}"
  | .unsupported => "unsupported"

def fmtCall (c : Call) : String :=
  let node := match c.node with
    | some n => s!"node={encB n.pattern} methods={encMethods n.methods} allow={encB n.allow}"
    | none => "node=- methods=- allow=-"
  s!"call base={fmtBase c.handler.base} wraps={fmtWraps c.handler.wraps} {node} " ++
  s!"params={encM c.params} router={encB c.routerName} head={boolStr c.headWrap} path={encB c.path} hdr={encHdr c.respHeaders}"

def fmtServe (x : Option Call × Outcome) : String :=
  match x with
  | (_, .unsupported) => "unsupported"
  | (some c, o) => fmtCall c ++ " => " ++ fmtOutcome o
  | (none, o) => "nocall => " ++ fmtOutcome o

/-- Formats the answer to a served request.  Handlers whose script sends an informational status (1xx except 101) are
in the modelled domain (`Mux.informational`, `Rec.writeHeader`, `runHead`), so they are formatted like any other; the
scripts are no longer consulted. -/
def fmtServeS (_scripts : Scripts) (x : Option Call × Outcome) : String := fmtServe x

/-- A call that runs through a middleware with a header script is answered `unsupported` (see `St.mwScripts`). -/
def viaScriptedMw (ids : List Nat) (x : Option Call × Outcome) : Bool :=
  match x with
  | (some c, _) => c.handler.wraps.any (fun w => ids.contains w.mw)
  | _ => false

def fmtErr (e : Err) : String :=
  match e with
  | .unsupported => "unsupported"
  | .fault _ => "fault"
  | e => "reject:" ++ e.toString

def fmtRoutes (rs : List (Bytes × List Bytes)) : String :=
  -- map semantics: a later entry for the same pattern overwrites an earlier one
  let dedup := rs.foldl (fun acc e => (acc.filter (·.1 ≠ e.1)) ++ [e]) []
  "routes " ++ ",".intercalate ((sortKV dedup).map (fun e => encB e.1 ++ "=" ++ encMethods e.2))

def hexOf (s : Bytes) : String :=
  String.ofList (s.flatMap (fun b => [hexDigit (b.toNat / 16), hexDigit (b.toNat % 16)]))

def insertStr (x : String) : List String → List String
  | [] => [x]
  | y :: ys => if x < y then x :: y :: ys else y :: insertStr x ys
def sortStr (l : List String) : List String := l.foldr insertStr []

def pad3 (n : Nat) : String := (if n < 10 then "00" else if n < 100 then "0" else "") ++ toString n

/-- The canonical structure dump printed by the `verif` hook `Tree.VerifDump`. -/
partial def dumpNode : Node → String
  | .mk seg _ mi hs idx cs =>
    let keys := sortStr (hs.map (fun e => hexOf e.1))
    let idxs := sortStr (idx.map (fun e => pad3 e.1.toNat ++ ":" ++ toString e.2))
    s!"(v={hexOf seg.value} t={seg.kind.rank} mi={mi} h={",".intercalate keys} idx={",".intercalate idxs}" ++
      String.join (cs.map (fun c => " " ++ dumpNode c)) ++ ")"

def fmtAcc {α : Type} (f : α → String) : Acc α → String
  | .ok v => "ok:" ++ f v
  | .notExists => "not-exists"
  | .syntaxErr => "syntax"
  | .rangeErr v => "range:" ++ f v

/-! ### One step -/

def mkReq (method path host hdrs accept : String) : Req :=
  { method := decB method, path := decB path, host := decB host, headers := decHdr hdrs,
    acceptParams := if accept = "%!" then none else some (decM accept) }

def decIcpt (tok : String) : Interceptors :=
  (decM tok).map (fun e => (e.1, (String.fromUTF8? (ByteArray.mk e.2.toArray)).bind String.toNat? |>.getD 0))

def mkCfg (name trace recover domain icpt corsFlag origins allowH exposed maxAge cred : String) : Option RouterCfg :=
  let cors : Option Cors :=
    if corsFlag = "1" then Cors.sanitize (decL origins) (decL allowH) (decL exposed) (maxAge.toInt?.getD 0) (decBool cred)
    else some {}
  let ic := decIcpt icpt
  -- the same rule given twice: `Interceptors.Add` panics, so does the constructor
  if (ic.map (·.1)).eraseDups.length ≠ ic.length then none else
  cors.map (fun c => { name := decB name, trace := decBool trace, ic := ic, cors := c,
                       urlDomain := decB domain, recover := recover ≠ "0",
                       recActs :=
                         -- "1": the harness's own function; s/w/l/g<status>: a bundled option (http.Error)
                         if recover = "0" ∨ recover = "1" then defaultRecActs
                         else
                           let code := ((recover.drop 1).toString.toNat?).getD 500
                           httpErrorActs code (statusTextLen code) })

/-- `textproto.CanonicalMIMEHeaderKey` (what `http.Header.Set/Add/Del` apply to the key): if every byte is a token byte,
the first letter and every letter after a `-` are upper-cased, the others lower-cased; a key with any other byte
(space, non-ASCII, …) is left as it is. Header maps belong to net/http, not to mux: the model works on canonical keys
and the canonicalisation happens where a handler script enters the model. -/
def isTokenByte (b : UInt8) : Bool :=
  (48 ≤ b ∧ b ≤ 57) ∨ (65 ≤ b ∧ b ≤ 90) ∨ (97 ≤ b ∧ b ≤ 122) ∨
  b = 33 ∨ b = 35 ∨ b = 36 ∨ b = 37 ∨ b = 38 ∨ b = 39 ∨ b = 42 ∨ b = 43 ∨ b = 45 ∨ b = 46 ∨ b = 94 ∨ b = 95 ∨ b = 96 ∨ b = 124 ∨ b = 126

def canonKeyGo : Bytes → Bool → Bytes
  | [], _ => []
  | b :: r, up =>
    let c := if up ∧ 97 ≤ b ∧ b ≤ 122 then b - 32 else if ¬ up ∧ 65 ≤ b ∧ b ≤ 90 then b + 32 else b
    c :: canonKeyGo r (b = 45)

def canonKey (k : Bytes) : Bytes := if k.all isTokenByte then canonKeyGo k true else k

def decActs (tok : String) : List Act :=
  if tok = "%-" then []
  else (splitOnChar tok ';').filterMap (fun a =>
    match splitOnChar a ':' with
    | ["s", kv] => match splitOnChar kv '=' with
      | [k, v] => some (.setHeader (canonKey (decB k)) (decB v))
      | _ => none
    | ["a", kv] => match splitOnChar kv '=' with
      | [k, v] => some (.addHeader (canonKey (decB k)) (decB v))
      | _ => none
    | ["d", k] => some (.delHeader (canonKey (decB k)))
    | ["w", c] => c.toNat?.map .writeHeader
    | ["b", n] => n.toNat?.map .write
    | _ => none)

def decNatMap (tok : String) : List (Nat × Nat) :=
  if tok = "%-" then []
  else (splitOnChar tok ',').filterMap (fun kv =>
    match splitOnChar kv '=' with
    | [k, v] => match k.toNat?, v.toNat? with
      | some a, some b => some (a, b)
      | _, _ => none
    | _ => none)

/-- the Hosts instances a matcher expression refers to -/
partial def matcherHosts : Matcher → List Nat
  | .hosts id => [id]
  | .and ms => ms.flatMap matcherHosts
  | .or ms => ms.flatMap matcherHosts
  | _ => []

def withRouter (st : St) (rid : String) (f : Nat → Router → St × String) : St × String :=
  match rid.toNat? with
  | some id =>
    if st.tainted.contains id then (st, "unsupported")
    else match st.routers.get? id with
    | some r => f id r
    | none => (st, "bad-op no-router")
  | none => (st, "bad-op")

def exceptRouter (st : St) (id : Nat) (x : Except Err Router) : St × String :=
  match x with
  | .ok r => ({ st with routers := st.routers.set id r }, "ok")
  | .error .unsupported => ({ st with tainted := id :: st.tainted }, "unsupported")
  | .error e => (st, fmtErr e)

def fmtUrl (x : Except Err Bytes) : String :=
  match x with
  | .ok u => "url " ++ encB u
  | .error e => fmtErr e

/-- `Group.New(name, matcher, options…)`: a router with the group's options (adjusted by `cfgOf` for options given to
this router alone), then `Add`. -/
def groupNew (st : St) (cfgOf : RouterCfg → RouterCfg) (gid rid name mexpr : String) : St × String :=
    -- `Group.New(name, matcher)`: a router with the group's options, then `Add`
    match gid.toNat?, rid.toNat? with
    | some g, some r =>
      match lookup st.groups g, lookup st.groupCfg g with
      | some grp, some cfg0 =>
        let cfg := cfgOf cfg0
        match parseMatcher mexpr with
        | none => (st, "reject:empty-version")
        | some m =>
          match Router.new { cfg with name := decB name, notFoundBase := .groupNotFound } with
          | none => (st, "reject:empty-name")
          | some router =>
            let rt1 := st.routers.set r router
            match grp.add rt1 m r with
            | some (grp', _) =>
              -- the router only becomes visible under `rid` when `Add` succeeded
              let (_, rt') := ((grp.add rt1 m r).getD (grp', rt1))
              ({ st with groups := update st.groups g grp', routers := rt' }, "ok")
            | none => (st, "reject:dup-name")
      | _, _ => (st, "bad-op")
    | _, _ => (st, "bad-op")

def step (st : St) (line : String) : St × String :=
  let toks := (line.trimAscii.toString.splitOn " ").filter (· ≠ "")
  let env := driverEnv
  match toks with
  | [] => (st, "")
  | "#" :: _ => (st, "#")
  | ["router", rid, name, trace, _lock, recover, domain, icpt, corsFlag, origins, allowH, exposed, maxAge, cred] =>
    match rid.toNat?, mkCfg name trace recover domain icpt corsFlag origins allowH exposed maxAge cred with
    | some id, some cfg =>
      match Router.new cfg with
      | some r => ({ st with routers := st.routers.set id r, tainted := st.tainted.filter (· ≠ id) }, "ok")
      | none => (st, "reject:empty-name")
    | some _, none => (st, "reject:bad-option")
    | _, _ => (st, "bad-op")
  | ["handle", rid, pattern, hid, mws, methods] =>
    withRouter st rid (fun id r => exceptRouter st id (r.handle (decB pattern) (hid.toNat?.getD 0) (decNatList mws) (decL methods)))
  | ["remove", rid, pattern, methods] =>
    withRouter st rid (fun id r => exceptRouter st id (r.remove (decB pattern) (decL methods)))
  | ["clean", rid, pre] =>
    withRouter st rid (fun id r => exceptRouter st id (r.clean (decB pre)))
  | ["use", rid, mws] =>
    withRouter st rid (fun id r => ({ st with routers := st.routers.set id (r.use (decNatList mws)) }, "ok"))
  | ["routes", rid] =>
    withRouter st rid (fun _ r => (st, fmtRoutes r.routes))
  | ["spec-adm", rid, path] =>
    -- the reference resolver of the theorem `C02_resolve` (Mux/Spec/Resolve.lean) on the live routes: every admissible outcome
    withRouter st rid (fun _ r =>
      let rs := (r.routes.map (·.1)).filter (· ≠ [42])
      let outs := Mux.Spec.resolveAll env r.tree.ic rs (decB path)
      (st, "adm " ++ (if outs = [] then "%-" else "|".intercalate (sortStr (outs.map (fun o => encB o.1 ++ "{" ++ encM o.2 ++ "}"))))))
  | ["serve", rid, method, path, host, hdrs, accept] =>
    withRouter st rid (fun _ r =>
      let req := mkReq method path host hdrs accept
      -- `strings.EqualFold` / `TrimSpace` of the allowed-headers check are Unicode-aware; the model is ASCII
      if ¬ r.cors.deny ∧ ((req.headers.get hACRH).any (· ≥ 128) ∨ r.cors.allowHeaders.any (fun h => h.any (· ≥ 128)))
      then (st, "unsupported")
      else
        let res := r.serveHTTP env st.pc st.scripts req []
        if viaScriptedMw st.mwScripts res then (st, "unsupported") else (st, fmtServeS st.scripts res))
  | ["nserve", rid, method, path, host, hdrs, accept, m2, p2] =>
    -- the handler of the outer request serves a second request on the same router before it goes on: both are alive at
    -- once; in the model contexts are values, so the outer request keeps exactly its own parameters
    withRouter st rid (fun _ r =>
      let req := mkReq method path host hdrs accept
      if ¬ r.cors.deny ∧ ((req.headers.get hACRH).any (· ≥ 128) ∨ r.cors.allowHeaders.any (fun h => h.any (· ≥ 128)))
      then (st, "unsupported")
      else
        let outer := r.serveHTTP env st.pc st.scripts req []
        let s := fmtServeS st.scripts outer
        match outer with
        | (some c, _) =>
          let inner := fmtServeS st.scripts (r.serveHTTP env st.pc st.scripts (mkReq m2 p2 "%_" "%-" "%!") [])
          if s = "unsupported" ∨ inner = "unsupported" then (st, "unsupported")
          else (st, s ++ " nested={" ++ inner ++ "} after=" ++ encM c.params)
        | _ => (st, s))
  | ["url", rid, strict, pattern, params] =>
    withRouter st rid (fun _ r => (st, fmtUrl (r.url env (decBool strict) (decB pattern) (decM params))))
  | ["murl", pattern, params] => (st, fmtUrl (muxURL (decB pattern) (decM params)))
  | ["syntax", pattern] =>
    match checkSyntax (decB pattern) with
    | .ok _ => (st, "ok")
    | .error e => (st, fmtErr e)
  -- façades
  | ["facade", fid, rid, kind, parent, pattern, mws] =>
    match fid.toNat?, rid.toNat? >>= (fun r => (st.routers.get? r).map (fun _ => r)) with
    | some f, some r =>
      let fac : Facade :=
        match parent.toNat? >>= lookup st.facades with
        | some p => p.f.sub (decB pattern) (decNatList mws)
        | none => Facade.ofRouter (decB pattern) (decNatList mws)
      ({ st with facades := update st.facades f { rid := r, f := fac, isResource := kind = "resource" } }, "ok")
    | _, _ => (st, "bad-op")
  | ["fhandle", fid, pattern, hid, mws, methods] =>
    match fid.toNat? >>= lookup st.facades with
    | some fs => withRouter st (toString fs.rid) (fun id r =>
        exceptRouter st id (fs.f.handle r (decB pattern) (hid.toNat?.getD 0) (decNatList mws) (decL methods)))
    | none => (st, "bad-op")
  | ["fremove", fid, pattern, methods] =>
    match fid.toNat? >>= lookup st.facades with
    | some fs => withRouter st (toString fs.rid) (fun id r => exceptRouter st id (fs.f.remove r (decB pattern) (decL methods)))
    | none => (st, "bad-op")
  | ["fclean", fid] =>
    match fid.toNat? >>= lookup st.facades with
    | some fs => withRouter st (toString fs.rid) (fun id r =>
        exceptRouter st id (if fs.isResource then fs.f.resourceClean r else fs.f.prefixClean r))
    | none => (st, "bad-op")
  | ["furl", fid, strict, pattern, params] =>
    match fid.toNat? >>= lookup st.facades with
    | some fs => withRouter st (toString fs.rid) (fun _ r =>
        (st, fmtUrl (fs.f.url env r (decBool strict) (decB pattern) (decM params))))
    | none => (st, "bad-op")
  -- hosts
  | ["hosts", hid, domains] =>
    match hid.toNat? with
    | some id =>
      if (decL domains).any (fun d => d.any (· ≥ 128)) then
        ({ st with hosts := update st.hosts id Hosts.empty, taintedHosts := id :: st.taintedHosts }, "unsupported") else
      match (decL domains).foldlM (fun hs d => hs.add d) Hosts.empty with
      | .ok hs => ({ st with hosts := update st.hosts id hs, taintedHosts := st.taintedHosts.filter (· ≠ id) }, "ok")
      | .error .unsupported => ({ st with hosts := update st.hosts id Hosts.empty, taintedHosts := id :: st.taintedHosts }, "unsupported")
      | .error e => (st, fmtErr e)
    | none => (st, "bad-op")
  | ["hosts-add", hid, domain] =>
    match hid.toNat? >>= (fun id => (lookup st.hosts id).map (fun h => (id, h))) with
    | some (id, hs) =>
      if st.taintedHosts.contains id then (st, "unsupported") else
      -- `strings.ToLower` folds Unicode and rewrites invalid UTF-8: outside the modelled (ASCII) domain
      if (decB domain).any (· ≥ 128) then ({ st with taintedHosts := id :: st.taintedHosts }, "unsupported") else
      match hs.add (decB domain) with
      | .ok hs' => ({ st with hosts := update st.hosts id hs' }, "ok")
      | .error .unsupported => ({ st with taintedHosts := id :: st.taintedHosts }, "unsupported")
      | .error e => (st, fmtErr e)
    | none => (st, "bad-op")
  | ["hosts-del", hid, domain] =>
    match hid.toNat? >>= (fun id => (lookup st.hosts id).map (fun h => (id, h))) with
    | some (id, hs) =>
      if st.taintedHosts.contains id then (st, "unsupported") else
      if (decB domain).any (· ≥ 128) then ({ st with taintedHosts := id :: st.taintedHosts }, "unsupported") else
      match hs.delete (decB domain) with
      | .ok hs' => ({ st with hosts := update st.hosts id hs' }, "ok")
      | .error e => (st, fmtErr e)
    | none => (st, "bad-op")
  | ["hosts-icpt", hid, rule, icid] =>
    match hid.toNat? >>= (fun id => (lookup st.hosts id).map (fun h => (id, h))) with
    | some (id, hs) =>
      if st.taintedHosts.contains id then (st, "unsupported") else
      match hs.registerInterceptor (icid.toNat?.getD 0) (decB rule) with
      | some hs' => ({ st with hosts := update st.hosts id hs' }, "ok")
      | none => (st, "reject:dup-interceptor")
    | none => (st, "bad-op")
  | ["hosts-match", hid, host] =>
    match hid.toNat? >>= lookup st.hosts with
    | some hs =>
      if st.taintedHosts.contains (hid.toNat?.getD 0) then (st, "unsupported") else
      match hs.match env (decB host) [] [] with
      | .accept _ ps => (st, "match 1 " ++ encM ps)
      | .reject _ ps => (st, "match 0 " ++ encM ps)
      | .unsupported => (st, "unsupported")
      | .fault _ => (st, "fault")
    | none => (st, "bad-op")
  | ["hosts-routes", hid] =>
    match hid.toNat? >>= lookup st.hosts with
    | some hs => (st, fmtRoutes hs.tree.routes)
    | none => (st, "bad-op")
  -- groups
  | ["group", gid, recover, trace, domain, icpt, corsFlag, origins, allowH, exposed, maxAge, cred] =>
    match gid.toNat?, mkCfg "g" trace recover domain icpt corsFlag origins allowH exposed maxAge cred with
    | some id, some cfg =>
      ({ st with groups := update st.groups id { recover := cfg.recover, recActs := cfg.recActs }, groupCfg := update st.groupCfg id cfg }, "ok")
    | some _, none => (st, "reject:bad-option")
    | _, _ => (st, "bad-op")
  | ["group-add", gid, rid, mexpr] =>
    match gid.toNat?, rid.toNat? with
    | some g, some r =>
      match lookup st.groups g with
      | some grp =>
        match parseMatcher mexpr with
        | none => (st, "reject:empty-version")
        | some m =>
          match grp.add st.routers m r with
          | some (grp', rt') => ({ st with groups := update st.groups g grp', routers := rt' }, "ok")
          | none => (st, "reject:dup-name")
      | none => (st, "bad-op")
    | _, _ => (st, "bad-op")
  | ["group-new", gid, rid, name, mexpr] => groupNew st id gid rid name mexpr
  | ["group-new", gid, rid, name, mexpr, icpt] =>
    -- interceptors of this router alone on top of the group's (a rule given twice makes the constructor panic)
    match lookup st.groupCfg (gid.toNat?.getD 0) with
    | some cfg =>
      let extra := decIcpt icpt
      if extra.any (fun e => cfg.ic.any (fun e' => e'.1 = e.1)) ∨ ¬ (extra.map (·.1)).Nodup then (st, "reject:dup-interceptor")
      else groupNew st (fun c => { c with ic := c.ic ++ extra }) gid rid name mexpr
    | none => (st, "bad-op")
  | ["group-use", gid, mws] =>
    match gid.toNat? >>= (fun id => (lookup st.groups id).map (fun g => (id, g))) with
    | some (id, grp) =>
      let (grp', rt') := grp.use st.routers (decNatList mws)
      ({ st with groups := update st.groups id grp', routers := rt' }, "ok")
    | none => (st, "bad-op")
  | ["group-remove", gid, name] =>
    match gid.toNat? >>= (fun id => (lookup st.groups id).map (fun g => (id, g))) with
    | some (id, grp) => ({ st with groups := update st.groups id (grp.remove st.routers (decB name)) }, "ok")
    | none => (st, "bad-op")
  | ["group-names", gid] =>
    match gid.toNat? >>= lookup st.groups with
    | some grp => (st, "names " ++ encL (grp.names st.routers))
    | none => (st, "bad-op")
  | ["group-routes", gid] =>
    match gid.toNat? >>= lookup st.groups with
    | some grp =>
      if grp.routers.any (fun e => st.tainted.contains e.1) then (st, "unsupported")
      else
        let es := grp.routers.filterMap (fun e => (st.routers.get? e.1).map (fun r => encB r.tree.name ++ "{" ++ fmtRoutes r.routes ++ "}"))
        (st, "groutes " ++ ";".intercalate (sortStr es))
    | none => (st, "bad-op")
  | ["group-router", gid, name] =>
    match gid.toNat? >>= lookup st.groups with
    | some grp =>
      if grp.routers.any (fun e => st.tainted.contains e.1) then (st, "unsupported")
      else
        match (grp.routers.filterMap (fun e => st.routers.get? e.1)).find? (fun r => r.tree.name = decB name) with
        | some r => (st, "grouter " ++ encB r.tree.name ++ " " ++ fmtRoutes r.routes)
        | none => (st, "grouter %!")
    | none => (st, "bad-op")
  | ["methods"] => (st, "methods " ++ encL methodsTable ++ " any " ++ encL anyMethods)
  | ["gserve", gid, method, path, host, hdrs, accept] =>
    match gid.toNat? >>= lookup st.groups with
    | some grp =>
      let req := mkReq method path host hdrs accept
      let corsOutside := (req.headers.get hACRH).any (· ≥ 128) ∧
        grp.routers.any (fun e => match st.routers.get? e.1 with | some r => ¬ r.cors.deny | none => false)
      if grp.routers.any (fun e => st.tainted.contains e.1 ∨ (matcherHosts e.2).any st.taintedHosts.contains) ∨ corsOutside then (st, "unsupported")
      else (st, fmtServeS st.scripts (grp.serveHTTP env st.hostsTab st.pc st.scripts st.routers req))
    | none => (st, "bad-op")
  -- handler behaviour
  | ["mw-script", mid, acts] =>
    match mid.toNat? with
    | some id => ({ st with mwScripts := if acts = "%-" then st.mwScripts.filter (· ≠ id) else id :: st.mwScripts }, "ok")
    | none => (st, "bad-op")
  | ["script", hid, acts] =>
    match hid.toNat? with
    | some id => ({ st with scripts := update st.scripts id (decActs acts) }, "ok")
    | none => (st, "bad-op")
  | ["panic-cfg", hs, mws, bases] =>
    ({ st with pc := { handlers := decNatMap hs, mws := decNatMap mws, bases := decNatMap bases } }, "ok")
  -- version matchers, stand-alone
  | ["pv-new", versions] =>
    match (decVersions versions).mapM normVersion with
    | some vs => (st, "ok " ++ encL vs)
    | none => (st, "reject:empty-version")
  | ["match", mexpr, method, path, host, hdrs, accept, params] =>
    let req := mkReq method path host hdrs accept
    match parseMatcher mexpr with
    | none => (st, "reject:empty-version")
    | some m =>
      match m.run env st.hostsTab req req.path (decM params) with
      | .accept p ps => (st, s!"match 1 path={encB p} params={encM ps}")
      | .reject p ps => (st, s!"match 0 path={encB p} params={encM ps}")
      | .unsupported => (st, "unsupported")
      | .fault _ => (st, "fault")
  -- TRACE helper
  | ["trace-helper", _body, _method, _path, _hdrs, _reqbody, dump] =>
    let d : Option Bytes := if dump = "%!" then none else some (decB dump)
    let (r, body) := traceHelper d {}
    (st, s!"trace {fmtRec r} text={encB body}")
  | ["trace-fail", _body, _method, _path, _hdrs, _reqbody, _dump] => (st, "tracefail ok")   -- the helper is a function of its request: a failed write leaves nothing behind
  -- unit level (hooks guarded by the build tag `verif` export the internal functions)
  | ["u-render", mask] =>
    match mask.toNat? with
    | some m => (st, "render " ++ encMethods (renderMethods m) ++ " " ++ encB (allowHeader m))
    | none => (st, "bad-op")
  | ["u-split", str] => (st, "split " ++ encL (splitString (decB str)))
  | ["u-lp", a, b] => (st, s!"lp {longestPrefix (decB a) (decB b)}")
  | ["u-seg", icpt, val] =>
    match newSegment (decIcpt icpt) (decB val) with
    | .ok seg =>
      (st, s!"seg kind={seg.kind.rank} name={encB seg.name} ign={boolStr seg.ignoreName} rule={encB seg.rule} " ++
           s!"suffix={encB seg.suffix} endpoint={boolStr seg.endpoint} amb={seg.ambiguousLength}")
    | .error e => (st, fmtErr e)
  | ["u-match", icpt, val, path] =>
    let ic := decIcpt icpt
    match newSegment ic (decB val) with
    | .error e => (st, fmtErr e)
    | .ok seg =>
      match seg.match env ic (decB path) with
      | .no => (st, "m 0")
      | .unsupported => (st, "unsupported")
      | .yes cap rest =>
        let ps : Params := if seg.kind ≠ .str ∧ ¬ seg.ignoreName then [(seg.name, cap)] else []
        (st, s!"m 1 params={encM ps} rest={encB rest}")
  | ["dump", rid] =>
    withRouter st rid (fun _ r => (st, "dump " ++ dumpNode r.tree.root))
  -- contexts
  | ["pf", v, res] =>
    let r : Acc Bytes :=
      match splitOnChar res ':' with
      | ["ok", x] => .ok (decB x)
      | ["range", x] => .rangeErr (decB x)
      | _ => .syntaxErr
    ({ st with pf := st.pf ++ [(decB v, r)] }, "ok")
  | ["ctx-new", cid] =>
    match cid.toNat? with
    | some id =>
      let (c, pool) := st.pool.newContext
      ({ st with ctxs := update st.ctxs id c, pool := pool },
       s!"ctx count={c.count} path={encB c.path} router={encB c.routerName} node={boolStr c.hasNode}")
    | none => (st, "bad-op")
  | ["ctx-dirty", cid, path, router, node] =>
    match cid.toNat? >>= (fun id => (lookup st.ctxs id).map (fun c => (id, c))) with
    | some (id, c) =>
      ({ st with ctxs := update st.ctxs id { c with path := decB path, routerName := decB router, hasNode := decBool node } }, "ok")
    | none => (st, "bad-op")
  | ["ctx-set", cid, k, v] =>
    match cid.toNat? >>= (fun id => (lookup st.ctxs id).map (fun c => (id, c))) with
    | some (id, c) => ({ st with ctxs := update st.ctxs id (c.set (decB k) (decB v)) }, "ok")
    | none => (st, "bad-op")
  | ["ctx-del", cid, k] =>
    match cid.toNat? >>= (fun id => (lookup st.ctxs id).map (fun c => (id, c))) with
    | some (id, c) => ({ st with ctxs := update st.ctxs id (c.delete (decB k)) }, "ok")
    | none => (st, "bad-op")
  | ["ctx-reset", cid] =>
    match cid.toNat? >>= (fun id => (lookup st.ctxs id).map (fun c => (id, c))) with
    | some (id, c) => ({ st with ctxs := update st.ctxs id c.reset }, "ok")
    | none => (st, "bad-op")
  | ["ctx-destroy", cid] =>
    match cid.toNat? >>= (fun id => (lookup st.ctxs id).map (fun c => (id, c))) with
    | some (id, c) => ({ st with ctxs := st.ctxs.filter (·.1 ≠ id), pool := st.pool.destroy c }, "ok")
    | none => (st, "bad-op")
  | ["ctx-dump", cid] =>
    match cid.toNat? >>= lookup st.ctxs with
    | some c => (st, s!"dump count={c.count} range={encM c.range} nested=ok")   -- Params are values: an iteration started inside another one sees the same list
    | none => (st, "bad-op")
  | ["ctx-acc", cid, k, ds, di, du, db, df] =>
    match cid.toNat? >>= lookup st.ctxs with
    | some c =>
      let key := decB k
      let pf : Bytes → Acc Bytes := fun v => ((st.pf.find? (·.1 = v)).map (·.2)).getD .syntaxErr
      let fb (b : Bool) : String := if b then "true" else "false"
      let parts := [
        s!"exists={boolStr (c.exists_ key)}",
        s!"get={match c.get key with | some v => encB v | none => "%!"}",
        s!"string={fmtAcc encB (c.string key)}",
        s!"mustString={encB (c.mustString key (decB ds))}",
        s!"int={fmtAcc toString (c.int key)}",
        s!"mustInt={c.mustInt key (di.toInt?.getD 0)}",
        s!"uint={fmtAcc toString (c.uint key)}",
        s!"mustUint={c.mustUint key (du.toNat?.getD 0)}",
        s!"bool={fmtAcc fb (c.bool key)}",
        s!"mustBool={fb (c.mustBool key (decBool db))}",
        s!"float={fmtAcc encB (c.float pf key)}",
        s!"mustFloat={encB (c.mustFloat pf key (decB df))}"]
      (st, "acc " ++ " ".intercalate parts)
    | none => (st, "bad-op")
  | _ => (st, "bad-op")

partial def loop (h : IO.FS.Stream) (out : IO.FS.Stream) (st : St) : IO Unit := do
  let line ← h.getLine
  if line.isEmpty then return ()
  let (st', o) := step st line
  out.putStrLn o
  loop h out st'

end Driver

def main (args : List String) : IO UInt32 := do
  let stdin ← IO.getStdin
  let stdout ← IO.getStdout
  match args with
  | ["model"] => Driver.loop stdin stdout {}; return 0
  | _ => IO.eprintln "usage: driver model < ops"; return 2
