/-
  Driver.CodecProofs — correctness of the line-protocol codec (`Driver/Codec.lean`).

  NOT imported by `Driver/Main.lean`; the executable is unaffected.  Core Lean only.

  Main results (namespace `Driver`):
    * `decB_encB`        : decB (encB b) = b
    * `encB_sepFree`     : no separator character occurs in `encB b`
    * `encB_ascii`       : every character of `encB b` is ASCII (so chars = bytes on the wire)
    * `decodeChars_length_le`
    * `splitOnChar_eq`   : `splitOnChar s c = (s.toList.splitOn c).map String.ofList`
    * `decL_encL`        : decL (encL l) = l
    * `decM_encKVs`      : decM of an order-preserving `k=v,…` line (harness `encKVs`) = the pairs
    * `decM_encM`        : decM (encM m) = sortKV m
-/
import Driver.Codec
namespace Driver
open Mux

namespace P20

/-! ## Char-level view of `encB` -/

/-- The characters emitted for one byte. -/
def encByte (b : UInt8) : List Char :=
  if isSafe b then [Char.ofNat b.toNat] else ['%', hexDigit (b.toNat / 16), hexDigit (b.toNat % 16)]

/-- The characters emitted for a byte string (before the `%_` special case). -/
def encChars (s : Bytes) : List Char := s.flatMap encByte

theorem encB_eq (s : Bytes) :
    encB s = if s = [] then "%_" else String.ofList (encChars s) := rfl

/-- The framing characters of the line protocol. -/
def isSep (c : Char) : Bool :=
  c == ' ' || c == ',' || c == '=' || c == '|' || c == '+' || c == '\n' || c == ';' || c == ':'

/-- Everything we need to know about one byte, as a `Bool` so that the kernel can evaluate it. -/
def byteOk (b : UInt8) : Bool :=
  (if isSafe b then
      Char.ofNat b.toNat != '%' && UInt8.ofNat (Char.ofNat b.toNat).toNat == b
    else
      hexVal (hexDigit (b.toNat / 16)) == some (b.toNat / 16) &&
      hexVal (hexDigit (b.toNat % 16)) == some (b.toNat % 16) &&
      UInt8.ofNat (b.toNat / 16 * 16 + b.toNat % 16) == b) &&
  (encByte b).all (fun c => !isSep c && decide (c.toNat < 128))

theorem byteOk_range : (List.range 256).all (fun n => byteOk (UInt8.ofNat n)) = true := by
  decide +kernel

theorem byteOk_all (b : UInt8) : byteOk b = true := by
  have h := List.all_eq_true.mp byteOk_range b.toNat (List.mem_range.mpr b.toNat_lt)
  simpa using h

theorem hexVal_hexDigit (n : Nat) (h : n < 16) : hexVal (hexDigit n) = some n := by
  have : (List.range 16).all (fun n => hexVal (hexDigit n) == some n) = true := by decide +kernel
  have := List.all_eq_true.mp this n (List.mem_range.mpr h)
  simpa using this

theorem ofNat_div_mod (x : UInt8) : UInt8.ofNat (x.toNat / 16 * 16 + x.toNat % 16) = x := by
  rw [Nat.div_add_mod']; simp

/-! ## `decodeChars` -/

theorem decodeChars_cons_ne (c : Char) (rest : List Char) (h : c ≠ '%') :
    decodeChars (c :: rest) = UInt8.ofNat c.toNat :: decodeChars rest := by
  rw [decodeChars]
  intro a b r hc
  exact absurd hc h

theorem decodeChars_pct (a b : Char) (x y : Nat) (rest : List Char)
    (ha : hexVal a = some x) (hb : hexVal b = some y) :
    decodeChars ('%' :: a :: b :: rest) = UInt8.ofNat (x * 16 + y) :: decodeChars rest := by
  rw [decodeChars, ha, hb]

theorem decodeChars_encByte (b : UInt8) (rest : List Char) :
    decodeChars (encByte b ++ rest) = b :: decodeChars rest := by
  have h := byteOk_all b
  unfold byteOk at h
  unfold encByte
  by_cases hs : isSafe b = true
  · simp only [hs, if_true, Bool.and_eq_true, bne_iff_ne, ne_eq, beq_iff_eq] at h ⊢
    rw [List.singleton_append, decodeChars_cons_ne _ _ h.1.1, h.1.2]
  · simp only [hs, Bool.false_eq_true, if_false, Bool.and_eq_true, beq_iff_eq] at h ⊢
    obtain ⟨⟨⟨h1, h2⟩, h3⟩, _⟩ := h
    show decodeChars ('%' :: _ :: _ :: rest) = _
    rw [decodeChars_pct _ _ _ _ rest h1 h2, h3]

theorem decodeChars_encChars (s : Bytes) : decodeChars (encChars s) = s := by
  induction s with
  | nil => rfl
  | cons b s ih =>
    show decodeChars (encByte b ++ encChars s) = _
    rw [decodeChars_encByte, ih]

/-- Item 4: malformed escapes cannot blow up; the decoder never produces more bytes than it
    reads characters. -/
theorem decodeChars_length_le (cs : List Char) : (decodeChars cs).length ≤ cs.length := by
  fun_induction decodeChars cs <;> simp only [List.length_cons, List.length_nil] <;> omega

/-! ## Character set of the encoding -/

theorem encByte_chars (b : UInt8) (c : Char) (hc : c ∈ encByte b) :
    isSep c = false ∧ c.toNat < 128 := by
  have h := byteOk_all b
  unfold byteOk at h
  have h2 := List.all_eq_true.mp (Bool.and_eq_true _ _ ▸ h).2 c hc
  simpa using h2

theorem encChars_chars (s : Bytes) (c : Char) (hc : c ∈ encChars s) :
    isSep c = false ∧ c.toNat < 128 := by
  obtain ⟨b, _, hb⟩ := List.mem_flatMap.mp hc
  exact encByte_chars b c hb

theorem encChars_ne_nil (s : Bytes) (h : s ≠ []) : encChars s ≠ [] := by
  cases s with
  | nil => exact absurd rfl h
  | cons b s =>
    show encByte b ++ encChars s ≠ []
    unfold encByte
    split <;> simp

theorem lit_empty : ("%_" : String) = String.ofList ['%', '_'] := rfl
theorem lit_emptyList : ("%-" : String) = String.ofList ['%', '-'] := rfl

theorem toList_encB (s : Bytes) :
    (encB s).toList = if s = [] then ['%', '_'] else encChars s := by
  rw [encB_eq]
  split
  · rw [lit_empty, String.toList_ofList]
  · rw [String.toList_ofList]

/-- A token `t` whose decoding re-encodes to something different is not in the image of `encChars`. -/
theorem encChars_ne_of_decode (t : List Char) (h : encChars (decodeChars t) ≠ t) (s : Bytes) :
    encChars s ≠ t := by
  intro e
  apply h
  rw [← e, decodeChars_encChars]

theorem encChars_ne_empty (s : Bytes) : encChars s ≠ ['%', '_'] :=
  encChars_ne_of_decode _ (by decide +kernel) s

theorem encChars_ne_emptyList (s : Bytes) : encChars s ≠ ['%', '-'] :=
  encChars_ne_of_decode _ (by decide +kernel) s

end P20

open P20

/-! ## Item 1: round trip of one byte string -/

/-- A non-empty byte string is never encoded as the reserved token `%_`. -/
theorem encB_ne_empty (b : Bytes) (h : b ≠ []) : encB b ≠ "%_" := by
  rw [encB_eq, if_neg h, lit_empty]
  intro e
  exact encChars_ne_empty b (String.ofList_injective e)

/-- No byte string is encoded as the reserved token `%-` (the empty list / map). -/
theorem encB_ne_emptyList (b : Bytes) : encB b ≠ "%-" := by
  rw [encB_eq]
  split
  · decide
  · rw [lit_emptyList]
    intro e
    exact encChars_ne_emptyList b (String.ofList_injective e)

/-- **Round trip**: decoding the encoding of any byte string gives it back. -/
theorem decB_encB (b : Bytes) : decB (encB b) = b := by
  by_cases h : b = []
  · subst h; rfl
  · unfold decB
    rw [if_neg (encB_ne_empty b h), toList_encB, if_neg h, decodeChars_encChars]

/-- Item 4 (restated in `Driver`): the decoder is total and never produces more bytes than it
    reads characters, whatever the (possibly malformed) input. -/
theorem decodeChars_length_le (cs : List Char) : (decodeChars cs).length ≤ cs.length :=
  P20.decodeChars_length_le cs

theorem decB_length_le (tok : String) : (decB tok).length ≤ tok.toList.length := by
  unfold decB
  split
  · exact Nat.zero_le _
  · exact P20.decodeChars_length_le _

/-- `encB` is injective (consequence of the round trip). -/
theorem encB_injective {a b : Bytes} (h : encB a = encB b) : a = b := by
  rw [← decB_encB a, h, decB_encB]

/-! ## Item 2: separator freedom -/

/-- No framing character occurs in an encoded byte string. -/
theorem encB_noSep (b : Bytes) (c : Char) (hc : c ∈ (encB b).toList) : isSep c = false := by
  rw [toList_encB] at hc
  split at hc
  · have : ['%', '_'].all (fun c => !isSep c) = true := by decide +kernel
    simpa using List.all_eq_true.mp this c hc
  · exact (encChars_chars b c hc).1

/-- Item 2 spelled out: `encB b` contains none of `' ' , = | + \n ; :`. -/
theorem encB_sepFree (b : Bytes) :
    ' ' ∉ (encB b).toList ∧ ',' ∉ (encB b).toList ∧ '=' ∉ (encB b).toList ∧
    '|' ∉ (encB b).toList ∧ '+' ∉ (encB b).toList ∧ '\n' ∉ (encB b).toList ∧
    ';' ∉ (encB b).toList ∧ ':' ∉ (encB b).toList := by
  refine ⟨?_, ?_, ?_, ?_, ?_, ?_, ?_, ?_⟩ <;>
    exact fun h => absurd (encB_noSep b _ h) (by decide)

/-- Every character of `encB b` is ASCII, so on the wire one character is one byte. -/
theorem encB_ascii (b : Bytes) (c : Char) (hc : c ∈ (encB b).toList) : c.toNat < 128 := by
  rw [toList_encB] at hc
  split at hc
  · have : ['%', '_'].all (fun c => decide (c.toNat < 128)) = true := by decide +kernel
    simpa using List.all_eq_true.mp this c hc
  · exact (encChars_chars b c hc).2

/-- The encoding is never the empty string (so tokens survive whitespace splitting). -/
theorem encB_ne_emptyString (b : Bytes) : encB b ≠ "" := by
  intro e
  have := congrArg String.toList e
  rw [toList_encB] at this
  split at this
  · simp at this
  · next h => exact encChars_ne_nil b h (by simpa using this)


/-! ## Item 3: `String.splitOn` on a one-character separator, and the list codec

`String.splitOn` is the legacy byte-position loop `String.splitOnAux`.  We relate it to core's
list-level `List.splitOn` (for which `List.splitOn_intercalate` is available). -/

namespace P20
open String

/-- UTF-8 length of a list of characters. -/
def ulen : List Char → Nat
  | [] => 0
  | c :: cs => c.utf8Size + ulen cs

theorem ulen_append (a b : List Char) : ulen (a ++ b) = ulen a + ulen b := by
  induction a with
  | nil => simp [ulen]
  | cons c a ih => simp only [List.cons_append, ulen, ih]; omega

theorem ulen_eq_zero {l : List Char} (h : ulen l = 0) : l = [] := by
  cases l with
  | nil => rfl
  | cons c cs => have := c.utf8Size_pos; simp only [ulen] at h; omega

theorem utf8ByteSize_ofList (cs : List Char) : (String.ofList cs).utf8ByteSize = ulen cs := by
  induction cs with
  | nil => rfl
  | cons c cs ih =>
    rw [String.ofList_cons, String.utf8ByteSize_append, String.utf8ByteSize_singleton, ih, ulen]

theorem getAux_at (l : List Char) (c : Char) (r : List Char) (i : Nat) :
    Pos.Raw.utf8GetAux (l ++ c :: r) ⟨i⟩ ⟨i + ulen l⟩ = c := by
  induction l generalizing i with
  | nil => simp [Pos.Raw.utf8GetAux, ulen]
  | cons x l ih =>
    have hx := x.utf8Size_pos
    have hne : ¬ (⟨i⟩ : Pos.Raw) = ⟨i + ulen (x :: l)⟩ := by
      intro h; have := congrArg Pos.Raw.byteIdx h; simp only [ulen] at this; omega
    rw [List.cons_append, Pos.Raw.utf8GetAux, if_neg hne]
    have : (⟨i + ulen (x :: l)⟩ : Pos.Raw) = ⟨(i + x.utf8Size) + ulen l⟩ := by
      simp only [ulen, Nat.add_assoc]
    rw [this]
    exact ih (i + x.utf8Size)

theorem get_at (l : List Char) (c : Char) (r : List Char) :
    Pos.Raw.get (String.ofList (l ++ c :: r)) ⟨ulen l⟩ = c := by
  rw [Pos.Raw.get, String.toList_ofList]
  have := getAux_at l c r 0
  simpa using this

theorem next_at (l : List Char) (c : Char) (r : List Char) :
    Pos.Raw.next (String.ofList (l ++ c :: r)) ⟨ulen l⟩ = ⟨ulen l + c.utf8Size⟩ := by
  rw [Pos.Raw.next, get_at]; rfl

theorem atEnd_at (l r : List Char) :
    Pos.Raw.atEnd (String.ofList (l ++ r)) ⟨ulen l⟩ = decide (r = []) := by
  rw [Pos.Raw.atEnd, utf8ByteSize_ofList, ulen_append]
  cases r with
  | nil => simp [ulen]
  | cons c r =>
    have := c.utf8Size_pos
    simp only [ulen, reduceCtorEq, decide_false, decide_eq_false_iff_not, ge_iff_le]
    omega

theorem go₂_at (m r : List Char) (i : Nat) :
    Pos.Raw.extract.go₂ (m ++ r) ⟨i⟩ ⟨i + ulen m⟩ = m := by
  induction m generalizing i with
  | nil =>
    cases r with
    | nil => rfl
    | cons c r => simp [Pos.Raw.extract.go₂, ulen]
  | cons x m ih =>
    have hx := x.utf8Size_pos
    have hne : ¬ (⟨i⟩ : Pos.Raw) = ⟨i + ulen (x :: m)⟩ := by
      intro h; have := congrArg Pos.Raw.byteIdx h; simp only [ulen] at this; omega
    rw [List.cons_append, Pos.Raw.extract.go₂, if_neg hne]
    have : (⟨i + ulen (x :: m)⟩ : Pos.Raw) = ⟨(i + x.utf8Size) + ulen m⟩ := by
      simp only [ulen, Nat.add_assoc]
    rw [this]
    exact congrArg (x :: ·) (ih (i + x.utf8Size))

theorem go₁_at (l m r : List Char) (i : Nat) :
    Pos.Raw.extract.go₁ (l ++ (m ++ r)) ⟨i⟩ ⟨i + ulen l⟩ ⟨i + ulen l + ulen m⟩ = m := by
  induction l generalizing i with
  | nil =>
    simp only [List.nil_append, ulen, Nat.add_zero]
    cases hmr : m ++ r with
    | nil =>
      rw [Pos.Raw.extract.go₁]
      exact (List.append_eq_nil_iff.mp hmr).1.symm
    | cons c cs =>
      rw [Pos.Raw.extract.go₁, if_pos rfl, ← hmr]
      exact go₂_at m r i
  | cons x l ih =>
    have hx := x.utf8Size_pos
    have hne : ¬ (⟨i⟩ : Pos.Raw) = ⟨i + ulen (x :: l)⟩ := by
      intro h; have := congrArg Pos.Raw.byteIdx h; simp only [ulen] at this; omega
    rw [List.cons_append, Pos.Raw.extract.go₁, if_neg hne]
    have e1 : (⟨i + ulen (x :: l)⟩ : Pos.Raw) = ⟨(i + x.utf8Size) + ulen l⟩ := by
      simp only [ulen, Nat.add_assoc]
    have e2 : (⟨i + ulen (x :: l) + ulen m⟩ : Pos.Raw) = ⟨(i + x.utf8Size) + ulen l + ulen m⟩ := by
      simp only [ulen, Nat.add_assoc]
    rw [e1, e2]
    exact ih (i + x.utf8Size)

theorem extract_at (l m r : List Char) :
    Pos.Raw.extract (String.ofList (l ++ (m ++ r))) ⟨ulen l⟩ ⟨ulen l + ulen m⟩ = String.ofList m := by
  rw [Pos.Raw.extract]
  split
  · next h =>
    have : ulen m = 0 := by simp only [ge_iff_le] at h; omega
    rw [ulen_eq_zero this]
  · rw [String.toList_ofList]
    have := go₁_at l m r 0
    simp only [Nat.zero_add] at this
    rw [show (0 : Pos.Raw) = ⟨0⟩ from rfl, this]

/-- The loop of `String.splitOn` for a one-character separator, at list level. -/
theorem splitOnAux_at (c : Char) (r l m : List Char) (acc : List String) :
    String.splitOnAux (String.ofList (l ++ (m ++ r))) (String.singleton c)
        ⟨ulen l⟩ ⟨ulen l + ulen m⟩ 0 acc =
      acc.reverse ++ (List.splitOnPPrepend (· == c) r m.reverse).map String.ofList := by
  induction r generalizing l m acc with
  | nil =>
    rw [String.splitOnAux]
    have hend : Pos.Raw.atEnd (String.ofList (l ++ (m ++ []))) ⟨ulen l + ulen m⟩ = true := by
      have := atEnd_at (l ++ m) []
      rw [ulen_append] at this
      simpa using this
    rw [if_pos hend, extract_at]
    simp
  | cons x r ih =>
    rw [String.splitOnAux]
    have hs : l ++ (m ++ x :: r) = (l ++ m) ++ x :: r := by simp
    have hend : ¬ Pos.Raw.atEnd (String.ofList (l ++ (m ++ x :: r))) ⟨ulen l + ulen m⟩ = true := by
      have := atEnd_at (l ++ m) (x :: r)
      rw [ulen_append] at this
      rw [hs, this]; simp
    have hget : Pos.Raw.get (String.ofList (l ++ (m ++ x :: r))) ⟨ulen l + ulen m⟩ = x := by
      have := get_at (l ++ m) x r
      rwa [ulen_append, ← hs] at this
    have hnext : Pos.Raw.next (String.ofList (l ++ (m ++ x :: r))) ⟨ulen l + ulen m⟩
        = ⟨ulen l + ulen m + x.utf8Size⟩ := by
      have := next_at (l ++ m) x r
      rwa [ulen_append, ← hs] at this
    have hsepget : Pos.Raw.get (String.singleton c) 0 = c := by
      have := get_at [] c []
      rwa [List.nil_append, ← String.singleton_eq_ofList] at this
    have hsepnext : Pos.Raw.next (String.singleton c) 0 = ⟨c.utf8Size⟩ := by
      have := next_at [] c []
      rw [List.nil_append, ← String.singleton_eq_ofList] at this
      simpa [ulen] using this
    have hsepend : Pos.Raw.atEnd (String.singleton c) ⟨c.utf8Size⟩ = true := by
      simp [Pos.Raw.atEnd, String.utf8ByteSize_singleton]
    rw [if_neg hend, hget, hsepget]
    by_cases hxc : (x == c) = true
    · rw [if_pos hxc]
      simp only [hnext, hsepnext, hsepend, if_true]
      have hx : x = c := by simpa using hxc
      have hun : Pos.Raw.unoffsetBy ⟨ulen l + ulen m + x.utf8Size⟩ ⟨c.utf8Size⟩
          = (⟨ulen l + ulen m⟩ : Pos.Raw) := by
        rw [hx]; simp [Pos.Raw.unoffsetBy]
      rw [hun, extract_at]
      have key := ih (l ++ m ++ [x]) [] (String.ofList m :: acc)
      have hl : l ++ m ++ [x] ++ ([] ++ r) = l ++ (m ++ x :: r) := by simp
      have hu : ulen (l ++ m ++ [x]) = ulen l + ulen m + x.utf8Size := by
        simp only [ulen_append, ulen]; omega
      rw [hl, hu] at key
      simp only [ulen, Nat.add_zero] at key
      rw [key, List.splitOnPPrepend_cons_pos (by simpa using hxc)]
      simp
    · rw [if_neg hxc]
      simp only [Pos.Raw.unoffsetBy_zero, hnext]
      have key := ih l (m ++ [x]) acc
      have hl : l ++ (m ++ [x] ++ r) = l ++ (m ++ x :: r) := by simp
      have hu : ulen l + ulen (m ++ [x]) = ulen l + ulen m + x.utf8Size := by
        simp only [ulen_append, ulen]; omega
      rw [hl, hu] at key
      rw [key, List.splitOnPPrepend_cons_neg (by simpa using hxc)]
      simp

theorem singleton_ne_empty (c : Char) : (String.singleton c == "") = false := by
  rw [beq_eq_false_iff_ne]
  intro h
  have := congrArg String.toList h
  simp at this

/-- `String.splitOn` with a one-character separator is `List.splitOn` on the characters. -/
theorem splitOn_singleton (s : String) (c : Char) :
    s.splitOn (String.singleton c) = (s.toList.splitOn c).map String.ofList := by
  unfold String.splitOn
  rw [singleton_ne_empty]
  have := splitOnAux_at c s.toList [] [] []
  simp only [List.nil_append, ulen, String.ofList_toList, List.reverse_nil,
    List.splitOnPPrepend_nil_right] at this
  simpa [List.splitOn] using this

end P20

open P20

/-- The driver's `splitOnChar` is the list-level split of the characters. -/
theorem splitOnChar_eq (s : String) (c : Char) :
    splitOnChar s c = (s.toList.splitOn c).map String.ofList :=
  splitOn_singleton s c

/-- Splitting a `c`-joined list of tokens none of which contains `c` gives the tokens back. -/
theorem splitOnChar_intercalate (c : Char) (ss : List String) (hne : ss ≠ [])
    (hfree : ∀ s ∈ ss, c ∉ s.toList) :
    splitOnChar ((String.singleton c).intercalate ss) c = ss := by
  rw [splitOnChar_eq, String.toList_intercalate, String.toList_singleton,
    List.splitOn_intercalate c _ (by simpa using hne)]
  · simp [List.map_map, Function.comp_def, String.ofList_toList]
  · intro l hl
    obtain ⟨s, hs, rfl⟩ := List.mem_map.mp hl
    exact hfree s hs

/-- A non-empty list is never encoded as the reserved token `%-`. -/
theorem encL_ne_emptyList (l : List Bytes) (h : l ≠ []) : encL l ≠ "%-" := by
  unfold encL
  rw [if_neg h]
  intro e
  have hc := congrArg String.toList e
  rw [show ("," : String) = String.singleton ',' from rfl] at hc
  match l, h with
  | [x], _ =>
    simp only [List.map_cons, List.map_nil, String.intercalate_singleton] at hc
    exact encB_ne_emptyList x (String.toList_injective hc)
  | x :: y :: l, _ =>
    have hmem : ',' ∈ ((String.singleton ',').intercalate ((x :: y :: l).map encB)).toList := by
      simp [String.toList_intercalate, List.intercalate]
    rw [hc] at hmem
    revert hmem
    decide +kernel

/-- **Round trip for lists of byte strings.** -/
theorem decL_encL (l : List Bytes) : decL (encL l) = l := by
  by_cases h : l = []
  · subst h; rfl
  · unfold decL
    rw [if_neg (encL_ne_emptyList l h)]
    unfold encL
    rw [if_neg h, show ("," : String) = String.singleton ',' from rfl,
      splitOnChar_intercalate ',' _ (by simpa using h)]
    · rw [List.map_map]
      conv => rhs; rw [← List.map_id l]
      exact List.map_congr_left (fun b _ => decB_encB b)
    · intro s hs
      obtain ⟨b, _, rfl⟩ := List.mem_map.mp hs
      exact (encB_sepFree b).2.1


/-! ## Maps (`k=v,k=v`) -/

namespace P20

/-- One `k=v` entry as printed by `encM` (and by the harness' `encKVs`). -/
def encKV (e : Bytes × Bytes) : String := encB e.1 ++ "=" ++ encB e.2

theorem encKV_eq_intercalate (e : Bytes × Bytes) :
    encKV e = (String.singleton '=').intercalate [encB e.1, encB e.2] := by
  rw [String.intercalate_cons_cons, String.intercalate_singleton]; rfl

theorem toList_encKV (e : Bytes × Bytes) :
    (encKV e).toList = (encB e.1).toList ++ '=' :: (encB e.2).toList := by
  unfold encKV
  rw [String.toList_append, String.toList_append, show ("=" : String) = String.singleton '=' from rfl,
    String.toList_singleton]
  simp

theorem encKV_noComma (e : Bytes × Bytes) : ',' ∉ (encKV e).toList := by
  rw [toList_encKV]
  intro h
  rcases List.mem_append.mp h with h | h
  · exact (encB_sepFree e.1).2.1 h
  · rcases List.mem_cons.mp h with h | h
    · exact absurd h (by decide)
    · exact (encB_sepFree e.2).2.1 h

theorem decKV_encKV (e : Bytes × Bytes) :
    (match splitOnChar (encKV e) '=' with
      | [k, v] => some (decB k, decB v)
      | _ => none) = some e := by
  rw [encKV_eq_intercalate, splitOnChar_intercalate '=' _ (by simp)]
  · simp only [decB_encB]
  · intro s hs
    simp only [List.mem_cons, List.not_mem_nil, or_false] at hs
    rcases hs with rfl | rfl
    · exact (encB_sepFree e.1).2.2.1
    · exact (encB_sepFree e.2).2.2.1

theorem sortKV_length {α : Type} (l : List (Bytes × α)) : (sortKV l).length = l.length := by
  have ins : ∀ (e : Bytes × α) (xs : List (Bytes × α)), (insertKV e xs).length = xs.length + 1 := by
    intro e xs
    induction xs with
    | nil => rfl
    | cons x xs ih => unfold insertKV; split <;> simp [ih]
  induction l with
  | nil => rfl
  | cons x l ih => show (insertKV x (sortKV l)).length = _; rw [ins, ih]; rfl

theorem sortKV_ne_nil {α : Type} (l : List (Bytes × α)) (h : l ≠ []) : sortKV l ≠ [] := by
  intro e
  have := sortKV_length l
  rw [e] at this
  exact h (List.eq_nil_of_length_eq_zero this.symm)

end P20

open P20

/-- A non-empty sequence of `k=v` entries is never the reserved token `%-`. -/
theorem encKVs_ne_emptyList (l : List (Bytes × Bytes)) (h : l ≠ []) :
    ",".intercalate (l.map encKV) ≠ "%-" := by
  intro e
  have hc := congrArg String.toList e
  have hmem : '=' ∈ (",".intercalate (l.map encKV)).toList := by
    match l, h with
    | x :: l, _ =>
      cases l with
      | nil => simp [toList_encKV]
      | cons y l => simp [toList_encKV]
  rw [hc] at hmem
  revert hmem
  decide +kernel

/-- **Round trip for `k=v` sequences in the given order** (the harness' `encKVs`, used in
    operation lines): the driver's `decM` returns exactly the pairs, in order. -/
theorem decM_encKVs (l : List (Bytes × Bytes)) (h : l ≠ []) :
    decM (",".intercalate (l.map encKV)) = l := by
  unfold decM
  rw [if_neg (encKVs_ne_emptyList l h), show ("," : String) = String.singleton ',' from rfl,
    splitOnChar_intercalate ',' _ (by simpa using h)]
  · rw [List.filterMap_map]
    have : ∀ (l : List (Bytes × Bytes)), List.filterMap
        ((fun kv => match splitOnChar kv '=' with
          | [k, v] => some (decB k, decB v)
          | _ => none) ∘ encKV) l = l := by
      intro l
      induction l with
      | nil => rfl
      | cons x l ih =>
        rw [List.filterMap_cons, Function.comp_apply, decKV_encKV x, ih]
    exact this l
  · intro s hs
    obtain ⟨e, _, rfl⟩ := List.mem_map.mp hs
    exact encKV_noComma e

/-- **Round trip for maps**: decoding what `encM` prints gives the key-sorted association list. -/
theorem decM_encM (m : List (Bytes × Bytes)) : decM (encM m) = sortKV m := by
  by_cases h : m = []
  · subst h; rfl
  · unfold encM
    rw [if_neg h]
    exact decM_encKVs (sortKV m) (sortKV_ne_nil m h)

/-! ## Non-vacuity and concrete checks -/

-- all the awkward bytes at once: empty, ≥ 0x80, '%', ',', '=', '|', '+', space, newline, 0, 255
example : decB (encB []) = [] := decB_encB _
example : decB (encB [0x80, 37, 44, 61, 124, 43, 32, 10, 0, 255, 95]) =
    [0x80, 37, 44, 61, 124, 43, 32, 10, 0, 255, 95] := decB_encB _
example : ([37, 95] : Bytes) ≠ [] := by decide                     -- hypothesis of `encB_ne_empty`
example : decL (encL [[], [44], [37, 45]]) = [[], [44], [37, 45]] := decL_encL _
example : ([[]] : List Bytes) ≠ [] := by decide                    -- hypothesis of `encL_ne_emptyList`
example : ([([], [])] : List (Bytes × Bytes)) ≠ [] := by decide    -- hypothesis of `decM_encKVs`
example : ["a", "", "b=c"] ≠ [] ∧ ∀ s ∈ ["a", "", "b=c"], ',' ∉ s.toList := by decide +kernel

end Driver
