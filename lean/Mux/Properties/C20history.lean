/-
  C20 (sequences of operations; complete ParseInt / ParseBool specification).

  * `C20_history`: the context after ANY sequence of `Set`/`Delete`/`Reset` and pool round trips
    (`Destroy` + `NewContext`), started from the empty context a pool hands out, behaves like the mathematical map
    obtained by folding the sequence: `Get`, `Exists`, `String`, `Range`, `Count` all agree with it.
  * `C20_history_assoc`: the same against an independent association-list implementation of the fold
    (newest binding first): `Range` is a permutation of it, `Count` its length.
  * `C20_parseInt_range`, `C20_parseInt_syntax`, `C20_parseInt_value`: with `C20_parseInt_ok` the complete
    specification of the model's `strconv.ParseInt(s, 10, 64)`.
  * `C20_parseBool_spec`: the complete specification of `ParseBool`.
-/
import Mux.Properties.C20
import Mux.Proofs.ParseInt
namespace Mux.C20
open Mux

/-! ## Histories of context operations -/

/-- One operation on a context.  `recycle pool`: `ctx.Destroy()` into `pool`, then `NewContext()` from it. -/
inductive CtxOp where
  | set (k v : Bytes)
  | delete (k : Bytes)
  | reset
  | recycle (pool : Pool)

def CtxOp.run (c : Ctx) : CtxOp → Ctx
  | .set k v => c.set k v
  | .delete k => c.delete k
  | .reset => c.reset
  | .recycle pool => (pool.destroy c).newContext.1

/-- The reference: a mathematical map `key ↦ value`. -/
def CtxOp.den (m : Bytes → Option Bytes) : CtxOp → Bytes → Option Bytes
  | .set k v => fun k' => if k' = k then some v else m k'
  | .delete k => fun k' => if k' = k then none else m k'
  | .reset => fun _ => none
  | .recycle _ => fun _ => none

/-- A second, executable reference: association list, newest binding first, older bindings of the key dropped. -/
def CtxOp.ref (m : List (Bytes × Bytes)) : CtxOp → List (Bytes × Bytes)
  | .set k v => (k, v) :: m.filter (fun e => e.1 ≠ k)
  | .delete k => m.filter (fun e => e.1 ≠ k)
  | .reset => []
  | .recycle _ => []

/-- The invariant carried along a history. -/
structure HInv (c : Ctx) (d : Bytes → Option Bytes) (m : List (Bytes × Bytes)) : Prop where
  wf : WF c
  get : ∀ k, c.get k = d k
  keys : (m.map (·.1)).Nodup
  mem : ∀ k v, (k, v) ∈ m ↔ d k = some v

theorem nodup_of_map_fst {α β : Type} : ∀ (l : List (α × β)), (l.map (·.1)).Nodup → l.Nodup
  | [], _ => List.nodup_nil
  | e :: l, h => by
    rw [List.map_cons, List.nodup_cons] at h
    rw [List.nodup_cons]
    exact ⟨fun he => h.1 (List.mem_map.2 ⟨e, he, rfl⟩), nodup_of_map_fst l h.2⟩

theorem filter_keys_nodup (m : List (Bytes × Bytes)) (k : Bytes) (h : (m.map (·.1)).Nodup) :
    ((m.filter (fun e => e.1 ≠ k)).map (·.1)).Nodup :=
  (List.Sublist.map _ List.filter_sublist).nodup h

theorem hinv_step {c : Ctx} {d : Bytes → Option Bytes} {m : List (Bytes × Bytes)} (h : HInv c d m) (op : CtxOp) :
    HInv (op.run c) (op.den d) (op.ref m) := by
  cases op with
  | set k v =>
    refine ⟨wf_set c k v h.wf, fun k' => ?_, ?_, fun k' v' => ?_⟩
    · simp only [CtxOp.run, CtxOp.den, C20_map_get_set, h.get]
    · simp only [CtxOp.ref, List.map_cons, List.nodup_cons]
      refine ⟨?_, filter_keys_nodup m k h.keys⟩
      intro hk
      obtain ⟨e, he, hek⟩ := List.mem_map.1 hk
      simp only [List.mem_filter, decide_eq_true_eq] at he
      exact he.2 hek
    · simp only [CtxOp.ref, CtxOp.den, List.mem_cons, List.mem_filter, decide_eq_true_eq, Prod.mk.injEq]
      by_cases hk : k' = k
      · subst hk; simp only [true_and, ne_eq, not_true_eq_false, and_false, or_false, if_true, Option.some.injEq]
        exact eq_comm
      · simp only [hk, false_and, false_or, ne_eq, not_false_eq_true, and_true, if_false]
        exact h.mem k' v'
  | delete k =>
    refine ⟨wf_delete c k h.wf, fun k' => ?_, filter_keys_nodup m k h.keys, fun k' v' => ?_⟩
    · simp only [CtxOp.run, CtxOp.den, C20_map_get_delete c k k' h.wf, h.get]
    · simp only [CtxOp.ref, CtxOp.den, List.mem_filter, decide_eq_true_eq]
      by_cases hk : k' = k
      · subst hk; simp
      · simp only [hk, ne_eq, not_false_eq_true, and_true, if_false]
        exact h.mem k' v'
  | reset => exact ⟨wf_reset c, fun _ => rfl, List.nodup_nil, fun _ _ => by simp [CtxOp.ref, CtxOp.den]⟩
  | recycle pool =>
    refine ⟨?_, fun k => ?_, List.nodup_nil, fun _ _ => by simp [CtxOp.ref, CtxOp.den]⟩
    · simp only [CtxOp.run, C20_pool_empty]; exact wf_empty
    · simp only [CtxOp.run, C20_pool_empty]; rfl

theorem hinv_run (ops : List CtxOp) : ∀ {c : Ctx} {d : Bytes → Option Bytes} {m : List (Bytes × Bytes)}, HInv c d m →
    HInv (ops.foldl CtxOp.run c) (ops.foldl CtxOp.den d) (ops.foldl CtxOp.ref m) := by
  induction ops with
  | nil => intro c d m h; exact h
  | cons op ops ih => intro c d m h; exact ih (hinv_step h op)

theorem hinv_empty : HInv {} (fun _ => none) [] :=
  ⟨wf_empty, fun _ => rfl, List.nodup_nil, fun _ _ => by simp⟩

/-- **C20_history** (clauses "Set and Delete behave as on a map", "Count, Get, Exists, String, Range agree with one
another", quantifier "every sequence of Set/Delete/Reset/Destroy/NewContext").  For EVERY sequence `ops` applied to the
empty context (what `NewContext` hands out: `C20_pool_empty`), with `d` the mathematical map obtained by folding the
same sequence:
 * the parameter keys are unique (`WF`, the hypothesis of the one-step laws, discharged);
 * `Get k = d k`, `Exists k = (d k).isSome`, `String k` is `.ok v` / not-exists accordingly;
 * `Range` enumerates exactly the graph of `d`, each pair once; `Count` is the number of pairs.
No hypothesis. -/
theorem C20_history (ops : List CtxOp) :
    let c := ops.foldl CtxOp.run ({} : Ctx)
    let d := ops.foldl CtxOp.den (fun _ => none)
    WF c ∧ (∀ k, c.get k = d k) ∧ (∀ k, c.exists_ k = (d k).isSome) ∧
    (∀ k, c.string k = match d k with | some v => .ok v | none => .notExists) ∧
    (∀ k v, (k, v) ∈ c.range ↔ d k = some v) ∧ c.range.Nodup ∧ c.count = c.range.length := by
  intro c d
  have h : HInv c d _ := hinv_run ops hinv_empty
  refine ⟨h.wf, h.get, fun k => ?_, fun k => ?_, fun k v => ?_, nodup_of_map_fst _ h.wf, rfl⟩
  · rw [C20_agree_exists, h.get]
  · rw [C20_agree_string, h.get]
    cases d k <;> rfl
  · rw [C20_agree_range c k v h.wf, h.get]

/-- **C20_history_assoc**: the same against the executable association-list reference `m` (an independent
implementation: newest binding first, `filter` instead of in-place update): `Range` is a permutation of `m` (the order
of `Range` is unspecified in Go), `Count` is its length, and `m` represents the map `d`. -/
theorem C20_history_assoc (ops : List CtxOp) :
    let c := ops.foldl CtxOp.run ({} : Ctx)
    let d := ops.foldl CtxOp.den (fun _ => none)
    let m := ops.foldl CtxOp.ref []
    c.range.Perm m ∧ c.count = m.length ∧ (m.map (·.1)).Nodup ∧ (∀ k v, (k, v) ∈ m ↔ d k = some v) := by
  intro c d m
  have h : HInv c d m := hinv_run ops hinv_empty
  have hp : c.range.Perm m := by
    show c.params.Perm m
    rw [List.perm_ext_iff_of_nodup (nodup_of_map_fst _ h.wf) (nodup_of_map_fst _ h.keys)]
    rintro ⟨k, v⟩
    rw [h.mem, ← h.get]
    exact C20_agree_range c k v h.wf
  exact ⟨hp, hp.length_eq, h.keys, h.mem⟩

-- non-vacuity: a sequence with overwrite, delete, a pool round trip in the middle, and re-insertion
example :
    let ops : List CtxOp := [.set [97] [49], .set [98] [50], .recycle [{ params := [([122], [57])] }],
      .set [97] [51], .set [98] [52], .set [97] [53], .delete [98], .set [99] [54]]
    (ops.foldl CtxOp.run ({} : Ctx)).range = [([97], [53]), ([99], [54])] ∧
    ops.foldl CtxOp.ref [] = [([99], [54]), ([97], [53])] ∧
    ops.foldl CtxOp.den (fun _ => none) [97] = some [53] ∧ ops.foldl CtxOp.den (fun _ => none) [98] = none := by
  decide

/-! ## `ParseInt`, complete (proofs: `Mux/Proofs/ParseInt.lean`) -/

/-- **C20_parseInt_range**: `ParseInt` answers a range error with value `v` exactly for the optionally signed
non-empty digit strings whose value does not fit into `int64`; `v` is the bound on the side of the sign (what
`strconv` returns together with `ErrRange`). -/
theorem C20_parseInt_range (s : Bytes) (v : Int) :
    parseInt s = .rangeErr v ↔
      ∃ neg ds, (s = (if neg then [45] else []) ++ ds ∨ (neg = false ∧ s = 43 :: ds)) ∧ allDigits ds ∧
        ((neg = false ∧ (decVal ds : Int) > maxInt64 ∧ v = maxInt64) ∨
         (neg = true ∧ (decVal ds : Int) > -minInt64 ∧ v = minInt64)) :=
  Mux.parseInt_range s v

/-- **C20_parseInt_syntax**: `ParseInt` answers a syntax error exactly for the strings that are NOT an optionally
signed non-empty decimal digit string (the empty string, a lone sign, any other byte anywhere, two signs, …). -/
theorem C20_parseInt_syntax (s : Bytes) :
    parseInt s = .syntaxErr ↔
      ¬ ∃ neg ds, (s = (if neg then [45] else []) ++ ds ∨ (neg = false ∧ s = 43 :: ds)) ∧ allDigits ds :=
  Mux.parseInt_syntax s

/-- `ParseInt` itself never answers "not exists" (that is the accessor's answer for an absent key). -/
theorem C20_parseInt_ne_notExists (s : Bytes) : parseInt s ≠ .notExists := Mux.parseInt_ne_notExists s

/-- **C20_parseInt_value**: the specification as a function.  On an optionally signed non-empty digit string with
signed value `x`, `ParseInt` returns `x` if `minInt64 ≤ x ≤ maxInt64`, and otherwise the range error with the bound
nearest to `x`; on every other string the syntax error.  (`C20_parseInt_ok/_range/_syntax` are its three inverses.) -/
theorem C20_parseInt_value (s : Bytes) :
    (∀ neg ds, (s = (if neg then [45] else []) ++ ds ∨ (neg = false ∧ s = 43 :: ds)) → allDigits ds →
      let x : Int := if neg then -(decVal ds : Int) else (decVal ds : Int)
      parseInt s = if x > maxInt64 then .rangeErr maxInt64 else if x < minInt64 then .rangeErr minInt64 else .ok x) ∧
    ((¬ ∃ neg ds, (s = (if neg then [45] else []) ++ ds ∨ (neg = false ∧ s = 43 :: ds)) ∧ allDigits ds) →
      parseInt s = .syntaxErr) :=
  Mux.parseInt_value s

-- non-vacuity / edge values: `-9223372036854775809` is a range error clamped to `minInt64`; `+-1`, `1_0`, `-` are
-- syntax errors; `+007` is 7
example : parseInt [45, 57, 50, 50, 51, 51, 55, 50, 48, 51, 54, 56, 53, 52, 55, 55, 53, 56, 48, 57] = .rangeErr minInt64 ∧
    parseInt [43, 45, 49] = .syntaxErr ∧ parseInt [49, 95, 48] = .syntaxErr ∧ parseInt [45] = .syntaxErr ∧
    parseInt [43, 48, 48, 55] = .ok 7 := by decide
example : Signed [43, 48, 48, 55] false [48, 48, 55] ∧ allDigits [48, 48, 55] := by
  refine ⟨.inr ⟨rfl, rfl⟩, by simp, ?_⟩
  intro b hb
  simp only [List.mem_cons, List.not_mem_nil, or_false] at hb
  rcases hb with rfl | rfl | rfl <;> decide

/-! ## `ParseBool`, complete -/

/-- The literals `strconv.ParseBool` accepts as true: `1 t T TRUE true True`. -/
def boolTrues : List Bytes := [[49], [116], [84], [84, 82, 85, 69], [116, 114, 117, 101], [84, 114, 117, 101]]
/-- … and as false: `0 f F FALSE false False`. -/
def boolFalses : List Bytes :=
  [[48], [102], [70], [70, 65, 76, 83, 69], [102, 97, 108, 115, 101], [70, 97, 108, 115, 101]]

theorem parseBool_eq (s : Bytes) :
    parseBool s = if s ∈ boolTrues then .ok true else if s ∈ boolFalses then .ok false else .syntaxErr := by
  have e1 : bytesOfString "1" = [49] := by decide +kernel
  have e2 : bytesOfString "t" = [116] := by decide +kernel
  have e3 : bytesOfString "T" = [84] := by decide +kernel
  have e4 : bytesOfString "TRUE" = [84, 82, 85, 69] := by decide +kernel
  have e5 : bytesOfString "true" = [116, 114, 117, 101] := by decide +kernel
  have e6 : bytesOfString "True" = [84, 114, 117, 101] := by decide +kernel
  have f1 : bytesOfString "0" = [48] := by decide +kernel
  have f2 : bytesOfString "f" = [102] := by decide +kernel
  have f3 : bytesOfString "F" = [70] := by decide +kernel
  have f4 : bytesOfString "FALSE" = [70, 65, 76, 83, 69] := by decide +kernel
  have f5 : bytesOfString "false" = [102, 97, 108, 115, 101] := by decide +kernel
  have f6 : bytesOfString "False" = [70, 97, 108, 115, 101] := by decide +kernel
  unfold parseBool
  simp only [e1, e2, e3, e4, e5, e6, f1, f2, f3, f4, f5, f6, boolTrues, boolFalses, List.mem_cons, List.not_mem_nil,
    or_false]

/-- **C20_parseBool_spec**: the model's `ParseBool` is `strconv.ParseBool`: `true` exactly on the six true literals,
`false` exactly on the six false literals, a syntax error on every other string (case variants such as `tRUE`,
`yes`, the empty string), and never a range error or "not exists". -/
theorem C20_parseBool_spec (s : Bytes) :
    (parseBool s = .ok true ↔ s ∈ boolTrues) ∧ (parseBool s = .ok false ↔ s ∈ boolFalses) ∧
    (parseBool s = .syntaxErr ↔ s ∉ boolTrues ∧ s ∉ boolFalses) ∧
    (∀ v, parseBool s ≠ .rangeErr v) ∧ parseBool s ≠ .notExists := by
  have hdisj : ∀ x ∈ boolTrues, x ∉ boolFalses := by decide
  rw [parseBool_eq]
  by_cases ht : s ∈ boolTrues
  · have hf := hdisj s ht
    simp [ht, hf]
  · by_cases hf : s ∈ boolFalses <;> simp [ht, hf]

example : parseBool [84, 82, 85, 69] = .ok true ∧ parseBool [116, 82, 85, 69] = .syntaxErr ∧ parseBool [] = .syntaxErr ∧
    parseBool [70] = .ok false := by
  simp only [parseBool_eq]; decide

end Mux.C20
