/-
  C20 — Params accessors agree with each other and with strconv.
  Statements only (plus non-vacuity examples); helper lemmas live in Mux/Proofs/Params.lean.
-/
import Mux.Proofs.Params
namespace Mux.C20
open Mux

/-- Contexts reachable from the pool by Set/Delete/Reset: the parameter map has unique keys. -/
def WF (c : Ctx) : Prop := (c.params.map (·.1)).Nodup

theorem wf_empty : WF {} := List.nodup_nil
theorem wf_set (c : Ctx) (k v : Bytes) (h : WF c) : WF (c.set k v) :=
  AMap.nodup_keys_set c.params k v h
theorem wf_delete (c : Ctx) (k : Bytes) (h : WF c) : WF (c.delete k) :=
  AMap.nodup_keys_erase c.params k h
theorem wf_reset (c : Ctx) : WF c.reset := List.nodup_nil

/-- Set and Delete behave as on a map. -/
theorem C20_map_get_set (c : Ctx) (k k' v : Bytes) :
    (c.set k v).get k' = if k' = k then some v else c.get k' :=
  AMap.get?_set c.params k k' v
/- (the unique-key hypothesis is not needed here: `erase` removes every entry with that key) -/
theorem C20_map_get_delete (c : Ctx) (k k' : Bytes) (_h : WF c) :
    (c.delete k).get k' = if k' = k then none else c.get k' :=
  AMap.get?_erase c.params k k'
theorem C20_map_count_set (c : Ctx) (k v : Bytes) :
    (c.set k v).count = if (c.get k).isSome then c.count else c.count + 1 :=
  AMap.length_set c.params k v
theorem C20_map_count_delete (c : Ctx) (k : Bytes) (h : WF c) :
    (c.delete k).count = if (c.get k).isSome then c.count - 1 else c.count :=
  AMap.length_erase c.params k h

/-- Count, Get, Exists, String and Range agree with one another. -/
theorem C20_agree_exists (c : Ctx) (k : Bytes) : c.exists_ k = (c.get k).isSome := rfl
theorem C20_agree_string (c : Ctx) (k : Bytes) :
    c.string k = (match c.get k with | some v => .ok v | none => .notExists) := rfl
theorem C20_agree_range (c : Ctx) (k v : Bytes) (h : WF c) : (k, v) ∈ c.range ↔ c.get k = some v :=
  AMap.mem_iff_get? c.params k v h
theorem C20_agree_count (c : Ctx) : c.count = c.range.length := rfl

/-- Int/Uint/Bool return strconv's result for the captured text and not-exists for absent keys. -/
theorem C20_parse_int (c : Ctx) (k : Bytes) :
    c.int k = (match c.get k with | some v => parseInt v | none => .notExists) := rfl
theorem C20_parse_uint (c : Ctx) (k : Bytes) :
    c.uint k = (match c.get k with | some v => parseUint v | none => .notExists) := rfl
theorem C20_parse_bool (c : Ctx) (k : Bytes) :
    c.bool k = (match c.get k with | some v => parseBool v | none => .notExists) := rfl
theorem C20_parse_float (pf : Bytes → Acc Bytes) (c : Ctx) (k : Bytes) :
    c.float pf k = (match c.get k with | some v => pf v | none => .notExists) := rfl

/-- The value of a decimal digit string. -/
def decVal (ds : Bytes) : Nat := ds.foldl (fun a b => a * 10 + (b.toNat - 48)) 0
def allDigits (ds : Bytes) : Prop := ds ≠ [] ∧ ∀ b ∈ ds, 48 ≤ b ∧ b ≤ 57

/-- `parseUint` is strconv.ParseUint(s, 10, 64): digits only, clamped with a range error. -/
theorem C20_parseUint_spec (s : Bytes) :
    (parseUint s = .syntaxErr ↔ ¬ allDigits s) ∧
    (∀ n, parseUint s = .ok n ↔ allDigits s ∧ decVal s = n ∧ n ≤ maxUint64) ∧
    (∀ n, parseUint s = .rangeErr n ↔ allDigits s ∧ decVal s > maxUint64 ∧ n = maxUint64) :=
  Mux.parseUint_spec s

/-- `parseInt` is strconv.ParseInt(s, 10, 64): optional sign, digits, clamped with a range error. -/
theorem C20_parseInt_ok (s : Bytes) (v : Int) :
    parseInt s = .ok v ↔
      ∃ neg ds, (s = (if neg then [45] else []) ++ ds ∨ (neg = false ∧ s = 43 :: ds)) ∧ allDigits ds ∧
        v = (if neg then -(decVal ds : Int) else (decVal ds : Int)) ∧ minInt64 ≤ v ∧ v ≤ maxInt64 :=
  Mux.parseInt_ok s v

/-- Each Must* variant returns the supplied default precisely when its strict counterpart fails. -/
theorem C20_must_string (c : Ctx) (k d : Bytes) :
    c.mustString k d = (match c.string k with | .ok v => v | _ => d) := by
  unfold Ctx.mustString Ctx.string; cases c.get k <;> rfl
theorem C20_must_int (c : Ctx) (k : Bytes) (d : Int) :
    c.mustInt k d = (match c.int k with | .ok v => v | _ => d) := by
  unfold Ctx.mustInt Ctx.int; cases c.get k with
  | none => rfl
  | some v => simp only []; cases parseInt v <;> rfl
theorem C20_must_uint (c : Ctx) (k : Bytes) (d : Nat) :
    c.mustUint k d = (match c.uint k with | .ok v => v | _ => d) := by
  unfold Ctx.mustUint Ctx.uint; cases c.get k with
  | none => rfl
  | some v => simp only []; cases parseUint v <;> rfl
theorem C20_must_bool (c : Ctx) (k : Bytes) (d : Bool) :
    c.mustBool k d = (match c.bool k with | .ok v => v | _ => d) := by
  unfold Ctx.mustBool Ctx.bool; cases c.get k with
  | none => rfl
  | some v => simp only []; cases parseBool v <;> rfl
theorem C20_must_float (pf : Bytes → Acc Bytes) (c : Ctx) (k d : Bytes) :
    c.mustFloat pf k d = (match c.float pf k with | .ok v => v | _ => d) := by
  unfold Ctx.mustFloat Ctx.float; cases c.get k with
  | none => rfl
  | some v => simp only []; cases pf v <;> rfl

/-- A context obtained from the pool always starts empty, whatever the pool holds. -/
theorem C20_pool_empty (p : Pool) : (p.newContext).1 = ({} : Ctx) := by
  cases p <;> rfl
theorem C20_pool_destroy_new (p : Pool) (c : Ctx) : ((p.destroy c).newContext).1 = ({} : Ctx) :=
  C20_pool_empty _

/-- Non-vacuity: a context with three parameters, one of them overwritten and one deleted. -/
example : WF (((({} : Ctx).set [97] [49]).set [98] [50]).set [97] [51]) ∧
    ((((({} : Ctx).set [97] [49]).set [98] [50]).set [97] [51]).delete [98]).get [97] = some [51] := by
  unfold WF; decide

/-- Without the invariant `C20_map_count_delete` and `C20_agree_range` fail (duplicate keys), so `WF` is needed there. -/
example : let c : Ctx := { params := [([97], [49]), ([97], [50])] }
    (c.delete [97]).count = 0 ∧ ([97], [50]) ∈ c.range ∧ c.get [97] = some [49] := by decide

/-- Edge values of the parsers: `-2^63` parses, `2^63` is a range error, `+` alone and `` are syntax errors. -/
example : parseInt [45, 57, 50, 50, 51, 51, 55, 50, 48, 51, 54, 56, 53, 52, 55, 55, 53, 56, 48, 56] = .ok minInt64 ∧
    parseInt [57, 50, 50, 51, 51, 55, 50, 48, 51, 54, 56, 53, 52, 55, 55, 53, 56, 48, 56] = .rangeErr maxInt64 ∧
    parseInt [43] = .syntaxErr ∧ parseInt [] = .syntaxErr ∧
    parseUint [49, 56, 52, 52, 54, 55, 52, 52, 48, 55, 51, 55, 48, 57, 53, 53, 49, 54, 49, 54] = .rangeErr maxUint64 ∧
    parseUint [45, 49] = .syntaxErr := by decide

end Mux.C20
