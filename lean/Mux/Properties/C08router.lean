/-
  C08 (router level, over histories) — a HEAD REQUEST against the GET REQUEST for the same path.

  The earlier C08 files compare `runHead` and `runGet` on one script (`C08_head_status`, …) and flip the `headWrap`
  field of one synthetic call (`C08_head_call`); `C08_head_iff_get` relates the two ENTRIES of a node by their base
  only.  Here the two requests are compared through `Router.serveContext` / `Router.serveHTTP` on every router
  `NewRouter` and a history produce:
    * `C08_head_entry`            — invariant: the HEAD entry of a node is the HEAD copy of its GET entry: same base AND the
                                    same middlewares, applied in the same order with the same pattern and router name;
    * `C08_head_request`          — the call made for `HEAD p` given the call made for `GET p`;
    * `C08_head_response_partial` — the outcome (`Router.serveHTTP`) of `HEAD p` given the outcome of `GET p`: same
                                    status, same header map up to Content-Length, no body; same panics; same recovery.
  The proposed clause "same header SNAPSHOT" is false in general (counterexample below); the true part is proved.
-/
import Mux.Proofs.HeadServe
import Mux.Proofs.GetNodeFuel
import Mux.Properties.C08
namespace Mux.C08
open Mux Mux.P10

/-- `C08_head_entry`: on every tree a history produces (no hypothesis on patterns), on every node, the entry stored
under HEAD is the HEAD copy of the entry stored under GET (`HeadOf`): the same base (the same user handler) and the same
list of middleware applications — the same middleware ids in the same order, each with the same pattern and router name
(the factories are called with method HEAD instead of GET, the only difference).  Route middlewares, prefix middlewares
and every later `Use` included. -/
theorem C08_head_entry {t : Tree} (hr : t.Reach) {n : Node} (hn : n ∈ t.root.nodes) {hg hh : Handler}
    (h1 : n.handlers.get? mGET = some hg) (h2 : n.handlers.get? mHEAD = some hh) :
    hh.base = hg.base ∧ hh.wraps.map Wrap.site = hg.wraps.map Wrap.site ∧
      hh.wraps.map (·.mw) = hg.wraps.map (·.mw) :=
  let h := (hr.auto.get hn).head hg hh h1 h2
  ⟨h.1, h.2, h.mws⟩

/-- `C08_head_request`: on a router made by `NewRouter` and ANY history, let the request `GET path` (any path, any
parameters left by a matcher) make the call `cg`.  Then the request `HEAD path` — everything else equal — makes a call
`ch` with the same node, the same verdict `ok`, the same parameters, the same response header map at the time of the
call (CORS does not distinguish the two methods), the same router name, path and recovery settings, and:
* if GET is registered on the matched node (`cg.ok`): `cg.handler` is the node's GET entry, `ch.handler` is the node's
  HEAD entry, which is the HEAD copy of the GET entry (same base, same middlewares — `HeadOf`), and `ch` runs under the
  `headResponse` wrapper while `cg` does not;
* otherwise (404 or 405) the two calls are identical (`ch = cg`): in particular HEAD is served exactly when GET is. -/
theorem C08_head_request {cfg : RouterCfg} {r0 : Router} (hnew : Router.new cfg = some r0) (ops : List ROp)
    (env : Env) (req : Req) (ps : Params) (hg : req.method = mGET) {cg : Call}
    (hcg : (r0.run ops).serveContext env req ps = .call cg) :
    ∃ ch, (r0.run ops).serveContext env { req with method := mHEAD } ps = .call ch ∧
      ch.node = cg.node ∧ ch.ok = cg.ok ∧ ch.params = cg.params ∧ ch.respHeaders = cg.respHeaders ∧
      ch.routerName = cg.routerName ∧ ch.path = cg.path ∧ ch.recover = cg.recover ∧ ch.recActs = cg.recActs ∧
      ch.headWrap = cg.ok ∧ cg.headWrap = false ∧
      HeadOf cg.handler ch.handler ∧
      (cg.ok = true → ∃ n ∈ (r0.run ops).tree.root.nodes, cg.node = some n ∧
        n.handlers.get? mGET = some cg.handler ∧ n.handlers.get? mHEAD = some ch.handler) ∧
      (cg.ok = false → ch = cg) :=
  have hreach := (run_reach hnew ops).tree
  serve_head_get hreach.inv hreach.auto env req ps hg hcg

/-- The relation between the record of a HEAD answer and the record of the GET answer: no body byte, the same status
(an unset status being the implicit 200), the same live header map up to Content-Length, and — if the HEAD recorder took
a header snapshot (the handler sent a final status itself) — the GET recorder took one too and the two agree up to
Content-Length. -/
def HeadOfRec (rg rh : Rec) : Prop :=
  rh.body = 0 ∧ rh.status = rg.status ∧ rh.hdr.del hContentLength = rg.hdr.del hContentLength ∧
    ∀ s, rh.snap = some s → ∃ s', rg.snap = some s' ∧ s.del hContentLength = s'.del hContentLength

theorem headOfRec_run (acts : List Act) (hs : Hdr) :
    HeadOfRec (runGet acts { hdr := hs }) (runHead acts 0 false { hdr := hs }) :=
  ⟨by rw [runHead_body], runHead_status acts _, runHead_headers acts _, fun s h => runHead_snap acts _ rfl s h⟩

/-- `C08_head_response_partial`: on a router made by `NewRouter` and ANY history, for any panic configuration and
handler scripts, let `Router.ServeHTTP` answer `GET path` with call `cg` and outcome `outg`.  Then it answers
`HEAD path` with the call `ch` of `C08_head_request` and an outcome `outh` such that
* when GET is not registered on the matched node (`cg.ok = false`: 404/405) the two outcomes are identical;
* when it is (`cg.ok = true`):
  - GET returns normally iff HEAD does, and then the HEAD record is `HeadOfRec` of the GET record: no body, same status,
    same header map up to Content-Length, snapshots agreeing whenever HEAD has one;
  - GET panics with value `v` iff HEAD does (same middlewares, same handler);
  - GET is recovered from `v` iff HEAD is, and the records the recovery function leaves are again related by
    `HeadOfRec` (the recovery function writes through the `headResponse` wrapper for HEAD).
"Partial": the clause "same header snapshot" of the proposal holds only in the conditional form above — see the
counterexample `C08_head_snapshot_differs` below. -/
theorem C08_head_response_partial {cfg : RouterCfg} {r0 : Router} (hnew : Router.new cfg = some r0) (ops : List ROp)
    (env : Env) (pc : PanicCfg) (scripts : Scripts) (req : Req) (ps : Params) (hg : req.method = mGET)
    {cg : Call} {outg : Outcome} (hsg : (r0.run ops).serveHTTP env pc scripts req ps = (some cg, outg)) :
    ∃ ch outh, (r0.run ops).serveHTTP env pc scripts { req with method := mHEAD } ps = (some ch, outh) ∧
      ch.node = cg.node ∧ ch.ok = cg.ok ∧ ch.params = cg.params ∧ HeadOf cg.handler ch.handler ∧
      ch.headWrap = cg.ok ∧ cg.headWrap = false ∧
      (cg.ok = false → ch = cg ∧ outh = outg) ∧
      (cg.ok = true →
        (∀ rg, outg = .normal rg → ∃ rh, outh = .normal rh ∧ HeadOfRec rg rh) ∧
        (∀ rh, outh = .normal rh → ∃ rg, outg = .normal rg) ∧
        (∀ v, outg = .panicked v ↔ outh = .panicked v) ∧
        (∀ v rg, outg = .recovered v rg → ∃ rh, outh = .recovered v rh ∧ HeadOfRec rg rh) ∧
        (∀ v rh, outh = .recovered v rh → ∃ rg, outg = .recovered v rg)) := by
  obtain ⟨hcg, houtg⟩ := serveHTTP_call hsg
  obtain ⟨ch, hch, e1, e2, e3, e4, e5, e6, e7, e8, e9, e10, e11, _, e13⟩ :=
    C08_head_request hnew ops env req ps hg hcg
  refine ⟨ch, _, serveHTTP_of_call hch, e1, e2, e3, e11, e9, e10, ?_, ?_⟩
  · intro hok
    have := e13 hok
    subst this
    exact ⟨rfl, houtg.symm⟩
  · intro hok
    have hwh : ch.headWrap = true := by rw [e9, hok]
    have hsc := callScript_headOf pc scripts e11 e1
    have hrh : runCall pc scripts ch =
        (callScript pc scripts cg).map (fun acts => runHead acts 0 false { hdr := cg.respHeaders }) := by
      rw [runCall_eq_callScript, hsc, hwh]
      simp only [if_true, Call.rec0, e4]
    have hrg : runCall pc scripts cg =
        (callScript pc scripts cg).map (fun acts => runGet acts { hdr := cg.respHeaders }) := by
      rw [runCall_eq_callScript, e10]
      simp only [Bool.false_eq_true, if_false, Call.rec0]
    rw [houtg, hrg, hrh, e4, e7, e8, hwh, e10]
    cases callScript pc scripts cg with
    | ok acts =>
      simp only [Except.map, withRecover]
      refine ⟨?_, ?_, ?_, ?_, ?_⟩
      · intro rg h; cases h
        exact ⟨_, rfl, headOfRec_run acts _⟩
      · intro rh _; exact ⟨_, rfl⟩
      · intro v; constructor <;> intro h <;> cases h
      · intro v rg h; cases h
      · intro v rh h; cases h
    | error e =>
      simp only [Except.map, withRecover]
      cases cg.recover with
      | false =>
        simp only [Bool.false_eq_true, if_false]
        refine ⟨?_, ?_, ?_, ?_, ?_⟩
        · intro rg h; cases h
        · intro rh h; cases h
        · intro v; trivial
        · intro v rg h; cases h
        · intro v rh h; cases h
      | true =>
        simp only [if_true]
        refine ⟨?_, ?_, ?_, ?_, ?_⟩
        · intro rg h; cases h
        · intro rh h; cases h
        · intro v; constructor <;> intro h <;> cases h
        · intro v rg h
          cases h
          exact ⟨_, rfl, headOfRec_run cg.recActs _⟩
        · intro v rh h
          cases h
          exact ⟨_, rfl⟩

/-- The false part of the proposal "same header snapshot as the GET response": a handler that writes a body byte and
sets a header afterwards.  GET has sent its header at the first `Write` (snapshot without `Vary`); under the
`headResponse` wrapper `Write` only counts, nothing has been sent when the handler returns (no snapshot), and the header
map that then goes out with the implicit 200 contains `Vary`.  So neither the snapshots nor the header maps AS SENT
(`snap`, or the live map when nothing was sent) agree up to Content-Length, although status and live maps do. -/
theorem C08_head_snapshot_differs :
    let acts : List Act := [.write 1, .setHeader hVary [49]]
    let rg := runGet acts {}
    let rh := runHead acts 0 false {}
    rg.snap = some [] ∧ rh.snap = none ∧
    (rh.snap.getD rh.hdr).del hContentLength ≠ (rg.snap.getD rg.hdr).del hContentLength ∧
    rh.status = rg.status ∧ rh.hdr.del hContentLength = rg.hdr.del hContentLength := by decide +kernel

/-! ## Non-vacuity -/

def exCfg : RouterCfg := { name := [114], recover := true }   -- "r", with a recovery function
def exR0 : Router := (Router.new exCfg).getD default
theorem exNew : Router.new exCfg = some exR0 := rfl
def exEnv : Env := ⟨fun _ _ => true⟩
/-- `Use(1)`; `GET,POST /a/{id}` with route middleware 2; `Use(3)`; POST removed again. -/
def exOps : List ROp :=
  [.use [1], .handle (bytesOfString "/a/{id}") 7 [2] [mGET, mPOST], .use [3],
   .remove (bytesOfString "/a/{id}") [mPOST]]
/-- handler 7 sets a header, writes 5 bytes, then tries a late status -/
def exScripts : Scripts := [(7, [.setHeader hContentType [1], .write 5, .writeHeader 404])]

/-- A decidable view of an outcome: `(ok, headWrap, handler)` of the call and `(status, body, Content-Length)` of a
normal return. -/
def outIs (x : Option Call × Outcome) (ok hw : Bool) (h : Handler) (status body : Nat) (cl : Bytes) : Bool :=
  match x with
  | (some c, .normal rec) =>
    c.ok == ok && c.headWrap == hw && c.handler == h && rec.status == status && rec.body == body &&
      rec.hdr.get hContentLength == cl
  | _ => false

theorem outIs_true {x : Option Call × Outcome} {ok hw : Bool} {h : Handler} {status body : Nat} {cl : Bytes}
    (hh : outIs x ok hw h status body cl = true) : ∃ c rec, x = (some c, .normal rec) ∧ c.ok = ok := by
  obtain ⟨oc, out⟩ := x
  cases oc with
  | none => simp [outIs] at hh
  | some c =>
    cases out with
    | normal rec =>
      simp only [outIs, Bool.and_eq_true, beq_iff_eq] at hh
      exact ⟨c, rec, rfl, hh.1.1.1.1.1⟩
    | recovered v r => simp [outIs] at hh
    | panicked v => simp [outIs] at hh
    | unsupported => simp [outIs] at hh

/-- `GET /a/5`: handler 7 inside middlewares 2 (route), 1 and 3 (`Use`); 200, five body bytes. -/
theorem exGet : outIs ((exR0.run exOps).serveHTTP exEnv {} exScripts { method := mGET, path := bytesOfString "/a/5" } [])
    true false { base := .user 7, wraps := mkWraps [2, 1, 3] mGET (bytesOfString "/a/{id}") [114] } 200 5 [] = true := by
  mux_eval [exOps]
/-- `HEAD /a/5`: the same handler inside the same middlewares (called with method HEAD), under the wrapper; 200, no body,
Content-Length 5. -/
example : outIs ((exR0.run exOps).serveHTTP exEnv {} exScripts { method := mHEAD, path := bytesOfString "/a/5" } [])
    true true { base := .user 7, wraps := mkWraps [2, 1, 3] mHEAD (bytesOfString "/a/{id}") [114] } 200 0 [53] = true := by
  mux_eval [exOps]
/-- so the hypothesis of `C08_head_response_partial` (and of `C08_head_request`) is satisfiable with `cg.ok = true` -/
example : ∃ cg rg, (exR0.run exOps).serveHTTP exEnv {} exScripts { method := mGET, path := bytesOfString "/a/5" } [] =
    (some cg, .normal rg) ∧ cg.ok = true := outIs_true exGet
/-- and with a panicking middleware (`Use` middleware 3 panics with value 9) both requests are recovered -/
example :
    (match (exR0.run exOps).serveHTTP exEnv { mws := [(3, 9)] } exScripts
        { method := mGET, path := bytesOfString "/a/5" } [] with
      | (some _, .recovered v r) => v == .user 9 && r.status == 500
      | _ => false) = true ∧
    (match (exR0.run exOps).serveHTTP exEnv { mws := [(3, 9)] } exScripts
        { method := mHEAD, path := bytesOfString "/a/5" } [] with
      | (some _, .recovered v r) => v == .user 9 && r.status == 500
      | _ => false) = true := by
  constructor <;> mux_eval [exOps]
/-- the hypotheses of `C08_head_entry`: a reachable tree with (exactly) one node that has a GET and a HEAD entry -/
example : (exR0.run exOps).tree.Reach ∧
    ((exR0.run exOps).tree.root.nodes.filter
      (fun n => (n.handlers.get? mGET).isSome && (n.handlers.get? mHEAD).isSome)).length = 1 :=
  ⟨(run_reach exNew exOps).tree, by mux_eval [exOps]⟩

end Mux.C08
