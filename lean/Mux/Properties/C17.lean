/-
  C17 — registration is validated before the tree is touched: a rejected `Handle` changes nothing.

  `Tree.add` runs `checkAmb → split → checkMethods → getNode → modifyAt (addMethodsNode) → bumpMethods`
  and `Tree.step` keeps the old tree on an error.  The theorems below give (A) the decision logic of
  the validation and (B) the substantive companion: on a well-formed tree (`WellFormedTree`,
  `Mux/Proofs/AddAtomic.lean`) and for a well-formed pattern (`WfPattern`: every piece of
  `splitString` is brace-free or is one `{…}` token followed by brace-free text) the stages after
  the validation cannot fail, so "a rejected Handle changes nothing" does not hold by construction
  only.
-/
import Mux.Proofs.AddDecide
import Mux.Proofs.AmbigOne
import Mux.Proofs.P9Examples
import Mux.Proofs.AmbigSplit
import Mux.Proofs.ResolveAllEval
namespace Mux.C17
open Mux Mux.P9 Mux.P10 Mux.P16

/-! ## A. Decision logic -/

/-- A rejected `Handle` leaves the tree as it was (by the definition of `Tree.step`; the substance is
`C17_validated_ok`). -/
theorem C17_atomic_model (t : Tree) (p : Bytes) (h : Handler) (ms : List Nat) (methods : List Bytes) (e : Err)
    (he : t.add p h ms methods = .error e) : t.step (.add p h ms methods) = t := by
  simp only [Tree.step, he]

/-- OPTIONS, HEAD, TRACE (when configured) or an unknown name at ANY position of the method list:
`Tree.add` answers an error and the tree is unchanged. -/
theorem C17_reserved (t : Tree) (p : Bytes) (h : Handler) (ms : List Nat) (methods : List Bytes)
    (hbad : ∃ m ∈ methods, BadMethod t.hasTrace m) :
    (∃ e, t.add p h ms methods = .error e) ∧ t.step (.add p h ms methods) = t := by
  cases he : t.add p h ms methods with
  | ok t' => exact absurd he (add_bad_not_ok t p h ms methods hbad t')
  | error e => exact ⟨⟨e, rfl⟩, by simp only [Tree.step, he]⟩

/-- …and when the pattern itself is acceptable the error is `reserved`, `unknownMethod` or
`dupMethod` (whichever entry is refused first). -/
theorem C17_reserved_class (t : Tree) (p : Bytes) (h : Handler) (ms : List Nat) (methods : List Bytes)
    (hbad : ∃ m ∈ methods, BadMethod t.hasTrace m)
    {a : Option Bool} (hamb : t.root.checkAmb t.ic p false = .ok a) (ha : a ≠ some true)
    {segs : List Seg} (hsp : split t.ic p = .ok segs) :
    ∃ e, t.add p h ms methods = .error e ∧ (e = .reserved ∨ e = .unknownMethod ∨ e = .dupMethod) :=
  add_bad_class t p h ms methods hbad hamb ha hsp

/-- A method occurring twice in the list: never accepted, the tree is unchanged. -/
theorem C17_dup_list (t : Tree) (p : Bytes) (h : Handler) (ms : List Nat) (methods : List Bytes)
    (hdup : ¬ methods.Nodup) :
    (∃ e, t.add p h ms methods = .error e) ∧ t.step (.add p h ms methods) = t :=
  add_dup_list t p h ms methods hdup

/-- …with the error `dupMethod` when the pattern is acceptable and no entry is reserved or unknown. -/
theorem C17_dup_list_class (t : Tree) (p : Bytes) (h : Handler) (ms : List Nat) (methods : List Bytes)
    (hdup : ¬ methods.Nodup) (hgood : ∀ m ∈ methods, ¬ BadMethod t.hasTrace m)
    {a : Option Bool} (hamb : t.root.checkAmb t.ic p false = .ok a) (ha : a ≠ some true)
    {segs : List Seg} (hsp : split t.ic p = .ok segs) :
    t.add p h ms methods = .error .dupMethod :=
  add_dup_list_class t p h ms methods hdup hgood hamb ha hsp

/-- The pattern is live with method `m` (the node `findPath` finds for it has `m`) and `m` is in the
list: never accepted, the tree is unchanged. -/
theorem C17_dup_live (t : Tree) (p : Bytes) (h : Handler) (ms : List Nat) (methods : List Bytes)
    (path : List Nat) (n : Node) (m : Bytes)
    (hpath : t.root.findPath p = some path) (hn : t.root.getAt path = some n)
    (hm : m ∈ methods) (hlive : n.handlers.contains m = true) :
    (∃ e, t.add p h ms methods = .error e) ∧ t.step (.add p h ms methods) = t :=
  add_dup_live t p h ms methods path n m hpath hn hm hlive

/-- …with the error `dupMethod` when the pattern is acceptable and no entry is reserved or unknown. -/
theorem C17_dup_live_class (t : Tree) (p : Bytes) (h : Handler) (ms : List Nat) (methods : List Bytes)
    (path : List Nat) (n : Node) (m : Bytes)
    (hpath : t.root.findPath p = some path) (hn : t.root.getAt path = some n)
    (hm : m ∈ methods) (hlive : n.handlers.contains m = true)
    (hgood : ∀ m ∈ methods, ¬ BadMethod t.hasTrace m)
    {a : Option Bool} (hamb : t.root.checkAmb t.ic p false = .ok a) (ha : a ≠ some true)
    {segs : List Seg} (hsp : split t.ic p = .ok segs) :
    t.add p h ms methods = .error .dupMethod :=
  add_dup_live_class t p h ms methods path n m hpath hn hm hlive hgood hamb ha hsp

/-- **No false `ambiguous`.** If `Tree.add` answers `ambiguous`, the ambiguity check found a node:
there is a chain of existing nodes from the root to a node WITH HANDLERS such that the new pattern
text is consumed step by step along the chain (`AmbPath`, `Mux/Proofs/AddAtomic.lean`) — each step
either because the node's text is a literal prefix of the remaining pattern (`AmbPath.lit`), or because
the node's segment `isAmbiguous` with the first segment of the remaining pattern (same kind, rule,
suffix, endpoint; different name or `-` flag: `AmbPath.amb`), or — the branch added by the D33 repair,
`AmbPath.pre` — because the node is the upper half of a parameter node that was split: its segment is
the same token as the first segment of the remaining pattern up to the name or the `-` flag and its
literal suffix is a PROPER PREFIX of that segment's suffix (`isAmbiguousPrefix`); the walk then goes
on below the node with what follows the token and that shorter suffix.  At least one step is of the
second or third kind.  (The statement is unchanged; the certificate `AmbPath` gained the constructor
`pre`, so the theorem covers the new branch as well.) -/
theorem C17_ambiguous_sound (t : Tree) (p : Bytes) (h : Handler) (ms : List Nat) (methods : List Bytes)
    (he : t.add p h ms methods = .error .ambiguous) :
    t.root.checkAmb t.ic p false = .ok (some true) ∧
      ∃ (m : Node) (steps : List (Seg × Bool)),
        AmbPath t.ic t.root p m steps ∧ Chain t.root (steps.map (·.1)) m ∧ m.handlers ≠ [] ∧
        steps.any (·.2) = true :=
  add_ambiguous_sound t p h ms methods he

/-- `C17_no_false` of DESIGN.md, in the form available without a textual `eraseNames`.  The certificate
`AmbPath` has a constructor for each of the three ways `checkAmbiguous` descends (literal prefix,
`isAmbiguous`, and — since the D33 repair — `isAmbiguousPrefix`), so this covers every `ambiguous`
verdict of the repaired check; see `C17_ambig_prefix_sound` for the form on reachable trees. -/
theorem C17_no_false (t : Tree) (p : Bytes) (h : Handler) (ms : List Nat) (methods : List Bytes)
    (he : t.add p h ms methods = .error .ambiguous) :
    ∃ (m : Node) (steps : List (Seg × Bool)),
      Chain t.root (steps.map (·.1)) m ∧ m.handlers ≠ [] ∧ AmbPath t.ic t.root p m steps ∧
      ∃ sb ∈ steps, sb.2 = true := by
  obtain ⟨_, m, steps, h1, h2, h3, h4⟩ := add_ambiguous_sound t p h ms methods he
  exact ⟨m, steps, h2, h3, h1, by simpa using h4⟩

/-- **`C17_ambig_one`.** `t1` is a fresh tree after ONE successful `Handle` of the well-formed pattern
`q` (so `q` is the only route). `p ≠ q` is an accepted well-formed pattern that is identical to `q` up
to parameter names: segment by segment the same text, or a parameter with the same kind, rule, suffix
and endpoint flag but another name or `-` flag (`NameVariant`). Then `Handle p` is refused as
`ambiguous` (whatever handler, middlewares and methods), and the tree is unchanged. -/
theorem C17_ambig_one (name : Bytes) (ic : Interceptors) (nf : Handler) (tr : Option Handler) (ob nb : Base)
    (q p : Bytes) (h : Handler) (ms : List Nat) (methods : List Bytes) (t1 : Tree)
    (hq : P9.WfPattern q) (hp : P9.WfPattern p)
    (he : (Tree.new name ic nf tr ob nb).add q h ms methods = .ok t1)
    (psegs qsegs : List Seg) (hsp : split ic p = .ok psegs) (hsq : split ic q = .ok qsegs)
    (hu : UpToNames psegs qsegs) (hne : p ≠ q) (h' : Handler) (ms' : List Nat) (methods' : List Bytes) :
    t1.add p h' ms' methods' = .error .ambiguous ∧ t1.step (.add p h' ms' methods') = t1 := by
  have := ambig_one name ic nf tr ob nb hq hp he hsp hsq hu hne h' ms' methods'
  exact ⟨this, by simp only [Tree.step, this]⟩

/-- **`C17_ambig_prefix_sound`: the branch added by the D33 repair never produces a false positive.** On the tree
of any history with well-formed patterns (`ReachWf`), if `Handle p` is refused as `ambiguous` then the certificate
exists: a chain of existing nodes from the root to a node WITH HANDLERS along which the text of `p` is consumed
(`AmbPath`), at least one step being a parameter step.  The certificate has a constructor for each way the check
descends; for the new one, `AmbPath.pre`, the node `c` is not a textual prefix of the rest of the pattern, `Split`
accepts the rest with first segment `s0`, `c.seg.isAmbiguousPrefix s0` (same kind and rule, other name or `-`
flag, `c`'s literal suffix a PROPER prefix of `s0`'s), and the walk continues below `c` after the token and that
shorter suffix — the offset lies inside the pattern (`ambPrefix_offset_le`, no fault 252).  All nodes of the chain
satisfy I-seg (`SegOk`: each is `NewSegment` of its own well-formed text), so the comparison the steps made is a
comparison of real tokens.  (This is `C17_no_false` with the invariants of reachable trees added; both cover the
new branch because `AmbPath` does.) -/
theorem C17_ambig_prefix_sound (t : Tree) (hr : ReachWf t) (p : Bytes) (h : Handler) (ms : List Nat)
    (methods : List Bytes) (he : t.add p h ms methods = .error .ambiguous) :
    ∃ (m : Node) (steps : List (Seg × Bool)),
      AmbPath t.ic t.root p m steps ∧ Chain t.root (steps.map (·.1)) m ∧ m.handlers ≠ [] ∧
      (∃ sb ∈ steps, sb.2 = true) ∧ (∀ sb ∈ steps, SegOk t.ic sb.1) ∧
      m.pattern = (steps.map (·.1.value)).flatten ∧ m.pattern ∈ (tableOf t).patterns := by
  obtain ⟨_, m, steps, h1, h2, h3, h4⟩ := add_ambiguous_sound t p h ms methods he
  have hok := Mux.P13.reach_chain_segOk hr h2
  have hpat := Mux.P13.reach_chain_pattern hr h2
  rw [List.map_map] at hpat
  have hne : steps.map (·.1) ≠ [] := by
    intro e
    rw [List.map_eq_nil_iff] at e
    rw [e] at h4
    simp at h4
  refine ⟨m, steps, h1, h2, h3, by simpa using h4, ?_, hpat, ?_⟩
  · intro sb hsb
    exact hok sb.1 (List.mem_map_of_mem hsb)
  · have := live_chain_mem hr h2 hne h3
    rw [List.map_map] at this
    rw [hpat]; exact this

/-- What a step of the new branch (`AmbPath.pre`) compares and skips, textually: the node's segment is `{bc}suf`, the
first segment of the rest of the pattern is `{b0}suf·d` with `d ≠ []`; the two tokens have the same kind and the
same rule text but different bodies (another name or `-` flag); the step skips `{b0}suf` — the node's own text up
to the parameter name — and leaves `d …` to the node's children.  So a `pre` step, like an `amb` step, consumes
text that equals the node's text up to the parameter name / `-` flag. -/
theorem C17_ambig_prefix_consumed (ic : Interceptors) (c s0 : Seg) (hc : SegOk ic c) (h0 : SegOk ic s0)
    (hp : c.isAmbiguousPrefix s0 = true) (pat : Bytes) (hpre : s0.value <+: pat) :
    ∃ bc b0 d, c.value = tok bc c.suffix ∧ s0.value = tok b0 (c.suffix ++ d) ∧ d ≠ [] ∧ bc ≠ b0 ∧
      bodyRule bc = bodyRule b0 ∧ c.kind = s0.kind ∧
      pat.take (s0.value.length - s0.suffix.length + c.suffix.length) = tok b0 c.suffix ∧
      pat.drop (s0.value.length - s0.suffix.length + c.suffix.length) = d ++ pat.drop s0.value.length :=
  ambPrefix_consumed hc h0 hp hpre

/-- The new slice of the repaired check is in bounds: whenever the `isAmbiguousPrefix` branch is taken on an
accepted rest `pat` of the pattern (first segment `s0`), the offset `len(s0.Value) - len(s0.Suffix) +
len(seg.Suffix)` does not exceed `len(pat)`; hence `checkAmbiguous` fails with a syntax error of the pattern
only, never with a fault (`checkAmb_error`). -/
theorem C17_ambig_prefix_in_bounds (ic : Interceptors) (pat : Bytes) (s0 : Seg) (segs : List Seg) (c : Seg)
    (hs : split ic pat = .ok (s0 :: segs)) (hp : c.isAmbiguousPrefix s0 = true) :
    s0.value.length - s0.suffix.length + c.suffix.length ≤ pat.length ∧
      ∀ (n : Node) (has : Bool) (e : Err), n.checkAmb ic pat has = .error e → SynErr e :=
  ⟨ambPrefix_offset_le hs hp, fun n has e he => checkAmb_error ic n pat has e he⟩

/-- **`C17_ambig_one_history`.** `t` is the tree of ANY history of `Handle`/`Remove`/`Clean`/`Use` whose
registered patterns are well-formed, and its route table holds exactly ONE pattern `q`.  `p ≠ q` is an accepted
well-formed pattern identical to `q` up to parameter names: `Split` of the two yields segment lists that agree one
by one — the same text, or a parameter with the same kind, rule, suffix and endpoint flag but another name or `-`
flag (`UpToNames`, as in `C17_ambig_one`).  Then `Handle p` is refused as `ambiguous`, whatever handler,
middlewares and methods, and the tree is unchanged.

Unlike `C17_ambig_one` the tree need not be the linear chain a single `Handle` builds: after
`Handle("/{a}/x")`, `Handle("/{a}/y")`, `Remove("/{a}/y")` the node of `{a}/x` is split (`{a}/` above `x`), and
the check reaches the route through the branch the D33 repair added (`isAmbiguousPrefix`).  Proof
(`Mux/Proofs/AmbigSplit.lean`): every node on the chain to `q` carries a literal piece of `q` or a whole token of
`q` with a prefix of the literal text after it; at each level the loop of `checkAmbiguous` descends into the chain
node through the literal-prefix, the `isAmbiguous` or the `isAmbiguousPrefix` branch (`ambStep_chain`); a sibling
tried before it cannot answer "found, not ambiguous", since then `p` itself would be a live route
(`checkAmb_chain_rej`), and cannot fail, since every `Split` the check calls is a `Split` of a rest of the accepted
pattern `p` (`checkAmb_good`). -/
theorem C17_ambig_one_history (name : Bytes) (ic : Interceptors) (nf : Handler) (tr : Option Handler) (ob nb : Base)
    (ops : List TOp) (hops : ∀ op ∈ ops, PatOk op) (q p : Bytes)
    (hone : (tableOf ((Tree.new name ic nf tr ob nb).run ops)).patterns = [q]) (hp : P9.WfPattern p)
    (psegs qsegs : List Seg) (hsp : split ic p = .ok psegs) (hsq : split ic q = .ok qsegs)
    (hu : UpToNames psegs qsegs) (hne : p ≠ q) (h : Handler) (ms : List Nat) (methods : List Bytes) :
    let t := (Tree.new name ic nf tr ob nb).run ops
    t.add p h ms methods = .error .ambiguous ∧ t.step (.add p h ms methods) = t := by
  intro t
  have hr : ReachWf t := ⟨name, ic, nf, tr, ob, nb, ops, hops, rfl⟩
  have hic : t.ic = ic := (sameCfg_run (Tree.new name ic nf tr ob nb) ops).2.2.1
  have he := ambig_one_history hr hone hp (by rw [hic]; exact hsp) (by rw [hic]; exact hsq) hu hne h ms methods
  exact ⟨he, by simp only [Tree.step, he]⟩

/-- The same for a tree known to be reachable (`ReachWf`), with the tree's own interceptor table. -/
theorem C17_ambig_one_reach (t : Tree) (hr : ReachWf t) (q p : Bytes) (hone : (tableOf t).patterns = [q])
    (hp : P9.WfPattern p) (psegs qsegs : List Seg) (hsp : split t.ic p = .ok psegs) (hsq : split t.ic q = .ok qsegs)
    (hu : UpToNames psegs qsegs) (hne : p ≠ q) (h : Handler) (ms : List Nat) (methods : List Bytes) :
    t.add p h ms methods = .error .ambiguous ∧ t.step (.add p h ms methods) = t := by
  have he := ambig_one_history hr hone hp hsp hsq hu hne h ms methods
  exact ⟨he, by simp only [Tree.step, he]⟩

/-- On the tree of a history with well-formed patterns the ambiguity check never FAILS on an accepted well-formed
pattern (no syntax error from the `Split` calls on the rests of the pattern, no fault from the slices, the new one
of the D33 repair included): it answers "no node", "found" or "found, ambiguous". -/
theorem C17_checkAmb_total (t : Tree) (hr : ReachWf t) (p : Bytes) (hp : P9.WfPattern p) (psegs : List Seg)
    (hsp : split t.ic p = .ok psegs) : ∃ a, t.root.checkAmb t.ic p false = .ok a := by
  cases hc : t.root.checkAmb t.ic p false with
  | ok a => exact ⟨a, rfl⟩
  | error e => exact absurd hc (checkAmb_good t.ic t.root (reach_segOk hr) p false e (goodRest_of_split hp hsp))

/-! ### The D33 history, evaluated by the kernel -/

/-- The error of a `Handle`, if any. -/
def addErr (r : Except Err Tree) : Option Err :=
  match r with
  | .error e => some e
  | .ok _ => none

theorem addErr_some {r : Except Err Tree} {e : Err} (h : addErr r = some e) : r = .error e := by
  cases r with
  | error e' => simp only [addErr, Option.some.injEq] at h; rw [h]
  | ok _ => cases h

theorem addErr_none {r : Except Err Tree} (h : addErr r = none) : ∃ t', r = .ok t' := by
  cases r with
  | error e' => cases h
  | ok t' => exact ⟨t', rfl⟩

/-- `/{a}/x` -/
def exAX : Bytes := [47, 123, 97, 125, 47, 120]
/-- `/{a}/y` -/
def exAY : Bytes := [47, 123, 97, 125, 47, 121]
/-- `/{b}/x` -/
def exBX : Bytes := [47, 123, 98, 125, 47, 120]
/-- `/{-a}/x` -/
def exIgnAX : Bytes := [47, 123, 45, 97, 125, 47, 120]
/-- `Handle("/{a}/x")`, `Handle("/{a}/y")`, `Remove("/{a}/y")`: the parameter node stays split (`{a}/` above `x`). -/
def exSplitOps : List TOp :=
  [.add exAX { base := .user 1 } [] [mGET], .add exAY { base := .user 2 } [] [mGET], .remove exAY []]

/-- `/{id}/abc` -/
def exIdAbc : Bytes := [47, 123, 105, 100, 125, 47, 97, 98, 99]
/-- `/{id}/author` -/
def exIdAuthor : Bytes := [47, 123, 105, 100, 125, 47, 97, 117, 116, 104, 111, 114]
/-- `/{x}/abc` -/
def exXAbc : Bytes := [47, 123, 120, 125, 47, 97, 98, 99]
/-- `/{x}/abd` -/
def exXAbd : Bytes := [47, 123, 120, 125, 47, 97, 98, 100]
/-- `/{x}/a` -/
def exXA : Bytes := [47, 123, 120, 125, 47, 97]
/-- `Handle("/{id}/abc")`, `Handle("/{id}/author")`: the node `{id}/a` with the children `bc` and `uthor`. -/
def exForkOps : List TOp :=
  [.add exIdAbc { base := .user 1 } [] [mGET], .add exIdAuthor { base := .user 2 } [] [mGET]]

/-- **`C17_split_variant_rejected` (D33).** After `Handle("/{a}/x")`, `Handle("/{a}/y")`, `Remove("/{a}/y")` the
only route is `/{a}/x`, stored as the split node `{a}/` above `x`; `Handle("/{b}/x")` and `Handle("/{-a}/x")` —
the same pattern up to the parameter name, resp. the `-` flag — are refused as `ambiguous` (before the repair they
were accepted: the check compared `{b}/x` with the stored upper half `{a}/` and found different suffixes).  With the
sibling still live — `Handle("/{id}/abc")`, `Handle("/{id}/author")` — `Handle("/{x}/abc")` is refused as
`ambiguous`, while `Handle("/{x}/abd")` and `Handle("/{x}/a")`, which are not a live route up to names, are
accepted: the new branch descends into `{id}/a` and finds no node with handlers.  Evaluated by the kernel. -/
theorem C17_split_variant_rejected :
    ((exT0.run exSplitOps).add exBX { base := .user 3 } [] [mGET] = .error .ambiguous ∧
     (exT0.run exSplitOps).add exIgnAX { base := .user 3 } [] [mGET] = .error .ambiguous) ∧
    ((exT0.run exForkOps).add exXAbc { base := .user 3 } [] [mGET] = .error .ambiguous ∧
     (∃ t', (exT0.run exForkOps).add exXAbd { base := .user 3 } [] [mGET] = .ok t') ∧
     (∃ t', (exT0.run exForkOps).add exXA { base := .user 3 } [] [mGET] = .ok t')) := by
  refine ⟨⟨addErr_some ?_, addErr_some ?_⟩, addErr_some ?_, addErr_none ?_, addErr_none ?_⟩
  · mux_eval2 [exSplitOps, exT0, addErr]
  · mux_eval2 [exSplitOps, exT0, addErr]
  · mux_eval2 [exForkOps, exT0, addErr]
  · mux_eval2 [exForkOps, exT0, addErr]
  · mux_eval2 [exForkOps, exT0, addErr]

/-- The table of the D33 history holds the single pattern `/{a}/x`: the hypothesis of `C17_ambig_one_history`. -/
theorem exSplitOps_table : (tableOf (exT0.run exSplitOps)).patterns = [exAX] := by
  mux_eval2 [exSplitOps, exT0]

/-! ## B. The stages after the validation cannot fail -/

/-- **`C17_validated_ok`.** On a well-formed tree and for a well-formed pattern: if the ambiguity
check does not object, `Split` accepts the pattern and the method list is valid, then `Tree.add`
SUCCEEDS — `getNode`, `Segment.Split`, `sort`, `buildIndexes` and the handler loop cannot fail (no
fault, no late error) — and the new tree is well-formed again. -/
theorem C17_validated_ok (t : Tree) (p : Bytes) (h : Handler) (ms : List Nat) (methods : List Bytes)
    (hwf : WellFormedTree t) (hp : P9.WfPattern p)
    {a : Option Bool} (hamb : t.root.checkAmb t.ic p false = .ok a) (ha : a ≠ some true)
    {segs : List Seg} (hs : split t.ic p = .ok segs)
    (hm : t.checkMethods p (effMethods methods) [] = .ok ()) :
    ∃ t', t.add p h ms methods = .ok t' ∧ WellFormedTree t' :=
  let ⟨t', h1, h2, _⟩ := add_validated_ok h ms hwf hp hamb ha hs hm
  ⟨t', h1, h2⟩

/-- Hence every error of `Tree.add` (well-formed tree and pattern) is raised by the validation,
before the first mutation: `ambiguous`, a syntax error of the pattern, or an error of the method
list. -/
theorem C17_error_is_validation (t : Tree) (p : Bytes) (h : Handler) (ms : List Nat) (methods : List Bytes)
    (hwf : WellFormedTree t) (hp : P9.WfPattern p) (e : Err) (he : t.add p h ms methods = .error e) :
    e = .ambiguous ∨ SynErr e ∨ MethErr e :=
  add_error_class h ms methods hwf hp he

/-- The hypothesis `WellFormedTree` holds on every tree reachable by a history whose registered
patterns are well-formed. -/
theorem C17_reach_wellFormed (t : Tree) (h : ReachWf t) : WellFormedTree t := h.wf

/-- The crux: the cut-point lemma for `longestPrefix` (after the D22 repair). For two segments `a`,
`b` of the same kind, each being `NewSegment` of a well-formed piece, with `l = longestPrefix a b > 0`:
`l` is a common prefix length; both remainders are brace-free (the cut is inside literal text or at
least one byte after the closing brace — never inside `{…}`, never directly after `}`); `NewSegment`
of `a.take l` keeps kind, name, `-` flag and rule; parameter segments agree on name, flag and rule;
and `Segment.Split` succeeds with a literal lower half. -/
theorem C17_cut_point (ic : Interceptors) (sa sb : Seg) (ha : SegOk ic sa) (hb : SegOk ic sb)
    (hk : sa.kind = sb.kind) (hpos : 0 < longestPrefix sa.value sb.value) :
    ∃ l : Nat, longestPrefix sa.value sb.value = (l : Int) ∧ 0 < l ∧
      l ≤ sa.value.length ∧ l ≤ sb.value.length ∧ sa.value.take l = sb.value.take l ∧
      NoBrace (sa.value.drop l) ∧ NoBrace (sb.value.drop l) ∧
      sa.name = sb.name ∧ sa.ignoreName = sb.ignoreName ∧ sa.rule = sb.rule ∧
      ∃ s1, newSegment ic (sa.value.take l) = .ok s1 ∧ WfPiece (sa.value.take l) ∧
        s1.kind = sa.kind ∧ s1.name = sa.name ∧ s1.ignoreName = sa.ignoreName ∧ s1.rule = sa.rule ∧
        (l < sa.value.length → sa.splitAt ic l = .ok (s1, { value := sa.value.drop l }) ∧
          SegOk ic s1 ∧ SegOk ic { value := sa.value.drop l }) :=
  cutPoint ha hb hk hpos

/-- Before the D28 repair the hypothesis on the PIECES could not be dropped: with a brace inside a parameter name the
cut of `longestPrefix` landed inside the token (`{a{b}x` against `{a{b}y`: cut at 2, the inner `{` moved the start of
the token). With the repair the scan keeps the start of the token at its first `{`: the cut is 0, the two texts become
siblings, and no node is split inside a token. -/
theorem C17_cut_inside_token_repaired :
    longestPrefix [123, 97, 123, 98, 125, 120] [123, 97, 123, 98, 125, 121] = 0 := by decide

/-! ## Non-vacuity -/

-- the hypotheses of `C17_validated_ok` on the empty tree, pattern `/u/{id}`, methods `GET, POST`
example : WellFormedTree exT0 := wellFormed_new _ _ _ _ _ _
example : P9.WfPattern exUid := wfPattern_exUid
example : exT0.root.checkAmb exT0.ic exUid false = .ok none := by rfl
example : (split exT0.ic exUid).isOk = true := by decide
example : exT0.checkMethods exUid (effMethods [mGET, mPOST]) [] = .ok () := by rfl
-- … and on a non-empty well-formed tree (`GET /u/{id}` registered), pattern `/u/{id}/x`
example : WellFormedTree exT1 := wellFormed_exT1
example : exT1.root.checkAmb exT1.ic exUidX false = .ok none := by rfl
example : exT1.checkMethods exUidX (effMethods [mGET]) [] = .ok () := by rfl
-- the hypotheses of `C17_reserved`, `C17_dup_list`
example : ∃ m ∈ [mGET, [66, 79, 71, 85, 83]], BadMethod exT0.hasTrace m :=
  ⟨[66, 79, 71, 85, 83], by simp, by unfold BadMethod; decide⟩
example : ¬ [mGET, mPOST, mGET].Nodup := by decide
-- `C17_dup_live` on the hand-built tree
example : exT1.root.findPath exUid = some [0, 0] ∧ exT1.root.getAt [0, 0] = some exLeafId ∧
    exLeafId.handlers.contains mGET = true := ⟨by decide, by rfl, by decide⟩
-- `C17_ambiguous_sound`: `/u/{x}` is refused as ambiguous on that tree
example : exT1.root.checkAmb exT1.ic [47, 117, 47, 123, 120, 125] false = .ok (some true) := by rfl
-- … hence `Tree.add` answers `ambiguous` there: the hypothesis of `C17_ambiguous_sound` / `C17_no_false`
example : exT1.add [47, 117, 47, 123, 120, 125] { base := .user 2 } [] [mGET] = .error .ambiguous := by
  rw [add_eq]; rfl
-- `C17_cut_point`: the hypotheses for `{id}/abc` against `{id}/author` (same kind, both I-seg) …
example : SegOk [] ({ value := [123, 105, 100, 125, 47, 97, 98, 99], kind := .named, name := [105, 100], suffix := [47, 97, 98, 99] } : Seg) :=
  ⟨by rfl, .inr ⟨[105, 100], [47, 97, 98, 99], rfl, ⟨by decide, by decide⟩, ⟨by decide, by decide⟩⟩, by decide⟩
example : SegOk [] ({ value := [123, 105, 100, 125, 47, 97, 117, 116, 104, 111, 114], kind := .named, name := [105, 100], suffix := [47, 97, 117, 116, 104, 111, 114] } : Seg) :=
  ⟨by rfl, .inr ⟨[105, 100], [47, 97, 117, 116, 104, 111, 114], rfl, ⟨by decide, by decide⟩, ⟨by decide, by decide⟩⟩,
    by decide⟩
-- … and the cut (at 6, after `{id}/a`)
example : longestPrefix [123, 105, 100, 125, 47, 97, 98, 99] [123, 105, 100, 125, 47, 97, 117, 116, 104, 111, 114] = 6 := by
  decide
-- a reachable tree
example : ReachWf (exT0.run exOps) := reachWf_ex
-- the hypotheses of `C17_ambig_one`: `q = /u/{id}` registered on the fresh tree, `p = /u/{x}`
example : ∃ t1, exT0.add exUid { base := .user 1 } [] [mGET] = .ok t1 := by
  obtain ⟨t1, h, _⟩ := C17_validated_ok exT0 exUid { base := .user 1 } [] [mGET] (wellFormed_new _ _ _ _ _ _)
    wfPattern_exUid (a := none) (by rfl) (by simp) (segs := _) (by rfl) (by rfl)
  exact ⟨t1, h⟩
example : P9.WfPattern exUx := wfPattern_exUx
example : split [] exUx = .ok exUxSegs ∧ split [] exUid = .ok exUidSegs ∧ UpToNames exUxSegs exUidSegs ∧
    exUx ≠ exUid := ⟨by rfl, by rfl, upToNames_ex, by decide⟩

-- the hypotheses of `C17_ambig_one_history` on the D33 history: table `[/{a}/x]` (`exSplitOps_table`), `p = /{b}/x`
theorem wfPattern_exAXY (n c : UInt8) (hn : ([n] : Bytes) = [97] ∨ ([n] : Bytes) = [98])
    (hc : ([c] : Bytes) = [120] ∨ ([c] : Bytes) = [121]) : P9.WfPattern [47, 123, n, 125, 47, c] := by
  have : splitString [47, 123, n, 125, 47, c] = [[47], [123, n, 125, 47, c]] := by
    rcases hn with hn | hn <;> rcases hc with hc | hc <;> cases hn <;> cases hc <;> decide
  intro v hv
  rw [this] at hv
  simp only [List.mem_cons, List.not_mem_nil, or_false] at hv
  rcases hv with rfl | rfl
  · exact .inl ⟨by decide, by decide⟩
  · refine .inr ⟨[n], [47, c], rfl, ?_, ?_⟩
    · rcases hn with hn | hn <;> cases hn <;> exact ⟨by decide, by decide⟩
    · rcases hc with hc | hc <;> cases hc <;> exact ⟨by decide, by decide⟩
example : ∀ op ∈ exSplitOps, PatOk op := by
  intro op hop
  simp only [exSplitOps, List.mem_cons, List.not_mem_nil, or_false] at hop
  rcases hop with rfl | rfl | rfl
  · exact wfPattern_exAXY 97 120 (.inl rfl) (.inl rfl)
  · exact wfPattern_exAXY 97 121 (.inl rfl) (.inr rfl)
  · trivial
example : P9.WfPattern exBX := wfPattern_exAXY 98 120 (.inr rfl) (.inl rfl)
example : split [] exBX = .ok [{ value := [47] }, { value := [123, 98, 125, 47, 120], kind := .named, name := [98], suffix := [47, 120] }] ∧
    split [] exAX = .ok [{ value := [47] }, { value := [123, 97, 125, 47, 120], kind := .named, name := [97], suffix := [47, 120] }] ∧
    exBX ≠ exAX := ⟨by rfl, by rfl, by decide⟩
example : UpToNames
    [{ value := [47] }, { value := [123, 98, 125, 47, 120], kind := .named, name := [98], suffix := [47, 120] }]
    [{ value := [47] }, { value := [123, 97, 125, 47, 120], kind := .named, name := [97], suffix := [47, 120] }] :=
  .cons (.inl rfl) (.cons (.inr ⟨by decide, rfl, rfl, rfl, rfl, .inr (by decide)⟩) .nil)

end Mux.C17
