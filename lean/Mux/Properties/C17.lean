/-
  C17 — registration is validated before the tree is touched: a rejected `Handle` changes nothing.

  `Tree.add` runs `checkAmb → split → checkMethods → getNode → modifyAt (addMethodsNode) → bumpMethods`
  and `Tree.step` keeps the old tree on an error.  The theorems below give (A) the decision logic of
  the validation and (B) the substantive companion: on a well-formed tree (`WellFormedTree`,
  `Mux/Proofs/AddAtomic.lean`) and for a well-formed pattern (`WfPattern`: every piece of
  `splitString` is brace-free or is one `{…}` token followed by brace-free text) the stages after
  the validation cannot fail, so "a rejected Handle changes nothing" does not hold by construction
  only.
-/
import Mux.Proofs.AddDecide
import Mux.Proofs.AmbigOne
import Mux.Proofs.P9Examples
namespace Mux.C17
open Mux Mux.P9

/-! ## A. Decision logic -/

/-- A rejected `Handle` leaves the tree as it was (by the definition of `Tree.step`; the substance is
`C17_validated_ok`). -/
theorem C17_atomic_model (t : Tree) (p : Bytes) (h : Handler) (ms : List Nat) (methods : List Bytes) (e : Err)
    (he : t.add p h ms methods = .error e) : t.step (.add p h ms methods) = t := by
  simp only [Tree.step, he]

/-- OPTIONS, HEAD, TRACE (when configured) or an unknown name at ANY position of the method list:
`Tree.add` answers an error and the tree is unchanged. -/
theorem C17_reserved (t : Tree) (p : Bytes) (h : Handler) (ms : List Nat) (methods : List Bytes)
    (hbad : ∃ m ∈ methods, BadMethod t.hasTrace m) :
    (∃ e, t.add p h ms methods = .error e) ∧ t.step (.add p h ms methods) = t := by
  cases he : t.add p h ms methods with
  | ok t' => exact absurd he (add_bad_not_ok t p h ms methods hbad t')
  | error e => exact ⟨⟨e, rfl⟩, by simp only [Tree.step, he]⟩

/-- …and when the pattern itself is acceptable the error is `reserved`, `unknownMethod` or
`dupMethod` (whichever entry is refused first). -/
theorem C17_reserved_class (t : Tree) (p : Bytes) (h : Handler) (ms : List Nat) (methods : List Bytes)
    (hbad : ∃ m ∈ methods, BadMethod t.hasTrace m)
    {a : Option Bool} (hamb : t.root.checkAmb t.ic p false = .ok a) (ha : a ≠ some true)
    {segs : List Seg} (hsp : split t.ic p = .ok segs) :
    ∃ e, t.add p h ms methods = .error e ∧ (e = .reserved ∨ e = .unknownMethod ∨ e = .dupMethod) :=
  add_bad_class t p h ms methods hbad hamb ha hsp

/-- A method occurring twice in the list: never accepted, the tree is unchanged. -/
theorem C17_dup_list (t : Tree) (p : Bytes) (h : Handler) (ms : List Nat) (methods : List Bytes)
    (hdup : ¬ methods.Nodup) :
    (∃ e, t.add p h ms methods = .error e) ∧ t.step (.add p h ms methods) = t :=
  add_dup_list t p h ms methods hdup

/-- …with the error `dupMethod` when the pattern is acceptable and no entry is reserved or unknown. -/
theorem C17_dup_list_class (t : Tree) (p : Bytes) (h : Handler) (ms : List Nat) (methods : List Bytes)
    (hdup : ¬ methods.Nodup) (hgood : ∀ m ∈ methods, ¬ BadMethod t.hasTrace m)
    {a : Option Bool} (hamb : t.root.checkAmb t.ic p false = .ok a) (ha : a ≠ some true)
    {segs : List Seg} (hsp : split t.ic p = .ok segs) :
    t.add p h ms methods = .error .dupMethod :=
  add_dup_list_class t p h ms methods hdup hgood hamb ha hsp

/-- The pattern is live with method `m` (the node `findPath` finds for it has `m`) and `m` is in the
list: never accepted, the tree is unchanged. -/
theorem C17_dup_live (t : Tree) (p : Bytes) (h : Handler) (ms : List Nat) (methods : List Bytes)
    (path : List Nat) (n : Node) (m : Bytes)
    (hpath : t.root.findPath p = some path) (hn : t.root.getAt path = some n)
    (hm : m ∈ methods) (hlive : n.handlers.contains m = true) :
    (∃ e, t.add p h ms methods = .error e) ∧ t.step (.add p h ms methods) = t :=
  add_dup_live t p h ms methods path n m hpath hn hm hlive

/-- …with the error `dupMethod` when the pattern is acceptable and no entry is reserved or unknown. -/
theorem C17_dup_live_class (t : Tree) (p : Bytes) (h : Handler) (ms : List Nat) (methods : List Bytes)
    (path : List Nat) (n : Node) (m : Bytes)
    (hpath : t.root.findPath p = some path) (hn : t.root.getAt path = some n)
    (hm : m ∈ methods) (hlive : n.handlers.contains m = true)
    (hgood : ∀ m ∈ methods, ¬ BadMethod t.hasTrace m)
    {a : Option Bool} (hamb : t.root.checkAmb t.ic p false = .ok a) (ha : a ≠ some true)
    {segs : List Seg} (hsp : split t.ic p = .ok segs) :
    t.add p h ms methods = .error .dupMethod :=
  add_dup_live_class t p h ms methods path n m hpath hn hm hlive hgood hamb ha hsp

/-- **No false `ambiguous`.** If `Tree.add` answers `ambiguous`, the ambiguity check found a node:
there is a chain of existing nodes from the root to a node WITH HANDLERS such that the new pattern
text is consumed step by step along the chain (`AmbPath`, `Mux/Proofs/AddAtomic.lean`) — each step
either because the node's text is a literal prefix of the remaining pattern, or because the node's
segment `isAmbiguous` with the first segment of the remaining pattern (same kind, rule, suffix,
endpoint; different name or `-` flag) — and at least one step is of the second kind. -/
theorem C17_ambiguous_sound (t : Tree) (p : Bytes) (h : Handler) (ms : List Nat) (methods : List Bytes)
    (he : t.add p h ms methods = .error .ambiguous) :
    t.root.checkAmb t.ic p false = .ok (some true) ∧
      ∃ (m : Node) (steps : List (Seg × Bool)),
        AmbPath t.ic t.root p m steps ∧ Chain t.root (steps.map (·.1)) m ∧ m.handlers ≠ [] ∧
        steps.any (·.2) = true :=
  add_ambiguous_sound t p h ms methods he

/-- `C17_no_false` of DESIGN.md, in the form available without a textual `eraseNames`. -/
theorem C17_no_false (t : Tree) (p : Bytes) (h : Handler) (ms : List Nat) (methods : List Bytes)
    (he : t.add p h ms methods = .error .ambiguous) :
    ∃ (m : Node) (steps : List (Seg × Bool)),
      Chain t.root (steps.map (·.1)) m ∧ m.handlers ≠ [] ∧ AmbPath t.ic t.root p m steps ∧
      ∃ sb ∈ steps, sb.2 = true := by
  obtain ⟨_, m, steps, h1, h2, h3, h4⟩ := add_ambiguous_sound t p h ms methods he
  exact ⟨m, steps, h2, h3, h1, by simpa using h4⟩

/-- **`C17_ambig_one`.** `t1` is a fresh tree after ONE successful `Handle` of the well-formed pattern
`q` (so `q` is the only route). `p ≠ q` is an accepted well-formed pattern that is identical to `q` up
to parameter names: segment by segment the same text, or a parameter with the same kind, rule, suffix
and endpoint flag but another name or `-` flag (`NameVariant`). Then `Handle p` is refused as
`ambiguous` (whatever handler, middlewares and methods), and the tree is unchanged. -/
theorem C17_ambig_one (name : Bytes) (ic : Interceptors) (nf : Handler) (tr : Option Handler) (ob nb : Base)
    (q p : Bytes) (h : Handler) (ms : List Nat) (methods : List Bytes) (t1 : Tree)
    (hq : WfPattern q) (hp : WfPattern p)
    (he : (Tree.new name ic nf tr ob nb).add q h ms methods = .ok t1)
    (psegs qsegs : List Seg) (hsp : split ic p = .ok psegs) (hsq : split ic q = .ok qsegs)
    (hu : UpToNames psegs qsegs) (hne : p ≠ q) (h' : Handler) (ms' : List Nat) (methods' : List Bytes) :
    t1.add p h' ms' methods' = .error .ambiguous ∧ t1.step (.add p h' ms' methods') = t1 := by
  have := ambig_one name ic nf tr ob nb hq hp he hsp hsq hu hne h' ms' methods'
  exact ⟨this, by simp only [Tree.step, this]⟩

/-! ## B. The stages after the validation cannot fail -/

/-- **`C17_validated_ok`.** On a well-formed tree and for a well-formed pattern: if the ambiguity
check does not object, `Split` accepts the pattern and the method list is valid, then `Tree.add`
SUCCEEDS — `getNode`, `Segment.Split`, `sort`, `buildIndexes` and the handler loop cannot fail (no
fault, no late error) — and the new tree is well-formed again. -/
theorem C17_validated_ok (t : Tree) (p : Bytes) (h : Handler) (ms : List Nat) (methods : List Bytes)
    (hwf : WellFormedTree t) (hp : WfPattern p)
    {a : Option Bool} (hamb : t.root.checkAmb t.ic p false = .ok a) (ha : a ≠ some true)
    {segs : List Seg} (hs : split t.ic p = .ok segs)
    (hm : t.checkMethods p (effMethods methods) [] = .ok ()) :
    ∃ t', t.add p h ms methods = .ok t' ∧ WellFormedTree t' :=
  let ⟨t', h1, h2, _⟩ := add_validated_ok h ms hwf hp hamb ha hs hm
  ⟨t', h1, h2⟩

/-- Hence every error of `Tree.add` (well-formed tree and pattern) is raised by the validation,
before the first mutation: `ambiguous`, a syntax error of the pattern, or an error of the method
list. -/
theorem C17_error_is_validation (t : Tree) (p : Bytes) (h : Handler) (ms : List Nat) (methods : List Bytes)
    (hwf : WellFormedTree t) (hp : WfPattern p) (e : Err) (he : t.add p h ms methods = .error e) :
    e = .ambiguous ∨ SynErr e ∨ MethErr e :=
  add_error_class h ms methods hwf hp he

/-- The hypothesis `WellFormedTree` holds on every tree reachable by a history whose registered
patterns are well-formed. -/
theorem C17_reach_wellFormed (t : Tree) (h : ReachWf t) : WellFormedTree t := h.wf

/-- The crux: the cut-point lemma for `longestPrefix` (after the D22 repair). For two segments `a`,
`b` of the same kind, each being `NewSegment` of a well-formed piece, with `l = longestPrefix a b > 0`:
`l` is a common prefix length; both remainders are brace-free (the cut is inside literal text or at
least one byte after the closing brace — never inside `{…}`, never directly after `}`); `NewSegment`
of `a.take l` keeps kind, name, `-` flag and rule; parameter segments agree on name, flag and rule;
and `Segment.Split` succeeds with a literal lower half. -/
theorem C17_cut_point (ic : Interceptors) (sa sb : Seg) (ha : SegOk ic sa) (hb : SegOk ic sb)
    (hk : sa.kind = sb.kind) (hpos : 0 < longestPrefix sa.value sb.value) :
    ∃ l : Nat, longestPrefix sa.value sb.value = (l : Int) ∧ 0 < l ∧
      l ≤ sa.value.length ∧ l ≤ sb.value.length ∧ sa.value.take l = sb.value.take l ∧
      NoBrace (sa.value.drop l) ∧ NoBrace (sb.value.drop l) ∧
      sa.name = sb.name ∧ sa.ignoreName = sb.ignoreName ∧ sa.rule = sb.rule ∧
      ∃ s1, newSegment ic (sa.value.take l) = .ok s1 ∧ WfPiece (sa.value.take l) ∧
        s1.kind = sa.kind ∧ s1.name = sa.name ∧ s1.ignoreName = sa.ignoreName ∧ s1.rule = sa.rule ∧
        (l < sa.value.length → sa.splitAt ic l = .ok (s1, { value := sa.value.drop l }) ∧
          SegOk ic s1 ∧ SegOk ic { value := sa.value.drop l }) :=
  cutPoint ha hb hk hpos

/-- Before the D28 repair the hypothesis on the PIECES could not be dropped: with a brace inside a parameter name the
cut of `longestPrefix` landed inside the token (`{a{b}x` against `{a{b}y`: cut at 2, the inner `{` moved the start of
the token). With the repair the scan keeps the start of the token at its first `{`: the cut is 0, the two texts become
siblings, and no node is split inside a token. -/
theorem C17_cut_inside_token_repaired :
    longestPrefix [123, 97, 123, 98, 125, 120] [123, 97, 123, 98, 125, 121] = 0 := by decide

/-! ## Non-vacuity -/

-- the hypotheses of `C17_validated_ok` on the empty tree, pattern `/u/{id}`, methods `GET, POST`
example : WellFormedTree exT0 := wellFormed_new _ _ _ _ _ _
example : WfPattern exUid := wfPattern_exUid
example : exT0.root.checkAmb exT0.ic exUid false = .ok none := by rfl
example : (split exT0.ic exUid).isOk = true := by decide
example : exT0.checkMethods exUid (effMethods [mGET, mPOST]) [] = .ok () := by rfl
-- … and on a non-empty well-formed tree (`GET /u/{id}` registered), pattern `/u/{id}/x`
example : WellFormedTree exT1 := wellFormed_exT1
example : exT1.root.checkAmb exT1.ic exUidX false = .ok none := by rfl
example : exT1.checkMethods exUidX (effMethods [mGET]) [] = .ok () := by rfl
-- the hypotheses of `C17_reserved`, `C17_dup_list`
example : ∃ m ∈ [mGET, [66, 79, 71, 85, 83]], BadMethod exT0.hasTrace m :=
  ⟨[66, 79, 71, 85, 83], by simp, by unfold BadMethod; decide⟩
example : ¬ [mGET, mPOST, mGET].Nodup := by decide
-- `C17_dup_live` on the hand-built tree
example : exT1.root.findPath exUid = some [0, 0] ∧ exT1.root.getAt [0, 0] = some exLeafId ∧
    exLeafId.handlers.contains mGET = true := ⟨by decide, by rfl, by decide⟩
-- `C17_ambiguous_sound`: `/u/{x}` is refused as ambiguous on that tree
example : exT1.root.checkAmb exT1.ic [47, 117, 47, 123, 120, 125] false = .ok (some true) := by rfl
-- … hence `Tree.add` answers `ambiguous` there: the hypothesis of `C17_ambiguous_sound` / `C17_no_false`
example : exT1.add [47, 117, 47, 123, 120, 125] { base := .user 2 } [] [mGET] = .error .ambiguous := by
  rw [add_eq]; rfl
-- `C17_cut_point`: the hypotheses for `{id}/abc` against `{id}/author` (same kind, both I-seg) …
example : SegOk [] ({ value := [123, 105, 100, 125, 47, 97, 98, 99], kind := .named, name := [105, 100], suffix := [47, 97, 98, 99] } : Seg) :=
  ⟨by rfl, .inr ⟨[105, 100], [47, 97, 98, 99], rfl, ⟨by decide, by decide⟩, ⟨by decide, by decide⟩⟩, by decide⟩
example : SegOk [] ({ value := [123, 105, 100, 125, 47, 97, 117, 116, 104, 111, 114], kind := .named, name := [105, 100], suffix := [47, 97, 117, 116, 104, 111, 114] } : Seg) :=
  ⟨by rfl, .inr ⟨[105, 100], [47, 97, 117, 116, 104, 111, 114], rfl, ⟨by decide, by decide⟩, ⟨by decide, by decide⟩⟩,
    by decide⟩
-- … and the cut (at 6, after `{id}/a`)
example : longestPrefix [123, 105, 100, 125, 47, 97, 98, 99] [123, 105, 100, 125, 47, 97, 117, 116, 104, 111, 114] = 6 := by
  decide
-- a reachable tree
example : ReachWf (exT0.run exOps) := reachWf_ex
-- the hypotheses of `C17_ambig_one`: `q = /u/{id}` registered on the fresh tree, `p = /u/{x}`
example : ∃ t1, exT0.add exUid { base := .user 1 } [] [mGET] = .ok t1 := by
  obtain ⟨t1, h, _⟩ := C17_validated_ok exT0 exUid { base := .user 1 } [] [mGET] (wellFormed_new _ _ _ _ _ _)
    wfPattern_exUid (a := none) (by rfl) (by simp) (segs := _) (by rfl) (by rfl)
  exact ⟨t1, h⟩
example : WfPattern exUx := wfPattern_exUx
example : split [] exUx = .ok exUxSegs ∧ split [] exUid = .ok exUidSegs ∧ UpToNames exUxSegs exUidSegs ∧
    exUx ≠ exUid := ⟨by rfl, by rfl, upToNames_ex, by decide⟩

end Mux.C17
