/-
  C02 — resolution follows the documented left-to-right kind priority: the parts that hold of every
  tree reachable by ANY history (B1 priority, index = scan, B2 shortest capture / no widening).

  * `StructInv` (`Mux/Proofs/Structure.lean`) is the structural invariant (I-sort, I-index, pattern
    and segment part of I-seg); `struct_reach` proves it for every reachable tree.
  * The parameter-tracking hypothesis `NamesOkL used n.children` (names along a chain differ from the
    live keys) is kept explicit: it is established for reachable trees by another agent.
  * `DistinctFirstBytes n` (literal children of `n` start with pairwise different bytes) is a
    HYPOTHESIS of `C02_index_is_scan`: it does not follow from reachability alone — see the
    counterexample at the end of this file.  It IS proved (`C02_distinct_first_bytes`) for trees
    reached by histories that register TIDY patterns only (`TidyPattern`: every piece of the pattern
    is brace-free text or one `{token}` followed by brace-free text — DESIGN §4.4 "literal text
    contains no braces"), and `C02_index_is_scan_tidy` has no such hypothesis.
-/
import Mux.Proofs.StructExamples
namespace Mux.C02
open Mux Mux.P8

/-! ## B1: children are kept in kind order -/

/-- In every tree reachable by a history, the children of every node are ordered by kind:
literal (rank 0) before interceptor (1) before regexp (2) before named (3). -/
theorem C02_sorted (t : Tree) (ht : t.Reach) (n : Node) (hn : n ∈ t.root.nodes) :
    n.children.Pairwise (fun a b => a.seg.kind.rank ≤ b.seg.kind.rank) :=
  ((All_iff_nodes _).1 _).1 (struct_reach ht).all n hn |>.sorted

/-- Positional form: an earlier child never has a later kind. -/
theorem C02_sorted_pos (t : Tree) (ht : t.Reach) (n : Node) (hn : n ∈ t.root.nodes) (i j : Nat) (a b : Node)
    (hij : i ≤ j) (ha : n.children[i]? = some a) (hb : n.children[j]? = some b) :
    a.seg.kind.rank ≤ b.seg.kind.rank :=
  RankSorted.getElem_le (C02_sorted t ht n hn) hij ha hb

/-- The children of a node are its literal children followed by children none of which is literal. -/
theorem C02_literals_first (t : Tree) (ht : t.Reach) (n : Node) (hn : n ∈ t.root.nodes) :
    ∃ lits others, n.children = lits ++ others ∧ (∀ c ∈ lits, c.seg.kind = .str) ∧ (∀ c ∈ others, c.seg.kind ≠ .str) :=
  RankSorted.split_lits (C02_sorted t ht n hn)

example : Kind.str.rank < Kind.icpt.rank ∧ Kind.icpt.rank < Kind.rx.rank ∧ Kind.rx.rank < Kind.named.rank := by decide

/-! ## B1: the first child that hits wins -/

/-- What trying one child means: its own segment matches the front of the path and its subtree hits
on the rest (with the capture recorded). -/
theorem C02_tryChild (env : Env) (ic : Interceptors) (c : Node) (path : Bytes) (ps : Params) (m : Node) (ps' : Params) :
    tryChild env ic c path ps = .hit m ps' ↔
      ∃ cap rest, c.seg.match env ic path = .yes cap rest ∧
        c.matchChildren env ic rest (c.seg.record cap ps) = .hit m ps' :=
  tryChild_hit_iff env ic c path ps m ps'

/-- General form of `C02_priority` (any tree satisfying the structural invariant). -/
theorem C02_priority_inv (env : Env) (ic : Interceptors) (t : Tree) (hs : StructInv t) (n : Node) (hn : n ∈ t.root.nodes)
    (hidx : n.indexes = []) (path : Bytes) (ps : Params) (used : List Bytes)
    (hN : NamesOkL used n.children) (hk : ∀ k ∈ ps.keys, k ∈ used) :
    (∀ m ps', n.matchChildren env ic path ps = .hit m ps' ↔
      (∃ (i : Nat) (c : Node), n.children[i]? = some c ∧ tryChild env ic c path ps = .hit m ps' ∧
          ∀ j < i, ∀ c' : Node, n.children[j]? = some c' → tryChild env ic c' path ps = .miss ps) ∨
      ((∀ c ∈ n.children, tryChild env ic c path ps = .miss ps) ∧ path = [] ∧ n.handlers ≠ [] ∧ m = n ∧ ps' = ps)) ∧
    (∀ ps', n.matchChildren env ic path ps = .miss ps' ↔
      ps' = ps ∧ (∀ c ∈ n.children, tryChild env ic c path ps = .miss ps) ∧ ¬ (path = [] ∧ n.handlers ≠ [])) := by
  have hall := All_sub _ hs.all n hn
  have ht : TrackL used n.children ps := ⟨hN, AllL_idxLit_of_SOk _ hall.tail, hk⟩
  rw [matchChildren_noIndex' env ic n hidx]
  exact ⟨fun m ps' => scan_hit_iff ht m ps', fun ps' => scan_miss_iff ht ps'⟩

/-- **Priority** (B1). On a tree reachable by a history, for a node without first-byte index:
`matchChildren` returns the hit of the FIRST child — in list order, which is the kind order
literal < interceptor < regexp < named (`C02_sorted`) — whose own segment matches and whose subtree
hits, every earlier child having missed; when every child misses, the node itself is the result iff
the path is used up and the node has handlers; and it misses (parameters unchanged) exactly when
every child misses and the node itself does not end the path. -/
theorem C02_priority (env : Env) (ic : Interceptors) (t : Tree) (ht : t.Reach) (n : Node) (hn : n ∈ t.root.nodes)
    (hidx : n.indexes = []) (path : Bytes) (ps : Params) (used : List Bytes)
    (hN : NamesOkL used n.children) (hk : ∀ k ∈ ps.keys, k ∈ used) :
    (∀ m ps', n.matchChildren env ic path ps = .hit m ps' ↔
      (∃ (i : Nat) (c : Node), n.children[i]? = some c ∧ tryChild env ic c path ps = .hit m ps' ∧
          ∀ j < i, ∀ c' : Node, n.children[j]? = some c' → tryChild env ic c' path ps = .miss ps) ∨
      ((∀ c ∈ n.children, tryChild env ic c path ps = .miss ps) ∧ path = [] ∧ n.handlers ≠ [] ∧ m = n ∧ ps' = ps)) ∧
    (∀ ps', n.matchChildren env ic path ps = .miss ps' ↔
      ps' = ps ∧ (∀ c ∈ n.children, tryChild env ic c path ps = .miss ps) ∧ ¬ (path = [] ∧ n.handlers ≠ [])) :=
  C02_priority_inv env ic t (struct_reach ht) n hn hidx path ps used hN hk

/-! ## B1: the first-byte index is an optimisation of the linear scan -/

/-- General form of `C02_index_is_scan`. -/
theorem C02_index_is_scan_inv (env : Env) (ic : Interceptors) (t : Tree) (hs : StructInv t) (n : Node) (hn : n ∈ t.root.nodes)
    (hd : DistinctFirstBytes n) (path : Bytes) (ps : Params) (used : List Bytes)
    (hN : NamesOkL used n.children) (hk : ∀ k ∈ ps.keys, k ∈ used) :
    n.matchChildren env ic path ps =
      match n.children.foldl (stepMR env ic path) (.miss ps) with
      | .miss ps2 => if path.isEmpty ∧ n.handlers.length > 0 then .hit n ps2 else .miss ps2
      | r => r := by
  rw [matchChildren_eq_scan env ic (All_sub _ hs.all n hn) hd hN hk, matchFrom_eq_foldl]
  unfold selfStep
  cases List.foldl (stepMR env ic path) (.miss ps) n.children <;> rfl

/-- **Index = scan.** On a reachable tree, for every node whose literal children start with
pairwise different bytes, `matchChildren` — index fast path included — returns exactly what the
linear scan over all children in list order returns (followed by the self-match). -/
theorem C02_index_is_scan (env : Env) (ic : Interceptors) (t : Tree) (ht : t.Reach) (n : Node) (hn : n ∈ t.root.nodes)
    (hd : DistinctFirstBytes n) (path : Bytes) (ps : Params) (used : List Bytes)
    (hN : NamesOkL used n.children) (hk : ∀ k ∈ ps.keys, k ∈ used) :
    n.matchChildren env ic path ps =
      match n.children.foldl (stepMR env ic path) (.miss ps) with
      | .miss ps2 => if path.isEmpty ∧ n.handlers.length > 0 then .hit n ps2 else .miss ps2
      | r => r :=
  C02_index_is_scan_inv env ic t (struct_reach ht) n hn hd path ps used hN hk

/-- Consequently the "first hit wins" reading of `C02_priority` holds for indexed nodes too. -/
theorem C02_priority_indexed (env : Env) (ic : Interceptors) (t : Tree) (ht : t.Reach) (n : Node) (hn : n ∈ t.root.nodes)
    (hd : DistinctFirstBytes n) (path : Bytes) (ps : Params) (used : List Bytes)
    (hN : NamesOkL used n.children) (hk : ∀ k ∈ ps.keys, k ∈ used) :
    (∀ m ps', n.matchChildren env ic path ps = .hit m ps' ↔
      (∃ (i : Nat) (c : Node), n.children[i]? = some c ∧ tryChild env ic c path ps = .hit m ps' ∧
          ∀ j < i, ∀ c' : Node, n.children[j]? = some c' → tryChild env ic c' path ps = .miss ps) ∨
      ((∀ c ∈ n.children, tryChild env ic c path ps = .miss ps) ∧ path = [] ∧ n.handlers ≠ [] ∧ m = n ∧ ps' = ps)) ∧
    (∀ ps', n.matchChildren env ic path ps = .miss ps' ↔
      ps' = ps ∧ (∀ c ∈ n.children, tryChild env ic c path ps = .miss ps) ∧ ¬ (path = [] ∧ n.handlers ≠ [])) := by
  have hall := All_sub _ (struct_reach ht).all n hn
  have htr : TrackL used n.children ps := ⟨hN, AllL_idxLit_of_SOk _ hall.tail, hk⟩
  rw [matchChildren_eq_scan env ic hall hd hN hk]
  exact ⟨fun m ps' => scan_hit_iff htr m ps', fun ps' => scan_miss_iff htr ps'⟩

/-- **Literal siblings start with distinct bytes** (second half of I-sort) in every node of a tree
reached by a history that registers tidy patterns only (any `remove`/`clean`/`use` in between). -/
theorem C02_distinct_first_bytes (t : Tree) (ht : ReachTidy t) (n : Node) (hn : n ∈ t.root.nodes) :
    n.children.Pairwise (fun a b => a.seg.kind = .str → b.seg.kind = .str → a.seg.value.head? ≠ b.seg.value.head?) :=
  distinct_of_reachTidy ht hn

/-- **Index = scan, tidy histories**: no hypothesis on the index or on first bytes is left. -/
theorem C02_index_is_scan_tidy (env : Env) (ic : Interceptors) (t : Tree) (ht : ReachTidy t) (n : Node) (hn : n ∈ t.root.nodes)
    (path : Bytes) (ps : Params) (used : List Bytes)
    (hN : NamesOkL used n.children) (hk : ∀ k ∈ ps.keys, k ∈ used) :
    n.matchChildren env ic path ps =
      match n.children.foldl (stepMR env ic path) (.miss ps) with
      | .miss ps2 => if path.isEmpty ∧ n.handlers.length > 0 then .hit n ps2 else .miss ps2
      | r => r :=
  C02_index_is_scan env ic t ht.reach n hn (distinct_of_reachTidy ht hn) path ps used hN hk

/-- **Priority, tidy histories**: for EVERY node (indexed or not) the first child, in kind order,
whose subtree hits wins; a miss iff no child hits and the node itself does not end the path. -/
theorem C02_priority_tidy (env : Env) (ic : Interceptors) (t : Tree) (ht : ReachTidy t) (n : Node) (hn : n ∈ t.root.nodes)
    (path : Bytes) (ps : Params) (used : List Bytes)
    (hN : NamesOkL used n.children) (hk : ∀ k ∈ ps.keys, k ∈ used) :
    (∀ m ps', n.matchChildren env ic path ps = .hit m ps' ↔
      (∃ (i : Nat) (c : Node), n.children[i]? = some c ∧ tryChild env ic c path ps = .hit m ps' ∧
          ∀ j < i, ∀ c' : Node, n.children[j]? = some c' → tryChild env ic c' path ps = .miss ps) ∨
      ((∀ c ∈ n.children, tryChild env ic c path ps = .miss ps) ∧ path = [] ∧ n.handlers ≠ [] ∧ m = n ∧ ps' = ps)) ∧
    (∀ ps', n.matchChildren env ic path ps = .miss ps' ↔
      ps' = ps ∧ (∀ c ∈ n.children, tryChild env ic c path ps = .miss ps) ∧ ¬ (path = [] ∧ n.handlers ≠ [])) :=
  C02_priority_indexed env ic t ht.reach n hn (distinct_of_reachTidy ht hn) path ps used hN hk

/-- The index of a node of a reachable tree is exactly what `buildIndexes` computes from its current
children: no index below `indexesSize` children; otherwise every entry points to a literal child
starting with that byte, and every literal child's first byte has an entry. -/
theorem C02_index_exact (t : Tree) (ht : t.Reach) (n : Node) (hn : n ∈ t.root.nodes) :
    (n.children.length < indexesSize ∧ n.indexes = []) ∨
    (indexesSize ≤ n.children.length ∧
      (∀ e ∈ n.indexes, ∃ c, n.children[e.2]? = some c ∧ c.seg.kind = .str ∧ c.seg.value.head? = some e.1) ∧
      (∀ c ∈ n.children, c.seg.kind = .str → ∃ b, c.seg.value.head? = some b ∧ b ∈ n.indexes.map (·.1))) :=
  IndexExact.spec (((All_iff_nodes _).1 _).1 (struct_reach ht).all n hn).indexExact

/-! ## B2: shortest capture, no widening -/

/-- **Shortest capture.** A named or interceptor parameter that is followed by literal text (its
suffix) captures `cap` iff the path is `cap ++ suffix ++ rest`, the constraint accepts `cap`, and at
no earlier position of the path does the suffix occur with the constraint accepting the text before
it. -/
theorem C02_shortest (env : Env) (ic : Interceptors) (s : Seg) (path cap rest : Bytes)
    (hk : s.kind = .icpt ∨ s.kind = .named) (he : s.endpoint = false) :
    s.match env ic path = .yes cap rest ↔
      path = cap ++ s.suffix ++ rest ∧ s.accepts env ic cap = true ∧
        ∀ i, i < cap.length → ¬ (s.suffix <+: path.drop i ∧ s.accepts env ic (path.take i) = true) :=
  Seg.match_scan_yes_iff env ic s path cap rest hk he

/-- The same with proper prefixes of the capture: none of them is an admissible capture. -/
theorem C02_shortest_prefix (env : Env) (ic : Interceptors) (s : Seg) (path cap rest : Bytes)
    (hk : s.kind = .icpt ∨ s.kind = .named) (he : s.endpoint = false) (h : s.match env ic path = .yes cap rest) :
    ∀ pre', pre' <+: cap → pre' ≠ cap →
      ¬ (s.suffix <+: path.drop pre'.length ∧ s.accepts env ic pre' = true) :=
  match_shortest_prefix env ic s path cap rest hk he h

/-- A parameter that ends the pattern takes the whole rest of the path (if its constraint accepts). -/
theorem C02_shortest_endpoint (env : Env) (ic : Interceptors) (s : Seg) (path : Bytes)
    (hk : s.kind = .icpt ∨ s.kind = .named) (he : s.endpoint = true) :
    s.match env ic path = if s.accepts env ic path then .yes path [] else .no :=
  Seg.match_endpoint_eq env ic s path hk he

/-- A named parameter (no constraint) captures up to the FIRST occurrence of its suffix. -/
theorem C02_named_first_occurrence (env : Env) (ic : Interceptors) (s : Seg) (path cap rest : Bytes)
    (hk : s.kind = .named) (he : s.endpoint = false) (h : s.match env ic path = .yes cap rest) :
    path = cap ++ s.suffix ++ rest ∧ ∀ i, i < cap.length → ¬ s.suffix <+: path.drop i :=
  Seg.match_named_first_occurrence env ic s path cap rest hk he h

/-- **No widening.** When a child's own segment matched with capture `cap` and the child's subtree
missed, the search goes on with the NEXT sibling (the parameter of the child's name put back to what it was before the
child was tried, `restoreParam`, D30 repair); the child is not tried again with a longer capture. -/
theorem C02_no_widening (env : Env) (ic : Interceptors) (c : Node) (cs : List Node) (path : Bytes) (ps : Params)
    (cap rest : Bytes) (ps2 : Params) (hm : c.seg.match env ic path = .yes cap rest)
    (hsub : c.matchChildren env ic rest (c.seg.record cap ps) = .miss ps2) :
    matchFrom env ic (c :: cs) 0 path ps = matchFrom env ic cs 0 path (restoreParam ps ps2 c.seg.name) :=
  matchFrom_give_up env ic c cs path ps hm hsub

/-- Each child is tried exactly once per visit: the loop is a left fold of "try this child" over the
children, a result other than a miss being final. -/
theorem C02_once (env : Env) (ic : Interceptors) (cs : List Node) (path : Bytes) (ps : Params) :
    matchFrom env ic cs 0 path ps = cs.foldl (stepMR env ic path) (.miss ps) :=
  matchFrom_eq_foldl env ic cs path ps

/-! ## Non-vacuity -/

/-- A tree REACHED by a history (`Handle("/{id}", h, GET)`) with the hypotheses of `C02_priority`. -/
example : exR.Reach ∧ exR.root ∈ exR.root.nodes ∧ exR.root.indexes = [] ∧ NamesOkL [] exR.root.children :=
  ⟨exR_reach, by rw [Node.nodes_eq]; exact List.mem_cons_self, by rw [exR_eq]; decide, exR_names⟩

/-- The same tree is reached by a tidy history (`/{id}` has the pieces `/` and `{id}`). -/
example : ReachTidy exR ∧ NamesOkL [] exR.root.children := ⟨exR_reachTidy, exR_names⟩

/-- It has the shape `"" → "/" → "{id}"`, the leaf carrying the pattern `/{id}` and the handlers. -/
example : exR.root.children.map (fun c => (c.seg.value, c.children.map (fun d => (d.seg.value, d.pattern, d.handlers.keys)))) =
    [([47], [([123, 105, 100, 125], exPat, [mHEAD, mGET, mOPTIONS, mNotAllowed])])] := exR_shape

/-- The hypotheses of `C02_index_is_scan_inv` on a node with five literal children (index in use)
and a named sibling: `/a /b /c /d /e /{id}`. -/
example : StructInv exS ∧ exSlashS ∈ exS.root.nodes ∧ DistinctFirstBytes exSlashS ∧ exSlashS.indexes ≠ [] ∧
    NamesOkL [] exSlashS.children :=
  ⟨exS_struct, exSlashS_mem, exS_distinct _ exSlashS_mem, by decide, by decide⟩

def isHit : MR → Option Bytes
  | .hit m _ => some m.pattern
  | _ => none

def envAll : Env := { icpt := fun _ _ => true }

/-- On that node `e` is found through the index and `x` falls through to `{id}`. -/
example : isHit (exSlashS.matchChildren envAll [] [101] []) = some [47, 101] ∧
    isHit (exSlashS.matchChildren envAll [] [120] []) = some exPat := by decide

/-- Hypotheses of `C02_shortest`: `{n}-` on `a-b-c` captures `a`. -/
example : ({ value := [123, 110, 125, 45], kind := .named, name := [110], suffix := [45] } : Seg).match envAll []
    [97, 45, 98, 45, 99] = .yes [97] [98, 45, 99] := by rfl

/-! ## Why `DistinctFirstBytes` is a hypothesis

A literal piece may begin with a brace (`{abc`: no closing brace, so `newSegment` makes it a string
segment).  `longestPrefix` refuses to cut right after an opening brace, so `Handle("{abc")`,
`Handle("{abd")` produce two literal siblings with the same first byte (confirmed by `#eval` of
`Tree.run` on the history `{abc, {abd, x, y, z`: the children and the index below are the ones it
prints).  With five children the index maps `{` to the LATER sibling only and the loop starts after
the four indexed positions: `{abc` is not found although the linear scan finds it. -/

def cexLit (v : Bytes) : Node := .mk { value := v } v 1 [([71, 69, 84], { base := .user 1 })] [] []
def cexRoot : Node :=
  .mk { value := [] } [] 0 [] [(123, 1), (120, 2), (121, 3), (122, 4)]
    [cexLit [123, 97, 98, 99], cexLit [123, 97, 98, 100], cexLit [120], cexLit [121], cexLit [122]]

/-- The node satisfies the structural invariant (its index IS `buildIndexes` of its children) … -/
example : Node.All (SOk []) cexRoot := by
  simp only [cexRoot, cexLit, Node.All, AllL, and_true]
  decide
/-- … but not `DistinctFirstBytes`, and the index fast path loses the route `{abc`. -/
example : ¬ DistinctFirstBytes cexRoot := by decide
example : isHit (cexRoot.matchChildren envAll [] [123, 97, 98, 99] []) = none ∧
    isHit (selfStep cexRoot [123, 97, 98, 99] (matchFrom envAll [] cexRoot.children 0 [123, 97, 98, 99] [])) =
      some [123, 97, 98, 99] := by decide

end Mux.C02
