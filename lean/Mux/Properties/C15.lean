/-
  C15 — Version matchers accept exactly their versions and rewrite only on success.
  Statements only (plus non-vacuity examples); helper lemmas live in Mux/Proofs/Version.lean.

  All theorems hold for ALL version lists, paths and parameter maps.  The hypothesis "every version is
  non-empty and ends with `/`" (what `normVersion` produces) turned out to be unnecessary for
  `C15_path_iff`/`C15_path_first`; it is only needed for the clause "the rewritten path still starts with `/`"
  (`C15_path_rewrite`).
-/
import Mux.Proofs.Version
namespace Mux.C15
open Mux

/-- What `normVersion` produces: non-empty, ends with `/`. -/
def Normalised (vers : List Bytes) : Prop := ∀ ver ∈ vers, ver ≠ [] ∧ ver.getLast? = some 47

/-- `NewPathVersion`'s normalisation: `""` is the constructor error; otherwise a `/` is prepended iff missing and
a `/` is appended iff missing, so the result has the form `/…/`. -/
theorem C15_norm (v : Bytes) :
    (normVersion v = none ↔ v = []) ∧
    (v ≠ [] → ∃ r, normVersion v = some r ∧
      r = (if v.head? = some 47 then [] else [47]) ++ v ++ (if v.getLast? = some 47 then [] else [47]) ∧
      r.head? = some 47 ∧ r.getLast? = some 47) := by
  refine ⟨normVersion_eq_none_iff v, fun hv => ⟨_, normVersion_eq v hv, rfl, ?_⟩⟩
  have := normVersion_shape v _ (normVersion_eq v hv)
  exact ⟨this.1, this.2.1⟩

/-- Every list obtained by normalising non-empty versions satisfies `Normalised`. -/
theorem C15_norm_normalised (vs : List Bytes) (rs : List Bytes) (h : vs.mapM normVersion = some rs) :
    Normalised rs := by
  induction vs generalizing rs with
  | nil => simp at h; subst h; intro _ h; cases h
  | cons v vs ih =>
    rw [List.mapM_cons] at h
    cases hv : normVersion v with
    | none => simp [hv] at h
    | some r =>
      cases hvs : vs.mapM normVersion with
      | none => simp [hv, hvs] at h
      | some rs' =>
        simp [hv, hvs] at h
        subst h
        intro ver hver
        rcases List.mem_cons.mp hver with h1 | h1
        · subst h1
          have := normVersion_shape v _ hv
          exact ⟨this.2.2, this.2.1⟩
        · exact ih rs' hvs ver h1

/-- The path matcher rejects iff no listed version is a prefix of the path, and it never faults. -/
theorem C15_path_iff (param : Bytes) (vers : List Bytes) (p : Bytes) (ps : Params) :
    (pathVersionMatch param vers p ps = .ok none ↔ ∀ ver ∈ vers, ¬ hasPrefix p ver = true) ∧
    (∀ e, pathVersionMatch param vers p ps ≠ .error e) :=
  ⟨pathVersionMatch_none_iff param vers p ps, pathVersionMatch_ne_error param vers p ps⟩

/-- Accepting form of `C15_path_iff`: it accepts iff some listed version is a prefix of the path. -/
theorem C15_path_accept_iff (param : Bytes) (vers : List Bytes) (p : Bytes) (ps : Params) :
    (∃ r, pathVersionMatch param vers p ps = .ok (some r)) ↔ ∃ ver ∈ vers, hasPrefix p ver = true := by
  constructor
  · rintro ⟨⟨p', ps'⟩, h⟩
    obtain ⟨pre, ver, post, hv, _, hp, _⟩ := (pathVersionMatch_some_iff param vers p ps p' ps').mp h
    exact ⟨ver, by rw [hv]; simp, hp⟩
  · rintro ⟨ver, hmem, hp⟩
    cases h : pathVersionMatch param vers p ps with
    | error e => exact absurd h (pathVersionMatch_ne_error param vers p ps e)
    | ok o =>
      cases o with
      | none => exact absurd hp ((pathVersionMatch_none_iff param vers p ps).mp h ver hmem)
      | some r => exact ⟨r, rfl⟩

/-- The version chosen is the FIRST one in list order that is a prefix of the path; the result is exactly
determined by it (this is an `iff`, so it also gives existence). -/
theorem C15_path_first (param : Bytes) (vers : List Bytes) (p : Bytes) (ps : Params) (p' : Bytes) (ps' : Params) :
    pathVersionMatch param vers p ps = .ok (some (p', ps')) ↔
      ∃ pre ver post, vers = pre ++ ver :: post ∧ (∀ u ∈ pre, ¬ hasPrefix p u = true) ∧
        hasPrefix p ver = true ∧ p' = p.drop (ver.length - 1) ∧
        ps' = (if param ≠ [] then ps.set param ver.dropLast else ps) :=
  pathVersionMatch_some_iff param vers p ps p' ps'

/-- For normalised versions `ver = seg ++ "/"`: the path was `seg ++ "/" ++ rest`, the new path is `"/" ++ rest`
(exactly the version segment removed, once; still starts with `/`) and the parameter, when a name is
configured, is `seg`; nothing else in the parameters changes. -/
theorem C15_path_rewrite (param : Bytes) (vers : List Bytes) (p : Bytes) (ps : Params) (p' : Bytes) (ps' : Params)
    (hn : Normalised vers) (h : pathVersionMatch param vers p ps = .ok (some (p', ps'))) :
    ∃ pre ver post rest, vers = pre ++ ver :: post ∧ (∀ u ∈ pre, ¬ hasPrefix p u = true) ∧
      p = ver.dropLast ++ 47 :: rest ∧ ver = ver.dropLast ++ [47] ∧
      p' = 47 :: rest ∧ p' = p.drop (ver.length - 1) ∧
      ps' = (if param ≠ [] then ps.set param ver.dropLast else ps) := by
  obtain ⟨pre, ver, post, hv, hpre, hp, hp', hps'⟩ := (pathVersionMatch_some_iff param vers p ps p' ps').mp h
  have hmem : ver ∈ vers := by rw [hv]; simp
  obtain ⟨hne, hl⟩ := hn ver hmem
  obtain ⟨rest, h1, h2⟩ := drop_of_prefix_slash p ver hp hl
  refine ⟨pre, ver, post, rest, hv, hpre, h1, ?_, by rw [hp', h2], hp', hps'⟩
  have := List.dropLast_concat_getLast hne
  rw [List.getLast?_eq_some_getLast hne] at hl
  simp only [Option.some.injEq] at hl
  rw [hl] at this; exact this.symm

/-- A rejecting version matcher leaves the path and the parameters as they were (the request itself is
immutable in the model; the path is the only field a matcher can change). -/
theorem C15_untouched (env : Env) (tab : Nat → Option Hosts) (req : Req) (path : Bytes) (ps : Params)
    (p' : Bytes) (ps' : Params) :
    (∀ param vers, (Matcher.pathVersion param vers).run env tab req path ps = .reject p' ps' →
        p' = path ∧ ps' = ps) ∧
    (∀ param key vers, (Matcher.headerVersion param key vers).run env tab req path ps = .reject p' ps' →
        p' = path ∧ ps' = ps) :=
  ⟨fun param vers h => run_pathVersion_reject env tab param vers req path ps p' ps' h,
   fun param key vers h => run_headerVersion_reject env tab param key vers req path ps p' ps' h⟩

/-- `Matcher.run` of the path matcher in closed form: reject (untouched) or accept with the rewrite of the first
matching version; it never faults. -/
theorem C15_path_run (env : Env) (tab : Nat → Option Hosts) (param : Bytes) (vers : List Bytes)
    (req : Req) (path : Bytes) (ps : Params) :
    (Matcher.pathVersion param vers).run env tab req path ps =
      match vers.find? (hasPrefix path) with
      | none => .reject path ps
      | some ver => .accept (path.drop (ver.length - 1))
          (if param ≠ [] then ps.set param ver.dropLast else ps) :=
  run_pathVersion env tab param vers req path ps

/-- The header matcher accepts iff the Accept header is non-empty, parses as a media type and the configured
parameter of it (`""` when absent) is one of the versions; it records that version. -/
theorem C15_header_iff (param key : Bytes) (versions : List Bytes) (req : Req) (ps ps' : Params) :
    headerVersionMatch param key versions req ps = some ps' ↔
      req.headers.get hAccept ≠ [] ∧ ∃ mp, req.acceptParams = some mp ∧
        ((mp.get? key).getD []) ∈ versions ∧
        ps' = (if param ≠ [] then ps.set param ((mp.get? key).getD []) else ps) :=
  headerVersionMatch_iff param key versions req ps ps'

/-- The header matcher accepts with the path unchanged. -/
theorem C15_header_run (env : Env) (tab : Nat → Option Hosts) (param key : Bytes) (vers : List Bytes)
    (req : Req) (path : Bytes) (ps : Params) :
    (Matcher.headerVersion param key vers).run env tab req path ps =
      match headerVersionMatch param key vers req ps with
      | some ps' => .accept path ps'
      | none => .reject path ps :=
  run_headerVersion env tab param key vers req path ps

/-! ## Non-vacuity -/

-- "/v1/", "/v11/" from "v1", "/v11"; path "/v11/x/v1/y" picks v11 (v1/ is not a prefix), removes it once.
example : normVersion [118, 49] = some [47, 118, 49, 47] ∧ normVersion [47, 118, 49, 49] = some [47, 118, 49, 49, 47] ∧
    normVersion [47] = some [47] := by decide
example : Normalised [[47, 118, 49, 47], [47, 118, 49, 49, 47]] := by
  intro ver h; simp at h; rcases h with h | h <;> subst h <;> decide
example : pathVersionMatch [118] [[47, 118, 49, 47], [47, 118, 49, 49, 47]]
      [47, 118, 49, 49, 47, 120, 47, 118, 49, 47, 121] [] =
    .ok (some ([47, 120, 47, 118, 49, 47, 121], [([118], [47, 118, 49, 49])])) := by rfl
-- "/v1" without a trailing slash is rejected
example : pathVersionMatch [118] [[47, 118, 49, 47]] [47, 118, 49] [] = .ok none := by rfl
-- the rejecting hypothesis of C15_untouched is satisfiable
example : (Matcher.pathVersion [118] [[47, 118, 49, 47]]).run ⟨fun _ _ => true⟩ (fun _ => none) ⟨[71], [47, 120], [], [], none⟩ [47, 120] []
    = .reject [47, 120] [] := by
  rw [C15_path_run]; rfl
-- header matcher: Accept present, media type parameter "version" = "2" listed
example : headerVersionMatch [118] [118] [[50]] ⟨[71], [47], [], [(hAccept, [[120]])], some [([118], [50])]⟩ [] =
    some [([118], [50])] := by
  rw [C15_header_iff]
  refine ⟨by simp [Hdr.get], _, rfl, by decide, by decide⟩

end Mux.C15
