/-
  C18 (closed-model part) — the bundled TRACE helper, `html.EscapeString`, and the TRACE
  short-circuit of `Tree.Handler`.
-/
import Mux.Proofs.Trace
namespace Mux.C18
open Mux

/-- The five entities `html.EscapeString` produces, as text. -/
def entityTexts : List Bytes :=
  [bytesOfString "&lt;", bytesOfString "&gt;", bytesOfString "&amp;", bytesOfString "&#39;", bytesOfString "&#34;"]

theorem entityTexts_eq : entityTexts = entities := by decide +kernel

/-- Escaped text contains none of `<` (60), `>` (62), `"` (34), `'` (39), and wherever it contains
`&` (38) one of the five entities starts at that very position. -/
theorem C18_escape_safe (s : Bytes) :
    (∀ b ∈ htmlEscape s, b ≠ 60 ∧ b ≠ 62 ∧ b ≠ 34 ∧ b ≠ 39) ∧
    (∀ pre post, htmlEscape s = pre ++ 38 :: post → ∃ e ∈ entityTexts, e <+: 38 :: post) := by
  constructor
  · intro b hb
    have := htmlEscape_safe s b hb
    simp only [forbiddenByte, not_or] at this
    exact this
  · intro pre post h
    rw [entityTexts_eq]
    exact htmlEscape_amp s pre post h

/-- Nothing is lost: un-escaping the five entities gives the original text back. -/
theorem C18_escape_inv (s : Bytes) : htmlUnescape (htmlEscape s) = s := htmlUnescape_escape s

/-- Hence escaping is injective: different dumps give different bodies. -/
theorem C18_escape_inj (s t : Bytes) (h : htmlEscape s = htmlEscape t) : s = t := by
  rw [← htmlUnescape_escape s, h, htmlUnescape_escape]

/-- `trace.Trace` on a fresh response: status 200, the headers AS SENT (snapshot at `WriteHeader`)
carry `Content-Type: message/http`, the body is the escaped dump and all of it is delivered.  When
`httputil.DumpRequest` fails nothing is written. -/
theorem C18_helper (text : Bytes) :
    (∀ r body, traceHelper (some text) {} = (r, body) →
      r.code = some 200 ∧ r.snap.map (·.get hContentType) = some (bytesOfString "message/http") ∧
      body = htmlEscape text ∧ r.body = body.length) ∧
    (∀ r0, traceHelper none r0 = (r0, [])) := by
  constructor
  · intro r body h
    rw [traceHelper_some text {} rfl] at h
    cases h
    refine ⟨rfl, ?_, rfl, by simp⟩
    simp only [Option.map_some, Hdr.get_set_self]
  · intro r0; rfl

/-- The same for any response on which no status has been sent yet (other headers may be set). -/
theorem C18_helper_gen (text : Bytes) (r0 : Rec) (h0 : r0.code = none) :
    let (r, body) := traceHelper (some text) r0
    r.code = some 200 ∧ r.snap.map (·.get hContentType) = some (bytesOfString "message/http") ∧
      r.hdr.get hContentType = bytesOfString "message/http" ∧
      body = htmlEscape text ∧ r.body = r0.body + body.length := by
  rw [traceHelper_some text r0 h0]
  simp only [Option.map_some, Hdr.get_set_self, and_self]

/-- With a TRACE handler configured, a TRACE request to ANY path (registered or not, `*`, empty)
and with any parameters already in the context is answered by that handler, attached to the root
node, before any matching happens. -/
theorem C18_any_path (env : Env) (t : Tree) (h : Handler) (ht : t.trace = some h) (path : Bytes) (ps : Params) :
    t.handler env path ps mTRACE = .res { node := some t.root, handler := h, ok := true, params := ps } :=
  handler_trace env t h ht path ps

/-- At router level: the call made for a TRACE request is the TRACE handler's, `ok = true`, not
HEAD-wrapped, under the router's recover flag — for every path. -/
theorem C18_any_path_router (env : Env) (r : Router) (h : Handler) (ht : r.tree.trace = some h)
    (req : Req) (hm : req.method = mTRACE) (ps : Params) :
    ∃ c, r.serveContext env req ps = .call c ∧ c.handler = h ∧ c.ok = true ∧ c.node = some r.tree.root ∧
      c.params = ps ∧ c.headWrap = false ∧ c.path = req.path := by
  have hne : mTRACE ≠ mHEAD := by decide +kernel
  unfold Router.serveContext
  rw [hm, handler_trace env r.tree h ht]
  exact ⟨_, rfl, rfl, rfl, rfl, rfl, by simp [hne], rfl⟩

/-- "…wrapped only in the `Use` middlewares": after ANY history of Handle/Remove/Clean/Use on a tree
created with TRACE handler `h0`, a TRACE request to any path is answered by `h0` wrapped with
exactly the middlewares passed to `Use` (in order, innermost first), each applied with method
TRACE, an empty pattern and the router's name — nothing else ever wraps it. -/
theorem C18_any_path_wraps (env : Env) (name : Bytes) (ic : Interceptors) (nf h0 : Handler)
    (ops : List TOp) (path : Bytes) (ps : Params) :
    let t := (Tree.new name ic nf (some h0)).run ops
    t.handler env path ps mTRACE =
      .res { node := some t.root, handler := wrapWith h0 mTRACE [] name (useMs ops), ok := true, params := ps } := by
  intro t
  apply handler_trace
  exact (run_trace (Tree.new name ic nf (some h0)) ops).1

/-- Whether TRACE is configured never changes during a tree's life. -/
theorem C18_trace_fixed (t : Tree) (ops : List TOp) : (t.run ops).hasTrace = t.hasTrace := by
  unfold Tree.hasTrace
  rw [(run_trace t ops).1]
  cases t.trace <;> rfl

/-- Without the option TRACE goes through the ordinary matching like every other method. -/
theorem C18_ordinary (env : Env) (t : Tree) (ht : t.trace = none) (path : Bytes) (ps : Params) :
    t.handler env path ps mTRACE = Tree.handler.Tree.handlerNoTrace env t path ps mTRACE :=
  handler_notrace env t ht path ps mTRACE

/-- And the option changes nothing for the other methods. -/
theorem C18_other_methods (env : Env) (t : Tree) (path : Bytes) (ps : Params) (method : Bytes)
    (hm : method ≠ mTRACE) :
    t.handler env path ps method = Tree.handler.Tree.handlerNoTrace env t path ps method :=
  handler_other env t path ps method hm

/-! ## Non-vacuity -/

example : htmlEscape (bytesOfString "<a href=\"x\">&'") =
    bytesOfString "&lt;a href=&#34;x&#34;&gt;&amp;&#39;" := by decide +kernel
example : htmlUnescape (bytesOfString "&lt;a href=&#34;x&#34;&gt;&amp;&#39;") =
    bytesOfString "<a href=\"x\">&'" := by decide +kernel
/-- `&` does occur in escaped text, so the second clause of `C18_escape_safe` is not vacuous -/
example : htmlEscape [60] = [] ++ 38 :: [108, 116, 59] := by decide +kernel
example : (Tree.new [1] [] { base := .notFound } (some { base := .trace })).trace = some { base := .trace } := rfl
example : (Tree.new [1] [] { base := .notFound } none).trace = none := rfl
example : (({} : Rec).code = none) := rfl
example : mPOST ≠ mTRACE := by decide +kernel
example : useMs [.use [1, 2], .remove [47] [], .use [3]] = [1, 2, 3] := rfl

end Mux.C18
