/-
  C16 (sequences of requests) — "later requests are served normally": a SEQUENCE of requests on one router, with the
  context pool threaded through it as `Router.ServeHTTP` does:

      ctx := types.NewContext()          // whatever the pool hands out, Reset()
      r.serveContext(w, req, ctx)        // deferred recover() inside, if configured
      ctx.Destroy()                      // back to the pool — SKIPPED when a panic escapes serveContext

  Each request of the sequence may have its own set of panicking functions (`PanicCfg`), so a sequence is any
  interleaving of panicking and normal requests.  What user code and `serveContext` leave in the context before
  `Destroy` (`Dirt`) is arbitrary — handlers and middlewares may `Set`/`Delete` whatever they like.

  This replaces the vacuous `C16_continue` (which was `List.getElem?_map`): here the router's answer to request `k`
  is computed from the context the POOL hands out at that moment, and the theorems say that this context is empty
  and hence the answer is the one a router that never served anything gives.
-/
import Mux.Properties.C16
import Mux.Properties.C16stable
namespace Mux.C16
open Mux

/-! ## Sequence semantics -/

/-- What is in the context when `ctx.Destroy()` runs: a function of the request's position, the context handed out
and everything observable about the request (selected call, outcome).  Universally quantified in the theorems. -/
abbrev Dirt := Nat → Ctx → Option Call × Outcome → Ctx

/-- The dirt mux itself leaves (`ctx.Path`, the captured parameters, `SetRouterName`, `SetNode`), for the examples. -/
def stdDirt : Dirt := fun _ ctx out =>
  match out.1 with
  | some c => { path := c.path, params := c.params, routerName := c.routerName, hasNode := c.node.isSome }
  | none => ctx

/-- One served request, as observed: the context `NewContext` handed out, and the call and outcome. -/
structure SeqStep where
  ctx0 : Ctx
  out : Option Call × Outcome

/-- `Router.ServeHTTP` once, on the pool: `NewContext`, `serveContext` on the parameters of THAT context, then
`Destroy` of the dirty context unless the panic escaped (then the statement `ctx.Destroy()` is never reached). -/
def serveOne (env : Env) (scripts : Scripts) (r : Router) (dirt : Dirt) (i : Nat) (pool : Pool)
    (q : Req × PanicCfg) : SeqStep × Pool :=
  let ctx := pool.newContext.1
  let out := r.serveHTTP env q.2 scripts q.1 ctx.params
  (⟨ctx, out⟩,
   match out.2 with
   | .panicked _ => pool.newContext.2
   | _ => pool.newContext.2.destroy (dirt i ctx out))

/-- A sequence of requests on one router; `i` numbers them.  Result: the steps and the pool afterwards. -/
def serveSeq (env : Env) (scripts : Scripts) (r : Router) (dirt : Dirt) : Nat → Pool → List (Req × PanicCfg) →
    List SeqStep × Pool
  | _, pool, [] => ([], pool)
  | i, pool, q :: qs =>
    let s := serveOne env scripts r dirt i pool q
    let rest := serveSeq env scripts r dirt (i + 1) s.2 qs
    (s.1 :: rest.1, rest.2)

/-- The reference: the same request on a router that has never served anything (fresh empty context). -/
def serveFresh (env : Env) (scripts : Scripts) (r : Router) (q : Req × PanicCfg) : SeqStep :=
  ⟨{}, r.serveHTTP env q.2 scripts q.1 []⟩

/-! ## One step -/

/-- Whatever the pool holds, `NewContext` hands out the empty context. -/
theorem newContext_empty (pool : Pool) : pool.newContext.1 = {} := by
  cases pool <;> rfl

/-- **C16_seq_step**: one request on ANY pool (any dirty contexts in it) is observed exactly as on a fresh router:
it starts from the empty context and gets the same call and the same outcome (response record included). -/
theorem C16_seq_step (env : Env) (scripts : Scripts) (r : Router) (dirt : Dirt) (i : Nat) (pool : Pool)
    (q : Req × PanicCfg) : (serveOne env scripts r dirt i pool q).1 = serveFresh env scripts r q := by
  simp only [serveOne, serveFresh, newContext_empty]

/-- **C16_seq_step_pool**: where the context goes.  If the panic escaped (`.panicked`, no recovery configured) the
context is NOT returned (the pool is what `NewContext` left); in every other case — normal return AND recovered
panic — `Destroy` runs on the dirty context. -/
theorem C16_seq_step_pool (env : Env) (scripts : Scripts) (r : Router) (dirt : Dirt) (i : Nat) (pool : Pool)
    (q : Req × PanicCfg) :
    let out := r.serveHTTP env q.2 scripts q.1 []
    ((∃ v, out.2 = .panicked v) → (serveOne env scripts r dirt i pool q).2 = pool.newContext.2) ∧
    ((∀ v, out.2 ≠ .panicked v) →
      (serveOne env scripts r dirt i pool q).2 = pool.newContext.2.destroy (dirt i {} out)) := by
  simp only [serveOne, newContext_empty]
  constructor
  · rintro ⟨v, hv⟩
    rw [hv]
  · intro hv
    split
    · rename_i v h; exact absurd h (hv v)
    · rfl

/-- With recovery configured the context always goes back through `Destroy` (nothing escapes: `C16_contained`). -/
theorem C16_seq_step_recover (env : Env) (scripts : Scripts) (r : Router) (hr : r.recover = true) (dirt : Dirt)
    (i : Nat) (pool : Pool) (q : Req × PanicCfg) :
    (serveOne env scripts r dirt i pool q).2 =
      pool.newContext.2.destroy (dirt i {} (r.serveHTTP env q.2 scripts q.1 [])) :=
  (C16_seq_step_pool env scripts r dirt i pool q).2 (C16_contained r hr env q.2 scripts q.1 []).1

/-! ## Sequences -/

/-- **C16_seq_fresh**: every request of every sequence, on every initial pool and whatever user code leaves in the
contexts, is observed exactly as on a router that never served anything: it starts from the EMPTY context and gets
the same `Call` and the same outcome.  (Induction over the sequence with the pool generalised; the step is
`C16_seq_step`, i.e. `NewContext` resets what it hands out.) -/
theorem C16_seq_fresh (env : Env) (scripts : Scripts) (r : Router) (dirt : Dirt) (i : Nat) (pool : Pool)
    (qs : List (Req × PanicCfg)) :
    (serveSeq env scripts r dirt i pool qs).1 = qs.map (serveFresh env scripts r) := by
  induction qs generalizing i pool with
  | nil => rfl
  | cons q qs ih =>
    simp only [serveSeq, List.map_cons]
    rw [C16_seq_step, ih]

/-- Each request starts from an empty context (no parameter, path, router name or node of an earlier request). -/
theorem C16_seq_empty_ctx (env : Env) (scripts : Scripts) (r : Router) (dirt : Dirt) (i : Nat) (pool : Pool)
    (qs : List (Req × PanicCfg)) : ∀ s ∈ (serveSeq env scripts r dirt i pool qs).1, s.ctx0 = {} := by
  rw [C16_seq_fresh]
  intro s hs
  obtain ⟨q, _, rfl⟩ := List.mem_map.1 hs
  rfl

theorem serveSeq_append (env : Env) (scripts : Scripts) (r : Router) (dirt : Dirt) (i : Nat) (pool : Pool)
    (a b : List (Req × PanicCfg)) :
    serveSeq env scripts r dirt i pool (a ++ b) =
      ((serveSeq env scripts r dirt i pool a).1 ++
         (serveSeq env scripts r dirt (i + a.length) (serveSeq env scripts r dirt i pool a).2 b).1,
       (serveSeq env scripts r dirt (i + a.length) (serveSeq env scripts r dirt i pool a).2 b).2) := by
  induction a generalizing i pool with
  | nil => simp [serveSeq]
  | cons q a ih =>
    simp only [List.cons_append, serveSeq, List.length_cons]
    rw [ih]
    have : i + 1 + a.length = i + (a.length + 1) := by omega
    rw [this]

/-- **C16_continue_seq** (clause "later requests are served normally").  Take any sequence `before ++ q :: after` on
any initial pool; WHATEVER happened to `q` (normal return, recovered panic, escaped panic), the requests of `after`
are observed — context they start from, `Call`, outcome with its response record — exactly
 (1) as the same requests in the sequence `before ++ after` that never contained `q`, and
 (2) as on a router that serves `after` first thing, from any other pool `pool'` and with any other dirt. -/
theorem C16_continue_seq (env : Env) (scripts : Scripts) (r : Router) (dirt dirt' : Dirt) (pool pool' : Pool) (i' : Nat)
    (before after : List (Req × PanicCfg)) (q : Req × PanicCfg) :
    ((serveSeq env scripts r dirt 0 pool (before ++ q :: after)).1.drop (before.length + 1) =
      (serveSeq env scripts r dirt 0 pool (before ++ after)).1.drop before.length) ∧
    ((serveSeq env scripts r dirt 0 pool (before ++ q :: after)).1.drop (before.length + 1) =
      (serveSeq env scripts r dirt' i' pool' after).1) := by
  simp only [C16_seq_fresh, List.map_append, List.map_cons]
  have h1 : ∀ (l : List SeqStep) x m, l.length = before.length → (l ++ x :: m).drop (before.length + 1) = m := by
    intro l x m hl
    rw [← hl, show l ++ x :: m = (l ++ [x]) ++ m by simp, List.drop_left' (by simp)]
  have h2 : ∀ (l : List SeqStep) m, l.length = before.length → (l ++ m).drop before.length = m := by
    intro l m hl
    rw [← hl, List.drop_left]
  rw [h1 _ _ _ (by simp), h2 _ _ (by simp)]
  exact ⟨rfl, rfl⟩

/-- **C16_continue_after_recovered**: the instance the property names.  Recovery is configured (`hr`; for every state
of a router's life by `C16_recover_stable`), request `q` selects the call `c` and the call panics with `v`
(a user value or a runtime fault).  Then, in the sequence `before ++ q :: after`:
 * `q` itself is observed as: started on the empty context, call `c`, outcome "recovered `v`" with the record the
   recovery function wrote — the original value, once;
 * its context went back through `Destroy` (it is the head of the pool the next request draws from, when it has
   at most 30 parameters);
 * every request of `after` is observed exactly as in the sequence without `q`. -/
theorem C16_continue_after_recovered (env : Env) (scripts : Scripts) (r : Router) (hr : r.recover = true) (dirt : Dirt)
    (pool : Pool) (before after : List (Req × PanicCfg)) (q : Req) (pc : PanicCfg) (c : Call) (v : PanicVal)
    (hc : r.serveContext env q [] = .call c) (hv : runCall pc scripts c = .error v) :
    let run := serveSeq env scripts r dirt 0 pool (before ++ (q, pc) :: after)
    let poolB := (serveSeq env scripts r dirt 0 pool before).2
    run.1[before.length]? = some ⟨{}, (some c, .recovered v (recoveredRec c))⟩ ∧
    (serveOne env scripts r dirt before.length poolB (q, pc)).2 =
      poolB.newContext.2.destroy (dirt before.length {} (some c, .recovered v (recoveredRec c))) ∧
    run.1.drop (before.length + 1) = (serveSeq env scripts r dirt 0 pool (before ++ after)).1.drop before.length := by
  intro run poolB
  have hout : r.serveHTTP env pc scripts q [] = (some c, .recovered v (recoveredRec c)) :=
    (C16_contained r hr env pc scripts q []).2 c v hc hv
  refine ⟨?_, ?_, (C16_continue_seq env scripts r dirt dirt pool pool 0 before after (q, pc)).1⟩
  · show (serveSeq env scripts r dirt 0 pool (before ++ (q, pc) :: after)).1[before.length]? = _
    rw [C16_seq_fresh, List.map_append, List.map_cons]
    rw [List.getElem?_append_right (by simp)]
    simp [serveFresh, hout]
  · have := C16_seq_step_recover env scripts r hr dirt before.length poolB (q, pc)
    rw [this]
    show _ = poolB.newContext.2.destroy (dirt before.length {} _)
    rw [← hout]

/-- **C16_seq_no_leak**: with recovery configured no context is lost, however many requests panic: after a non-empty
sequence the pool holds `max pool.length 1` contexts (each request takes one out or makes one, and puts one back),
provided the contexts are small enough for `Destroy` to keep them (at most 30 parameters). -/
theorem C16_seq_no_leak (env : Env) (scripts : Scripts) (r : Router) (hr : r.recover = true) (dirt : Dirt)
    (hsmall : ∀ i c o, (dirt i c o).params.length ≤ destroyMaxSize) (i : Nat) (pool : Pool)
    (qs : List (Req × PanicCfg)) (hqs : qs ≠ []) :
    (serveSeq env scripts r dirt i pool qs).2.length = max pool.length 1 := by
  have hstep : ∀ i pool q, (serveOne env scripts r dirt i pool q).2.length = max pool.length 1 := by
    intro i pool q
    rw [C16_seq_step_recover env scripts r hr]
    unfold Pool.destroy
    rw [if_pos (hsmall _ _ _)]
    cases pool with
    | nil => rfl
    | cons c rest => simp [Pool.newContext]
  induction qs generalizing i pool with
  | nil => exact absurd rfl hqs
  | cons q qs ih =>
    simp only [serveSeq]
    by_cases hq : qs = []
    · subst hq; simp only [serveSeq]; exact hstep i pool q
    · rw [ih _ _ hq, hstep]; omega

/-- **C16_seq_leak**: without recovery an escaping panic skips `Destroy` (there is no `defer` in
`Router.ServeHTTP`): the pool loses the context that was taken out — and the NEXT request is still served from an
empty context (`C16_seq_fresh` does not depend on `r.recover`). -/
theorem C16_seq_leak (env : Env) (scripts : Scripts) (r : Router) (hr : r.recover = false) (dirt : Dirt) (i : Nat)
    (pool : Pool) (q : Req) (pc : PanicCfg) (c : Call) (v : PanicVal)
    (hc : r.serveContext env q [] = .call c) (hv : runCall pc scripts c = .error v) :
    (serveOne env scripts r dirt i pool (q, pc)).1 = ⟨{}, (some c, .panicked v)⟩ ∧
    (serveOne env scripts r dirt i pool (q, pc)).2 = pool.tail := by
  have hout : r.serveHTTP env pc scripts q [] = (some c, .panicked v) := C16_through r hr env pc scripts q [] c v hc hv
  refine ⟨by rw [C16_seq_step]; simp [serveFresh, hout], ?_⟩
  rw [(C16_seq_step_pool env scripts r dirt i pool (q, pc)).1 ⟨v, by rw [hout]⟩]
  cases pool <;> rfl

/-! ## Whole lives: a history of registrations, then a sequence of requests -/

/-- **C16_seq_contained_history** (clauses "a panic never escapes `Router.ServeHTTP`" + "later requests are served
normally", end to end): a router made by `NewRouter` WITH a recovery option (`hrec`), after ANY history of
`Handle/Remove/Clean/Use`, serving ANY sequence of requests with ANY per-request sets of panicking user functions, on
any pool: no request of the sequence ends with an escaped panic, every request starts from the empty context and is
observed as on a fresh router, and (small contexts) the pool never loses a context. -/
theorem C16_seq_contained_history (cfg : RouterCfg) (r0 : Router) (hnew : Router.new cfg = some r0)
    (hrec : cfg.recover = true) (ops : List ROp) (env : Env) (scripts : Scripts) (dirt : Dirt) (i : Nat) (pool : Pool)
    (qs : List (Req × PanicCfg)) :
    let run := serveSeq env scripts (r0.run ops) dirt i pool qs
    (∀ s ∈ run.1, ∀ v, s.out.2 ≠ .panicked v) ∧ (∀ s ∈ run.1, s.ctx0 = {}) ∧
    run.1 = qs.map (serveFresh env scripts (r0.run ops)) ∧
    ((∀ i c o, (dirt i c o).params.length ≤ destroyMaxSize) → qs ≠ [] → run.2.length = max pool.length 1) := by
  intro run
  have hr : (r0.run ops).recover = true := (C16_recover_stable cfg r0 ops hnew).trans hrec
  refine ⟨?_, C16_seq_empty_ctx env scripts _ dirt i pool qs, C16_seq_fresh env scripts _ dirt i pool qs,
    fun hsmall hqs => C16_seq_no_leak env scripts _ hr dirt hsmall i pool qs hqs⟩
  intro s hs v
  have : s ∈ qs.map (serveFresh env scripts (r0.run ops)) := by
    rw [← C16_seq_fresh env scripts _ dirt i pool qs]; exact hs
  obtain ⟨q, _, rfl⟩ := List.mem_map.1 this
  exact (C16_contained (r0.run ops) hr env q.2 scripts q.1 []).1 v

/-! ## `Group.ServeHTTP`: `defer ctx.Destroy()`

`Group.ServeHTTP` defers `Destroy`, so the context goes back to the pool on EVERY path, also when a panic escapes
(group without recovery).  The model's `Group.serveHTTP` starts each router from the empty parameter list by
construction (`Group.serve` passes `[]` to the matchers), so only the pool side is stated here. -/

/-- `Group.ServeHTTP` once, on the pool. -/
def groupServeOne (env : Env) (hostsTab : Nat → Option Hosts) (scripts : Scripts) (rt : RTab) (g : Group) (dirt : Dirt)
    (i : Nat) (pool : Pool) (q : Req × PanicCfg) : SeqStep × Pool :=
  let ctx := pool.newContext.1
  let out := g.serveHTTP env hostsTab q.2 scripts rt q.1
  (⟨ctx, out⟩, pool.newContext.2.destroy (dirt i ctx out))

/-- **C16_group_seq_step**: every `Group.ServeHTTP` starts from the empty context and returns its context through
`Destroy` whatever the outcome — so after a request (panicking or not, recovered or not) the pool holds
`max pool.length 1` contexts when the context is small enough to be kept. -/
theorem C16_group_seq_step (env : Env) (hostsTab : Nat → Option Hosts) (scripts : Scripts) (rt : RTab) (g : Group)
    (dirt : Dirt) (i : Nat) (pool : Pool) (q : Req × PanicCfg) :
    (groupServeOne env hostsTab scripts rt g dirt i pool q).1.ctx0 = {} ∧
    ((∀ i c o, (dirt i c o).params.length ≤ destroyMaxSize) →
      (groupServeOne env hostsTab scripts rt g dirt i pool q).2.length = max pool.length 1) := by
  refine ⟨newContext_empty pool, fun hsmall => ?_⟩
  simp only [groupServeOne, Pool.destroy]
  rw [if_pos (hsmall _ _ _)]
  cases pool with
  | nil => rfl
  | cons c rest => simp [Pool.newContext]

/-! ## Non-vacuity

The demo router of `C16.lean` (TRACE configured, so every request yields a call): a sequence
`normal, panicking, normal` on a pool that holds a dirty context. -/

/-- a dirty context left in the pool by some earlier use -/
def dirtyCtx : Ctx := { path := [47, 120], params := [([105, 100], [53])], routerName := [1], hasNode := true }

/-- request 2 of 3 panics in middleware 2 and in the TRACE handler -/
def demoSeq : List (Req × PanicCfg) := [(demoReq, {}), (demoReq, demoPc), (demoReq, {})]

-- hypotheses of `C16_continue_after_recovered` for the middle request
example : (demoRouter true).recover = true := rfl
example : runCall demoPc [] (demoCall true) = .error (.user 22) := rfl
-- the sequence really consists of a normal, a recovered and a normal request, all from the empty context, and the
-- pool (one dirty context at the start) holds one context at the end
example : ((serveSeq env0 [] (demoRouter true) stdDirt 0 [dirtyCtx] demoSeq).1.map
      (fun s => (decide (s.ctx0 = {}), match s.out.2 with
        | .normal _ => 0 | .recovered (.user v) _ => v | .recovered .fault _ => 1 | .panicked _ => 2 | .unsupported => 3)),
    (serveSeq env0 [] (demoRouter true) stdDirt 0 [dirtyCtx] demoSeq).2.length) =
    ([(true, 0), (true, 22), (true, 0)], 1) := by decide +kernel
-- without recovery the middle request's panic escapes and the pool is empty afterwards (the context leaked), and
-- request 3 is still served from the empty context
example : ((serveSeq env0 [] (demoRouter false) stdDirt 0 [dirtyCtx] (demoSeq.take 2)).1.map
      (fun s => (decide (s.ctx0 = {}), match s.out.2 with
        | .normal _ => 0 | .recovered _ _ => 1 | .panicked (.user v) => v | .panicked .fault => 2 | .unsupported => 3)),
    (serveSeq env0 [] (demoRouter false) stdDirt 0 [dirtyCtx] (demoSeq.take 2)).2.length) =
    ([(true, 0), (true, 22)], 0) := by decide +kernel
-- the smallness hypothesis of `C16_seq_no_leak` is satisfiable by a dirt that really leaves something behind
example : ∀ i c o, ((fun _ _ _ => dirtyCtx : Dirt) i c o).params.length ≤ destroyMaxSize := by
  intro _ _ _; show dirtyCtx.params.length ≤ destroyMaxSize; decide

end Mux.C16
