/-
  C14 — the `Hosts` matcher (match.go): the Host is lower-cased after a valid `:port` and IPv6 brackets were
  stripped; the normalised host is resolved for `GET` in the matcher's private tree; `Add`/`Delete` lower-case
  the domain.  Helper lemmas: `Mux/Proofs/Hosts.lean` (namespace `Mux.P12`).

  Outside the model: `strings.ToLower` on non-ASCII hosts (`Hosts.match` answers `.unsupported`, DESIGN §4.3).
  "Every other domain matches as before" after `Delete` is the frame property of `Tree.remove` (C03), not
  restated here; `C14_add_del` reduces `Add`/`Delete` to `Tree.add`/`Tree.remove` on the lower-cased name.
-/
import Mux.Proofs.HostsExamples
namespace Mux.C14
open Mux Mux.P12

/-! ## C14_norm — host normalisation -/

/-- `normHost` is, definitionally, the Go computation: cut at `LastIndexByte(h, ':')` when
`validOptionalPort(h[i:])`, then `h[1:len(h)-1]` when `HasPrefix(h,"[") && HasSuffix(h,"]")`, then `ToLower`. -/
theorem C14_norm_go (h : Bytes) : normHost h = toLower (stripBracketsGo (stripPortGo h)) := rfl

/-- …and equals the specification: lower-case (strip one pair of brackets (strip a valid port)), where
`stripPort` cuts at the LAST `:` iff only ASCII digits (possibly none) follow it (`C14_stripPort_*`) and
`stripBrackets` removes a leading `[` and a trailing `]` iff both are present (`C14_stripBrackets_*`). -/
theorem C14_norm (h : Bytes) : normHost h = toLower (stripBrackets (stripPort h)) := normHost_spec h

/-- `validOptionalPort`: empty, or `:` followed by ASCII digits only (possibly none). -/
theorem C14_validOptionalPort (p : Bytes) :
    validOptionalPort p = true ↔ p = [] ∨ ∃ ds, p = 58 :: ds ∧ ∀ d ∈ ds, 48 ≤ d ∧ d ≤ 57 :=
  validOptionalPort_iff p

/-- `strings.LastIndexByte`: position `i` holds `b` and no later position does. -/
theorem C14_lastIndexByte_some (b : UInt8) (s : Bytes) (i : Nat) :
    lastIndexByte b s = some i ↔ s[i]? = some b ∧ ∀ j, i < j → s[j]? ≠ some b :=
  lastIndexByte_eq_some_iff

theorem C14_lastIndexByte_none (b : UInt8) (s : Bytes) : lastIndexByte b s = none ↔ b ∉ s :=
  lastIndexByte_eq_none_iff

/-- `splitLastColon` (used by `stripPort`) is the split at the last colon. -/
theorem C14_splitLastColon (s host tl : Bytes) :
    splitLastColon s = some (host, tl) ↔ s = host ++ 58 :: tl ∧ 58 ∉ tl :=
  ⟨splitLastColon_some, fun ⟨h1, h2⟩ => h1 ▸ splitLastColon_append host h2⟩

/-- No `:` — nothing is removed. -/
theorem C14_stripPort_no_colon (h : Bytes) (hn : 58 ∉ h) : stripPort h = h := stripPort_no_colon hn

/-- `host:digits` — the port goes (the digits cannot contain a `:`; `host` may, as in `::1`). -/
theorem C14_stripPort_valid (host ds : Bytes) (hd : ∀ d ∈ ds, 48 ≤ d ∧ d ≤ 57) :
    stripPort (host ++ 58 :: ds) = host := stripPort_valid host ds hd

/-- A non-digit after the last `:` (`:x`, `:8o`) — the host is left as it is. -/
theorem C14_stripPort_invalid (host tl : Bytes) (hn : 58 ∉ tl) (x : UInt8) (hx : x ∈ tl)
    (hd : ¬ (48 ≤ x ∧ x ≤ 57)) : stripPort (host ++ 58 :: tl) = host ++ 58 :: tl :=
  stripPort_invalid host tl hn x hx hd

/-- The three cases are exhaustive. -/
theorem C14_stripPort_cases (h : Bytes) :
    (58 ∉ h ∧ stripPort h = h) ∨
    (∃ host ds, h = host ++ 58 :: ds ∧ (∀ d ∈ ds, 48 ≤ d ∧ d ≤ 57) ∧ stripPort h = host) ∨
    (∃ host tl x, h = host ++ 58 :: tl ∧ 58 ∉ tl ∧ x ∈ tl ∧ ¬ (48 ≤ x ∧ x ≤ 57) ∧ stripPort h = h) :=
  stripPort_cases h

theorem C14_stripBrackets_brackets (mid : Bytes) : stripBrackets (91 :: (mid ++ [93])) = mid :=
  stripBrackets_brackets mid

theorem C14_stripBrackets_other (h : Bytes) (hn : ¬ ∃ mid, h = 91 :: (mid ++ [93])) : stripBrackets h = h :=
  stripBrackets_other h hn

/-- `toLower` is idempotent, keeps the length, and works byte by byte: bytes `A`..`Z` (65–90) move by 32 into
`a`..`z`, every other byte (non-ASCII included) stays. -/
theorem C14_toLower_idem (s : Bytes) : toLower (toLower s) = toLower s := toLower_idem s

theorem C14_toLower_bytes (s : Bytes) :
    (toLower s).length = s.length ∧
    ∀ (i : Nat) (b : UInt8), s[i]? = some b →
      (¬ (65 ≤ b ∧ b ≤ 90) → (toLower s)[i]? = some b) ∧
      ((65 ≤ b ∧ b ≤ 90) → (toLower s)[i]? = some (b + 32) ∧ 97 ≤ b + 32 ∧ b + 32 ≤ 122) :=
  ⟨toLower_length s, fun i b h =>
    ⟨toLower_getElem?_of_not_upper s i b h, fun hu =>
      ⟨toLower_getElem?_of_upper s i b h hu, lowerByte_of_upper hu ▸ lowerByte_upper_range hu⟩⟩⟩

theorem C14_toLower_fix (s : Bytes) : toLower s = s ↔ ∀ b ∈ s, ¬ (65 ≤ b ∧ b ≤ 90) := toLower_eq_self_iff s

/-- The normalised host contains no upper-case ASCII letter. -/
theorem C14_norm_lower (h : Bytes) : ∀ b ∈ normHost h, ¬ (65 ≤ b ∧ b ≤ 90) := by
  rw [C14_norm]; exact toLower_no_upper _

/-- A lower-case host without `:` and brackets is its own normal form. -/
theorem C14_norm_plain (h : Bytes) (hc : 58 ∉ h) (hb : h.head? ≠ some 91) (hl : ∀ b ∈ h, ¬ (65 ≤ b ∧ b ≤ 90)) :
    normHost h = h := by
  rw [C14_norm, stripPort_no_colon hc, stripBrackets_other, (toLower_eq_self_iff h).2 hl]
  rintro ⟨mid, rfl⟩
  exact hb rfl

/-! Concrete hosts. `API.Example.com:8080` ↦ `api.example.com`; `[::1]:80` ↦ `::1`; `example.com:x` stays;
`example.com:80:` loses only the final `:` (the text after the LAST colon is the empty digit string — exactly
what `validOptionalPort(":")` accepts in Go), so it does NOT normalise to `example.com`. -/
example : normHost [65,80,73,46,69,120,97,109,112,108,101,46,99,111,109,58,56,48,56,48] = hApi := by decide
example : normHost [91,58,58,49,93,58,56,48] = [58,58,49] := by decide
example : normHost [101,120,97,109,112,108,101,46,99,111,109,58,120] = [101,120,97,109,112,108,101,46,99,111,109,58,120] := by
  decide
example : normHost [101,120,97,109,112,108,101,46,99,111,109,58,56,48,58] = [101,120,97,109,112,108,101,46,99,111,109,58,56,48] := by
  decide
example : normHost [58,58,49] = [58] := by decide          -- a bare `::1` loses `:1` (as in Go)
example : normHost [91,93,58,56,48,56,48] = [] ∧ normHost [58,56,48] = [] ∧ normHost [91,42,93] = [42] := by decide
example : stripPort [97,58,98,58,56,48] = [97,58,98] ∧ stripBrackets [91,97] = [91,97] ∧ stripBrackets [91,93] = [] := by
  decide

/-! ## C14_match — `Hosts.Match` is `Tree.Handler(GET)` on the normalised host -/

/-- For an ASCII host the outcome of `Hosts.Match` is determined by one `Tree.handler` call for `GET` on the
normalised host: accept iff it answers with `ok`, reject otherwise; the parameters are those of the answer, the
request path is never rewritten; faults and `.unsupported` are passed on. -/
theorem C14_match (env : Env) (hs : Hosts) (host path : Bytes) (ps : Params) (ha : isAscii host = true) :
    (∀ p q, hs.match env host path ps = .accept p q ↔
      p = path ∧ ∃ f, hs.tree.handler env (normHost host) ps mGET = .res f ∧ f.ok = true ∧ q = f.params) ∧
    (∀ p q, hs.match env host path ps = .reject p q ↔
      p = path ∧ ∃ f, hs.tree.handler env (normHost host) ps mGET = .res f ∧ f.ok = false ∧ q = f.params) ∧
    (hs.match env host path ps = .unsupported ↔ hs.tree.handler env (normHost host) ps mGET = .unsupported) ∧
    (∀ s, hs.match env host path ps = .fault s ↔ hs.tree.handler env (normHost host) ps mGET = .fault s) :=
  ⟨Hosts.match_accept_iff env hs host path ps ha, Hosts.match_reject_iff env hs host path ps ha,
    Hosts.match_unsupported_iff env hs host path ps ha, Hosts.match_fault_iff env hs host path ps ha⟩

/-- Functional form. -/
theorem C14_match_res (env : Env) (hs : Hosts) (host path : Bytes) (ps : Params) (f : Found)
    (ha : isAscii host = true) (h : hs.tree.handler env (normHost host) ps mGET = .res f) :
    hs.match env host path ps = if f.ok then .accept path f.params else .reject path f.params :=
  Hosts.match_res env hs host path ps f ha h

/-- Non-ASCII hosts are outside the model. -/
theorem C14_match_nonAscii (env : Env) (hs : Hosts) (host path : Bytes) (ps : Params) (h : isAscii host = false) :
    hs.match env host path ps = .unsupported :=
  Hosts.match_nonAscii env hs host path ps h

/-- `C01_found` for the private tree: when `Hosts.Match` accepts with no incoming parameters, the normalised
host is the instantiation of a non-empty chain from the root to a node with a `GET` entry (a registered
domain), every captured value satisfies its constraint, and the reported parameters are exactly the captures of
that domain pattern.  (`NamesOkL`/`IdxLit` are the C01 hypotheses on the tree; `TreeInv` holds of every
reachable matcher — `C14_reach_inv`.) -/
theorem C14_match_found (env : Env) (hs : Hosts) (hinv : TreeInv hs.tree)
    (hN : NamesOkL [] hs.tree.root.children) (hI : Node.All IdxLit hs.tree.root)
    (host path : Bytes) (ha : isAscii host = true) (p : Bytes) (q : Params)
    (h : hs.match env host path [] = .accept p q) :
    p = path ∧ ∃ (n : Node) (chain : List (Seg × Bytes)),
      chain ≠ [] ∧ Chain hs.tree.root (chain.map (·.1)) n ∧ normHost host = instChain chain ∧
      (∀ sv ∈ chain, sv.1.Satisfies env hs.tree.ic sv.2) ∧ q = captures chain ∧
      (n.handlers.get? mGET).isSome = true := by
  simpa using Hosts.match_accept_chain env hinv host path [] hN hI ha p q h

/-- `C01_found_from`: with incoming parameters `ps` (a `Hosts` matcher behind another matcher in an `And`) they
stay in front of the captures. -/
theorem C14_match_found_from (env : Env) (hs : Hosts) (hinv : TreeInv hs.tree) (ps : Params)
    (hN : NamesOkL ps.keys hs.tree.root.children) (hI : Node.All IdxLit hs.tree.root)
    (host path : Bytes) (ha : isAscii host = true) (p : Bytes) (q : Params)
    (h : hs.match env host path ps = .accept p q) :
    p = path ∧ ∃ (n : Node) (chain : List (Seg × Bytes)),
      chain ≠ [] ∧ Chain hs.tree.root (chain.map (·.1)) n ∧ normHost host = instChain chain ∧
      (∀ sv ∈ chain, sv.1.Satisfies env hs.tree.ic sv.2) ∧ q = ps ++ captures chain ∧
      (n.handlers.get? mGET).isSome = true :=
  Hosts.match_accept_chain env hinv host path ps hN hI ha p q h

/-- `C01_404_from` and the 405 case: a rejecting `Hosts.Match` either leaves the parameters as they came (no
domain matched, or `""`/`*`), or it matched a node of the tree that has handlers but no `GET` entry and leaves
that chain's captures behind (`Group` resets them; `And` restores them — C13). -/
theorem C14_match_reject (env : Env) (hs : Hosts) (ps : Params)
    (hN : NamesOkL ps.keys hs.tree.root.children) (hI : Node.All IdxLit hs.tree.root)
    (host path : Bytes) (ha : isAscii host = true) (p : Bytes) (q : Params)
    (h : hs.match env host path ps = .reject p q) :
    p = path ∧ (q = ps ∨ ∃ (n : Node) (chain : List (Seg × Bytes)),
      chain ≠ [] ∧ Chain hs.tree.root (chain.map (·.1)) n ∧ normHost host = instChain chain ∧
      q = ps ++ captures chain ∧ n.handlers ≠ [] ∧ n.handlers.get? mGET = none) :=
  Hosts.match_reject_chain env host path ps hN hI ha p q h

/-! ## C14_ok_iff_get — `ok` means "the matched node has a `GET` entry" -/

/-- For EVERY tree: `Tree.handler … GET` answers `ok` iff the matcher hit a node and that node has a `GET`
entry; then that node and the parameters of the hit are reported. -/
theorem C14_ok_iff_get (env : Env) (t : Tree) (path : Bytes) (ps : Params) (f : Found)
    (h : t.handler env path ps mGET = .res f) :
    f.ok = true ↔ ∃ n ps', t.matched env path ps = .hit n ps' ∧ (n.handlers.get? mGET).isSome = true ∧
      f.node = some n ∧ f.params = ps' :=
  handler_get_ok_iff h

/-- On a tree satisfying the invariant the accepted node is a node of the tree. -/
theorem C14_ok_node (env : Env) (hs : Hosts) (hinv : TreeInv hs.tree) (path : Bytes) (ps : Params) (f : Found)
    (h : hs.tree.handler env path ps mGET = .res f) (hok : f.ok = true) :
    ∃ n, f.node = some n ∧ n ∈ hs.tree.root.nodes ∧ (n.handlers.get? mGET).isSome = true := by
  obtain ⟨n, ps', hm, hg, hn, _⟩ := (handler_get_ok_iff h).1 hok
  have := hinv.matched_ok env path ps
  rw [hm] at this
  exact ⟨n, hn, this, hg⟩

/-- The handlers stored in the private tree are never called and never observed: two matchers whose trees
answer with the same `ok` and parameters (whatever the handlers and nodes) give the same outcome. -/
theorem C14_handlers_unused (env : Env) (hs hs' : Hosts) (host path : Bytes) (ps : Params) (f f' : Found)
    (h : hs.tree.handler env (normHost host) ps mGET = .res f)
    (h' : hs'.tree.handler env (normHost host) ps mGET = .res f')
    (hok : f.ok = f'.ok) (hps : f.params = f'.params) :
    hs.match env host path ps = hs'.match env host path ps := by
  cases ha : isAscii host with
  | false => rw [Hosts.match_nonAscii env hs host path ps ha, Hosts.match_nonAscii env hs' host path ps ha]
  | true => rw [Hosts.match_res env hs host path ps f ha h, Hosts.match_res env hs' host path ps f' ha h', hok, hps]

/-- Every matcher made by `NewHosts` and any history of `Add`/`Delete`/`RegisterInterceptor` satisfies the
tree invariant… -/
theorem C14_reach_inv (hs : Hosts) (h : HostsReach hs) : TreeInv hs.tree := h.inv

/-- …and `Hosts.Match` never faults on a tree satisfying it (`C05_hosts_match`), for every host string. -/
theorem C14_no_fault (env : Env) (hs : Hosts) (h : HostsReach hs) (host path : Bytes) (ps : Params) (s : Nat) :
    hs.match env host path ps ≠ .fault s :=
  Hosts.match_no_fault h.inv env host path ps s

/-! ## Reachable matchers: the "405" branch of `C14_match_reject` never occurs -/

/-- `Add` registers `GET` only and `Delete` removes every method: after any history each node below the root
has no handlers at all or a `GET` entry. -/
theorem C14_reach_get (hs : Hosts) (h : HostsReach hs) : HostsGet hs := h.get

/-- Hence a rejecting `Hosts.Match` leaves the parameters exactly as they came (and the path, always). -/
theorem C14_reject_clean (env : Env) (hs : Hosts) (hg : HostsGet hs) (ps : Params)
    (hN : NamesOkL ps.keys hs.tree.root.children) (hI : Node.All IdxLit hs.tree.root)
    (host path : Bytes) (ha : isAscii host = true) (p : Bytes) (q : Params)
    (h : hs.match env host path ps = .reject p q) : p = path ∧ q = ps :=
  Hosts.match_reject_clean env hg host path ps hN hI ha p q h

example : HostsGet exHosts := exHosts_get
example : HostsGet (hostsRun Hosts.empty [.add hApi, .add hSub, .delete hApi]) := HostsReach.get ⟨_, rfl⟩

/-! ## C14_add_del — `Add`/`Delete` are `Tree.add`/`Tree.remove` on the lower-cased name -/

theorem C14_add_del (hs : Hosts) (d : Bytes) :
    hs.add d = (hs.tree.add (toLower d) { base := .hostEmpty, wraps := [] } [] [mGET]).map
      (fun t => { hs with tree := t }) ∧
    hs.delete d = (hs.tree.remove (toLower d) []).map (fun t => { hs with tree := t }) :=
  ⟨Hosts.add_eq hs d, Hosts.delete_eq hs d⟩

/-- Domain names are case-insensitive for `Add` and `Delete` (D13 repaired: Go's `Delete` used the name verbatim). -/
theorem C14_case_insensitive (hs : Hosts) (d d' : Bytes) (h : toLower d = toLower d') :
    hs.add d = hs.add d' ∧ hs.delete d = hs.delete d' :=
  ⟨Hosts.add_congr hs h, Hosts.delete_congr hs h⟩

/-- `Delete` of a domain that is not in the tree is the identity. -/
theorem C14_delete_absent (hs : Hosts) (d : Bytes) (h : hs.tree.root.findPath (toLower d) = none) :
    hs.delete d = .ok hs :=
  Hosts.delete_absent hs d h

/-- `RegisterInterceptor` panics (`none`) iff the rule exists; otherwise it only appends the rule to the
interceptor table — root, counters and every existing segment (with its kind) are unchanged. -/
theorem C14_registerInterceptor (hs : Hosts) (id : IcptId) (rule : Bytes) :
    (hs.registerInterceptor id rule = none ↔ (hs.tree.ic.find rule).isSome = true) ∧
    ∀ hs', hs.registerInterceptor id rule = some hs' →
      hs'.tree = { hs.tree with ic := hs.tree.ic ++ [(rule, id)] } ∧ hs'.tree.root = hs.tree.root := by
  refine ⟨Hosts.registerInterceptor_none, fun hs' h => ?_⟩
  have := (Hosts.registerInterceptor_some h).2
  exact ⟨this, by rw [this]⟩

/-! ## C14_empty_star — `""` and `*` are never accepted -/

/-- A host that normalises to `""` or `*` selects the root of the private tree, whose keys are
`[OPTIONS, ""]` forever: rejected, parameters untouched. -/
theorem C14_empty_star (env : Env) (hs : Hosts) (hinv : TreeInv hs.tree) (host path : Bytes) (ps : Params)
    (ha : isAscii host = true) (hn : normHost host = [] ∨ normHost host = [42]) :
    hs.match env host path ps = .reject path ps :=
  Hosts.match_root env hinv host path ps ha hn

/-- …in particular for every reachable matcher; whatever the host, an accepted one is neither. -/
theorem C14_empty_star_reach (env : Env) (hs : Hosts) (h : HostsReach hs) (host path : Bytes) (ps : Params)
    (p : Bytes) (q : Params) (hacc : hs.match env host path ps = .accept p q) :
    normHost host ≠ [] ∧ normHost host ≠ [42] := by
  cases ha : isAscii host with
  | false => rw [Hosts.match_nonAscii env hs host path ps ha] at hacc; cases hacc
  | true =>
    refine ⟨fun e => ?_, fun e => ?_⟩
    · rw [Hosts.match_root env h.inv host path ps ha (.inl e)] at hacc; cases hacc
    · rw [Hosts.match_root env h.inv host path ps ha (.inr e)] at hacc; cases hacc

/-! ## Non-vacuity: `NewHosts(false, "api.example.com", "{sub}.example.com")` -/

/-- The hypotheses of the theorems above hold of the example matcher… -/
example : TreeInv exHosts.tree := exHosts_inv
example : NamesOkL [] exHosts.tree.root.children := exHosts_names
example : Node.All IdxLit exHosts.tree.root := exHosts_idx
example : HostsReach (hostsRun Hosts.empty [.add hApi, .registerInterceptor 0 [100], .add hSub, .delete [65,80,73]]) :=
  ⟨_, rfl⟩
example : TreeInv (hostsRun Hosts.empty [.add hApi, .add hSub, .delete hApi]).tree := (HostsReach.inv ⟨_, rfl⟩)

/-- `API.Example.com:8080` is accepted by the literal domain, no parameters. -/
example : outOf (exHosts.match exEnv [65,80,73,46,69,120,97,109,112,108,101,46,99,111,109,58,56,48,56,48] [47] []) =
    some (true, [47], []) := by decide
/-- `WWW.Example.COM:443` is accepted by `{sub}.example.com` with `sub = www` (lower-cased). -/
example : outOf (exHosts.match exEnv [87,87,87,46,69,120,97,109,112,108,101,46,67,79,77,58,52,52,51] [47] []) =
    some (true, [47], [([115,117,98], [119,119,119])]) := by decide
/-- `[::1]:80` ↦ `::1`, `example.com:x`, `example.com`, `""`, `*`, `*:80`, `[]:8080` are rejected, path and
parameters untouched. -/
example : outOf (exHosts.match exEnv [91,58,58,49,93,58,56,48] [47] []) = some (false, [47], []) := by decide
example : outOf (exHosts.match exEnv [101,120,97,109,112,108,101,46,99,111,109,58,120] [47] []) = some (false, [47], []) := by
  decide
example : outOf (exHosts.match exEnv [101,120,97,109,112,108,101,46,99,111,109] [47] []) = some (false, [47], []) := by decide
example : outOf (exHosts.match exEnv [] [47] []) = some (false, [47], []) := by decide
example : outOf (exHosts.match exEnv [42] [47] []) = some (false, [47], []) := by decide
example : outOf (exHosts.match exEnv [42,58,56,48] [47] [([97], [98])]) = some (false, [47], [([97], [98])]) := by decide
example : outOf (exHosts.match exEnv [91,93,58,56,48,56,48] [47] []) = some (false, [47], []) := by decide
/-- `api.example.com:80:` keeps `:80` after normalisation; `{sub}` then captures `api` and the suffix
`.example.com` is found, but the rest `:80` matches nothing: rejected. -/
example : outOf (exHosts.match exEnv (hApi ++ [58,56,48,58]) [47] []) = some (false, [47], []) := by decide
/-- A non-ASCII host is outside the model. -/
example : outOf (exHosts.match exEnv [195,169] [47] []) = none := by decide
/-- `C14_empty_star` applies to `[]:8080`. -/
example : exHosts.match exEnv [91,93,58,56,48,56,48] [47] [] = .reject [47] [] :=
  C14_empty_star exEnv exHosts exHosts_inv _ _ _ (by decide) (by decide)
/-- `C14_case_insensitive` / `C14_delete_absent` hypotheses. -/
example : toLower [65,80,73] = toLower [97,112,105] := by decide
example : exHosts.tree.root.findPath (toLower [88]) = none := by decide

end Mux.C14
