/-
  C04 (open part) — `C04_star`, I-count: the tree-wide method counters and the answer to `OPTIONS *`
  against the abstract table of the history (`Mux.Spec.Table`).  Same hypothesis as C03: every
  registered pattern of the history has balanced, non-nested braces (`C03.WfOps`).
-/
import Mux.Properties.C03
namespace Mux.C04
open Mux Mux.P11 Mux.C03

/-- `C04_star` (I-count): the tree-wide counter of a method is the number of live patterns that have
it (an absent counter counting as 0), and the root's `Methods()` — the answer to `OPTIONS *` — are
OPTIONS, TRACE iff configured, and exactly the methods registered on at least one live pattern;
on a brand-new tree (`ops = []`), after removals and after `Clean` alike. -/
theorem C04_star (name : Bytes) (ic : Interceptors) (nf : Handler) (tr : Option Handler) (ob nb : Base)
    (ops : List TOp) (hw : WfOps ops) :
    let t := (Tree.new name ic nf tr ob nb).run ops
    let tb := specRun (Tree.new name ic nf tr ob nb) ops
    (∀ m, (t.counts.get? m).getD 0 = Spec.count tb m) ∧
    (∀ m, m ∈ t.root.methods ↔ m = mOPTIONS ∨ (tr.isSome = true ∧ m = mTRACE) ∨ ∃ p, tb.has p m) := by
  intro t tb
  have h := sim_history name ic nf tr ob nb ops hw
  refine ⟨counts_eq h, fun m => ?_⟩
  rw [← hasTrace_history name ic nf tr ob nb ops]
  exact star_methods h m

theorem C04_star_inv {t : Tree} {tb : Spec.Table} (h : Sim t tb) (m : Bytes) :
    (t.counts.get? m).getD 0 = Spec.count tb m ∧
    (m ∈ t.root.methods ↔ m = mOPTIONS ∨ (t.hasTrace = true ∧ m = mTRACE) ∨ ∃ p, tb.has p m) :=
  ⟨counts_eq h m, star_methods h m⟩

/-! ## Non-vacuity -/

example : WfOps [.add (bytesOfString "/a") { base := .user 1 } [] [], .remove (bytesOfString "/a") [mGET],
    .clean (bytesOfString "/")] := by
  intro op hop
  simp only [List.mem_cons, List.not_mem_nil, or_false] at hop
  rcases hop with rfl | rfl | rfl <;> decide +kernel
/-- a brand-new tree: every counter is 0 and `OPTIONS *` answers OPTIONS (and TRACE when configured) -/
example (m : Bytes) : (specRun (Tree.new [114] [] { base := .notFound } none) []).has [47] m ↔ False := by
  simp [specRun, specRunFrom, Spec.Table.has]
/-- the hand-built tree and its table (`C03.exTree_sim`): the `GET` counter is the number of patterns
with `GET`, and the root's methods are OPTIONS plus the live method GET -/
example : (exTree.counts.get? mGET).getD 0 = 1 ∧ Spec.count exTable mGET = 1 := by decide +kernel
example : (exTree.counts.get? mGET).getD 0 = Spec.count exTable mGET := (C04_star_inv exTree_sim mGET).1
example : exTree.root.methods = [mGET, mOPTIONS] := by decide +kernel
example : mGET ∈ exTree.root.methods ↔
    mGET = mOPTIONS ∨ (exTree.hasTrace = true ∧ mGET = mTRACE) ∨ ∃ p, exTable.has p mGET :=
  (C04_star_inv exTree_sim mGET).2

end Mux.C04
