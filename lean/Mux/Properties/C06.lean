/-
  C06 — `WithLock(true)` makes concurrent registration, removal and serving safe.

  What is proved (DESIGN §8 "C06", §10):
  (a) side conditions over facts regenerated from the Go source on every run — every API method
      the property names is ONE critical section of the right mode with all shared accesses inside
      (`C06_discipline`, `C06_modes`, `C06_helpers`, `C06_mode_tie`);
  (b) generic theorems over the abstract interleaving semantics of `Mux.Proofs.RWLock` (any number
      of threads, any schedule) that turn (a) into race freedom (`C06_drf`) and atomicity
      (`C06_atomic`), stated for an arbitrary system and instantiated with the tree
      (`Conc.treeSys`: state `Mux.Tree`, writers `add/remove/clean` = `Tree.step`, readers
      `handler/routes/url` = the pure functions of the model).

  What is trusted and cannot be a theorem: `sync.RWMutex` implements the lock of the semantics;
  the Go memory model's DRF-SC guarantee takes a data-race-free program to "each critical section
  behaves as if executed atomically at one instant while the lock is held" (this is the `commit`
  step of the semantics); the extractor of the facts (validated by the `-race` stress harness).
-/
import Mux.Proofs.Conc
namespace Mux.C06
open Mux Mux.RWLock Mux.Conc

/-! ## (a) The regenerated-fact obligations -/

/-- Every API method the property names (and the helper behind `AllowHeader`/`Methods`) is
disciplined: all shared reads inside a critical section, all shared writes inside a WRITE section,
no nested acquisition, exactly one critical section per call. -/
theorem C06_discipline : ∀ f ∈ Ties.lockedApi, (Ties.shapeOf f).map Ties.Disciplined = some true :=
  Ties.C06_discipline

/-- Writers take the write lock, readers the read lock. -/
theorem C06_modes :
    (Ties.shapeOf "Tree.Add").bind Ties.firstAcq = some true ∧ (Ties.shapeOf "Tree.Remove").bind Ties.firstAcq = some true ∧
    (Ties.shapeOf "Tree.Clean").bind Ties.firstAcq = some true ∧ (Ties.shapeOf "Tree.Routes").bind Ties.firstAcq = some false ∧
    (Ties.shapeOf "Tree.URL").bind Ties.firstAcq = some false ∧ (Ties.shapeOf "Tree.Handler").bind Ties.firstAcq = some false :=
  Ties.C06_modes

/-- `AllowHeader`/`Methods` (called by handlers outside any lock) only delegate to the locked helper. -/
theorem C06_helpers : Ties.shapeOf "node.AllowHeader" = some [.read "node.methodIndexEntity"] ∧
    Ties.shapeOf "node.Methods" = some [.read "node.methodIndexEntity"] :=
  Ties.C06_helpers

/-- The model instance uses exactly these facts: the mode of every operation of `treeSys` is the
mode of the (single) acquisition in the regenerated shape of its Go method, the method is one of
those `C06_discipline` covers, and its micro-accesses are the reads/writes of that shape. -/
theorem C06_mode_tie (env : Env) (op : Op) :
    (Ties.shapeOf op.api).bind Ties.firstAcq = some ((treeSys env).mode op) ∧ op.api ∈ Ties.lockedApi ∧
    (treeSys env).accs op = accsOf op.api :=
  ⟨(mode_tie op).1, (mode_tie op).2, rfl⟩

/-- The reader constraint of the instance holds by construction: reader operations return the tree
they were given, and (by the facts) perform no shared write. -/
theorem C06_readers_pure (env : Env) (op : Op) (t : Tree) (h : op.isWriter = false) :
    (sem env op t).1 = t ∧ ∀ a ∈ accsOf op.api, a.2 = false :=
  ⟨(treeSys env).reader_pure op t h, (treeSys env).reader_accs op h⟩

example : (Op.handler [47] [] mGET).isWriter = false ∧ Op.routes.isWriter = false ∧ (Op.url [47] []).isWriter = false ∧
    (Op.add [47] { base := .user 1 } [] [mGET]).isWriter = true := by decide

/-! ## (b) Data-race freedom -/

/-- **Generic.** For every system, every assignment of programs to threads and every schedule: in
every reachable configuration the lock state describes exactly who is inside a critical section
(`LockInv`: `free` — nobody; `writer i` — thread `i` in write mode and nobody else; `readers n` —
exactly `n ≥ 1` threads, all in read mode); two distinct threads are inside at the same time only
if both are readers; and no two distinct threads have conflicting next micro-accesses (same
location, at least one write). -/
theorem C06_drf_generic (S : Sys) (s0 : S.σ) (progs : Nat → List S.Op) (c : Config S)
    (h : Reachable s0 progs c) :
    LockInv c ∧
    (∀ i j mi mj, i ≠ j → (c.thr i).ph.held = some mi → (c.thr j).ph.held = some mj → mi = false ∧ mj = false) ∧
    (∀ i j a b, i ≠ j → (c.thr i).ph.next? = some a → (c.thr j).ph.next? = some b → ¬ Conflict a b) :=
  ⟨lockInv_reachable h, fun _ _ _ _ hij hi hj => drf_modes h hij hi hj, fun _ _ _ _ hij hi hj => drf h hij hi hj⟩

/-- **Instance.** Any number of goroutines calling Add/Remove/Clean/Handler/Routes/URL on one tree
created with the lock, under any schedule: never two conflicting accesses to tree state. -/
theorem C06_drf (env : Env) (t0 : Tree) (progs : Nat → List Op) (c : Config (treeSys env))
    (h : Reachable (S := treeSys env) t0 progs c) :
    LockInv c ∧
    (∀ i j mi mj, i ≠ j → (c.thr i).ph.held = some mi → (c.thr j).ph.held = some mj → mi = false ∧ mj = false) ∧
    (∀ i j a b, i ≠ j → (c.thr i).ph.next? = some a → (c.thr j).ph.next? = some b →
      ¬ Conflict (S := treeSys env) a b) :=
  C06_drf_generic (treeSys env) t0 progs c h

/-- Non-vacuity of `C06_drf`: a writer (Add) and a reader (Handler); a reachable configuration where
the reader is inside, its next access is a read of the tree, the writer waits and its `acquire` is
not enabled. -/
example (env : Env) (t0 : Tree) : ∃ c : Config (treeSys env),
    Reachable (S := treeSys env) t0
      (fun i => if i = 0 then [Op.add [47] { base := .user 1 } [] [mGET]] else if i = 1 then [Op.handler [47] [] mGET] else []) c ∧
    (c.thr 1).ph.held = some false ∧ (c.thr 1).ph.next? = some ("Tree.node", false) ∧
    (∃ p v, c.thr 0 = ⟨p, .waiting v⟩ ∧ (treeSys env).mode v.op = true ∧ c.lock.canAcq ((treeSys env).mode v.op) = false) := by
  have h0 : Reachable (S := treeSys env) t0
      (fun i => if i = 0 then [Op.add [47] { base := .user 1 } [] [mGET]] else if i = 1 then [Op.handler [47] [] mGET] else []) _ := .init
  have h1 := h0.step (.invoke _ 1 (Op.handler [47] [] mGET) [] rfl)
  have h2 := h1.step (.acquire _ 1 [] ⟨Op.handler [47] [] mGET, 0, 0⟩ rfl rfl)
  have h3 := h2.step (.invoke _ 0 (Op.add [47] { base := .user 1 } [] [mGET]) [] rfl)
  exact ⟨_, h3, rfl, rfl, ⟨[], ⟨_, 0, 2⟩, rfl, rfl, rfl⟩⟩

/-! ## (b) Atomicity -/

/-- **Generic linearizability under the lock discipline.** In every reachable configuration `c`,
with `c.wlog` the writer operations in the order in which they took effect:

1. the shared state is the fold of `sem` over `c.wlog` from the initial state;
2. `c.wlog` IS the lock-acquisition order of the writers (`c.wacq`) and the list of COMPLETED writer
   operations in order of return (`c.doneW`), each up to the single writer currently inside; they
   coincide whenever the lock is not write-held; and the `k`-th completed writer is linearized at
   position `k`;
3. every completed operation `r` (published response `r.resp`) has a linearization index `r.lin`
   with `start ≤ lin ≤ fin ≤ |wlog|` — `start`/`fin` being the number of writer effects at its
   invocation / return — such that `r.resp` is the sequential response `(sem op s).2` in the state
   `s` after the first `lin` writers; a writer is itself the `lin`-th element of the order and
   `fin = lin + 1`; a reader has `fin = lin`: the state did not change while it was inside;
4. the order respects real time: if `A` returned before `B` was invoked then `A.lin ≤ B.lin`,
   strictly if `A` is a writer (so `B` sees `A`'s effect). -/
theorem C06_atomic_generic (S : Sys) (s0 : S.σ) (progs : Nat → List S.Op) (c : Config S)
    (h : Reachable s0 progs c) :
    c.st = run S s0 c.wlog ∧
    ((c.wacq = c.wlog ∨ ∃ op, c.wacq = c.wlog ++ [op]) ∧ (c.wlog = c.doneW ∨ ∃ op, c.wlog = c.doneW ++ [op]) ∧
      ((∀ i, c.lock ≠ .writer i) → c.wacq = c.wlog ∧ c.wlog = c.doneW) ∧
      (c.done.filter (fun r => S.mode r.call.op)).map (·.lin) = List.range c.doneW.length) ∧
    (∀ r ∈ c.done, r.call.start ≤ r.lin ∧ r.lin ≤ r.fin ∧ r.fin ≤ c.wlog.length ∧
      r.resp = (S.sem r.call.op (run S s0 (c.wlog.take r.lin))).2 ∧
      (S.mode r.call.op = true → c.wlog[r.lin]? = some r.call.op ∧ r.fin = r.lin + 1) ∧
      (S.mode r.call.op = false → r.fin = r.lin)) ∧
    (∀ A ∈ c.done, ∀ B ∈ c.done, A.tEnd ≤ B.call.tStart →
      A.lin ≤ B.lin ∧ (S.mode A.call.op = true → A.lin < B.lin)) := by
  have hA := atomic_reachable h
  refine ⟨hA.state, ⟨hA.writers.1, hA.writers.2.1, hA.writers.2.2, hA.lins⟩, fun r hr => ?_,
    fun A hA' B hB hle => hA.realtime hA' hB hle⟩
  have := hA.recs r hr
  exact ⟨this.start_le, this.lin_le, this.fin_le, this.resp_eq, this.writer, this.reader⟩

/-- **Instance.** The tree under the lock, any number of goroutines, any schedule. -/
theorem C06_atomic (env : Env) (t0 : Tree) (progs : Nat → List Op) (c : Config (treeSys env))
    (h : Reachable (S := treeSys env) t0 progs c) :
    c.st = run (treeSys env) t0 c.wlog ∧
    ((c.wacq = c.wlog ∨ ∃ op, c.wacq = c.wlog ++ [op]) ∧ (c.wlog = c.doneW ∨ ∃ op, c.wlog = c.doneW ++ [op]) ∧
      ((∀ i, c.lock ≠ .writer i) → c.wacq = c.wlog ∧ c.wlog = c.doneW) ∧
      (c.done.filter (fun r => r.call.op.isWriter)).map (·.lin) = List.range c.doneW.length) ∧
    (∀ r ∈ c.done, r.call.start ≤ r.lin ∧ r.lin ≤ r.fin ∧ r.fin ≤ c.wlog.length ∧
      r.resp = (sem env r.call.op (run (treeSys env) t0 (c.wlog.take r.lin))).2 ∧
      (r.call.op.isWriter = true → c.wlog[r.lin]? = some r.call.op ∧ r.fin = r.lin + 1) ∧
      (r.call.op.isWriter = false → r.fin = r.lin)) ∧
    (∀ A ∈ c.done, ∀ B ∈ c.done, A.tEnd ≤ B.call.tStart →
      A.lin ≤ B.lin ∧ (A.call.op.isWriter = true → A.lin < B.lin)) :=
  C06_atomic_generic (treeSys env) t0 progs c h

/-- **Every state of the linearization order is a sequentially reachable tree**: the state after any
prefix of the writer order — in particular the current state, and the state every completed
operation was answered in — is `t0.run` of those writer operations as history operations. Hence
every invariant of reachable trees (with `t0 = Tree.new …`: the no-fault theorem of C05, the
well-formedness invariants) applies at every linearization point. -/
theorem C06_no_fault (env : Env) (t0 : Tree) (progs : Nat → List Op) (c : Config (treeSys env))
    (h : Reachable (S := treeSys env) t0 progs c) :
    c.st = t0.run (c.wlog.filterMap Op.toTOp?) ∧
    (∀ k, run (treeSys env) t0 (c.wlog.take k) = t0.run ((c.wlog.take k).filterMap Op.toTOp?)) ∧
    (∀ r ∈ c.done, r.resp = (sem env r.call.op (t0.run ((c.wlog.take r.lin).filterMap Op.toTOp?))).2) := by
  have hA := C06_atomic env t0 progs c h
  refine ⟨by rw [hA.1, run_eq], fun k => run_eq env t0 _, fun r hr => ?_⟩
  rw [← run_eq]
  exact (hA.2.2.1 r hr).2.2.2.1

/-- In particular for a tree made by `tree.New`. -/
example (env : Env) (name : Bytes) (ic : Interceptors) (nf : Handler) (tr : Option Handler)
    (progs : Nat → List Op) (c : Config (treeSys env))
    (h : Reachable (S := treeSys env) (Tree.new name ic nf tr) progs c) :
    c.st = (Tree.new name ic nf tr).run (c.wlog.filterMap Op.toTOp?) :=
  (C06_no_fault env _ progs c h).1

/-- **Responses of requests.** Every completed `Handler` call (the tree walk of `ServeHTTP`) returned
`Tree.handler env` of ONE state of the linearization order, namely the tree after the first `lin`
writer operations, where `lin` lies between the number of writer effects at the request's start and
at its end; likewise `Routes` and `URL`. So a route that is being toggled yields what one of the
sequential states yields. That routes which are never touched are answered identically in all
those states (own handler, own parameters) is the sequential frame theorem of C03
(`C03_frame`/`C03_witness`, proved there), applied to `t0.run …` at each of these states. -/
theorem C06_untouched_frame (env : Env) (t0 : Tree) (progs : Nat → List Op) (c : Config (treeSys env))
    (h : Reachable (S := treeSys env) t0 progs c) (r : RWLock.Rec (treeSys env)) (hr : r ∈ c.done) :
    r.call.start ≤ r.lin ∧ r.lin ≤ r.fin ∧ r.fin ≤ c.wlog.length ∧
    (∀ path ps method, r.call.op = Op.handler path ps method →
      r.resp = Resp.handler ((t0.run ((c.wlog.take r.lin).filterMap Op.toTOp?)).handler env path ps method)) ∧
    (r.call.op = Op.routes → r.resp = Resp.routes (t0.run ((c.wlog.take r.lin).filterMap Op.toTOp?)).routes) ∧
    (∀ pattern ps, r.call.op = Op.url pattern ps →
      r.resp = Resp.url ((t0.run ((c.wlog.take r.lin).filterMap Op.toTOp?)).url env pattern ps)) := by
  have hA := (C06_atomic env t0 progs c h).2.2.1 r hr
  have hR := (C06_no_fault env t0 progs c h).2.2 r hr
  refine ⟨hA.1, hA.2.1, hA.2.2.1, ?_, ?_, ?_⟩
  · intro path ps method ho; rw [hR, ho]; rfl
  · intro ho; rw [hR, ho]; rfl
  · intro pattern ps ho; rw [hR, ho]; rfl

end Mux.C06
