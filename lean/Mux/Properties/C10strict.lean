/-
  C10 (strict mode, re-segmentation, inverse) — reverse URL building on reachable trees.

  * `C10_toks_*`, `C10_reseg*` : URL building depends only on the token stream of a segment list, and the chain of
    tree segments of a node spells the same token stream as `Split` of the node's pattern (under any interceptors),
    however the literal text is cut into segments.
  * `C10_strict*` : `Tree.URL` succeeds iff the pattern is a live route and every parameter of the route has a value
    that passes `Segment.Valid` (named / interceptor / regexp alike, also for empty params); the result is the
    substitution; every error is characterised; lifted to `Router.URL` and the façades.
  * `C10_inverse*` : building a dispatched route's pattern from the captured parameters reproduces the request path.

  `ReachWf t`: `t` is the tree of a history of Handle/Remove/Clean/Use whose registered patterns have balanced,
  non-nested `{…}` tokens (the hypothesis of C01/C03/C17).
-/
import Mux.Proofs.UrlTree
import Mux.Proofs.UrlExamples
import Mux.Proofs.MatchCap
import Mux.Proofs.UrlLive
import Mux.Properties.C01d
import Mux.Properties.C10
namespace Mux.C10
open Mux Mux.P9 Mux.P13

/-! ## Part 1 — token streams and re-segmentation -/

/-- (i) The non-strict loop is a function of the token stream (`toks`: merged literal text | parameter name
and `-` flag) of the segment list. -/
theorem C10_toks_urlLoop (ps : AMap Bytes) (segs : List Seg) : urlLoop ps segs = urlToks ps (toks segs) :=
  urlLoop_eq_urlToks ps segs

/-- Segment lists with the same token stream build the same URL (or fail alike), for every parameter map. -/
theorem C10_toks_congr (ps : AMap Bytes) (a b : List Seg) (h : SameToks a b) : urlLoop ps a = urlLoop ps b :=
  urlLoop_congr_toks ps h

/-- (i, strict) The strict loop is the non-strict loop guarded by the validity checks on the parameter
segments: it succeeds iff every parameter segment has a value that passes `Segment.Valid`, and then returns
what the non-strict loop returns. -/
theorem C10_toks_strict (env : Env) (ic : Interceptors) (ps : AMap Bytes) (segs : List Seg) (u : Bytes) :
    strictUrlLoop env ic ps segs = .ok u ↔
      (∀ s ∈ segs, s.kind ≠ .str → ∃ v, ps.get? s.name = some v ∧ s.valid env ic v = some true) ∧
      urlLoop ps segs = .ok u :=
  strictUrlLoop_ok_iff env ic ps segs u

/-- (ii) **Re-segmentation**, general form: segments that each re-parse from their own well-formed text under
`ic` have the token stream of `Split` (under ANY interceptors `ic'`) of their concatenated text. -/
theorem C10_reseg_segs (ic ic' : Interceptors) (cs segs' : List Seg) (hok : ∀ s ∈ cs, SegOk ic s)
    (h : split ic' (cs.map (·.value)).flatten = .ok segs') : SameToks segs' cs :=
  toks_split_chain hok h

/-- (ii) **Re-segmentation on reachable trees**: the chain of tree segments from the root to a node and `Split`
of the node's pattern (with the tree's interceptors, or with none as `mux.URL` does) have the same token stream:
every parameter once, with the same name and flag, the same literal text in between. -/
theorem C10_reseg (t : Tree) (hr : ReachWf t) (n : Node) (segs : List Seg) (hc : Chain t.root segs n)
    (ic' : Interceptors) (segs' : List Seg) (h : split ic' n.pattern = .ok segs') : SameToks segs' segs := by
  rw [reach_chain_pattern hr hc] at h
  exact toks_split_chain (reach_chain_segOk hr hc) h

/-- Hence `Interceptors.URL` of the node's pattern is the loop over the node's chain. -/
theorem C10_reseg_url (t : Tree) (hr : ReachWf t) (n : Node) (segs : List Seg) (hc : Chain t.root segs n)
    (ic' : Interceptors) (segs' : List Seg) (h : split ic' n.pattern = .ok segs') (ps : AMap Bytes) :
    ic'.url n.pattern ps = urlLoop ps segs := by
  rw [reach_chain_pattern hr hc] at h ⊢
  exact url_of_chain (reach_chain_segOk hr hc) h ps

/-- The chain from the root to a node of a reachable tree is unique. -/
theorem C10_chain_unique (t : Tree) (hr : ReachWf t) (n : Node) (a b : List Seg) (ha : Chain t.root a n)
    (hb : Chain t.root b n) : a = b :=
  chain_unique ha hb (reach_uniqHyp hr)

/-- The hypothesis `ReachWf` of this file and the hypothesis of C03 (`WfOps`: every registered pattern has balanced,
non-nested braces) describe the same trees; so the invariants of C01/C17 (`WellFormedTree`) and of C03/C04 (`Sim`) are
available together. -/
theorem C10_reachWf_iff_history (t : Tree) :
    ReachWf t ↔ ∃ name ic nf tr ob nb ops, (∀ op ∈ ops, op.wf = true) ∧ t = (Tree.new name ic nf tr ob nb).run ops :=
  ⟨reachWf_history, fun ⟨name, ic, nf, tr, ob, nb, ops, hw, e⟩ => e ▸ reachWf_of_history name ic nf tr ob nb ops hw⟩

/-- The two formalisations of a well-formed pattern text coincide. -/
theorem C10_wfPattern_iff (p : Bytes) : Mux.WfPattern p = true ↔ Mux.P9.WfPattern p := wfPattern_iff p

/-! ## Part 2 — strict mode -/

/-- **C10_strict.** On a reachable tree `Tree.URL(pattern, ps)` succeeds with `u` iff
(a) `pattern` is a live route: some node below the root has this pattern and has handlers,
(b) every parameter segment on that node's chain has a value in `ps` that passes `Segment.Valid`
    (whatever its kind, and whether or not `ps` is empty), and
(c) `u` is what the substitution loop writes for the chain. -/
theorem C10_strict (env : Env) (t : Tree) (hr : ReachWf t) (pattern : Bytes) (ps : AMap Bytes) (u : Bytes) :
    t.url env pattern ps = .ok u ↔
      ∃ n segs, n ∈ nodesL t.root.children ∧ n.pattern = pattern ∧ n.handlers ≠ [] ∧ Chain t.root segs n ∧
        (∀ s ∈ segs, s.kind ≠ .str → ∃ v, ps.get? s.name = some v ∧ s.valid env t.ic v = some true) ∧
        urlLoop ps segs = .ok u :=
  Tree.url_ok_iff_reach hr env pattern ps u

/-- (a) in table form: a successful strict build names an entry of the table read off the tree … -/
theorem C10_strict_live (env : Env) (t : Tree) (hr : ReachWf t) (pattern : Bytes) (ps : AMap Bytes) (u : Bytes)
    (h : t.url env pattern ps = .ok u) : pattern ∈ (tableOf t).patterns := by
  obtain ⟨n, _, hn, hp, hh, _⟩ := (C10_strict env t hr pattern ps u).1 h
  exact mem_tableOf_patterns.2 ⟨n, hn, hp, hh⟩

/-- … i.e. (with `C03_table`) a live pattern of the abstract table of the history. -/
theorem C10_strict_table (name : Bytes) (ic : Interceptors) (nf : Handler) (tr : Option Handler) (ob nb : Base)
    (ops : List TOp) (hw : ∀ op ∈ ops, op.wf = true) (env : Env) (pattern : Bytes) (ps : AMap Bytes) (u : Bytes) :
    ((Tree.new name ic nf tr ob nb).run ops).url env pattern ps = .ok u →
      pattern ∈ (specRun (Tree.new name ic nf tr ob nb) ops).patterns := by
  intro h
  have hs := Mux.P11.sim_history name ic nf tr ob nb ops hw
  have hl := C10_strict_live env _ (reachWf_of_history name ic nf tr ob nb ops hw) pattern ps u h
  exact ((Mux.P11.tables_agree (Mux.P11.tableOf_ok hs.inv).1 hs.ok hs.has).1 pattern).1 hl

/-- (c) in closed form (with `C10_subst`): `u` is the chain's literal texts with every parameter replaced by its
value followed by the parameter's suffix. -/
theorem C10_strict_subst (env : Env) (t : Tree) (hr : ReachWf t) (pattern : Bytes) (ps : AMap Bytes) (u : Bytes)
    (h : t.url env pattern ps = .ok u) :
    ∃ n segs, n.pattern = pattern ∧ Chain t.root segs n ∧ pattern = (segs.map (·.value)).flatten ∧
      u = (segs.map (fun s => if s.kind = .str then s.value else (ps.get? s.name).getD [] ++ s.suffix)).flatten := by
  obtain ⟨n, segs, _, hp, _, hc, _, hu⟩ := (C10_strict env t hr pattern ps u).1 h
  exact ⟨n, segs, hp, hc, hp ▸ reach_chain_pattern hr hc, ((C10_subst ps segs u).1 hu).2⟩

/-- (c) and part 1: a strict build agrees with the non-strict build of the same pattern, whenever the latter's
segmentation exists (under the interceptors `ic'` it is done with; `mux.URL` uses none). -/
theorem C10_strict_eq_url (env : Env) (t : Tree) (hr : ReachWf t) (pattern : Bytes) (ps : AMap Bytes) (u : Bytes)
    (h : t.url env pattern ps = .ok u) (ic' : Interceptors) (segs' : List Seg) (hs : split ic' pattern = .ok segs') :
    ic'.url pattern ps = .ok u := by
  obtain ⟨n, segs, _, hp, _, hc, _, hu⟩ := (C10_strict env t hr pattern ps u).1 h
  subst hp
  rw [C10_reseg_url t hr n segs hc ic' segs' hs ps, hu]

theorem C10_strict_eq_nonStrict (env : Env) (t : Tree) (hr : ReachWf t) (pattern : Bytes) (ps : AMap Bytes) (u : Bytes)
    (h : t.url env pattern ps = .ok u) (segs' : List Seg) (hs : split [] pattern = .ok segs') :
    urlNonStrict pattern ps = .ok u :=
  C10_strict_eq_url env t hr pattern ps u h [] segs' hs

/-- With the tree's own interceptors no hypothesis is needed: a live route's pattern was accepted by `Split` when it
was registered.  So a strict build IS `Interceptors.URL` (of the router's interceptors) on the pattern. -/
theorem C10_strict_eq_icUrl (env : Env) (t : Tree) (hr : ReachWf t) (pattern : Bytes) (ps : AMap Bytes) (u : Bytes)
    (h : t.url env pattern ps = .ok u) : t.ic.url pattern ps = .ok u := by
  obtain ⟨n, _, hn, hp, hh, _⟩ := (C10_strict env t hr pattern ps u).1 h
  obtain ⟨segs', hs⟩ := reach_live_split hr hn hh
  exact C10_strict_eq_url env t hr pattern ps u h t.ic segs' (hp ▸ hs)

/-- In particular on a router without interceptors strict and non-strict building agree on live routes. -/
theorem C10_strict_eq_nonStrict_noIc (env : Env) (t : Tree) (hr : ReachWf t) (hic : t.ic = []) (pattern : Bytes)
    (ps : AMap Bytes) (u : Bytes) (h : t.url env pattern ps = .ok u) : urlNonStrict pattern ps = .ok u := by
  have := C10_strict_eq_icUrl env t hr pattern ps u h
  rwa [hic] at this

/-- (b) per kind: what "passes `Segment.Valid`" means.  Named: nothing.  Interceptor: the interceptor function
accepts the value.  Regexp: the rule denotes the WHOLE value (`C10_valid_rx`), more precisely dispatch would capture
exactly this value in front of the suffix (`C10_valid_rx_iff_match`). -/
theorem C10_strict_values (env : Env) (t : Tree) (hr : ReachWf t) (pattern : Bytes) (ps : AMap Bytes) (u : Bytes)
    (h : t.url env pattern ps = .ok u) :
    ∃ n segs, n.pattern = pattern ∧ Chain t.root segs n ∧
      ∀ s ∈ segs, s.kind ≠ .str → ∃ v, ps.get? s.name = some v ∧
        (s.kind = .icpt → s.accepts env t.ic v = true) ∧
        (s.kind = .rx → Re.Denotes s.re v ∧ s.match env t.ic (v ++ s.suffix) = .yes v []) := by
  obtain ⟨n, segs, _, hp, _, hc, hv, _⟩ := (C10_strict env t hr pattern ps u).1 h
  refine ⟨n, segs, hp, hc, fun s hs hk => ?_⟩
  obtain ⟨v, hg, hval⟩ := hv s hs hk
  refine ⟨v, hg, fun hi => ?_, fun hx => ⟨C10_valid_rx env t.ic s v hx hval, (C10_valid_rx_iff_match env t.ic s v hx).1 hval⟩⟩
  rw [C10_valid_icpt env t.ic s v hi] at hval
  simpa using hval

/-- Also when `ps` is empty: strict mode then succeeds only for live routes without any parameter, and returns
the pattern itself. -/
theorem C10_strict_empty_params (env : Env) (t : Tree) (hr : ReachWf t) (pattern : Bytes) (u : Bytes) :
    t.url env pattern [] = .ok u ↔
      u = pattern ∧ ∃ n segs, n ∈ nodesL t.root.children ∧ n.pattern = pattern ∧ n.handlers ≠ [] ∧
        Chain t.root segs n ∧ ∀ s ∈ segs, s.kind = .str := by
  rw [C10_strict env t hr]
  constructor
  · rintro ⟨n, segs, h1, h2, h3, h4, h5, h6⟩
    have hstr : ∀ s ∈ segs, s.kind = .str := by
      intro s hs
      apply Classical.not_not.1
      intro hk
      obtain ⟨v, hv, _⟩ := h5 s hs hk
      simp [AMap.get?] at hv
    rw [C10_subst_literal [] segs hstr] at h6
    cases h6
    exact ⟨by rw [← h2, reach_chain_pattern hr h4], n, segs, h1, h2, h3, h4, hstr⟩
  · rintro ⟨rfl, n, segs, h1, h2, h3, h4, hstr⟩
    refine ⟨n, segs, h1, h2, h3, h4, fun s hs hk => absurd (hstr s hs) hk, ?_⟩
    rw [C10_subst_literal [] segs hstr, ← h2, reach_chain_pattern hr h4]

/-- **Errors (1).** `notRoute` iff the pattern is not a live route (not an entry of the table read off the tree:
`find` fails, or finds a node without handlers) — whatever the parameters. -/
theorem C10_strict_notRoute (env : Env) (t : Tree) (hr : ReachWf t) (pattern : Bytes) (ps : AMap Bytes) :
    t.url env pattern ps = .error .notRoute ↔ pattern ∉ (tableOf t).patterns :=
  Tree.url_notRoute_iff_reach hr env pattern ps

/-- The same in terms of `find`, on any tree. -/
theorem C10_strict_notRoute_find (env : Env) (t : Tree) (pattern : Bytes) (ps : AMap Bytes) :
    t.url env pattern ps = .error .notRoute ↔
      (t.root.findPath pattern = none ∨
        ∃ p n, t.root.findPath pattern = some p ∧ t.root.getAt p = some n ∧ n.handlers = []) := by
  rw [Tree.url_error_iff]
  constructor
  · rintro (⟨_, h⟩ | ⟨_, _, _, _, _, _, _, _, _, _, _, _, _, _, hbad⟩)
    · exact h
    · rcases hbad with ⟨_, h⟩ | ⟨_, _, ⟨_, h⟩ | ⟨_, h⟩⟩ <;> cases h
  · intro h; exact .inl ⟨rfl, h⟩

/-- … and in terms of the abstract table of the history (`C03_table`). -/
theorem C10_strict_notRoute_table (name : Bytes) (ic : Interceptors) (nf : Handler) (tr : Option Handler) (ob nb : Base)
    (ops : List TOp) (hw : ∀ op ∈ ops, op.wf = true) (env : Env) (pattern : Bytes) (ps : AMap Bytes) :
    ((Tree.new name ic nf tr ob nb).run ops).url env pattern ps = .error .notRoute ↔
      pattern ∉ (specRun (Tree.new name ic nf tr ob nb) ops).patterns := by
  have hs := Mux.P11.sim_history name ic nf tr ob nb ops hw
  rw [C10_strict_notRoute env _ (reachWf_of_history name ic nf tr ob nb ops hw),
    (Mux.P11.tables_agree (Mux.P11.tableOf_ok hs.inv).1 hs.ok hs.has).1 pattern]

/-- **Errors (2).** Any other error `e`: the pattern is a live route, and on its chain the FIRST parameter segment
without a valid value is: without a value at all (`e = missingParam`), with a value that `Valid` rejects
(`e = badValue`), or with a value `Valid` cannot judge (`e = unsupported`). -/
theorem C10_strict_error (env : Env) (t : Tree) (hr : ReachWf t) (pattern : Bytes) (ps : AMap Bytes) (e : Err)
    (hne : e ≠ .notRoute) :
    t.url env pattern ps = .error e ↔
      ∃ n segs, n ∈ nodesL t.root.children ∧ n.pattern = pattern ∧ n.handlers ≠ [] ∧ Chain t.root segs n ∧
        ∃ pre s post, segs = pre ++ s :: post ∧
          (∀ x ∈ pre, x.kind ≠ .str → ∃ v, ps.get? x.name = some v ∧ x.valid env t.ic v = some true) ∧
          s.kind ≠ .str ∧
          ((ps.get? s.name = none ∧ e = .missingParam) ∨
           ∃ v, ps.get? s.name = some v ∧
             ((s.valid env t.ic v = some false ∧ e = .badValue) ∨ (s.valid env t.ic v = none ∧ e = .unsupported))) :=
  Tree.url_error_iff_reach hr env pattern ps e hne

/-- **Errors (3).** There is no other error (in particular no fault). -/
theorem C10_strict_errors (env : Env) (t : Tree) (pattern : Bytes) (ps : AMap Bytes) (e : Err)
    (h : t.url env pattern ps = .error e) :
    e = .notRoute ∨ e = .missingParam ∨ e = .badValue ∨ e = .unsupported :=
  Tree.url_errors env t pattern ps e h

/-- **Errors (4).** `unsupported` arises only from a regexp segment whose rule has a wide class (`.` or a negated
class) and a non-ASCII value — the inputs on which Go's rune-wise matching is outside the model. -/
theorem C10_strict_unsupported (env : Env) (t : Tree) (hr : ReachWf t) (pattern : Bytes) (ps : AMap Bytes)
    (h : t.url env pattern ps = .error .unsupported) :
    ∃ n segs s v, n.pattern = pattern ∧ Chain t.root segs n ∧ s ∈ segs ∧ ps.get? s.name = some v ∧
      s.kind = .rx ∧ s.re.wide = true ∧ isAscii v = false := by
  obtain ⟨n, segs, _, hp, _, hc, pre, s, post, hsegs, _, _, hbad⟩ :=
    (C10_strict_error env t hr pattern ps .unsupported (by simp)).1 h
  have hs : s ∈ segs := by rw [hsegs]; simp
  rcases hbad with ⟨_, h⟩ | ⟨v, hv, ⟨_, h⟩ | ⟨hval, _⟩⟩
  · cases h
  · cases h
  · obtain ⟨h1, h2, h3⟩ := (valid_none_iff_segOk (reach_chain_segOk hr hc s hs) v).1 hval
    exact ⟨n, segs, s, v, hp, hc, hs, hv, h1, h2, h3⟩

/-- **`Router.URL` in strict mode**: the URL domain followed by `Tree.URL`; the empty pattern is not looked up
(it yields the bare domain). -/
theorem C10_strict_router (env : Env) (r : Router) (pattern : Bytes) (ps : AMap Bytes) (u : Bytes) :
    r.url env true pattern ps = .ok u ↔
      (pattern = [] ∧ u = r.urlDomain) ∨
      (pattern ≠ [] ∧ ∃ u', r.tree.url env pattern ps = .ok u' ∧ u = r.urlDomain ++ u') :=
  Router.url_strict_ok_iff env r pattern ps u

theorem C10_strict_router_error (env : Env) (r : Router) (pattern : Bytes) (ps : AMap Bytes) (e : Err) :
    r.url env true pattern ps = .error e ↔ pattern ≠ [] ∧ r.tree.url env pattern ps = .error e :=
  Router.url_strict_error_iff env r pattern ps e

/-- `Router.URL(strict)` on a router whose tree is reachable, spelled out. -/
theorem C10_strict_router_reach (env : Env) (r : Router) (hr : ReachWf r.tree) (pattern : Bytes) (hp : pattern ≠ [])
    (ps : AMap Bytes) (u : Bytes) :
    r.url env true pattern ps = .ok u ↔
      ∃ n segs u', n ∈ nodesL r.tree.root.children ∧ n.pattern = pattern ∧ n.handlers ≠ [] ∧
        Chain r.tree.root segs n ∧
        (∀ s ∈ segs, s.kind ≠ .str → ∃ v, ps.get? s.name = some v ∧ s.valid env r.tree.ic v = some true) ∧
        urlLoop ps segs = .ok u' ∧ u = r.urlDomain ++ u' := by
  rw [C10_strict_router]
  simp only [hp, false_and, false_or, ne_eq, not_false_eq_true, true_and]
  constructor
  · rintro ⟨u', h, rfl⟩
    obtain ⟨n, segs, h1, h2, h3, h4, h5, h6⟩ := (C10_strict env r.tree hr pattern ps u').1 h
    exact ⟨n, segs, u', h1, h2, h3, h4, h5, h6, rfl⟩
  · rintro ⟨n, segs, u', h1, h2, h3, h4, h5, h6, rfl⟩
    exact ⟨u', (C10_strict env r.tree hr pattern ps u').2 ⟨n, segs, h1, h2, h3, h4, h5, h6⟩, rfl⟩

/-- Non-strict `Router.URL` is `mux.URL` behind the URL domain (C10_subst* describe `mux.URL`). -/
theorem C10_router_nonStrict (env : Env) (r : Router) (pattern : Bytes) (ps : AMap Bytes) :
    r.url env false pattern ps =
      match muxURL pattern ps with
      | .ok u => .ok (r.urlDomain ++ u)
      | .error e => .error e :=
  Router.url_nonstrict_eq env r pattern ps

/-- `Prefix.URL` / `Resource.URL`: `Router.URL` of the façade's pattern followed by the argument. -/
theorem C10_strict_facade (env : Env) (p : Facade) (r : Router) (strict : Bool) (pattern : Bytes) (ps : AMap Bytes) :
    p.url env r strict pattern ps = r.url env strict (p.pattern ++ pattern) ps := rfl

/-! ## Part 3 — URL building inverts matching -/

/-- **C10_inverse.** A request (not `""`, `*`, nor a TRACE short-circuit) dispatched by a reachable tree to a node
`n` whose chain has no ignored (`-`) parameter: the substitution loop over the node's chain, fed with the
parameters dispatch reported, writes exactly the request path. -/
theorem C10_inverse (env : Env) (t : Tree) (hr : ReachWf t) (path method : Bytes) (f : Found) (n : Node)
    (hp : path ≠ []) (hs : path ≠ [42]) (htr : t.trace = none ∨ method ≠ mTRACE)
    (h : t.handler env path [] method = .res f) (hf : f.node = some n)
    (segs : List Seg) (hc : Chain t.root segs n) (hign : ∀ s ∈ segs, s.kind ≠ .str → s.ignoreName = false) :
    urlLoop f.params segs = .ok path := by
  obtain ⟨chain, _, c2, c3, _, c5, _, _, _⟩ := C01.C01_dispatch_sound env t hr path method f n hp hs htr h hf
  have := C10_chain_unique t hr n _ _ c2 hc
  subst this
  rw [c5, c3]
  exact urlLoop_captures' chain (reach_chainOk hr c2 hign)

/-- Hence the non-strict build of the node's pattern (`Interceptors.URL` under any interceptors that can segment
the pattern; `mux.URL` / non-strict `Router.URL` use none) reproduces the request path. -/
theorem C10_inverse_url (env : Env) (t : Tree) (hr : ReachWf t) (path method : Bytes) (f : Found) (n : Node)
    (hp : path ≠ []) (hs : path ≠ [42]) (htr : t.trace = none ∨ method ≠ mTRACE)
    (h : t.handler env path [] method = .res f) (hf : f.node = some n)
    (segs : List Seg) (hc : Chain t.root segs n) (hign : ∀ s ∈ segs, s.kind ≠ .str → s.ignoreName = false)
    (ic' : Interceptors) (segs' : List Seg) (hsp : split ic' n.pattern = .ok segs') :
    ic'.url n.pattern f.params = .ok path := by
  rw [C10_reseg_url t hr n segs hc ic' segs' hsp]
  exact C10_inverse env t hr path method f n hp hs htr h hf segs hc hign

theorem C10_inverse_nonStrict (env : Env) (t : Tree) (hr : ReachWf t) (path method : Bytes) (f : Found) (n : Node)
    (hp : path ≠ []) (hs : path ≠ [42]) (htr : t.trace = none ∨ method ≠ mTRACE)
    (h : t.handler env path [] method = .res f) (hf : f.node = some n)
    (segs : List Seg) (hc : Chain t.root segs n) (hign : ∀ s ∈ segs, s.kind ≠ .str → s.ignoreName = false)
    (segs' : List Seg) (hsp : split [] n.pattern = .ok segs') :
    urlNonStrict n.pattern f.params = .ok path :=
  C10_inverse_url env t hr path method f n hp hs htr h hf segs hc hign [] segs' hsp

/-- With the tree's own interceptors, unconditionally. -/
theorem C10_inverse_icUrl (env : Env) (t : Tree) (hr : ReachWf t) (path method : Bytes) (f : Found) (n : Node)
    (hp : path ≠ []) (hs : path ≠ [42]) (htr : t.trace = none ∨ method ≠ mTRACE)
    (h : t.handler env path [] method = .res f) (hf : f.node = some n)
    (segs : List Seg) (hc : Chain t.root segs n) (hign : ∀ s ∈ segs, s.kind ≠ .str → s.ignoreName = false) :
    t.ic.url n.pattern f.params = .ok path := by
  obtain ⟨chain, c1, c2, _, _, _, c6, _, _⟩ := C01.C01_dispatch_sound env t hr path method f n hp hs htr h hf
  obtain ⟨segs', hsp⟩ := reach_live_split hr (chain_mem_below' c2 (by simpa using c1)) c6
  exact C10_inverse_url env t hr path method f n hp hs htr h hf segs hc hign t.ic segs' hsp

/-- **Dispatch ⇒ `Valid`** (segment level): a value captured by `Segment.Match` — on any path — passes
`Segment.Valid`, for named, interceptor and regexp segments alike.  For regexp segments this is the direction
`Match (v ++ suffix ++ rest) = yes v rest  ⇒  Match (v ++ suffix) = yes v []  ⇔  Valid v`
(`C10_valid_rx_iff_match`): the leftmost-first match is stable under cutting off the rest of the path.
The other reading of "satisfies the constraint" — the rule merely DENOTES the value — does not imply `Valid`
(`C10_valid_rx_converse_counterexample`). -/
theorem C10_valid_of_match (env : Env) (ic : Interceptors) (s : Seg) (path v rest : Bytes)
    (h : s.match env ic path = .yes v rest) : s.valid env ic v = some true :=
  valid_of_capOk ⟨path, rest, h⟩

/-- The regexp core of it. -/
theorem C10_rxMatch_stable (re : Re) (suffix v rest : Bytes)
    (h : rxMatch re suffix (v ++ suffix ++ rest) = some (v, rest)) : rxMatch re suffix (v ++ suffix) = some (v, []) :=
  rxMatch_stable re suffix v rest h

/-- Dispatch soundness with provenance: the chain of `C01_dispatch_sound`, where moreover every value is one
that `Segment.Match` of its segment captured. -/
theorem C10_dispatch_captured (env : Env) (t : Tree) (hr : ReachWf t) (path method : Bytes) (f : Found) (n : Node)
    (hp : path ≠ []) (hs : path ≠ [42]) (htr : t.trace = none ∨ method ≠ mTRACE)
    (h : t.handler env path [] method = .res f) (hf : f.node = some n) :
    ∃ chain : List (Seg × Bytes),
      chain ≠ [] ∧ Chain t.root (chain.map (·.1)) n ∧ path = instChain chain ∧
      (∀ sv ∈ chain, sv.1.Satisfies env t.ic sv.2 ∧ ∃ p rest, sv.1.match env t.ic p = .yes sv.2 rest) ∧
      f.params = captures chain ∧ n.handlers ≠ [] := by
  have := handler_found2 (ps := []) ⟨reach_namesOk hr, C01.C01_idxLit_reach t hr.reach⟩ hp hs htr h hf
  simpa [CapOk] using this

/-- Every parameter segment of the dispatched node's chain finds its own value in the reported parameters, and
that value passes `Segment.Valid` (whatever the kind of the segment). -/
theorem C10_inverse_values (env : Env) (t : Tree) (hr : ReachWf t) (path method : Bytes) (f : Found) (n : Node)
    (hp : path ≠ []) (hs : path ≠ [42]) (htr : t.trace = none ∨ method ≠ mTRACE)
    (h : t.handler env path [] method = .res f) (hf : f.node = some n)
    (segs : List Seg) (hc : Chain t.root segs n) (hign : ∀ s ∈ segs, s.kind ≠ .str → s.ignoreName = false) :
    ∀ s ∈ segs, s.kind ≠ .str → ∃ v, f.params.get? s.name = some v ∧ s.Satisfies env t.ic v ∧
      s.valid env t.ic v = some true := by
  obtain ⟨chain, _, c2, _, c4, c5, _⟩ := C10_dispatch_captured env t hr path method f n hp hs htr h hf
  have := C10_chain_unique t hr n _ _ c2 hc
  subst this
  intro s hs' hk
  obtain ⟨sv, hsv, rfl⟩ := List.mem_map.1 hs'
  have hg := captures_get? chain (reach_chainOk hr c2 hign) [] (by simp [AMap.keys]) sv hsv hk
  simp only [List.nil_append] at hg
  exact ⟨sv.2, c5 ▸ hg, (c4 sv hsv).1, valid_of_capOk (c4 sv hsv).2⟩

/-- **C10_inverse, strict mode.** `Tree.URL` of the dispatched node's pattern with the reported parameters
succeeds and reproduces the request path. -/
theorem C10_inverse_strict (env : Env) (t : Tree) (hr : ReachWf t) (path method : Bytes) (f : Found) (n : Node)
    (hp : path ≠ []) (hs : path ≠ [42]) (htr : t.trace = none ∨ method ≠ mTRACE)
    (h : t.handler env path [] method = .res f) (hf : f.node = some n)
    (segs : List Seg) (hc : Chain t.root segs n) (hign : ∀ s ∈ segs, s.kind ≠ .str → s.ignoreName = false) :
    t.url env n.pattern f.params = .ok path := by
  obtain ⟨chain, c1, c2, c3, c4, c5, c6⟩ := C10_dispatch_captured env t hr path method f n hp hs htr h hf
  have := C10_chain_unique t hr n _ _ c2 hc
  subst this
  rw [c5, c3]
  exact reach_url_captures hr env c1 c2 c6 hign (fun sv hsv => (c4 sv hsv).1)
    (fun sv hsv _ => valid_of_capOk (c4 sv hsv).2)

/-- Through `Router.URL` (strict): the URL domain followed by the request path. -/
theorem C10_inverse_router (env : Env) (r : Router) (hr : ReachWf r.tree) (path method : Bytes) (f : Found) (n : Node)
    (hp : path ≠ []) (hs : path ≠ [42]) (htr : r.tree.trace = none ∨ method ≠ mTRACE)
    (h : r.tree.handler env path [] method = .res f) (hf : f.node = some n)
    (segs : List Seg) (hc : Chain r.tree.root segs n) (hign : ∀ s ∈ segs, s.kind ≠ .str → s.ignoreName = false) :
    r.url env true n.pattern f.params = .ok (r.urlDomain ++ path) := by
  have hu := C10_inverse_strict env r.tree hr path method f n hp hs htr h hf segs hc hign
  have hne : n.pattern ≠ [] := by
    obtain ⟨chain, c1, c2, _⟩ := C01.C01_dispatch_sound env r.tree hr path method f n hp hs htr h hf
    have := C10_chain_unique r.tree hr n _ _ c2 hc
    subst this
    have hpat := reach_chain_pattern hr c2
    intro e
    rw [e] at hpat
    cases chain with
    | nil => exact c1 rfl
    | cons sv chain =>
      have hsok := reach_chain_segOk hr c2 sv.1 (by simp)
      simp only [List.map_cons, List.flatten_cons] at hpat
      exact hsok.ne (List.append_eq_nil_iff.1 hpat.symm).1
  rw [Router.url_strict_eq, if_neg hne, hu]

/-- Non-strict `Router.URL` of the dispatched node's pattern (non-empty params) reproduces the path too, whenever
`mux.URL`'s own segmentation of the pattern (no interceptors) exists. -/
theorem C10_inverse_router_nonStrict (env : Env) (r : Router) (hr : ReachWf r.tree) (path method : Bytes) (f : Found)
    (n : Node) (hp : path ≠ []) (hs : path ≠ [42]) (htr : r.tree.trace = none ∨ method ≠ mTRACE)
    (h : r.tree.handler env path [] method = .res f) (hf : f.node = some n)
    (segs : List Seg) (hc : Chain r.tree.root segs n) (hign : ∀ s ∈ segs, s.kind ≠ .str → s.ignoreName = false)
    (segs' : List Seg) (hsp : split [] n.pattern = .ok segs') (hps : f.params ≠ []) :
    r.url env false n.pattern f.params = .ok (r.urlDomain ++ path) := by
  rw [C10_router_nonStrict, muxURL_eq _ _ hps,
    C10_inverse_nonStrict env r.tree hr path method f n hp hs htr h hf segs hc hign segs' hsp]

/-! ## Non-vacuity

(1) Re-segmentation on a hand-written segment list: `/posts/` · `{id}/a` · `uthor` against `Split` of
`/posts/{id}/author`. -/

/-- `/posts/` · `{id}/a` · `uthor` -/
def exCut : List Seg :=
  [{ value := bytesOfString "/posts/" },
   { value := bytesOfString "{id}/a", kind := .named, name := bytesOfString "id", suffix := bytesOfString "/a" },
   { value := bytesOfString "uthor" }]

/-- what `Split` makes of `/posts/{id}/author` -/
def exWhole : List Seg :=
  [{ value := bytesOfString "/posts/" },
   { value := bytesOfString "{id}/author", kind := .named, name := bytesOfString "id",
     suffix := bytesOfString "/author" }]

theorem exCut_segOk : ∀ s ∈ exCut, SegOk [] s := by
  intro s hs
  simp only [exCut, List.mem_cons, List.not_mem_nil, or_false] at hs
  rcases hs with rfl | rfl | rfl
  · exact SegOk.lit ⟨by decide +kernel, by decide +kernel⟩ (by decide +kernel) (by decide +kernel)
  · exact ⟨by decide +kernel, .inr ⟨bytesOfString "id", bytesOfString "/a", by decide +kernel,
      ⟨by decide +kernel, by decide +kernel⟩, ⟨by decide +kernel, by decide +kernel⟩⟩, by decide +kernel⟩
  · exact SegOk.lit ⟨by decide +kernel, by decide +kernel⟩ (by decide +kernel) (by decide +kernel)

example : (exCut.map (·.value)).flatten = bytesOfString "/posts/{id}/author" := by decide +kernel
example : split [] (exCut.map (·.value)).flatten = .ok exWhole := by decide +kernel
/-- the conclusion of `C10_reseg_segs`, also checked by evaluation: both lists spell
`/posts/` `{id}` `/author` -/
example : SameToks exWhole exCut := C10_reseg_segs [] [] exCut exWhole exCut_segOk (by decide +kernel)
example : toks exCut = [.inl (bytesOfString "/posts/"), .inr (bytesOfString "id", false),
    .inl (bytesOfString "/author")] := by decide +kernel
example : toks exWhole = toks exCut := by decide +kernel

/-! (2) A reached tree (`Mux/Proofs/UrlExamples.lean`): interceptor `digit`, history
`GET /p/{id:digit}/a`, `GET /p/{id:digit}/author/{n:\d+}`.  The second route's chain is
`/p/` · `{id:digit}/a` · `uthor/` · `{n:\d+}`. -/

example : ReachWf xT := xT_reach
example : xT.routes = [([42], [mOPTIONS]), (xPa, [mGET, mHEAD, mOPTIONS]), (xPb, [mGET, mHEAD, mOPTIONS])] := xT_routes
/-- hypotheses of `C10_reseg` / `C10_reseg_url`: a node, its chain, a successful `Split` of its pattern (here without
interceptors, which reads `digit` as a regexp: other kinds, same token stream) -/
example : ∃ n, Chain xT.root xChain n ∧ n.pattern = xPb ∧ (split [] xPb).isOk = true := by
  obtain ⟨n, _, h2, h3⟩ := xT_chain
  exact ⟨n, h2, h3, by decide +kernel⟩
example : (split [] xPb).toOption.map (fun l => l.map (fun s => (s.value, s.kind))) =
    some [(bytesOfString "/p/", .str), (bytesOfString "{id:digit}/author/", .rx), (bytesOfString "{n:\\d+}", .rx)] := by
  decide +kernel
example : xChain.map (fun s => (s.value, s.kind)) =
    [(bytesOfString "/p/", .str), (bytesOfString "{id:digit}/a", .icpt), (bytesOfString "uthor/", .str),
     (bytesOfString "{n:\\d+}", .rx)] := by decide +kernel

/-- `C10_strict`, left-hand side: a successful strict build (interceptor and regexp parameter) -/
example : xT.url xEnv xPb xPs = .ok xPath := xT_url_ok
/-- … and what `C10_strict_eq_nonStrict` concludes from it -/
example : urlNonStrict xPb xPs = .ok xPath := by
  have hok : (split [] xPb).isOk = true := by decide +kernel
  cases hs : split [] xPb with
  | error e => rw [hs] at hok; cases hok
  | ok segs' => exact C10_strict_eq_nonStrict xEnv xT xT_reach xPb xPs xPath xT_url_ok segs' hs
/-- the error cases of `C10_strict_error` / `C10_strict_notRoute` all occur -/
example : xT.url xEnv xPb [(bytesOfString "id", bytesOfString "x"), (bytesOfString "n", bytesOfString "42")] =
    .error .badValue := xT_url_badIcpt
example : xT.url xEnv xPb [(bytesOfString "id", bytesOfString "5"), (bytesOfString "n", bytesOfString "4a")] =
    .error .badValue := xT_url_badRx
example : xT.url xEnv xPb [(bytesOfString "id", bytesOfString "5")] = .error .missingParam := xT_url_missing
example : xT.url xEnv xPb [] = .error .missingParam := xT_url_empty
example : xT.url xEnv (bytesOfString "/p/{id:digit}/aut") xPs = .error .notRoute := xT_url_notRoute
example : bytesOfString "/p/{id:digit}/aut" ∉ (tableOf xT).patterns :=
  (C10_strict_notRoute xEnv xT xT_reach _ xPs).1 xT_url_notRoute
/-- `unsupported`: a wide class and a non-ASCII value (segment level) -/
example : ({ value := [], kind := .rx, name := [110], re := .plus clsDot } : Seg).valid xEnv [] [200] = none := by
  decide +kernel
/-- … on a reached tree (hypothesis of `C10_strict_unsupported`): route `/w/{x:.+}`, value `\xC8` -/
example : ReachWf yT ∧ yT.url xEnv yP [(bytesOfString "x", [200])] = .error .unsupported :=
  ⟨yT_reach, yT_url_unsupported⟩
example : yT.url xEnv yP [(bytesOfString "x", bytesOfString "a/b")] = .ok (bytesOfString "/w/a/b") := yT_url_ok
/-- hypotheses of `C10_strict_table` / `C10_strict_notRoute_table` -/
example : ∀ op ∈ xOps, op.wf = true := xOps_wf
/-- why `C10_inverse` excludes `-` parameters: dispatch does not report them, so building fails -/
def exIgn : Seg :=
  { value := bytesOfString "{-id}", kind := .named, name := bytesOfString "id", ignoreName := true, endpoint := true }
example : (newSegment [] (bytesOfString "{-id}")).toOption = some exIgn := by decide +kernel
example : urlLoop [] [exIgn] = .error .missingParam := by decide +kernel
/-- through `Router.URL` with a URL domain -/
example : ({ tree := xT, urlDomain := bytesOfString "https://x.io" } : Router).url xEnv true xPb xPs =
    .ok (bytesOfString "https://x.io/p/5/author/42") := by
  rw [Router.url_strict_eq, if_neg (by decide +kernel), xT_url_ok]; decide +kernel

/-- hypotheses of `C10_inverse*`: `GET /p/5/author/42` is dispatched to the second route; its chain has no ignored
parameter -/
theorem xT_inverse_hyps : ∃ f n, xT.handler xEnv xPath [] mGET = .res f ∧ f.node = some n ∧ f.params = xPs ∧
    Chain xT.root xChain n ∧ n.pattern = xPb ∧ xPath ≠ [] ∧ xPath ≠ [42] ∧ (xT.trace = none ∨ mGET ≠ mTRACE) ∧
    (∀ s ∈ xChain, s.kind ≠ .str → s.ignoreName = false) := by
  obtain ⟨f, n, h1, h2, h3, h4⟩ := xT_dispatch
  obtain ⟨n', _, g2, g3⟩ := xT_chain
  have hp : xPath ≠ [] := by decide +kernel
  have hs : xPath ≠ [42] := by decide +kernel
  have htr : xT.trace = none ∨ mGET ≠ mTRACE := .inr (by decide)
  obtain ⟨chain, c1, c2, _⟩ := C01.C01_dispatch_sound xEnv xT xT_reach xPath mGET f n hp hs htr h1 h2
  have hn : n ∈ nodesL xT.root.children := chain_mem_below' c2 (by simpa using c1)
  have hn' : n' ∈ nodesL xT.root.children := chain_mem_below' g2 (by decide +kernel)
  have : n = n' := Mux.P11.node_unique (reach_tinv xT_reach).sh hn hn' (h3.trans g3.symm)
  subst this
  exact ⟨f, n, h1, h2, h4, g2, h3, hp, hs, htr, by decide +kernel⟩

example : ∃ f n, xT.handler xEnv xPath [] mGET = .res f ∧ f.node = some n ∧ urlLoop f.params xChain = .ok xPath ∧
    urlNonStrict n.pattern f.params = .ok xPath ∧ xT.url xEnv n.pattern f.params = .ok xPath := by
  obtain ⟨f, n, h1, h2, _, h4, h5, hp, hs, htr, hign⟩ := xT_inverse_hyps
  refine ⟨f, n, h1, h2, C10_inverse xEnv xT xT_reach xPath mGET f n hp hs htr h1 h2 xChain h4 hign, ?_,
    C10_inverse_strict xEnv xT xT_reach xPath mGET f n hp hs htr h1 h2 xChain h4 hign⟩
  have hok : (split [] n.pattern).isOk = true := by rw [h5]; decide +kernel
  cases hsp : split [] n.pattern with
  | error e => rw [hsp] at hok; cases hok
  | ok segs' => exact C10_inverse_nonStrict xEnv xT xT_reach xPath mGET f n hp hs htr h1 h2 xChain h4 hign segs' hsp

end Mux.C10
