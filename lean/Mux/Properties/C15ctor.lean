/-
  C15 in terms of the arguments the USER passes to the constructors (closing G15.1/G15.4 of the audit).

  `C15.lean` states the path-version clauses for the list stored in the matcher ("already normalised") and the
  header-version clauses for the key stored in the matcher.  Here the two constructors of /repo/match.go are
  written down as functions — definitions of THIS file, the model (`Mux/Model`) is unchanged:

      func NewPathVersion(param string, version ...string) Matcher {
          for i, v := range version {
              if v == ""            { panic("参数 v 不能为空值") }
              if v[0] != '/'        { v = "/" + v }
              if v[len(v)-1] != '/' { v += "/" }
              version[i] = v
          }
          return &pathVersion{paramName: param, versions: version}
      }
      func NewHeaderVersion(param, key string, errlog func(error), version ...string) Matcher {
          if key == "" { key = "version" }
          if errlog == nil { errlog = … }
          return &headerVersion{paramName: param, acceptKey: key, versions: version, errlog: errlog}
      }

  and the C15 statements are proved for ARBITRARY constructor arguments:
  * `newPathVersion param vs` is `none` (the constructor panics) iff some version is `""` (`C15_ctor_panic_iff`);
    otherwise it is `Matcher.pathVersion param (vs.map slashed)` where `slashed v` is `v` with a `/` prepended iff it
    does not start with one and a `/` appended iff it does not end with one (`C15_ctor_versions`); that list is
    `Normalised` (hypothesis of `C15_path_rewrite`) and contains no empty version (`C15_ctor_normalised`).
  * `C15_path_user`: the matcher's behaviour in closed form over the user's list — first listed version whose slashed
    form is a prefix of the path wins; reject leaves path and parameters untouched; never a fault.
  * `C15_path_user_rewrite`: on accept the path was `/<version>/rest`, becomes `/rest`, and `/<version>` is recorded.
  * `C15_path_plain`: for a version written without slashes (`v1`) this is literally the property text:
    prefix `/v1/`, recorded value `/v1`.
  * `C15_path_unique`: single-segment versions (`/v1/`, `/v11/`) can never both be a prefix of one path, so for such
    lists the order is irrelevant ("overlapping names such as v1 and v11").
  * `C15_header_user`, `C15_header_user_iff`, `C15_header_key_default`: the header matcher for the user's key, `""`
    meaning `version`.

  THE EMPTY VERSION, honestly.  Go panics at construction for `""`, so a `pathVersion` with an empty version never
  exists.  The model's `pathVersionMatch` does not fault on `ver = ""` (`sliceE 300 [] 0 (0 - 1)` with truncated
  subtraction is in range) where Go's `ver[:len(ver)-1]` would panic with a slice bound of −1: the generality "for
  ALL version lists" of `C15_path_iff` is an artefact for lists containing `""` (`C15_model_empty_version_artefact`).
  `C15_ctor_normalised` shows that such lists are not constructor outputs, so every statement below is about lists Go
  can hold.  An empty LIST of versions is allowed by both constructors (the Go doc comment says "可以为空，表示匹配任意值" —
  may be empty, meaning match anything — but the loop over no versions accepts NOTHING; `C15_path_no_versions`,
  `C15_header_no_versions`).

  Not modelled: `errlog` (a log channel, no influence on the result); Go's `NewPathVersion` overwrites the caller's
  slice in place (visible to the caller, also when it panics half-way) — outside the observation points of C15.
-/
import Mux.Properties.C15
namespace Mux.C15
open Mux

/-! ## The constructors -/

/-- `v` with a `/` prepended iff it does not start with one and a `/` appended iff it does not end with one. -/
def slashed (v : Bytes) : Bytes :=
  (if v.head? = some 47 then [] else [47]) ++ v ++ (if v.getLast? = some 47 then [] else [47])

/-- `NewPathVersion(param, versions...)`; `none` = the constructor panics. -/
def newPathVersion (param : Bytes) (versions : List Bytes) : Option Matcher :=
  (versions.mapM normVersion).map (Matcher.pathVersion param)

/-- `"version"` -/
def versionKey : Bytes := [118, 101, 114, 115, 105, 111, 110]
example : versionKey = bytesOfString "version" := by decide +kernel

/-- `NewHeaderVersion(param, key, errlog, versions...)` (never panics; `errlog` is not modelled). -/
def newHeaderVersion (param key : Bytes) (versions : List Bytes) : Matcher :=
  .headerVersion param (if key = [] then versionKey else key) versions

theorem mapM_normVersion (vs : List Bytes) :
    vs.mapM normVersion = if [] ∈ vs then none else some (vs.map slashed) := by
  induction vs with
  | nil => simp
  | cons v vs ih =>
    rw [List.mapM_cons, ih]
    by_cases hv : v = []
    · subst hv; simp [normVersion]
    · rw [normVersion_eq v hv]
      have hv' : ¬ [] = v := fun e => hv e.symm
      by_cases hm : [] ∈ vs
      · simp [hm]
      · simp [hm, hv', slashed]

/-- **The constructor panics iff some version is empty.** -/
theorem C15_ctor_panic_iff (param : Bytes) (vs : List Bytes) : newPathVersion param vs = none ↔ [] ∈ vs := by
  unfold newPathVersion
  rw [mapM_normVersion]
  by_cases hm : [] ∈ vs <;> simp [hm]

/-- **Otherwise it stores the slashed versions, in the user's order.** -/
theorem C15_ctor_versions (param : Bytes) (vs : List Bytes) (h : [] ∉ vs) :
    newPathVersion param vs = some (.pathVersion param (vs.map slashed)) := by
  unfold newPathVersion
  rw [mapM_normVersion, if_neg h]; rfl

/-- Converse form: whatever the constructor returns is `pathVersion param (vs.map slashed)` with no empty version
passed in. -/
theorem C15_ctor_some (param : Bytes) (vs : List Bytes) (m : Matcher) (h : newPathVersion param vs = some m) :
    [] ∉ vs ∧ m = .pathVersion param (vs.map slashed) := by
  by_cases hm : [] ∈ vs
  · rw [(C15_ctor_panic_iff param vs).2 hm] at h; cases h
  · rw [C15_ctor_versions param vs hm] at h
    exact ⟨hm, (Option.some.inj h).symm⟩

theorem slashed_shape (v : Bytes) : (slashed v).head? = some 47 ∧ (slashed v).getLast? = some 47 ∧ slashed v ≠ [] := by
  by_cases hv : v = []
  · subst hv; decide
  · exact normVersion_shape v _ (by rw [normVersion_eq v hv]; rfl)

/-- **The stored list satisfies the hypothesis of `C15_path_rewrite`** and holds no empty version — for every
argument list, so the `Normalised` hypothesis of C15 is discharged for everything the constructor can return. -/
theorem C15_ctor_normalised (vs : List Bytes) :
    Normalised (vs.map slashed) ∧ [] ∉ vs.map slashed ∧
      ∀ r ∈ vs.map slashed, r.head? = some 47 ∧ r.getLast? = some 47 := by
  refine ⟨?_, ?_, ?_⟩
  · intro ver hver
    obtain ⟨v, _, rfl⟩ := List.mem_map.1 hver
    exact ⟨(slashed_shape v).2.2, (slashed_shape v).2.1⟩
  · intro h
    obtain ⟨v, _, hv⟩ := List.mem_map.1 h
    exact (slashed_shape v).2.2 hv
  · intro r hr
    obtain ⟨v, _, rfl⟩ := List.mem_map.1 hr
    exact ⟨(slashed_shape v).1, (slashed_shape v).2.1⟩

/-- The same through `C15_norm_normalised`, as the audit asked: the constructor's list is a `mapM normVersion`. -/
theorem C15_ctor_normalised' (param : Bytes) (vs : List Bytes) (m : Matcher) (h : newPathVersion param vs = some m) :
    ∃ rs, vs.mapM normVersion = some rs ∧ m = .pathVersion param rs ∧ Normalised rs := by
  unfold newPathVersion at h
  cases hrs : vs.mapM normVersion with
  | none => rw [hrs] at h; cases h
  | some rs =>
    rw [hrs] at h
    exact ⟨rs, rfl, (Option.some.inj h).symm, C15_norm_normalised vs rs hrs⟩

/-! ## The path matcher over the user's versions -/

theorem find_map_slashed (vs : List Bytes) (path : Bytes) :
    (vs.map slashed).find? (hasPrefix path) = (vs.find? (fun v => hasPrefix path (slashed v))).map slashed := by
  induction vs with
  | nil => rfl
  | cons v vs ih =>
    simp only [List.map_cons, List.find?_cons]
    cases hasPrefix path (slashed v) with
    | true => rfl
    | false => exact ih

/-- **`C15_path_user`** (clauses a, b, e and "never faults" for arbitrary constructor arguments).  For every
version list without `""` the constructor returns a matcher `m`, and for every request path and parameters: `m`
rejects — path and parameters untouched — when no `slashed v` is a prefix of the path; otherwise it accepts for the
FIRST `v` in the user's order whose slashed form is a prefix, removes `slashed v` minus its final `/` from the front
of the path and records that text under `param` (when `param ≠ ""`). -/
theorem C15_path_user (param : Bytes) (vs : List Bytes) (h : [] ∉ vs) :
    ∃ m, newPathVersion param vs = some m ∧
      ∀ (env : Env) (tab : Nat → Option Hosts) (req : Req) (path : Bytes) (ps : Params),
        m.run env tab req path ps =
          match vs.find? (fun v => hasPrefix path (slashed v)) with
          | none => .reject path ps
          | some v => .accept (path.drop ((slashed v).length - 1))
              (if param ≠ [] then ps.set param (slashed v).dropLast else ps) := by
  refine ⟨_, C15_ctor_versions param vs h, fun env tab req path ps => ?_⟩
  rw [C15_path_run, find_map_slashed]
  cases vs.find? (fun v => hasPrefix path (slashed v)) <;> rfl

/-- Accept/reject as an iff over the user's list. -/
theorem C15_path_user_iff (param : Bytes) (vs : List Bytes) (h : [] ∉ vs) (env : Env) (tab : Nat → Option Hosts)
    (req : Req) (path : Bytes) (ps : Params) :
    ((∃ p' ps', (Matcher.pathVersion param (vs.map slashed)).run env tab req path ps = .accept p' ps') ↔
      ∃ v ∈ vs, hasPrefix path (slashed v) = true) ∧
    ((Matcher.pathVersion param (vs.map slashed)).run env tab req path ps = .reject path ps ↔
      ∀ v ∈ vs, ¬ hasPrefix path (slashed v) = true) := by
  obtain ⟨m, hm, hrun⟩ := C15_path_user param vs h
  rw [C15_ctor_versions param vs h] at hm
  cases hm
  rw [hrun env tab req path ps]
  cases hf : vs.find? (fun v => hasPrefix path (slashed v)) with
  | none =>
    have := List.find?_eq_none.1 hf
    refine ⟨⟨fun ⟨_, _, e⟩ => (by cases e), fun ⟨v, hv, hp⟩ => absurd hp (by simpa using this v hv)⟩,
      ⟨fun _ v hv => (by simpa using this v hv), fun _ => rfl⟩⟩
  | some v =>
    have hv := List.find?_some hf
    have hmem := List.mem_of_find?_eq_some hf
    refine ⟨⟨fun _ => ⟨v, hmem, by simpa using hv⟩, fun _ => ⟨_, _, rfl⟩⟩,
      ⟨fun e => (by cases e), fun hall => absurd (by simpa using hv) (hall v hmem)⟩⟩

/-- What is removed and recorded, in terms of the user's text: `slashed v` minus its final `/` is the user's version
with a leading `/` (added iff missing) and WITHOUT a trailing `/`. -/
theorem slashed_dropLast (v : Bytes) (hv : v ≠ []) :
    (slashed v).dropLast = (if v.head? = some 47 then [] else [47]) ++ (if v.getLast? = some 47 then v.dropLast else v) := by
  unfold slashed
  by_cases hl : v.getLast? = some 47
  · simp only [hl, if_true, List.append_nil]
    rw [List.dropLast_append_of_ne_nil hv]
  · simp only [hl, if_false]
    rw [List.dropLast_concat]

/-- **`C15_path_user_rewrite`** (clause c for arbitrary constructor arguments).  When the matcher built from the
user's versions accepts, there are the first matching version `v` (no earlier one matches) and a rest such that the
path was `/<version>` ++ `/rest`, the new path is `/rest` — exactly that version segment removed, once, still
starting with `/` — and `/<version>` is recorded under `param` when a name is configured; nothing else changes. -/
theorem C15_path_user_rewrite (param : Bytes) (vs : List Bytes) (h : [] ∉ vs) (env : Env) (tab : Nat → Option Hosts)
    (req : Req) (path : Bytes) (ps : Params) (p' : Bytes) (ps' : Params)
    (hacc : (Matcher.pathVersion param (vs.map slashed)).run env tab req path ps = .accept p' ps') :
    ∃ pre v post rest, vs = pre ++ v :: post ∧ (∀ u ∈ pre, ¬ hasPrefix path (slashed u) = true) ∧
      path = (slashed v).dropLast ++ 47 :: rest ∧ p' = 47 :: rest ∧
      ps' = (if param ≠ [] then ps.set param (slashed v).dropLast else ps) ∧
      (slashed v).dropLast = (if v.head? = some 47 then [] else [47]) ++ (if v.getLast? = some 47 then v.dropLast else v) := by
  obtain ⟨m, hm, hrun⟩ := C15_path_user param vs h
  rw [C15_ctor_versions param vs h] at hm
  cases hm
  rw [hrun env tab req path ps] at hacc
  cases hf : vs.find? (fun v => hasPrefix path (slashed v)) with
  | none => rw [hf] at hacc; cases hacc
  | some v =>
    rw [hf] at hacc
    simp only [MatchOut.accept.injEq] at hacc
    obtain ⟨hp', hps'⟩ := hacc
    obtain ⟨pre, post, hvs, hpre⟩ := List.find?_eq_some_iff_append.1 hf |>.2
    have hv : hasPrefix path (slashed v) = true := by simpa using List.find?_some hf
    have hmem : v ∈ vs := List.mem_of_find?_eq_some hf
    have hne : v ≠ [] := fun e => h (e ▸ hmem)
    obtain ⟨rest, h1, h2⟩ := drop_of_prefix_slash path (slashed v) hv (slashed_shape v).2.1
    refine ⟨pre, v, post, rest, hvs, fun u hu => by simpa using hpre u hu, h1, ?_, hps'.symm, slashed_dropLast v hne⟩
    rw [← hp', h2]

/-- **`C15_path_plain`**: for a version the user wrote WITHOUT slashes (`v1`) the stored version is `/v1/` and the
recorded value `/v1` — the wording of the property. -/
theorem C15_path_plain (v : Bytes) (hv : v ≠ []) (h1 : v.head? ≠ some 47) (h2 : v.getLast? ≠ some 47) :
    slashed v = 47 :: v ++ [47] ∧ (slashed v).dropLast = 47 :: v := by
  refine ⟨by simp [slashed, h1, h2], ?_⟩
  rw [slashed_dropLast v hv]; simp [h1, h2]

/-- The four spellings `v1`, `/v1`, `v1/`, `/v1/` are one version. -/
theorem C15_path_spellings (v : Bytes) (hv : v ≠ []) (h1 : v.head? ≠ some 47) (h2 : v.getLast? ≠ some 47) :
    slashed (47 :: v) = slashed v ∧ slashed (v ++ [47]) = slashed v ∧ slashed (47 :: v ++ [47]) = slashed v := by
  have hl : (47 :: v).getLast? = v.getLast? := by
    cases v with
    | nil => exact absurd rfl hv
    | cons a l => simp [List.getLast?_cons_cons]
  have hh : (v ++ [47]).head? = v.head? := by
    cases v with
    | nil => exact absurd rfl hv
    | cons a l => rfl
  have hll : (47 :: (v ++ [47])).getLast? = some 47 := by
    rw [← List.cons_append, List.getLast?_append]; rfl
  refine ⟨?_, ?_, ?_⟩
  · simp [slashed, h1, h2, hl]
  · simp [slashed, h1, h2, hh]
  · simp [slashed, h1, h2, hll]

/-- An empty version LIST is accepted by the constructor and matches nothing (the Go doc comment says otherwise). -/
theorem C15_path_no_versions (param : Bytes) (env : Env) (tab : Nat → Option Hosts) (req : Req) (path : Bytes)
    (ps : Params) :
    newPathVersion param [] = some (.pathVersion param []) ∧
      (Matcher.pathVersion param []).run env tab req path ps = .reject path ps := by
  refine ⟨rfl, ?_⟩
  rw [C15_path_run]; rfl

/-! ## Overlapping names -/

/-- **`C15_path_unique`**: two stored versions that each consist of ONE path segment (`/name/`, no further `/`
inside — e.g. `/v1/` and `/v11/`) and are both a prefix of the same path are equal.  So for such lists at most one
version matches and the order of the list is irrelevant. -/
theorem C15_path_unique (a b p : Bytes) (ha : a.getLast? = some 47) (hb : b.getLast? = some 47)
    (hsa : 47 ∉ a.dropLast.drop 1) (hsb : 47 ∉ b.dropLast.drop 1) (hla : 2 ≤ a.length) (hlb : 2 ≤ b.length)
    (hpa : hasPrefix p a = true) (hpb : hasPrefix p b = true) : a = b := by
  rw [hasPrefix_iff] at hpa hpb
  -- one of the two is a prefix of the other
  have key : ∀ (x y : Bytes), x.getLast? = some 47 → y.getLast? = some 47 → 47 ∉ y.dropLast.drop 1 →
      2 ≤ x.length → x <+: y → x = y := by
    intro x y hx hy hsy hlx hxy
    obtain ⟨t, rfl⟩ := hxy
    cases t with
    | nil => simp
    | cons c t =>
      exfalso
      have hxne : x ≠ [] := by intro e; subst e; simp at hlx
      have hx' : x = x.dropLast ++ [47] := by
        have := List.dropLast_concat_getLast hxne
        rw [List.getLast?_eq_some_getLast hxne] at hx
        simp only [Option.some.injEq] at hx
        rw [hx] at this; exact this.symm
      apply hsy
      rw [List.dropLast_append_of_ne_nil (by simp), hx', List.append_assoc, List.drop_append]
      have hl1 : 1 ≤ x.dropLast.length := by rw [List.length_dropLast]; omega
      simp only [List.mem_append]
      right
      have : 1 - x.dropLast.length = 0 := by omega
      rw [this]
      simp
  rcases List.prefix_or_prefix_of_prefix hpa hpb with h | h
  · exact key a b ha hb hsb hla h
  · exact (key b a hb ha hsa hlb h).symm

/-! ## The header matcher over the user's key -/

/-- `NewHeaderVersion(param, "", …)` uses the media-type parameter `version`; any other key is used as given. -/
theorem C15_header_key_default (param : Bytes) (vs : List Bytes) :
    newHeaderVersion param [] vs = .headerVersion param versionKey vs ∧
    ∀ key, key ≠ [] → newHeaderVersion param key vs = .headerVersion param key vs := by
  refine ⟨rfl, fun key hk => ?_⟩
  unfold newHeaderVersion; rw [if_neg hk]

/-- **`C15_header_user`** (clauses d, e for arbitrary constructor arguments): with `k` the effective key (`version`
for `""`), the matcher accepts — path unchanged — iff the `Accept` header is non-empty, parses as a media type
(`req.acceptParams`, the oracle for `mime.ParseMediaType`, DESIGN §4) and the value of parameter `k` (`""` when
absent) is one of the user's versions, and then records that value under `param` (when `param ≠ ""`); otherwise it
rejects with path and parameters untouched.  It never faults. -/
theorem C15_header_user (param key : Bytes) (vs : List Bytes) (env : Env) (tab : Nat → Option Hosts) (req : Req)
    (path : Bytes) (ps : Params) :
    let k := if key = [] then versionKey else key
    ((∀ p' ps', (newHeaderVersion param key vs).run env tab req path ps = .accept p' ps' ↔
        p' = path ∧ req.headers.get hAccept ≠ [] ∧ ∃ mp, req.acceptParams = some mp ∧
          ((mp.get? k).getD []) ∈ vs ∧ ps' = (if param ≠ [] then ps.set param ((mp.get? k).getD []) else ps)) ∧
     ((∃ p' ps', (newHeaderVersion param key vs).run env tab req path ps = .accept p' ps') ∨
        (newHeaderVersion param key vs).run env tab req path ps = .reject path ps)) := by
  intro k
  have hk : newHeaderVersion param key vs = .headerVersion param k vs := rfl
  rw [hk, C15_header_run]
  cases hm : headerVersionMatch param k vs req ps with
  | none =>
    refine ⟨fun p' ps' => ⟨fun e => (by cases e), fun ⟨_, h⟩ => ?_⟩, .inr rfl⟩
    have := (C15_header_iff param k vs req ps ps').2 h
    rw [hm] at this; cases this
  | some q =>
    refine ⟨fun p' ps' => ⟨fun e => ?_, fun ⟨hp, h⟩ => ?_⟩, .inl ⟨_, _, rfl⟩⟩
    · simp only [MatchOut.accept.injEq] at e
      obtain ⟨rfl, rfl⟩ := e
      exact ⟨rfl, (C15_header_iff param k vs req ps q).1 hm⟩
    · have := (C15_header_iff param k vs req ps ps').2 h
      rw [hm] at this
      cases this
      rw [hp]

/-- No versions listed: nothing is accepted (again not what the Go doc comment promises). -/
theorem C15_header_no_versions (param key : Bytes) (env : Env) (tab : Nat → Option Hosts) (req : Req) (path : Bytes)
    (ps : Params) : (newHeaderVersion param key []).run env tab req path ps = .reject path ps := by
  obtain ⟨h1, h2⟩ := C15_header_user param key [] env tab req path ps
  rcases h2 with ⟨p', ps', h⟩ | h
  · obtain ⟨_, _, mp, _, hmem, _⟩ := (h1 p' ps').1 h
    cases hmem
  · exact h

/-! ## The empty version: what the model does where Go cannot get -/

/-- The model's `pathVersionMatch` with an EMPTY stored version accepts every path and records `""` (truncated
subtraction in `ver.length - 1`); Go's `ver[:len(ver)-1]` would panic there.  Not reachable: `C15_ctor_normalised`
shows that no constructor output contains `""` (and Go panics in the constructor, `C15_ctor_panic_iff`). -/
theorem C15_model_empty_version_artefact :
    pathVersionMatch [118] [[]] [47, 120] [] = .ok (some ([47, 120], [([118], [])])) ∧
    newPathVersion [118] [[]] = none ∧ newPathVersion [118] [[118, 49], []] = none :=
  ⟨rfl, (C15_ctor_panic_iff _ _).2 (by decide), (C15_ctor_panic_iff _ _).2 (by decide)⟩

/-! ## Non-vacuity -/

/-- `NewPathVersion("v", "v1", "/v11", "v2/", "/v3/")` stores `/v1/`, `/v11/`, `/v2/`, `/v3/`. -/
example : newPathVersion [118] [[118, 49], [47, 118, 49, 49], [118, 50, 47], [47, 118, 51, 47]] =
    some (.pathVersion [118] [[47, 118, 49, 47], [47, 118, 49, 49, 47], [47, 118, 50, 47], [47, 118, 51, 47]]) := by
  rw [C15_ctor_versions _ _ (by decide)]; rfl
/-- hypothesis `[] ∉ vs` of `C15_path_user`; `/v11/x/v1/y` selects `v11` (not `v1`), removes it once, records `/v11` -/
example : ([] : Bytes) ∉ [[118, 49], [47, 118, 49, 49]] := by decide
example : (Matcher.pathVersion [118] ([[118, 49], [47, 118, 49, 49]].map slashed)).run ⟨fun _ _ => true⟩ (fun _ => none)
    ⟨[71], [47], [], [], none⟩ [47, 118, 49, 49, 47, 120, 47, 118, 49, 47, 121] [] =
    .accept [47, 120, 47, 118, 49, 47, 121] [([118], [47, 118, 49, 49])] := by
  rw [C15_path_run]; rfl
/-- hypotheses of `C15_path_plain` / `C15_path_spellings` for `v1` -/
example : ([118, 49] : Bytes) ≠ [] ∧ ([118, 49] : Bytes).head? ≠ some 47 ∧ ([118, 49] : Bytes).getLast? ≠ some 47 := by decide
/-- hypotheses of `C15_path_unique` for `/v1/`, `/v11/` on `/v11/x`: only `/v11/` is a prefix -/
example : (47 : UInt8) ∉ ([47, 118, 49, 47] : Bytes).dropLast.drop 1 ∧ hasPrefix [47, 118, 49, 49, 47, 120] [47, 118, 49, 47] = false ∧
    hasPrefix [47, 118, 49, 49, 47, 120] [47, 118, 49, 49, 47] = true := by decide
/-- …and a list with a TWO-segment version shows why the hypothesis is needed: `/v1/` and `/v1/beta/` both match. -/
example : hasPrefix [47, 118, 49, 47, 98, 47, 120] (slashed [118, 49]) = true ∧
    hasPrefix [47, 118, 49, 47, 98, 47, 120] (slashed [118, 49, 47, 98]) = true := by decide
/-- `NewHeaderVersion("v", "", nil, "2")`: `Accept: x; version=2` is accepted and `v = 2` recorded -/
example : (newHeaderVersion [118] [] [[50]]).run ⟨fun _ _ => true⟩ (fun _ => none)
    ⟨[71], [47], [], [(hAccept, [[120]])], some [(versionKey, [50])]⟩ [47] [] = .accept [47] [([118], [50])] := by
  rw [(C15_header_user [118] [] [[50]] _ _ _ _ _).1]
  refine ⟨rfl, by simp [Hdr.get], _, rfl, by decide, by decide⟩

end Mux.C15
