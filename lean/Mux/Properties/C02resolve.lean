/-
  C02 (remaining parts) — B3 "404 exactly when the documented procedure finds no route", the
  first-chain ("no widening") reading of the depth-first search, and the refinement of the tree-free
  reference resolver `Spec.resolveAll` (`Mux/Spec/Resolve.lean`) by every tree in canonical form.

  * `Reaches env ic n path ps m ps'` (`Mux/Proofs/ResolveReach.lean`): a chain of children from `n`,
    each child's deterministic per-segment match `Seg.match` (first candidate only) succeeding on the
    remaining path, ending in the node `m` with handlers when the path is used up.  `ReachesBy` is the
    same with the positions in the child lists made explicit, `Before` the depth-first order on such
    index paths (children in list order, a node's own "path used up" case last).
  * Hypotheses: `StructInv2 t` (the structural invariant incl. distinct first bytes of literal
    siblings; holds of every tree reached by a history registering tidy patterns, `struct2_reach`) and
    the parameter-tracking hypotheses `NamesOkL` of `C02_priority`.
  * `matchChildren` may answer `unsupported` (a regexp outside the modelled dialect on a non-ASCII
    path): then nothing is claimed; `C02_supported` shows that this never happens on ASCII paths.

  * B4 (`C02_canonical`): after ANY add-only history of well-formed patterns (any order, whatever the
    accept/reject verdicts) the tree is in canonical form for its own route table.  Proof: `getNode`
    keeps every node "forked or live" (`ResolveForked.lean`, uses that `longestPrefix` is exact), and a
    tree with the shape invariant `Sh` all of whose nodes are forked or live IS canonical
    (`ResolveStatic.lean`).  The reference resolver does not depend on the order in which the routes
    are listed (`ResolvePerm.lean`), hence the FULL statement `C02_resolve` below: every dispatch of
    every add-only history answers with an outcome the documented procedure admits for the set of
    registered routes, and with 404 exactly when the procedure finds no route.
-/
import Mux.Proofs.ResolveExamples
import Mux.Proofs.HandlerSound
import Mux.Proofs.ResolveHistory
import Mux.Proofs.ResolvePerm
namespace Mux.C02
open Mux Mux.P8 Mux.P15 Mux.Spec

/-! ## B3: completeness of the search -/

/-- **No fault.** On a tree with the structural invariant the matcher never faults. -/
theorem C02_match_no_fault (env : Env) (t : Tree) (hs : StructInv2 t) (n : Node) (hn : n ∈ t.root.nodes)
    (path : Bytes) (ps : Params) (used : List Bytes) (hN : NamesOkL used n.children) (hk : ∀ k ∈ ps.keys, k ∈ used)
    (s : Nat) : n.matchChildren env t.ic path ps ≠ .fault s :=
  (complete_node env t.ic n (All_sub _ hs.all n hn) path ps used hN hk).1 s

/-- **A miss means that nothing is reachable** (and leaves the parameters alone). -/
theorem C02_complete_miss (env : Env) (t : Tree) (hs : StructInv2 t) (n : Node) (hn : n ∈ t.root.nodes)
    (path : Bytes) (ps : Params) (used : List Bytes) (hN : NamesOkL used n.children) (hk : ∀ k ∈ ps.keys, k ∈ used)
    (ps' : Params) (h : n.matchChildren env t.ic path ps = .miss ps') :
    ps' = ps ∧ ¬ ∃ m ps'', Reaches env t.ic n path ps m ps'' := by
  obtain ⟨h1, h2⟩ := (complete_node env t.ic n (All_sub _ hs.all n hn) path ps used hN hk).2.1 ps' h
  refine ⟨h1, ?_⟩
  rintro ⟨m, ps'', hr⟩
  obtain ⟨is, his⟩ := reaches_iff.1 hr
  exact h2 is m ps'' his

/-- **The hit is the FIRST chain** in depth-first order: it is reached by an index path `is`, and every
index path along which the per-segment matches succeed down to a node with handlers is `is` itself or
comes after `is`.  An alternative is given up only by falling back to the next choice — a later
sibling, or the node's own "path used up" case — never by widening an earlier capture (`Seg.match`
yields one candidate per segment). -/
theorem C02_first_chain (env : Env) (t : Tree) (hs : StructInv2 t) (n : Node) (hn : n ∈ t.root.nodes)
    (path : Bytes) (ps : Params) (used : List Bytes) (hN : NamesOkL used n.children) (hk : ∀ k ∈ ps.keys, k ∈ used)
    (m : Node) (ps' : Params) (h : n.matchChildren env t.ic path ps = .hit m ps') :
    ∃ is, ReachesBy env t.ic n path ps is m ps' ∧
      ∀ is' m' ps'', ReachesBy env t.ic n path ps is' m' ps'' → is' = is ∨ Before is is' :=
  (complete_node env t.ic n (All_sub _ hs.all n hn) path ps used hN hk).2.2 m ps' h

/-- Consequently a hit is reachable (`Reaches` form). -/
theorem C02_hit_reaches (env : Env) (t : Tree) (hs : StructInv2 t) (n : Node) (hn : n ∈ t.root.nodes)
    (path : Bytes) (ps : Params) (used : List Bytes) (hN : NamesOkL used n.children) (hk : ∀ k ∈ ps.keys, k ∈ used)
    (m : Node) (ps' : Params) (h : n.matchChildren env t.ic path ps = .hit m ps') : Reaches env t.ic n path ps m ps' := by
  obtain ⟨is, his, _⟩ := C02_first_chain env t hs n hn path ps used hN hk m ps' h
  exact reaches_iff.2 ⟨is, his⟩

/-- **B3, `C02_complete`**: the matcher misses EXACTLY when no chain of per-segment matches leads to a
node with handlers, and hits exactly when one does (the answer `unsupported` excluded). -/
theorem C02_complete (env : Env) (t : Tree) (hs : StructInv2 t) (n : Node) (hn : n ∈ t.root.nodes)
    (path : Bytes) (ps : Params) (used : List Bytes) (hN : NamesOkL used n.children) (hk : ∀ k ∈ ps.keys, k ∈ used)
    (hsup : n.matchChildren env t.ic path ps ≠ .unsupported) :
    (n.matchChildren env t.ic path ps = .miss ps ↔ ¬ ∃ m ps', Reaches env t.ic n path ps m ps') ∧
    ((∃ m ps', n.matchChildren env t.ic path ps = .hit m ps') ↔ ∃ m ps', Reaches env t.ic n path ps m ps') :=
  complete_iff env t.ic (All_sub _ hs.all n hn) path ps used hN hk hsup

/-- On an ASCII path the matcher stays inside the modelled regexp domain. -/
theorem C02_supported (env : Env) (t : Tree) (hs : StructInv2 t) (n : Node) (hn : n ∈ t.root.nodes)
    (path : Bytes) (hp : isAscii path = true) (ps : Params) (used : List Bytes) (hN : NamesOkL used n.children)
    (hk : ∀ k ∈ ps.keys, k ∈ used) : n.matchChildren env t.ic path ps ≠ .unsupported :=
  supported_node env t.ic n (All_sub _ hs.all n hn) path ps used hp hN hk

/-- `C02_complete` for trees reached by histories that register tidy patterns, ASCII paths: no
hypothesis on the tree or on the answer is left. -/
theorem C02_complete_tidy (env : Env) (t : Tree) (ht : ReachTidy t) (n : Node) (hn : n ∈ t.root.nodes)
    (path : Bytes) (hp : isAscii path = true) (ps : Params) (used : List Bytes) (hN : NamesOkL used n.children)
    (hk : ∀ k ∈ ps.keys, k ∈ used) :
    (n.matchChildren env t.ic path ps = .miss ps ↔ ¬ ∃ m ps', Reaches env t.ic n path ps m ps') ∧
    ((∃ m ps', n.matchChildren env t.ic path ps = .hit m ps') ↔ ∃ m ps', Reaches env t.ic n path ps m ps') :=
  C02_complete env t (struct2_reach ht) n hn path ps used hN hk
    (C02_supported env t (struct2_reach ht) n hn path hp ps used hN hk)

/-- The depth-first order is a strict total order on index paths. -/
theorem C02_before_order : (∀ a, ¬ Before a a) ∧ (∀ a b c, Before a b → Before b c → Before a c) ∧
    (∀ a b, a = b ∨ Before a b ∨ Before b a) :=
  ⟨Before.irrefl, fun _ _ _ => Before.trans, Before.total⟩

/-- The index path determines the chain (each segment has ONE candidate match). -/
theorem C02_chain_deterministic (env : Env) (ic : Interceptors) (n : Node) (path : Bytes) (ps : Params) (is : List Nat)
    (m m' : Node) (ps' ps'' : Params) (h : ReachesBy env ic n path ps is m ps') (h' : ReachesBy env ic n path ps is m' ps'') :
    m' = m ∧ ps'' = ps' :=
  h.deterministic h'

/-! ## The reference resolver: the cases of DESIGN §7 -/

/-- Interceptor `any` (id 0, non-empty text) and `digit` (id 1). -/
def exIc : Interceptors := [([97, 110, 121], 0), ([100, 105, 103, 105, 116], 1)]
def exEnv : Env := { icpt := fun id p => if id = 0 then matchAny p else if id = 1 then matchDigit p else false }

/-- D1: `/users/{id}/{page:\d+}`, `/users/{id}/{action}/log`; `/users/5/7/log` resolves to the second
route with `id=5, action=7` (the regexp sibling matches `7` but fails on `/log` and is abandoned). -/
example : resolveAll exEnv exIc [exPA, exPB] exPathD1 =
    [(exPB, [([105, 100], [53]), ([97, 99, 116, 105, 111, 110], [55])])] := by decide

/-- D19: `/x/{v:any}aa` on `/x/aaa`: the first candidate (`v=""`) is rejected by the interceptor, the
search resumes ONE byte further and finds `v=a`. -/
example : resolveAll exEnv exIc [[47, 120, 47, 123, 118, 58, 97, 110, 121, 125, 97, 97]] [47, 120, 47, 97, 97, 97] =
    [([47, 120, 47, 123, 118, 58, 97, 110, 121, 125, 97, 97], [([118], [97])])] := by decide

/-- D22: `/p/{name}` and `/p/{n}/x` are different tokens, hence different groups: `/p/1` resolves to
the first route … -/
example : resolveAll exEnv exIc [[47, 112, 47, 123, 110, 97, 109, 101, 125], [47, 112, 47, 123, 110, 125, 47, 120]]
    [47, 112, 47, 49] = [([47, 112, 47, 123, 110, 97, 109, 101, 125], [([110, 97, 109, 101], [49])])] := by decide

/-- … and on `/p/1/x` both same-kind groups succeed (freedom 1): `{name}=1/x` and `{n}=1`. -/
example : resolveAll exEnv exIc [[47, 112, 47, 123, 110, 97, 109, 101, 125], [47, 112, 47, 123, 110, 125, 47, 120]]
    [47, 112, 47, 49, 47, 120] =
    [([47, 112, 47, 123, 110, 97, 109, 101, 125], [([110, 97, 109, 101], [49, 47, 120])]),
     ([47, 112, 47, 123, 110, 125, 47, 120], [([110], [49])])] := by decide

/-- Freedom 2: `/a` and `/a{x}` on `/a`: the empty remainder and the parameter matching the empty rest. -/
example : resolveAll exEnv exIc [[47, 97], [47, 97, 123, 120, 125]] [47, 97] =
    [([47, 97, 123, 120, 125], [([120], [])]), ([47, 97], [])] := by decide

/-- No route: 404. -/
example : Admissible exEnv exIc [exPA, exPB] [47, 117, 115, 101, 114, 115, 47, 53] none := by decide

/-! ## C: trees in canonical form refine the resolver -/

/-- **Canonical form** of the tree for the route patterns `rs`: below the root, the children of every
node carry, up to order, the texts of the groups the reference resolver forms from the remainders
below that node; every child stands for the members of its group; a node has handlers iff one of its
remainders is empty, and then its pattern is that route.  (The kind order of the children is part of
`StructInv2`.)  Decidable: checked by `decide` below. -/
def Canonical (t : Tree) (rs : List Bytes) : Prop :=
  KidsCanon t.root.children (rs.map (fun p => (p, p)))

instance (t : Tree) (rs : List Bytes) : Decidable (Canonical t rs) := by unfold Canonical; infer_instance

/-- The outcome of a dispatch as the resolver reports it: `none` for 404, else route and parameters. -/
def outcome (f : Found) : Option (Bytes × Params) := f.node.map (fun n => (n.pattern, f.params))

/-- Node-level form: for a node standing for the remainders `R`, a hit is a member of the resolver's
list and a miss means that the list is empty. -/
theorem C02_resolve_node (env : Env) (t : Tree) (hs : StructInv2 t) (n : Node) (hn : n ∈ t.root.nodes)
    (R : List Rem) (hC : Node.Canon n R) (path : Bytes) (ps : Params) (used : List Bytes)
    (hN : NamesOkL used n.children) (hk : ∀ k ∈ ps.keys, k ∈ used) :
    (∀ m ps', n.matchChildren env t.ic path ps = .hit m ps' → (m.pattern, ps') ∈ resolveRems env t.ic R path ps) ∧
    (∀ ps', n.matchChildren env t.ic path ps = .miss ps' → resolveRems env t.ic R path ps = []) := by
  rw [Node.canon_iff] at hC
  exact refines_node env t.ic n (All_sub _ hs.all n hn) R path ps used _ hC.2 (fun _ => hC.1) (Nat.lt_succ_self _) hN hk

/-- **`C02_resolve_partial`**: on a tree in canonical form for `rs` (with the structural invariant and
distinct parameter names along every chain), every dispatch of a path other than `""` and `*` answers
with an outcome the documented procedure admits: the route and parameters are a member of
`Spec.resolveAll … rs path`, and the answer is 404 only if that list is empty. -/
theorem C02_resolve_partial (env : Env) (t : Tree) (rs : List Bytes) (hs : StructInv2 t) (hC : Canonical t rs)
    (hN : NamesOkL [] t.root.children) (path : Bytes) (hp : path ≠ []) (hstar : path ≠ [42]) (method : Bytes)
    (htr : t.trace = none ∨ method ≠ mTRACE) (f : Found) (h : t.handler env path [] method = .res f) :
    Admissible env t.ic rs path (outcome f) := by
  have href := refines_node env t.ic t.root hs.all (rs.map (fun p => (p, p))) path [] [] _ hC (fun e => absurd e hp)
    (Nat.lt_succ_self _) hN (by simp [AMap.keys])
  rw [Tree.handler_noTrace htr] at h
  rcases handlerNoTrace_res h with ⟨ps', hr, hnone, _⟩ | ⟨m, ps', hr, hnil, _⟩ | ⟨m, ps', hr, _, hsome, hps, _⟩
  · rw [Tree.matchRes_of_ne hp hstar] at hr
    unfold outcome; rw [hnone]
    exact href.2 ps' hr
  · rw [Tree.matchRes_of_ne hp hstar] at hr
    obtain ⟨_, _, _, _, h4, _⟩ := Node.matchChildren_hit hr
    exact absurd hnil h4
  · rw [Tree.matchRes_of_ne hp hstar] at hr
    unfold outcome; rw [hsome, hps]
    exact href.1 m ps' hr

/-- "404 exactly when the procedure finds no route", resolver form. -/
theorem C02_resolve_404_iff (env : Env) (t : Tree) (rs : List Bytes) (hs : StructInv2 t) (hC : Canonical t rs)
    (hN : NamesOkL [] t.root.children) (path : Bytes) (hp : path ≠ []) (hstar : path ≠ [42]) (method : Bytes)
    (htr : t.trace = none ∨ method ≠ mTRACE) (f : Found) (h : t.handler env path [] method = .res f) :
    f.node = none ↔ resolveAll env t.ic rs path = [] := by
  have := C02_resolve_partial env t rs hs hC hN path hp hstar method htr f h
  unfold outcome at this
  cases hf : f.node with
  | none => rw [hf] at this; exact ⟨fun _ => this, fun _ => rfl⟩
  | some n =>
    rw [hf] at this
    constructor
    · intro h'; cases h'
    · intro h'; simp only [Option.map_some, Admissible] at this; rw [h'] at this; cases this

/-! ## B4: every add-only history builds a canonical tree; the full theorem -/

/-- **B4, `C02_canonical`.**  After an add-only history of well-formed patterns — in any order, each
registration accepted or rejected — the tree is in canonical form for its own route table. -/
theorem C02_canonical (name : Bytes) (ic : Interceptors) (nf : Handler) (tr : Option Handler) (ob nb : Base)
    (ops : List TOp) (ha : AddOnly ops) (hw : ∀ op ∈ ops, op.wf = true) :
    Canonical ((Tree.new name ic nf tr ob nb).run ops) (tableOf ((Tree.new name ic nf tr ob nb).run ops)).patterns :=
  canonical_of_FInv (finv_history name ic nf tr ob nb ops ha hw)

/-- The invariant behind it: every node below the root whose pattern is not a registered route has a
parameter child or two children that start with different bytes. -/
theorem C02_forked (name : Bytes) (ic : Interceptors) (nf : Handler) (tr : Option Handler) (ob nb : Base)
    (ops : List TOp) (ha : AddOnly ops) (hw : ∀ op ∈ ops, op.wf = true) (x : Node)
    (hx : x ∈ nodesL ((Tree.new name ic nf tr ob nb).run ops).root.children) : x.handlers ≠ [] ∨ Forked x.children := by
  have h := finv_history name ic nf tr ob nb ops ha hw
  rcases ((All_iff_nodes _).2 _).1 h.forked x hx with hl | hf
  · exact .inl (live_of_mem h.sim hx hl)
  · exact .inr hf

/-- The specification does not depend on how the routes are listed. -/
theorem C02_spec_order_independent (env : Env) (ic : Interceptors) (rs rs' : List Bytes) (h : ∀ p, p ∈ rs ↔ p ∈ rs')
    (path : Bytes) (o : Option (Bytes × Params)) : Admissible env ic rs path o ↔ Admissible env ic rs' path o := by
  have hs := resolveAll_setEq env ic (rs := rs) (rs' := rs') h path
  cases o with
  | none => exact hs.nil_iff
  | some o => exact hs o

/-- **`C02_resolve` (full statement).**  For every add-only history of well-formed patterns, in any
registration order, and every list `rs` of exactly the routes the router holds: every dispatch of a
path other than `""` and `*` answers with a route and parameters that the documented procedure
admits for `rs`, and with 404 only if the procedure finds no route. -/
theorem C02_resolve (env : Env) (name : Bytes) (ic : Interceptors) (nf : Handler) (tr : Option Handler) (ob nb : Base)
    (ops : List TOp) (ha : AddOnly ops) (hw : ∀ op ∈ ops, op.wf = true) (rs : List Bytes)
    (hrs : ∀ p, p ∈ rs ↔ p ∈ (tableOf ((Tree.new name ic nf tr ob nb).run ops)).patterns)
    (path : Bytes) (hp : path ≠ []) (hstar : path ≠ [42]) (method : Bytes) (htr : tr = none ∨ method ≠ mTRACE)
    (f : Found) (h : ((Tree.new name ic nf tr ob nb).run ops).handler env path [] method = .res f) :
    Admissible env ic rs path (outcome f) := by
  have hcfg := sameCfg_run (Tree.new name ic nf tr ob nb) ops
  have hic : ((Tree.new name ic nf tr ob nb).run ops).ic = ic := hcfg.2.2.1
  have htr' : ((Tree.new name ic nf tr ob nb).run ops).trace = none ∨ method ≠ mTRACE := by
    rcases htr with rfl | h
    · left
      have h1 : ((Tree.new name ic nf none ob nb).run ops).hasTrace = false := hcfg.1
      unfold Tree.hasTrace at h1
      cases ht : ((Tree.new name ic nf none ob nb).run ops).trace with
      | none => rfl
      | some _ => rw [ht] at h1; cases h1
    · exact .inr h
  have := C02_resolve_partial env _ _ (struct2_reach (reachTidy_of_wf name ic nf tr ob nb ops hw))
    (C02_canonical name ic nf tr ob nb ops ha hw) (P9.reach_namesOk (reachWf_of_wf name ic nf tr ob nb ops hw))
    path hp hstar method htr' f h
  rw [hic] at this
  exact (C02_spec_order_independent env ic _ _ hrs path _).2 this

/-- "404 exactly when the procedure finds no route", for every add-only history. -/
theorem C02_resolve_404 (env : Env) (name : Bytes) (ic : Interceptors) (nf : Handler) (tr : Option Handler) (ob nb : Base)
    (ops : List TOp) (ha : AddOnly ops) (hw : ∀ op ∈ ops, op.wf = true) (rs : List Bytes)
    (hrs : ∀ p, p ∈ rs ↔ p ∈ (tableOf ((Tree.new name ic nf tr ob nb).run ops)).patterns)
    (path : Bytes) (hp : path ≠ []) (hstar : path ≠ [42]) (method : Bytes) (htr : tr = none ∨ method ≠ mTRACE)
    (f : Found) (h : ((Tree.new name ic nf tr ob nb).run ops).handler env path [] method = .res f) :
    f.node = none ↔ resolveAll env ic rs path = [] := by
  have := C02_resolve env name ic nf tr ob nb ops ha hw rs hrs path hp hstar method htr f h
  unfold outcome at this
  cases hf : f.node with
  | none => rw [hf] at this; exact ⟨fun _ => this, fun _ => rfl⟩
  | some n =>
    rw [hf] at this
    constructor
    · intro h'; cases h'
    · intro h'; simp only [Option.map_some, Admissible] at this; rw [h'] at this; cases this

/-- When every registration is accepted, the routes the router holds are the registered patterns. -/
theorem C02_routes_registered (name : Bytes) (ic : Interceptors) (nf : Handler) (tr : Option Handler) (ob nb : Base)
    (ops : List TOp) (ha : AddOnly ops) (hw : ∀ op ∈ ops, op.wf = true)
    (hacc : Accepted (Tree.new name ic nf tr ob nb) ops) (p : Bytes) :
    p ∈ (tableOf ((Tree.new name ic nf tr ob nb).run ops)).patterns ↔ ∃ h ms methods, TOp.add p h ms methods ∈ ops := by
  have hs := (finv_history name ic nf tr ob nb ops ha hw).sim
  rw [(P11.tables_agree (P11.tableOf_ok hs.inv).1 hs.ok hs.has).1 p]
  unfold specRun
  rw [patterns_of_accepted ops _ _ ha hacc p]
  simp [Spec.Table.patterns]

/-- **B4, independence of the registration order.**  Two add-only histories that register the same
patterns (in any order, with any handlers and methods), every registration being accepted: both
routers hold the same routes, every path is answered by both with an outcome admissible for that
common route set, and it is a 404 for one exactly when it is a 404 for the other. -/
theorem C02_order_independent (env : Env) (name : Bytes) (ic : Interceptors) (nf : Handler) (tr : Option Handler)
    (ob nb : Base) (ops1 ops2 : List TOp) (ha1 : AddOnly ops1) (ha2 : AddOnly ops2)
    (hw1 : ∀ op ∈ ops1, op.wf = true) (hw2 : ∀ op ∈ ops2, op.wf = true)
    (hacc1 : Accepted (Tree.new name ic nf tr ob nb) ops1) (hacc2 : Accepted (Tree.new name ic nf tr ob nb) ops2)
    (hsame : ∀ p, (∃ h ms methods, TOp.add p h ms methods ∈ ops1) ↔ (∃ h ms methods, TOp.add p h ms methods ∈ ops2))
    (path : Bytes) (hp : path ≠ []) (hstar : path ≠ [42]) (method : Bytes) (htr : tr = none ∨ method ≠ mTRACE)
    (f1 f2 : Found)
    (h1 : ((Tree.new name ic nf tr ob nb).run ops1).handler env path [] method = .res f1)
    (h2 : ((Tree.new name ic nf tr ob nb).run ops2).handler env path [] method = .res f2) :
    let rs := (tableOf ((Tree.new name ic nf tr ob nb).run ops1)).patterns
    (∀ p, p ∈ rs ↔ p ∈ (tableOf ((Tree.new name ic nf tr ob nb).run ops2)).patterns) ∧
    Admissible env ic rs path (outcome f1) ∧ Admissible env ic rs path (outcome f2) ∧
    (f1.node = none ↔ f2.node = none) := by
  intro rs
  have hrs : ∀ p, p ∈ rs ↔ p ∈ (tableOf ((Tree.new name ic nf tr ob nb).run ops2)).patterns := by
    intro p
    rw [C02_routes_registered name ic nf tr ob nb ops1 ha1 hw1 hacc1 p,
      C02_routes_registered name ic nf tr ob nb ops2 ha2 hw2 hacc2 p]
    exact hsame p
  refine ⟨hrs, ?_, ?_, ?_⟩
  · exact C02_resolve env name ic nf tr ob nb ops1 ha1 hw1 rs (fun _ => Iff.rfl) path hp hstar method htr f1 h1
  · exact C02_resolve env name ic nf tr ob nb ops2 ha2 hw2 rs hrs path hp hstar method htr f2 h2
  · rw [C02_resolve_404 env name ic nf tr ob nb ops1 ha1 hw1 rs (fun _ => Iff.rfl) path hp hstar method htr f1 h1,
      C02_resolve_404 env name ic nf tr ob nb ops2 ha2 hw2 rs hrs path hp hstar method htr f2 h2]

/-! ## Non-vacuity -/

/-- The D1 table as a tree: all hypotheses of `C02_complete` … `C02_resolve_partial` hold. -/
example : StructInv2 exD1 ∧ Canonical exD1 [exPA, exPB] ∧ NamesOkL [] exD1.root.children ∧ exD1.trace = none :=
  ⟨exD1_struct, exD1_canon, exD1_names, rfl⟩

/-- On it `/users/5/7/log` is dispatched to the second route with `id=5, action=7` — the backtracking
case: the regexp child `{page:\d+}` matches `7`, its subtree misses, the named sibling takes over. -/
example : (match exD1.handler P15.envAll exPathD1 [] mGET with
    | .res f => outcome f
    | _ => none) = some (exPB, [([105, 100], [53]), ([97, 99, 116, 105, 111, 110], [55])]) := by decide

/-- The chain found is the index path `[0, 0, 1]`; `[0, 0, 0]` (through `{page:\d+}`) reaches nothing. -/
example : ReachesBy P15.envAll [] exD1.root exPathD1 [] [0, 0, 1] exActionLeaf
    [([105, 100], [53]), ([97, 99, 116, 105, 111, 110], [55])] :=
  .child (c := exUsersNode) (cap := []) (rest := [53, 47, 55, 47, 108, 111, 103]) rfl (by decide)
    (.child (c := exIdNode) (cap := [53]) (rest := [55, 47, 108, 111, 103]) rfl (by decide)
      (.child (c := exActionLeaf) (cap := [55]) (rest := []) rfl (by decide) (.here (by decide))))

/-- A miss on the same tree (`/users/5`): hypotheses of `C02_complete_miss`. -/
example : exD1.root.matchChildren P15.envAll [] [47, 117, 115, 101, 114, 115, 47, 53] [] = .miss [] := by rfl

/-- A node of the tree other than the root stands for remainders (`Node.Canon`, used by `C02_resolve_node`). -/
example : exIdNode ∈ exD1.root.nodes ∧
    Node.Canon exIdNode [([123, 112, 97, 103, 101, 58, 92, 100, 43, 125], exPA),
      ([123, 97, 99, 116, 105, 111, 110, 125, 47, 108, 111, 103], exPB)] := ⟨exD1_mem, by decide⟩

/-- A tree that is NOT canonical for a table is detected: the D1 tree does not stand for `[exPA]`. -/
example : ¬ Canonical exD1 [exPA] := by decide

/-- Hypotheses of `C02_canonical` / `C02_resolve`: the add-only history `/a`, `/a/b` of well-formed patterns. -/
example : AddOnly opsAB ∧ (∀ op ∈ opsAB, op.wf = true) := ⟨opsAB_addOnly, opsAB_wf⟩

/-- Hypotheses of `C02_order_independent`: the two registration orders of `/a`, `/a/b` (the second one
splits the node `/a/b` into `/a` + `/b`); every registration is accepted in both orders (evaluated by
the kernel), and both histories register the same patterns. -/
example : AddOnly opsAB ∧ AddOnly opsBA ∧ (∀ op ∈ opsAB, op.wf = true) ∧ (∀ op ∈ opsBA, op.wf = true) ∧
    Accepted P15.exT0 opsAB ∧ Accepted P15.exT0 opsBA ∧
    (∀ p, (∃ h ms methods, TOp.add p h ms methods ∈ opsAB) ↔ (∃ h ms methods, TOp.add p h ms methods ∈ opsBA)) :=
  ⟨opsAB_addOnly, opsBA_addOnly, opsAB_wf, opsBA_wf, accAB, accBA, opsAB_same⟩

/-- The instance of `C02_order_independent` for these two orders. -/
example (env : Env) (path : Bytes) (hp : path ≠ []) (hstar : path ≠ [42]) (f1 f2 : Found)
    (h1 : (P15.exT0.run opsAB).handler env path [] mGET = .res f1)
    (h2 : (P15.exT0.run opsBA).handler env path [] mGET = .res f2) :
    Admissible env [] (tableOf (P15.exT0.run opsAB)).patterns path (outcome f1) ∧
    Admissible env [] (tableOf (P15.exT0.run opsAB)).patterns path (outcome f2) ∧ (f1.node = none ↔ f2.node = none) :=
  let h := C02_order_independent env [114] [] { base := .notFound } none .options .notAllowed opsAB opsBA
    opsAB_addOnly opsBA_addOnly opsAB_wf opsBA_wf accAB accBA opsAB_same path hp hstar mGET (.inl rfl) f1 f2 h1 h2
  ⟨h.2.1, h.2.2.1, h.2.2.2⟩

end Mux.C02
