/-
  C14 — the `Hosts` matcher, side hypotheses discharged.  The theorems `C14_match_found`, `C14_match_reject`,
  `C14_reject_clean` of `Mux/Properties/C14.lean` assume `NamesOkL [] root.children` and `Node.All IdxLit root`
  of the private tree; here they are PROVED for every matcher reached from `NewHosts` by a history of
      Add (domain with balanced, non-nested braces) | Delete | RegisterInterceptor(rule)
  in which `RegisterInterceptor(rule)` is not called while a REGEXP segment stored in the tree uses `rule` as
  its rule text (`HostsReachWf`) — in particular for every history that registers its interceptors before the
  first domain (`C14_reach_regsFirst`).  `Delete` is shown to leave every host that was resolved to ANOTHER
  domain matched exactly as before (`C14_delete_frame`, from the frame property of `Tree.remove`,
  `C03_frame_remove`).

  The side condition on `RegisterInterceptor` (stated, not hidden): a registration changes the table under which
  the stored segments were parsed; `{a:rule}` stored as a regexp segment would parse as an interceptor segment
  afterwards, so the tree invariants ("every segment is `newSegment ic` of its text") survive exactly when no
  stored regexp segment uses that rule.  For other histories the theorems of `C14.lean` with their explicit
  hypotheses remain the available form.

  Helper lemmas: `Mux/Proofs/HostsReach.lean`, `Mux/Proofs/SetIc.lean` (namespace `Mux.P14`).
-/
import Mux.Proofs.HostsReachExamples
import Mux.Properties.C14
namespace Mux.C14
open Mux Mux.P12 Mux.P14

/-- The private tree of such a matcher satisfies all tree invariants of C01–C03 (`AllInv`: `StructInv2`,
`WellFormedTree`, `TInv`), and the matcher is reachable in the sense of `C14.lean`. -/
theorem C14_reach_tree (hs : Hosts) (h : HostsReachWf hs) : AllInv hs.tree ∧ HostsReach hs :=
  ⟨h.inv, h.reach⟩

/-- "Interceptors first" is a sufficient condition; the private tree is then even the tree of a well-formed
history of `Tree.add`/`Tree.remove` (`ReachAll`), so every theorem about such trees applies to it verbatim. -/
theorem C14_reach_regsFirst (regs ops : List HOp) (hregs : ∀ op ∈ regs, HOp.isReg op)
    (hops : ∀ op ∈ ops, HOp.domainOk op) :
    HostsReachWf (hostsRun (hostsRun Hosts.empty regs) ops) ∧
      ReachAll (hostsRun (hostsRun Hosts.empty regs) ops).tree :=
  ⟨HostsReachWf.of_regsFirst hregs hops, regsFirst_reachAll hregs hops⟩

/-- The two side hypotheses of `C14_match_found`/`C14_match_reject`/`C14_reject_clean` hold. -/
theorem C14_reach_hyps (hs : Hosts) (h : HostsReachWf hs) :
    NamesOkL [] hs.tree.root.children ∧ Node.All IdxLit hs.tree.root ∧ TreeInv hs.tree ∧ HostsGet hs :=
  ⟨h.names, h.idxLit, h.reach.inv, h.reach.get⟩

/-- `C14_match_found` without side hypotheses: an accepting `Hosts.Match` resolved the normalised host along a
non-empty chain of the private tree to a node with a `GET` entry (a registered domain), every captured value
satisfies its constraint, and the reported parameters are exactly the captures of that domain pattern. -/
theorem C14_match_found_reach (env : Env) (hs : Hosts) (hr : HostsReachWf hs)
    (host path : Bytes) (ha : isAscii host = true) (p : Bytes) (q : Params)
    (h : hs.match env host path [] = .accept p q) :
    p = path ∧ ∃ (n : Node) (chain : List (Seg × Bytes)),
      chain ≠ [] ∧ Chain hs.tree.root (chain.map (·.1)) n ∧ normHost host = instChain chain ∧
      (∀ sv ∈ chain, sv.1.Satisfies env hs.tree.ic sv.2) ∧ q = captures chain ∧
      (n.handlers.get? mGET).isSome = true :=
  C14_match_found env hs hr.reach.inv hr.names hr.idxLit host path ha p q h

/-- With incoming parameters `ps` whose keys are not parameter names of the tree (`NamesOkL ps.keys`; the
index hypothesis is discharged). -/
theorem C14_match_found_from_reach (env : Env) (hs : Hosts) (hr : HostsReachWf hs) (ps : Params)
    (hN : NamesOkL ps.keys hs.tree.root.children)
    (host path : Bytes) (ha : isAscii host = true) (p : Bytes) (q : Params)
    (h : hs.match env host path ps = .accept p q) :
    p = path ∧ ∃ (n : Node) (chain : List (Seg × Bytes)),
      chain ≠ [] ∧ Chain hs.tree.root (chain.map (·.1)) n ∧ normHost host = instChain chain ∧
      (∀ sv ∈ chain, sv.1.Satisfies env hs.tree.ic sv.2) ∧ q = ps ++ captures chain ∧
      (n.handlers.get? mGET).isSome = true :=
  C14_match_found_from env hs hr.reach.inv ps hN hr.idxLit host path ha p q h

/-- `C14_match_reject` without side hypotheses (no incoming parameters). -/
theorem C14_match_reject_reach (env : Env) (hs : Hosts) (hr : HostsReachWf hs)
    (host path : Bytes) (ha : isAscii host = true) (p : Bytes) (q : Params)
    (h : hs.match env host path [] = .reject p q) :
    p = path ∧ (q = [] ∨ ∃ (n : Node) (chain : List (Seg × Bytes)),
      chain ≠ [] ∧ Chain hs.tree.root (chain.map (·.1)) n ∧ normHost host = instChain chain ∧
      q = [] ++ captures chain ∧ n.handlers ≠ [] ∧ n.handlers.get? mGET = none) :=
  C14_match_reject env hs [] hr.names hr.idxLit host path ha p q h

/-- `C14_reject_clean` without side hypotheses: a rejecting `Hosts.Match` of a reachable matcher leaves no
parameters behind and never rewrites the path. -/
theorem C14_reject_clean_reach (env : Env) (hs : Hosts) (hr : HostsReachWf hs)
    (host path : Bytes) (ha : isAscii host = true) (p : Bytes) (q : Params)
    (h : hs.match env host path [] = .reject p q) : p = path ∧ q = [] :=
  C14_reject_clean env hs hr.reach.get [] hr.names hr.idxLit host path ha p q h

/-- …and with incoming parameters disjoint from the tree's names they come back unchanged. -/
theorem C14_reject_clean_from_reach (env : Env) (hs : Hosts) (hr : HostsReachWf hs) (ps : Params)
    (hN : NamesOkL ps.keys hs.tree.root.children)
    (host path : Bytes) (ha : isAscii host = true) (p : Bytes) (q : Params)
    (h : hs.match env host path ps = .reject p q) : p = path ∧ q = ps :=
  C14_reject_clean env hs hr.reach.get ps hN hr.idxLit host path ha p q h

/-- **`C14_delete_frame`.**  `Delete(d)` leaves every host that was resolved to a node of a DIFFERENT domain
(`q.pattern ≠ lower d`) matched exactly as before: same verdict, same parameters, same path. -/
theorem C14_delete_frame (env : Env) (hs hs' : Hosts) (hr : HostsReachWf hs) (d : Bytes)
    (hd : hs.delete d = .ok hs') (host path : Bytes) (ha : isAscii host = true) (f : Found) (q : Node)
    (hres : hs.tree.handler env (normHost host) [] mGET = .res f) (hq : f.node = some q)
    (hne : q.pattern ≠ toLower d) :
    hs'.match env host path [] = hs.match env host path [] :=
  delete_frame env hr hd host path ha hres hq hne

/-- `Delete` never fails on such a matcher, and the result is again such a matcher. -/
theorem C14_delete_ok (hs : Hosts) (hr : HostsReachWf hs) (d : Bytes) :
    ∃ hs', hs.delete d = .ok hs' ∧ hs' = hostsStep hs (.delete d) := by
  rw [Hosts.delete_eq]
  cases he : hs.tree.remove (toLower d) [] with
  | error e => exact absurd he (P11.remove_no_error hr.inv.ti _ _ e)
  | ok t' => exact ⟨_, rfl, by simp [hostsStep, Hosts.delete_eq, he, Except.map]⟩

/-! ## Non-vacuity -/

/-- `RegisterInterceptor(0, "d")`, `Add("a.com")`, `Add("A.com.CN")` is such a history (interceptors first); -/
example : HostsReachWf exHs := exHs_reachWf
/-- so is the interleaved `Add("a.com")`, `RegisterInterceptor(0, "d")`, `Add("A.com.CN")`; -/
example : HostsReachWf (hostsRun Hosts.empty exHOps2) := exHs2_reachWf
/-- incoming parameters `x = y` are disjoint from the tree's parameter names (`_from_reach` forms); -/
example : NamesOkL (AMap.keys [([120], [121])]) exHs.tree.root.children := exHs_namesFrom
/-- the host `A.COM.cn:80` is resolved to the domain `a.com.cn` and accepted; -/
example : ∃ f q, exHs.tree.handler P14.exEnv (normHost hostACn) [] mGET = .res f ∧ f.node = some q ∧
    q.pattern = toLower dACn ∧ f.ok = true := by
  obtain ⟨f, q, h1, h2, h3, _, h5, _⟩ := exHs_answer
  exact ⟨f, q, h1, h2, h3, h5⟩
/-- `Delete("A.COM")` (the INTERIOR node `a.com`, any letter case) succeeds and `A.COM.cn:80` is still accepted
with the same parameters: the hypotheses of `C14_delete_frame` are satisfiable. -/
example : ∃ hs', exHs.delete [65, 46, 67, 79, 77] = .ok hs' ∧
    hs'.match P14.exEnv hostACn [47] [] = exHs.match P14.exEnv hostACn [47] [] ∧
    exHs.match P14.exEnv hostACn [47] [] = .accept [47] [] := by
  obtain ⟨f, q, h1, h2, h3, _, h5, h6⟩ := exHs_answer
  obtain ⟨hs', hd, _⟩ := C14_delete_ok exHs exHs_reachWf [65, 46, 67, 79, 77]
  have ha : isAscii hostACn = true := by decide
  refine ⟨hs', hd, C14_delete_frame P14.exEnv exHs hs' exHs_reachWf _ hd hostACn [47] ha f q h1 h2 ?_, ?_⟩
  · rw [h3]; decide
  · rw [Hosts.match_res P14.exEnv exHs hostACn [47] [] f ha h1, h5, h6]; rfl

end Mux.C14
