/-
  C13 (whole histories) — the clauses of C13 that quantify over "every history of Add/Remove/Use" (and of
  operations on the member routers through their own handles), stated for every state `grun ({}, rt) prog`
  reachable from a new group `{}` over an arbitrary router table `rt`:

    * `C13_history_inv`     router names stay unique, member ids stay distinct, every member id is in the table
                            and its router is the initial one after its own plain history `effOps`;
    * `C13_history_order`   members are listed in the order of their (successful) `Add`s;
    * `C13_first_history`   the first accepting router serves the request the matcher produced, exactly as that
                            router alone (its own history) would; the table lookup cannot fail (fault 320 of
                            `C13_first_stop` is unreachable);
    * `C13_notfound_history` no router accepts: the group's not-found handler under exactly the `Use` middlewares;
    * `C13_remove_dispatch` / `C13_remove_frame` / `C13_remove_history`   `Remove(name)` and dispatch;
    * `C13_no_trace_reach`  a rejecting matcher leaves path and parameters alone — EVERY matcher expression over
                            `Hosts` tables made by `NewHosts` and a history (no `hostsFree`/`guarded` restriction).

  Helper lemmas: `Mux/Proofs/GroupHistory.lean` (namespace `Mux.P24`), `Mux/Proofs/OnionGroup.lean` (`Mux.P10`).
-/
import Mux.Proofs.GroupHistory24
import Mux.Proofs.NoTraceReach
import Mux.Proofs.HostsLateExamples
import Mux.Proofs.GroupLiftRec
import Mux.Properties.C13
namespace Mux.C13
open Mux Mux.P10 Mux.P24

/-! ## Invariants of every history -/

/-- **Names stay unique; members exist.**  In every state reached from a new group by ANY history of
`Add`/`Use`/`Remove` and of `Handle`/`Remove`/`Clean`/`Use` calls on the routers of the table (failed `Add`s leave
the state unchanged): the names of the member routers are pairwise distinct, the member ids are pairwise distinct,
and every member id `e.1` is present in the table — the entry is the router `r0` that the INITIAL table had under
that id, after its own plain router history `effOps ({}, rt) e.1 prog` (the `Use` lists of the group included, in
call order), and it still has `r0`'s name.  No hypothesis: `rt` and `prog` are arbitrary.  This discharges the
hypothesis `hnd` of `C13_names_nodup` and `hr` of `C13_first` for all reachable states. -/
theorem C13_history_inv (rt : RTab) (prog : List GOp) :
    let s := grun ({}, rt) prog
    (s.1.names s.2).Nodup ∧ (Group.ids s.1).Nodup ∧
    (∀ e ∈ s.1.routers, ∃ r0, rt.get? e.1 = some r0 ∧
        s.2.get? e.1 = some (r0.run (effOps ({}, rt) e.1 prog)) ∧
        (r0.run (effOps ({}, rt) e.1 prog)).tree.name = r0.tree.name) := by
  intro s
  have hinv : GInv s := ginv_run prog (ginv_init rt)
  refine ⟨hinv.names, hinv.ids, fun e he => ?_⟩
  obtain ⟨r, hr⟩ := nameOf_isSome (hinv.present e he)
  have hget := grun_get prog ({}, rt) List.nodup_nil e.1
  rw [show (grun ({}, rt) prog).2.get? e.1 = some r from hr] at hget
  cases h0 : rt.get? e.1 with
  | none => rw [show (({} : Group), rt).2.get? e.1 = none from h0] at hget; cases hget
  | some r0 =>
    rw [show (({} : Group), rt).2.get? e.1 = some r0 from h0] at hget
    simp only [Option.map_some, Option.some.injEq] at hget
    exact ⟨r0, rfl, by rw [show s.2.get? e.1 = some r from hr, hget], run_name r0 _⟩

/-- The names of the members are, at every moment, the names the INITIAL table has for the member ids: neither a
group operation nor an operation on a router renames anything. -/
theorem C13_history_names (rt : RTab) (prog : List GOp) :
    let s := grun ({}, rt) prog
    s.1.names s.2 = s.1.routers.filterMap (fun e => rt.nameOf e.1) := by
  intro s
  rw [Group.names_eq]
  exact names_congr _ rt s.2 (fun id => grun_nameOf prog ({}, rt) id)

/-- **Order of addition.**  One more operation changes the member list only by appending the new entry at the END
(a successful `Add`) or by deleting entries while keeping the order of the others (`Remove`); so the members are
always listed in the order in which they were added. -/
theorem C13_history_order (rt : RTab) (prog : List GOp) (op : GOp) :
    let s := grun ({}, rt) prog
    let s' := grun ({}, rt) (prog ++ [op])
    (∃ mt rid, op = .add mt rid ∧ (s.1.add s.2 mt rid).isSome = true ∧ s'.1.routers = s.1.routers ++ [(rid, mt)]) ∨
      s'.1.routers.Sublist s.1.routers := by
  intro s s'
  have : s' = gstep s op := by simp [s', s, grun, List.foldl_append]
  rw [this]
  exact gstep_routers s op

/-! ## Dispatch in every reachable state -/

/-- **First accepting router, end to end.**  In every state reached by a history from a new group: if the entries
before `(rid, m)` reject the request as originally received and `m` accepts it with `(p, ps)`, then router `rid`
IS in the table (fault 320 cannot happen) and the group's answer is exactly the answer that the router the initial
table had under `rid`, after its own plain history `effOps`, gives ALONE to the request with path `p` and the
captured parameters `ps`. -/
theorem C13_first_history (rt : RTab) (prog : List GOp) (env : Env) (tab : Nat → Option Hosts) (req : Req)
    (pre post : List (Nat × Matcher)) (rid : Nat) (m : Matcher) (p : Bytes) (ps : Params) :
    let s := grun ({}, rt) prog
    s.1.routers = pre ++ (rid, m) :: post → (∀ e ∈ pre, Rejects env tab req e) →
    m.run env tab req req.path [] = .accept p ps →
    ∃ r0, rt.get? rid = some r0 ∧
      s.1.serve env tab s.2 req = (r0.run (effOps ({}, rt) rid prog)).serveContext env { req with path := p } ps := by
  intro s hg hpre hm
  obtain ⟨r0, h0, hget, _⟩ := (C13_history_inv rt prog).2.2 (rid, m) (by rw [hg]; simp)
  exact ⟨r0, h0, C13_first env tab s.2 s.1 req pre post rid m p ps _ hg hpre hm hget⟩

/-- Consequence: in a reachable state the dispatch never ends in the "router missing from the table" fault. -/
theorem C13_no_missing_router (rt : RTab) (prog : List GOp)
    (pre post : List (Nat × Matcher)) (rid : Nat) (m : Matcher) :
    let s := grun ({}, rt) prog
    s.1.routers = pre ++ (rid, m) :: post → s.2.get? rid ≠ none := by
  intro s hg h
  obtain ⟨r0, _, hget, _⟩ := (C13_history_inv rt prog).2.2 (rid, m) (by rw [hg]; simp)
  rw [h] at hget; cases hget

/-- **No router accepts, every history.**  In every reachable state, if every matcher rejects the request, the call
is the group's own not-found handler wrapped in exactly the middlewares given to `Group.Use` so far, in call order
(each created with empty method, pattern and router name), with no node, no parameters, router name `""` and the
path as received. -/
theorem C13_notfound_history (rt : RTab) (prog : List GOp) (env : Env) (tab : Nat → Option Hosts) (req : Req) :
    let s := grun ({}, rt) prog
    (∀ e ∈ s.1.routers, Rejects env tab req e) →
    ∃ c, s.1.serve env tab s.2 req = .call c ∧
      c.handler = { base := .groupNotFound, wraps := (useArgs prog).map (fun x => ⟨x, [], [], []⟩) } ∧
      c.node = none ∧ c.ok = false ∧ c.params = [] ∧ c.routerName = [] ∧ c.path = req.path ∧ c.respHeaders = [] := by
  intro s hall
  obtain ⟨c, h1, h2, h3, h4, h5, _, h7, h8, h9, _⟩ := C13_notfound env tab s.2 s.1 req hall
  refine ⟨c, h1, ?_, h7, h8, h3, h4, h5, h9⟩
  have hu : UseInv s.1 := grun_useInv prog ({}, rt) rfl
  rw [h2, hu, grun_ms]
  rfl


/-! ## `Remove(name)` and dispatch -/

/-- The call of `Router.serveContext` carries the router's name. -/
theorem serveContext_routerName (env : Env) (r : Router) (req : Req) (ps : Params) (c : Call)
    (h : r.serveContext env req ps = .call c) : c.routerName = r.tree.name := by
  unfold Router.serveContext at h
  split at h
  · cases h
  · cases h
  · cases h; rfl

/-- The loop of `Group.serve`: a call is the group's own not-found call on the path the loop was entered with, or
the call of a listed router whose matcher accepted the request on that path. -/
theorem go_call_cases (env : Env) (tab : Nat → Option Hosts) (rt : RTab) (g : Group) (req : Req) :
    ∀ (l : List (Nat × Matcher)) (path : Bytes) (c : Call), Group.serve.go env tab rt g req l path = .call c →
      g.notFoundCall path = .call c ∨
      (∃ e ∈ l, ∃ r p ps, rt.get? e.1 = some r ∧ e.2.run env tab req path [] = .accept p ps ∧
        r.serveContext env { req with path := p } ps = .call c) := by
  intro l
  induction l with
  | nil =>
    intro path c h
    rw [go_nil] at h
    exact .inl h
  | cons e rest ih =>
    intro path c h
    obtain ⟨rid, m⟩ := e
    cases hm : m.run env tab req path [] with
    | fault s => rw [go_cons_fault env tab rt g req rid m rest path s hm] at h; cases h
    | unsupported => rw [go_cons_unsupported env tab rt g req rid m rest path hm] at h; cases h
    | accept p ps =>
      rw [go_cons_accept env tab rt g req rid m rest path p ps hm] at h
      cases hr : rt.get? rid with
      | none => rw [hr] at h; cases h
      | some r =>
        rw [hr] at h
        exact .inr ⟨(rid, m), List.mem_cons_self, r, p, ps, hr, hm, h⟩
    | reject p ps =>
      rw [go_cons_reject env tab rt g req rid m rest path p ps hm] at h
      rcases ih path c h with h' | ⟨e, he, h'⟩
      · exact .inl h'
      · exact .inr ⟨e, List.mem_cons_of_mem _ he, h'⟩

/-- **`Remove(name)` takes the router out of dispatch.**  After `Remove(name)` every call the group produces is
either the group's own not-found call (no node, router name `""`), or the call of a member router whose name is NOT
`name` — the call's `routerName` is that other name, and the router's matcher accepted the request as originally
received.  Holds in every state (so in every reachable one, where names identify routers: `C13_history_inv`). -/
theorem C13_remove_dispatch (env : Env) (tab : Nat → Option Hosts) (rt : RTab) (g : Group) (req : Req) (name : Bytes)
    (c : Call) (h : (g.remove rt name).serve env tab rt req = .call c) :
    (c.handler = g.notFound ∧ c.node = none ∧ c.routerName = [] ∧ c.ok = false) ∨
    ∃ e ∈ g.routers, ∃ r p ps, rt.get? e.1 = some r ∧ r.tree.name ≠ name ∧ c.routerName = r.tree.name ∧
      e.2.run env tab req req.path [] = .accept p ps ∧ r.serveContext env { req with path := p } ps = .call c := by
  unfold Group.serve at h
  rcases go_call_cases env tab rt (g.remove rt name) req _ req.path c h with h' | ⟨e, he, r, p, ps, hr, hm, hc⟩
  · left
    unfold Group.notFoundCall at h'
    cases h'
    exact ⟨rfl, rfl, rfl, rfl⟩
  · right
    simp only [Group.remove, List.mem_filter] at he
    refine ⟨e, he.1, r, p, ps, hr, ?_, serveContext_routerName env r _ ps c hc, hm, hc⟩
    have := he.2
    rw [hr] at this
    simpa using this

/-- **`Remove(name)` leaves the others alone.**  A request whose first accepting router has another name than
`name` is served after `Remove(name)` exactly as before. -/
theorem C13_remove_frame (env : Env) (tab : Nat → Option Hosts) (rt : RTab) (g : Group) (req : Req) (name : Bytes)
    (pre post : List (Nat × Matcher)) (rid : Nat) (m : Matcher) (p : Bytes) (ps : Params) (r : Router)
    (hg : g.routers = pre ++ (rid, m) :: post) (hpre : ∀ e ∈ pre, Rejects env tab req e)
    (hm : m.run env tab req req.path [] = .accept p ps) (hr : rt.get? rid = some r) (hne : r.tree.name ≠ name) :
    (g.remove rt name).serve env tab rt req = g.serve env tab rt req := by
  rw [C13_first env tab rt g req pre post rid m p ps r hg hpre hm hr]
  let f : Nat × Matcher → Bool := fun e =>
    match rt.get? e.1 with
    | some r => decide (r.tree.name ≠ name)
    | none => true
  have hf : f (rid, m) = true := by simp [f, hr, hne]
  have hg' : (g.remove rt name).routers = pre.filter f ++ (rid, m) :: post.filter f := by
    show g.routers.filter f = _
    rw [hg, List.filter_append, List.filter_cons, if_pos hf]
  exact C13_first env tab rt (g.remove rt name) req _ _ rid m p ps r hg'
    (fun e he => hpre e (List.mem_filter.mp he).1) hm hr

/-- The same when every matcher rejected before: the group's not-found answer is not affected by `Remove`. -/
theorem C13_remove_frame_notfound (env : Env) (tab : Nat → Option Hosts) (rt : RTab) (g : Group) (req : Req)
    (name : Bytes) (hall : ∀ e ∈ g.routers, Rejects env tab req e) :
    (g.remove rt name).serve env tab rt req = g.serve env tab rt req := by
  rw [P18.serve_all_reject env tab rt g req hall,
    P18.serve_all_reject env tab rt (g.remove rt name) req
      (fun e he => hall e (by simp only [Group.remove, List.mem_filter] at he; exact he.1))]
  rfl

/-- **`Remove(name)` over a history.**  Take any reachable state, then `Remove(name)`: `name` is no longer among
the member names, and every call the group produces from then on is its own not-found call or the call of a member
whose name — the one the INITIAL table has for its id, names never change — differs from `name`, computed by that
router after its own plain history. -/
theorem C13_remove_history (rt : RTab) (prog : List GOp) (name : Bytes) (env : Env) (tab : Nat → Option Hosts)
    (req : Req) :
    let s := grun ({}, rt) prog
    let s' := grun ({}, rt) (prog ++ [.remove name])
    name ∉ s'.1.names s'.2 ∧
    ∀ c, s'.1.serve env tab s'.2 req = .call c →
      (c.handler = s.1.notFound ∧ c.node = none ∧ c.routerName = [] ∧ c.ok = false) ∨
      ∃ e ∈ s.1.routers, ∃ r0 p ps, rt.get? e.1 = some r0 ∧ r0.tree.name ≠ name ∧ c.routerName = r0.tree.name ∧
        e.2.run env tab req req.path [] = .accept p ps ∧
        (r0.run (effOps ({}, rt) e.1 prog)).serveContext env { req with path := p } ps = .call c := by
  intro s s'
  have hs' : s' = (s.1.remove s.2 name, s.2) := by simp [s', s, grun, List.foldl_append, gstep]
  rw [hs']
  refine ⟨(C13_names_remove s.1 s.2 name).2.2.1, fun c hc => ?_⟩
  rcases C13_remove_dispatch env tab s.2 s.1 req name c hc with h | ⟨e, he, r, p, ps, hr, hne, hn, hm, hcall⟩
  · exact .inl h
  · obtain ⟨r0, h0, hget, hname⟩ := (C13_history_inv rt prog).2.2 e he
    have : r = r0.run (effOps ({}, rt) e.1 prog) := by
      have := hr.symm.trans hget; simpa using this
    subst this
    exact .inr ⟨e, he, r0, p, ps, h0, by rw [← hname]; exact hne, by rw [← hname]; exact hn, hm, hcall⟩

/-- … and the frame over a history: in any reachable state, a request whose first accepting member is router `rid`
— known to the INITIAL table under another name than `name` — gets the very same answer after `Remove(name)`.
No hypothesis about the table is left (`C13_history_inv` supplies the entry and its name). -/
theorem C13_remove_frame_history (rt : RTab) (prog : List GOp) (name : Bytes) (env : Env) (tab : Nat → Option Hosts)
    (req : Req) (pre post : List (Nat × Matcher)) (rid : Nat) (m : Matcher) (p : Bytes) (ps : Params) :
    let s := grun ({}, rt) prog
    let s' := grun ({}, rt) (prog ++ [.remove name])
    s.1.routers = pre ++ (rid, m) :: post → (∀ e ∈ pre, Rejects env tab req e) →
    m.run env tab req req.path [] = .accept p ps → rt.nameOf rid ≠ some name →
    s'.1.serve env tab s'.2 req = s.1.serve env tab s.2 req := by
  intro s s' hg hpre hm hne
  have hs' : s' = (s.1.remove s.2 name, s.2) := by simp [s', s, grun, List.foldl_append, gstep]
  obtain ⟨r0, h0, hget, hname⟩ := (C13_history_inv rt prog).2.2 (rid, m) (by rw [hg]; simp)
  rw [hs']
  refine C13_remove_frame env tab s.2 s.1 req name pre post rid m p ps _ hg hpre hm hget ?_
  rw [hname]
  intro e
  apply hne
  simp [RTab.nameOf, h0, e]

/-! ## Rejections leave no trace: every matcher over reachable `Hosts` tables -/

/-- **No trace, in the property's own generality.**  Let every `Hosts` matcher occurring in the expression `m` — at
any depth, bare or inside `Or`/`And` — be a table entry made by `NewHosts` and any history of `Add` (of domains the
model's `Add` supports: balanced, non-nested braces), `Delete` and `RegisterInterceptor` (`HostsLateWf`).  If `m`
rejects, it leaves the request path AND the parameters exactly as it found them, whatever they were — the only
requirement on the incoming parameters is that they are a map (one entry per key), which is what the context holds
at every point of a dispatch (`P19.run_nodup`; `[]` at the group loop).  This removes the `hostsFree`/`guarded`
restriction of `C13_no_trace`/`C13_no_trace_guarded`.  (For `And` the statement is about the model's restore step
itself, see `C13_no_trace`; for `Hosts` it is a fact about the private tree: a host that walks into the tree and
fails has every captured parameter undone, and a node with handlers always has the `GET` entry.) -/
theorem C13_no_trace_reach (env : Env) (tab : Nat → Option Hosts) (m : Matcher)
    (hm : P12.AllHosts (fun id => ∃ hs, tab id = some hs ∧ P17.HostsLateWf hs) m)
    (req : Req) (path : Bytes) (ps : Params) (hnd : ps.keys.Nodup) (p' : Bytes) (ps' : Params)
    (h : m.run env tab req path ps = .reject p' ps') : p' = path ∧ ps' = ps :=
  run_reject_reach env tab m
    (P12.AllHosts.mono (fun _ ⟨hs, ht, hw⟩ => ⟨hs, ht, hw.reach.get, hw.idxLit⟩) m hm) req path ps hnd p' ps' h

/-- The case the group loop uses: no incoming parameters. -/
theorem C13_no_trace_reach_nil (env : Env) (tab : Nat → Option Hosts) (m : Matcher)
    (hm : P12.AllHosts (fun id => ∃ hs, tab id = some hs ∧ P17.HostsLateWf hs) m)
    (req : Req) (path : Bytes) (p' : Bytes) (ps' : Params)
    (h : m.run env tab req path [] = .reject p' ps') : p' = path ∧ ps' = [] :=
  C13_no_trace_reach env tab m hm req path [] List.nodup_nil p' ps' h

/-- Consequence for `Or`: over such tables an `Or` rejects exactly when EVERY member rejects the request in the state
the `Or` was entered with — no member sees anything an earlier member left behind. -/
theorem C13_or_reject_iff_reach (env : Env) (tab : Nat → Option Hosts) (ms : List Matcher)
    (hm : P12.AllHosts (fun id => ∃ hs, tab id = some hs ∧ P17.HostsLateWf hs) (.or ms))
    (req : Req) (path : Bytes) (ps : Params) (hnd : ps.keys.Nodup) :
    (∃ p' ps', (Matcher.or ms).run env tab req path ps = .reject p' ps') ↔
      ∀ x ∈ ms, x.run env tab req path ps = .reject path ps := by
  rw [P12.AllHosts] at hm
  rw [Matcher.run]
  induction ms with
  | nil => simp [runOr]
  | cons a ms ih =>
    rw [P12.AllHostsL] at hm
    constructor
    · rintro ⟨p', ps', h⟩
      obtain ⟨q, qs, h1, h2⟩ := runOr_cons_reject env tab a ms req path ps p' ps' h
      obtain ⟨rfl, rfl⟩ := C13_no_trace_reach env tab a hm.1 req path ps hnd q qs h1
      intro x hx
      rcases List.mem_cons.mp hx with rfl | hx
      · exact h1
      · exact (ih hm.2).mp ⟨p', ps', h2⟩ x hx
    · intro h
      rw [runOr, h a (by simp)]
      exact (ih hm.2).mpr (fun x hx => h x (List.mem_cons_of_mem _ hx))

/-! ## Non-vacuity

A group over the table `exRt` (routers `a` = id 0, `b` = id 1): both are added, the group gets a middleware, router
`b` is modified through its own handle, a second `Add` of router `a` fails (duplicate name). -/

def hProg : List GOp :=
  [.add exAnd 0, .add (.pathVersion [] [[47, 118, 49, 47]]) 1, .use [7], .router 1 (.use [3]), .add .any 0]

/-- the state reached by `hProg`: both members listed in the order of addition, the failing `Add` changed nothing;
router `b`'s own history as `C13_history_inv` computes it -/
example : (grun ({}, exRt) hProg).1.routers = [(0, exAnd), (1, .pathVersion [] [[47, 118, 49, 47]])] ∧
    (grun ({}, exRt) hProg).1.names (grun ({}, exRt) hProg).2 = [[97], [98]] ∧
    effOps ({}, exRt) 1 hProg = [.use [], .use [7], .use [3]] := by
  refine ⟨rfl, by decide +kernel, by rfl⟩

/-- hypotheses of `C13_first_history` on that state: entry 0 rejects `GET /v1/x`, entry 1 accepts it as `/x` -/
example : (grun ({}, exRt) hProg).1.routers = [(0, exAnd)] ++ (1, .pathVersion [] [[47, 118, 49, 47]]) :: [] ∧
    (∀ e ∈ [(0, exAnd)], Rejects exEnv (fun _ => none) exReq e) ∧
    (Matcher.pathVersion [] [[47, 118, 49, 47]]).run exEnv (fun _ => none) exReq exReq.path [] = .accept [47, 120] [] := by
  refine ⟨rfl, ?_, rfl⟩
  intro e he; simp only [List.mem_singleton] at he; subst he
  exact ⟨_, _, rfl⟩

/-- hypotheses of `C13_remove_frame` for `Remove("a")` on that state (the accepting router is `b`), and the premise
of `C13_remove_dispatch` / `C13_remove_history` (the group does produce a call after the removal: router `b`'s) -/
example : exRt.get? 1 = some (exRouter [98]) ∧ (exRouter [98]).tree.name ≠ [97] ∧
    (∃ c, ((grun ({}, exRt) (hProg ++ [.remove [97]])).1.serve exEnv (fun _ => none)
      (grun ({}, exRt) (hProg ++ [.remove [97]])).2 exReq) = .call c ∧ c.routerName = [98]) := by
  refine ⟨rfl, by decide, ?_⟩
  obtain ⟨r0, h0, hs⟩ := C13_first_history exRt (hProg ++ [.remove [97]]) exEnv (fun _ => none) exReq [] []
    1 (.pathVersion [] [[47, 118, 49, 47]]) [47, 120] [] rfl (by simp) rfl
  cases h0
  rw [hs]
  exact ⟨_, rfl, rfl⟩

/-- hypothesis of `C13_notfound_history` on that state: `GET /x` is rejected by both members; the group's
middlewares so far are `[7]` -/
example : (∀ e ∈ (grun ({}, exRt) hProg).1.routers,
      Rejects exEnv (fun _ => none) { exReq with path := [47, 120] } e) ∧ useArgs hProg = [7] := by
  refine ⟨?_, rfl⟩
  intro e he
  have : (grun ({}, exRt) hProg).1.routers = [(0, exAnd), (1, .pathVersion [] [[47, 118, 49, 47]])] := rfl
  rw [this] at he
  simp only [List.mem_cons, List.not_mem_nil, or_false] at he
  rcases he with he | he <;> subst he <;> exact ⟨_, _, rfl⟩

/-- hypotheses of `C13_no_trace_reach` for an UNGUARDED `Hosts` inside an `Or` (excluded by `C13_no_trace` and
`C13_no_trace_guarded`): the table entry is the matcher of `C14late` (a domain added after a late
`RegisterInterceptor`), the host `5.foo.x.y` walks two parameter segments deep into its tree and is rejected, the
header-version member rejects as well; the incoming parameters are a map. -/
def nvTab : Nat → Option Hosts := fun id => if id = 0 then some P17.exL else none
def nvOr : Matcher := .or [.hosts 0, .headerVersion [] [118] [[50]]]
example : nvOr.guarded = false ∧
    P12.AllHosts (fun id => ∃ hs, nvTab id = some hs ∧ P17.HostsLateWf hs) nvOr ∧
    (AMap.keys ([([98], [49])] : Params)).Nodup ∧
    nvOr.run P17.exLEnv nvTab { method := [71], path := [47], host := P17.hostL2 } [47] [([98], [49])] =
      .reject [47] [([98], [49])] := by
  refine ⟨by decide, ?_, by decide, ?_⟩
  · simp only [nvOr, P12.AllHosts, P12.AllHostsL, and_true]
    exact ⟨P17.exL, rfl, P17.exL_lateWf⟩
  · have h : P17.exL.match P17.exLEnv P17.hostL2 [47] [([98], [49])] = .reject [47] [([98], [49])] :=
      P17.outView_reject (by
        simp only [P17.exL, P17.exLOps, P12.hostsRun, List.foldl_cons, List.foldl_nil, P12.hostsStep, Hosts.add,
          Hosts.registerInterceptor, Hosts.empty, Tree.add, P10.getNode_eq_F, bind, Except.bind, pure, Except.pure]
        decide +kernel)
    simp only [nvOr, Matcher.run, runOr, nvTab, if_true, h]
    rfl

end Mux.C13
