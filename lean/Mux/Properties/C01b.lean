/-
  C01 (continued) — the tree hypotheses of `C01_found` / `C01_404` / `C01_params_exact` / `C01_pattern`
  discharged for every tree reachable by a history:

  * `Node.PatternOk t.root` and `t.root.pattern = []` (pattern part of I-seg), hence the `pattern` of
    the node reached by a chain is the concatenation of the chain's segment texts;
  * `Node.All IdxLit t.root` (I-sort + I-index: the index fast path only selects literal children).

  The only tree hypothesis left is the name hypothesis `NamesOkL [] t.root.children`
  (`Mux/Proofs/MatchSound.lean`), established for reachable trees by another agent.
-/
import Mux.Properties.C01
import Mux.Proofs.StructExamples
namespace Mux.C01
open Mux Mux.P8

/-- On a reachable tree every node's `pattern` is its parent's followed by its own segment text. -/
theorem C01_patternOk_reach (t : Tree) (ht : t.Reach) : Node.PatternOk t.root ∧ t.root.pattern = [] :=
  ⟨patternOk_of_SOk _ (struct_reach ht).all, (struct_reach ht).rootPat⟩

/-- On a reachable tree the `pattern` of the node at the end of a chain from the root is the
concatenation of the segment texts along the chain. -/
theorem C01_pattern_reach (t : Tree) (ht : t.Reach) (segs : List Seg) (n : Node) (hc : Chain t.root segs n) :
    n.pattern = (segs.map (·.value)).flatten := by
  have := C01_pattern t.root n segs (C01_patternOk_reach t ht).1 hc
  rwa [(C01_patternOk_reach t ht).2, List.nil_append] at this

/-- On a reachable tree the index fast path of every node only selects literal children. -/
theorem C01_idxLit_reach (t : Tree) (ht : t.Reach) : Node.All IdxLit t.root :=
  All_idxLit_of_SOk _ (struct_reach ht).all

/-- `C01_found` on a reachable tree: only the name hypothesis is left; moreover the reported node's
`pattern` is the text of the chain. -/
theorem C01_found_reach (env : Env) (t : Tree) (ht : t.Reach) (path method : Bytes) (f : Found) (n : Node)
    (hN : NamesOkL [] t.root.children)
    (hp : path ≠ []) (hs : path ≠ [42]) (htr : t.trace = none ∨ method ≠ mTRACE)
    (h : t.handler env path [] method = .res f) (hf : f.node = some n) :
    ∃ chain : List (Seg × Bytes),
      chain ≠ [] ∧ Chain t.root (chain.map (·.1)) n ∧ path = instChain chain ∧
      (∀ sv ∈ chain, sv.1.Satisfies env t.ic sv.2) ∧
      f.params = captures chain ∧ n.handlers ≠ [] ∧ HandlerAgrees n method f ∧
      n.pattern = (chain.map (·.1.value)).flatten := by
  obtain ⟨chain, h1, h2, h3, h4, h5, h6, h7⟩ :=
    C01_found env t path method f n hN (C01_idxLit_reach t ht) hp hs htr h hf
  refine ⟨chain, h1, h2, h3, h4, h5, h6, h7, ?_⟩
  have := C01_pattern_reach t ht _ n h2
  simpa [List.map_map, Function.comp_def] using this

/-- `C01_404` on a reachable tree. -/
theorem C01_404_reach (env : Env) (t : Tree) (ht : t.Reach) (path method : Bytes) (f : Found)
    (hN : NamesOkL [] t.root.children)
    (h : t.handler env path [] method = .res f) (hf : f.node = none) :
    f.params = [] ∧ f.handler = t.notFound ∧ f.ok = false :=
  C01_404 env t path method f hN (C01_idxLit_reach t ht) h hf

/-- `C01_params_exact` on a reachable tree. -/
theorem C01_params_exact_reach (env : Env) (t : Tree) (ht : t.Reach) (path method : Bytes) (f : Found) (n : Node)
    (hN : NamesOkL [] t.root.children)
    (hp : path ≠ []) (hs : path ≠ [42]) (htr : t.trace = none ∨ method ≠ mTRACE)
    (h : t.handler env path [] method = .res f) (hf : f.node = some n) :
    ∃ chain : List (Seg × Bytes),
      Chain t.root (chain.map (·.1)) n ∧ path = instChain chain ∧
      f.params.keys = (chain.filter (fun sv => decide (sv.1.kind ≠ .str ∧ ¬ sv.1.ignoreName))).map (·.1.name) ∧
      f.params.keys.Nodup ∧
      (∀ sv ∈ chain, sv.1.kind ≠ .str ∧ ¬ sv.1.ignoreName → f.params.get? sv.1.name = some sv.2) :=
  C01_params_exact env t path method f n hN (C01_idxLit_reach t ht) hp hs htr h hf

/-- A miss of the matcher below any node of a reachable tree leaves no trace. -/
theorem C01_match_miss_reach (env : Env) (ic : Interceptors) (t : Tree) (ht : t.Reach) (n : Node) (hn : n ∈ t.root.nodes)
    (path : Bytes) (ps ps' : Params) (used : List Bytes)
    (hN : Node.NamesOk used n) (hk : ∀ k ∈ ps.keys, k ∈ used)
    (h : n.matchChildren env ic path ps = .miss ps') : ps' = ps :=
  C01_match_miss env ic n path ps ps' used hN (All_sub _ (C01_idxLit_reach t ht) n hn) hk h

/-! ## Non-vacuity: the tree reached by `[Handle("/{id}", h, GET)]` -/

/-- `/7` -/
def reqPath : Bytes := [47, 55]

example : exR.Reach ∧ NamesOkL [] exR.root.children ∧ reqPath ≠ [] ∧ reqPath ≠ [42] ∧
    (exR.trace = none ∨ mGET ≠ mTRACE) :=
  ⟨exR_reach, exR_names, by decide, by decide, .inl (by rw [exR_eq]; rfl)⟩

/-- `GET /7` is answered by the node of `/{id}` with `id = 7`. -/
example : (foundOf (exR.handler env0 reqPath [] mGET)).map (fun f => (f.node.map (·.pattern), f.ok, f.params)) =
    some (some exPat, true, [([105, 100], [55])]) := by
  rw [exR_eq]; decide

/-- `GET x` (no leading slash) is a 404 without parameters. -/
example : (foundOf (exR.handler env0 [120] [] mGET)).map (fun f => (f.node.isNone, f.params)) =
    some (true, []) := by
  rw [exR_eq]; decide

/-- A chain of the reached tree and the pattern of its end node. -/
example : ∃ a b : Node, Chain exR.root [a.seg, b.seg] b ∧ b.pattern = exPat := by
  rw [exR_eq]
  refine ⟨_, _, Chain.cons (c := (exRExplicit.root.children[0]'(by decide))) (List.getElem_mem _)
    (Chain.cons (c := ((exRExplicit.root.children[0]'(by decide)).children[0]'(by decide))) (List.getElem_mem _) (Chain.nil _)), ?_⟩
  decide

end Mux.C01
