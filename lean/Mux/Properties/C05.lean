/-
  C05 (syntax part) — no pattern string can crash `CheckSyntax`, `URL` or the splitting done by
  `Handle`; `Handle` and `CheckSyntax` agree when no interceptor rule is involved.
-/
import Mux.Proofs.Syntax
namespace Mux.C05
open Mux

/-! Byte strings in the examples are written as numeric lists, because `String.toUTF8` does not reduce
in the kernel; the text is given in a comment next to each.
  `{`=123 `}`=125 `:`=58 `/`=47 `\\`=92 `d`=100 `+`=43 `*`=42 -/

/-! ### `NewSegment`

  Requested statement (FALSE for the model and for the Go function taken in isolation):

      ∀ ic v n, newSegment ic v ≠ .error (.fault n)

  Counterexample `"a:{b}"`: the first `:` precedes the first `{`, Go evaluates `val[3:1]`. -/

/-- The counterexample: `"a:{b}"`. -/
theorem C05_syntax_newSegment_counterexample :
    newSegment [] [97, 58, 123, 98, 125] = .error (.fault 107) := by rfl

/-- Exact characterisation of the faulting inputs of `NewSegment`. -/
theorem C05_syntax_newSegment_fault_iff (ic : Interceptors) (v : Bytes) (n : Nat) :
    newSegment ic v = .error (.fault n) ↔
      n = 107 ∧ v.length ≤ maxInt16 ∧ ∃ st en sp, indexByte startByte v = some st ∧
        indexByte endByte v = some en ∧ indexByte separatorByte v = some sp ∧ sp < st ∧ st + 1 < en :=
  newSegment_fault_iff ic v n

/-- Strongest true variant: the bounds guards suffice whenever the first `:` does not precede the
first `{`. -/
theorem C05_syntax_newSegment_partial (ic : Interceptors) (v : Bytes)
    (hsep : ∀ st sp, indexByte startByte v = some st → indexByte separatorByte v = some sp → st ≤ sp)
    (n : Nat) : newSegment ic v ≠ .error (.fault n) :=
  newSegment_no_fault ic v hsep n

/-- … which holds for every piece that `splitString` produces, for any input string. -/
theorem C05_syntax_newSegment_piece (ic : Interceptors) (p piece : Bytes) (h : piece ∈ splitString p)
    (n : Nat) : newSegment ic piece ≠ .error (.fault n) :=
  newSegment_piece_no_fault ic piece (splitString_good p piece h) n

-- non-vacuity: the hypothesis of `_partial` on `{id:\\d+}/x` (name, rule and suffix)
example : ∀ st sp, indexByte startByte [123, 105, 100, 58, 92, 100, 43, 125, 47, 120] = some st →
    indexByte separatorByte [123, 105, 100, 58, 92, 100, 43, 125, 47, 120] = some sp → st ≤ sp := by
  intro st sp h1 _
  have h : indexByte startByte [123, 105, 100, 58, 92, 100, 43, 125, 47, 120] = some 0 := by decide
  rw [h] at h1; cases h1; omega
-- `{id:\\d+}/x` is accepted
example : (newSegment [] [123, 105, 100, 58, 92, 100, 43, 125, 47, 120]).isOk = true := by decide

theorem C05_syntax_newSegment_value (ic : Interceptors) (v : Bytes) (s : Seg)
    (h : newSegment ic v = .ok s) : s.value = v := newSegment_value ic v s h

/-! ### `splitString` -/

theorem C05_syntax_splitString_ne_nil (s : Bytes) : splitString s ≠ [] := splitString_ne_nil s

theorem C05_syntax_splitString_join (s : Bytes) : (splitString s).flatten = s := splitString_join s

theorem C05_syntax_splitString_pieces_nonempty (s : Bytes) (h : s ≠ []) :
    ∀ p ∈ splitString s, p ≠ [] := splitString_pieces_nonempty s h

/-- The empty string is the one input with an empty piece (`Split` rejects it before). -/
theorem C05_syntax_splitString_nil : splitString [] = [[]] := rfl

-- `/posts/{year}/{id}.html` ↦ `/posts/`, `{year}/`, `{id}.html` (the example of the Go doc comment)
example : splitString [47, 112, 111, 115, 116, 115, 47, 123, 121, 101, 97, 114, 125, 47, 123, 105, 100, 125, 46, 104, 116, 109, 108] =
    [[47, 112, 111, 115, 116, 115, 47], [123, 121, 101, 97, 114, 125, 47], [123, 105, 100, 125, 46, 104, 116, 109, 108]] := by decide

/-! ### `Split`, `CheckSyntax`, `URL` never fault -/

theorem C05_syntax_split (ic : Interceptors) (p : Bytes) (n : Nat) : split ic p ≠ .error (.fault n) :=
  split_no_fault ic p n

theorem C05_syntax_checkSyntax (p : Bytes) (n : Nat) : checkSyntax p ≠ .error (.fault n) := by
  unfold checkSyntax
  simp only [bind, Except.bind, pure, Except.pure]
  split
  · rename_i e he
    intro h
    cases h
    exact split_no_fault [] p n he
  · simp

theorem C05_syntax_url (ic : Interceptors) (p : Bytes) (ps : AMap Bytes) (n : Nat) :
    ic.url p ps ≠ .error (.fault n) := Interceptors.url_no_fault ic p ps n

theorem C05_syntax_urlNonStrict (p : Bytes) (ps : AMap Bytes) (n : Nat) :
    urlNonStrict p ps ≠ .error (.fault n) := Interceptors.url_no_fault [] p ps n

theorem C05_syntax_muxURL (p : Bytes) (ps : AMap Bytes) (n : Nat) : muxURL p ps ≠ .error (.fault n) := by
  unfold muxURL
  split
  · simp
  · exact C05_syntax_urlNonStrict p ps n

/-! ### `Handle` agrees with `CheckSyntax`

  Requested formalisation (FALSE):

      (∀ piece ∈ splitString p, ∀ s, newSegment [] piece = .ok s → ic.find s.rule = none) →
        (split ic p).isOk = (split [] p).isOk

  The hypothesis only speaks about pieces that `CheckSyntax` accepts.  With `ic = {"*" ↦ f}` and
  `p = "{a:*}"` the rule `*` is not a regexp (`CheckSyntax` fails) but it is an interceptor key
  (`Handle` succeeds); the hypothesis holds vacuously. -/

theorem C05_syntax_agree_counterexample :
    let ic : Interceptors := [([42], 0)]   -- key `*`
    let p := [123, 97, 58, 42, 125]        -- `{a:*}`
    (∀ piece ∈ splitString p, ∀ s, newSegment [] piece = .ok s → ic.find s.rule = none) ∧
      (split ic p).isOk = true ∧ (split [] p).isOk = false := by
  refine ⟨?_, by decide, by decide⟩
  intro piece hp s hs
  have : piece = [123, 97, 58, 42, 125] := by
    have : splitString [123, 97, 58, 42, 125] = [[123, 97, 58, 42, 125]] := by decide
    rw [this] at hp
    simpa using hp
  subst this
  have : (newSegment [] [123, 97, 58, 42, 125]).isOk = false := by decide
  rw [hs] at this
  cases this

/-- Strongest version: if splitting with `ic` produces no interceptor segment, `Handle`'s split and
`CheckSyntax`'s split are EQUAL (same segments or the same error). -/
theorem C05_syntax_agree (ic : Interceptors) (p : Bytes)
    (h : ∀ piece ∈ splitString p, ∀ s, newSegment ic piece = .ok s → s.kind ≠ .icpt) :
    split ic p = split [] p := split_agree ic p h

theorem C05_syntax_agree_isOk (ic : Interceptors) (p : Bytes)
    (h : ∀ piece ∈ splitString p, ∀ s, newSegment ic piece = .ok s → s.kind ≠ .icpt) :
    (split ic p).isOk = (split [] p).isOk := split_agree_isOk ic p h

/-- Purely syntactic hypothesis: no `rule` text occurring in the pattern is a key of `ic`
(`pieceRule` = the text between the first `:` and the first `}` of a `{name:rule}` piece). -/
theorem C05_syntax_agree_rule (ic : Interceptors) (p : Bytes)
    (h : ∀ piece ∈ splitString p, ∀ r, pieceRule piece = some r → ic.find r = none) :
    split ic p = split [] p := split_agree_of_rule ic p h

/-- The requested hypothesis suffices on the patterns `CheckSyntax` accepts. -/
theorem C05_syntax_agree_of_ok (ic : Interceptors) (p : Bytes)
    (h : ∀ piece ∈ splitString p, ∀ s, newSegment [] piece = .ok s → ic.find s.rule = none)
    (hok : (split [] p).isOk = true) : split ic p = split [] p := split_agree_of_ok ic p h hok

-- non-vacuity: `/u/{id:\\d+}/x`, interceptors keyed `digit` and `any`
example : ∀ piece ∈ splitString [47, 117, 47, 123, 105, 100, 58, 92, 100, 43, 125, 47, 120], ∀ r, pieceRule piece = some r →
    Interceptors.find [([100, 105, 103, 105, 116], 0), ([97, 110, 121], 1)] r = none := by
  have : splitString [47, 117, 47, 123, 105, 100, 58, 92, 100, 43, 125, 47, 120] = [[47, 117, 47], [123, 105, 100, 58, 92, 100, 43, 125, 47, 120]] := by
    decide
  rw [this]
  intro piece hp r hr
  simp only [List.mem_cons, List.not_mem_nil, or_false] at hp
  rcases hp with rfl | rfl
  · have : pieceRule [47, 117, 47] = none := by decide
    rw [this] at hr; cases hr
  · have : pieceRule [123, 105, 100, 58, 92, 100, 43, 125, 47, 120] = some [92, 100, 43] := by decide
    rw [this] at hr; cases hr; decide
example : (split [] [47, 117, 47, 123, 105, 100, 58, 92, 100, 43, 125, 47, 120]).isOk = true := by decide
-- and the agreement really depends on the hypothesis: `{id:\\d+}` with the key `\\d+` present
example : (split [([92, 100, 43], 0)] [123, 105, 100, 58, 92, 100, 43, 125]).toOption.map (·.map (·.kind)) = some [.icpt] ∧
    (split [] [123, 105, 100, 58, 92, 100, 43, 125]).toOption.map (·.map (·.kind)) = some [.rx] := by decide

/-! ### Rules that do not compile on their own (repair D35)

Go compiles the text `(?P<name>` ++ rule ++ `)` ++ quoted suffix.  Before D35 a stray `)` in the rule closed the named
group early: `/{n:a)|(b}` registered, the group did not take part in a match of `b`, and `Segment.Match` evaluated
`ctx.Path[:-1]` (a runtime fault at request time — C05).  Since D35 the rule is compiled on its own first, so such a
pattern is a syntax error; in the model, `parseAlt` stops early only at a stray `)`. -/

theorem C05_syntax_stray_paren (rule : Bytes) (r : Re) (b : UInt8) (rest : Bytes)
    (h : parseAlt (rule.length + 2) rule = .ok (r, b :: rest)) : parseRule rule = .bad := by
  simp [parseRule, h]

theorem C05_syntax_stray_paren_compile (name rule : Bytes) (ign : Bool) (r : Re) (b : UInt8) (rest : Bytes)
    (h : parseAlt (rule.length + 2) rule = .ok (r, b :: rest)) : compileRule name ign rule = .error .regexp := by
  simp [compileRule, C05_syntax_stray_paren rule r b rest h]

-- `a)|(b`, `a)(b`, `)(`, and a trailing backslash `a\`
example : (match parseRule [97, 41, 124, 40, 98] with | .bad => true | _ => false) = true := by decide
example : (match parseRule [97, 41, 40, 98] with | .bad => true | _ => false) = true := by decide
example : (match parseRule [41, 40] with | .bad => true | _ => false) = true := by decide
example : (match parseRule [97, 92] with | .bad => true | _ => false) = true := by decide
-- `/{n:a)|(b}` is rejected as a regexp syntax error
example : (split [] [47, 123, 110, 58, 97, 41, 124, 40, 98, 125]).toOption = none := by decide
-- the balanced relatives stay accepted: `(a)|(b)`
example : (match parseRule [40, 97, 41, 124, 40, 98, 41] with | .ok _ => true | _ => false) = true := by decide

/-! ### `longestPrefix` -/

theorem C05_syntax_longestPrefix_le (a b : Bytes) :
    longestPrefix a b ≤ ((min a.length b.length : Nat) : Int) := longestPrefix_le a b

theorem C05_syntax_longestPrefix_comm (a b : Bytes) : longestPrefix a b = longestPrefix b a :=
  longestPrefix_comm a b

theorem C05_syntax_longestPrefix_pos_prefix (a b : Bytes) (h : 0 < longestPrefix a b) :
    a.take (longestPrefix a b).toNat = b.take (longestPrefix a b).toNat := longestPrefix_pos_prefix a b h

-- `/posts/{id}/a` vs `/posts/{id}/b`
example : longestPrefix [47, 112, 111, 115, 116, 115, 47, 123, 105, 100, 125, 47, 97] [47, 112, 111, 115, 116, 115, 47, 123, 105, 100, 125, 47, 98] = 12 := by decide
-- `{id}/a` vs `{idx}/a`: never cut inside the braces
example : longestPrefix [123, 105, 100, 125, 47, 97] [123, 105, 100, 120, 125, 47, 97] = 0 := by decide
-- `}a` vs `}b`: the Go start value of `startIndex` is visible
example : longestPrefix [125, 97] [125, 98] = -10 := by decide

end Mux.C05
