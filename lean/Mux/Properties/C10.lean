/-
  C10 (non-strict part, and `Segment.Valid`) — reverse URL building.
-/
import Mux.Proofs.Url
import Mux.Proofs.DecEq
namespace Mux.C10
open Mux

/-! ### Substitution -/

/-- The loop of `Interceptors.URL` succeeds iff every parameter of the pattern has a value, and then
the URL is the concatenation of literal texts and `value ++ suffix` (the `-` flag plays no role). -/
theorem C10_subst (ps : AMap Bytes) (segs : List Seg) (u : Bytes) :
    urlLoop ps segs = .ok u ↔
      (∀ s ∈ segs, s.kind ≠ .str → (ps.get? s.name).isSome) ∧
      u = (segs.map (fun s => if s.kind = .str then s.value
                              else (ps.get? s.name).getD [] ++ s.suffix)).flatten :=
  urlLoop_ok_iff ps segs u

/-- The only error of the loop is the missing parameter … -/
theorem C10_subst_error (ps : AMap Bytes) (segs : List Seg) (e : Err) (h : urlLoop ps segs = .error e) :
    e = .missingParam := urlLoop_error ps segs e h

/-- … and it occurs exactly when a parameter is missing. -/
theorem C10_subst_error_iff (ps : AMap Bytes) (segs : List Seg) (e : Err) :
    urlLoop ps segs = .error e ↔
      e = .missingParam ∧ ¬ ∀ s ∈ segs, s.kind ≠ .str → (ps.get? s.name).isSome :=
  urlLoop_error_iff ps segs e

/-- `Interceptors.URL`: the empty pattern gives the empty URL; otherwise split, then substitute. -/
theorem C10_subst_url (ic : Interceptors) (p : Bytes) (ps : AMap Bytes) (u : Bytes) :
    ic.url p ps = .ok u ↔
      (p = [] ∧ u = []) ∨
      (∃ segs, split ic p = .ok segs ∧ (∀ s ∈ segs, s.kind ≠ .str → (ps.get? s.name).isSome) ∧
        u = (segs.map (fun s => if s.kind = .str then s.value
                                else (ps.get? s.name).getD [] ++ s.suffix)).flatten) :=
  Interceptors.url_ok_iff ic p ps u

/-- `Interceptors.URL` fails iff the pattern is malformed (the error of `Split`) or a parameter is
missing. -/
theorem C10_subst_url_error (ic : Interceptors) (p : Bytes) (ps : AMap Bytes) (e : Err) :
    ic.url p ps = .error e ↔
      (split ic p = .error e ∧ p ≠ []) ∨
      (∃ segs, split ic p = .ok segs ∧ e = .missingParam ∧
        ¬ ∀ s ∈ segs, s.kind ≠ .str → (ps.get? s.name).isSome) :=
  Interceptors.url_error_iff ic p ps e

/-- Non-strict `Router.URL` body = `Interceptors.URL` without interceptors. -/
theorem C10_subst_urlNonStrict (p : Bytes) (ps : AMap Bytes) (u : Bytes) :
    urlNonStrict p ps = .ok u ↔
      (p = [] ∧ u = []) ∨
      (∃ segs, split [] p = .ok segs ∧ (∀ s ∈ segs, s.kind ≠ .str → (ps.get? s.name).isSome) ∧
        u = (segs.map (fun s => if s.kind = .str then s.value
                                else (ps.get? s.name).getD [] ++ s.suffix)).flatten) :=
  Interceptors.url_ok_iff [] p ps u

theorem C10_subst_urlNonStrict_error (p : Bytes) (ps : AMap Bytes) (e : Err) :
    urlNonStrict p ps = .error e ↔
      (split [] p = .error e ∧ p ≠ []) ∨
      (∃ segs, split [] p = .ok segs ∧ e = .missingParam ∧
        ¬ ∀ s ∈ segs, s.kind ≠ .str → (ps.get? s.name).isSome) :=
  Interceptors.url_error_iff [] p ps e

/-- `mux.URL` with empty params returns the pattern itself, unchecked. -/
theorem C10_subst_muxURL_nil (p : Bytes) : muxURL p [] = .ok p := muxURL_nil p

/-- `mux.URL` with params. -/
theorem C10_subst_muxURL (p : Bytes) (ps : AMap Bytes) (hps : ps ≠ []) (u : Bytes) :
    muxURL p ps = .ok u ↔
      (p = [] ∧ u = []) ∨
      (∃ segs, split [] p = .ok segs ∧ (∀ s ∈ segs, s.kind ≠ .str → (ps.get? s.name).isSome) ∧
        u = (segs.map (fun s => if s.kind = .str then s.value
                                else (ps.get? s.name).getD [] ++ s.suffix)).flatten) := by
  rw [muxURL_eq p ps hps]; exact C10_subst_urlNonStrict p ps u

/-- `mux.URL` fails iff params are given and the pattern is malformed or a parameter is missing. -/
theorem C10_subst_muxURL_error (p : Bytes) (ps : AMap Bytes) (e : Err) :
    muxURL p ps = .error e ↔
      ps ≠ [] ∧ ((split [] p = .error e ∧ p ≠ []) ∨
        (∃ segs, split [] p = .ok segs ∧ e = .missingParam ∧
          ¬ ∀ s ∈ segs, s.kind ≠ .str → (ps.get? s.name).isSome)) := by
  cases ps with
  | nil => simp [muxURL_nil]
  | cons a r =>
    rw [muxURL_eq p _ (by simp)]
    simpa using C10_subst_urlNonStrict_error p (a :: r) e

/-- A pattern without parameters is returned as it is (given it splits). -/
theorem C10_subst_literal (ps : AMap Bytes) (segs : List Seg) (h : ∀ s ∈ segs, s.kind = .str) :
    urlLoop ps segs = .ok (segs.map (·.value)).flatten := urlLoop_all_str ps segs h

-- non-vacuity.  `/u/{id:\d+}/x` with `id = 5`  ↦  `/u/5/x`
example : muxURL [47, 117, 47, 123, 105, 100, 58, 92, 100, 43, 125, 47, 120] [([105, 100], [53])]
    = .ok [47, 117, 47, 53, 47, 120] := by decide
-- missing parameter
example : muxURL [47, 117, 47, 123, 105, 100, 125] [([120], [53])] = .error .missingParam := by decide
-- malformed pattern `{}` : the error of `Split`
example : muxURL [123, 125] [([120], [53])] = .error .syntax := by decide
-- the `-` flag is ignored: `{-id}/x`
example : muxURL [123, 45, 105, 100, 125, 47, 120] [([105, 100], [53])] = .ok [53, 47, 120] := by decide

/-! ### `Segment.Valid` -/

/-- Every value accepted by a regexp segment satisfies the rule over its whole length. -/
theorem C10_valid_rx (env : Env) (ic : Interceptors) (s : Seg) (v : Bytes) (hk : s.kind = .rx)
    (h : s.valid env ic v = some true) : Re.Denotes s.re v :=
  Seg.valid_rx_sound env ic s v hk h

/-- Validity is exactly "dispatch would capture this value here" — both directions hold. -/
theorem C10_valid_rx_iff_match (env : Env) (ic : Interceptors) (s : Seg) (v : Bytes) (hk : s.kind = .rx) :
    s.valid env ic v = some true ↔ s.match env ic (v ++ s.suffix) = .yes v [] :=
  Seg.valid_rx_true_iff env ic s v hk

/-- `Valid` is outside the modelled domain exactly when the corresponding `Match` is. -/
theorem C10_valid_rx_unsupported (env : Env) (ic : Interceptors) (s : Seg) (v : Bytes) (hk : s.kind = .rx) :
    s.valid env ic v = none ↔ s.match env ic (v ++ s.suffix) = .unsupported :=
  Seg.valid_rx_none_iff env ic s v hk

/-- A denoted value is matched by dispatch, but possibly with another capture (next theorem). -/
theorem C10_valid_rx_denotes (env : Env) (ic : Interceptors) (s : Seg) (v : Bytes) (hk : s.kind = .rx)
    (hd : Re.Denotes s.re v) (hsup : s.valid env ic v ≠ none) :
    ∃ cap rest, s.match env ic (v ++ s.suffix) = .yes cap rest :=
  Seg.valid_rx_denotes_match env ic s v hk hd hsup

/-- The segment `{a:1|12}` as `NewSegment` builds it. -/
def segAlt : Seg :=
  { value := [123, 97, 58, 49, 124, 49, 50, 125], kind := .rx, name := [97], rule := [49, 124, 49, 50],
    re := .alt (.cls ⟨false, [(49, 49)]⟩) (.seq (.cls ⟨false, [(49, 49)]⟩) (.cls ⟨false, [(50, 50)]⟩)) }

/-- The converse of `C10_valid_rx` is FALSE (leftmost-first priority): `12` is in the language of
`1|12`, but `Valid` rejects it because the match takes the first alternative `1` and stops. This is
also what Go's `FindStringIndex` does, and it is consistent with dispatch (`C10_valid_rx_iff_match`):
on the path `12` dispatch captures `1`. -/
theorem C10_valid_rx_converse_counterexample (env : Env) :
    newSegment [] [123, 97, 58, 49, 124, 49, 50, 125] = .ok segAlt ∧
    Re.Denotes segAlt.re [49, 50] ∧ segAlt.valid env [] [49, 50] = some false ∧
    segAlt.match env [] [49, 50] = .yes [49] [50] := by
  refine ⟨?_, .altR (.seq (s := [49]) (t := [50]) (.cls (by decide)) (.cls (by decide))), by rfl, by rfl⟩
  have : (newSegment [] [123, 97, 58, 49, 124, 49, 50, 125]).toOption = some segAlt := by decide
  cases h : newSegment [] [123, 97, 58, 49, 124, 49, 50, 125] with
  | ok s => rw [h] at this; simpa [Except.toOption] using this
  | error e => rw [h] at this; cases this

theorem C10_valid_icpt (env : Env) (ic : Interceptors) (s : Seg) (v : Bytes) (hk : s.kind = .icpt) :
    s.valid env ic v = some (s.accepts env ic v) := Seg.valid_icpt env ic s v hk

theorem C10_valid_named (env : Env) (ic : Interceptors) (s : Seg) (v : Bytes) (hk : s.kind = .named) :
    s.valid env ic v = some true := Seg.valid_named env ic s v hk

-- non-vacuity for the regexp theorems: `{id:\d+}/x`, value `12`
/-- `{id:\d+}/x` -/
def segDigits : Seg :=
  { value := [123, 105, 100, 58, 92, 100, 43, 125, 47, 120], kind := .rx, name := [105, 100],
    rule := [92, 100, 43], suffix := [47, 120], re := .plus ⟨false, clsDigit⟩ }
example : (newSegment [] [123, 105, 100, 58, 92, 100, 43, 125, 47, 120]).toOption = some segDigits := by decide
example (env : Env) : segDigits.kind = .rx ∧ segDigits.valid env [] [49, 50] = some true := ⟨rfl, rfl⟩
example (env : Env) : segDigits.valid env [] [49, 97] = some false := by rfl
example (env : Env) : segDigits.match env [] ([49, 50] ++ segDigits.suffix) = .yes [49, 50] [] := by rfl
-- interceptor segment `{id:digit}` with the bundled `MatchDigit`
example : ({ value := [], kind := .icpt, name := [105, 100], rule := [100] } : Seg).valid
    ⟨fun _ p => matchDigit p⟩ [([100], 0)] [49, 50] = some true := by decide

/-! ### `parseRule` regression examples (examples, not general claims) -/

-- `\d+`
example : parseRule [92, 100, 43] = .ok (.plus ⟨false, clsDigit⟩) := by decide
-- `[a-z]*`
example : parseRule [91, 97, 45, 122, 93, 42] = .ok (.star ⟨false, [(97, 122)]⟩) := by decide
-- `(ab)?c`
example : parseRule [40, 97, 98, 41, 63, 99] =
    .ok (.seq (.opt (.seq (.cls ⟨false, [(97, 97)]⟩) (.cls ⟨false, [(98, 98)]⟩))) (.cls ⟨false, [(99, 99)]⟩)) := by
  decide
-- `*` is a compile error, `^a` is outside the dialect
example : parseRule [42] = .bad := by decide
example : parseRule [94, 97] = .unsupported := by decide
-- imprecision of the fuel `rule.length + 2`: an unclosed `(` is reported as `unsupported`, not `bad`
-- (every `(` costs two units of fuel); conservative, since `unsupported` is outside the model
example : parseRule [40] = .unsupported := by decide

end Mux.C10
