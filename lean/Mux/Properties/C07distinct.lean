/-
  C07 (distinct instances) — "distinct instances may be built, mutated and served from different
  goroutines at the same time without data races", and instance isolation for Hosts matchers.

  * `C07_distinct_drf_generic` / `C07_distinct_seq_generic` — in the interleaving semantics WITHOUT any
    lock (`RWLock.NoLock`: nothing excludes anything, writers included): if every thread only runs
    operations on state it owns (`RWLock.Owned`), no two threads ever have conflicting accesses; and if
    moreover an operation is a function of its owner's component of the state (`RWLock.Local`), every
    thread computes exactly its own sequential program.
  * `C07_distinct_drf` — the instance: a table of routers, goroutine `i` creates / mutates
    (`Handle`, `Remove`, `Clean`, `Use`) / serves router `i`, no lock anywhere.  Race free, and every
    response of goroutine `i` is the response of its own program run alone.
  * `C07_fresh_hosts_match` — Hosts matchers: after ANY interleaved history of `NewHosts`, `Add`,
    `Delete`, `RegisterInterceptor` on any number of matchers, what a matcher answers to `Match` is
    what it answers after its own operations alone.

  What this does NOT say (and cannot, in the model): that the Go instances have no location in common.
  The model has no package-level state at all (`Router.new cfg` and `Hosts.empty` are closed terms,
  `renderMethods` is a pure function where Go has the `methodIndexes` memo), so the assumption "the
  accesses of an operation on instance `i` touch locations of instance `i` only" (`Owned.accs_owned`)
  is, for Go, the regenerated-fact obligation `C07_globals` (no package-level variable is mutated after
  initialisation except the `sync.Pool` and what a package-level lock guards) — extractor trusted.
  Groups are not covered: a Group shares its routers with its callers by design.

  Helper lemmas: `Mux/Proofs/ConcOwned.lean`.
-/
import Mux.Properties.C07
import Mux.Proofs.ConcOwned
import Mux.Proofs.Hosts
import Mux.Proofs.HostsReachExamples
namespace Mux.C07
open Mux Mux.RWLock Mux.Conc

/-! ## Generic: disjointly owned state needs no lock -/

/-- **Generic, no lock, writers allowed.**  Every operation and every location has an owner, the
micro-accesses of an operation touch its owner's locations only, and every operation in thread `i`'s
program is owned by `i` ("one goroutine per instance").  Then for any number of threads and any
schedule no two distinct threads have conflicting next micro-accesses.
(Without the ownership hypothesis the same semantics does reach a conflict: `RWLock.toy_nolock_race`.) -/
theorem C07_distinct_drf_generic (S : Sys) (O : Owned S) (s0 : S.σ) (progs : Nat → List S.Op)
    (hown : ∀ i, ∀ op ∈ progs i, O.owner op = i)
    (c : NoLock.NConfig S) (h : NoLock.NReachable s0 progs c) :
    ∀ i j a b, i ≠ j → (c.thr i).ph.next? = some a → (c.thr j).ph.next? = some b → ¬ Conflict a b :=
  fun _ _ _ _ hij ha hb => owned_drf O hown h hij ha hb

/-- **Generic: each thread computes its own sequential program.**  If moreover the state has one
component per owner and an operation reads and writes its owner's component only (`Local`), then for
every thread `j`: its completed operations are a prefix of `progs j`, their responses are those of
running that prefix ALONE on `j`'s initial component (`L.resps`), and when `j` is idle its component
of the shared state is the result of that sequential run (`L.run`) and the completed operations
followed by the rest of its program are its program. -/
theorem C07_distinct_seq_generic (S : Sys) (O : Owned S) (L : Local S O) (s0 : S.σ) (progs : Nat → List S.Op)
    (hown : ∀ i, ∀ op ∈ progs i, O.owner op = i)
    (c : NoLock.NConfig S) (h : NoLock.NReachable s0 progs c) (j : Nat) :
    (c.doneOf j).map (·.op) <+: progs j ∧
    (c.doneOf j).map (·.resp) = L.resps (L.view j s0) ((c.doneOf j).map (·.op)) ∧
    ((c.thr j).ph = .idle → L.view j c.st = L.run (L.view j s0) ((c.doneOf j).map (·.op)) ∧
      (c.doneOf j).map (·.op) ++ (c.thr j).prog = progs j) :=
  owned_seq L hown h j

/-! ## The instance: a table of routers, one goroutine per router, no lock -/

/-- What a goroutine does with ITS router: create it / mutate it (`IOp`: `NewRouter`, and
`Handle`/`Remove`/`Clean`/`Use` as `ROp`), or serve a request on it. -/
inductive XOp where
  | mutate (o : IOp)
  | serve (req : Req)

inductive XResp where
  | done
  /-- `none`: the handle denotes no router (yet) -/
  | served (r : Option ServeRes)

/-- One instance alone. -/
def XOp.own (env : Env) : XOp → Option Router → Option Router × XResp
  | .mutate o, cur => (IOp.own cur o, .done)
  | .serve req, cur => (cur, .served (cur.map (·.serveContext env req [])))

/-- The shared state is the table of all routers; an operation carries the handle it works on.
Mutations are writers with a write access to the instance, serving is a reader with a read access;
the location is (handle, "router"): every access of an operation on handle `id` is to instance `id`. -/
@[reducible] def instSys (env : Env) : Sys where
  σ := RTab
  Op := Nat × XOp
  Resp := XResp
  Loc := Nat × String
  mode := fun op => match op.2 with | .mutate _ => true | .serve _ => false
  sem := fun op rt => match op.2 with
    | .mutate o => (applyAt rt op.1 o, .done)
    | .serve req => (rt, .served ((rt.get? op.1).map (·.serveContext env req [])))
  accs := fun op => match op.2 with
    | .mutate _ => [((op.1, "router"), true)]
    | .serve _ => [((op.1, "router"), false)]
  reader_pure := by
    intro op s h
    obtain ⟨id, o⟩ := op
    cases o with
    | mutate o => simp at h
    | serve req => rfl
  reader_accs := by
    intro op h a ha
    obtain ⟨id, o⟩ := op
    cases o with
    | mutate o => simp at h
    | serve req => simp at ha; simp [ha]

@[reducible] def instOwned (env : Env) : Owned (instSys env) where
  owner := fun op => op.1
  locOwner := fun l => l.1
  accs_owned := by
    intro op a ha
    obtain ⟨id, o⟩ := op
    cases o <;> (simp at ha; simp [ha])

@[reducible] def instLocal (env : Env) : Local (instSys env) (instOwned env) where
  V := Option Router
  view := fun id rt => rt.get? id
  lsem := fun op cur => XOp.own env op.2 cur
  sem_own := by
    intro op s
    obtain ⟨id, o⟩ := op
    cases o with
    | mutate o => exact ⟨by simp [XOp.own, applyAt_get?], rfl⟩
    | serve req => exact ⟨rfl, rfl⟩
  sem_other := by
    intro op s j hj
    obtain ⟨id, o⟩ := op
    cases o with
    | mutate o =>
      have : ¬ j = id := hj
      simp [applyAt_get?, this]
    | serve req => rfl

/-- The sequential run of a program of `XOp`s on one router alone: final router … -/
def ownRun (env : Env) (cur : Option Router) (ops : List XOp) : Option Router :=
  ops.foldl (fun cur o => (XOp.own env o cur).1) cur
/-- … and responses. -/
def ownResps (env : Env) : Option Router → List XOp → List XResp
  | _, [] => []
  | cur, o :: ops => (XOp.own env o cur).2 :: ownResps env (XOp.own env o cur).1 ops

theorem local_run_eq (env : Env) (cur : Option Router) (ops : List (Nat × XOp)) :
    (instLocal env).run cur ops = ownRun env cur (ops.map (·.2)) := by
  simp [Local.run, ownRun, instLocal, List.foldl_map]

theorem local_resps_eq (env : Env) (cur : Option Router) (ops : List (Nat × XOp)) :
    (instLocal env).resps cur ops = ownResps env cur (ops.map (·.2)) := by
  induction ops generalizing cur with
  | nil => rfl
  | cons o ops ih => simp only [Local.resps, List.map_cons, ownResps]; rw [ih]

/-- **C07: distinct routers built, mutated and served from different goroutines without any lock.**
Goroutine `i` runs an arbitrary program of `NewRouter` / `Handle` / `Remove` / `Clean` / `Use` /
`ServeHTTP` calls, all on the router with handle `i` (`hown`); there is no lock.  Then, for any number
of goroutines, any initial table and any schedule, in every reachable configuration:

1. no two goroutines have conflicting next accesses (no data race);
2. for every goroutine `j`, with `ds` its completed calls in order of return: `ds` is a prefix of its
   program; the responses it received are those of running `ds` alone on its own router
   (`ownResps`, which mentions no other router: `XOp.own`); and
3. when it is between two calls, the table's entry for `j` is the router its completed calls alone
   produce (`ownRun`) — whatever the other goroutines did to their routers in the meantime.

Hypothesis `hown` is the scenario of the clause (distinct instances in different goroutines).  The
location assignment of `instSys` — an operation on handle `id` accesses instance `id` only — is, for
the Go code, `C07_globals` (see the header). -/
theorem C07_distinct_drf (env : Env) (rt0 : RTab) (progs : Nat → List (Nat × XOp))
    (hown : ∀ i, ∀ op ∈ progs i, op.1 = i)
    (c : NoLock.NConfig (instSys env)) (h : NoLock.NReachable (S := instSys env) rt0 progs c) :
    (∀ i j a b, i ≠ j → (c.thr i).ph.next? = some a → (c.thr j).ph.next? = some b →
      ¬ Conflict (S := instSys env) a b) ∧
    (∀ j, (c.doneOf j).map (·.op) <+: progs j ∧
      (c.doneOf j).map (·.resp) = ownResps env (rt0.get? j) ((c.doneOf j).map (·.op.2))) ∧
    (∀ j, (c.thr j).ph = .idle → c.st.get? j = ownRun env (rt0.get? j) ((c.doneOf j).map (·.op.2))) := by
  refine ⟨C07_distinct_drf_generic (instSys env) (instOwned env) rt0 progs hown c h, fun j => ?_, fun j hj => ?_⟩
  · have := C07_distinct_seq_generic (instSys env) (instOwned env) (instLocal env) rt0 progs hown c h j
    refine ⟨this.1, ?_⟩
    rw [this.2.1, local_resps_eq, List.map_map]; rfl
  · have := (C07_distinct_seq_generic (instSys env) (instOwned env) (instLocal env) rt0 progs hown c h j).2.2 hj
    have h1 := this.1
    rw [local_run_eq, List.map_map] at h1
    exact h1

/-! ### Non-vacuity -/

/-- Goroutine 0 builds router `a` and registers a route; goroutine 1 builds router `b` and serves a
request; all on their own handle. -/
def exProgsI : Nat → List (Nat × XOp) := fun i =>
  if i = 0 then [(0, .mutate (.create { name := [97] })), (0, .mutate (.op (.clean [])))]
  else if i = 1 then [(1, .mutate (.create { name := [98] })), (1, .serve { method := mGET, path := [47] })]
  else []

theorem exProgsI_own : ∀ i, ∀ op ∈ exProgsI i, op.1 = i := by
  intro i op hop
  unfold exProgsI at hop
  split at hop
  · simp at hop; rcases hop with rfl | rfl <;> simp [*]
  · split at hop
    · simp at hop; rcases hop with rfl | rfl <;> simp [*]
    · simp at hop

/-- A reachable configuration in which BOTH goroutines are in the middle of a mutation of their own
router at the same time, each with a WRITE as next access (no lock prevents it) — and the two writes
do not conflict, as the theorem says. -/
example (env : Env) : ∃ c : NoLock.NConfig (instSys env),
    NoLock.NReachable (S := instSys env) [] exProgsI c ∧
    (c.thr 0).ph.next? = some ((0, "router"), true) ∧ (c.thr 1).ph.next? = some ((1, "router"), true) ∧
    ¬ Conflict (S := instSys env) ((0, "router"), true) ((1, "router"), true) := by
  have h0 : NoLock.NReachable (S := instSys env) [] exProgsI (NoLock.NConfig.init [] exProgsI) := .init
  have h1 := h0.step (.start _ 0 ((0, .mutate (.create { name := [97] })) : Nat × XOp) [(0, .mutate (.op (.clean [])))] rfl)
  have h2 := h1.step (.start _ 1 ((1, .mutate (.create { name := [98] })) : Nat × XOp)
    [(1, .serve { method := mGET, path := [47] })] rfl)
  exact ⟨_, h2, rfl, rfl, C07_distinct_drf_generic _ (instOwned env) _ _ exProgsI_own _ h2 0 1 _ _ (by decide) rfl rfl⟩

/-- A complete interleaved run (create a, create b, clean on a, serve on b): goroutine 1 has two
completed calls, and its second response is `serveContext` of the router `NewRouter("b")` alone. -/
example (env : Env) : ∃ c : NoLock.NConfig (instSys env),
    NoLock.NReachable (S := instSys env) [] exProgsI c ∧ (c.doneOf 1).length = 2 ∧ (c.thr 1).ph = .idle ∧
    (c.doneOf 1).map (·.resp) = [.done, .served ((Router.new { name := [98] }).map
      (·.serveContext env { method := mGET, path := [47] } []))] := by
  have h0 : NoLock.NReachable (S := instSys env) [] exProgsI (NoLock.NConfig.init [] exProgsI) := .init
  obtain ⟨c1, h1, s1, t1, d1⟩ := nsolo h0 (i := 0) (op := ((0, .mutate (.create { name := [97] })) : Nat × XOp))
    (rest := [(0, .mutate (.op (.clean [])))]) rfl
  obtain ⟨c2, h2, s2, t2, d2⟩ := nsolo h1 (i := 1) (op := ((1, .mutate (.create { name := [98] })) : Nat × XOp))
    (rest := [(1, .serve { method := mGET, path := [47] })]) (by rw [t1 1]; rfl)
  obtain ⟨c3, h3, s3, t3, d3⟩ := nsolo h2 (i := 0) (op := ((0, .mutate (.op (.clean []))) : Nat × XOp))
    (rest := []) (by rw [t2 0, upd_other _ _ _ _ (by decide), t1 0]; rfl)
  obtain ⟨c4, h4, s4, t4, d4⟩ := nsolo h3 (i := 1) (op := ((1, .serve { method := mGET, path := [47] }) : Nat × XOp))
    (rest := []) (by rw [t3 1, upd_other _ _ _ _ (by decide), t2 1]; rfl)
  have hd : c4.doneOf 1 = [⟨1, (1, .mutate (.create { name := [98] })), (instSys env).sem (1, .mutate (.create { name := [98] })) c1.st |>.2⟩,
      ⟨1, (1, .serve { method := mGET, path := [47] }), (instSys env).sem (1, .serve { method := mGET, path := [47] }) c3.st |>.2⟩] := by
    simp only [NoLock.NConfig.doneOf, d4, d3, d2, d1]; rfl
  have hidle : (c4.thr 1).ph = .idle := by rw [t4 1]; rfl
  refine ⟨c4, h4, by rw [hd]; rfl, hidle, ?_⟩
  have := (C07_distinct_drf env [] exProgsI exProgsI_own c4 h4).2.1 1
  rw [this.2, hd]
  rfl

/-! ## Hosts matchers are isolated -/

/-- What can be done with a Hosts matcher held under a handle: `NewHosts()` (a fresh, empty matcher
replaces whatever the handle denoted) and the three mutators (`HOp`). -/
inductive HIOp where
  | create
  | op (o : P12.HOp)

/-- One matcher alone. -/
def HIOp.own : Option Hosts → HIOp → Option Hosts
  | _, .create => some Hosts.empty
  | cur, .op o => cur.map (P12.hostsStep · o)

/-- The table of all matchers (`tab : Nat → Option Hosts`, as used by `Group.serve` and the matcher
expressions), with an operation on the matcher under handle `id`. -/
def happlyAt (tab : Nat → Option Hosts) (id : Nat) (o : HIOp) : Nat → Option Hosts :=
  fun j => if j = id then HIOp.own (tab id) o else tab j

def hrunAll (tab : Nat → Option Hosts) (h : List (Nat × HIOp)) : Nat → Option Hosts :=
  h.foldl (fun tab e => happlyAt tab e.1 e.2) tab

theorem hrunAll_get (tab : Nat → Option Hosts) (h : List (Nat × HIOp)) (id : Nat) :
    hrunAll tab h id = ((h.filter (·.1 = id)).map (·.2)).foldl HIOp.own (tab id) := by
  induction h generalizing tab with
  | nil => rfl
  | cons e h ih =>
    have : hrunAll tab (e :: h) = hrunAll (happlyAt tab e.1 e.2) h := rfl
    rw [this, ih]
    by_cases h1 : e.1 = id
    · subst h1; simp [happlyAt]
    · have : ¬ id = e.1 := fun h => h1 h.symm
      simp [happlyAt, h1, this]

/-- **C07, isolation of Hosts matchers.**  After ANY interleaved history `h` of `NewHosts`, `Add`,
`Delete`, `RegisterInterceptor` on any number of matchers (each operation tagged with the handle of the
matcher it is applied to), the matcher under handle `id` is what its OWN operations alone make of what
the handle denoted initially — so its answer to `Match` for every host, path and parameter context is
the answer after its own operations alone; and two histories (on two tables) that agree on `id`'s own
operations and initial entry give the same answers. -/
theorem C07_fresh_hosts_match (env : Env) (tab : Nat → Option Hosts) (h : List (Nat × HIOp)) (id : Nat)
    (host path : Bytes) (ps : Params) :
    (hrunAll tab h id).map (·.match env host path ps) =
      (((h.filter (·.1 = id)).map (·.2)).foldl HIOp.own (tab id)).map (·.match env host path ps) ∧
    (∀ (tab' : Nat → Option Hosts) (h' : List (Nat × HIOp)), tab id = tab' id →
      (h.filter (·.1 = id)).map (·.2) = (h'.filter (·.1 = id)).map (·.2) →
      (hrunAll tab h id).map (·.match env host path ps) = (hrunAll tab' h' id).map (·.match env host path ps)) := by
  refine ⟨by rw [hrunAll_get], fun tab' h' e1 e2 => ?_⟩
  rw [hrunAll_get, hrunAll_get, e1, e2]

theorem foldl_own_ops (hs : Hosts) (own : List P12.HOp) :
    (own.map HIOp.op).foldl HIOp.own (some hs) = some (P12.hostsRun hs own) := by
  induction own generalizing hs with
  | nil => rfl
  | cons o own ih => simp only [List.map_cons, List.foldl_cons, HIOp.own, Option.map_some]; exact ih _

/-- For a matcher created in the history and only mutated afterwards: it is `hostsRun Hosts.empty` of its
own mutations — a matcher of `HostsReach`, to which the C05/C14 theorems about `Hosts.Match` apply. -/
theorem C07_fresh_hosts_run (tab : Nat → Option Hosts) (h : List (Nat × HIOp)) (id : Nat) (own : List P12.HOp)
    (hown : (h.filter (·.1 = id)).map (·.2) = .create :: own.map .op) :
    hrunAll tab h id = some (P12.hostsRun Hosts.empty own) ∧ P12.HostsReach (P12.hostsRun Hosts.empty own) := by
  refine ⟨?_, own, rfl⟩
  rw [hrunAll_get, hown, List.foldl_cons]
  exact foldl_own_ops _ own

/-- Non-vacuity: two matchers, operations interleaved; the own history of handle 1. -/
example : let h : List (Nat × HIOp) := [(0, .create), (1, .create), (0, .op (.add [97])), (1, .op (.add [98])),
      (0, .op (.delete [97])), (1, .op (.add [99]))]
    (h.filter (·.1 = 1)).map (·.2) = HIOp.create :: [P12.HOp.add [98], P12.HOp.add [99]].map HIOp.op := by
  exact rfl

end Mux.C07
