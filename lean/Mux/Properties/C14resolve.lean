/-
  C14 (clauses b, c: "accepts iff the normalised host RESOLVES under the rules of C02 against the domain patterns
  CURRENTLY registered, and reports exactly that pattern's parameters").

  `C14.lean`/`C14reach.lean`/`C14late.lean` reduce `Hosts.Match` to `Tree.handler … GET` and prove soundness (the host
  instantiates SOME chain of the private tree).  Here:

  * `C14_match_resolve` — the iff against the tree-free reference resolver `Spec.resolveAll` of C02
    (`Mux/Spec/Resolve.lean`), for the C02 quantifier ("routes were only ever added"): histories
    `RegisterInterceptor* ; Add*` (`C14_reach_regsFirst` with add-only `ops`).  `Hosts.Match` accepts iff the resolver
    finds a route for the normalised host among the registered domains; it rejects (leaving nothing behind) iff the
    resolver finds none; the parameters it reports are those of an outcome `(domain, parameters)` the resolver allows,
    and that domain is a registered one; and it always does one of the two (no fault, never outside the model).
  * `C14_pattern_in_table` — for EVERY history (any order of `Add`/`Delete`/`RegisterInterceptor`, no brace
    condition): the node an accepting `Hosts.Match` found carries a pattern of the CURRENT domain table
    (`domains hs`: the patterns of the nodes of the private tree that have handlers); `C14_pattern_in_table_late` adds,
    for histories with the brace condition, that it is the node of the chain of `C14_match_found_late`.
  * What `domains hs` is in terms of the history (`Add` adds `lower d` iff accepted, `Delete` removes exactly
    `lower d`, `RegisterInterceptor` nothing): `C14_domains_empty`, `C14_domains_step` in `C14delete.lean`.

  Hypotheses that are NOT granted by the property text, stated here once:
  * `isAscii host` — `strings.ToLower` on non-ASCII hosts is outside the model (`C14_match_nonAscii`);
  * `normHost host ≠ ""`, `≠ "*"` — these two texts address the root of the private tree and are ALWAYS rejected
    (`C14_empty_star`), whereas the reference resolver lets a pattern-final parameter match the empty text: for the
    domain `{sub}` and the host `""` (or `":80"`) the resolver finds `{sub}` with `sub = ""`, `Hosts.Match` rejects —
    `C14_match_resolve_empty_counterexample`.  C02 itself excludes the two paths.  So the iff of the property text is
    false for hosts that normalise to `""` when a domain can match the empty text; the theorem is the iff for all
    other hosts.

  Helper lemmas: `Mux/Proofs/HostsResolve.lean` (namespace `Mux.P30`).
-/
import Mux.Proofs.HostsResolve
import Mux.Properties.C14late
import Mux.Properties.C02all
namespace Mux.C14
open Mux Mux.P12 Mux.P14 Mux.P30 Mux.Spec

/-- The domain patterns currently registered: the patterns of the nodes below the root of the private tree that
carry handlers (`tableOf`, the abstraction function of C03).  `C14_domains_step` and `C14_delete_table`
(`C14delete.lean`) say what this is in terms of the history. -/
def domains (hs : Hosts) : List Bytes := (tableOf hs.tree).patterns

/-- `Add` of a domain whose lower-cased text has balanced, non-nested braces. -/
abbrev HOp.addOk := Mux.P30.HOp.addOk

/-! ## C14_pattern_in_table -/

/-- **`C14_pattern_in_table`** (every history of `Add`/`Delete`/`RegisterInterceptor`, every host, any incoming
parameters): when `Hosts.Match` accepts, the underlying lookup found a node `n` of the private tree whose pattern is
one of the domains currently registered, and the reported parameters are those of that lookup. -/
theorem C14_pattern_in_table (env : Env) (hs : Hosts) (hr : HostsReach hs) (host path : Bytes) (ps : Params)
    (p : Bytes) (q : Params) (h : hs.match env host path ps = .accept p q) :
    p = path ∧ ∃ f n, hs.tree.handler env (normHost host) ps mGET = .res f ∧ f.node = some n ∧ q = f.params ∧
      n ∈ nodesL hs.tree.root.children ∧ n.pattern ∈ domains hs := by
  have ha : isAscii host = true := by
    cases ha : isAscii host with
    | false => rw [Hosts.match_nonAscii env hs host path ps ha] at h; cases h
    | true => rfl
  obtain ⟨hne, hstar⟩ := C14_empty_star_reach env hs hr host path ps p q h
  obtain ⟨rfl, f, hf, hok, rfl⟩ := (Hosts.match_accept_iff env hs host path ps ha p q).1 h
  refine ⟨rfl, f, ?_⟩
  rcases hosts_found hr.get hne hstar hf with ⟨hno, _⟩ | ⟨n, _, hn, hmem, hh, _⟩
  · rw [hno] at hok; cases hok
  · exact ⟨n, hf, hn, rfl, hmem, P16.live_pattern_mem hmem hh⟩

/-- The same in the chain form of `C14_match_found_late` (histories whose `Add` arguments have balanced, non-nested
braces, registrations at any time): the node at the end of the chain the host instantiates carries a currently
registered domain. -/
theorem C14_pattern_in_table_late (env : Env) (hs : Hosts) (hr : HostsLateWf hs)
    (host path : Bytes) (ha : isAscii host = true) (p : Bytes) (q : Params)
    (h : hs.match env host path [] = .accept p q) :
    p = path ∧ ∃ (n : Node) (chain : List (Seg × Bytes)),
      chain ≠ [] ∧ Chain hs.tree.root (chain.map (·.1)) n ∧ normHost host = instChain chain ∧
      (∀ sv ∈ chain, sv.1.Satisfies env hs.tree.ic sv.2) ∧ q = captures chain ∧ n.pattern ∈ domains hs := by
  obtain ⟨_, hN, hI, hinv, _⟩ := C14_reach_late_ic hs hr
  obtain ⟨hp, n, chain, h1, h2, h3, h4, h5, h6⟩ := C14_match_found env hs hinv hN hI host path ha p q h
  refine ⟨hp, n, chain, h1, h2, h3, h4, h5, ?_⟩
  have hne : chain.map (·.1) ≠ [] := fun e => h1 (List.map_eq_nil_iff.1 e)
  have hh : n.handlers ≠ [] := by
    intro e
    rw [e] at h6
    cases h6
  exact P16.live_pattern_mem (chain_mem_below h2 hne) hh

/-! ## C14_match_resolve -/

/-- **`C14_match_admissible`** (the common core).  For a matcher of `C14reach.lean` (`HostsReachWf`), `rs` a list of
exactly the registered domains, an ASCII host whose normal form is neither `""` nor `*`: IF the answer of the lookup
in the private tree is an outcome the reference resolver allows for `rs` (what C02 proves — `C02_resolve` for add-only
histories, `C02_resolve_all_reach` under `ParamStops`), THEN
  1. `Hosts.Match` accepts iff the resolver finds a route for the normalised host among `rs`;
  2. it rejects — request path and parameters untouched — iff the resolver finds none;
  3. when it accepts with parameters `q`, the request path is unchanged and `(pat, q)` is an outcome the resolver
     allows for some registered domain `pat`;
  4. it always does one of the two (no fault, never `.unsupported`). -/
theorem C14_match_admissible (env : Env) (hs : Hosts) (hwf : HostsReachWf hs) (rs : List Bytes)
    (hrs : ∀ p, p ∈ rs ↔ p ∈ domains hs)
    (host path : Bytes) (ha : isAscii host = true) (hne : normHost host ≠ []) (hstar : normHost host ≠ [42])
    (hadm : ∀ f, hs.tree.handler env (normHost host) [] mGET = .res f →
      Admissible env hs.tree.ic rs (normHost host) (C02.outcome f)) :
    ((∃ q, hs.match env host path [] = .accept path q) ↔ resolveAll env hs.tree.ic rs (normHost host) ≠ []) ∧
    (hs.match env host path [] = .reject path [] ↔ resolveAll env hs.tree.ic rs (normHost host) = []) ∧
    (∀ p q, hs.match env host path [] = .accept p q →
      p = path ∧ ∃ pat, pat ∈ rs ∧ (pat, q) ∈ resolveAll env hs.tree.ic rs (normHost host)) ∧
    ((∃ q, hs.match env host path [] = .accept path q) ∨ hs.match env host path [] = .reject path []) := by
  have hroot : hs.tree.root ∈ hs.tree.root.nodes := by rw [Node.nodes_eq]; exact List.mem_cons_self
  -- the lookup answers with a `Found`
  have hsup : hs.tree.handler env (normHost host) [] mGET ≠ .unsupported :=
    handler_get_supported (C02.C02_supported env hs.tree hwf.inv.s2 hs.tree.root hroot (normHost host)
      (isAscii_normHost ha) [] [] hwf.names (by simp [AMap.keys]))
  cases hf : hs.tree.handler env (normHost host) [] mGET with
  | fault s => exact absurd hf (handler_no_fault hwf.reach.inv env _ _ _ s)
  | unsupported => exact absurd hf hsup
  | res f =>
    have hmatch := Hosts.match_res env hs host path [] f ha hf
    have hadm := hadm f hf
    rcases hosts_found hwf.reach.get hne hstar hf with ⟨hok, hnone, hmiss⟩ | ⟨n, hok, hsome, hmem, hh, _⟩
    · -- nothing found: reject, and the resolver finds nothing
      have hnil : resolveAll env hs.tree.ic rs (normHost host) = [] := by
        unfold C02.outcome at hadm; rw [hnone] at hadm; exact hadm
      have hps : f.params = [] := by
        obtain ⟨_, hq⟩ := C14_reject_clean_reach env hs hwf host path ha path f.params (by rw [hmatch, hok]; rfl)
        exact hq
      have hrej : hs.match env host path [] = .reject path [] := by rw [hmatch, hok, hps]; rfl
      refine ⟨?_, ?_, ?_, .inr hrej⟩
      · constructor
        · rintro ⟨q, hq⟩; rw [hrej] at hq; cases hq
        · intro h; exact absurd hnil h
      · exact ⟨fun _ => hnil, fun _ => hrej⟩
      · intro p q hq; rw [hrej] at hq; cases hq
    · -- a node with handlers found: accept, and the resolver allows the outcome
      have hmem' : (n.pattern, f.params) ∈ resolveAll env hs.tree.ic rs (normHost host) := by
        unfold C02.outcome at hadm; rw [hsome] at hadm; exact hadm
      have hacc : hs.match env host path [] = .accept path f.params := by rw [hmatch, hok]; rfl
      have hpat : n.pattern ∈ rs := (hrs _).2 (P16.live_pattern_mem hmem hh)
      refine ⟨?_, ?_, ?_, .inl ⟨_, hacc⟩⟩
      · exact ⟨fun _ => List.ne_nil_of_mem hmem', fun _ => ⟨_, hacc⟩⟩
      · constructor
        · intro h; rw [hacc] at h; cases h
        · intro h; rw [h] at hmem'; cases hmem'
      · intro p q hq
        rw [hacc] at hq
        cases hq
        exact ⟨rfl, n.pattern, hpat, hmem'⟩

/-- **`C14_match_resolve`.**  History: any `RegisterInterceptor`s, then any `Add`s of domains with balanced,
non-nested braces (each accepted or refused) — the quantifier of C02, "only ever added"; `rs` any list of exactly the
domains currently registered.  For every ASCII host whose normal form is neither `""` nor `*`, every request path, no
incoming parameters:
  1. `Hosts.Match` ACCEPTS iff the reference resolver of C02 finds a route for the normalised host among `rs`;
  2. it REJECTS — request path and parameters untouched — iff the resolver finds none;
  3. when it accepts with parameters `q`, the request path is unchanged and `(pat, q)` is an outcome the resolver
     allows for some registered domain `pat`: exactly that pattern's parameters;
  4. it always does one of the two (no fault, never `.unsupported`). -/
theorem C14_match_resolve (env : Env) (regs adds : List HOp) (hregs : ∀ op ∈ regs, HOp.isReg op)
    (hadds : ∀ op ∈ adds, HOp.addOk op) (rs : List Bytes)
    (hrs : ∀ p, p ∈ rs ↔ p ∈ domains (hostsRun (hostsRun Hosts.empty regs) adds))
    (host path : Bytes) (ha : isAscii host = true) (hne : normHost host ≠ []) (hstar : normHost host ≠ [42]) :
    let hs := hostsRun (hostsRun Hosts.empty regs) adds
    ((∃ q, hs.match env host path [] = .accept path q) ↔ resolveAll env hs.tree.ic rs (normHost host) ≠ []) ∧
    (hs.match env host path [] = .reject path [] ↔ resolveAll env hs.tree.ic rs (normHost host) = []) ∧
    (∀ p q, hs.match env host path [] = .accept p q →
      p = path ∧ ∃ pat, pat ∈ rs ∧ (pat, q) ∈ resolveAll env hs.tree.ic rs (normHost host)) ∧
    ((∃ q, hs.match env host path [] = .accept path q) ∨ hs.match env host path [] = .reject path []) := by
  intro hs
  have hdom : ∀ op ∈ adds, HOp.domainOk op := fun op ho => (hadds op ho).domainOk
  obtain ⟨hwf, _⟩ := C14_reach_regsFirst regs adds hregs hdom
  obtain ⟨ic, tops, hao, hw, ht⟩ := regsAdds_tree hregs hadds
  have hic : hs.tree.ic = ic := by
    show (hostsRun (hostsRun Hosts.empty regs) adds).tree.ic = ic
    rw [ht]; exact (sameCfg_run (hostTree0 ic) tops).2.2.1
  refine C14_match_admissible env hs hwf rs hrs host path ha hne hstar (fun f hf => ?_)
  have hf' : ((Tree.new hostName ic { base := .nil } (some { base := .nil }) .nil .nil).run tops).handler env
      (normHost host) [] mGET = .res f := by
    have : hs.tree = (hostTree0 ic).run tops := ht
    rw [this] at hf; exact hf
  have hrs' : ∀ p, p ∈ rs ↔
      p ∈ (tableOf ((Tree.new hostName ic { base := .nil } (some { base := .nil }) .nil .nil).run tops)).patterns := by
    intro p
    rw [hrs p]
    show p ∈ (tableOf (hostsRun (hostsRun Hosts.empty regs) adds).tree).patterns ↔ _
    rw [ht]; rfl
  rw [hic]
  exact C02.C02_resolve env hostName ic { base := .nil } (some { base := .nil }) .nil .nil tops hao hw rs hrs'
    (normHost host) hne hstar mGET (.inr mGET_ne_mTRACE) f hf'

/-- **`C14_match_resolve_stops`** — the same four statements for histories that also `Delete`
(`RegisterInterceptor`s first, then `Add`/`Delete` in any order), under the side condition `ParamStops` of
`C02_resolve_all_partial` on the private tree: below no parameter node do all live domains continue with one and the
same literal byte.  The condition is decidable, holds after add-only histories (so this theorem contains
`C14_match_resolve`), and cannot be dropped: `C14_match_resolve_delete_counterexample`. -/
theorem C14_match_resolve_stops (env : Env) (regs ops : List HOp) (hregs : ∀ op ∈ regs, HOp.isReg op)
    (hops : ∀ op ∈ ops, HOp.domainOk op)
    (hstop : P16.ParamStops (hostsRun (hostsRun Hosts.empty regs) ops).tree) (rs : List Bytes)
    (hrs : ∀ p, p ∈ rs ↔ p ∈ domains (hostsRun (hostsRun Hosts.empty regs) ops))
    (host path : Bytes) (ha : isAscii host = true) (hne : normHost host ≠ []) (hstar : normHost host ≠ [42]) :
    let hs := hostsRun (hostsRun Hosts.empty regs) ops
    ((∃ q, hs.match env host path [] = .accept path q) ↔ resolveAll env hs.tree.ic rs (normHost host) ≠ []) ∧
    (hs.match env host path [] = .reject path [] ↔ resolveAll env hs.tree.ic rs (normHost host) = []) ∧
    (∀ p q, hs.match env host path [] = .accept p q →
      p = path ∧ ∃ pat, pat ∈ rs ∧ (pat, q) ∈ resolveAll env hs.tree.ic rs (normHost host)) ∧
    ((∃ q, hs.match env host path [] = .accept path q) ∨ hs.match env host path [] = .reject path []) := by
  intro hs
  obtain ⟨hwf, hra⟩ := C14_reach_regsFirst regs ops hregs hops
  exact C14_match_admissible env hs hwf rs hrs host path ha hne hstar (fun f hf =>
    C02.C02_resolve_all_reach env hs.tree hra hstop rs hrs (normHost host) hne hstar mGET (.inr mGET_ne_mTRACE) f hf)

/-! ## Non-vacuity -/

/-- `RegisterInterceptor(0, "d")`, `Add("{sub}.Com")`, `Add("{sub}.com.CN")` (a chain-shaped tree: the kernel can
evaluate it, see `mux_eval`). -/
def exRsAdds : List HOp := [.add [123,115,117,98,125,46,67,111,109], .add [123,115,117,98,125,46,99,111,109,46,67,78]]
def exRs : Hosts := hostsRun (hostsRun Hosts.empty exRegs) exRsAdds
/-- `{sub}.com`, `{sub}.com.cn` -/
def dSubCom : Bytes := [123,115,117,98,125,46,99,111,109]
def dSubComCn : Bytes := [123,115,117,98,125,46,99,111,109,46,99,110]
/-- `WWW.Com.CN:443` -/
def exRsHost : Bytes := [87,87,87,46,67,111,109,46,67,78,58,52,52,51]

local macro "rs_eval" : tactic =>
  `(tactic| (simp only [exRs, exRegs, exRsAdds, hostsRun, List.foldl_cons, List.foldl_nil, hostsStep, Hosts.add,
      Hosts.registerInterceptor, Hosts.empty, Tree.add, P10.getNode_eq_F, bind, Except.bind, pure, Except.pure]
             decide +kernel))

theorem exRs_hyps : (∀ op ∈ exRegs, HOp.isReg op) ∧ (∀ op ∈ exRsAdds, HOp.addOk op) := by
  refine ⟨?_, ?_⟩
  · intro op hop
    simp only [exRegs, List.mem_singleton] at hop
    subst hop; trivial
  · intro op hop
    simp only [exRsAdds, List.mem_cons, List.not_mem_nil, or_false] at hop
    rcases hop with rfl | rfl <;> (show WfPattern _ = true; decide)

/-- The hypotheses of `C14_match_resolve` hold for this history and the host `WWW.Com.CN:443` … -/
example : isAscii exRsHost = true ∧ normHost exRsHost ≠ [] ∧ normHost exRsHost ≠ [42] := by decide
/-- … the registered domains are `{sub}.com` and `{sub}.com.cn` (lower-cased) … -/
theorem exRs_domains : domains exRs = [dSubCom, dSubComCn] := by
  unfold domains; rs_eval
/-- … the matcher accepts the host with `sub = www` … -/
theorem exRs_match : outOf (exRs.match P12.exEnv exRsHost [47] []) = some (true, [47], [([115,117,98], [119,119,119])]) := by
  rs_eval
/-- … and that is the one outcome of the reference resolver (interceptor table `[("d", 0)]`): the domain
`{sub}.com.cn`, not `{sub}.com`. -/
example : exRs.tree.ic = [([100], 0)] ∧
    resolveAll P12.exEnv [([100], 0)] [dSubCom, dSubComCn] (normHost exRsHost) =
      [(dSubComCn, [([115,117,98], [119,119,119])])] := by
  refine ⟨by rs_eval, by decide⟩
/-- The instance of the theorem. -/
example (env : Env) (path : Bytes) :
    ((∃ q, exRs.match env exRsHost path [] = .accept path q) ↔
      resolveAll env exRs.tree.ic [dSubCom, dSubComCn] (normHost exRsHost) ≠ []) :=
  (C14_match_resolve env exRegs exRsAdds exRs_hyps.1 exRs_hyps.2 [dSubCom, dSubComCn]
    (by rw [← exRs_domains]; exact fun _ => Iff.rfl) exRsHost path (by decide) (by decide) (by decide)).1
/-- `HostsReach` (hypothesis of `C14_pattern_in_table`) and `HostsLateWf` (of `C14_pattern_in_table_late`). -/
example : HostsReach exRs ∧ HostsLateWf exRs :=
  ⟨⟨exRegs ++ exRsAdds, by simp [exRs, hostsRun, List.foldl_append]⟩,
    C14_late_subsumes _ (C14_reach_regsFirst exRegs exRsAdds exRs_hyps.1 (fun op ho => (exRs_hyps.2 op ho).domainOk)).1⟩

/-! ## The two excluded host texts -/

/-- **Why `normHost host ≠ ""` is needed (counterexample to the unrestricted iff).**  History `Add("{sub}")`; host
`":80"` normalises to `""`.  The reference resolver finds the domain `{sub}` with `sub = ""` (a pattern-final
parameter takes the whole rest, here the empty text), but `Hosts.Match` rejects: the empty text addresses the root of
the private tree, which never has a `GET` entry (`C14_empty_star`).  The Go code does the same
(`tree.Handler("")` selects the root; probe `/root/scratch/p30/goprobe`: `Add("{sub}")`, host `:80` → `false`).  Hence "accepts iff the normalised host resolves" fails for hosts normalising
to `""` whenever a registered domain can match the empty text; `C14_match_resolve` is the iff for all other hosts. -/
theorem C14_match_resolve_empty_counterexample :
    let hs := hostsRun Hosts.empty [.add [123,115,117,98,125]]
    normHost [58,56,48] = [] ∧ domains hs = [[123,115,117,98,125]] ∧
    resolveAll P12.exEnv hs.tree.ic (domains hs) (normHost [58,56,48]) = [([123,115,117,98,125], [([115,117,98], [])])] ∧
    outOf (hs.match P12.exEnv [58,56,48] [47] []) = some (false, [47], []) := by
  refine ⟨by decide, ?_, ?_, ?_⟩ <;>
  · simp only [domains, hostsRun, List.foldl_cons, List.foldl_nil, hostsStep, Hosts.add,
      Hosts.empty, Tree.add, P10.getNode_eq_F, bind, Except.bind, pure, Except.pure]
    decide +kernel

/-- **Why `*` is excluded.**  `Add("*")` is accepted; the resolver finds the literal domain `*` for the host `*`, but the
text `*` addresses the root of the private tree: rejected (model, and Go: probe `/root/scratch/p30/goprobe`). -/
theorem C14_match_resolve_star_counterexample :
    let hs := hostsRun Hosts.empty [.add [42]]
    normHost [42] = [42] ∧ domains hs = [[42]] ∧
    resolveAll P12.exEnv hs.tree.ic (domains hs) (normHost [42]) = [([42], [])] ∧
    outOf (hs.match P12.exEnv [42] [47] []) = some (false, [47], []) := by
  refine ⟨by decide, ?_, ?_, ?_⟩ <;>
  · simp only [domains, hostsRun, List.foldl_cons, List.foldl_nil, hostsStep, Hosts.add,
      Hosts.empty, Tree.add, P10.getNode_eq_F, bind, Except.bind, pure, Except.pure]
    decide +kernel

/-! ## Histories with `Delete`: the side condition of `C14_match_resolve_stops` -/

/-- `Add("{a}.")`, `Add("{a}.x")`, `Delete("{a}.")` — the Hosts twin of `C02_resolve_all_counterexample`. -/
def exDelOps : List HOp := [.add [123,97,125,46], .add [123,97,125,46,120], .delete [123,97,125,46]]

local macro "dl_eval" : tactic =>
  `(tactic| (simp only [exDelOps, domains, hostsRun, List.foldl_cons, List.foldl_nil, hostsStep, Hosts.add, Hosts.delete,
      Hosts.empty, Tree.add, P10.getNode_eq_F, bind, Except.bind, pure, Except.pure]
             decide +kernel))

/-- **Counterexample to the iff for histories that delete** (so `ParamStops` cannot be dropped from
`C14_match_resolve_stops`, and the property's "resolves under the rules of C02 against the domains CURRENTLY
registered" does not hold after every history).  After the history above the only registered domain is `{a}.x`;
the host `1.y.x` resolves under the reference resolver (`a = 1.y`), and a matcher on which only `{a}.x` was ever added
accepts it — but this matcher rejects it: `Delete` left the node `{a}.` (now without handlers) above `x`, and its
capture ends at the FIRST `.`.  The answer depends on the history, not only on the registered domains.  Confirmed on
the Go code (probe `/root/scratch/p30/goprobe`: `ok=false` after the history, `ok=true a=1.y` on the fresh matcher). -/
theorem C14_match_resolve_delete_counterexample :
    let hs := hostsRun Hosts.empty exDelOps
    let fresh := hostsRun Hosts.empty [.add [123,97,125,46,120]]
    (∀ op ∈ exDelOps, HOp.domainOk op) ∧ ¬ P16.ParamStops hs.tree ∧
    domains hs = [[123,97,125,46,120]] ∧ domains fresh = [[123,97,125,46,120]] ∧
    resolveAll P12.exEnv hs.tree.ic (domains hs) (normHost [49,46,121,46,120]) =
      [([123,97,125,46,120], [([97], [49,46,121])])] ∧
    outOf (hs.match P12.exEnv [49,46,121,46,120] [47] []) = some (false, [47], []) ∧
    outOf (fresh.match P12.exEnv [49,46,121,46,120] [47] []) = some (true, [47], [([97], [49,46,121])]) := by
  refine ⟨?_, ?_, ?_, ?_, ?_, ?_, ?_⟩
  · intro op hop
    simp only [exDelOps, List.mem_cons, List.not_mem_nil, or_false] at hop
    rcases hop with rfl | rfl | rfl
    · show WfPattern _ = true; decide
    · show WfPattern _ = true; decide
    · trivial
  all_goals dl_eval

/-- Non-vacuity of `C14_match_resolve_stops`: `Add("a.com")`, `Add("A.com.CN")`, `Delete("a.COM")` — a history with a
`Delete` whose tree satisfies `ParamStops` (the emptied interior node `a.com` stays above `.cn`). -/
def exStopOps : List HOp := [.add P14.dA, .add P14.dACn, .delete [97, 46, 67, 79, 77]]
example : (∀ op ∈ exStopOps, HOp.domainOk op) ∧ P16.ParamStops (hostsRun (hostsRun Hosts.empty exRegs) exStopOps).tree ∧
    domains (hostsRun (hostsRun Hosts.empty exRegs) exStopOps) = [toLower P14.dACn] := by
  refine ⟨?_, ?_, ?_⟩
  · intro op hop
    simp only [exStopOps, List.mem_cons, List.not_mem_nil, or_false] at hop
    rcases hop with rfl | rfl | rfl
    · show WfPattern _ = true; decide
    · show WfPattern _ = true; decide
    · trivial
  all_goals
    simp only [exStopOps, exRegs, domains, hostsRun, List.foldl_cons, List.foldl_nil, hostsStep, Hosts.add, Hosts.delete,
      Hosts.registerInterceptor, Hosts.empty, Tree.add, P10.getNode_eq_F, bind, Except.bind, pure, Except.pure]
    decide +kernel

end Mux.C14
