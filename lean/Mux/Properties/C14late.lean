/-
  C14 — the `Hosts` matcher after histories that register an interceptor AFTER domains were added.

  `C14reach.lean` (P14) discharges the hypotheses `NamesOkL []` / `IdxLit` of `C14_match_found` etc. for histories in
  which `RegisterInterceptor(rule)` is not called while a stored REGEXP segment uses `rule` (`HostsReachWf`), because
  the invariant "every stored segment is `newSegment ic` of its own text under the CURRENT table `ic`" breaks at that
  moment.  The Go code never re-parses a stored segment, and neither does the model (`Seg.splitAt` re-parses the two
  halves of a node that is split — see `C14_split_keeps_kind` for why that never changes a kind).  The invariant that
  survives (`LateInv`, `Mux/Proofs/HostsLate.lean`): every stored segment is `newSegment ic₀` of its own text for SOME
  table `ic₀` — the one in force when the segment was made —, names are pairwise distinct along chains, children are
  ordered by kind, the index is the built one.  It does not mention the current table, and it is all the matcher-
  soundness theorems need.  Hence, for EVERY history of
        Add (domain with balanced, non-nested braces) | Delete | RegisterInterceptor(rule)      (`HostsLateWf`)
  — registrations at any time — `C14_match_found`, `C14_match_reject`, `C14_reject_clean` hold without side
  hypotheses (`C14_match_found_late` …).  `HostsReachWf ⊆ HostsLateWf` (`C14_late_subsumes`).

  The frame property of `Delete` holds as well (`C14_delete_frame_late`): the table-free structural invariant `SX3`
  (sibling texts pairwise different, children ordered by kind, the index is the built one, literal siblings start with
  distinct bytes) survives too, and P14's frame proof only needs that.  CAVEAT: this is a theorem about the MODEL,
  whose `Add` refuses (`Err.unsupported`) to create two siblings with one text; the Go code does create them, and
  there the frame property of `Delete` is FALSE — Observation 2 below.

  ## Observation 1 — what a late registration does to LATER domains (model and Go agree)
  `Add("{a:digit}.{b:digit}.com")`, `RegisterInterceptor(MatchDigit, "digit")`, `Add("{a:digit}.{c:digit}.org")`:
  the second domain is stored BELOW the regexp node `{a:digit}.` of the first (same text ⇒ `Similarity = -1`, the
  node is reused), so its first label is matched by the regular expression `digit`, its second by `MatchDigit`:
  `5.7.org` is rejected, `digit.7.org` accepted; with the registration first it is the other way round.  The doc
  comment of `RegisterInterceptor` ("only effective for domains added after the registration") does not hold for
  a label shared with an older domain.  (`exO1`, `#guard`s in `HostsLateExamples.lean`; Go: same answers.)

  ## Observation 2 — two siblings with ONE text: outside the model, a defect of the Go code
  `Add("{a:digit}.x.com")`, `Add("{a:digit}.x.org")`, `RegisterInterceptor(MatchDigit, "digit")`,
  `Add("{a:digit}.x.net")`, `Add("{a:digit}.x.org2")`.  The last `Add` splits the interceptor leaf `{a:digit}.x.net`
  at `{a:digit}.x.`, the text of its REGEXP sibling.  The model answers `Err.unsupported` (`sortNode`/`hasDupValues`:
  it locates children by text; its comment says such trees only arise from a brace inside a parameter name — a late
  registration is a second way) and the history continues on the unchanged tree, so the theorems below hold but say
  nothing about Go from here on.  The Go code creates the second node.  `Delete("{a:digit}.x.com")`,
  `Delete("{a:digit}.x.org")` then empty the regexp node, and the pruning loop of `Tree.Remove`
  (`internal/tree/tree.go:235-239`: `removeNodes(child.parent.children, child.segment.Value)`, removal of the FIRST
  child with that text, `node.go:238-245`) deletes the INTERCEPTOR sibling — which sorts first — with its live
  domains: `5.x.net` and `5.x.org2` match before the two deletions and are rejected afterwards (run against /repo).
  So "Delete removes exactly the named domain and leaves every other domain matching as before" is false for the
  Go code on this history.  One-line repair: remove by node identity (`slices.Index(children, child)`) in
  `removeNodes`' two pruning callers, or refuse a split/leaf whose text equals a sibling's.

  Helper lemmas: `Mux/Proofs/HostsLateSeg.lean`, `HostsLateNames.lean`, `HostsLateStruct.lean`, `HostsLate.lean`,
  `HostsLateExamples.lean` (namespace `Mux.P17`).
-/
import Mux.Proofs.HostsLateExamples
import Mux.Properties.C14reach
namespace Mux.C14
open Mux Mux.P12 Mux.P14 Mux.P17

/-- A matcher made by `NewHosts` and a history of `Add` (balanced, non-nested braces) / `Delete` /
`RegisterInterceptor` — registrations at ANY time. -/
abbrev HostsLateWf := Mux.P17.HostsLateWf
abbrev LateInv := Mux.P17.LateInv

abbrev LateInv3 := Mux.P17.LateInv3

/-- The histories of `C14reach.lean` are a special case. -/
theorem C14_late_subsumes (hs : Hosts) (h : HostsReachWf hs) : HostsLateWf hs := HostsLateWf.of_reachWf h

/-- Closed under further steps; the empty matcher is one. -/
theorem C14_late_step (hs : Hosts) (h : HostsLateWf hs) (op : HOp) (hop : HOp.lateOk op) :
    HostsLateWf (hostsStep hs op) := h.step hop
theorem C14_late_empty : HostsLateWf Hosts.empty := ⟨[], by simp, rfl⟩

/-! ## The segment-level facts -/

/-- **One text, two tables.**  What `newSegment` makes of a text under two interceptor tables agrees in value, name,
`-` flag, rule and suffix; one is literal iff the other is; and if the kinds agree the segments are equal.  (The
only possible difference: interceptor under one table, regexp under the other.) -/
theorem C14_newSegment_indep (ic ic' : Interceptors) (v : Bytes) (a b : Seg)
    (ha : newSegment ic v = .ok a) (hb : newSegment ic' v = .ok b) :
    a.value = b.value ∧ a.name = b.name ∧ a.ignoreName = b.ignoreName ∧ a.rule = b.rule ∧ a.suffix = b.suffix ∧
      (a.kind = .str ↔ b.kind = .str) ∧ (a.kind = b.kind → a = b) := by
  have h := newSegment_indep ha hb
  exact ⟨h.value, h.name, h.ign, h.rule, h.suffix, h.str, h.eq_of_kind⟩

/-- **A split never changes a kind.**  Let `a` be a stored segment (parsed under SOME table `ic₀`) and `b` the new
segment `getNode` compares it with (parsed under the CURRENT table `ic`), of the same kind, with
`l = longestPrefix a.value b.value > 0` — the only situation in which `a`'s node is split.  Then `Segment.Split` under
the current table succeeds when `l` is inside `a`, the upper half keeps `a`'s kind, name, `-` flag and rule, and the
lower half is literal.  (A stored regexp segment whose rule has become an interceptor name is never in this
situation: a new segment sharing its token is an interceptor segment.) -/
theorem C14_split_keeps_kind (ic0 ic : Interceptors) (a b : Seg) (ha : P9.SegOk ic0 a) (hb : P9.SegOk ic b)
    (hk : a.kind = b.kind) (hpos : 0 < longestPrefix a.value b.value) :
    ∃ l : Nat, longestPrefix a.value b.value = (l : Int) ∧ 0 < l ∧ a.value.take l = b.value.take l ∧
      a.name = b.name ∧ a.rule = b.rule ∧
      ∃ s1, newSegment ic (a.value.take l) = .ok s1 ∧ s1.kind = a.kind ∧ s1.name = a.name ∧
        s1.ignoreName = a.ignoreName ∧ s1.rule = a.rule ∧
        (l < a.value.length → a.splitAt ic l = .ok (s1, { value := a.value.drop l })) := by
  obtain ⟨l, h1, h2, _, _, h5, _, _, h8, _, h10, s1, g1, _, g3, g4, g5, g6, g7⟩ := cutPointX ha hb hk hpos
  exact ⟨l, h1, h2, h5, h8, h10, s1, g1, g3, g4, g5, g6, fun hl => (g7 hl).1⟩

/-! ## The invariant and the hypotheses of the C01 theorems -/

/-- **`C14_reach_late_ic`.**  After every such history: the invariant `LateInv`, and with it the two side
hypotheses of `C14_match_found` / `C14_match_reject` / `C14_reject_clean`, `TreeInv` and `HostsGet`. -/
theorem C14_reach_late_ic (hs : Hosts) (h : HostsLateWf hs) :
    LateInv hs.tree ∧ NamesOkL [] hs.tree.root.children ∧ Node.All IdxLit hs.tree.root ∧ TreeInv hs.tree ∧
      HostsGet hs :=
  ⟨h.inv, h.names, h.idxLit, h.reach.inv, h.reach.get⟩

/-- The full invariant (`LateInv3`): in addition `SX3` on every node — every child segment is `newSegment ic₀` of
its own text for some `ic₀`, sibling texts are pairwise different, literal siblings start with distinct bytes — and
`PatternOk` (a node's pattern is its parent's followed by its own text).  Unfolded for the segments: -/
theorem C14_late_segments (hs : Hosts) (h : HostsLateWf hs) :
    LateInv3 hs.tree ∧ ∀ m ∈ hs.tree.root.nodes, ∀ c ∈ m.children,
      ∃ ic0, newSegment ic0 c.seg.value = .ok c.seg ∧ c.seg.value ≠ [] := by
  refine ⟨h.inv3, fun m hm c hc => ?_⟩
  have := ((All_iff_nodes _).1 _).1 h.inv3.sx3 m hm
  obtain ⟨ic0, hok⟩ := this.segs c hc
  exact ⟨ic0, hok.seg, hok.ne⟩

/-! ## The matcher theorems without side hypotheses, registrations at any time -/

/-- **`C14_match_found`** for every history: an accepting `Hosts.Match` resolved the normalised host along a
non-empty chain of the private tree to a node with a `GET` entry, every captured value satisfies the constraint of
ITS STORED segment (the regular expression for a segment stored as regexp, whatever the table says now), and the
reported parameters are exactly the captures of that chain. -/
theorem C14_match_found_late (env : Env) (hs : Hosts) (hr : HostsLateWf hs)
    (host path : Bytes) (ha : isAscii host = true) (p : Bytes) (q : Params)
    (h : hs.match env host path [] = .accept p q) :
    p = path ∧ ∃ (n : Node) (chain : List (Seg × Bytes)),
      chain ≠ [] ∧ Chain hs.tree.root (chain.map (·.1)) n ∧ normHost host = instChain chain ∧
      (∀ sv ∈ chain, sv.1.Satisfies env hs.tree.ic sv.2) ∧ q = captures chain ∧
      (n.handlers.get? mGET).isSome = true :=
  C14_match_found env hs hr.reach.inv hr.names hr.idxLit host path ha p q h

/-- With incoming parameters whose keys are not parameter names of the tree. -/
theorem C14_match_found_from_late (env : Env) (hs : Hosts) (hr : HostsLateWf hs) (ps : Params)
    (hN : NamesOkL ps.keys hs.tree.root.children)
    (host path : Bytes) (ha : isAscii host = true) (p : Bytes) (q : Params)
    (h : hs.match env host path ps = .accept p q) :
    p = path ∧ ∃ (n : Node) (chain : List (Seg × Bytes)),
      chain ≠ [] ∧ Chain hs.tree.root (chain.map (·.1)) n ∧ normHost host = instChain chain ∧
      (∀ sv ∈ chain, sv.1.Satisfies env hs.tree.ic sv.2) ∧ q = ps ++ captures chain ∧
      (n.handlers.get? mGET).isSome = true :=
  C14_match_found_from env hs hr.reach.inv ps hN hr.idxLit host path ha p q h

/-- **`C14_match_reject`** for every history. -/
theorem C14_match_reject_late (env : Env) (hs : Hosts) (hr : HostsLateWf hs)
    (host path : Bytes) (ha : isAscii host = true) (p : Bytes) (q : Params)
    (h : hs.match env host path [] = .reject p q) :
    p = path ∧ (q = [] ∨ ∃ (n : Node) (chain : List (Seg × Bytes)),
      chain ≠ [] ∧ Chain hs.tree.root (chain.map (·.1)) n ∧ normHost host = instChain chain ∧
      q = [] ++ captures chain ∧ n.handlers ≠ [] ∧ n.handlers.get? mGET = none) :=
  C14_match_reject env hs [] hr.names hr.idxLit host path ha p q h

/-- **`C14_reject_clean`** for every history: a rejecting `Hosts.Match` leaves no parameters behind and never
rewrites the path. -/
theorem C14_reject_clean_late (env : Env) (hs : Hosts) (hr : HostsLateWf hs)
    (host path : Bytes) (ha : isAscii host = true) (p : Bytes) (q : Params)
    (h : hs.match env host path [] = .reject p q) : p = path ∧ q = [] :=
  C14_reject_clean env hs hr.reach.get [] hr.names hr.idxLit host path ha p q h

theorem C14_reject_clean_from_late (env : Env) (hs : Hosts) (hr : HostsLateWf hs) (ps : Params)
    (hN : NamesOkL ps.keys hs.tree.root.children)
    (host path : Bytes) (ha : isAscii host = true) (p : Bytes) (q : Params)
    (h : hs.match env host path ps = .reject p q) : p = path ∧ q = ps :=
  C14_reject_clean env hs hr.reach.get ps hN hr.idxLit host path ha p q h

/-- No request makes such a matcher fault. -/
theorem C14_no_fault_late (env : Env) (hs : Hosts) (hr : HostsLateWf hs) (host path : Bytes) (ps : Params) (s : Nat) :
    hs.match env host path ps ≠ .fault s :=
  C14_no_fault env hs hr.reach host path ps s

/-! ## `Delete` -/

/-- **`C14_delete_frame`** for every history (in the model — see the caveat in the header): `Delete(d)` leaves every
host that was resolved to a node of a DIFFERENT domain matched exactly as before: same verdict, same parameters. -/
theorem C14_delete_frame_late (env : Env) (hs hs' : Hosts) (hr : HostsLateWf hs) (d : Bytes)
    (hd : hs.delete d = .ok hs') (host path : Bytes) (ha : isAscii host = true) (f : Found) (q : Node)
    (hres : hs.tree.handler env (normHost host) [] mGET = .res f) (hq : f.node = some q)
    (hne : q.pattern ≠ toLower d) :
    hs'.match env host path [] = hs.match env host path [] :=
  delete_frame_late env hr hd host path ha hres hq hne

/-- `Delete` never fails on such a matcher, and the result is again such a matcher. -/
theorem C14_delete_ok_late (hs : Hosts) (hr : HostsLateWf hs) (d : Bytes) :
    ∃ hs', hs.delete d = .ok hs' ∧ hs' = hostsStep hs (.delete d) ∧ HostsLateWf hs' := by
  obtain ⟨hs', h1, h2⟩ := delete_ok_late hr d
  exact ⟨hs', h1, h2, h2 ▸ hr.step (op := .delete d) trivial⟩

/-! ## Non-vacuity -/

/-- `Add("{a:digit}.{b}.x")`, `RegisterInterceptor(0, "digit")`, `Add("{a:DIGIT}.{b}.X.y")` is such a history; -/
example : HostsLateWf exL := exL_lateWf
/-- it is NOT one of `C14reach.lean`: `digit` is registered while the stored regexp segment `{a:digit}.` uses it; -/
example : ¬ hostsRunOk Hosts.empty exLOps := exLOps_not_ok
/-- the tree then holds a regexp segment whose rule is in the current table (no single table parses it); -/
example : (exL.tree.root.segsAt [0]).map (fun l => l.map (fun s => (s.kind, (exL.tree.ic.find s.rule).isSome))) =
    some [(.rx, true)] := exL_stale
/-- `DIGIT.foo.x.y:80` is accepted through the domain added after the registration, `a` matched by the regular
expression: the hypotheses of `C14_match_found_late` are satisfiable, and its conclusion gives the chain; -/
example : ∃ (n : Node) (chain : List (Seg × Bytes)), chain ≠ [] ∧ Chain exL.tree.root (chain.map (·.1)) n ∧
    normHost hostL1 = instChain chain ∧ captures chain = [([97], bytesOfString "digit"), ([98], bytesOfString "foo")] := by
  obtain ⟨_, n, chain, h1, h2, h3, _, h5, _⟩ :=
    C14_match_found_late exLEnv exL exL_lateWf hostL1 [47] (by decide +kernel) _ _ exL_accept
  exact ⟨n, chain, h1, h2, h3, h5.symm⟩
/-- `5.foo.x.y` is rejected (Observation 1 in the small) and, by `C14_reject_clean_late`, leaves nothing behind. -/
example : exL.match exLEnv hostL2 [47] [] = .reject [47] [] := exL_reject
example : ([47] : Bytes) = [47] ∧ ([] : Params) = [] :=
  C14_reject_clean_late exLEnv exL exL_lateWf hostL2 [47] (by decide +kernel) _ _ exL_reject

/-- `Delete("{A:digit}.{b}.X")` — the INTERIOR node, below the stale regexp node — succeeds, and `DIGIT.foo.x.y:80`,
resolved to the other domain, is accepted as before: the hypotheses of `C14_delete_frame_late` are satisfiable. -/
example : ∃ hs', exL.delete (bytesOfString "{A:digit}.{b}.X") = .ok hs' ∧
    hs'.match exLEnv hostL1 [47] [] = exL.match exLEnv hostL1 [47] [] := by
  obtain ⟨f, q, h1, h2, h3, _⟩ := exL_answer
  obtain ⟨hs', hd, _⟩ := C14_delete_ok_late exL exL_lateWf (bytesOfString "{A:digit}.{b}.X")
  refine ⟨hs', hd, C14_delete_frame_late exLEnv exL hs' exL_lateWf _ hd hostL1 [47] (by decide +kernel) f q h1 h2 ?_⟩
  rw [h3]; decide +kernel

end Mux.C14
