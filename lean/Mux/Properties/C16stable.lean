/-
  C16 (stability of the recovery script) — `recActs`, what the recovery function writes, is fixed at construction
  like the `recover` flag (`C16_recover_stable`), it is the script the call handed to `CallFunc` carries, and a
  router built with one of the bundled `With*Recovery(status, …)` options therefore answers every panicking request,
  in every state of its life, with exactly the `http.Error` record of `C16_bundled_rec` / `C16_bundled_rec_head`.

  Helper lemmas: `Mux/Proofs/GroupLiftRec.lean` (namespace `Mux.P18`).
-/
import Mux.Proofs.GroupLiftRec
import Mux.Properties.C16
import Mux.Properties.C13
namespace Mux.C16
open Mux Mux.P18

/-- The recovery script is fixed at construction: no `Handle`/`Remove`/`Clean`/`Use` changes it. -/
theorem C16_recActs_stable (cfg : RouterCfg) (r : Router) (ops : List ROp) (h : Router.new cfg = some r) :
    (r.run ops).recActs = cfg.recActs := by
  rw [(run_fixed r ops).1, (new_fixed h).1]

/-- One step form (for histories that are not given as a list). -/
theorem C16_recActs_step (r : Router) (op : ROp) : (r.step op).recActs = r.recActs ∧ (r.step op).recover = r.recover :=
  ⟨(step_fixed r op).1, (step_fixed r op).2.1⟩

/-- Neither do the other construction-time options seen by a request: the CORS configuration and the URL domain. -/
theorem C16_options_stable (cfg : RouterCfg) (r : Router) (ops : List ROp) (h : Router.new cfg = some r) :
    (r.run ops).recover = cfg.recover ∧ (r.run ops).cors = cfg.cors ∧
      (r.run ops).urlDomain = sanitizeDomain cfg.urlDomain := by
  obtain ⟨_, a, b, c⟩ := run_fixed r ops
  obtain ⟨_, a', b', c'⟩ := new_fixed h
  exact ⟨a.trans a', b.trans b', c.trans c'⟩

/-- The call produced by `Router.serveContext` carries the router's recovery script and flag; every call produced by
`Group.serve` is either the group's own not-found call — carrying the GROUP's script and flag — or the call of a
member router of the table, carrying that ROUTER's. -/
theorem C16_call_recActs :
    (∀ (env : Env) (r : Router) (req : Req) (ps : Params) (c : Call),
      r.serveContext env req ps = .call c → c.recActs = r.recActs ∧ c.recover = r.recover) ∧
    (∀ (env : Env) (tab : Nat → Option Hosts) (rt : RTab) (g : Group) (req : Req) (c : Call),
      g.serve env tab rt req = .call c →
        (c.handler = g.notFound ∧ c.node = none ∧ c.recActs = g.recActs ∧ c.recover = g.recover) ∨
        (∃ e ∈ g.routers, ∃ r p ps, rt.get? e.1 = some r ∧
          r.serveContext env { req with path := p } ps = .call c ∧ c.recActs = r.recActs ∧ c.recover = r.recover)) :=
  ⟨serveContext_call_recActs, fun env tab rt g req c h => go_call_recActs env tab rt g req g.routers req.path c h⟩

/-- The not-found call of a group (every matcher rejects, `C13_notfound`) carries the group's script. -/
theorem C16_group_notFound_recActs (env : Env) (tab : Nat → Option Hosts) (rt : RTab) (g : Group) (req : Req)
    (hall : ∀ e ∈ g.routers, C13.Rejects env tab req e) :
    ∃ c, g.serve env tab rt req = .call c ∧ c.handler = g.notFound ∧ c.recActs = g.recActs ∧
      c.recover = g.recover ∧ c.headWrap = false ∧ c.respHeaders = [] := by
  exact ⟨_, serve_all_reject env tab rt g req hall, rfl, rfl, rfl, rfl, rfl⟩

/-- The `http.Error` record of the bundled recovery options on the headers `hs` set so far, without (`false`) and
with (`true`) the `headResponse` wrapper: the right-hand sides of `C16_bundled_rec` / `C16_bundled_rec_head`, for every
configured status (an informational one is not final: `errorStatus`, and nothing sent yet under the wrapper). -/
def bundledRec (code n : Nat) (hw : Bool) (hs : Hdr) : Rec :=
  let h' := ((hs.del hContentLength).set hContentType (bytesOfString "text/plain; charset=utf-8")).set
              (bytesOfString "X-Content-Type-Options") (bytesOfString "nosniff")
  if hw then { hdr := h'.set hContentLength (natToBytes (n + 1)),
               code := if informational code then none else some code,
               snap := if informational code then none else some h', body := 0 }
  else { hdr := h', code := some (errorStatus code), snap := some h', body := n + 1 }

theorem C16_bundledRec_eq (code n : Nat) (hw : Bool) (hs : Hdr) :
    recRec (httpErrorActs code n) hw hs = bundledRec code n hw hs := by
  cases hw
  · exact C16_bundled_rec code n hs
  · exact C16_bundled_rec_head code n hs

/-- **End to end.**  A router built with `recover := true` and `recActs := httpErrorActs code n` (one of the bundled
`WithStatusRecovery/WithWriteRecovery/WithLogRecovery/WithSLogRecovery(code, …)` options, `n` the length of
`http.StatusText(code)`) answers, in EVERY reachable state `r0.run ops`, every request whose call panics — a user
panic or mux's own nil-call fault, `runCall … = .error v` — with exactly the `http.Error` record on the CORS headers
`c.respHeaders` set before the handler ran: the record of `C16_bundled_rec` when `c.headWrap = false`, and of
`C16_bundled_rec_head` when `c.headWrap = true`, which is the case iff the request is a HEAD that was routed
(`c.ok`, i.e. served through the GET route's automatic HEAD entry).  `code` is ANY configured status: a final one is
the status of the record; an informational one (1xx except 101) is not final in net/http, the record then carries
`errorStatus code = 200` (GET) resp. nothing sent yet (HEAD; the implicit 200 follows), see `C16_bundled_status`.  The value reaches the recovery function
unchanged and nothing escapes `ServeHTTP`. -/
theorem C16_bundled_contained (cfg : RouterCfg) (r0 : Router) (code n : Nat) (hnew : Router.new cfg = some r0)
    (hrec : cfg.recover = true) (hacts : cfg.recActs = httpErrorActs code n) (ops : List ROp)
    (env : Env) (pc : PanicCfg) (scripts : Scripts) (req : Req) (ps : Params) :
    (∀ v, ((r0.run ops).serveHTTP env pc scripts req ps).2 ≠ .panicked v) ∧
    (∀ c v, (r0.run ops).serveContext env req ps = .call c → runCall pc scripts c = .error v →
      (r0.run ops).serveHTTP env pc scripts req ps =
        (some c, .recovered v (bundledRec code n c.headWrap c.respHeaders)) ∧
      (c.headWrap = true ↔ c.ok = true ∧ req.method = mHEAD) ∧
      (c.headWrap = false → bundledRec code n c.headWrap c.respHeaders =
        (let h' := ((c.respHeaders.del hContentLength).set hContentType (bytesOfString "text/plain; charset=utf-8")).set
                    (bytesOfString "X-Content-Type-Options") (bytesOfString "nosniff")
         { hdr := h', code := some (errorStatus code), snap := some h', body := n + 1 })) ∧
      (c.headWrap = true → bundledRec code n c.headWrap c.respHeaders =
        (let h' := ((c.respHeaders.del hContentLength).set hContentType (bytesOfString "text/plain; charset=utf-8")).set
                    (bytesOfString "X-Content-Type-Options") (bytesOfString "nosniff")
         { hdr := h'.set hContentLength (natToBytes (n + 1)),
           code := if informational code then none else some code,
           snap := if informational code then none else some h', body := 0 }))) := by
  have hr : (r0.run ops).recover = true := by rw [C16_recover_stable cfg r0 ops hnew, hrec]
  have ha : (r0.run ops).recActs = httpErrorActs code n := by rw [C16_recActs_stable cfg r0 ops hnew, hacts]
  obtain ⟨h1, h2⟩ := C16_contained (r0.run ops) hr env pc scripts req ps
  refine ⟨h1, fun c v hc hv => ⟨?_, ?_, ?_, ?_⟩⟩
  · rw [h2 c v hc hv]
    unfold recoveredRec
    rw [(serveContext_call_recActs env _ req ps c hc).1, ha, C16_bundledRec_eq]
  · exact serveContext_headWrap env _ req ps c hc
  · intro h; rw [h]; rfl
  · intro h; rw [h]; rfl

/-- The same for a request that reaches the router through a `Group` (the router is the first whose matcher
accepts; `C16_group_router`): the group's own options play no role. -/
theorem C16_bundled_contained_group (cfg : RouterCfg) (r0 : Router) (code n : Nat) (hnew : Router.new cfg = some r0)
    (hrec : cfg.recover = true) (hacts : cfg.recActs = httpErrorActs code n) (ops : List ROp)
    (env : Env) (tab : Nat → Option Hosts) (pc : PanicCfg) (scripts : Scripts) (rt : RTab) (g : Group) (req : Req)
    (pre post : List (Nat × Matcher)) (rid : Nat) (m : Matcher) (p0 p : Bytes) (ps : Params)
    (hl : g.routers = pre ++ (rid, m) :: post)
    (hrej : rejectPath env tab req pre req.path = some p0)
    (hacc : m.run env tab req p0 [] = .accept p ps) (hr : rt.get? rid = some (r0.run ops))
    (c : Call) (v : PanicVal)
    (hc : (r0.run ops).serveContext env { req with path := p } ps = .call c) (hv : runCall pc scripts c = .error v) :
    g.serveHTTP env tab pc scripts rt req = (some c, .recovered v (bundledRec code n c.headWrap c.respHeaders)) := by
  rw [C16_group_router env tab pc scripts rt g req pre post rid m (r0.run ops) p0 p ps hl hrej hacc hr]
  exact ((C16_bundled_contained cfg r0 code n hnew hrec hacts ops env pc scripts _ ps).2 c v hc hv).1

/-! ## Non-vacuity -/

/-- a router built with `WithStatusRecovery(418)` ("I'm a teapot", 12 bytes), TRACE configured -/
def bundledCfg : RouterCfg := { name := [114], trace := true, recover := true, recActs := httpErrorActs 418 12 }
def bundledR0 : Router := (Router.new bundledCfg).getD default

example : Router.new bundledCfg = some bundledR0 ∧ bundledCfg.recover = true ∧
    bundledCfg.recActs = httpErrorActs 418 12 := ⟨rfl, rfl, rfl⟩

/-- the TRACE handler panics (base code 4): the hypotheses `serveContext = .call c`, `runCall = .error v` hold -/
example : ∃ c, (bundledR0.run [.use [1]]).serveContext env0 demoReq [] = .call c ∧
    runCall { bases := [(4, 44)] } [] c = .error (.user 44) := by
  have h : mTRACE ≠ mHEAD := by decide +kernel
  refine ⟨_, by simp [Router.serveContext, Tree.handler, bundledR0, bundledCfg, Router.new, Router.run, Router.step,
    Router.use, Tree.applyMiddleware, Tree.new, demoReq, h]; rfl, ?_⟩
  simp [runCall, lookupNat, wrapWith, Base.code]

example : (bundledRec 418 12 false []).code = some 418 ∧ (bundledRec 418 12 false []).body = 13 ∧
    (bundledRec 418 12 true []).body = 0 ∧ (bundledRec 418 12 true []).code = some 418 := by decide +kernel

/-- a router built with `WithStatusRecovery(103)`: the record has status 200 (GET) / nothing sent yet (HEAD) -/
example : (bundledRec 103 11 false []).code = some 200 ∧ (bundledRec 103 11 false []).body = 12 ∧
    (bundledRec 103 11 true []).code = none ∧ (bundledRec 103 11 true []).status = 200 := by decide +kernel

end Mux.C16
