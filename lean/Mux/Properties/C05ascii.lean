/-
  C05 (closing the `.unsupported` alternative on ASCII paths) — the serve-path theorems of C05 have the form
  "answer ∨ `.unsupported`"; `.unsupported` means that the request left the modelled regexp domain (a regexp segment
  with a wide character class met a non-ASCII path).  On ASCII request paths this never happens for routers reached
  by histories of well-formed registrations, so there `Router.ServeHTTP` with quiet user code ALWAYS ends normally.
-/
import Mux.Properties.C05router
import Mux.Properties.C02resolve
namespace Mux.C05
open Mux

/-- **C05_serve_supported**: on a router made by `NewRouter` and a history whose registered patterns pass the brace
check, a request with an ASCII path (any method, host, headers) served from an empty context is never answered
`.unsupported`. -/
theorem C05_serve_supported (cfg : RouterCfg) (r0 : Router) (hnew : Router.new cfg = some r0)
    (ops : List ROp) (hops : ∀ op ∈ ops, P18.ROp.wf op = true)
    (env : Env) (req : Req) (hp : isAscii req.path = true) :
    (r0.run ops).serveContext env req [] ≠ .unsupported := by
  have hall := (P18.reachAll_run hnew hops).inv
  have hsup : ∀ path, isAscii path = true →
      (r0.run ops).tree.root.matchChildren env (r0.run ops).tree.ic path [] ≠ .unsupported := by
    intro path hpa
    exact C02.C02_supported env _ hall.s2 _ (by rw [Node.nodes_eq]; exact List.mem_cons_self) path hpa [] []
      hall.names (by simp [AMap.keys])
  have hnt : Tree.handler.Tree.handlerNoTrace env (r0.run ops).tree req.path [] req.method ≠ .unsupported := by
    unfold Tree.handler.Tree.handlerNoTrace
    simp only []
    split
    · simp
    · rename_i r hr
      split at hr
      · cases hr
      · exact absurd hr (hsup _ hp)
    · simp
    · split
      · simp
      · split
        · simp
        · split <;> simp
  unfold Router.serveContext
  split
  · simp
  · rename_i hu
    unfold Tree.handler at hu
    split at hu
    · split at hu
      · cases hu
      · exact absurd hu hnt
    · exact absurd hu hnt
  · simp

/-- **C05_serveHTTP_quiet_ascii** (`Router.ServeHTTP` never panics when user code does not — without the
`.unsupported` alternative): router made by `NewRouter` with a callable not-found handler, ANY history of
`Handle/Remove/Clean/Use` whose registered patterns pass the brace check, ANY request with an ASCII path (`""`, `*`,
arbitrarily long; any method bytes, host, headers), no panicking user code: `ServeHTTP` selects a callable (non-nil)
handler and returns normally with a response record. -/
theorem C05_serveHTTP_quiet_ascii (cfg : RouterCfg) (r0 : Router) (hnew : Router.new cfg = some r0)
    (hnf : cfg.notFoundBase ≠ .nil ∧ cfg.notFoundBase ≠ .hostEmpty) (ops : List ROp)
    (hops : ∀ op ∈ ops, P18.ROp.wf op = true) (env : Env) (scripts : Scripts) (req : Req)
    (hp : isAscii req.path = true) :
    ∃ c rec, (r0.run ops).serveHTTP env {} scripts req [] = (some c, .normal rec) ∧
      (r0.run ops).serveContext env req [] = .call c ∧ Callable c.handler.base := by
  rcases C05_serveHTTP_quiet cfg r0 hnew hnf ops env scripts req [] with h | ⟨_, h⟩
  · exact h
  · exact absurd h (C05_serve_supported cfg r0 hnew ops hops env req hp)

-- non-vacuity: the history `exHist` and the ASCII paths ``, `*`, `/u/5`
example : isAscii ([] : Bytes) = true ∧ isAscii [42] = true ∧ isAscii [47, 117, 47, 53] = true := by decide

end Mux.C05
