/-
  C05 (serve path) — no request can make `Tree.Handler` / `Router.serveContext` fault, on any route
  table reachable by `Handle/Remove/Clean/Use`; the selected handler is never the nil handler.
  (The parser, matcher and `Handle` clauses of C05 live in `Mux/Properties/C05.lean`.)
-/
import Mux.Proofs.TreeHead
namespace Mux.C05
open Mux

/-- The invariant every history preserves. -/
theorem C05_inv_new (name : Bytes) (ic : Interceptors) (nf : Handler) (tr : Option Handler)
    (ob : Base := .options) (nb : Base := .notAllowed) : TreeInv (Tree.new name ic nf tr ob nb) :=
  inv_new name ic nf tr ob nb

theorem C05_inv_step {t : Tree} (h : TreeInv t) (op : TOp) : TreeInv (t.step op) := inv_step h op

theorem C05_inv_run {t : Tree} (h : TreeInv t) (ops : List TOp) : TreeInv (t.run ops) := inv_run h ops

/-- `hasTrace`, `name`, `ic` and the OPTIONS/405 bases are never changed by a history. -/
theorem C05_cfg_run (t : Tree) (ops : List TOp) : t.SameCfg (t.run ops) := sameCfg_run t ops

/-- No fault on the serve path: on a tree satisfying the invariant `Tree.Handler` never reaches
`n.children[i]` out of range (site 220) — for every path, method and parameter context. -/
theorem C05_serve_inv {t : Tree} (hinv : TreeInv t) (env : Env) (path : Bytes) (ps : Params) (method : Bytes)
    (s : Nat) : t.handler env path ps method ≠ .fault s :=
  handler_no_fault hinv env path ps method s

/-- …hence on every reachable tree. -/
theorem C05_serve_tree (name : Bytes) (ic : Interceptors) (nf : Handler) (tr : Option Handler) (ob nb : Base)
    (ops : List TOp) (env : Env) (path : Bytes) (ps : Params) (method : Bytes) (s : Nat) :
    ((Tree.new name ic nf tr ob nb).run ops).handler env path ps method ≠ .fault s :=
  handler_no_fault (inv_run (inv_new name ic nf tr ob nb) ops) env path ps method s

/-- The answer of `Tree.Handler` on a reachable tree is one of: 404 with `notFound`; the TRACE
short-circuit; an entry of the matched node's handler map for the method; the matched node's `""`
entry (405).  The nil-handler fallback is never taken. -/
theorem C05_serve_answer {t : Tree} (hr : t.Reach) (env : Env) (path : Bytes) (ps : Params) (method : Bytes) :
    (∃ f, t.handler env path ps method = .res f ∧ FoundSpec t method f) ∨
    t.handler env path ps method = .unsupported :=
  handler_spec hr.inv env path ps method

/-- The selected handler is never nil when the tree was created with non-nil `notFound`, `trace`,
OPTIONS and 405 values and only non-nil handlers were registered. -/
theorem C05_serve_not_nil_tree {t : Tree} (hr : t.ReachNonNil) (env : Env) (path : Bytes) (ps : Params)
    (method : Bytes) (f : Found) (h : t.handler env path ps method = .res f) : f.handler.base ≠ .nil := by
  rcases handler_spec hr.reach.inv env path ps method with ⟨f', h1, h2⟩ | h1
  · rw [h1] at h; simp only [HR.res.injEq] at h
    exact h ▸ h2.base hr.vals
  · rw [h1] at h; simp at h

/-- `Router.serveContext` never faults, for every router made by `NewRouter` and any history. -/
theorem C05_serve {r : Router} (hr : r.Reach) (env : Env) (req : Req) (ps : Params) (s : Nat) (rc : Bool) :
    r.serveContext env req ps ≠ .fault s rc := by
  unfold Router.serveContext
  have := handler_no_fault hr.tree.inv env req.path ps req.method
  split
  · rename_i s' h; exact absurd h (this s')
  · simp
  · simp

/-- The handler `serveContext` hands to `CallFunc` is never nil (`NewRouter` got a non-nil
`notFound`). -/
theorem C05_serve_not_nil {cfg : RouterCfg} {r0 : Router} (hnew : Router.new cfg = some r0)
    (hnf : cfg.notFoundBase ≠ .nil) (ops : List ROp) (env : Env) (req : Req) (ps : Params) (c : Call)
    (h : (r0.run ops).serveContext env req ps = .call c) : c.handler.base ≠ .nil := by
  unfold Router.serveContext at h
  split at h
  · simp at h
  · simp at h
  · rename_i f hf
    simp only [ServeRes.call.injEq] at h
    subst h
    exact C05_serve_not_nil_tree (Router.run_treeNonNil hnew hnf ops) env req.path ps req.method f hf

/-- `Hosts.Match` never faults: the private tree of a `Hosts` matcher satisfies the invariant at
creation and after every `Add`, `Delete` and `RegisterInterceptor` (`Hosts.inv_empty`, `Hosts.inv_add`,
`Hosts.inv_delete`, `Hosts.inv_registerInterceptor`), and then no host string reaches a fault. -/
theorem C05_hosts_match {hs : Hosts} (hinv : TreeInv hs.tree) (env : Env) (host path : Bytes) (ps : Params)
    (s : Nat) : hs.match env host path ps ≠ .fault s := by
  unfold Hosts.match
  have := handler_no_fault hinv env (normHost host) ps mGET
  split
  · simp
  · split
    · rename_i s' h; exact absurd h (this s')
    · simp
    · split <;> simp

/-! ## Non-vacuity -/

/-- The hypothesis `TreeInv` holds of a hand-built tree with the route `GET /posts/{id}`. -/
example : TreeInv exTree := exTree_inv
/-- …and of every tree a history produces. -/
example (ops : List TOp) : TreeInv ((Tree.new (bytesOfString "r") [] { base := .notFound } none).run ops) :=
  inv_run (inv_new _ _ _ _) ops
/-- Test of an answer (for the examples). -/
def resIs (r : HR) (p : Found → Bool) : Bool :=
  match r with
  | .res f => p f
  | _ => false

/-- On the hand-built tree a request for `/posts/5` reaches the `{id}` node, with `GET` served by the
user handler and `PUT` by the node's 405 entry; `/nothing` is a 404. -/
example : resIs (exTree.handler ⟨fun _ _ => true⟩ (bytesOfString "/posts/5") [] mGET)
    (fun f => decide (f.handler = { base := .user 1 }) && f.ok &&
      decide (f.params = [(bytesOfString "id", bytesOfString "5")])) = true := by decide +kernel
example : resIs (exTree.handler ⟨fun _ _ => true⟩ (bytesOfString "/posts/5") [] mPUT)
    (fun f => decide (f.handler = { base := .notAllowed }) && !f.ok) = true := by decide +kernel
example : resIs (exTree.handler ⟨fun _ _ => true⟩ (bytesOfString "/nothing") [] mGET)
    (fun f => decide (f.handler = { base := .notFound }) && !f.ok) = true := by decide +kernel
/-- `Router.Reach` and `ReachNonNil` are inhabited. -/
example : ∃ r : Router, r.Reach :=
  ⟨_, { name := [114] }, _, [.handle (bytesOfString "/a") 1 [] [mGET]], rfl, rfl⟩
example : TreeInv Hosts.empty.tree := Hosts.inv_empty
example : exTree.handler ⟨fun _ _ => true⟩ [42] [] mOPTIONS ≠ .fault 220 :=
  C05_serve_inv exTree_inv _ _ _ _ _

end Mux.C05
