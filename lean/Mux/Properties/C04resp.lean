/-
  C04 (responses) — the `Allow` header of the OPTIONS and the 405 RESPONSE, through `Router.serveHTTP`, and
  `OPTIONS *` against `Routes()`.

  The earlier C04 files stop at "which node dispatch reports" (`C04_views_agree`) and at the node's `Methods()`
  (`C04_node`).  Here:
    * `C04_auto_bases`      — the entry stored under OPTIONS / `""` on every node with handlers IS the automatic
                              OPTIONS / 405 handler (keyed base invariant, every history, no hypothesis on patterns);
    * `C04_allow_response`  — for a request answered on a matched node by OPTIONS or by a 405, the response record
                              `Router.serveHTTP` returns carries `Allow: <rendering of the node's method set>`;
    * `C04_star_routes`     — the method set of `OPTIONS *` against the observable `Routes()`;
    * `C04_star_response`   — the response record of the request `OPTIONS *` with that set in its `Allow` header.
-/
import Mux.Proofs.AutoServe
import Mux.Proofs.GroupLiftReach
import Mux.Proofs.GetNodeFuel
import Mux.Properties.C04
namespace Mux.C04
open Mux Mux.P10 Mux.P18

/-! ## The automatic entries are the automatic handlers -/

/-- The keyed base invariant: wherever a node stores something under OPTIONS it has the tree's options base, and
wherever it stores something under `""` it has the tree's not-allowed base. -/
def AutoBases (t : Tree) : Prop := ∀ n ∈ t.root.nodes, ∀ h,
  (n.handlers.get? mOPTIONS = some h → h.base = t.optionsBase) ∧
  (n.handlers.get? mNotAllowed = some h → h.base = t.notAllowedBase)

/-- `C04_auto_bases`: on every tree a history of `Handle/Remove/Clean/Use` produces (`Tree.Reach`, no hypothesis on
the patterns), `AutoBases` holds, and every node (root included) that has handlers HAS an OPTIONS entry whose base is
the tree's options base and a `""` (405) entry whose base is the tree's not-allowed base: they are the automatic
handlers, never a user handler. -/
theorem C04_auto_bases {t : Tree} (hr : t.Reach) :
    AutoBases t ∧
    ∀ n ∈ t.root.nodes, n.handlers ≠ [] →
      ∃ ho hna, n.handlers.get? mOPTIONS = some ho ∧ ho.base = t.optionsBase ∧
        n.handlers.get? mNotAllowed = some hna ∧ hna.base = t.notAllowedBase := by
  have ha := hr.auto
  refine ⟨fun n hn h => ⟨(ha.get hn).options h, (ha.get hn).notAllowed h⟩, ?_⟩
  intro n hn hne
  obtain ⟨h1, h2⟩ := hr.inv.has_entries hn hne
  rw [← AMap.get?_isSome_iff] at h1 h2
  cases ho : n.handlers.get? mOPTIONS with
  | none => rw [ho] at h2; simp at h2
  | some vo =>
    cases hna : n.handlers.get? mNotAllowed with
    | none => rw [hna] at h1; simp at h1
    | some vn => exact ⟨vo, vn, rfl, (ha.get hn).options vo ho, rfl, (ha.get hn).notAllowed vn hna⟩

/-- The same for a router made by `NewRouter` and any history: the two bases are the builders `NewRouter` passes
(`Base.options`: answers `Allow: node.AllowHeader()`; `Base.notAllowed`: the same plus status 405). -/
theorem C04_auto_bases_router {cfg : RouterCfg} {r0 : Router} (hnew : Router.new cfg = some r0) (ops : List ROp) :
    ∀ n ∈ (r0.run ops).tree.root.nodes, n.handlers ≠ [] →
      ∃ ho hna, n.handlers.get? mOPTIONS = some ho ∧ ho.base = .options ∧
        n.handlers.get? mNotAllowed = some hna ∧ hna.base = .notAllowed := by
  obtain ⟨b1, b2⟩ := run_bases hnew ops
  have := (C04_auto_bases (run_reach hnew ops).tree).2
  rw [b1, b2] at this
  exact this

/-! ## The `Allow` header of the response -/

/-- `C04_allow_response`: take a router made by `NewRouter cfg` and ANY history `ops`, any request, any panic
configuration and handler scripts, and let `Router.ServeHTTP` make the call `c` with a matched node `n`
(`c.node = some n`).  Then `n` is a node of the tree that has handlers, `AllowHeader()` of `n` is the `", "`-join of
its `Methods()`, and

* if the request method is OPTIONS: the call succeeds (`ok`), the handler called is `n`'s OPTIONS entry, it is the
  automatic OPTIONS handler, and whenever the call returns normally the response record has
  `Allow = n.AllowHeader()` on its header map, no status written by the handler (net/http then sends the implicit
  200 with that map) and no body;
* if the call is a 405 (`ok = false`): the handler called is `n`'s `""` entry, it is the automatic 405 handler, and
  whenever the call returns normally the response has status 405, the headers AS SENT (snapshot at `WriteHeader`)
  carry `Allow = n.AllowHeader()`, and there is no body;
* in both cases the call does return normally unless a middleware around the entry or the automatic handler itself
  is configured to panic (the two hypotheses of the last conjuncts).

Finally the method set that `Allow` renders is as C04 says: for a node below the root it is the methods registered by
hand on `n`, HEAD iff GET is among them, OPTIONS, and TRACE iff `cfg.trace`; for the root (the node of `OPTIONS *`) it
is OPTIONS, TRACE iff `cfg.trace`, and the methods with a positive tree-wide counter (see `C04_star_routes`).
No hypothesis on the patterns of the history. -/
theorem C04_allow_response {cfg : RouterCfg} {r0 : Router} (hnew : Router.new cfg = some r0) (ops : List ROp)
    (env : Env) (pc : PanicCfg) (scripts : Scripts) (req : Req) (ps : Params)
    {c : Call} {n : Node} {out : Outcome}
    (hs : (r0.run ops).serveHTTP env pc scripts req ps = (some c, out)) (hn : c.node = some n) :
    n ∈ (r0.run ops).tree.root.nodes ∧ n.handlers ≠ [] ∧ n.allow = joinWith [44, 32] n.methods ∧
    (req.method = mOPTIONS →
      c.ok = true ∧ n.handlers.get? mOPTIONS = some c.handler ∧ c.handler.base = .options ∧
      (∀ rec, out = .normal rec →
        rec.hdr.get hAllow = n.allow ∧ rec.code = none ∧ rec.snap = none ∧ rec.body = 0) ∧
      (mwPanic pc c.handler = none → lookupNat pc.bases Base.options.code = none → ∃ rec, out = .normal rec)) ∧
    (c.ok = false →
      n.handlers.get? mNotAllowed = some c.handler ∧ c.handler.base = .notAllowed ∧
      (∀ rec, out = .normal rec →
        rec.code = some 405 ∧ rec.snap.map (·.get hAllow) = some n.allow ∧ rec.hdr.get hAllow = n.allow ∧
        rec.body = 0) ∧
      (mwPanic pc c.handler = none → lookupNat pc.bases Base.notAllowed.code = none → ∃ rec, out = .normal rec)) ∧
    ((n ∈ nodesL (r0.run ops).tree.root.children ∧
        ∀ m, m ∈ n.methods ↔
          m ∈ n.registered ∨ (m = mHEAD ∧ mGET ∈ n.registered) ∨ m = mOPTIONS ∨ (cfg.trace = true ∧ m = mTRACE)) ∨
     (n = (r0.run ops).tree.root ∧
        ∀ m, m ∈ n.methods ↔
          m = mOPTIONS ∨ (cfg.trace = true ∧ m = mTRACE) ∨ m ∈ liveMethods (r0.run ops).tree.counts)) := by
  obtain ⟨hc, hout⟩ := serveHTTP_call hs
  have hreach := (run_reach hnew ops).tree
  obtain ⟨b1, b2⟩ := run_bases hnew ops
  obtain ⟨_, htr, _⟩ := run_cfg hnew ops
  obtain ⟨hmem, hne, hopt, hna⟩ := call_auto hreach.inv hreach.auto env req ps hc hn
  have hallow : c.allow = n.allow := by simp [Call.allow, hn]
  refine ⟨hmem, hne, rfl, ?_, ?_, ?_⟩
  · intro hm
    obtain ⟨h1, h2, h3, h4⟩ := hopt hm
    rw [b1] at h3
    refine ⟨h1, h2, h3, ?_, ?_⟩
    · intro rec hrec
      rw [hout, withRecover_normal] at hrec
      rw [runCall_options h3 h4 hrec, hallow]
      exact ⟨Hdr.get_set_self _ _ _, rfl, rfl, rfl⟩
    · intro hmw hb
      obtain ⟨rec, hrec⟩ := runCall_auto_ok (scripts := scripts) (.inl h3) hmw (by rw [h3]; exact hb)
      exact ⟨rec, by rw [hout, withRecover_normal]; exact hrec⟩
  · intro hok
    obtain ⟨h1, h2, h3, h4⟩ := hna hok
    rw [b2] at h2
    refine ⟨h1, h2, ?_, ?_⟩
    · intro rec hrec
      rw [hout, withRecover_normal] at hrec
      rw [runCall_notAllowed h2 h3 hrec, hallow]
      exact ⟨rfl, by simp [Hdr.get_set_self], Hdr.get_set_self _ _ _, rfl⟩
    · intro hmw hb
      obtain ⟨rec, hrec⟩ := runCall_auto_ok (scripts := scripts) (.inr h2) hmw (by rw [h2]; exact hb)
      exact ⟨rec, by rw [hout, withRecover_normal]; exact hrec⟩
  · rw [Node.nodes_eq] at hmem
    rcases List.mem_cons.1 hmem with rfl | hbelow
    · right
      refine ⟨rfl, fun m => ?_⟩
      rw [← htr]; exact root_methods hreach.inv2 m
    · left
      refine ⟨hbelow, fun m => ?_⟩
      rw [← htr]; exact (C04_node hreach hbelow hne).2.2.2.2.1 m

/-! ## `OPTIONS *` against `Routes()` -/

theorem cntE_pos (m : Bytes) (es : List (Bytes × AMap Handler)) :
    0 < P11.cntE m es ↔ ∃ e ∈ es, m ∈ regKeys e.2 := by
  unfold P11.cntE
  rw [List.length_pos_iff_exists_mem]
  constructor
  · rintro ⟨e, he⟩
    rw [List.mem_filter] at he
    exact ⟨e, he.1, by simpa using he.2⟩
  · rintro ⟨e, he, hm⟩
    exact ⟨e, List.mem_filter.2 ⟨he, by simpa using hm⟩⟩

/-- `C04_star_routes`: the two observables `OPTIONS *` and `Routes()` against each other, at router level over
histories.  The method set the root answers `OPTIONS *` with (the `Allow` of that response is its rendering, by
`C04_allow_response` with `n` = the root) consists of OPTIONS, TRACE iff the option is configured, and EXACTLY the
non-automatic methods (not HEAD, not OPTIONS, not the configured TRACE) that appear in some entry of `Routes()`; on a
brand-new router (`ops = []`), after removals and after `Clean` alike.
Hypothesis `hwf`: every pattern REGISTERED by the history has balanced, non-nested braces (the global domain
restriction of the route-table theorems C03/`C04_star`, DESIGN §0.4b); arguments of `Remove/Clean/Use` are arbitrary. -/
theorem C04_star_routes {cfg : RouterCfg} {r0 : Router} (hnew : Router.new cfg = some r0) (ops : List ROp)
    (hwf : ∀ op ∈ ops, ROp.wf op = true) (m : Bytes) :
    m ∈ (r0.run ops).tree.root.methods ↔
      m = mOPTIONS ∨ (cfg.trace = true ∧ m = mTRACE) ∨
      ∃ x ∈ (r0.run ops).routes, m ∈ x.2 ∧ m ≠ mHEAD ∧ m ≠ mOPTIONS ∧ ¬ (cfg.trace = true ∧ m = mTRACE) := by
  obtain ⟨c1, c2, c3, c4, c5, c6, c7, c8, c9, c10⟩ := method_consts_ne
  have hall := reachAll_run hnew hwf
  obtain ⟨tb, hsim⟩ := hall.sim
  have hreach := hall.reach
  obtain ⟨_, htr, _⟩ := run_cfg hnew ops
  have hroutes : (r0.run ops).routes = (r0.run ops).tree.routes := rfl
  rw [hroutes]
  generalize (r0.run ops).tree = t at hsim hreach htr ⊢
  rw [root_methods hreach.inv2 m, P11.mem_liveMethods hreach.inv2.counts.nodup, hsim.count m, cntE_pos, htr]
  refine or_congr Iff.rfl (or_congr Iff.rfl ?_)
  constructor
  · rintro ⟨e, he, hm⟩
    obtain ⟨n, hn, hne, rfl⟩ := P11.mem_liveL.1 he
    have hreg : m ∈ n.registered := hm
    have hk : m ∈ n.handlers.keys ∧ (m ≠ mHEAD ∧ m ≠ mOPTIONS ∧ m ≠ mNotAllowed) := by
      have := List.mem_filter.1 hreg
      exact ⟨this.1, by simpa using this.2⟩
    refine ⟨(n.pattern, n.methods), (C04_routes hreach _).2 (.inr ⟨n, hn, hne, rfl⟩), ?_, hk.2.1, hk.2.2.1, ?_⟩
    · exact ((C04_node hreach hn hne).2.2.2.2.1 m).2 (.inl hreg)
    · rintro ⟨htrue, rfl⟩
      have hg : Good t.hasTrace n := ((All_iff_nodes _).2 _).1 hreach.inv.below n hn
      rcases hg.1.2 with h0 | h0
      · exact hne h0
      · rcases h0.adm _ hk.1 with h1 | h1
        · exact c10 h1
        · exact h1.2 (by rw [htr]; exact htrue) rfl
  · rintro ⟨x, hx, hmx, hh, ho, ht⟩
    rcases (C04_routes hreach x).1 hx with rfl | ⟨n, hn, hne, rfl⟩
    · exfalso
      simp only [List.mem_cons] at hmx
      rcases hmx with hmx | hmx
      · exact ho hmx
      · rw [htr] at hmx
        cases hct : cfg.trace with
        | false => simp [hct] at hmx
        | true =>
          simp [hct] at hmx
          exact ht ⟨hct, hmx⟩
    · refine ⟨(n.pattern, n.handlers), P11.mem_liveL.2 ⟨n, hn, hne, rfl⟩, ?_⟩
      rcases ((C04_node hreach hn hne).2.2.2.2.1 m).1 hmx with h1 | h1 | h1 | h1
      · exact h1
      · exact absurd h1.1 hh
      · exact absurd h1 ho
      · rw [htr] at h1; exact absurd h1 ht

/-- The call made for `OPTIONS *` is attached to the root node (any tree with the invariant). -/
theorem star_call {r : Router} (hinv : TreeInv r.tree) (env : Env) (req : Req) (ps : Params)
    (hm : req.method = mOPTIONS) (hp : req.path = [42]) :
    ∃ c, r.serveContext env req ps = .call c ∧ c.node = some r.tree.root := by
  obtain ⟨c1, c2, c3, c4, c5, c6, c7, c8, c9, c10⟩ := method_consts_ne
  have hsz : ¬ r.tree.root.size = 0 := by
    have := congrArg List.length hinv.rootKeys
    simp only [AMap.keys, List.length_map, List.length_cons, List.length_nil] at this
    unfold Node.size; omega
  have hne : r.tree.root.handlers ≠ [] := by
    intro h0; apply hsz; simp [Node.size, h0]
  have hk := (hinv.has_entries (n := r.tree.root) (by rw [Node.nodes_eq]; simp) hne).2
  rw [← AMap.get?_isSome_iff] at hk
  cases hg : r.tree.root.handlers.get? mOPTIONS with
  | none => rw [hg] at hk; cases hk
  | some h =>
    have h8 : ¬ mOPTIONS = mNotAllowed := c8
    unfold Router.serveContext
    rw [hm, hp, handler_eq_noTrace env r.tree [42] ps mOPTIONS (fun h => c9 h.2), handlerNoTrace_eq]
    simp only [Tree.matched, true_or, if_true, hsz, if_false, h8, hg]
    exact ⟨_, rfl, rfl⟩

/-- `C04_star_response`: the RESPONSE to `OPTIONS *` against `Routes()`.  On a router made by `NewRouter` and a history
`ops` (registered patterns with balanced, non-nested braces: `hwf`, as in `C04_star_routes`), `Router.ServeHTTP` answers
the request `OPTIONS *` from the root node with the automatic OPTIONS handler; whenever that call returns normally the
response carries `Allow:` the `", "`-join of a sorted duplicate-free list `ms` and nothing else is written (implicit 200,
no body); and `ms` consists of OPTIONS, TRACE iff the option is configured, and exactly the non-automatic methods that
appear in some entry of `Routes()`. -/
theorem C04_star_response {cfg : RouterCfg} {r0 : Router} (hnew : Router.new cfg = some r0) (ops : List ROp)
    (hwf : ∀ op ∈ ops, ROp.wf op = true) (env : Env) (pc : PanicCfg) (scripts : Scripts) (req : Req) (ps : Params)
    (hm : req.method = mOPTIONS) (hp : req.path = [42]) :
    ∃ c out ms, (r0.run ops).serveHTTP env pc scripts req ps = (some c, out) ∧
      c.node = some (r0.run ops).tree.root ∧ c.ok = true ∧ c.handler.base = .options ∧
      ms = (r0.run ops).tree.root.methods ∧
      ms.Pairwise (fun a b => bytesLt a b = true) ∧ ms.Nodup ∧
      (∀ rec, out = .normal rec →
        rec.hdr.get hAllow = joinWith [44, 32] ms ∧ rec.code = none ∧ rec.snap = none ∧ rec.body = 0) ∧
      (mwPanic pc c.handler = none → lookupNat pc.bases Base.options.code = none → ∃ rec, out = .normal rec) ∧
      (∀ m, m ∈ ms ↔ m = mOPTIONS ∨ (cfg.trace = true ∧ m = mTRACE) ∨
        ∃ x ∈ (r0.run ops).routes, m ∈ x.2 ∧ m ≠ mHEAD ∧ m ≠ mOPTIONS ∧ ¬ (cfg.trace = true ∧ m = mTRACE)) := by
  have hreach := (run_reach hnew ops).tree
  obtain ⟨c, hc, hn⟩ := star_call hreach.inv env req ps hm hp
  have hs := serveHTTP_of_call (pc := pc) (scripts := scripts) hc
  obtain ⟨_, _, _, hopt, _, _⟩ := C04_allow_response hnew ops env pc scripts req ps hs hn
  obtain ⟨h1, _, h3, h4, h5⟩ := hopt hm
  exact ⟨c, _, _, hs, hn, h1, h3, rfl, renderMethods_sorted _, renderMethods_nodup _, h4, h5,
    C04_star_routes hnew ops hwf⟩

/-! ## Non-vacuity -/

def exCfg : RouterCfg := { name := [114], trace := true }   -- "r"
def exR0 : Router := (Router.new exCfg).getD default
theorem exNew : Router.new exCfg = some exR0 := rfl
def exEnv : Env := ⟨fun _ _ => true⟩
/-- `GET,POST /a/{id}` with middleware 2, `Use(3)`, POST removed again, a second route `PUT /a`. -/
def exOps : List ROp :=
  [.handle (bytesOfString "/a/{id}") 7 [2] [mGET, mPOST], .use [3], .remove (bytesOfString "/a/{id}") [mPOST],
   .handle (bytesOfString "/a") 8 [] [mPUT]]

theorem exOps_wf : ∀ op ∈ exOps, ROp.wf op = true := by decide +kernel

/-- A decidable view of a response: the call has a node and the given `ok`, and it returned normally with the given
`Allow` on the live map, status, `Allow` as sent, and body size. -/
def respIs (x : Option Call × Outcome) (ok : Bool) (allow : Bytes) (code : Option Nat) (sent : Option Bytes)
    (body : Nat) : Bool :=
  match x with
  | (some c, .normal rec) =>
    c.ok == ok && c.node.isSome && rec.hdr.get hAllow == allow && rec.code == code &&
      rec.snap.map (·.get hAllow) == sent && rec.body == body
  | _ => false

theorem respIs_true {x : Option Call × Outcome} {ok : Bool} {allow : Bytes} {code : Option Nat} {sent : Option Bytes}
    {body : Nat} (h : respIs x ok allow code sent body = true) :
    ∃ c rec n, x = (some c, .normal rec) ∧ c.node = some n ∧ c.ok = ok := by
  obtain ⟨oc, out⟩ := x
  cases oc with
  | none => simp [respIs] at h
  | some c =>
    cases out with
    | normal rec =>
      simp only [respIs, Bool.and_eq_true, beq_iff_eq] at h
      cases hn : c.node with
      | none => rw [hn] at h; simp at h
      | some n => exact ⟨c, rec, n, rfl, hn, h.1.1.1.1.1⟩
    | recovered v r => simp [respIs] at h
    | panicked v => simp [respIs] at h
    | unsupported => simp [respIs] at h

/-- `OPTIONS /a/5` after the history: answered with `Allow: GET, HEAD, OPTIONS, TRACE` on the live map, no status. -/
example : respIs ((exR0.run exOps).serveHTTP exEnv {} [] { method := mOPTIONS, path := bytesOfString "/a/5" } [])
    true (bytesOfString "GET, HEAD, OPTIONS, TRACE") none none 0 = true := by
  mux_eval [exOps]
/-- `POST /a/5` (POST was removed): 405 with `Allow: GET, HEAD, OPTIONS, TRACE` as sent. -/
theorem ex405 : respIs ((exR0.run exOps).serveHTTP exEnv {} [] { method := mPOST, path := bytesOfString "/a/5" } [])
    false (bytesOfString "GET, HEAD, OPTIONS, TRACE") (some 405) (some (bytesOfString "GET, HEAD, OPTIONS, TRACE")) 0 =
    true := by
  mux_eval [exOps]
/-- `OPTIONS *`: the root's set (the hypotheses of `C04_star_response` are just the shape of the request). -/
example : respIs ((exR0.run exOps).serveHTTP exEnv {} [] { method := mOPTIONS, path := [42] } [])
    true (bytesOfString "GET, OPTIONS, PUT, TRACE") none none 0 = true := by
  mux_eval [exOps]
/-- …so the hypotheses of `C04_allow_response` are satisfiable on this history (405 case), with a normal return. -/
example : ∃ c n rec, (exR0.run exOps).serveHTTP exEnv {} [] { method := mPOST, path := bytesOfString "/a/5" } [] =
    (some c, .normal rec) ∧ c.node = some n ∧ c.ok = false := by
  obtain ⟨c, rec, n, h1, h2, h3⟩ := respIs_true ex405
  exact ⟨c, n, rec, h1, h2, h3⟩
/-- `Routes()` of the same router, and the root's method set: `GET` and `PUT` are the non-automatic methods of the
entries, as `C04_star_routes` says. -/
example : (exR0.run exOps).routes =
    [([42], [mOPTIONS, mTRACE]), (bytesOfString "/a", [mOPTIONS, mPUT, mTRACE]),
     (bytesOfString "/a/{id}", [mGET, mHEAD, mOPTIONS, mTRACE])] ∧
    (exR0.run exOps).tree.root.methods = [mGET, mOPTIONS, mPUT, mTRACE] := by
  mux_eval [exOps]
/-- a reachable tree (hypothesis of `C04_auto_bases`) with a node that has handlers -/
example : (exR0.run exOps).tree.Reach ∧
    ((exR0.run exOps).tree.root.nodes.filter (fun n => !n.handlers.isEmpty)).length = 3 :=
  ⟨(run_reach exNew exOps).tree, by mux_eval [exOps]⟩

end Mux.C04
