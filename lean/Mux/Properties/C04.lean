/-
  C04 — Allow headers and method sets are accurate at every moment (node part and rendering).
-/
import Mux.Proofs.TreeHead
namespace Mux.C04
open Mux

/-- `C04_render`: the rendering of the mask of a duplicate-free list of known methods lists exactly
those methods, in sorted order without repetitions. -/
theorem C04_render (ks : List Bytes) (hnd : ks.Nodup) (hsub : ∀ k ∈ ks, k ∈ methodsTable) :
    renderMethods ((ks.map methodBit).sum) = sortBytes (methodsTable.filter (fun m => decide (m ∈ ks))) ∧
    (∀ m, m ∈ renderMethods ((ks.map methodBit).sum) ↔ m ∈ ks) ∧
    (renderMethods ((ks.map methodBit).sum)).Pairwise (fun a b => bytesLt a b = true) ∧
    (renderMethods ((ks.map methodBit).sum)).Nodup :=
  ⟨renderMethods_sum ks hnd hsub, mem_renderMethods_sum ks hnd hsub, renderMethods_sorted _, renderMethods_nodup _⟩

/-- The rendering is defined, sorted and inside the table for every mask, and injective on the
`2^|methods|` masks. -/
theorem C04_render_all (i : Nat) :
    (renderMethods i).Pairwise (fun a b => bytesLt a b = true) ∧ (renderMethods i).Nodup ∧
    (∀ m ∈ renderMethods i, m ∈ methodsTable) ∧
    (∀ m, m ∈ renderMethods i ↔ m ∈ methodsTable ∧ i.testBit ((methodsTable.idxOf? m).getD 0) = true) :=
  ⟨renderMethods_sorted i, renderMethods_nodup i, renderMethods_subset i, mem_renderMethods i⟩

theorem C04_render_injective (i j : Nat) (hi : i < 2 ^ methodsTable.length) (hj : j < 2 ^ methodsTable.length)
    (h : renderMethods i = renderMethods j) : i = j := renderMethods_injective i j hi hj h

/-- `C04_node`: in every reachable tree, for EVERY node below the root that has handlers,
`Node().Methods()` is the rendering of the sum of the bits of its keys (plus TRACE when configured);
as a set it is exactly: the methods registered by hand, HEAD iff GET is among them, OPTIONS, and
TRACE iff a TRACE handler is configured; it is sorted and duplicate-free; and `AllowHeader()` is its
`", "`-join. -/
theorem C04_node_inv {t : Tree} (hinv : TreeInv t) {n : Node} (hn : n ∈ nodesL t.root.children)
    (hne : n.handlers ≠ []) :
    n.methodIndex = ((maskKeys t.hasTrace n.handlers).map methodBit).sum ∧
    n.methods = renderMethods (((maskKeys t.hasTrace n.handlers).map methodBit).sum) ∧
    n.methods = sortBytes (methodsTable.filter (fun m => decide (m ∈ maskKeys t.hasTrace n.handlers))) ∧
    (∀ m, m ∈ n.methods ↔ (m ∈ n.handlers.keys ∧ m ≠ mNotAllowed) ∨ (t.hasTrace = true ∧ m = mTRACE)) ∧
    (∀ m, m ∈ n.methods ↔
      m ∈ n.registered ∨ (m = mHEAD ∧ mGET ∈ n.registered) ∨ m = mOPTIONS ∨ (t.hasTrace = true ∧ m = mTRACE)) ∧
    n.methods.Pairwise (fun a b => bytesLt a b = true) ∧ n.methods.Nodup ∧
    n.allow = joinWith [44, 32] n.methods := by
  have hg : Good t.hasTrace n := ((All_iff_nodes _).2 _).1 hinv.below n hn
  have hshape : KeyShape t.hasTrace n.handlers := by
    rcases hg.1.2 with h0 | h0
    · exact absurd h0 hne
    · exact h0
  have hmi : n.methodIndex = ((maskKeys t.hasTrace n.handlers).map methodBit).sum := by
    rw [hg.1.1]; exact nodeMethodIndex_eq_mask _ _ hne
  obtain ⟨h1, h2⟩ := good_methods hg hne
  refine ⟨hmi, by unfold Node.methods; rw [hmi], h1, h2, ?_, renderMethods_sorted _, renderMethods_nodup _, rfl⟩
  intro m
  rw [h2 m, keys_registered hshape m]
  constructor
  · rintro ((h | h | h) | h)
    · exact .inl h
    · exact .inr (.inl h)
    · exact .inr (.inr (.inl h))
    · exact .inr (.inr (.inr h))
  · rintro (h | h | h | h)
    · exact .inl (.inl h)
    · exact .inl (.inr (.inl h))
    · exact .inl (.inr (.inr h))
    · exact .inr h

/-- `C04_node` for every tree a history of `Handle/Remove/Clean/Use` produces. -/
theorem C04_node {t : Tree} (hr : t.Reach) {n : Node} (hn : n ∈ nodesL t.root.children)
    (hne : n.handlers ≠ []) :
    n.methodIndex = ((maskKeys t.hasTrace n.handlers).map methodBit).sum ∧
    n.methods = renderMethods (((maskKeys t.hasTrace n.handlers).map methodBit).sum) ∧
    n.methods = sortBytes (methodsTable.filter (fun m => decide (m ∈ maskKeys t.hasTrace n.handlers))) ∧
    (∀ m, m ∈ n.methods ↔ (m ∈ n.handlers.keys ∧ m ≠ mNotAllowed) ∨ (t.hasTrace = true ∧ m = mTRACE)) ∧
    (∀ m, m ∈ n.methods ↔
      m ∈ n.registered ∨ (m = mHEAD ∧ mGET ∈ n.registered) ∨ m = mOPTIONS ∨ (t.hasTrace = true ∧ m = mTRACE)) ∧
    n.methods.Pairwise (fun a b => bytesLt a b = true) ∧ n.methods.Nodup ∧
    n.allow = joinWith [44, 32] n.methods := C04_node_inv hr.inv hn hne

/-- `Routes()` names the same sets: below the `*` entry, `Tree.Routes()` lists exactly the pairs
`(n.pattern, n.methods)` of the nodes that have handlers. -/
theorem C04_routes_inv {t : Tree} (hinv : TreeInv t) (x : Bytes × List Bytes) :
    x ∈ routesL t.root.children ↔ ∃ n ∈ nodesL t.root.children, n.handlers ≠ [] ∧ x = (n.pattern, n.methods) := by
  rw [(mem_routes_iff x).2]
  constructor
  · rintro ⟨n, hn, hmi, hx⟩
    exact ⟨n, hn, (good_mi_pos (((All_iff_nodes _).2 _).1 hinv.below n hn)).1 hmi, hx⟩
  · rintro ⟨n, hn, hne, hx⟩
    exact ⟨n, hn, (good_mi_pos (((All_iff_nodes _).2 _).1 hinv.below n hn)).2 hne, hx⟩

theorem C04_routes {t : Tree} (hr : t.Reach) (x : Bytes × List Bytes) :
    x ∈ t.routes ↔ x = ([42], mOPTIONS :: (if t.hasTrace then [mTRACE] else [])) ∨
      ∃ n ∈ nodesL t.root.children, n.handlers ≠ [] ∧ x = (n.pattern, n.methods) := by
  unfold Tree.routes
  rw [List.mem_cons, C04_routes_inv hr.inv]

/-- The node `OPTIONS *` is answered from (the root): its `Methods()` are OPTIONS, TRACE iff
configured, and the methods whose tree-wide counter is positive.  (That the counter of `m` is the
number of live routes with `m` — I-count — is the other half of `C04_star`, not proved here.) -/
theorem C04_star_partial_inv {t : Tree} (hinv : TreeInv2 t) (m : Bytes) :
    m ∈ t.root.methods ↔ m = mOPTIONS ∨ (t.hasTrace = true ∧ m = mTRACE) ∨ m ∈ liveMethods t.counts :=
  root_methods hinv m

theorem C04_star_partial {t : Tree} (hr : t.Reach) (m : Bytes) :
    m ∈ t.root.methods ↔ m = mOPTIONS ∨ (t.hasTrace = true ∧ m = mTRACE) ∨ m ∈ liveMethods t.counts :=
  root_methods hr.inv2 m

/-- `C04_views_agree`: on every reachable tree the OPTIONS answer and a 405 answer for the same path
come from the same node `n` of the tree (its `OPTIONS` entry and its `""` entry), so both `Allow`
headers are `n.allow`. -/
theorem C04_views_agree_inv {t : Tree} (hinv : TreeInv t) (env : Env) (path : Bytes) (ps : Params) (method : Bytes)
    {fo f : Found} {n : Node}
    (ho : t.handler env path ps mOPTIONS = .res fo) (hf : t.handler env path ps method = .res f)
    (hok : f.ok = false) (hn : f.node = some n) :
    fo.node = some n ∧ fo.ok = true ∧ n ∈ t.root.nodes ∧
      n.handlers.get? mOPTIONS = some fo.handler ∧ n.handlers.get? mNotAllowed = some f.handler :=
  views_agree hinv env path ps method ho hf hok hn

theorem C04_views_agree {t : Tree} (hr : t.Reach) (env : Env) (path : Bytes) (ps : Params) (method : Bytes)
    {fo f : Found} {n : Node}
    (ho : t.handler env path ps mOPTIONS = .res fo) (hf : t.handler env path ps method = .res f)
    (hok : f.ok = false) (hn : f.node = some n) :
    fo.node = some n ∧ fo.ok = true ∧ n ∈ t.root.nodes ∧
      n.handlers.get? mOPTIONS = some fo.handler ∧ n.handlers.get? mNotAllowed = some f.handler :=
  views_agree hr.inv env path ps method ho hf hok hn

/-! ## Non-vacuity -/

example : [mGET, mPOST].Nodup ∧ ∀ k ∈ [mGET, mPOST], k ∈ methodsTable := by decide +kernel
example : (3 : Nat) < 2 ^ methodsTable.length := by decide
/-- The hand-built tree (route `GET /posts/{id}`) is an instance of the conclusion of `C04_node`:
the `{id}` node has handlers, its method index is the sum of the bits of GET, HEAD, OPTIONS, and
its `Methods()`/`AllowHeader()` are as the property says. -/
example : TreeInv exTree ∧ exLeaf ∈ nodesL exTree.root.children ∧ exLeaf.handlers ≠ [] :=
  ⟨exTree_inv, exLeaf_mem, by simp [exLeaf]⟩
example : ∀ m, m ∈ exLeaf.methods ↔
    m ∈ exLeaf.registered ∨ (m = mHEAD ∧ mGET ∈ exLeaf.registered) ∨ m = mOPTIONS ∨ (exTree.hasTrace = true ∧ m = mTRACE) :=
  (C04_node_inv exTree_inv exLeaf_mem (by simp [exLeaf])).2.2.2.2.1
example : exTree.routes = [([42], [mOPTIONS]), (bytesOfString "/posts/{id}", [mGET, mHEAD, mOPTIONS])] := by
  decide +kernel
/-- with a TRACE handler configured TRACE is listed too -/
example : exLeafT.methods = [mGET, mHEAD, mOPTIONS, mTRACE] ∧ TreeInv exTreeT ∧ exTreeT.hasTrace = true :=
  ⟨by decide +kernel, exTreeT_inv, rfl⟩
example : exLeaf.methods = [mGET, mHEAD, mOPTIONS] ∧ exLeaf.allow = bytesOfString "GET, HEAD, OPTIONS" ∧
    exLeaf.registered = [mGET] := by decide +kernel
example : exTree.root.methods = [mGET, mOPTIONS] ∧ TreeInv2 exTree := ⟨by decide +kernel, exTree_inv2⟩
/-- the hypotheses of `C04_views_agree`: `OPTIONS /posts/5` and `PUT /posts/5` (a 405) on the hand-built tree -/
example : ∃ fo f, exTree.handler ⟨fun _ _ => true⟩ (bytesOfString "/posts/5") [] mOPTIONS = .res fo ∧
    exTree.handler ⟨fun _ _ => true⟩ (bytesOfString "/posts/5") [] mPUT = .res f ∧ f.ok = false ∧
    f.node.isSome = true := by
  have h1 : (match exTree.handler ⟨fun _ _ => true⟩ (bytesOfString "/posts/5") [] mOPTIONS with
      | .res _ => true | _ => false) = true := by decide +kernel
  have h2 : (match exTree.handler ⟨fun _ _ => true⟩ (bytesOfString "/posts/5") [] mPUT with
      | .res f => !f.ok && f.node.isSome | _ => false) = true := by decide +kernel
  split at h1
  · rename_i fo e1
    split at h2
    · rename_i f e2
      simp only [Bool.and_eq_true, Bool.not_eq_eq_eq_not, Bool.not_true] at h2
      exact ⟨fo, f, e1, e2, h2.1, h2.2⟩
    · simp at h2
  · simp at h1
/-- `Tree.Reach` is inhabited by every history. -/
example : ((Tree.new (bytesOfString "r") [] { base := .notFound } (some { base := .trace })).run
    [.add (bytesOfString "/a") { base := .user 1 } [] [mGET]]).Reach := ⟨_, _, _, _, _, _, _, rfl⟩

end Mux.C04
