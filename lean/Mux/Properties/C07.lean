/-
  C07 — instances are isolated; a quiescent router serves concurrently.

  Same partiality as C06 (DESIGN §8 "C07", §10). Proved:
  (a) on the regenerated facts: no package-level variable is mutated after initialisation except
      the `sync.Pool` and what a package-level lock guards (`C07_globals`); nothing reachable from
      `ServeHTTP` writes router/tree/node/… state (`C07_readonly`, `C07_reach`);
  (b) in the interleaving semantics of `Mux.Proofs.RWLock`: threads that only run reader operations —
      with the lock and in the variant without any lock — never conflict, never change the shared
      state, and each computes the sequential function of (shared state, own request) (`C07_ro_drf…`);
  (c) in the model, operations on one instance are functions of that instance only
      (`C07_fresh…`), and whatever the context pool hands out is empty (`C07_pool…`).

  Trusted: `sync.Pool` hands one object to one holder at a time; `sync.RWMutex`; DRF-SC; the extractor.
-/
import Mux.Proofs.Conc
namespace Mux.C07
open Mux Mux.RWLock Mux.Conc

/-! ## (a) The regenerated-fact obligations -/

/-- Every package-level variable is never mutated after initialisation, or is the `sync.Pool`, or is
only touched under a package-level lock. -/
theorem C07_globals : ∀ g ∈ Facts.globals, g.mutatedIn = [] ∨ g.isSyncPool = true ∨ g.guarded = true :=
  Ties.C07_globals

/-- No function statically reachable from `Router.ServeHTTP` / `Group.ServeHTTP` writes to router,
tree, node, segment, CORS, matcher or group state. -/
theorem C07_readonly : Facts.serveWrites = [] := Ties.C07_readonly

/-- The serve path the facts were computed over contains what the model mirrors. -/
theorem C07_reach : ∀ f ∈ ["Router.ServeHTTP", "Router.serveContext", "Tree.Handler", "node.matchChildren", "Segment.Match",
    "cors.handle", "Group.ServeHTTP", "Hosts.Match", "pathVersion.Match", "headerVersion.Match"], f ∈ Facts.serveReach :=
  Ties.C07_reach

/-! ## (b) Concurrent requests on a quiescent router -/

/-- **Generic, with the lock.** If every operation of every thread is a reader then, for any number
of threads and any schedule, in every reachable configuration: the lock is `free` or `readers n`,
the shared state is the initial one, no two threads have conflicting next accesses, and every
published response is the sequential function of (initial state, own request). -/
theorem C07_ro_drf_generic (S : Sys) (s0 : S.σ) (progs : Nat → List S.Op) (hro : ReadOnly progs)
    (c : Config S) (h : Reachable s0 progs c) :
    (c.lock = .free ∨ ∃ n, c.lock = .readers n) ∧ c.st = s0 ∧
    (∀ r ∈ c.done, r.resp = (S.sem r.call.op s0).2) ∧
    (∀ i j a b, i ≠ j → (c.thr i).ph.next? = some a → (c.thr j).ph.next? = some b → ¬ Conflict a b) :=
  ⟨(readonly hro h).1, (readonly hro h).2.1, (readonly hro h).2.2, fun _ _ _ _ hij hi hj => drf h hij hi hj⟩

/-- **Generic, WITHOUT any lock** (`WithLock(false)`): no acquire/release at all. If no operation
writes, the shared state never changes, every response is the sequential function of (initial
state, own request), every pending micro-access is a read, so there is no conflicting pair.
(With a writer the lock-free semantics does reach a conflict: `RWLock.toy_nolock_race`.) -/
theorem C07_ro_drf_nolock_generic (S : Sys) (s0 : S.σ) (progs : Nat → List S.Op) (hro : ReadOnly progs)
    (c : NoLock.NConfig S) (h : NoLock.NReachable s0 progs c) :
    c.st = s0 ∧ (∀ r ∈ c.done, r.resp = (S.sem r.op s0).2) ∧
    (∀ i a, (c.thr i).ph.next? = some a → a.2 = false) ∧
    (∀ i j a b, i ≠ j → (c.thr i).ph.next? = some a → (c.thr j).ph.next? = some b → ¬ Conflict a b) :=
  NoLock.readonly hro h

/-- **A frozen router, with the lock**: any number of goroutines each serving any list of requests.
Every response is `Router.serveContext` of (the router, the goroutine's own request, the empty
parameter list of a fresh context) — each request sees exactly its own parameters. -/
theorem C07_ro_drf (env : Env) (r0 : Router) (progs : Nat → List Req) (c : Config (serveSys env))
    (h : Reachable (S := serveSys env) r0 progs c) :
    (c.lock = .free ∨ ∃ n, c.lock = .readers n) ∧ c.st = r0 ∧
    (∀ r ∈ c.done, r.resp = r0.serveContext env r.call.op []) ∧
    (∀ i j a b, i ≠ j → (c.thr i).ph.next? = some a → (c.thr j).ph.next? = some b →
      ¬ Conflict (S := serveSys env) a b) :=
  C07_ro_drf_generic (serveSys env) r0 progs (serveSys_readOnly env progs) c h

/-- **A frozen router, without the lock.** -/
theorem C07_ro_drf_nolock (env : Env) (r0 : Router) (progs : Nat → List Req) (c : NoLock.NConfig (serveSys env))
    (h : NoLock.NReachable (S := serveSys env) r0 progs c) :
    c.st = r0 ∧ (∀ r ∈ c.done, r.resp = r0.serveContext env r.op []) ∧
    (∀ i j a b, i ≠ j → (c.thr i).ph.next? = some a → (c.thr j).ph.next? = some b →
      ¬ Conflict (S := serveSys env) a b) :=
  have := C07_ro_drf_nolock_generic (serveSys env) r0 progs (serveSys_readOnly env progs) c h
  ⟨this.1, this.2.1, this.2.2.2⟩

/-- The tree API restricted to its readers (`Handler`, `Routes`, `URL`), with the lock: the tree
stays `t0` and every response is the pure function of (`t0`, request). -/
theorem C07_ro_drf_tree (env : Env) (t0 : Tree) (progs : Nat → List Op)
    (hro : ∀ i, ∀ op ∈ progs i, op.isWriter = false) (c : Config (treeSys env))
    (h : Reachable (S := treeSys env) t0 progs c) :
    (c.lock = .free ∨ ∃ n, c.lock = .readers n) ∧ c.st = t0 ∧
    (∀ r ∈ c.done, r.resp = (sem env r.call.op t0).2) :=
  have := C07_ro_drf_generic (treeSys env) t0 progs hro c h
  ⟨this.1, this.2.1, this.2.2.1⟩

/-- The hypothesis of `C07_ro_drf_tree` is satisfiable by non-trivial programs. -/
example : ∀ i, ∀ op ∈ (fun i : Nat => if i < 16 then [Op.handler [47] [] mGET, Op.routes, Op.url [47] []] else []) i,
    op.isWriter = false := by
  intro i op hop
  dsimp only at hop
  split at hop
  · simp at hop; rcases hop with rfl | rfl | rfl <;> rfl
  · simp at hop

/-- Non-vacuity of `C07_ro_drf`: two requests inside at the same time (lock `readers 2`). -/
example (env : Env) (r0 : Router) : ∃ c : Config (serveSys env),
    Reachable (S := serveSys env) r0 (fun i => if i < 2 then [{ method := mGET, path := [47] }] else []) c ∧
    c.lock = .readers 2 ∧ (c.thr 0).ph.held = some false ∧ (c.thr 1).ph.held = some false := by
  have h0 : Reachable (S := serveSys env) r0 (fun i => if i < 2 then [{ method := mGET, path := [47] }] else []) _ := .init
  have h1 := h0.step (.invoke _ 0 ({ method := mGET, path := [47] } : Req) [] rfl)
  have h2 := h1.step (.invoke _ 1 ({ method := mGET, path := [47] } : Req) [] rfl)
  have h3 := h2.step (.acquire _ 0 [] ⟨({ method := mGET, path := [47] } : Req), 0, 0⟩ rfl rfl)
  have h4 := h3.step (.acquire _ 1 [] ⟨({ method := mGET, path := [47] } : Req), 0, 1⟩ rfl rfl)
  exact ⟨_, h4, rfl, rfl, rfl⟩

/-! ## (c) Instances share no state -/

/-- An operation on the router with handle `id` does not change what any other handle denotes, and
on its own handle it is `Router.step` of that router alone. -/
theorem C07_fresh_frame (rt : RTab) (id id' : Nat) (op : ROp) :
    (id ≠ id' → (stepAt rt id op).get? id' = rt.get? id') ∧
    (stepAt rt id op).get? id = (rt.get? id).map (·.step op) := by
  refine ⟨fun h => ?_, ?_⟩
  · have : ¬ id' = id := fun e => h e.symm
    simp [stepAt_get?, this]
  · simp [stepAt_get?]

/-- **Interleavings.** After ANY interleaved history of operations on any number of routers, each
router is what running its own operations alone (`Router.run`) makes of it. -/
theorem C07_fresh (rt : RTab) (h : List (Nat × ROp)) (id : Nat) :
    (runAt rt h).get? id = (rt.get? id).map (fun r => r.run ((h.filter (·.1 = id)).map (·.2))) :=
  runAt_get? rt h id

/-- The two-instance form of the brief: if `h` interleaves the history `ha` of `a` with the history
`hb` of `b ≠ a` (its restrictions to `a` and `b` are `ha` and `hb`), then `a` ends as `ra.run ha`
and `b` as `rb.run hb`. -/
theorem C07_fresh_two (rt : RTab) (a b : Nat) (ra rb : Router) (ha hb : List ROp) (h : List (Nat × ROp))
    (hra : rt.get? a = some ra) (hrb : rt.get? b = some rb)
    (hfa : (h.filter (·.1 = a)).map (·.2) = ha) (hfb : (h.filter (·.1 = b)).map (·.2) = hb) :
    (runAt rt h).get? a = some (ra.run ha) ∧ (runAt rt h).get? b = some (rb.run hb) := by
  simp [runAt_get?, hra, hrb, hfa, hfb]

/-- A concrete interleaving satisfying the hypotheses of `C07_fresh_two`. -/
example : let h : List (Nat × ROp) := [(0, .clean []), (1, .use [7]), (0, .use [3]), (1, .clean [47])]
    (h.filter (·.1 = 0)).map (·.2) = [ROp.clean [], ROp.use [3]] ∧
    (h.filter (·.1 = 1)).map (·.2) = [ROp.use [7], ROp.clean [47]] := by
  exact ⟨rfl, rfl⟩

/-- Including creation: `Router.new cfg` is a closed term of `cfg` (`IOp.own` ignores everything but
the handle's own history), so after any interleaving of creations and operations under any
handles, what a handle denotes is a function of ITS history alone — a fresh router answers
identically whatever other routers did before it. -/
theorem C07_fresh_new (rt : RTab) (h : List (Nat × IOp)) (id : Nat) :
    (runAll rt h).get? id = ((h.filter (·.1 = id)).map (·.2)).foldl IOp.own (rt.get? id) :=
  runAll_get? rt h id

/-- Two tables, two arbitrary histories: if the handle's own history and initial entry agree, the
routers agree, hence so does every response (`serveContext`, `routes`, `url` are functions of the
router). -/
theorem C07_fresh_serve (env : Env) (rt rt' : RTab) (h h' : List (Nat × IOp)) (id : Nat)
    (h0 : rt.get? id = rt'.get? id)
    (hh : (h.filter (·.1 = id)).map (·.2) = (h'.filter (·.1 = id)).map (·.2)) (req : Req) (ps : Params) :
    (runAll rt h).get? id = (runAll rt' h').get? id ∧
    ((runAll rt h).get? id).map (·.serveContext env req ps) = ((runAll rt' h').get? id).map (·.serveContext env req ps) := by
  have : (runAll rt h).get? id = (runAll rt' h').get? id := by rw [runAll_get?, runAll_get?, h0, hh]
  exact ⟨this, by rw [this]⟩

/-- `NewRouter` itself: nothing but `cfg` enters. -/
theorem C07_fresh_closed (cfg : RouterCfg) (rt : RTab) (id : Nat) (r : Router) (h : Router.new cfg = some r) :
    (applyAt rt id (.create cfg)).get? id = some r := by
  simp [applyAt_get?, IOp.own, h]

/-! ## The context pool -/

/-- Whatever (dirty) contexts the pool holds, `NewContext` hands out an empty one: no parameters,
empty path, no node, no router name. -/
theorem C07_pool_new : ∀ pool : Pool, (Pool.newContext pool).1 = {} := newContext_fresh

/-- After any interleaving of `Destroy` (of arbitrary dirty contexts) and `NewContext`, every context
handed out is empty. -/
theorem C07_pool (pool : Pool) (ops : List PoolOp) : ∀ c ∈ (poolRun pool ops).2, c = {} :=
  poolRun_fresh pool ops

/-- So a request served with a pooled context sees exactly the parameters of its own path: the
parameters the dispatch starts from are `[]` whatever the previous holder left behind. -/
theorem C07_pool_serve (env : Env) (r : Router) (req : Req) (pool : Pool) :
    r.serveContext env req (Pool.newContext pool).1.params = r.serveContext env req [] := by
  rw [newContext_fresh]

/-- Non-vacuity: a dirty context goes through the pool and comes back empty. -/
example : (poolRun [] [.destroy { path := [47], params := [([105, 100], [49])], routerName := [97], hasNode := true },
    .get, .get]).2 = [{}, {}] := by decide

end Mux.C07
