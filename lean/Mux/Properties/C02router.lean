/-
  C02 at ROUTER level, for "a router whose routes were only ever added": histories of `Handle` (with or
  without per-route middlewares) and `Use` from `NewRouter(cfg)`.

  `C02_resolve` (`C02resolve.lean`) is a statement about TREE histories consisting of `add` only (`AddOnly`
  excludes `Use`), with the residual hypothesis that the dispatch answers `.res`.  Here:

  * `C02_resolve_use` / `C02_resolve_use_404`: the same statement for tree histories of `add` AND `use`
    (`AddUse`): middlewares map handlers and leave segments, patterns and children alone, so the "forked or
    live" invariant `FInv` behind the canonical form survives (`Mux/Proofs/ResolveUse.lean`).
  * `C02_router_resolve` / `C02_router_resolve_404`: from `Router.new cfg`, any history of `Handle`/`Use`
    whose registered patterns are well-formed, any request with an ASCII path other than `""`/`*` (and not
    the TRACE short-circuit): `Router.serveContext` ALWAYS hands a call to `CallFunc` (no fault, no
    `unsupported`), the reported route and parameters are an outcome `Spec.resolveAll` allows for the set of
    routes the router holds, and the call is the 404 exactly when the reference resolver finds nothing.
  * `C02_router_routes`: when every `Handle` is accepted, that set is the set of registered patterns — it
    does not depend on the `Use` calls, the middleware lists or the registration order
    (`C02_router_order_independent`).
-/
import Mux.Properties.C02resolve
import Mux.Properties.C01router
import Mux.Proofs.ResolveUse
namespace Mux.C02
open Mux Mux.P8 Mux.P15 Mux.P28 Mux.Spec

/-! ## Tree level -/

/-- Tree form: a tree with the invariants of a well-formed history (`AllInv`) and the "forked or live"
invariant (`FInv`, for some abstract table) refines the reference resolver on its own route set. -/
theorem C02_resolve_finv (env : Env) (t : Tree) (hinv : P14.AllInv t) {tb : Spec.Table} (hf : FInv t tb)
    (rs : List Bytes) (hrs : ∀ p, p ∈ rs ↔ p ∈ (tableOf t).patterns)
    (path : Bytes) (hp : path ≠ []) (hstar : path ≠ [42]) (method : Bytes) (htr : t.trace = none ∨ method ≠ mTRACE)
    (f : Found) (h : t.handler env path [] method = .res f) : Admissible env t.ic rs path (outcome f) :=
  (C02_spec_order_independent env t.ic _ _ hrs path _).2
    (C02_resolve_partial env t _ hinv.s2 (canonical_of_FInv hf) hinv.names path hp hstar method htr f h)

/-- **`C02_resolve_use`.**  `C02_resolve` for histories of registrations AND `Use` calls (in any order, each
registration accepted or rejected, well-formed patterns): for every list `rs` of exactly the routes the tree
holds, every dispatch of a path other than `""` and `*` answers with a route and parameters that the documented
procedure allows for `rs`, and with 404 only if the procedure finds no route.  Middlewares do not disturb the
resolution. -/
theorem C02_resolve_use (env : Env) (name : Bytes) (ic : Interceptors) (nf : Handler) (tr : Option Handler)
    (ob nb : Base) (ops : List TOp) (ha : AddUse ops) (hw : ∀ op ∈ ops, op.wf = true) (rs : List Bytes)
    (hrs : ∀ p, p ∈ rs ↔ p ∈ (tableOf ((Tree.new name ic nf tr ob nb).run ops)).patterns)
    (path : Bytes) (hp : path ≠ []) (hstar : path ≠ [42]) (method : Bytes) (htr : tr = none ∨ method ≠ mTRACE)
    (f : Found) (h : ((Tree.new name ic nf tr ob nb).run ops).handler env path [] method = .res f) :
    Admissible env ic rs path (outcome f) := by
  have hcfg := sameCfg_run (Tree.new name ic nf tr ob nb) ops
  have hic : ((Tree.new name ic nf tr ob nb).run ops).ic = ic := hcfg.2.2.1
  have htr' : ((Tree.new name ic nf tr ob nb).run ops).trace = none ∨ method ≠ mTRACE := by
    rcases htr with rfl | h
    · left
      have h1 : ((Tree.new name ic nf none ob nb).run ops).hasTrace = false := hcfg.1
      unfold Tree.hasTrace at h1
      cases ht : ((Tree.new name ic nf none ob nb).run ops).trace with
      | none => rfl
      | some _ => rw [ht] at h1; cases h1
    · exact .inr h
  have := C02_resolve_finv env _ ((P14.AllInv.new name ic nf tr ob nb).run hw)
    (finv_history_use name ic nf tr ob nb ops ha hw) rs hrs path hp hstar method htr' f h
  rw [hic] at this
  exact this

/-- "404 exactly when the procedure finds no route", for every history of registrations and `Use` calls. -/
theorem C02_resolve_use_404 (env : Env) (name : Bytes) (ic : Interceptors) (nf : Handler) (tr : Option Handler)
    (ob nb : Base) (ops : List TOp) (ha : AddUse ops) (hw : ∀ op ∈ ops, op.wf = true) (rs : List Bytes)
    (hrs : ∀ p, p ∈ rs ↔ p ∈ (tableOf ((Tree.new name ic nf tr ob nb).run ops)).patterns)
    (path : Bytes) (hp : path ≠ []) (hstar : path ≠ [42]) (method : Bytes) (htr : tr = none ∨ method ≠ mTRACE)
    (f : Found) (h : ((Tree.new name ic nf tr ob nb).run ops).handler env path [] method = .res f) :
    f.node = none ↔ resolveAll env ic rs path = [] := by
  have := C02_resolve_use env name ic nf tr ob nb ops ha hw rs hrs path hp hstar method htr f h
  unfold outcome at this
  cases hf : f.node with
  | none => rw [hf] at this; exact ⟨fun _ => this, fun _ => rfl⟩
  | some n =>
    rw [hf] at this
    constructor
    · intro h'; cases h'
    · intro h'; simp only [Option.map_some, Admissible] at this; rw [h'] at this; cases this

/-- The tree of such a history is in canonical form for its own route table, and every node below the root has
handlers or is forked (`C02_canonical`, `C02_forked` with `Use`). -/
theorem C02_canonical_use (name : Bytes) (ic : Interceptors) (nf : Handler) (tr : Option Handler) (ob nb : Base)
    (ops : List TOp) (ha : AddUse ops) (hw : ∀ op ∈ ops, op.wf = true) :
    Canonical ((Tree.new name ic nf tr ob nb).run ops) (tableOf ((Tree.new name ic nf tr ob nb).run ops)).patterns :=
  canonical_of_FInv (finv_history_use name ic nf tr ob nb ops ha hw)

/-! ## Router level -/

/-- What a call reports, in the resolver's terms: `none` for the 404, else route pattern and parameters. -/
def callOutcome (c : Call) : Option (Bytes × Params) := c.node.map fun n => (n.pattern, c.params)

/-- **`C02_router_resolve`.**  `NewRouter(cfg)`, then any history of `Handle` (with any per-route middlewares and
methods, accepted or rejected) and `Use` calls whose registered patterns are well-formed — a router whose routes
were only ever added —, then any request whose path is ASCII and neither `""` nor `*` (and which is not answered by
the TRACE short-circuit).  Then `Router.serveContext` hands a call `c` to `CallFunc` (it neither faults nor leaves
the modelled regexp dialect), and what `c` reports — route pattern and parameter values, or no route (404) — is an
outcome the documented procedure `Spec.resolveAll` allows for `rs`, any list of exactly the routes the router
holds: a member of `resolveAll env cfg.ic rs req.path`, resp. 404 only if that list is empty. -/
theorem C02_router_resolve (env : Env) {cfg : RouterCfg} {r0 : Router} (hnew : Router.new cfg = some r0)
    (ops : List ROp) (hadd : HandleUse ops) (hw : ∀ op ∈ ops, P18.ROp.wf op = true) (rs : List Bytes)
    (hrs : ∀ p, p ∈ rs ↔ p ∈ (tableOf (r0.run ops).tree).patterns) (req : Req)
    (hasc : isAscii req.path = true) (hp : req.path ≠ []) (hs : req.path ≠ [42])
    (htr : cfg.trace = false ∨ req.method ≠ mTRACE) :
    ∃ c, (r0.run ops).serveContext env req [] = .call c ∧ Admissible env cfg.ic rs req.path (callOutcome c) := by
  have hinv : P14.AllInv (r0.run ops).tree := (P18.reachAll_run hnew hw).inv
  obtain ⟨tb, hf⟩ := finv_router hnew ops hadd hw
  obtain ⟨hic, _, htrace⟩ := C01.router_cfg hnew ops
  obtain ⟨f, hres⟩ := handler_total hinv env req.path hasc req.method
  have hadm := C02_resolve_finv env _ hinv hf rs hrs req.path hp hs req.method (htr.imp htrace id) f hres
  rw [hic] at hadm
  refine ⟨_, by unfold Router.serveContext; rw [hres], ?_⟩
  exact hadm

/-- **"404 exactly when the procedure finds no route"** at router level: under the hypotheses of
`C02_router_resolve` the call reports no route iff `Spec.resolveAll` finds nothing for the routes held. -/
theorem C02_router_resolve_404 (env : Env) {cfg : RouterCfg} {r0 : Router} (hnew : Router.new cfg = some r0)
    (ops : List ROp) (hadd : HandleUse ops) (hw : ∀ op ∈ ops, P18.ROp.wf op = true) (rs : List Bytes)
    (hrs : ∀ p, p ∈ rs ↔ p ∈ (tableOf (r0.run ops).tree).patterns) (req : Req)
    (hasc : isAscii req.path = true) (hp : req.path ≠ []) (hs : req.path ≠ [42])
    (htr : cfg.trace = false ∨ req.method ≠ mTRACE) :
    ∃ c, (r0.run ops).serveContext env req [] = .call c ∧
      (c.node = none ↔ resolveAll env cfg.ic rs req.path = []) ∧
      (∀ n, c.node = some n → (n.pattern, c.params) ∈ resolveAll env cfg.ic rs req.path) := by
  obtain ⟨c, hc, hadm⟩ := C02_router_resolve env hnew ops hadd hw rs hrs req hasc hp hs htr
  refine ⟨c, hc, ?_, ?_⟩
  · unfold callOutcome at hadm
    cases hn : c.node with
    | none => rw [hn] at hadm; exact ⟨fun _ => hadm, fun _ => rfl⟩
    | some n =>
      rw [hn] at hadm
      constructor
      · intro h'; cases h'
      · intro h'; simp only [Option.map_some, Admissible] at hadm; rw [h'] at hadm; cases hadm
  · intro n hn
    unfold callOutcome at hadm
    rw [hn] at hadm
    exact hadm

/-- The same for `Router.ServeHTTP`: the call it hands to `CallFunc` is the one of `serveContext`. -/
theorem C02_router_resolve_serveHTTP (env : Env) (pc : PanicCfg) (scripts : Scripts) {cfg : RouterCfg} {r0 : Router}
    (hnew : Router.new cfg = some r0) (ops : List ROp) (hadd : HandleUse ops) (hw : ∀ op ∈ ops, P18.ROp.wf op = true)
    (rs : List Bytes) (hrs : ∀ p, p ∈ rs ↔ p ∈ (tableOf (r0.run ops).tree).patterns) (req : Req)
    (hp : req.path ≠ []) (hs : req.path ≠ [42]) (htr : cfg.trace = false ∨ req.method ≠ mTRACE) (c : Call)
    (h : ((r0.run ops).serveHTTP env pc scripts req []).1 = some c) :
    Admissible env cfg.ic rs req.path (callOutcome c) := by
  have hc := C01.C01_serveHTTP_call env pc scripts _ req [] c h
  have hinv : P14.AllInv (r0.run ops).tree := (P18.reachAll_run hnew hw).inv
  obtain ⟨tb, hf⟩ := finv_router hnew ops hadd hw
  obtain ⟨hic, _, htrace⟩ := C01.router_cfg hnew ops
  obtain ⟨hfound, _⟩ := P18.serveContext_call_found env (r0.run ops) req [] c hc
  have hadm := C02_resolve_finv env _ hinv hf rs hrs req.path hp hs req.method (htr.imp htrace id) _ hfound
  rw [hic] at hadm
  exact hadm

/-! ## The routes held are the registered patterns -/

/-- Every `Handle` of the history is accepted (on the router it is applied to). -/
def RAccepted : Router → List ROp → Prop
  | _, [] => True
  | r, op :: ops =>
    (match op with
     | .handle p h m methods => ∃ r', r.handle p h m methods = .ok r'
     | _ => True) ∧ RAccepted (r.step op) ops

theorem handle_ok_add {r r' : Router} {p : Bytes} {h : Nat} {m : List Nat} {methods : List Bytes}
    (hh : r.handle p h m methods = .ok r') : ∃ t', r.tree.add p { base := .user h } (m ++ r.ms) methods = .ok t' := by
  simp only [Router.handle, bind, Except.bind, pure, Except.pure] at hh
  cases ht : r.tree.add p { base := .user h } (m ++ r.ms) methods with
  | ok t' => exact ⟨t', rfl⟩
  | error e => rw [ht] at hh; cases hh

theorem patterns_rTableFrom : ∀ (ops : List ROp) (r : Router) (tb : Spec.Table), HandleUse ops → RAccepted r ops →
    ∀ q, q ∈ (rTableFrom r tb ops).patterns ↔ q ∈ tb.patterns ∨ ∃ h m methods, ROp.handle q h m methods ∈ ops
  | [], r, tb, _, _, q => by simp [rTableFrom]
  | op :: ops, r, tb, ha, hacc, q => by
    obtain ⟨hacc1, hrest⟩ := hacc
    rw [rTableFrom, patterns_rTableFrom ops _ _ (fun o ho => ha o (List.mem_cons_of_mem _ ho)) hrest q]
    rcases ha op List.mem_cons_self with ⟨p, hd, m, methods, rfl⟩ | ⟨m, rfl⟩
    · obtain ⟨r', hr'⟩ := hacc1
      obtain ⟨t', ht'⟩ := handle_ok_add hr'
      simp only [P18.topOf, Spec.stepWith, ht']
      rw [mem_patterns_add]
      constructor
      · rintro ((h | rfl) | ⟨h, ms', me', hm⟩)
        · exact .inl h
        · exact .inr ⟨hd, m, methods, List.mem_cons_self⟩
        · exact .inr ⟨h, ms', me', List.mem_cons_of_mem _ hm⟩
      · rintro (h | ⟨h, ms', me', hm⟩)
        · exact .inl (.inl h)
        · rcases List.mem_cons.1 hm with e | hm
          · cases e; exact .inl (.inr rfl)
          · exact .inr ⟨h, ms', me', hm⟩
    · simp only [P18.topOf, Spec.stepWith]
      constructor
      · rintro (h | ⟨h, ms', me', hm⟩)
        · exact .inl h
        · exact .inr ⟨h, ms', me', List.mem_cons_of_mem _ hm⟩
      · rintro (h | ⟨h, ms', me', hm⟩)
        · exact .inl h
        · rcases List.mem_cons.1 hm with e | hm
          · cases e
          · exact .inr ⟨h, ms', me', hm⟩

/-- **`C02_router_routes`.**  When every `Handle` of a `Handle`/`Use` history is accepted, the routes the router
holds are exactly the registered patterns — whatever the handlers, methods, middleware lists and `Use` calls. -/
theorem C02_router_routes {cfg : RouterCfg} {r0 : Router} (hnew : Router.new cfg = some r0) (ops : List ROp)
    (hadd : HandleUse ops) (hw : ∀ op ∈ ops, P18.ROp.wf op = true) (hacc : RAccepted r0 ops) (p : Bytes) :
    p ∈ (tableOf (r0.run ops).tree).patterns ↔ ∃ h m methods, ROp.handle p h m methods ∈ ops := by
  have h0 : FInv r0.tree [] := by
    unfold Router.new at hnew
    split at hnew
    · cases hnew
    · cases hnew; exact FInv.new _ _ _ _ _ _
  have hs := (finv_routerFrom h0 ops hadd hw).sim
  rw [(P11.tables_agree (P11.tableOf_ok hs.inv).1 hs.ok hs.has).1 p, patterns_rTableFrom ops r0 [] hadd hacc p]
  simp [Spec.Table.patterns]

/-- **Independence of registration order, middlewares and `Use` calls.**  Two `Handle`/`Use` histories on routers
created with the same interceptors, all registrations accepted, that register the same patterns (in any order,
with any handlers, methods and middlewares, `Use` calls anywhere): every ASCII request path other than `""`/`*` is
answered by both with an outcome admissible for the common set of registered patterns `rs`, and it is a 404 for
one exactly when it is a 404 for the other. -/
theorem C02_router_order_independent (env : Env) {cfg1 cfg2 : RouterCfg} {r1 r2 : Router}
    (hnew1 : Router.new cfg1 = some r1) (hnew2 : Router.new cfg2 = some r2) (hic : cfg1.ic = cfg2.ic)
    (ops1 ops2 : List ROp) (ha1 : HandleUse ops1) (ha2 : HandleUse ops2)
    (hw1 : ∀ op ∈ ops1, P18.ROp.wf op = true) (hw2 : ∀ op ∈ ops2, P18.ROp.wf op = true)
    (hacc1 : RAccepted r1 ops1) (hacc2 : RAccepted r2 ops2) (rs : List Bytes)
    (hrs1 : ∀ p, p ∈ rs ↔ ∃ h m methods, ROp.handle p h m methods ∈ ops1)
    (hrs2 : ∀ p, p ∈ rs ↔ ∃ h m methods, ROp.handle p h m methods ∈ ops2)
    (req : Req) (hasc : isAscii req.path = true) (hp : req.path ≠ []) (hs : req.path ≠ [42])
    (htr1 : cfg1.trace = false ∨ req.method ≠ mTRACE) (htr2 : cfg2.trace = false ∨ req.method ≠ mTRACE) :
    ∃ c1 c2, (r1.run ops1).serveContext env req [] = .call c1 ∧ (r2.run ops2).serveContext env req [] = .call c2 ∧
      Admissible env cfg1.ic rs req.path (callOutcome c1) ∧ Admissible env cfg1.ic rs req.path (callOutcome c2) ∧
      (c1.node = none ↔ c2.node = none) := by
  have h1 : ∀ p, p ∈ rs ↔ p ∈ (tableOf (r1.run ops1).tree).patterns := fun p => by
    rw [C02_router_routes hnew1 ops1 ha1 hw1 hacc1 p]; exact hrs1 p
  have h2 : ∀ p, p ∈ rs ↔ p ∈ (tableOf (r2.run ops2).tree).patterns := fun p => by
    rw [C02_router_routes hnew2 ops2 ha2 hw2 hacc2 p]; exact hrs2 p
  obtain ⟨c1, e1, a1⟩ := C02_router_resolve env hnew1 ops1 ha1 hw1 rs h1 req hasc hp hs htr1
  obtain ⟨c2, e2, a2⟩ := C02_router_resolve env hnew2 ops2 ha2 hw2 rs h2 req hasc hp hs htr2
  obtain ⟨c1', e1', n1, _⟩ := C02_router_resolve_404 env hnew1 ops1 ha1 hw1 rs h1 req hasc hp hs htr1
  obtain ⟨c2', e2', n2, _⟩ := C02_router_resolve_404 env hnew2 ops2 ha2 hw2 rs h2 req hasc hp hs htr2
  rw [e1] at e1'; cases e1'
  rw [e2] at e2'; cases e2'
  rw [← hic] at a2 n2
  exact ⟨c1, c2, e1, e2, a1, a2, by rw [n1, n2]⟩

/-! ## Non-vacuity -/

/-- `Handle("/u/{id}", h7, GET)` with the per-route middleware 1; `Use(2)`; `Handle("/u/{id}/x", h8)` with the
middleware 3; `Use(4, 5)`. -/
def ruOps : List ROp :=
  [.handle (bytesOfString "/u/{id}") 7 [1] [mGET], .use [2],
   .handle (bytesOfString "/u/{id}/x") 8 [3] [], .use [4, 5]]
def ruR : Router := C01.exR0.run ruOps
/-- `GET /u/5/x` -/
def ruReq : Req := { method := mGET, path := bytesOfString "/u/5/x" }

theorem ruOps_wf : ∀ op ∈ ruOps, P18.ROp.wf op = true := by decide +kernel

/-- The hypotheses of `C02_router_resolve` hold of this history and request … -/
example : Router.new C01.exCfg = some C01.exR0 ∧ HandleUse ruOps ∧ (∀ op ∈ ruOps, P18.ROp.wf op = true) ∧
    isAscii ruReq.path = true ∧ ruReq.path ≠ [] ∧ ruReq.path ≠ [42] ∧ C01.exCfg.trace = false :=
  ⟨rfl, by decide, ruOps_wf, by decide +kernel, by decide +kernel, by decide +kernel, rfl⟩

/-- … the router holds the two routes, every `Handle` was accepted … -/
example : (tableOf ruR.tree).patterns = [bytesOfString "/u/{id}/x", bytesOfString "/u/{id}"] := by
  unfold ruR
  mux_eval_router [ruOps, C01.exR0]

/-- … the handlers in the tree ARE wrapped by the middlewares (the history is not trivial) … -/
example : (C01.callHandler (ruR.serveContext C01.exEnvG ruReq [])).map (·.wraps.length) = some 4 := by
  unfold ruR
  mux_eval_router [ruOps, C01.exR0]

/-- … and `GET /u/5/x` is dispatched to `/u/{id}/x` with `id = 5`, one of the two outcomes the resolver allows
(the other one is the pattern-final parameter of `/u/{id}` taking the whole rest `5/x`); `GET /u/5/y` has the single
outcome `/u/{id}` with `id = 5/y`, and `GET /v` is a 404 for both. -/
example : C01.callView (ruR.serveContext C01.exEnvG ruReq []) =
      some (some (bytesOfString "/u/{id}/x"), true, [(bytesOfString "id", [53])]) ∧
    resolveAll C01.exEnvG [] [bytesOfString "/u/{id}/x", bytesOfString "/u/{id}"] ruReq.path =
      [(bytesOfString "/u/{id}/x", [(bytesOfString "id", [53])]),
       (bytesOfString "/u/{id}", [(bytesOfString "id", [53, 47, 120])])] ∧
    C01.callView (ruR.serveContext C01.exEnvG { method := mGET, path := bytesOfString "/u/5/y" } []) =
      some (some (bytesOfString "/u/{id}"), true, [(bytesOfString "id", [53, 47, 121])]) ∧
    resolveAll C01.exEnvG [] [bytesOfString "/u/{id}/x", bytesOfString "/u/{id}"] (bytesOfString "/u/5/y") =
      [(bytesOfString "/u/{id}", [(bytesOfString "id", [53, 47, 121])])] ∧
    C01.callView (ruR.serveContext C01.exEnvG { method := mGET, path := bytesOfString "/v" } []) =
      some (none, false, []) ∧
    resolveAll C01.exEnvG [] [bytesOfString "/u/{id}/x", bytesOfString "/u/{id}"] (bytesOfString "/v") = [] := by
  refine ⟨?_, by decide +kernel, ?_, by decide +kernel, ?_, by decide +kernel⟩ <;>
  · unfold ruR
    mux_eval_router [ruOps, C01.exR0]

/-- Hypotheses of `C02_resolve_use`: a tree history with `use` between the registrations. -/
def tuOps : List TOp :=
  [.add [47, 97] { base := .user 1 } [1] [], .use [2], .add [47, 97, 47, 98] { base := .user 2 } [] []]
example : AddUse tuOps ∧ ¬ AddOnly tuOps ∧ (∀ op ∈ tuOps, op.wf = true) := by
  refine ⟨by decide, ?_, by decide +kernel⟩
  intro h
  obtain ⟨p, hd, ms, methods, e⟩ := h (.use [2]) (by simp [tuOps])
  cases e

end Mux.C02
