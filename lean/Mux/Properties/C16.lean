/-
  C16 (closed-model part) — configured recovery contains every panic; without it panics pass
  through unchanged.

  `PanicCfg` says which user-supplied functions panic (handlers of every kind by `Base.code`,
  middlewares) and with which value; `runCall` is `r.call(w, req, ctx, h)`; `ServeRes.finish`
  applies the `defer recover()` recorded in `Call.recover` / `ServeRes.fault`.  `mwPanic`,
  `basePanic`, `rejectPath` are defined in `Mux.Proofs.Head` / `Mux.Proofs.Recover`.
-/
import Mux.Proofs.Recover
import Mux.Spec.Defs
namespace Mux.C16
open Mux

/-- The response the recovery function produces on the writer it is handed (the plain writer, or the `headResponse`
wrapper when the panic happened below it), starting from the headers set so far. -/
def recoveredRec (c : Call) : Rec := recRec c.recActs c.headWrap c.respHeaders

/-- The harness's `RecoverFunc` (records the value, writes status 500): status 500 on the headers set so far, with or
without the HEAD wrapper. -/
theorem C16_default_rec (hw : Bool) (hs : Hdr) :
    recRec defaultRecActs hw hs = ({ hdr := hs } : Rec).writeHeader 500 := by
  cases hw <;> rfl

/-- The status a client sees after `http.Error(w, text, code)` on a fresh writer: `code`, unless `code` is informational
(1xx except 101) — then `WriteHeader(code)` is not final and the `Write` of the text sends the implicit 200. -/
def errorStatus (code : Nat) : Nat := if informational code then 200 else code

/-- The bundled options (`WithStatusRecovery(status)` and the Write/Log/SLog variants) answer through
`http.Error(w, http.StatusText(status), status)`: the configured status (`errorStatus`: an informational status is not
final, the body that follows goes out with the implicit 200), `Content-Type: text/plain; charset=utf-8`,
`X-Content-Type-Options: nosniff`, any earlier Content-Length removed, and the text plus a newline as the body.
For EVERY configured status, informational ones included. -/
theorem C16_bundled_rec (code n : Nat) (hs : Hdr) :
    let h' := ((hs.del hContentLength).set hContentType (bytesOfString "text/plain; charset=utf-8")).set
                (bytesOfString "X-Content-Type-Options") (bytesOfString "nosniff")
    recRec (httpErrorActs code n) false hs =
      { hdr := h', code := some (errorStatus code), snap := some h', body := n + 1 } := by
  cases hi : informational code <;>
    simp [recRec, httpErrorActs, runGet, Rec.writeHeader, Rec.write, errorStatus, hi, informational_200]

/-- … and when the panic happened below the `headResponse` wrapper of a HEAD request (the deferred closure sees the
reassigned `w`): the same status and headers at the moment the header is written, no body bytes, and Content-Length
set on the live header map afterwards.  With an informational status nothing is sent by the time the recovery function
returns (`wrote` stayed `false` at `WriteHeader`, `Write` only counts): no status, no snapshot — net/http then sends
the implicit 200 with the live map, the same status as for GET (`C16_bundled_status`). -/
theorem C16_bundled_rec_head (code n : Nat) (hs : Hdr) :
    let h' := ((hs.del hContentLength).set hContentType (bytesOfString "text/plain; charset=utf-8")).set
                (bytesOfString "X-Content-Type-Options") (bytesOfString "nosniff")
    recRec (httpErrorActs code n) true hs =
      { hdr := h'.set hContentLength (natToBytes (n + 1)),
        code := if informational code then none else some code,
        snap := if informational code then none else some h', body := 0 } := by
  cases hi : informational code <;>
    simp [recRec, httpErrorActs, runHead, Rec.writeHeader, hi]

/-- For a final status (anything but 1xx-except-101, in particular every 4xx/5xx) these are the records with that very
status. -/
theorem C16_bundled_rec_final (code n : Nat) (hs : Hdr) (hf : informational code = false) :
    let h' := ((hs.del hContentLength).set hContentType (bytesOfString "text/plain; charset=utf-8")).set
                (bytesOfString "X-Content-Type-Options") (bytesOfString "nosniff")
    recRec (httpErrorActs code n) false hs = { hdr := h', code := some code, snap := some h', body := n + 1 } ∧
    recRec (httpErrorActs code n) true hs =
      { hdr := h'.set hContentLength (natToBytes (n + 1)), code := some code, snap := some h', body := 0 } := by
  have h1 := C16_bundled_rec code n hs
  have h2 := C16_bundled_rec_head code n hs
  simp only [errorStatus, hf, Bool.false_eq_true, if_false] at h1 h2
  exact ⟨h1, h2⟩

/-- With or without the wrapper the client sees the same status, `errorStatus code`, and (HEAD) no body. -/
theorem C16_bundled_status (code n : Nat) (hw : Bool) (hs : Hdr) :
    (recRec (httpErrorActs code n) hw hs).status = errorStatus code ∧
    (hw = true → (recRec (httpErrorActs code n) hw hs).body = 0) := by
  cases hw
  · rw [C16_bundled_rec]; exact ⟨rfl, fun h => nomatch h⟩
  · rw [C16_bundled_rec_head]
    refine ⟨?_, fun _ => rfl⟩
    cases hi : informational code <;> simp [Rec.status, errorStatus, hi]

/-- The informational case really differs (so the statements above cannot say `code := some code` for every `code`):
`WithStatusRecovery(103)` answers 200, and under the HEAD wrapper nothing has been sent yet; 101 is final. -/
example : (recRec (httpErrorActs 103 11) false []).code = some 200 ∧
    (recRec (httpErrorActs 103 11) true []).code = none ∧ (recRec (httpErrorActs 103 11) true []).snap = none ∧
    (recRec (httpErrorActs 101 19) false []).code = some 101 ∧
    (recRec (httpErrorActs 101 19) true []).code = some 101 := by decide +kernel

/-- With recovery configured nothing escapes `Router.ServeHTTP` — neither a user panic nor a
runtime fault — and a panic with value `v` raised by the call reaches the recovery function as
that very value (the outcome carries exactly one value). -/
theorem C16_contained (r : Router) (hr : r.recover = true) (env : Env) (pc : PanicCfg)
    (scripts : Scripts) (req : Req) (ps : Params) :
    (∀ v, (r.serveHTTP env pc scripts req ps).2 ≠ .panicked v) ∧
    (∀ c v, r.serveContext env req ps = .call c → runCall pc scripts c = .error v →
      r.serveHTTP env pc scripts req ps = (some c, .recovered v (recoveredRec c))) := by
  constructor
  · intro v
    apply finish_not_panicked
    · intro c hc; rw [serveContext_call_recover _ _ _ _ _ hc, hr]
    · intro n rc hc; rw [serveContext_fault_recover _ _ _ _ _ _ hc, hr]
  · intro c v hc hv
    simp only [Router.serveHTTP, hc, ServeRes.finish, hv, serveContext_call_recover _ _ _ _ _ hc, hr]
    rfl

/-- The user-panic instance spelled out: the recovery function receives `.user v`. -/
theorem C16_contained_user (r : Router) (hr : r.recover = true) (env : Env) (pc : PanicCfg)
    (scripts : Scripts) (req : Req) (ps : Params) (c : Call) (v : Nat)
    (hc : r.serveContext env req ps = .call c) (hv : runCall pc scripts c = .error (.user v)) :
    (r.serveHTTP env pc scripts req ps).2 = .recovered (.user v) (recoveredRec c) := by
  rw [(C16_contained r hr env pc scripts req ps).2 c _ hc hv]

/-- Without the option the same value reaches the caller of `ServeHTTP`. -/
theorem C16_through (r : Router) (hr : r.recover = false) (env : Env) (pc : PanicCfg)
    (scripts : Scripts) (req : Req) (ps : Params) (c : Call) (v : PanicVal)
    (hc : r.serveContext env req ps = .call c) (hv : runCall pc scripts c = .error v) :
    r.serveHTTP env pc scripts req ps = (some c, .panicked v) := by
  simp only [Router.serveHTTP, hc, ServeRes.finish, hv, serveContext_call_recover _ _ _ _ _ hc, hr]
  rfl

/-- Without a panic the recover flag is irrelevant: the response is the handler's. -/
theorem C16_normal (r : Router) (env : Env) (pc : PanicCfg) (scripts : Scripts) (req : Req)
    (ps : Params) (c : Call) (rec : Rec)
    (hc : r.serveContext env req ps = .call c) (hv : runCall pc scripts c = .ok rec) :
    r.serveHTTP env pc scripts req ps = (some c, .normal rec) := by
  simp only [Router.serveHTTP, hc, ServeRes.finish, hv]
  rfl

/-- Which value a call raises.  Middlewares run outermost first and `wraps` is stored innermost
first, so (1) the LAST element of `wraps` that is in `pc.mws` wins; (2) if no middleware panics,
the handler's own entry (`pc.handlers` for a user handler, `pc.bases` by `Base.code` for
404/405/OPTIONS/TRACE/group-not-found); (3) otherwise no user panic is raised: the call returns
or hits mux's own nil-call fault. -/
theorem C16_first_panic (pc : PanicCfg) (scripts : Scripts) (c : Call) :
    (∀ pre w post v, c.handler.wraps = pre ++ w :: post → lookupNat pc.mws w.mw = some v →
        (∀ w' ∈ post, lookupNat pc.mws w'.mw = none) → runCall pc scripts c = .error (.user v)) ∧
    ((∀ w ∈ c.handler.wraps, lookupNat pc.mws w.mw = none) →
      (∀ id v, c.handler.base = .user id → lookupNat pc.handlers id = some v →
          runCall pc scripts c = .error (.user v)) ∧
      (∀ v, (∀ id, c.handler.base ≠ .user id) → lookupNat pc.bases c.handler.base.code = some v →
          runCall pc scripts c = .error (.user v)) ∧
      (basePanic pc c.handler.base = none →
          (∀ v, runCall pc scripts c ≠ .error (.user v)) ∧
          runCall pc scripts c =
            match c.handler.script scripts c.allow with
            | none => .error .fault
            | some acts => .ok (if c.headWrap then runHead acts 0 false c.rec0 else runGet acts c.rec0))) := by
  refine ⟨fun pre w post v h1 h2 h3 => runCall_mw _ _ _ _ (mwPanic_outermost pc _ pre post w v h1 h2 h3),
    fun hmw => ?_⟩
  have hm := (mwPanic_none_iff pc c.handler).2 hmw
  refine ⟨fun id v hb hv => runCall_base _ _ _ _ hm (by rw [hb]; exact hv), fun v hb hv => ?_, fun hb => ?_⟩
  · apply runCall_base _ _ _ _ hm
    revert hb hv; cases c.handler.base <;> intro hb hv
    case user id => exact absurd rfl (hb id)
    all_goals exact hv
  · refine ⟨fun v hv => ?_, runCall_nopanic _ _ _ hm hb⟩
    rcases runCall_user _ _ _ _ hv with h | ⟨_, h⟩
    · rw [hm] at h; cases h
    · rw [hb] at h; cases h

/-- Completeness of the characterisation: every user panic value raised by a call is the one of
the outermost panicking middleware or, if there is none, the handler's own. -/
theorem C16_first_panic_only (pc : PanicCfg) (scripts : Scripts) (c : Call) (v : Nat)
    (h : runCall pc scripts c = .error (.user v)) :
    (∃ pre w post, c.handler.wraps = pre ++ w :: post ∧ lookupNat pc.mws w.mw = some v ∧
        ∀ w' ∈ post, lookupNat pc.mws w'.mw = none) ∨
    ((∀ w ∈ c.handler.wraps, lookupNat pc.mws w.mw = none) ∧ basePanic pc c.handler.base = some v) := by
  rcases runCall_user _ _ _ _ h with h | ⟨h1, h2⟩
  · exact .inl (mwPanic_some pc _ v h)
  · exact .inr ⟨(mwPanic_none_iff pc _).1 h1, h2⟩

/-- `Group.ServeHTTP`, no router accepts (every matcher rejects, leaving the path `p`): the
group's not-found handler is called under the GROUP's recover flag. -/
theorem C16_group_notFound (env : Env) (hostsTab : Nat → Option Hosts) (pc : PanicCfg)
    (scripts : Scripts) (rt : RTab) (g : Group) (req : Req) (p : Bytes)
    (hrej : rejectPath env hostsTab req g.routers req.path = some p) :
    let c : Call := { handler := g.notFound, node := none, ok := false, params := [], routerName := [],
                      respHeaders := [], headWrap := false, path := p, recover := g.recover, recActs := g.recActs }
    g.serveHTTP env hostsTab pc scripts rt req = (some c, withRecover g.recover [] (runCall pc scripts c) g.recActs false) := by
  intro c
  have := go_append env hostsTab rt g req g.routers [] req.path p hrej
  rw [List.append_nil] at this
  simp only [Group.serveHTTP, Group.serve, this, Group.serve.go.eq_1, ServeRes.finish]
  rfl

/-- `Group.ServeHTTP`, router `r` is the first to accept: the request is served exactly as
`r.ServeHTTP` would (on the path and parameters the matcher left), hence under `r`'s recover flag;
the group's own flag plays no role. -/
theorem C16_group_router (env : Env) (hostsTab : Nat → Option Hosts) (pc : PanicCfg)
    (scripts : Scripts) (rt : RTab) (g : Group) (req : Req)
    (pre post : List (Nat × Matcher)) (rid : Nat) (m : Matcher) (r : Router) (p0 p : Bytes) (ps : Params)
    (hl : g.routers = pre ++ (rid, m) :: post)
    (hrej : rejectPath env hostsTab req pre req.path = some p0)
    (hacc : m.run env hostsTab req p0 [] = .accept p ps) (hr : rt.get? rid = some r) :
    g.serveHTTP env hostsTab pc scripts rt req = r.serveHTTP env pc scripts { req with path := p } ps := by
  simp only [Group.serveHTTP, Group.serve, Router.serveHTTP, hl]
  rw [go_append env hostsTab rt g req pre _ req.path p0 hrej, Group.serve.go.eq_2, hacc, hr]

/-- Every call `Group.ServeHTTP` makes is one of these two, and `Call.recover` is set accordingly. -/
theorem C16_group (env : Env) (hostsTab : Nat → Option Hosts) (rt : RTab) (g : Group) (req : Req) (c : Call)
    (h : g.serve env hostsTab rt req = .call c) :
    (c.handler = g.notFound ∧ c.node = none ∧ c.recover = g.recover ∧
        ∃ p, rejectPath env hostsTab req g.routers req.path = some p ∧ c.path = p) ∨
    (∃ pre rid m post p0 p ps r, g.routers = pre ++ (rid, m) :: post ∧
        rejectPath env hostsTab req pre req.path = some p0 ∧
        m.run env hostsTab req p0 [] = .accept p ps ∧ rt.get? rid = some r ∧
        r.serveContext env { req with path := p } ps = .call c ∧ c.recover = r.recover) :=
  go_call env hostsTab rt g req g.routers req.path c h

/-- A group with recovery whose routers all have recovery (what `Group.New` arranges by forwarding
the group's options) contains every panic raised by a user-supplied function, and a panic value
raised by the call is handed to the recovery function unchanged.  (Runtime faults inside a
matcher happen outside every deferred recover, in Go as in the model; they are not user panics.) -/
theorem C16_group_contained (env : Env) (hostsTab : Nat → Option Hosts) (pc : PanicCfg)
    (scripts : Scripts) (rt : RTab) (g : Group) (req : Req) (hg : g.recover = true)
    (hrs : ∀ e ∈ g.routers, ∀ r, rt.get? e.1 = some r → r.recover = true) :
    (∀ v, (g.serveHTTP env hostsTab pc scripts rt req).2 ≠ .panicked (.user v)) ∧
    (∀ c v, g.serve env hostsTab rt req = .call c → runCall pc scripts c = .error v →
      g.serveHTTP env hostsTab pc scripts rt req = (some c, .recovered v (recoveredRec c))) := by
  have hcall : ∀ c, g.serve env hostsTab rt req = .call c → c.recover = true := by
    intro c hc
    rcases C16_group env hostsTab rt g req c hc with ⟨_, _, h, _⟩ | ⟨pre, rid, m, post, p0, p, ps, r, h1, _, _, h4, _, h6⟩
    · rw [h, hg]
    · rw [h6]; exact hrs (rid, m) (by rw [h1]; simp) r h4
  constructor
  · intro v
    unfold Group.serveHTTP
    cases hs : g.serve env hostsTab rt req with
    | unsupported => simp [ServeRes.finish]
    | fault n rc => cases rc <;> simp [ServeRes.finish, withRecover]
    | call c =>
      simp only [ServeRes.finish, hcall c hs]
      exact withRecover_true_ne_panicked _ _ _ _ _
  · intro c v hc hv
    simp only [Group.serveHTTP, hc, ServeRes.finish, hv, hcall c hc]
    rfl

/-- A group without recovery lets a panic of its not-found handler through unchanged. -/
theorem C16_group_through (env : Env) (hostsTab : Nat → Option Hosts) (pc : PanicCfg)
    (scripts : Scripts) (rt : RTab) (g : Group) (req : Req) (c : Call) (v : PanicVal)
    (hc : g.serve env hostsTab rt req = .call c) (hrec : c.recover = false)
    (hv : runCall pc scripts c = .error v) :
    g.serveHTTP env hostsTab pc scripts rt req = (some c, .panicked v) := by
  simp only [Group.serveHTTP, hc, ServeRes.finish, hv, hrec]
  rfl

/-- Serving changes nothing: `Router.serveHTTP`/`Group.serveHTTP` take the router (group, router
table) and return only the call and its outcome — no new router.  Hence in every sequence of
requests, each one is answered as if it were the only one, whatever happened (panic, recovery) to
the requests before it. -/
theorem C16_continue (r : Router) (env : Env) (pc : PanicCfg) (scripts : Scripts)
    (before after : List (Req × Params)) (q : Req × Params) :
    ((before ++ q :: after).map (fun q => r.serveHTTP env pc scripts q.1 q.2))[before.length]? =
      some (r.serveHTTP env pc scripts q.1 q.2) := by
  simp

/-- The context the next request gets from the pool is empty, whatever was destroyed before
(also on the recovery path, where `ctx.Destroy()` still runs). -/
theorem C16_continue_pool (p : Pool) (c : Ctx) : (p.destroy c).newContext.1 = {} := by
  unfold Pool.newContext
  split <;> rfl

/-- The recover option is fixed at construction and no operation on the router changes it, so
`C16_contained`/`C16_through` apply to every state of the router's life. -/
theorem C16_recover_stable (cfg : RouterCfg) (r : Router) (ops : List ROp) (h : Router.new cfg = some r) :
    (r.run ops).recover = cfg.recover := by
  have h0 : r.recover = cfg.recover := by
    unfold Router.new at h; split at h
    · cases h
    · cases h; rfl
  rw [← h0]; clear h h0
  unfold Router.run
  induction ops generalizing r with
  | nil => rfl
  | cons op ops ih =>
    rw [List.foldl_cons, ih]
    cases op with
    | handle p h m ms =>
      simp only [Router.step, Router.handle, bind, Except.bind, pure, Except.pure]
      cases r.tree.add p { base := .user h } (m ++ r.ms) ms <;> rfl
    | remove p ms =>
      simp only [Router.step, Router.remove, bind, Except.bind, pure, Except.pure]
      cases r.tree.remove p ms <;> rfl
    | clean pre =>
      simp only [Router.step, Router.clean, bind, Except.bind, pure, Except.pure]
      cases r.tree.clean pre <;> rfl
    | use m => rfl

/-! ## Non-vacuity -/

/-- a router with recovery, TRACE configured (so every request yields a call without any matching) -/
def demoRouter (rc : Bool) : Router :=
  { tree := { root := default, name := [1], notFound := { base := .notFound },
              trace := some { base := .trace, wraps := [⟨1, [], [], []⟩, ⟨2, [], [], []⟩, ⟨3, [], [], []⟩] } },
    recover := rc }
def env0 : Env := ⟨fun _ _ => true⟩
def demoReq : Req := { method := mTRACE, path := [47] }
def demoCall (rc : Bool) : Call :=
  { handler := { base := .trace, wraps := [⟨1, [], [], []⟩, ⟨2, [], [], []⟩, ⟨3, [], [], []⟩] },
    node := some (default : Node), ok := true, params := [], routerName := [1],
    respHeaders := (demoRouter rc).cors.handle (default : Node).methods (default : Node).allow [] mTRACE [47] [],
    headWrap := false, path := [47], recover := rc }
/-- middlewares 1 and 2 panic, and so does the TRACE handler: the outermost middleware (2) wins -/
def demoPc : PanicCfg := { mws := [(1, 11), (2, 22)], bases := [(4, 44)] }

example : (demoRouter true).recover = true := rfl
example : (demoRouter false).recover = false := rfl
example : runCall demoPc [] (demoCall true) = .error (.user 22) := rfl
example : (demoRouter true).serveContext env0 demoReq [] = .call (demoCall true) := by
  have h : mTRACE ≠ mHEAD := by decide +kernel
  simp [Router.serveContext, Tree.handler, demoRouter, demoReq, demoCall, h]
example : (demoCall true).handler.wraps = [⟨1, [], [], []⟩] ++ ⟨2, [], [], []⟩ :: [⟨3, [], [], []⟩] ∧
    lookupNat demoPc.mws 2 = some 22 ∧ lookupNat demoPc.mws 3 = none := by decide
/-- the handler's own entry is used when no middleware panics -/
example : basePanic { bases := [(4, 44)] } (demoCall true).handler.base = some 44 := by decide
example : basePanic {} (demoCall true).handler.base = none := by decide
/-- a group: no router → `rejectPath` is `some`; hypotheses of `C16_group_notFound` are satisfiable -/
example : rejectPath env0 (fun _ => none) demoReq ({} : Group).routers demoReq.path = some [47] := rfl
/-- one router that accepts -/
example : rejectPath env0 (fun _ => none) demoReq [] demoReq.path = some [47] ∧
    Matcher.any.run env0 (fun _ => none) demoReq [47] [] = .accept [47] [] ∧
    RTab.get? [(7, demoRouter true)] 7 = some (demoRouter true) := by
  exact ⟨rfl, by simp [Matcher.run], rfl⟩

end Mux.C16
