/-
  C03 — frame: `Remove` and `Clean` never change the handling of a request that was dispatched to a
  different route.  This file removes the two side hypotheses of `C03_frame_*_partial`
  (`Mux/Properties/C03.lean`): trees WITH first-byte indexes are covered, and the parameter-tracking
  hypothesis `NamesOkL` is discharged.

  `ReachAll t` (`Mux/Proofs/ReachAll.lean`): `t` is produced from a fresh tree by a history of
  add/remove/clean/use whose REGISTERED patterns pass the executable brace check `WfPattern`.  It is
  equivalent to `P9.ReachWf t` and to `P8.ReachTidy t` (`C03_reach_bridge`), and gives all invariants
  of the earlier proof files at once (`C03_reach_everything`).

  Helper lemmas: `Mux/Proofs/ReachAll.lean`, `Mux/Proofs/Frame.lean` (namespace `Mux.P14`).
-/
import Mux.Proofs.FrameExamples
import Mux.Properties.C03
namespace Mux.C03
open Mux Mux.P11 Mux.P14

/-! ## One notion of "history with well-formed patterns" -/

/-- The three hypotheses on a registered pattern used by the earlier files are equivalent. -/
theorem C03_wfPattern_bridge (p : Bytes) :
    (WfPattern p = true ↔ P9.WfPattern p) ∧ (WfPattern p = true ↔ P8.TidyPattern p) :=
  ⟨wfPattern_iff_P9 p, wfPattern_iff_P8 p⟩

/-- …hence so are the three reachability predicates. -/
theorem C03_reach_bridge (t : Tree) : (ReachAll t ↔ P9.ReachWf t) ∧ (ReachAll t ↔ P8.ReachTidy t) :=
  ⟨reachAll_iff_reachWf t, reachAll_iff_reachTidy t⟩

/-- `ReachAll` is the hypothesis of `C03_table`/`C03_routes` (`WfOps`). -/
theorem C03_reachAll_history (name : Bytes) (ic : Interceptors) (nf : Handler) (tr : Option Handler) (ob nb : Base)
    (ops : List TOp) (hw : WfOps ops) : ReachAll ((Tree.new name ic nf tr ob nb).run ops) :=
  ⟨name, ic, nf, tr, ob, nb, ops, hw, rfl⟩

/-- One predicate, all invariants: `StructInv` (I-sort, I-index), `TreeInv`, `WellFormedTree` (I-seg, names),
`NamesOkL []`, distinct first bytes of literal siblings, `IdxLit`, and the table refinement. -/
theorem C03_reach_everything (t : Tree) (h : ReachAll t) :
    P8.StructInv t ∧ TreeInv t ∧ P9.WellFormedTree t ∧ NamesOkL [] t.root.children ∧
      (∀ n ∈ t.root.nodes, P8.DistinctFirstBytes n) ∧ Node.All IdxLit t.root ∧ ∃ tb, Sim t tb :=
  h.everything

/-! ## C03_frame -/

/-- **`C03_frame` for `Remove`.**  On the tree of any well-formed history: if a request was answered with a
node `q` (a registered handler, the 405 or the automatic OPTIONS answer of `q`) and `q.pattern ≠ p`, then after
`Remove(p, methods…)` the same request is answered with the same handler, the same `ok` flag, the same
parameters, and a node with the same pattern and the same handler map. -/
theorem C03_frame_remove (t t' : Tree) (hr : ReachAll t) (p : Bytes) (methods : List Bytes)
    (he : t.remove p methods = .ok t') (env : Env) (path method : Bytes) (f : Found) (q : Node)
    (hres : t.handler env path [] method = .res f) (hq : f.node = some q) (hne : q.pattern ≠ p) :
    ∃ f', t'.handler env path [] method = .res f' ∧ SameAnswer f f' :=
  frame_remove' hr.inv he hres hq hne

/-- **`C03_frame` for `Clean`**: likewise when the pattern of the answering node does not have the cleaned
prefix. -/
theorem C03_frame_clean (t t' : Tree) (hr : ReachAll t) (pre : Bytes) (he : t.clean pre = .ok t')
    (env : Env) (path method : Bytes) (f : Found) (q : Node)
    (hres : t.handler env path [] method = .res f) (hq : f.node = some q) (hne : ¬ pre <+: q.pattern) :
    ∃ f', t'.handler env path [] method = .res f' ∧ SameAnswer f f' :=
  frame_clean_tree hr.inv he hres hq hne

/-- The same as one step of a history (`Remove`/`Clean` cannot fail on such a tree — `C03_no_error` — so the
step IS the operation). -/
theorem C03_frame_remove_step (t : Tree) (hr : ReachAll t) (p : Bytes) (methods : List Bytes)
    (env : Env) (path method : Bytes) (f : Found) (q : Node)
    (hres : t.handler env path [] method = .res f) (hq : f.node = some q) (hne : q.pattern ≠ p) :
    ∃ f', (t.step (.remove p methods)).handler env path [] method = .res f' ∧ SameAnswer f f' := by
  cases he : t.remove p methods with
  | error e => exact absurd he (remove_no_error hr.inv.ti p methods e)
  | ok t' =>
    simp only [Tree.step, he]
    exact frame_remove' hr.inv he hres hq hne

theorem C03_frame_clean_step (t : Tree) (hr : ReachAll t) (pre : Bytes)
    (env : Env) (path method : Bytes) (f : Found) (q : Node)
    (hres : t.handler env path [] method = .res f) (hq : f.node = some q) (hne : ¬ pre <+: q.pattern) :
    ∃ f', (t.step (.clean pre)).handler env path [] method = .res f' ∧ SameAnswer f f' := by
  cases he : t.clean pre with
  | error e => exact absurd he (clean_no_error hr.inv.ti pre e)
  | ok t' =>
    simp only [Tree.step, he]
    exact frame_clean_tree hr.inv he hres hq hne

/-- In the form of `C03_frame_remove_partial`, without `NoIdx` and `NamesOkL`. -/
theorem C03_frame_remove_history (name : Bytes) (ic : Interceptors) (nf : Handler) (tr : Option Handler)
    (ob nb : Base) (ops : List TOp) (hw : WfOps ops) (p : Bytes) (methods : List Bytes) (t' : Tree)
    (env : Env) (path method : Bytes) (f : Found) (q : Node) :
    let t := (Tree.new name ic nf tr ob nb).run ops
    t.remove p methods = .ok t' →
    t.handler env path [] method = .res f → f.node = some q → q.pattern ≠ p →
    ∃ f', t'.handler env path [] method = .res f' ∧ SameAnswer f f' := by
  intro t he hres hq hne
  exact frame_remove' (C03_reachAll_history name ic nf tr ob nb ops hw).inv he hres hq hne

theorem C03_frame_clean_history (name : Bytes) (ic : Interceptors) (nf : Handler) (tr : Option Handler)
    (ob nb : Base) (ops : List TOp) (hw : WfOps ops) (pre : Bytes) (t' : Tree)
    (env : Env) (path method : Bytes) (f : Found) (q : Node) :
    let t := (Tree.new name ic nf tr ob nb).run ops
    t.clean pre = .ok t' →
    t.handler env path [] method = .res f → f.node = some q → ¬ pre <+: q.pattern →
    ∃ f', t'.handler env path [] method = .res f' ∧ SameAnswer f f' := by
  intro t he hres hq hne
  exact frame_clean_tree (C03_reachAll_history name ic nf tr ob nb ops hw).inv he hres hq hne

/-- For any tree satisfying the invariants (`AllInv`: `StructInv2`, `WellFormedTree`, `TInv`). -/
theorem C03_frame_remove_allInv {t t' : Tree} (hinv : AllInv t) {p : Bytes} {methods : List Bytes}
    (he : t.remove p methods = .ok t') {env : Env} {path method : Bytes} {f : Found} {q : Node}
    (hres : t.handler env path [] method = .res f) (hq : f.node = some q) (hne : q.pattern ≠ p) :
    ∃ f', t'.handler env path [] method = .res f' ∧ SameAnswer f f' :=
  frame_remove' hinv he hres hq hne

theorem C03_frame_clean_allInv {t t' : Tree} (hinv : AllInv t) {pre : Bytes} (he : t.clean pre = .ok t')
    {env : Env} {path method : Bytes} {f : Found} {q : Node}
    (hres : t.handler env path [] method = .res f) (hq : f.node = some q) (hne : ¬ pre <+: q.pattern) :
    ∃ f', t'.handler env path [] method = .res f' ∧ SameAnswer f f' :=
  frame_clean_tree hinv he hres hq hne

/-! ## Non-vacuity -/

/-- A tree REACHED by the history `Handle("/u/", h1, GET); Handle("/u/{id}", h2, GET)`. -/
example : ReachAll exT := exT_reach
example : WfOps P14.exOps := exOps_wf

/-- On it `GET /u/5` is dispatched to `/u/{id}`; removing the interior route `/u/` and cleaning `/x` succeed
and — by the theorems above — leave the answer as it was. -/
example : ∃ f q t1 t2, exT.handler exEnv exReq [] mGET = .res f ∧ f.node = some q ∧
    q.pattern ≠ exU ∧ ¬ [47, 120] <+: q.pattern ∧
    exT.remove exU [] = .ok t1 ∧ exT.clean [47, 120] = .ok t2 ∧
    (∃ f', t1.handler exEnv exReq [] mGET = .res f' ∧ SameAnswer f f') ∧
    (∃ f', t2.handler exEnv exReq [] mGET = .res f' ∧ SameAnswer f f') := by
  obtain ⟨f, q, hres, hq, hp, _⟩ := exT_answer
  have hne1 : q.pattern ≠ exU := by rw [hp]; decide
  have hne2 : ¬ [47, 120] <+: q.pattern := by rw [hp, ← hasPrefix_iff]; decide
  cases hr : exT.remove exU [] with
  | error e => exact absurd hr (remove_no_error exT_reach.inv.ti _ _ e)
  | ok t1 =>
    cases hc : exT.clean [47, 120] with
    | error e => exact absurd hc (clean_no_error exT_reach.inv.ti _ e)
    | ok t2 =>
      exact ⟨f, q, t1, t2, hres, hq, hne1, hne2, rfl, rfl,
        C03_frame_remove exT _ exT_reach _ _ hr _ _ _ f q hres hq hne1,
        C03_frame_clean exT _ exT_reach _ hc _ _ _ f q hres hq hne2⟩

/-- A node WITH a first-byte index (`/a /b /c /d /e /{id}`, hand-built, `Mux/Proofs/StructExamples.lean`)
satisfies the invariant `SOk2` the frame lemma works with; removing `/a` — one of five literal siblings, so the
index stays in use afterwards: the D3 scenario — succeeds, and the node-level frame lemma applies to the
request `/x`, which is dispatched to `/{id}` through the scan after the index missed. -/
example : Node.All (P8.SOk2 []) P8.exS.root := exS_s2
example : ∃ n' x, P8.exS.root.getAt [0, 0] = some x ∧ x.pattern = [47, 97] ∧
    P8.exS.root.removeAt (removeMethods false []) [0, 0] = .ok n' ∧
    FrameMR x.pattern (P8.exS.root.matchChildren exEnv [] exReqX []) (n'.matchChildren exEnv [] exReqX []) := exS_frame
example : hitPattern (P8.exS.root.matchChildren exEnv [] exReqX []) = some P8.exPat := exS_before

/-- The three pattern hypotheses on concrete patterns. -/
example : WfPattern (bytesOfString "/u/{id:\\d+}/x") = true ∧ WfPattern (bytesOfString "{a{b}") = false := by
  decide +kernel
example : P9.WfPattern (bytesOfString "/u/{id}") ∧ P8.TidyPattern (bytesOfString "/u/{id}") :=
  ⟨(wfPattern_iff_P9 _).1 (by decide +kernel), (wfPattern_iff_P8 _).1 (by decide +kernel)⟩

/-! ## C03_witness

Full statement (DESIGN): `p live, vs simple → dispatch (inst p vs) m ≠ notFound, and the winner q satisfies:
q = p, or q precedes p in kind order at their first divergence`.

Proved below for patterns whose OWN chain has no regexp segment (`SimpleVal`/`SimpleInTree` require
`kind ≠ rx`; regexp segments elsewhere in the tree are allowed): for a regexp segment the capture chosen by the
leftmost-first search need not be the intended value, so the rest of the path is not the instantiation of the
rest of the chain and the induction along the chain does not go through.  What is missing for the full statement
is exactly that case.

Two findings shape the statement of the second half:
* the winner may also lie BELOW `p`'s node: an endpoint parameter child (`{id}` under `/u/`) matches the empty
  rest, so `GET /u/` is answered by `/u/{id}` with `id = ""` (this is `Segment.Match` of the Go code: the named
  matcher accepts every string, `segment.go:87`); hence `q ∈ x.nodes` rather than `q = x`;
* "no byte in common with ANY literal text of the tree" is not needed for the first half: `SimpleVal` only
  asks that a value shares no byte with the literal text following its OWN parameter. -/

/-- `SimpleVal env ic s v`: `s` is not a regexp segment, `v` satisfies the constraint of `s`, and no byte of `v`
occurs in the literal text after the parameter inside `s`. -/
abbrev SimpleVal := Mux.P14.SimpleVal
/-- The property text's "simple": … and no byte of `v` occurs in ANY literal text of the tree. -/
abbrev SimpleInTree := Mux.P14.SimpleInTree
/-- `Diverges root segs x q` (`Mux/Proofs/Witness.lean`): the chains of `x` and `q` from `root` share the nodes up
to some node `n` of `x`'s chain `segs`; either `n = x` and `q` is `x` or lies below `x`, or the chain of `x`
continues below `n` with the child `c` while `q` lies in the subtree of a child `d` of `n` that comes BEFORE `c`
in child order, with `d.seg.kind.rank ≤ c.seg.kind.rank` (literal 0 < interceptor 1 < regexp 2 < named 3). -/
abbrev Diverges := Mux.P14.Diverges

theorem C03_simpleInTree_simpleVal (env : Env) (t : Tree) (chain : List (Seg × Bytes)) (x : Node)
    (hch : Chain t.root (chain.map (·.1)) x) (h : SimpleInTree env t chain) :
    ∀ sv ∈ chain, SimpleVal env t.ic sv.1 sv.2 :=
  h.simpleVal hch

/-- **`C03_witness` (first half, chain form).**  On the tree of a well-formed history, let `x` be a live node
(it has handlers) reached from the root by the chain `chain.map (·.1)`, and let the values in `chain` be simple.
Then the request `instChain chain` — the pattern of `x` with every parameter replaced by its value — is never
answered 404, whatever the method: the answer reports a node with handlers (a registered handler, or the 405 /
OPTIONS answer of that node), and the request does not fault. -/
theorem C03_witness_partial (t : Tree) (hr : ReachAll t) (env : Env) (chain : List (Seg × Bytes)) (x : Node)
    (hch : Chain t.root (chain.map (·.1)) x) (hlive : x.handlers ≠ [])
    (hsimple : ∀ sv ∈ chain, SimpleVal env t.ic sv.1 sv.2) (method : Bytes) :
    (∀ s, t.handler env (instChain chain) [] method ≠ .fault s) ∧
    ∀ f, t.handler env (instChain chain) [] method = .res f → ∃ q, f.node = some q ∧ q.handlers ≠ [] := by
  refine ⟨handler_no_fault hr.inv.treeInv env _ _ _, fun f hres => ?_⟩
  obtain ⟨q, h1, h2, _⟩ := witness_tree hr.inv env chain x hch hlive hsimple method f hres
  exact ⟨q, h1, h2⟩

/-- **`C03_witness` (second half, chain form): who answers.**  For an ordinary request (not `""`, `*`, nor
TRACE on a tracing tree) the answering node `q` is `x`, a node below `x`, or a node in the subtree of a sibling
that precedes — in child order, which is the kind order — the node of `x`'s chain at the first point where the
chains of `x` and `q` diverge. -/
theorem C03_witness_winner_partial (t : Tree) (hr : ReachAll t) (env : Env) (chain : List (Seg × Bytes)) (x : Node)
    (hch : Chain t.root (chain.map (·.1)) x) (hlive : x.handlers ≠ [])
    (hsimple : ∀ sv ∈ chain, SimpleVal env t.ic sv.1 sv.2) (method : Bytes) (f : Found) (q : Node)
    (hp : instChain chain ≠ []) (hstar : instChain chain ≠ [42]) (htr : t.trace = none ∨ method ≠ mTRACE)
    (hres : t.handler env (instChain chain) [] method = .res f) (hq : f.node = some q) :
    Diverges t.root (chain.map (·.1)) x q := by
  obtain ⟨q', h1, _, h3⟩ := witness_tree hr.inv env chain x hch hlive hsimple method f hres
  rw [hq] at h1
  cases h1
  exact (h3 hp hstar htr).diverges

/-- A live pair `(p, m)` of the route table IS such a node: a node `x` below the root with pattern `p`, an entry
for `m`, reached by a non-empty chain whose segment texts spell `p`. -/
theorem C03_live_chain (t : Tree) (hr : ReachAll t) (p m : Bytes) (h : (tableOf t).has p m) :
    ∃ (x : Node) (segs : List Seg), Chain t.root segs x ∧ segs ≠ [] ∧ x.pattern = p ∧
      p = (segs.map (·.value)).flatten ∧ x.handlers.contains m = true :=
  live_chain hr.inv h

/-- **`C03_witness` (table form).**  For every live pair `(p, m)` of the table read off the tree there is the
chain `segs` of `p` such that for all values `vs` (one per segment; those of literal segments are ignored) that
are simple in the sense of the property text, the request `instChain (segs.zip vs)` with method `m` does not
fault and is not answered 404, and the answering node is as described by `Diverges`. -/
theorem C03_witness_table_partial (t : Tree) (hr : ReachAll t) (env : Env) (p m : Bytes) (h : (tableOf t).has p m) :
    ∃ (x : Node) (segs : List Seg), Chain t.root segs x ∧ segs ≠ [] ∧ x.pattern = p ∧
      p = (segs.map (·.value)).flatten ∧ x.handlers.contains m = true ∧
      ∀ vs : List Bytes, vs.length = segs.length → SimpleInTree env t (segs.zip vs) →
        (∀ s, t.handler env (instChain (segs.zip vs)) [] m ≠ .fault s) ∧
        ∀ f, t.handler env (instChain (segs.zip vs)) [] m = .res f →
          ∃ q, f.node = some q ∧ q.handlers ≠ [] ∧
            (instChain (segs.zip vs) ≠ [] → instChain (segs.zip vs) ≠ [42] → (t.trace = none ∨ m ≠ mTRACE) →
              Diverges t.root segs x q) :=
  witness_table hr.inv env h

/-- History form: live pairs of the ABSTRACT table of the history (`C03_table`). -/
theorem C03_witness_history_partial (name : Bytes) (ic : Interceptors) (nf : Handler) (tr : Option Handler)
    (ob nb : Base) (ops : List TOp) (hw : WfOps ops) (env : Env) (p m : Bytes) :
    let t := (Tree.new name ic nf tr ob nb).run ops
    let tb := specRun (Tree.new name ic nf tr ob nb) ops
    tb.has p m →
    ∃ (x : Node) (segs : List Seg), Chain t.root segs x ∧ segs ≠ [] ∧ x.pattern = p ∧
      p = (segs.map (·.value)).flatten ∧
      ∀ vs : List Bytes, vs.length = segs.length → SimpleInTree env t (segs.zip vs) →
        ∀ f, t.handler env (instChain (segs.zip vs)) [] m = .res f → ∃ q, f.node = some q ∧ q.handlers ≠ [] := by
  intro t tb h
  have hr := C03_reachAll_history name ic nf tr ob nb ops hw
  have hsim := sim_history name ic nf tr ob nb ops hw
  obtain ⟨x, segs, h1, h2, h3, h4, _, h6⟩ := C03_witness_table_partial t hr env p m ((hsim.has p m).2 h)
  refine ⟨x, segs, h1, h2, h3, h4, fun vs hlen hs f hres => ?_⟩
  obtain ⟨q, hq1, hq2, _⟩ := (h6 vs hlen hs).2 f hres
  exact ⟨q, hq1, hq2⟩

/-! ### Non-vacuity of the witness theorems -/

/-- `AllInv` (hypothesis of the `_allInv` forms) holds of the reached tree `exT`, and `("/u/{id}", GET)` is a live
pair of its table (hypothesis of the table form). -/
example : AllInv exT := exT_reach.inv
example : (tableOf exT).has exUid mGET := exT_live_pair

/-- In the reached tree `exT` the node of `/u/{id}` is live and reached by the chain `"/u/"`, `{id}`; the value
`5` is simple; the witness request is `/u/5`; -/
example : ∃ x, Chain exT.root (exChain.map (·.1)) x ∧ x.handlers ≠ [] := exT_chain
example : ∀ sv ∈ exChain, SimpleVal exEnv exT.ic sv.1 sv.2 := exChain_simple
example : instChain exChain = exReq ∧ instChain exChain ≠ [] ∧ instChain exChain ≠ [42] := by decide
/-- and the theorems apply: `GET /u/5` is answered by a node with handlers (here `/u/{id}` itself), which
`Diverges` from the node of `/u/{id}`. -/
example : ∃ f q x, exT.handler exEnv (instChain exChain) [] mGET = .res f ∧ f.node = some q ∧ q.handlers ≠ [] ∧
    q.pattern = exUid ∧ Diverges exT.root (exChain.map (·.1)) x q := by
  obtain ⟨x, hch, hlive⟩ := exT_chain
  obtain ⟨f, q, hres, hq, hp, _⟩ := exT_answer
  rw [← exChain_inst] at hres
  obtain ⟨q', hq', hh⟩ := (C03_witness_partial exT exT_reach exEnv exChain x hch hlive exChain_simple mGET).2 f hres
  rw [hq] at hq'
  cases hq'
  exact ⟨f, q, x, hres, hq, hh, hp,
    C03_witness_winner_partial exT exT_reach exEnv exChain x hch hlive exChain_simple mGET f q (by decide) (by decide)
      (.inr (by decide)) hres hq⟩

end Mux.C03
