/-
  C01 — dispatch soundness, at the level of the matcher and of `Tree.Handler`.

  Hypotheses on the tree (established for reachable trees elsewhere):
  * `NamesOkL used t.root.children` — `Mux/Proofs/MatchSound.lean`: along every chain the `seg.name`
    of every node differs from the keys that are live when the node is tried (`used` and the
    capturing names above it).  Implied by the textbook condition `NamesStrictL` + `SegNameWf`
    (`NamesOkL_of_strict`).
  * `Node.All IdxLit t.root` — the index fast path only selects literal children (`matchAt` does not
    undo a capture).

  All theorems depend on `Seg.match_sound` (`Mux/Proofs/SegMatch.lean`, proved by another agent).
-/
import Mux.Proofs.HandlerSound
namespace Mux.C01
open Mux

/-! ## Matcher level -/

/-- Soundness of a hit of `matchChildren`, for every node, path and incoming parameters: the result
is reached through a chain of children; the path is the chain instantiated with the captured values
(literal text byte for byte); every value satisfies its constraint; the node has handlers; and, when
names are tracked, the parameters are exactly the incoming ones followed by the captures of the
chain, in order — none missing, none left over from abandoned alternatives. -/
theorem C01_match_hit (env : Env) (ic : Interceptors) (n : Node) (path : Bytes) (ps : Params) (m : Node) (ps' : Params)
    (h : n.matchChildren env ic path ps = .hit m ps') :
    ∃ chain : List (Seg × Bytes),
      Chain n (chain.map (·.1)) m ∧ path = instChain chain ∧
      (∀ sv ∈ chain, sv.1.Satisfies env ic sv.2) ∧ m.handlers ≠ [] ∧
      (∀ used, Node.NamesOk used n → Node.All IdxLit n → (∀ k ∈ ps.keys, k ∈ used) → ps' = ps ++ captures chain) :=
  Node.matchChildren_hit h

/-- A miss leaves no trace (the D1 repair). -/
theorem C01_match_miss (env : Env) (ic : Interceptors) (n : Node) (path : Bytes) (ps ps' : Params) (used : List Bytes)
    (hn : Node.NamesOk used n) (hi : Node.All IdxLit n) (hk : ∀ k ∈ ps.keys, k ∈ used)
    (h : n.matchChildren env ic path ps = .miss ps') : ps' = ps :=
  Node.matchChildren_miss h hn hi hk

/-- Lookup form: every capturing segment of the chain maps to its value. -/
theorem C01_match_lookup (env : Env) (ic : Interceptors) (n : Node) (path : Bytes) (ps : Params) (m : Node) (ps' : Params)
    (used : List Bytes) (hn : Node.NamesOk used n) (hi : Node.All IdxLit n) (hk : ∀ k ∈ ps.keys, k ∈ used)
    (h : n.matchChildren env ic path ps = .hit m ps') :
    ∃ chain : List (Seg × Bytes),
      Chain n (chain.map (·.1)) m ∧ path = instChain chain ∧ ps' = ps ++ captures chain ∧
      ∀ sv ∈ chain, sv.1.kind ≠ .str ∧ ¬ sv.1.ignoreName → ps'.get? sv.1.name = some sv.2 :=
  Node.matchChildren_hit_lookup h hn hi hk

/-! ## `Tree.Handler` -/

/-- A node is reported (200, 405 or the automatic OPTIONS answer) for a path other than `""`/`*`,
outside the TRACE short-circuit: the node is reached from the root through a non-empty chain, the
path is that chain instantiated, every value satisfies its constraint, the reported parameters are
exactly the captures of the chain, and the handler agrees with the node's handler map. -/
theorem C01_found (env : Env) (t : Tree) (path method : Bytes) (f : Found) (n : Node)
    (hN : NamesOkL [] t.root.children) (hI : Node.All IdxLit t.root)
    (hp : path ≠ []) (hs : path ≠ [42]) (htr : t.trace = none ∨ method ≠ mTRACE)
    (h : t.handler env path [] method = .res f) (hf : f.node = some n) :
    ∃ chain : List (Seg × Bytes),
      chain ≠ [] ∧ Chain t.root (chain.map (·.1)) n ∧ path = instChain chain ∧
      (∀ sv ∈ chain, sv.1.Satisfies env t.ic sv.2) ∧
      f.params = captures chain ∧ n.handlers ≠ [] ∧ HandlerAgrees n method f := by
  simpa using Tree.handler_found (ps := []) ⟨hN, hI⟩ hp hs htr h hf

/-- The same with incoming parameters `ps` (what `Group` dispatch passes on): they stay in front. -/
theorem C01_found_from (env : Env) (t : Tree) (path method : Bytes) (ps : Params) (f : Found) (n : Node)
    (hN : NamesOkL ps.keys t.root.children) (hI : Node.All IdxLit t.root)
    (hp : path ≠ []) (hs : path ≠ [42]) (htr : t.trace = none ∨ method ≠ mTRACE)
    (h : t.handler env path ps method = .res f) (hf : f.node = some n) :
    ∃ chain : List (Seg × Bytes),
      chain ≠ [] ∧ Chain t.root (chain.map (·.1)) n ∧ path = instChain chain ∧
      (∀ sv ∈ chain, sv.1.Satisfies env t.ic sv.2) ∧
      f.params = ps ++ captures chain ∧ n.handlers ≠ [] ∧ HandlerAgrees n method f :=
  Tree.handler_found ⟨hN, hI⟩ hp hs htr h hf

/-- A 404 reports no route parameters at all, and its handler is the tree's `notFound`
(every path, every method). -/
theorem C01_404 (env : Env) (t : Tree) (path method : Bytes) (f : Found)
    (hN : NamesOkL [] t.root.children) (hI : Node.All IdxLit t.root)
    (h : t.handler env path [] method = .res f) (hf : f.node = none) :
    f.params = [] ∧ f.handler = t.notFound ∧ f.ok = false :=
  Tree.handler_404 (ps := []) ⟨hN, hI⟩ h hf

/-- With incoming parameters: a 404 hands them back untouched. -/
theorem C01_404_from (env : Env) (t : Tree) (path method : Bytes) (ps : Params) (f : Found)
    (hN : NamesOkL ps.keys t.root.children) (hI : Node.All IdxLit t.root)
    (h : t.handler env path ps method = .res f) (hf : f.node = none) :
    f.params = ps ∧ f.handler = t.notFound ∧ f.ok = false :=
  Tree.handler_404 ⟨hN, hI⟩ h hf

/-- The key set of the reported parameters is exactly the set of names of the capturing segments of
the chain (in chain order, without repetition), and each key maps to its segment's value. -/
theorem C01_params_exact (env : Env) (t : Tree) (path method : Bytes) (f : Found) (n : Node)
    (hN : NamesOkL [] t.root.children) (hI : Node.All IdxLit t.root)
    (hp : path ≠ []) (hs : path ≠ [42]) (htr : t.trace = none ∨ method ≠ mTRACE)
    (h : t.handler env path [] method = .res f) (hf : f.node = some n) :
    ∃ chain : List (Seg × Bytes),
      Chain t.root (chain.map (·.1)) n ∧ path = instChain chain ∧
      f.params.keys = (chain.filter (fun sv => decide (sv.1.kind ≠ .str ∧ ¬ sv.1.ignoreName))).map (·.1.name) ∧
      f.params.keys.Nodup ∧
      (∀ sv ∈ chain, sv.1.kind ≠ .str ∧ ¬ sv.1.ignoreName → f.params.get? sv.1.name = some sv.2) := by
  obtain ⟨chain, _, h1, h2, _, h4, _⟩ := C01_found env t path method f n hN hI hp hs htr h hf
  have hnd := (chain_names ((Node.namesOk_iff _ _).2 hN) h1).1
  refine ⟨chain, h1, h2, ?_, ?_, ?_⟩
  · rw [h4]; exact captures_keys chain
  · rw [h4]; exact hnd
  · intro sv hsv hcap
    rw [h4]; exact AMap.get?_of_mem_nodup hnd (mem_captures hsv hcap)

/-- `""` and `*` address the root; nothing is matched and no parameter is reported. -/
theorem C01_root (env : Env) (t : Tree) (path method : Bytes) (f : Found)
    (hpath : path = [] ∨ path = [42]) (h : t.handler env path [] method = .res f) :
    f.params = [] ∧ (f.node = some t.root ∨ (f.node = none ∧ t.root.handlers = [])) ∧
    (t.root.handlers ≠ [] → f.node = some t.root) :=
  Tree.handler_root hpath h

/-- The TRACE short-circuit: the root, the tree's TRACE handler, the parameters as they came. -/
theorem C01_trace (env : Env) (t : Tree) (path : Bytes) (ps : Params) (h : Handler) (ht : t.trace = some h) :
    t.handler env path ps mTRACE = .res { node := some t.root, handler := h, ok := true, params := ps } := by
  rcases Tree.handler_cases env t path ps mTRACE with ⟨h', ht', _, e⟩ | ⟨hno, _⟩
  · rw [ht] at ht'; cases ht'; exact e
  · rcases hno with hno | hno
    · rw [ht] at hno; cases hno
    · exact absurd rfl hno

/-- The reported node's `pattern` is the root's pattern followed by the segment texts of the chain,
when every node's pattern extends its parent's by its own segment text. -/
theorem C01_pattern (root n : Node) (segs : List Seg) (hP : Node.PatternOk root) (hc : Chain root segs n) :
    n.pattern = root.pattern ++ (segs.map (·.value)).flatten :=
  (chain_pattern hc hP).1

/-! ## Non-vacuity: the D1 table `/users/{id}/{page:\d+}`, `/users/{id}/{action}/log` -/

/-- `{page:\d+}` (endpoint, regexp). -/
def segPage : Seg :=
  { value := [123,112,97,103,101,58,92,100,43,125], kind := .rx, name := [112,97,103,101],
    rule := [92,100,43], re := .plus { neg := false, ranges := [(48, 57)] } }
/-- `{action}/log`. -/
def segAction : Seg :=
  { value := [123,97,99,116,105,111,110,125,47,108,111,103], kind := .named,
    name := [97,99,116,105,111,110], suffix := [47,108,111,103] }
/-- `{id}/`. -/
def segId : Seg := { value := [123,105,100,125,47], kind := .named, name := [105,100], suffix := [47] }
/-- `/users/`. -/
def segUsers : Seg := { value := [47,117,115,101,114,115,47] }

/-- `"GET"`, spelled out so that `decide` can compute with it (`bytesOfString "GET"` goes through
`ByteArray.toList`, which the kernel does not unfold). -/
def bGET : Bytes := [71,69,84]

def hGet (i : Nat) : AMap Handler := [(bGET, { base := .user i }), (mNotAllowed, { base := .notAllowed })]

def nPage : Node := .mk segPage (segUsers.value ++ segId.value ++ segPage.value) 1 (hGet 1) [] []
def nAction : Node := .mk segAction (segUsers.value ++ segId.value ++ segAction.value) 1 (hGet 2) [] []
def nId : Node := .mk segId (segUsers.value ++ segId.value) 0 [] [] [nPage, nAction]
def nUsers : Node := .mk segUsers segUsers.value 0 [] [] [nId]
def d1Root : Node := .mk { value := [] } [] 0 [] [] [nUsers]
def d1Tree : Tree := { root := d1Root, name := [], notFound := { base := .notFound } }
def env0 : Env := { icpt := fun _ _ => true }

/-- `/users/5/7/log` -/
def d1Path : Bytes := [47,117,115,101,114,115,47,53,47,55,47,108,111,103]

def foundOf : HR → Option Found
  | .res f => some f
  | _ => none

/-- The tree hypotheses hold for the D1 table. -/
example : NamesOkL [] d1Tree.root.children := by decide
example : Node.All IdxLit d1Tree.root := by
  simp only [d1Tree, d1Root, nUsers, nId, nPage, nAction, Node.All, AllL, and_true]
  refine ⟨?_, ?_, ?_, ?_, ?_⟩ <;> exact IdxLit.of_nil rfl
example : Node.PatternOk d1Tree.root := by
  simp [d1Tree, d1Root, nUsers, nId, nPage, nAction, Node.PatternOk, PatternOkL, Node.pattern, Node.seg]
example : d1Path ≠ [] ∧ d1Path ≠ [42] ∧ (d1Tree.trace = none ∨ bGET ≠ mTRACE) := by decide

/-- The request reaches the backtracking branch (`{page:\d+}` captures `7`, its subtree misses on
`/log`, the capture is undone) and arrives at `{action}/log` with exactly `{id:5, action:7}`. -/
example : ((foundOf (d1Tree.handler env0 d1Path [] bGET)).map (·.params)) =
    some [([105,100], [53]), ([97,99,116,105,111,110], [55])] := by decide
example : ((foundOf (d1Tree.handler env0 d1Path [] bGET)).map (fun f => (f.node.map (·.pattern), f.ok, f.handler))) =
    some (some nAction.pattern, true, ({ base := .user 2 } : Handler)) := by decide
/-- A 404 on the same table (the abandoned `{page}` leaves nothing behind). -/
example : ((foundOf (d1Tree.handler env0 [47,117,115,101,114,115,47,53,47,55,47,120] [] bGET)).map
    (fun f => (f.node.isNone, f.params))) = some (true, []) := by decide

/-- An index whose positions hold literal children satisfies `IdxLit` (non-empty index). -/
example : IdxLit (.mk { value := [] } [] 0 [] [(97, 0), (98, 1)]
    [.mk { value := [97] } [97] 0 [] [] [], .mk { value := [98] } [98] 0 [] [] [], nId]) := by
  apply IdxLit.of_positions
  decide

/-! ## The name hypothesis and the D30 repair

Before the D30 repair (the undo after an abandoned child was `ctx.Delete(name)`), even the lookup form failed
without `NamesOk`: with `{i}/` above the siblings `{i}/z` (same name as its parent, abandoned) and `{a}/`, the
request `5/7/` was answered by `{a}/` with `{a:7}` only — the abandoned sibling deleted the parent's capture `i`,
although the names along the chain that was finally taken (`i`, `a`) are distinct.  With the repair the undo puts the
previous value back (`restoreParam`), and the same request now reports `{i:5, a:7}`; `NamesOk` stays as the
hypothesis of the theorems above (it is what makes `ps ++ captures chain` the exact answer), the law without it
is `Mux.P19.matchChildren_restore` (Proofs/RestoreMatch.lean) and `C01_group_dispatch_exact` (C01group.lean). -/

def cexRoot : Node :=
  .mk { value := [] } [] 0 [] []
    [.mk { value := [123,105,125,47], kind := .named, name := [105], suffix := [47] } [] 0 [] []
      [.mk { value := [123,105,125,47], kind := .named, name := [105], suffix := [47] } [] 0 [] []
          [.mk { value := [122] } [] 1 (hGet 1) [] []],
       .mk { value := [123,97,125,47], kind := .named, name := [97], suffix := [47] } [] 1 (hGet 2) [] []]]

def paramsOf : MR → Option Params
  | .hit _ ps => some ps
  | _ => none

example : paramsOf (cexRoot.matchChildren env0 [] [53,47,55,47] []) = some [([105], [53]), ([97], [55])] := by decide
example : ¬ NamesOkL [] cexRoot.children := by decide

end Mux.C01
