/-
  C19 — Prefix and Resource are pure shorthand for Router calls.

  A `Prefix`/`Resource` object is a `Facade` (pattern + middleware list).  `FOp`/`runF` (Mux/Proofs/Facade.lean)
  are façade programs and their interpreter (a table of façade objects and one router); `desugar` translates a
  program into plain router calls (`DOp`: a `ROp` or a `Router.URL` query).
-/
import Mux.Proofs.Facade
import Mux.Proofs.Clean
import Mux.Proofs.Onion
import Mux.Proofs.GetNodeFuel
import Mux.Proofs.PatternOkStep
import Mux.Proofs.DecEq
namespace Mux.C19
open Mux Mux.P10

/-! ## Each façade method is the Router call on the concatenated pattern / middleware list -/

theorem C19_handle (p : Facade) (r : Router) (pat : Bytes) (h : Nat) (m : List Nat) (methods : List Bytes) :
    p.handle r pat h m methods = r.handle (p.pattern ++ pat) h (m ++ p.ms) methods := rfl

/-- `Resource.Handle` (no pattern argument) registers the resource's own pattern. -/
theorem C19_resourceHandle (p : Facade) (r : Router) (h : Nat) (m : List Nat) (methods : List Bytes) :
    p.handle r [] h m methods = r.handle p.pattern h (m ++ p.ms) methods := by
  simp [Facade.handle]

theorem C19_remove (p : Facade) (r : Router) (pat : Bytes) (methods : List Bytes) :
    p.remove r pat methods = r.remove (p.pattern ++ pat) methods := rfl

theorem C19_url (env : Env) (p : Facade) (r : Router) (strict : Bool) (pat : Bytes) (ps : AMap Bytes) :
    p.url env r strict pat ps = r.url env strict (p.pattern ++ pat) ps := rfl

/-- `Resource.Clean` removes the one pattern with all its methods. -/
theorem C19_resourceClean (p : Facade) (r : Router) : p.resourceClean r = r.remove p.pattern [] := rfl

/-- `Prefix.Clean` is `Router.Clean` (`tree.Clean`) of the prefix. -/
theorem C19_prefixClean (p : Facade) (r : Router) : p.prefixClean r = r.clean p.pattern := rfl

/-- Nested prefixes: patterns concatenate outside-in, middleware lists inside-out (the inner prefix's
middlewares come first = innermost). -/
theorem C19_nested (a b : Bytes) (ma mb : List Nat) :
    (Facade.ofRouter a ma).sub b mb = ⟨a ++ b, mb ++ ma⟩ := rfl

theorem C19_nested_handle (a b : Bytes) (ma mb : List Nat) (r : Router) (pat : Bytes) (h : Nat) (m : List Nat)
    (methods : List Bytes) :
    ((Facade.ofRouter a ma).sub b mb).handle r pat h m methods =
      r.handle (a ++ b ++ pat) h (m ++ (mb ++ ma)) methods := rfl

/-- Any depth: a chain of nested prefixes is one prefix with the concatenated pattern and the reversed
concatenation of the middleware lists (later arguments outermost, outer prefixes outermost). -/
theorem C19_nested_chain (root : Facade) (chain : List (Bytes × List Nat)) :
    chain.foldl (fun f e => f.sub e.1 e.2) root =
      ⟨root.pattern ++ (chain.map (·.1)).flatten, (chain.reverse.map (·.2)).flatten ++ root.ms⟩ := by
  induction chain generalizing root with
  | nil => simp
  | cons e rest ih =>
    simp only [List.foldl_cons]
    rw [ih]
    simp [Facade.sub]

/-! ## Programs -/

/-- `C19_equiv`: running a façade program (façade objects as in Go) and running its translation into plain
`Router.Handle/Remove/Clean/Use/URL` calls give the same router — hence the same `Routes()`, dispatch,
parameters, middleware stacks and `Allow` headers — and the same sequence of URL results; from any start state. -/
theorem C19_equiv_state (env : Env) (s : FState) (prog : List FOp) :
    runD env ⟨s.router, s.out⟩ (desugarFrom s.tab prog) = ⟨(runF env s prog).router, (runF env s prog).out⟩ :=
  runF_desugar env prog s

theorem C19_equiv (env : Env) (r0 : Router) (prog : List FOp) :
    (runF env { router := r0 } prog).router = r0.run (plainOps (desugar prog)) ∧
    (runF env { router := r0 } prog).out = (runD env { router := r0 } (desugar prog)).out := by
  have h := runF_desugar env prog { router := r0 }
  have h2 := runD_router env (desugar prog) { router := r0 }
  have h' : runD env { router := r0 } (desugar prog) =
      ⟨(runF env { router := r0 } prog).router, (runF env { router := r0 } prog).out⟩ := h
  rw [h'] at h2
  exact ⟨h2, by rw [h']⟩

/-- From `NewRouter`: the router a façade program builds is the router of a plain history. -/
theorem C19_equiv_new (env : Env) {cfg : RouterCfg} {r0 : Router} (_hnew : Router.new cfg = some r0)
    (prog : List FOp) : (runF env { router := r0 } prog).router = r0.run (plainOps (desugar prog)) :=
  (C19_equiv env r0 prog).1

/-! ## `Prefix.Clean` removes exactly the routes that start with the prefix -/

/-- `C19_clean` (tree theorem).  On a tree whose stored patterns are consistent (`PatternOk`, root pattern `""`;
both hold for every reachable router, `C19_clean_router`), a successful `Tree.Clean(pre)`:
* keeps, below the root, exactly the nodes whose pattern does NOT have `pre` as a textual prefix — with their
  pattern, method index and handlers (`infosL`, in depth-first order), and
* `Routes()` is the old list without the routes whose pattern starts with `pre` (the `*` entry stays).
No hypothesis on sibling segments is needed; `pre` may end anywhere (inside a `{…}` token as well), and for
`pre = ""` everything is removed (`C19_clean_all`). -/
theorem C19_clean {t t' : Tree} {pre : Bytes} (hp : Node.PatternOk t.root) (h0 : t.root.pattern = [])
    (h : t.clean pre = .ok t') :
    infosL t'.root.children = (infosL t.root.children).filter (fun e => !hasPrefix e.1 pre) ∧
    routesL t'.root.children = (routesL t.root.children).filter (fun x => !hasPrefix x.1 pre) ∧
    t'.routes = ([42], mOPTIONS :: (if t.hasTrace then [mTRACE] else [])) ::
      (routesL t.root.children).filter (fun x => !hasPrefix x.1 pre) :=
  tree_clean_spec hp h0 h

/-- As sets: a route survives iff it was there and does not start with the prefix. -/
theorem C19_clean_mem {t t' : Tree} {pre : Bytes} (hp : Node.PatternOk t.root) (h0 : t.root.pattern = [])
    (h : t.clean pre = .ok t') (x : Bytes × List Bytes) :
    x ∈ routesL t'.root.children ↔ x ∈ routesL t.root.children ∧ ¬ pre <+: x.1 := by
  rw [(C19_clean hp h0 h).2.1, List.mem_filter, ← hasPrefix_iff]
  simp

theorem C19_clean_all {t t' : Tree} (hp : Node.PatternOk t.root) (h0 : t.root.pattern = [])
    (h : t.clean [] = .ok t') : routesL t'.root.children = [] ∧ infosL t'.root.children = [] := by
  obtain ⟨h1, h2, _⟩ := C19_clean hp h0 h
  rw [h1, h2]
  constructor
  · rw [List.filter_eq_nil_iff]; intro x _; simp [hasPrefix]
  · rw [List.filter_eq_nil_iff]; intro x _; simp [hasPrefix]

/-- For every tree a history of `Add/Remove/Clean/Use` produces (`PatternOk` is an invariant, `patInv_run`). -/
theorem C19_clean_reach {t t' : Tree} {pre : Bytes} (hr : t.Reach) (h : t.clean pre = .ok t') :
    infosL t'.root.children = (infosL t.root.children).filter (fun e => !hasPrefix e.1 pre) ∧
    routesL t'.root.children = (routesL t.root.children).filter (fun x => !hasPrefix x.1 pre) ∧
    t'.routes = ([42], mOPTIONS :: (if t.hasTrace then [mTRACE] else [])) ::
      (routesL t.root.children).filter (fun x => !hasPrefix x.1 pre) :=
  C19_clean (Tree.Reach.patternOk hr).1 (Tree.Reach.patternOk hr).2 h

/-- For every router made by `NewRouter` and any history, `Prefix.Clean()` of a façade with pattern `pre`. -/
theorem C19_clean_router {cfg : RouterCfg} {r0 : Router} (hnew : Router.new cfg = some r0) (ops : List ROp)
    (p : Facade) {r' : Router} (h : p.prefixClean (r0.run ops) = .ok r') :
    r'.routes = ([42], mOPTIONS :: (if cfg.trace then [mTRACE] else [])) ::
      (routesL (r0.run ops).tree.root.children).filter (fun x => !hasPrefix x.1 p.pattern) ∧
    infosL r'.tree.root.children =
      (infosL (r0.run ops).tree.root.children).filter (fun e => !hasPrefix e.1 p.pattern) := by
  have hw : WrapInv (r0.run ops) := wrap_run (wrap_new hnew) ops
  unfold Facade.prefixClean Router.clean at h
  simp only [bind, Except.bind, pure, Except.pure] at h
  split at h
  · simp at h
  rename_i t' ht'
  simp only [Except.ok.injEq] at h
  subst h
  obtain ⟨h1, _, h3⟩ := C19_clean hw.patternOk hw.rootPat ht'
  refine ⟨?_, h1⟩
  unfold Router.routes
  rw [h3, (run_cfg hnew ops).2.1]

/-! ## Non-vacuity -/

/-- `api := r.Prefix("/api", 1); v1 := api.Prefix("/v1", 2); v1.Get("/users", h, 3); res := v1.Resource("/x/{id}", 4);
res.Get(h, 5); v1.Clean()` -/
def exProg : List FOp :=
  [.newPrefix (bytesOfString "/api") [1], .subPrefix 0 (bytesOfString "/v1") [2],
   .handle 1 (bytesOfString "/users") 7 [3] [mGET], .subResource 1 (bytesOfString "/x/{id}") [4],
   .resHandle 2 8 [5] [mGET], .url 2 false [] [], .prefixClean 1]

example : (plainOps (desugar exProg)).map ropCode =
    [ROp.handle (bytesOfString "/api/v1/users") 7 [3, 2, 1] [mGET],
     ROp.handle (bytesOfString "/api/v1/x/{id}") 8 [5, 4, 2, 1] [mGET],
     ROp.clean (bytesOfString "/api/v1")].map ropCode := by decide +kernel

/-- Hypotheses of `C19_clean` on the hand-built tree `GET /posts/{id}` (a split tree: `/posts/` + `{id}`), with a
prefix that ends inside the `{…}` token, a prefix that ends inside the literal node, one that matches nothing,
and the empty prefix. -/
example : Node.PatternOk exTree.root ∧ exTree.root.pattern = [] := by
  simp only [exTree, exMid, exLeaf, Node.PatternOk, PatternOkL, Node.pattern, Node.seg, and_true]
  decide +kernel
example : (match exTree.clean (bytesOfString "/posts/{i") with | .ok t => t.routes | _ => []) = [([42], [mOPTIONS])] := by
  decide +kernel
example : (match exTree.clean (bytesOfString "/po") with | .ok t => t.routes | _ => []) = [([42], [mOPTIONS])] := by
  decide +kernel
example : (match exTree.clean (bytesOfString "/posts/x") with | .ok t => t.routes | _ => []) = exTree.routes := by
  decide +kernel
example : (match exTree.clean [] with | .ok t => t.routes | _ => []) = [([42], [mOPTIONS])] := by
  decide +kernel

/-! A real façade program on a real router (evaluated through the fuel version of `getNode`):
`r.Use(9); api := r.Prefix("/api", 1); v1 := api.Prefix("/v1", 2); v1.Get("/users", h7, 3);
res := v1.Resource("/users/{id}", 4); res.Get(h8, 5); res.URL(false, {id: 5})`, then
`p := r.Prefix("/api/v1/users/{"); p.Clean()` — a prefix that ends inside the `{id}` token. -/

def exR0 : Router := (Router.new { name := [114] }).getD default
theorem exNew : Router.new { name := [114] } = some exR0 := rfl
def exEnv : Env := ⟨fun _ _ => true⟩
def exProg2 : List FOp :=
  [.router (.use [9]), .newPrefix (bytesOfString "/api") [1], .subPrefix 0 (bytesOfString "/v1") [2],
   .handle 1 (bytesOfString "/users") 7 [3] [mGET], .subResource 1 (bytesOfString "/users/{id}") [4],
   .resHandle 2 8 [5] [mGET], .url 2 false [] [(bytesOfString "id", bytesOfString "5")]]
def exProg3 : List FOp := exProg2 ++ [.newPrefix (bytesOfString "/api/v1/users/{") [], .prefixClean 3]

-- the translation
example : (plainOps (desugar exProg3)).map ropCode =
    [ROp.use [9], .handle (bytesOfString "/api/v1/users") 7 [3, 2, 1] [mGET],
     .handle (bytesOfString "/api/v1/users/{id}") 8 [5, 4, 2, 1] [mGET],
     .clean (bytesOfString "/api/v1/users/{")].map ropCode := by decide +kernel
-- the router the façade program builds (= the router of the translation, by `C19_equiv`)
example : (exR0.run (plainOps (desugar exProg2))).routes =
    [([42], [mOPTIONS]), (bytesOfString "/api/v1/users", [mGET, mHEAD, mOPTIONS]),
     (bytesOfString "/api/v1/users/{id}", [mGET, mHEAD, mOPTIONS])] := by
  simp only [exProg2, desugar, desugarFrom, desugarOp, tabStep, plainOps, Facade.ofRouter, Facade.sub,
    List.nil_append, List.append_nil, List.getElem?_cons_zero, List.getElem?_cons_succ, List.cons_append]
  mux_eval [exR0]
example : (exR0.run (plainOps (desugar exProg3))).routes =
    [([42], [mOPTIONS]), (bytesOfString "/api/v1/users", [mGET, mHEAD, mOPTIONS])] := by
  simp only [exProg3, exProg2, desugar, desugarFrom, desugarOp, tabStep, plainOps, Facade.ofRouter, Facade.sub,
    List.nil_append, List.append_nil, List.getElem?_cons_zero, List.getElem?_cons_succ, List.cons_append]
  mux_eval [exR0]
/-- the façade interpreter itself, on the real router: the URL built through the `Resource` -/
example : (runF exEnv { router := exR0 } exProg2).out = [.ok (bytesOfString "/api/v1/users/5")] := by
  simp only [exProg2, runF, List.foldl_cons, List.foldl_nil, FState.step]
  mux_eval [Facade.handle, orKeep]

/-- hypothesis of `C19_clean_router`: a successful `Prefix.Clean()` on a reachable router -/
example : (match (Facade.ofRouter (bytesOfString "/api/v1/users/{") []).prefixClean
      (exR0.run [.handle (bytesOfString "/api/v1/users") 7 [3, 2, 1] [mGET],
        .handle (bytesOfString "/api/v1/users/{id}") 8 [5, 4, 2, 1] [mGET]]) with
    | .ok r' => r'.routes
    | .error _ => []) = [([42], [mOPTIONS]), (bytesOfString "/api/v1/users", [mGET, mHEAD, mOPTIONS])] := by
  mux_eval [exR0]

end Mux.C19
