/-
  C14 (clauses e, f: "`Delete` removes exactly the named domain and leaves every other domain matching as before"),
  semantically, and completeness for literal domains.

  Setting: every matcher reached from `NewHosts` by a history of `Add` (balanced, non-nested braces) / `Delete` /
  `RegisterInterceptor` in which no interceptor is registered under a rule text that a stored regexp segment uses
  (`HostsReachWf`, `C14reach.lean`; in particular "interceptors first", `C14_reach_regsFirst`).  `domains hs`
  (`C14resolve.lean`) is the list of domain patterns currently registered.

  * `C14_delete_table` — `Delete(d)` succeeds, the result is again such a matcher, the domain table loses exactly
    `lower d` (so `Delete` is case-insensitive and removes nothing else), and afterwards NO host is accepted by that
    domain: whenever `Hosts.Match` accepts, the answering node carries a domain that was registered before and is
    different from `lower d`.  This is the precise form of "the host built from `d` is no longer accepted": it is no
    longer accepted BY `d`; it may still be accepted by another registered domain (`www.example.com` after
    `Delete("www.example.com")` while `{sub}.example.com` stays — the example at the end).
  * `C14_delete_no_new` — `Delete` creates no matches: a host rejected before is rejected after, with the same
    (untouched) path and parameters.
  * `C14_delete_frame` (`C14reach.lean`) is the third part: a host answered by ANOTHER domain keeps its answer.
    `C14_delete_exact` puts the three together.
  * `C14_literal_accept_partial` — completeness for literal domains: a registered domain without `{`, other than
    `*`, accepts the host that normalises to it.  The proposal without "other than `*`" is FALSE:
    `C14_literal_accept_star_counterexample` — `Add("*")` is accepted by the private tree (model and Go: `tree.Add`
    has no check for `*`), `*` is then a registered domain, but a host `*` addresses the root of the tree
    (`tree.Handler`: `ctx.Path == "*" || ctx.Path == ""`) and is rejected.

  Helper lemmas: `Mux/Proofs/HostsDelete.lean` (namespace `Mux.P30`).
-/
import Mux.Proofs.HostsDelete
import Mux.Properties.C14resolve
namespace Mux.C14
open Mux Mux.P12 Mux.P14 Mux.P30

/-- `HostsReachWf` is closed under `Delete`. -/
theorem reachWf_delete {hs : Hosts} (hr : HostsReachWf hs) (d : Bytes) : HostsReachWf (hostsStep hs (.delete d)) := by
  obtain ⟨ops, hok, rfl⟩ := hr
  refine ⟨ops ++ [.delete d], hostsRunOk_append ops [.delete d] _ hok ⟨trivial, trivial⟩, ?_⟩
  simp [hostsRun, List.foldl_append]

/-! ## C14_delete_table -/

/-- **`C14_delete_table`** (clause e).  For every such matcher and every name `d` (any letter case): `Delete(d)`
succeeds; the result `hs'` is again such a matcher; the registered domains of `hs'` are exactly those of `hs` other
than `lower d`; and for every host, request path and incoming parameters, when `hs'.Match` accepts, the lookup found
a node whose domain was registered in `hs` and is not `lower d`. -/
theorem C14_delete_table (hs : Hosts) (hr : HostsReachWf hs) (d : Bytes) :
    ∃ hs', hs.delete d = .ok hs' ∧ HostsReachWf hs' ∧
      (∀ p, p ∈ domains hs' ↔ p ∈ domains hs ∧ p ≠ toLower d) ∧
      ∀ (env : Env) (host path : Bytes) (ps : Params) (p : Bytes) (q : Params),
        hs'.match env host path ps = .accept p q →
          ∃ f n, hs'.tree.handler env (normHost host) ps mGET = .res f ∧ f.node = some n ∧ q = f.params ∧
            n.pattern ∈ domains hs ∧ n.pattern ≠ toLower d := by
  obtain ⟨hs', hd, hstep⟩ := C14_delete_ok hs hr d
  have hr' : HostsReachWf hs' := hstep ▸ reachWf_delete hr d
  have htab : ∀ p, p ∈ domains hs' ↔ p ∈ domains hs ∧ p ≠ toLower d := by
    intro p
    rw [Hosts.delete_eq] at hd
    cases he : hs.tree.remove (toLower d) [] with
    | error e => rw [he] at hd; cases hd
    | ok t' =>
      rw [he] at hd
      simp only [Except.map, Except.ok.injEq] at hd
      subst hd
      exact tableOf_remove hr.inv.ti he p
  refine ⟨hs', hd, hr', htab, fun env host path ps p q hacc => ?_⟩
  obtain ⟨_, f, n, hf, hn, hq, _, hmem⟩ := C14_pattern_in_table env hs' hr'.reach host path ps p q hacc
  exact ⟨f, n, hf, hn, hq, ((htab _).1 hmem).1, ((htab _).1 hmem).2⟩

/-- Deleting a name that is not registered changes nothing in the table (and `C14_delete_no_new`/`C14_delete_frame`
show that no host changes its answer). -/
theorem C14_delete_unregistered (hs : Hosts) (hr : HostsReachWf hs) (d : Bytes) (hd : toLower d ∉ domains hs) :
    ∃ hs', hs.delete d = .ok hs' ∧ ∀ p, p ∈ domains hs' ↔ p ∈ domains hs := by
  obtain ⟨hs', h1, _, h3, _⟩ := C14_delete_table hs hr d
  refine ⟨hs', h1, fun p => ?_⟩
  rw [h3 p]
  exact ⟨fun h => h.1, fun h => ⟨h, fun e => hd (e ▸ h)⟩⟩

/-! ## The domain table along a history -/

/-- `NewHosts()` has no domains. -/
theorem C14_domains_empty : domains Hosts.empty = [] := by decide

/-- **`C14_domains_step`**: what "the domain patterns currently registered" is in terms of the history.  For such a
matcher and the next operation (with the side conditions of `HostsReachWf`: `hostsOpOk`):
  * `Add(d)` adds `lower d` iff the model's `Add` succeeds (no syntax error, not ambiguous, `GET` not yet registered
    for it), and changes nothing otherwise;
  * `Delete(d)` removes exactly `lower d`;
  * `RegisterInterceptor` leaves the table as it is.
Together with `C14_domains_empty` this determines `domains` after every history. -/
theorem C14_domains_step (hs : Hosts) (hr : HostsReachWf hs) (op : HOp) (hop : hostsOpOk hs op) (p : Bytes) :
    p ∈ domains (hostsStep hs op) ↔
      match op with
      | .add d => p ∈ domains hs ∨ (p = toLower d ∧ ∃ hs', hs.add d = .ok hs')
      | .delete d => p ∈ domains hs ∧ p ≠ toLower d
      | .registerInterceptor _ _ => p ∈ domains hs := by
  cases op with
  | add d =>
    show p ∈ (tableOf (hostsStep hs (.add d)).tree).patterns ↔ _
    rw [step_add_tree, tableOf_add hr.inv.ti hop]
    have : (∃ t', hs.tree.add (toLower d) { base := .hostEmpty, wraps := [] } [] [mGET] = .ok t') ↔
        ∃ hs', hs.add d = .ok hs' := by
      rw [Hosts.add_eq]
      cases hs.tree.add (toLower d) { base := .hostEmpty, wraps := [] } [] [mGET] with
      | error e => simp [Except.map]
      | ok t' => simp [Except.map]
    rw [this]; rfl
  | delete d =>
    obtain ⟨hs', hd, _, htab, _⟩ := C14_delete_table hs hr d
    have : hostsStep hs (.delete d) = hs' := by simp [hostsStep, hd]
    rw [this]
    exact htab p
  | registerInterceptor id rule =>
    simp only [hostsStep]
    cases he : hs.registerInterceptor id rule with
    | none => exact Iff.rfl
    | some hs' =>
      have hroot : hs'.tree.root = hs.tree.root := by rw [(Hosts.registerInterceptor_some he).2]
      show p ∈ (tableOf hs'.tree).patterns ↔ p ∈ (tableOf hs.tree).patterns
      unfold tableOf
      rw [hroot]

/-! ## C14_delete_no_new -/

/-- **`C14_delete_no_new`** (clause f, the direction `C14_delete_frame` does not give): a host that was rejected
before `Delete(d)` is rejected afterwards, with the same path and parameters.  (No incoming parameters, as in
`C14_delete_frame`.) -/
theorem C14_delete_no_new (env : Env) (hs hs' : Hosts) (hr : HostsReachWf hs) (d : Bytes)
    (hd : hs.delete d = .ok hs') (host path : Bytes) (p : Bytes) (q : Params)
    (h : hs.match env host path [] = .reject p q) : hs'.match env host path [] = .reject p q := by
  have ha : isAscii host = true := by
    cases ha : isAscii host with
    | false => rw [Hosts.match_nonAscii env hs host path [] ha] at h; cases h
    | true => rfl
  obtain ⟨hs'', hd', hstep⟩ := C14_delete_ok hs hr d
  have e : hs'' = hs' := by rw [hd] at hd'; cases hd'; rfl
  subst e
  have hr' : HostsReachWf hs'' := hstep ▸ reachWf_delete hr d
  by_cases hroot : normHost host = [] ∨ normHost host = [42]
  · rw [Hosts.match_root env hr.reach.inv host path [] ha hroot] at h
    rw [Hosts.match_root env hr'.reach.inv host path [] ha hroot]
    exact h
  · have hne : normHost host ≠ [] := fun e => hroot (.inl e)
    have hstar : normHost host ≠ [42] := fun e => hroot (.inr e)
    obtain ⟨rfl, f, hf, hok, rfl⟩ := (Hosts.match_reject_iff env hs host path [] ha p q).1 h
    rcases hosts_found hr.reach.get hne hstar hf with ⟨_, _, hmiss⟩ | ⟨n, hok', _⟩
    · rw [Hosts.delete_eq] at hd
      cases he : hs.tree.remove (toLower d) [] with
      | error e => rw [he] at hd; cases hd
      | ok t' =>
        rw [he] at hd
        simp only [Except.map, Except.ok.injEq] at hd
        subst hd
        have hfr := remove_frameP hr.inv he env (normHost host)
        have hm : hs.tree.matched env (normHost host) [] = .miss f.params := by
          unfold Tree.matched
          rw [if_neg (by rintro (e | e); exact hstar e; exact hne e)]
          exact hmiss
        rw [hm] at hfr
        have hm' : t'.matched env (normHost host) [] = .miss f.params := hfr
        have hres : t'.handler env (normHost host) [] mGET =
            .res { node := none, handler := t'.notFound, ok := false, params := f.params } := by
          rw [Tree.handler_noTrace (Or.inr mGET_ne_mTRACE), handlerNoTrace_eq, hm']
        rw [Hosts.match_res env _ host p [] _ ha hres]
        rfl
    · rw [hok'] at hok; cases hok

/-! ## The three parts together -/

/-- **`C14_delete_exact`** (clauses e+f).  Let `hs' = Delete(d)`.  For every ASCII host whose lookup in `hs` answers
with a `Found` `f` (always the case for such hosts, `C14_match_resolve` part 4 / `C14_no_fault`):
  * if `hs` rejected the host, `hs'` rejects it in the same way;
  * if `hs` answered it by a domain other than `lower d`, `hs'.Match` gives exactly the same result;
  * in every case, an accepting `hs'.Match` is answered by a domain of `hs` other than `lower d`. -/
theorem C14_delete_exact (env : Env) (hs : Hosts) (hr : HostsReachWf hs) (d : Bytes) (host path : Bytes)
    (ha : isAscii host = true) :
    ∃ hs', hs.delete d = .ok hs' ∧
      (∀ p q, hs.match env host path [] = .reject p q → hs'.match env host path [] = .reject p q) ∧
      (∀ f n, hs.tree.handler env (normHost host) [] mGET = .res f → f.node = some n → n.pattern ≠ toLower d →
        hs'.match env host path [] = hs.match env host path []) ∧
      (∀ p q, hs'.match env host path [] = .accept p q →
        ∃ f n, hs'.tree.handler env (normHost host) [] mGET = .res f ∧ f.node = some n ∧ q = f.params ∧
          n.pattern ∈ domains hs ∧ n.pattern ≠ toLower d) := by
  obtain ⟨hs', hd, _, _, hacc⟩ := C14_delete_table hs hr d
  exact ⟨hs', hd, fun p q h => C14_delete_no_new env hs hs' hr d hd host path p q h,
    fun f n hf hn hne => C14_delete_frame env hs hs' hr d hd host path ha f n hf hn hne,
    fun p q h => hacc env host path [] p q h⟩

/-! ## Completeness for literal domains -/

/-- **`C14_literal_accept_partial`.**  A registered domain without `{` (a literal domain), other than `*`, accepts
every ASCII host that normalises to it — whatever else is registered, after any history of the kind above (in
particular after deleting other domains: the D3 scenario, where a stale first-byte index made a literal sibling
unreachable).  The request path is untouched.  Missing for the proposal `C14_literal_accept`: the case `lower d = "*"`,
where the statement is false (`C14_literal_accept_star_counterexample`). -/
theorem C14_literal_accept_partial (env : Env) (hs : Hosts) (hr : HostsReachWf hs) (d host path : Bytes)
    (ha : isAscii host = true) (hlit : (123 : UInt8) ∉ toLower d) (hstar : toLower d ≠ [42])
    (hd : toLower d ∈ domains hs) (hn : normHost host = toLower d) :
    ∃ q, hs.match env host path [] = .accept path q := by
  obtain ⟨hne, hfound⟩ := literal_found hr.inv env (domain_has_get hr.reach.get hd) hlit
  have hroot : hs.tree.root ∈ hs.tree.root.nodes := by rw [Node.nodes_eq]; exact List.mem_cons_self
  have hsup : hs.tree.handler env (normHost host) [] mGET ≠ .unsupported :=
    handler_get_supported (C02.C02_supported env hs.tree hr.inv.s2 hs.tree.root hroot (normHost host)
      (isAscii_normHost ha) [] [] hr.names (by simp [AMap.keys]))
  cases hf : hs.tree.handler env (normHost host) [] mGET with
  | fault s => exact absurd hf (handler_no_fault hr.reach.inv env _ _ _ s)
  | unsupported => exact absurd hf hsup
  | res f =>
    rw [Hosts.match_res env hs host path [] f ha hf]
    rw [hn] at hf
    obtain ⟨q, hq, _⟩ := hfound f hf
    rw [← hn] at hf
    rcases hosts_found hr.reach.get (hn ▸ hne) (hn ▸ hstar) hf with ⟨_, hnone, _⟩ | ⟨n, hok, _⟩
    · rw [hnone] at hq; cases hq
    · exact ⟨f.params, by rw [hok]; rfl⟩

/-- **Counterexample to `C14_literal_accept` for `*`.**  `Add("*")` succeeds, `*` is then the one registered domain,
it is literal, the host `*` normalises to it — and is rejected (as is `*:80`).  Same in Go: `tree.Add("*", …)` has no
check, `tree.Handler` sends the path `*` to the root (probe `/root/scratch/p30/goprobe`: both hosts `false`). -/
theorem C14_literal_accept_star_counterexample :
    let hs := hostsRun Hosts.empty [.add [42]]
    domains hs = [[42]] ∧ normHost [42] = toLower [42] ∧
      outOf (hs.match P12.exEnv [42] [47] []) = some (false, [47], []) ∧
      outOf (hs.match P12.exEnv [42, 58, 56, 48] [47] []) = some (false, [47], []) := by
  refine ⟨?_, by decide, ?_, ?_⟩ <;>
  · simp only [domains, hostsRun, List.foldl_cons, List.foldl_nil, hostsStep, Hosts.add,
      Hosts.empty, Tree.add, P10.getNode_eq_F, bind, Except.bind, pure, Except.pure]
    decide +kernel

/-! ## Non-vacuity: `RegisterInterceptor(0,"d")`, `Add("a.com")`, `Add("A.com.CN")` (`exHs`) -/

local macro "del_eval" : tactic =>
  `(tactic| (simp only [exHs, exRegs, exHOps, domains, hostsRun, List.foldl_cons, List.foldl_nil, hostsStep, Hosts.add,
      Hosts.registerInterceptor, Hosts.empty, Tree.add, P10.getNode_eq_F, bind, Except.bind, pure, Except.pure]
             decide +kernel))

/-- The matcher is one of those the theorems speak about; its domains are `a.com` and `a.com.cn`. -/
example : HostsReachWf exHs := exHs_reachWf
theorem exHs_domains : domains exHs = [dA, toLower dACn] := by del_eval

/-- Hypothesis of `C14_delete_no_new`: `b.com` is rejected by `exHs` … -/
theorem exHs_rejects : exHs.match P12.exEnv [98, 46, 99, 111, 109] [47] [] = .reject [47] [] := by
  have h : outOf (exHs.match P12.exEnv [98, 46, 99, 111, 109] [47] []) = some (false, [47], []) := by del_eval
  cases hm : exHs.match P12.exEnv [98, 46, 99, 111, 109] [47] [] with
  | reject p q => rw [hm] at h; simp only [outOf, Option.some.injEq, Prod.mk.injEq] at h; rw [h.2.1, h.2.2]
  | accept p q => rw [hm] at h; simp [outOf] at h
  | fault s => rw [hm] at h; simp [outOf] at h
  | unsupported => rw [hm] at h; simp [outOf] at h
/-- … so after `Delete("A.COM")` (any letter case) it still is. -/
example : ∃ hs', exHs.delete [65, 46, 67, 79, 77] = .ok hs' ∧
    hs'.match P12.exEnv [98, 46, 99, 111, 109] [47] [] = .reject [47] [] := by
  obtain ⟨hs', hd, _⟩ := C14_delete_ok exHs exHs_reachWf [65, 46, 67, 79, 77]
  exact ⟨hs', hd, C14_delete_no_new _ exHs hs' exHs_reachWf _ hd _ _ _ _ exHs_rejects⟩
/-- `C14_delete_table` on it: after `Delete("A.COM")` the domains are exactly `a.com.cn`. -/
example : ∃ hs', exHs.delete [65, 46, 67, 79, 77] = .ok hs' ∧ ∀ p, p ∈ domains hs' ↔ p = toLower dACn := by
  obtain ⟨hs', hd, _, htab, _⟩ := C14_delete_table exHs exHs_reachWf [65, 46, 67, 79, 77]
  refine ⟨hs', hd, fun p => ?_⟩
  rw [htab p, exHs_domains]
  have e : toLower [65, 46, 67, 79, 77] = dA := by decide
  rw [e]
  simp only [List.mem_cons, List.not_mem_nil, or_false]
  constructor
  · rintro ⟨h | h, hne⟩
    · exact absurd h hne
    · exact h
  · rintro rfl
    exact ⟨.inr rfl, by decide⟩
/-- Hypotheses of `C14_domains_step` on `exHs` for each kind of operation (`Add("{x}.org")`, `Delete`, and a
`RegisterInterceptor` whose rule no stored regexp segment uses — the tree stores no regexp segment at all). -/
example : hostsOpOk exHs (.add [123, 120, 125, 46, 111, 114, 103]) ∧ hostsOpOk exHs (.delete [88]) ∧
    hostsOpOk exHs (.registerInterceptor 1 [119]) := by
  refine ⟨by show WfPattern _ = true; decide, trivial, ?_⟩
  show RuleFree [119] exHs.tree.root.children
  apply ruleFree_of_usesRule
  del_eval
/-- Hypotheses of `C14_literal_accept_partial` for the domain `A.com.CN` and the host `A.COM.cn:80`; the instance. -/
example : isAscii hostACn = true ∧ (123 : UInt8) ∉ toLower dACn ∧ toLower dACn ≠ [42] ∧ toLower dACn ∈ domains exHs ∧
    normHost hostACn = toLower dACn :=
  ⟨by decide, by decide, by decide, by rw [exHs_domains]; simp, by decide⟩
example (env : Env) (path : Bytes) : ∃ q, exHs.match env hostACn path [] = .accept path q :=
  C14_literal_accept_partial env exHs exHs_reachWf dACn hostACn path (by decide) (by decide) (by decide)
    (by rw [exHs_domains]; simp) (by decide)

end Mux.C14
