/-
  C03 — witness reachability for patterns WITH regexp segments on their own chain.

  `C03_witness_partial` / `C03_witness_winner_partial` (`Mux/Properties/C03frame.lean`) cover chains without a
  regexp segment.  Here the restriction is replaced by an explicit hypothesis on the value given to each regexp
  parameter, in three strengths:

  1. `MatchChain env ic chain` — the weakest hypothesis under which the induction along the chain goes through:
     every segment of the chain, applied (`Segment.Match`) to the text it contributed followed by the instantiation
     of the rest of the chain, consumes exactly its own text.  Decidable by evaluation.  (`C03_witness_match*`)
  2. `GoodChain`: `SimpleVal` for literal / named / interceptor segments (as before), and for a regexp segment
     `RxExact s v R`: the anchored leftmost-first match of `(rule)suffix` on `v ++ suffix ++ R` (`R` = the rest of
     the witness path) captures exactly `v`.  `RxExact` implies `Segment.Valid v` (`C03_rxExact_valid`, from
     `rxMatch_stable`), so "valid" is NECESSARY; it is NOT SUFFICIENT (`C03_valid_not_sufficient`: the live route
     `/{id:a/xb|a}/x{m:b}/x1` with the valid values `id = a`, `m = b` — its strict `URL` is `/a/xb/x1` — is answered
     404, in the model and in the Go code alike, because the first alternative `a/xb` is preferred once the path
     continues).  (`C03_witness_rx_exact*`)
  3. `GoodVal` — a hypothesis on each value ALONE (`RxSimple`): `v` is in the language of the rule
     (`Re.Denotes rule v`, i.e. `Seg.Satisfies`) and the rule cannot consume the first byte of the literal text
     that follows the parameter inside the segment (`Re.avoids`, syntactic: `\d+` followed by `/`); for a regexp
     parameter that ends its segment (then it ends the pattern) `Segment.Valid v` instead.  This is the regexp
     analogue of "`v` shares no byte with the literal text after its parameter" of `SimpleVal`.
     (`C03_witness_rx`, `C03_witness_winner_rx`, `C03_witness_table_rx`)

  The statement is the one of DESIGN §8 `C03_witness` for all four kinds of segments, with "simple" made explicit
  (`GoodVal`) and with P14's correction that the winner may lie BELOW the pattern's node (`Diverges`).

  Helper lemmas: `Mux/Proofs/WitnessRxRe.lean`, `WitnessRx.lean`, `WitnessRxExamples.lean` (namespace `Mux.P17`).
-/
import Mux.Proofs.WitnessRxExamples
import Mux.Properties.C03frame
namespace Mux.C03
open Mux Mux.P11 Mux.P14 Mux.P17

/-- Hypothesis 1 (`Mux/Proofs/WitnessRx.lean`). -/
abbrev MatchChain := Mux.P17.MatchChain
/-- Hypothesis 2: `SimpleVal`, or a regexp segment whose match on `v ++ suffix ++ R` captures exactly `v`. -/
abbrev GoodChain := Mux.P17.GoodChain
abbrev RxExact := Mux.P17.RxExact
/-- Hypothesis 3: `SimpleVal`, or a regexp segment with `RxSimple s v`. -/
abbrev GoodVal := Mux.P17.GoodVal
abbrev RxSimple := Mux.P17.RxSimple

/-! ## The regexp facts behind the hypotheses -/

/-- **`Valid` ⇒ dispatch when the rule avoids the separator.**  If no class of `re` contains the byte `b`, then for
every `v` in the language of `re` and EVERY continuation `R`, the anchored leftmost-first match of `(re)` followed by
the literal `b :: suf` on `v ++ (b :: suf) ++ R` captures exactly `v` and leaves exactly `R`. -/
theorem C03_rxMatch_extend (re : Re) (b : UInt8) (suf v R : Bytes) (ha : P17.Re.avoids re b = true)
    (hd : Re.Denotes re v) : rxMatch re (b :: suf) (v ++ (b :: suf) ++ R) = some (v, R) :=
  rxMatch_extend re b suf v R ha hd

/-- The exact hypothesis implies `Segment.Valid` — "valid" is necessary. -/
theorem C03_rxExact_valid (env : Env) (ic : Interceptors) (s : Seg) (hk : s.kind = .rx)
    (hasc : isAscii s.suffix = true) (v R : Bytes) (h : RxExact s v R) : s.valid env ic v = some true :=
  valid_of_rxExact env ic hk hasc h

/-- The hypothesis on the value alone implies the exact one, whatever follows (`R = []` when the segment has no
literal text after the parameter — in a tree such a segment has no children). -/
theorem C03_rxSimple_exact (s : Seg) (v R : Bytes) (h : RxSimple s v) (hR : s.suffix = [] → R = [])
    (hw : s.re.wide = true → isAscii (v ++ s.suffix ++ R) = true) : RxExact s v R :=
  rxExact_of_simple h hR hw

/-- "Valid" is not sufficient: on the tree REACHED by `Handle("/{id:a/xb|a}/x{m:b}/x1", h, GET)` the node of that
pattern is live, the values `id = a`, `m = b` pass `Segment.Valid`, `Tree.URL` (strict) builds the witness path
`/a/xb/x1` from them — and `GET /a/xb/x1` is answered 404.  (Same outcome with the Go code: `URL(true, …)` returns
`/a/xb/x1`, `ServeHTTP` answers 404.) -/
theorem C03_valid_not_sufficient :
    ReachAll exC ∧ (∃ x, Chain exC.root (exCChain.map (·.1)) x ∧ x.handlers ≠ []) ∧
      exSegC1.valid P14.exEnv [] [97] = some true ∧ exSegC2.valid P14.exEnv [] [98] = some true ∧
      instChain exCChain = exReqC ∧ exC.url P14.exEnv exPC [([105, 100], [97]), ([109], [98])] = .ok exReqC ∧
      patOf (exC.handler P14.exEnv exReqC [] mGET) = none ∧ okOf (exC.handler P14.exEnv exReqC [] mGET) = some false ∧
      ¬ MatchChain P14.exEnv [] exCChain :=
  ⟨exC_reach, exC_chain, exC_valid.1, exC_valid.2.1, exC_valid.2.2, exC_url, exC_404.1, exC_404.2, exC_not_match⟩

/-! ## 1. The weakest hypothesis -/

/-- **`C03_witness` under `MatchChain`.**  On the tree of a well-formed history, let `x` be a live node reached
from the root by the chain `chain.map (·.1)` — segments of ANY kind — and let every segment of the chain consume
exactly its own text on the witness path.  Then the request `instChain chain` does not fault and is never
answered 404, whatever the method. -/
theorem C03_witness_match (t : Tree) (hr : ReachAll t) (env : Env) (chain : List (Seg × Bytes)) (x : Node)
    (hch : Chain t.root (chain.map (·.1)) x) (hlive : x.handlers ≠ [])
    (hm : MatchChain env t.ic chain) (method : Bytes) :
    (∀ s, t.handler env (instChain chain) [] method ≠ .fault s) ∧
    ∀ f, t.handler env (instChain chain) [] method = .res f → ∃ q, f.node = some q ∧ q.handlers ≠ [] := by
  refine ⟨handler_no_fault hr.inv.treeInv env _ _ _, fun f hres => ?_⟩
  obtain ⟨q, h1, h2, _⟩ := witness_tree_match hr.inv env chain x hch hlive hm method f hres
  exact ⟨q, h1, h2⟩

/-- …and the answering node `q` is `x`, a node below `x`, or a node in the subtree of a sibling that precedes — in
child order = kind order — the node of `x`'s chain at the first point where the chains of `x` and `q` diverge. -/
theorem C03_witness_winner_match (t : Tree) (hr : ReachAll t) (env : Env) (chain : List (Seg × Bytes)) (x : Node)
    (hch : Chain t.root (chain.map (·.1)) x) (hlive : x.handlers ≠ [])
    (hm : MatchChain env t.ic chain) (method : Bytes) (f : Found) (q : Node)
    (hp : instChain chain ≠ []) (hstar : instChain chain ≠ [42]) (htr : t.trace = none ∨ method ≠ mTRACE)
    (hres : t.handler env (instChain chain) [] method = .res f) (hq : f.node = some q) :
    Diverges t.root (chain.map (·.1)) x q := by
  obtain ⟨q', h1, _, h3⟩ := witness_tree_match hr.inv env chain x hch hlive hm method f hres
  rw [hq] at h1
  cases h1
  exact (h3 hp hstar htr).diverges

/-- The hypotheses 2 and 3 imply hypothesis 1 on such a tree. -/
theorem C03_matchChain_of_good (t : Tree) (hr : ReachAll t) (env : Env) (chain : List (Seg × Bytes)) (x : Node)
    (hch : Chain t.root (chain.map (·.1)) x) (h : GoodChain env t.ic chain) : MatchChain env t.ic chain :=
  matchChain_of_good (ic0 := t.ic) (ic' := t.ic) env t.ic chain t.root x hch hr.inv.s2.all hr.inv.ti.sh h

theorem C03_goodChain_of_vals (t : Tree) (hr : ReachAll t) (env : Env) (chain : List (Seg × Bytes)) (x : Node)
    (hch : Chain t.root (chain.map (·.1)) x) (h : ∀ sv ∈ chain, GoodVal env t.ic sv.1 sv.2)
    (hasc : isAscii (instChain chain) = true ∨ ∀ sv ∈ chain, sv.1.kind = .rx → sv.1.re.wide = false) :
    GoodChain env t.ic chain :=
  goodChain_of_vals (ic0 := t.ic) (ic' := t.ic) env t.ic chain t.root x hch hr.inv.s2.all hr.inv.ti.sh h hasc

/-- The old hypothesis is the special case without regexp segments. -/
theorem C03_goodVal_of_simpleVal (env : Env) (ic : Interceptors) (s : Seg) (v : Bytes) (h : SimpleVal env ic s v) :
    GoodVal env ic s v := .inl h

/-! ## 2. The exact hypothesis on regexp values -/

theorem C03_witness_rx_exact (t : Tree) (hr : ReachAll t) (env : Env) (chain : List (Seg × Bytes)) (x : Node)
    (hch : Chain t.root (chain.map (·.1)) x) (hlive : x.handlers ≠ [])
    (hg : GoodChain env t.ic chain) (method : Bytes) :
    (∀ s, t.handler env (instChain chain) [] method ≠ .fault s) ∧
    ∀ f, t.handler env (instChain chain) [] method = .res f → ∃ q, f.node = some q ∧ q.handlers ≠ [] :=
  C03_witness_match t hr env chain x hch hlive (C03_matchChain_of_good t hr env chain x hch hg) method

theorem C03_witness_winner_rx_exact (t : Tree) (hr : ReachAll t) (env : Env) (chain : List (Seg × Bytes)) (x : Node)
    (hch : Chain t.root (chain.map (·.1)) x) (hlive : x.handlers ≠ [])
    (hg : GoodChain env t.ic chain) (method : Bytes) (f : Found) (q : Node)
    (hp : instChain chain ≠ []) (hstar : instChain chain ≠ [42]) (htr : t.trace = none ∨ method ≠ mTRACE)
    (hres : t.handler env (instChain chain) [] method = .res f) (hq : f.node = some q) :
    Diverges t.root (chain.map (·.1)) x q :=
  C03_witness_winner_match t hr env chain x hch hlive (C03_matchChain_of_good t hr env chain x hch hg) method f q
    hp hstar htr hres hq

/-! ## 3. The hypothesis on the values alone -/

/-- **`C03_witness` (first half) for chains with regexp segments.**  On the tree of a well-formed history, let `x`
be a live node reached by `chain.map (·.1)`, every value good for its segment (`GoodVal`: `SimpleVal`, or — regexp
segment — in the language of the rule, the rule avoiding the first byte of the literal text after the parameter),
and the request inside the modelled domain of the regexp engine (the path is ASCII, or no regexp segment of the
chain has `.` / a negated class).  Then `instChain chain` does not fault and is never answered 404. -/
theorem C03_witness_rx (t : Tree) (hr : ReachAll t) (env : Env) (chain : List (Seg × Bytes)) (x : Node)
    (hch : Chain t.root (chain.map (·.1)) x) (hlive : x.handlers ≠ [])
    (hg : ∀ sv ∈ chain, GoodVal env t.ic sv.1 sv.2)
    (hasc : isAscii (instChain chain) = true ∨ ∀ sv ∈ chain, sv.1.kind = .rx → sv.1.re.wide = false)
    (method : Bytes) :
    (∀ s, t.handler env (instChain chain) [] method ≠ .fault s) ∧
    ∀ f, t.handler env (instChain chain) [] method = .res f → ∃ q, f.node = some q ∧ q.handlers ≠ [] :=
  C03_witness_rx_exact t hr env chain x hch hlive (C03_goodChain_of_vals t hr env chain x hch hg hasc) method

/-- **`C03_witness` (second half): who answers.** -/
theorem C03_witness_winner_rx (t : Tree) (hr : ReachAll t) (env : Env) (chain : List (Seg × Bytes)) (x : Node)
    (hch : Chain t.root (chain.map (·.1)) x) (hlive : x.handlers ≠ [])
    (hg : ∀ sv ∈ chain, GoodVal env t.ic sv.1 sv.2)
    (hasc : isAscii (instChain chain) = true ∨ ∀ sv ∈ chain, sv.1.kind = .rx → sv.1.re.wide = false)
    (method : Bytes) (f : Found) (q : Node)
    (hp : instChain chain ≠ []) (hstar : instChain chain ≠ [42]) (htr : t.trace = none ∨ method ≠ mTRACE)
    (hres : t.handler env (instChain chain) [] method = .res f) (hq : f.node = some q) :
    Diverges t.root (chain.map (·.1)) x q :=
  C03_witness_winner_rx_exact t hr env chain x hch hlive (C03_goodChain_of_vals t hr env chain x hch hg hasc) method f q
    hp hstar htr hres hq

/-- **`C03_witness` (table form) with regexp segments.**  For every live pair `(p, m)` of the table read off the
tree there is the chain `segs` of `p` such that for all values `vs` (one per segment) that are good, the request
`instChain (segs.zip vs)` with method `m` does not fault, is not answered 404, and the answering node is as described
by `Diverges`. -/
theorem C03_witness_table_rx (t : Tree) (hr : ReachAll t) (env : Env) (p m : Bytes) (h : (tableOf t).has p m) :
    ∃ (x : Node) (segs : List Seg), Chain t.root segs x ∧ segs ≠ [] ∧ x.pattern = p ∧
      p = (segs.map (·.value)).flatten ∧ x.handlers.contains m = true ∧
      ∀ vs : List Bytes, vs.length = segs.length → (∀ sv ∈ segs.zip vs, GoodVal env t.ic sv.1 sv.2) →
        (isAscii (instChain (segs.zip vs)) = true ∨ ∀ s ∈ segs, s.kind = .rx → s.re.wide = false) →
        (∀ s, t.handler env (instChain (segs.zip vs)) [] m ≠ .fault s) ∧
        ∀ f, t.handler env (instChain (segs.zip vs)) [] m = .res f →
          ∃ q, f.node = some q ∧ q.handlers ≠ [] ∧
            (instChain (segs.zip vs) ≠ [] → instChain (segs.zip vs) ≠ [42] → (t.trace = none ∨ m ≠ mTRACE) →
              Diverges t.root segs x q) :=
  witness_table_vals hr.inv env h

/-! ## Non-vacuity -/

/-- In the tree REACHED by `Handle("/u/", h2, GET); Handle("/u/{id:\d+}/x", h1, GET)` the node of
`/u/{id:\d+}/x` is live and reached by the chain `"/u/"`, `{id:\d+}/x` (a regexp segment with the suffix `/x`); -/
example : ReachAll exR := exR_reach
example : ∃ x, Chain exR.root (exRChain.map (·.1)) x ∧ x.handlers ≠ [] := exR_chain
example : (tableOf exR).has exPRx mGET := exR_live_pair
/-- the value `42` is good for it: it is in the language of `\d+`, and `\d+` cannot consume `/`; -/
example : RxSimple exSegRx [52, 50] := exSegRx_simple
example : ∀ sv ∈ exRChain, GoodVal P14.exEnv exR.ic sv.1 sv.2 := exRChain_good
example : ∀ sv ∈ exRChain, sv.1.kind = .rx → sv.1.re.wide = false := exRChain_narrow
/-- the exact hypotheses hold too (decidable by evaluation): `{id:\d+}/x` on `42/x` captures `42`, rest `""`; -/
example : MatchChain P14.exEnv [] exRChain := exRChain_match
example : RxExact exSegRx [52, 50] [] := by decide
example : rxMatch exSegRx.re exSegRx.suffix ([52, 50] ++ [47, 120] ++ [47, 121]) = some ([52, 50], [47, 121]) := by decide
/-- the witness request is `/u/42/x`; -/
example : instChain exRChain = exReqRx ∧ instChain exRChain ≠ [] ∧ instChain exRChain ≠ [42] := by decide
/-- and the theorems apply: `GET /u/42/x` is answered by a node with handlers (here `/u/{id:\d+}/x` itself, with
`id = 42`), which `Diverges` from the node of `/u/{id:\d+}/x`. -/
example : ∃ f q x, exR.handler P14.exEnv (instChain exRChain) [] mGET = .res f ∧ f.node = some q ∧ q.handlers ≠ [] ∧
    q.pattern = exPRx ∧ f.params = [([105, 100], [52, 50])] ∧ Diverges exR.root (exRChain.map (·.1)) x q := by
  obtain ⟨x, hch, hlive⟩ := exR_chain
  obtain ⟨f, q, hres, hq, hp, _, _, hps⟩ := exR_answer
  rw [← exRChain_inst] at hres
  obtain ⟨q', hq', hh⟩ := (C03_witness_rx exR exR_reach P14.exEnv exRChain x hch hlive exRChain_good
    (.inr exRChain_narrow) mGET).2 f hres
  rw [hq] at hq'
  cases hq'
  exact ⟨f, q, x, hres, hq, hh, hp, hps,
    C03_witness_winner_rx exR exR_reach P14.exEnv exRChain x hch hlive exRChain_good (.inr exRChain_narrow) mGET f q
      (by decide) (by decide) (.inr (by decide)) hres hq⟩

/-- `Re.avoids` on concrete rules: `\d+` avoids `/` but not `7`; `[^/]+` avoids `/`; `.+` does not. -/
example : P17.Re.avoids (.plus ⟨false, clsDigit⟩) 47 = true ∧ P17.Re.avoids (.plus ⟨false, clsDigit⟩) 55 = false ∧
    P17.Re.avoids (.plus ⟨true, [(47, 47)]⟩) 47 = true ∧ P17.Re.avoids (.plus clsDot) 47 = false := by decide

/-- Without `Re.avoids` the extension fails already at the level of the regexp: `(a/xb|a)` followed by `/x`. -/
example : rxMatch exReA [47, 120] ([97] ++ [47, 120]) = some ([97], []) ∧
    rxMatch exReA [47, 120] ([97] ++ [47, 120] ++ [98, 47, 120]) = some ([97, 47, 120, 98], []) := by decide

end Mux.C03
