/-
  C01 — dispatch soundness, capstone: the statement of the property for every tree reachable by a history of
  Handle/Remove/Clean/Use whose registered patterns are well-formed (balanced, non-nested `{…}` tokens, literal text
  without braces — the property's own hypothesis), with NO further hypothesis.  It combines
    * matcher soundness (`C01_found`, Mux/Proofs/MatchSound.lean, HandlerSound.lean),
    * the structural invariants of reachable trees (`C01_found_reach`: index entries point to literals, node pattern =
      concatenated segment texts; Mux/Proofs/Structure.lean), and
    * distinctness of parameter names along every chain (`reach_namesOk`; Mux/Proofs/Names.lean).
-/
import Mux.Properties.C01b
import Mux.Properties.C01c
namespace Mux.C01
open Mux Mux.P9

/-- Whenever a reachable router reports a node for a request (a registered handler, a 405 or the automatic OPTIONS
answer), the request path is that node's pattern with every parameter replaced by its reported value: there is a chain of
tree segments from the root to the node whose instantiation spells the path byte for byte, every value satisfies its
segment's constraint (interceptor function / denotation of the regexp rule), the reported parameters are exactly the
chain's capturing parameters in order, the node's `pattern` is the concatenation of the chain's texts, and the handler
is the node's entry for the method (its 405 entry when the method has none). -/
theorem C01_dispatch_sound (env : Env) (t : Tree) (hr : ReachWf t) (path method : Bytes) (f : Found) (n : Node)
    (hp : path ≠ []) (hs : path ≠ [42]) (htr : t.trace = none ∨ method ≠ mTRACE)
    (h : t.handler env path [] method = .res f) (hf : f.node = some n) :
    ∃ chain : List (Seg × Bytes),
      chain ≠ [] ∧ Chain t.root (chain.map (·.1)) n ∧ path = instChain chain ∧
      (∀ sv ∈ chain, sv.1.Satisfies env t.ic sv.2) ∧
      f.params = captures chain ∧ n.handlers ≠ [] ∧ HandlerAgrees n method f ∧
      n.pattern = (chain.map (·.1.value)).flatten :=
  C01_found_reach env t hr.reach path method f n (reach_namesOk hr) hp hs htr h hf

/-- A 404 of a reachable router reports no route parameters at all. -/
theorem C01_dispatch_404 (env : Env) (t : Tree) (hr : ReachWf t) (path method : Bytes) (f : Found)
    (h : t.handler env path [] method = .res f) (hf : f.node = none) :
    f.params = [] ∧ f.handler = t.notFound ∧ f.ok = false :=
  C01_404 env t path method f (reach_namesOk hr) (C01_idxLit_reach t hr.reach) h hf

end Mux.C01
