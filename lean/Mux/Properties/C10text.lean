/-
  C10, clauses "the result is the URL domain followed by the pattern with each `{name…}` token replaced by
  `params[name]` (a leading `-` ignored), all literal text kept in place" and "fails iff the pattern is malformed or
  a parameter is missing" — against a specification read off the pattern BYTES.

  The existing `C10_subst*` theorems (C10.lean) express "the pattern with each token replaced" through
  `split [] p`, i.e. through the model's own parser `splitString`/`newSegment`, and "malformed" as "`split` fails".
  Here:

  * `Spec.substText ps p` (Mux/Spec/UrlText.lean) is one left-to-right scan of the bytes of `p`: bytes outside a token
    are copied, `{body}` (body = the text up to the next `}`) is replaced by `ps[tokName body]`, `tokName body` = the
    body up to its first `:` without one leading `-`.  No `split`, no `Seg`.  `C10_substText_lit`, `C10_substText_tok`,
    `C10_tokName_*` restate it chunk by chunk.
  * `C10_subst_text` (and the forms for `mux.URL`, `Router.URL`, router histories): for EVERY pattern that `Split`
    accepts — no well-formedness hypothesis: nested `{`, a stray `}`, an unclosed `{` included — non-strict URL building
    returns exactly `substText`, and fails with "missing parameter" iff the scan meets a token without value.
  * `C10_malformed_*`: the documented syntax errors as BYTE shapes, each with the error class the model returns: `{}`
    and `{:rule}` (`syntax`), `}{` after an accepted token (`adjacent`), a repeated name (`dupName`), a rule that does
    not compile (`regexp`).  Unbalanced braces are NOT rejected (`C10_unbalanced_literal`): a `{` without a closing
    `}` and a `}` outside a token are literal text — except that `}{` counts as adjacent parameters.
    These lemmas take the bad token after a brace-free literal prefix, in a pattern of at most 32767 bytes per piece
    (`maxInt16`, beyond which Go and the model answer `tooLong` instead).
-/
import Mux.Proofs.UrlMalformed
import Mux.Properties.C10strict
import Mux.Properties.C16stable
namespace Mux.C10
open Mux Mux.Spec Mux.P9 Mux.P13 Mux.P28

/-! ## The specification, chunk by chunk -/

/-- A literal chunk (no `{`) is kept in place. -/
theorem C10_substText_lit (ps : AMap Bytes) (x r : Bytes) (hx : startByte ∉ x) :
    substText ps (x ++ r) = (substText ps r).map (x ++ ·) := substFrom_lit ps x r hx

/-- A token `{body}` (`body` without `}`) is replaced by the value of its name; no value, no URL. -/
theorem C10_substText_tok (ps : AMap Bytes) (body r : Bytes) (hb : endByte ∉ body) :
    substText ps (tok body [] ++ r) =
      match ps.get? (tokName body), substText ps r with
      | some v, some u => some (v ++ u)
      | _, _ => none := by
  have := substText_tok ps body [] r hb
  simp only [List.nil_append] at this
  unfold substText
  rw [this]
  cases ps.get? (tokName body) <;> cases substFrom ps none r <;> rfl

theorem C10_substText_nil (ps : AMap Bytes) : substText ps [] = some [] := rfl

/-- `{name}`: the name is the body. -/
theorem C10_tokName_plain (name : Bytes) (hs : separatorByte ∉ name) (hi : name.head? ≠ some ignoreByte) :
    tokName name = name := by
  unfold tokName
  rw [takeWhile_of_not_mem hs]
  cases name with
  | nil => rfl
  | cons b r =>
    have : ¬ b = ignoreByte := fun e => hi (by simp [e])
    simp [this]

/-- `{name:rule}`: the name is the text before the first `:`. -/
theorem C10_tokName_rule (name rule : Bytes) (hs : separatorByte ∉ name) (hi : name.head? ≠ some ignoreByte) :
    tokName (name ++ separatorByte :: rule) = name := by
  have h2 := C10_tokName_plain name hs hi
  unfold tokName at h2 ⊢
  rw [takeWhile_append_sep rule hs]
  rw [takeWhile_of_not_mem hs] at h2
  exact h2

/-- `{-body}`: one leading `-` is ignored. -/
theorem C10_tokName_ignore (body : Bytes) : tokName (ignoreByte :: body) = body.takeWhile (· ≠ separatorByte) := by
  simp [tokName, List.takeWhile, ignoreByte, separatorByte]

/-! ## `C10_subst_text` -/

/-- **`C10_subst_text`.**  For EVERY pattern `p` that `Split` accepts (without interceptors, as `mux.URL` and
non-strict `Router.URL` call it), the non-strict URL is the byte-level substitution `Spec.substText ps p`: literal
text in place, each `{name…}` replaced by `ps[name]`; when the scan meets a token whose name has no value the result
is the error "missing parameter".  No hypothesis on the shape of `p`. -/
theorem C10_subst_text (p : Bytes) (ps : AMap Bytes) (segs : List Seg) (hs : split [] p = .ok segs) :
    urlNonStrict p ps = match substText ps p with
      | some u => .ok u
      | none => .error .missingParam := by
  have hne : p ≠ [] := by
    intro e; rw [e] at hs; simp [split] at hs
  unfold urlNonStrict Interceptors.url
  simp only [if_neg hne, hs, bind, Except.bind]
  rw [urlLoop_split_text hs ps]
  cases substText ps p <;> rfl

/-- The same for `Interceptors.URL` under any interceptor table (`Group`/strict callers): names and literal text do
not depend on the interceptors. -/
theorem C10_subst_text_ic (ic : Interceptors) (p : Bytes) (ps : AMap Bytes) (segs : List Seg)
    (hs : split ic p = .ok segs) :
    ic.url p ps = match substText ps p with
      | some u => .ok u
      | none => .error .missingParam := by
  have hne : p ≠ [] := by
    intro e; rw [e] at hs; simp [split] at hs
  unfold Interceptors.url
  simp only [if_neg hne, hs, bind, Except.bind]
  rw [urlLoop_split_text hs ps]
  cases substText ps p <;> rfl

/-- Success, as an equivalence: the non-strict URL of a non-empty pattern is `u` iff the pattern is not malformed
(`Split` accepts it) and substituting the parameters into its text gives `u` (all parameters present). -/
theorem C10_subst_text_ok (p : Bytes) (hp : p ≠ []) (ps : AMap Bytes) (u : Bytes) :
    urlNonStrict p ps = .ok u ↔ (∃ segs, split [] p = .ok segs) ∧ substText ps p = some u := by
  cases hs : split [] p with
  | error e =>
    have : urlNonStrict p ps = .error e := (C10_subst_urlNonStrict_error p ps e).2 (.inl ⟨hs, hp⟩)
    rw [this]
    constructor
    · intro h; cases h
    · rintro ⟨⟨segs, h⟩, _⟩; cases h
  | ok segs =>
    rw [C10_subst_text p ps segs hs]
    cases substText ps p with
    | none => simp
    | some v => simp

/-- Failure, as an equivalence: "fails iff the pattern is malformed or a parameter is missing", with the error. -/
theorem C10_subst_text_error (p : Bytes) (hp : p ≠ []) (ps : AMap Bytes) (e : Err) :
    urlNonStrict p ps = .error e ↔
      split [] p = .error e ∨ ((∃ segs, split [] p = .ok segs) ∧ substText ps p = none ∧ e = .missingParam) := by
  cases hs : split [] p with
  | error e' =>
    have : urlNonStrict p ps = .error e' := (C10_subst_urlNonStrict_error p ps e').2 (.inl ⟨hs, hp⟩)
    rw [this]
    constructor
    · intro h; cases h; exact .inl rfl
    · rintro (h | ⟨⟨segs, h⟩, _⟩)
      · cases h; rfl
      · cases h
  | ok segs =>
    rw [C10_subst_text p ps segs hs]
    cases substText ps p with
    | none =>
      simp only [Except.error.injEq, reduceCtorEq, Except.ok.injEq, exists_eq', true_and, false_or]
      exact eq_comm
    | some v => simp

/-- `mux.URL` with non-empty params. -/
theorem C10_subst_text_muxURL (p : Bytes) (ps : AMap Bytes) (hps : ps ≠ []) (segs : List Seg)
    (hs : split [] p = .ok segs) :
    muxURL p ps = match substText ps p with
      | some u => .ok u
      | none => .error .missingParam := by
  rw [muxURL_eq p ps hps]; exact C10_subst_text p ps segs hs

/-- **Non-strict `Router.URL`**, non-empty params: the router's URL domain followed by the substituted text. -/
theorem C10_subst_text_router (env : Env) (r : Router) (p : Bytes) (ps : AMap Bytes) (hps : ps ≠ [])
    (segs : List Seg) (hs : split [] p = .ok segs) :
    r.url env false p ps = match substText ps p with
      | some u => .ok (r.urlDomain ++ u)
      | none => .error .missingParam := by
  rw [C10_router_nonStrict, C10_subst_text_muxURL p ps hps segs hs]
  cases substText ps p <;> rfl

/-- **Router histories**: `NewRouter(cfg)`, any history; non-strict `URL(pattern, params)` with non-empty params, all
parameters of the pattern present, is the CONFIGURED URL domain (a trailing `/` removed) followed by the pattern text
with each token replaced by its value — and "missing parameter" when a token has no value. -/
theorem C10_subst_text_history (env : Env) {cfg : RouterCfg} {r0 : Router} (hnew : Router.new cfg = some r0)
    (ops : List ROp) (p : Bytes) (ps : AMap Bytes) (hps : ps ≠ []) (segs : List Seg) (hs : split [] p = .ok segs) :
    (r0.run ops).url env false p ps = match substText ps p with
      | some u => .ok (sanitizeDomain cfg.urlDomain ++ u)
      | none => .error .missingParam := by
  rw [C10_subst_text_router env _ p ps hps segs hs, (C16.C16_options_stable cfg r0 ops hnew).2.2]

-- non-vacuity: `/u/{id:\d+}/{-x}.{name}` with id = 5, x = a, name = b  ↦  `/u/5/a.b`
example : split [] (bytesOfString "/u/{id:\\d+}/{-x}.{name}") ≠ .error .syntax ∧
    substText [(bytesOfString "id", [53]), (bytesOfString "x", [97]), (bytesOfString "name", [98])]
      (bytesOfString "/u/{id:\\d+}/{-x}.{name}") = some (bytesOfString "/u/5/a.b") ∧
    muxURL (bytesOfString "/u/{id:\\d+}/{-x}.{name}")
      [(bytesOfString "id", [53]), (bytesOfString "x", [97]), (bytesOfString "name", [98])] =
      .ok (bytesOfString "/u/5/a.b") := by decide +kernel
-- a missing parameter
example : substText [(bytesOfString "id", [53])] (bytesOfString "/u/{id}/{x}") = none ∧
    muxURL (bytesOfString "/u/{id}/{x}") [(bytesOfString "id", [53])] = .error .missingParam := by decide +kernel
-- outside the well-formed patterns: a `{` inside a token, a stray `}`, an unclosed `{` — accepted by `Split`, and the
-- theorem applies: the name of `{a{b}` is `a{b`
example : (∃ segs, split [] (bytesOfString "/{a{b}/c}d/{e") = .ok segs) ∧
    substText [(bytesOfString "a{b", [53])] (bytesOfString "/{a{b}/c}d/{e") = some (bytesOfString "/5/c}d/{e") ∧
    muxURL (bytesOfString "/{a{b}/c}d/{e") [(bytesOfString "a{b", [53])] = .ok (bytesOfString "/5/c}d/{e") := by
  refine ⟨?_, by decide +kernel, by decide +kernel⟩
  cases h : split [] (bytesOfString "/{a{b}/c}d/{e") with
  | ok segs => exact ⟨segs, rfl⟩
  | error e =>
    have : (split [] (bytesOfString "/{a{b}/c}d/{e")).toOption.isSome = true := by decide +kernel
    rw [h] at this
    cases this

/-! ## Malformed patterns, by byte shape -/

/-- **Empty name**: `a{}b` (`a` brace-free literal text, `b` arbitrary) is rejected with the class `syntax`. -/
theorem C10_malformed_empty_name (ic : Interceptors) (a b : Bytes) (ha : NoBrace a)
    (hlen : (a ++ tok [] b).length ≤ maxInt16) : split ic (a ++ tok [] b) = .error .syntax := by
  have hl : a.length + (b.length + 2) ≤ maxInt16 := by simpa [tok_length] using hlen
  have hw := takeWhile_length_le b (· ≠ startByte)
  exact split_first_tok_err a [] b ha (by omega) (by simp)
    (newSegment_empty_name ic _ (by rw [tok_length]; simp only [List.length_nil]; omega))

/-- **`{:rule}`** — a token whose name is empty because the body starts with `:` — is rejected with `syntax`. -/
theorem C10_malformed_colon_first (ic : Interceptors) (a rule b : Bytes) (ha : NoBrace a) (hr : endByte ∉ rule)
    (hlen : (a ++ tok (separatorByte :: rule) b).length ≤ maxInt16) :
    split ic (a ++ tok (separatorByte :: rule) b) = .error .syntax := by
  have hl : a.length + (rule.length + 1 + b.length + 2) ≤ maxInt16 := by simpa [tok_length] using hlen
  have hw := takeWhile_length_le b (· ≠ startByte)
  have hr' : endByte ∉ separatorByte :: rule := by
    simp only [List.mem_cons, not_or]
    exact ⟨by decide, hr⟩
  exact split_first_tok_err a _ b ha (by omega) hr'
    (newSegment_colon_first ic rule _ hr (by rw [tok_length]; simp only [List.length_cons]; omega))

/-- **Adjacent parameters**: a token `{body}` that is accepted by itself, directly followed by another `{`, is
rejected with the class `adjacent` — whatever follows. -/
theorem C10_malformed_adjacent (ic : Interceptors) (a body b : Bytes) (ha : NoBrace a) (hlen : a.length ≤ maxInt16)
    (hb : endByte ∉ body) (s : Seg) (hs : newSegment ic (tok body []) = .ok s) :
    split ic (a ++ tok body [] ++ startByte :: b) = .error .adjacent :=
  split_adjacent a body b ha hlen hb hs

/-- **Duplicate names**: two tokens, each accepted by itself, separated by non-empty brace-free text, whose names —
read off the bytes: text before the first `:`, a leading `-` dropped — are equal: rejected with `dupName`. -/
theorem C10_malformed_dup_name (ic : Interceptors) (a body1 suf1 body2 b : Bytes) (ha : NoBrace a)
    (hlen : a.length ≤ maxInt16) (hb1 : endByte ∉ body1) (hs1 : NoBrace suf1) (hne : suf1 ≠ [])
    (hb2 : endByte ∉ body2) (s1 s2 : Seg) (h1 : newSegment ic (tok body1 suf1) = .ok s1)
    (h2 : newSegment ic (tok body2 (b.takeWhile (· ≠ startByte))) = .ok s2)
    (hname : tokName body1 = tokName body2) :
    split ic (a ++ tok body1 suf1 ++ tok body2 b) = .error .dupName :=
  split_dup_name a body1 suf1 body2 b ha hlen hb1 hs1 hne hb2 h1 h2 hname

/-- **Uncompilable regexp**: `{name:rule}` where `rule` is not an interceptor and is rejected by the regexp parser
(`parseRule rule = .bad`, i.e. `regexp.Compile` fails), followed by ASCII text: rejected with the class `regexp`. -/
theorem C10_malformed_regexp (ic : Interceptors) (a name rule b : Bytes) (ha : NoBrace a) (hn : name ≠ [])
    (hns : separatorByte ∉ name) (hne : endByte ∉ name) (hr : endByte ∉ rule) (hrn : rule ≠ [])
    (hic : ic.find rule = none) (hbad : parseRule rule = .bad) (hasc : isAscii b = true)
    (hlen : (a ++ tok (name ++ separatorByte :: rule) b).length ≤ maxInt16) :
    split ic (a ++ tok (name ++ separatorByte :: rule) b) = .error .regexp := by
  have hl : a.length + (name.length + (rule.length + 1) + b.length + 2) ≤ maxInt16 := by
    simpa [tok_length] using hlen
  have hw := takeWhile_length_le b (· ≠ startByte)
  have hb : endByte ∉ name ++ separatorByte :: rule := by
    simp only [List.mem_append, List.mem_cons, not_or]
    exact ⟨hne, by decide, hr⟩
  have hasc' : isAscii (b.takeWhile (· ≠ startByte)) = true := by
    unfold isAscii at hasc ⊢
    rw [List.all_eq_true] at hasc ⊢
    exact fun x hx => hasc x ((List.takeWhile_sublist _).subset hx)
  exact split_first_tok_err a _ b ha (by omega) hb
    (newSegment_bad_rule ic name rule _ hn hns hne hr hrn hic hbad hasc'
      (by rw [tok_length]; simp only [List.length_append, List.length_cons]; omega))

/-- Each of these errors is what non-strict URL building returns (non-empty pattern): "fails iff malformed". -/
theorem C10_malformed_url (p : Bytes) (hp : p ≠ []) (ps : AMap Bytes) (e : Err) (h : split [] p = .error e) :
    urlNonStrict p ps = .error e ∧ (ps ≠ [] → muxURL p ps = .error e) := by
  have h1 : urlNonStrict p ps = .error e := (C10_subst_urlNonStrict_error p ps e).2 (.inl ⟨h, hp⟩)
  exact ⟨h1, fun hps => by rw [muxURL_eq p ps hps]; exact h1⟩

/-- **Unbalanced braces are not rejected.**  In the specification, text without `}` — in particular a `{` that is
never closed — is copied unchanged whatever the parameters; so is text without `{` (a stray `}`). -/
theorem C10_unbalanced_literal (ps : AMap Bytes) (p : Bytes) (h : endByte ∉ p ∨ startByte ∉ p) :
    substText ps p = some p := by
  rcases h with h | h
  · have := substFrom_no_end ps p h none
    simpa [substText] using this
  · exact substFrom_lit_nil ps p h

/-- … and the model agrees: a non-empty pattern without `}` (any number of unclosed `{`) is accepted by `Split` and
non-strict URL building returns it unchanged, whatever the parameters. -/
theorem C10_unbalanced_accepted (p : Bytes) (hne : p ≠ []) (hend : endByte ∉ p) (hlen : p.length ≤ maxInt16)
    (ps : AMap Bytes) : (∃ segs, split [] p = .ok segs) ∧ urlNonStrict p ps = .ok p := by
  obtain ⟨segs, hs⟩ := split_no_end [] p hne hend hlen
  refine ⟨⟨segs, hs⟩, ?_⟩
  rw [C10_subst_text p ps segs hs, C10_unbalanced_literal ps p (.inl hend)]

-- the lemmas instantiated: `/a/{}/b`, `/a/{:\d+}`, `/{a}{b}`, `/{a}/{-a:\d+}`, `/{a:*}`, `/a/{b`
example : split [] (bytesOfString "/a/" ++ tok [] (bytesOfString "/b")) = .error .syntax :=
  C10_malformed_empty_name [] _ _ ⟨by decide +kernel, by decide +kernel⟩ (by decide +kernel)
example : split [] (bytesOfString "/a/" ++ tok (separatorByte :: bytesOfString "\\d+") []) = .error .syntax :=
  C10_malformed_colon_first [] _ _ _ ⟨by decide +kernel, by decide +kernel⟩ (by decide +kernel) (by decide +kernel)
example : urlNonStrict (bytesOfString "/a/{b") [([98], [53])] = .ok (bytesOfString "/a/{b") :=
  (C10_unbalanced_accepted _ (by decide +kernel) (by decide +kernel) (by decide +kernel) _).2

-- non-vacuity of the malformed shapes (each evaluated by the kernel on the model):
-- `/a/{}/b`, `/a/{:\d+}`, `/{a}{b}`, `/{a}/{a:\d+}`, `/{a:*}` and the accepted `/a/{b` and `/a}b`
example : split [] (bytesOfString "/a/{}/b") = .error .syntax := by decide +kernel
example : split [] (bytesOfString "/a/{:\\d+}") = .error .syntax := by decide +kernel
example : split [] (bytesOfString "/{a}{b}") = .error .adjacent := by decide +kernel
example : split [] (bytesOfString "/{a}/{-a:\\d+}") = .error .dupName := by decide +kernel
example : split [] (bytesOfString "/{a:*}") = .error .regexp := by decide +kernel
example : muxURL (bytesOfString "/a/{b") [([98], [53])] = .ok (bytesOfString "/a/{b") := by decide +kernel
example : muxURL (bytesOfString "/a}b") [([98], [53])] = .ok (bytesOfString "/a}b") := by decide +kernel
/-- … but `}{` is "adjacent parameters" even when the `}` closes nothing. -/
example : split [] (bytesOfString "/a}{b}") = .error .adjacent := by decide +kernel
-- hypotheses of the lemmas, instantiated: prefix `/a/`, tokens `{a}`, `{-a:\d+}`, rule `*`
example : NoBrace (bytesOfString "/a/") ∧ (∃ s, newSegment [] (tok [97] []) = .ok s) ∧
    tokName [97] = tokName (bytesOfString "-a:\\d+") ∧ parseRule [42] = .bad ∧
    Interceptors.find [] [42] = none := by
  refine ⟨⟨by decide +kernel, by decide +kernel⟩, ?_, by decide +kernel, by decide +kernel, rfl⟩
  cases h : newSegment [] (tok [97] []) with
  | ok s => exact ⟨s, rfl⟩
  | error e =>
    have : (newSegment [] (tok [97] [])).toOption.isSome = true := by decide +kernel
    rw [h] at this
    cases this

end Mux.C10
