/-
  C05 (Handle / Remove / Clean part) — no pattern string can make `Handle` fault, and `Remove` and
  `Clean` cannot fail, on every tree reachable by a history whose REGISTERED patterns are well-formed
  (`ReachWf`; the pattern of the call under consideration is arbitrary).

  `Tree.add` returns `.ok` or an error whose class is one of
  `empty, adjacent, syntax, dupName, regexp, tooLong, unsupported` (pattern syntax),
  `reserved, unknownMethod, dupMethod` (method list) or `ambiguous`; never `.fault _`.
-/
import Mux.Proofs.AddNoFault
import Mux.Proofs.RemoveNoFault
import Mux.Proofs.P9Examples
namespace Mux.C05
open Mux Mux.P9

/-- The error classes `Handle` may answer with. -/
def HandleErr (e : Err) : Prop :=
  e = .empty ∨ e = .adjacent ∨ e = .syntax ∨ e = .dupName ∨ e = .regexp ∨ e = .tooLong ∨ e = .unsupported ∨
    e = .reserved ∨ e = .unknownMethod ∨ e = .dupMethod ∨ e = .ambiguous

theorem handleErr_of_class {e : Err} (h : e = .ambiguous ∨ SynErr e ∨ MethErr e) : HandleErr e := by
  unfold HandleErr
  rcases h with h | h | h
  · simp [h]
  · rcases h with h | h | h | h | h | h | h <;> simp [h]
  · rcases h with h | h | h <;> simp [h]

theorem handleErr_not_fault {e : Err} (h : HandleErr e) : e.isFault = false := by
  rcases h with h | h | h | h | h | h | h | h | h | h | h <;> rw [h] <;> rfl

/-- **C05_handle.** On a reachable tree, `Handle` with ANY pattern string, handler, middleware list
and method list either registers the route or answers an error value of one of the listed classes —
never a runtime fault. -/
theorem C05_handle (t : Tree) (hr : ReachWf t) (p : Bytes) (h : Handler) (ms : List Nat) (methods : List Bytes) :
    (∃ t', t.add p h ms methods = .ok t') ∨ ∃ e, t.add p h ms methods = .error e ∧ HandleErr e := by
  cases he : t.add p h ms methods with
  | ok t' => exact .inl ⟨t', rfl⟩
  | error e => exact .inr ⟨e, rfl, handleErr_of_class (add_error_class_any hr.wf hr.reach.inv he)⟩

theorem C05_handle_no_fault (t : Tree) (hr : ReachWf t) (p : Bytes) (h : Handler) (ms : List Nat)
    (methods : List Bytes) (k : Nat) : t.add p h ms methods ≠ .error (.fault k) :=
  add_no_fault hr.wf hr.reach.inv p h ms methods k

/-- The same from the two tree hypotheses directly (well-formed below the root; `TreeInv`). -/
theorem C05_handle_of_inv (t : Tree) (hwf : WellFormedTree t) (hinv : TreeInv t) (p : Bytes) (h : Handler)
    (ms : List Nat) (methods : List Bytes) (k : Nat) : t.add p h ms methods ≠ .error (.fault k) :=
  add_no_fault hwf hinv p h ms methods k

/-- For a well-formed pattern moreover every error is raised by the validation, before the first
mutation (see `Mux.C17.C17_validated_ok`). -/
theorem C05_handle_wf (t : Tree) (hr : ReachWf t) (p : Bytes) (hp : WfPattern p) (h : Handler) (ms : List Nat)
    (methods : List Bytes) :
    (∃ t', t.add p h ms methods = .ok t' ∧ ReachWf t') ∨ ∃ e, t.add p h ms methods = .error e ∧ HandleErr e := by
  cases he : t.add p h ms methods with
  | ok t' =>
    refine .inl ⟨t', rfl, ?_⟩
    have := hr.step (op := .add p h ms methods) hp
    simpa [Tree.step, he] using this
  | error e => exact .inr ⟨e, rfl, handleErr_of_class (add_error_class h ms methods hr.wf hp he)⟩

/-- The stages before the tree is touched never fault, on ANY tree and for ANY pattern: the ambiguity
check (which calls `Split`) fails with a syntax error only. -/
theorem C05_checkAmb_no_fault (ic : Interceptors) (n : Node) (p : Bytes) (has : Bool) (k : Nat) :
    n.checkAmb ic p has ≠ .error (.fault k) := by
  intro h
  have := checkAmb_error ic n p has _ h
  simp [SynErr] at this

/-- `getNode` never faults below a node with a well-formed child list, for any pieces. -/
theorem C05_getNode_no_fault (ic : Interceptors) (n : Node) (used : List Bytes) (hwf : WfL ic used n.children)
    (p : Bytes) (hp : p ≠ []) (v : Bytes) (rest : List Bytes) (hv : splitString p = v :: rest) (k : Nat) :
    getNode ic n v rest ≠ .error (.fault k) :=
  getNode_no_fault ic n v rest ⟨used, hwf⟩ (splitString_pieceG hp v (hv ▸ by simp))
    (fun x hx => splitString_pieceG hp x (hv ▸ by simp [hx])) k

/-- **Remove never fails** on a tree whose nodes below the root have non-empty texts (its only error
sites are faults: an index path leaving the tree — but paths from `findPath` are valid — and
`buildIndexes` on an empty literal). -/
theorem C05_remove (t : Tree) (hne : ValsNonEmpty t) (p : Bytes) (methods : List Bytes) :
    ∃ t', t.remove p methods = .ok t' := remove_ok hne p methods

/-- **Clean never fails** on such a tree. -/
theorem C05_clean (t : Tree) (hne : ValsNonEmpty t) (pre : Bytes) : ∃ t', t.clean pre = .ok t' :=
  treeClean_ok hne pre

/-- Paths returned by `findPath` are valid. -/
theorem C05_findPath_valid (n : Node) (p : Bytes) (path : List Nat) (h : n.findPath p = some path) :
    (n.getAt path).isSome = true := findPath_valid n p path h

/-- `ValsNonEmpty` holds on reachable trees. -/
theorem C05_reach_valsNonEmpty (t : Tree) (hr : ReachWf t) : ValsNonEmpty t := valsNonEmpty_of_wf hr.wf

theorem C05_remove_reach (t : Tree) (hr : ReachWf t) (p : Bytes) (methods : List Bytes) (k : Nat) :
    t.remove p methods ≠ .error (.fault k) := by
  obtain ⟨t', h⟩ := remove_ok (valsNonEmpty_of_wf hr.wf) p methods
  rw [h]; simp

theorem C05_clean_reach (t : Tree) (hr : ReachWf t) (pre : Bytes) (k : Nat) :
    t.clean pre ≠ .error (.fault k) := by
  obtain ⟨t', h⟩ := treeClean_ok (valsNonEmpty_of_wf hr.wf) pre
  rw [h]; simp

/-! ## Non-vacuity -/

-- a reachable tree (`GET /u/{id}`, `GET /u/{id}/x`, `Remove`, `Clean`)
example : ReachWf (exT0.run exOps) := reachWf_ex
-- a hand-built tree satisfying the two tree hypotheses of `C05_handle_of_inv` is `exT1`
example : WellFormedTree exT1 := wellFormed_exT1
example : ValsNonEmpty exT1 := valsNonEmpty_of_wf wellFormed_exT1
-- an ill-formed pattern string (`/{a{}}y`) is still answered without a fault: the theorem applies to it
example (t : Tree) (hr : ReachWf t) (k : Nat) :
    t.add [47, 123, 97, 123, 125, 125, 121] { base := .user 1 } [] [mGET] ≠ .error (.fault k) :=
  C05_handle_no_fault t hr _ _ _ _ k

end Mux.C05
