/-
  C12 (router level, whole histories) — a passing preflight on a router made by `Router.new cfg` with a sanitized
  CORS configuration, after an ARBITRARY history of `Handle/Remove/Clean/Use`:

    * `C12_preflight_router`  `Access-Control-Allow-Methods` is the `Allow` text of the matched node, which is the
                              `", "`-join of that node's rendered method set — registered ∪ {HEAD iff GET} ∪ {OPTIONS}
                              ∪ {TRACE iff configured}, sorted, duplicate-free (the link to `C04_node`) — together
                              with every other CORS header exactly as configured and the exact `Vary`;
    * `C12_preflight_root`    the same for the one path ("") that is answered from the root node: its method set is
                              OPTIONS, TRACE iff configured, and the methods with a live route (`C04_star_partial`);
    * `C12_simple_router`     the non-preflight twin: Allow-Origin, Allow-Credentials, Expose-Headers as configured, no
                              preflight-only header, `Vary: Origin`;
    * `C12_preflight_final`   the headers of `C12_preflight_router` are still there, unchanged, on the record AFTER
                              `ServeHTTP` (mux's OPTIONS handler only sets `Allow`).

  Helper lemmas: `Mux/Proofs/ServedNode.lean`, `Mux/Proofs/CorsFinal.lean` (namespace `Mux.P24`).
-/
import Mux.Proofs.ServedNode
import Mux.Proofs.CorsFinal
import Mux.Proofs.GroupLiftServe
import Mux.Properties.C04
import Mux.Properties.C12
import Mux.Properties.C11history
namespace Mux.C12
open Mux Mux.P24

variable {origins allowHeaders exposed : List Bytes} {maxAge : Int} {cred : Bool} {c : Cors}

/-- What a passing preflight carries, in terms of the `WithCORS` arguments and the matched node `n`. -/
def PreflightGrant (exposed : List Bytes) (maxAge : Int) (cred : Bool) (c : Cors) (req : Req) (n : Node)
    (h : Hdr) : Prop :=
  h.values hACAM = [joinWith [44, 32] n.methods] ∧
  h.values hACAO = [if c.anyOrigins = true then [42] else req.headers.get hOrigin] ∧
  h.values hACAC = (if cred = true then [bytesOfString "true"] else []) ∧
  h.values hACEH = (if exposed ≠ [] ∧ exposed ≠ [[]] then [joinWith [44] exposed] else []) ∧
  h.values hACAH = (if c.allowHeadersString ≠ [] then [c.allowHeadersString] else []) ∧
  h.values hACMA = (if maxAge ≠ 0 then [intToBytes maxAge] else []) ∧
  h.values hVary = [hACRM] ++ (if c.allowHeadersString ≠ [] then [hACRH] else []) ++ [hOrigin]

/-- The header part, for any node. -/
theorem preflightGrant_handle (hs : Cors.sanitize origins allowHeaders exposed maxAge cred = some c) (req : Req)
    (n : Node) (hne : origins ≠ []) (hor : c.anyOrigins = true ∨ req.headers.get hOrigin ∈ origins)
    (hp : Cors.isPreflight req.method req.path req.headers) (hm : req.headers.get hACRM ∈ n.methods)
    (hh : c.headerIsAllowed req.headers = true) :
    PreflightGrant exposed maxAge cred c req n
      (c.handle n.methods n.allow [] req.method req.path req.headers) := by
  obtain ⟨a, b, d, e, f, g⟩ := C12_preflight hs n.methods n.allow req.method req.path req.headers hne hor hp hm hh
  have hv := C12_vary hs n.methods n.allow req.method req.path req.headers
  have hacao : (c.handle n.methods n.allow [] req.method req.path req.headers).has hACAO = true := by
    rw [C11.C11_acao_iff hs]
    obtain ⟨_, _, _, ha, _⟩ := Cors.sanitize_eq_some hs
    exact ⟨hne, fun _ => ⟨hm, hh⟩, by simpa [ha] using hor⟩
  dsimp only at hv
  refine ⟨e, a, b, d, f, g, ?_⟩
  rw [hv]
  simp [hne, hp, hm, hh, hacao]

/-- **Passing preflight, every history.**  Let `c` be a sanitized CORS configuration, `r0` the router made with it and
`ops` any history.  For a preflight (OPTIONS with `Access-Control-Request-Method`, path other than `*`) for a
non-empty path that is served (`ok = true`: the path names a live route) from an allowed origin:
the matched node `n` is a node of the tree below the root that has handlers; its method set `n.methods` is exactly
the methods registered by hand, HEAD iff GET is among them, OPTIONS, and TRACE iff the router was built with a TRACE
handler — sorted and duplicate-free — and its `Allow` text is the `", "`-join of that set; and if the requested method
is in that set and the requested headers are allowed, `Access-Control-Allow-Methods` is exactly that `Allow` text,
with Allow-Origin, Allow-Credentials, Expose-Headers, Allow-Headers, Max-Age as configured and
`Vary: Access-Control-Request-Method[, Access-Control-Request-Headers], Origin`. -/
theorem C12_preflight_router (hs : Cors.sanitize origins allowHeaders exposed maxAge cred = some c)
    {cfg : RouterCfg} {r0 : Router} (hcfg : cfg.cors = c) (hnew : Router.new cfg = some r0) (ops : List ROp)
    {env : Env} {req : Req} {ps : Params} {call : Call}
    (h : (r0.run ops).serveContext env req ps = .call call) (hok : call.ok = true)
    (hpath : req.path ≠ [])
    (hne : origins ≠ []) (hor : c.anyOrigins = true ∨ req.headers.get hOrigin ∈ origins)
    (hp : Cors.isPreflight req.method req.path req.headers) :
    ∃ n, call.node = some n ∧ n ∈ nodesL (r0.run ops).tree.root.children ∧ n.handlers ≠ [] ∧
      n.handlers.get? mOPTIONS = some call.handler ∧
      (∀ m, m ∈ n.methods ↔ m ∈ n.registered ∨ (m = mHEAD ∧ mGET ∈ n.registered) ∨ m = mOPTIONS ∨
        (cfg.trace = true ∧ m = mTRACE)) ∧
      n.methods.Pairwise (fun a b => bytesLt a b = true) ∧ n.methods.Nodup ∧
      n.allow = joinWith [44, 32] n.methods ∧
      (req.headers.get hACRM ∈ n.methods → c.headerIsAllowed req.headers = true →
        PreflightGrant exposed maxAge cred c req n call.respHeaders) := by
  have hreach : (r0.run ops).tree.Reach := Router.Reach.tree ⟨cfg, r0, ops, hnew, rfl⟩
  obtain ⟨n, hn⟩ := Router.serveContext_ok_node h hok
  have hfound := (P18.serveContext_call_found env _ req ps call h).1
  have hmeth : req.method = mOPTIONS := hp.1
  obtain ⟨hmem, hhne, hget⟩ := served_node hreach.inv hfound (f := P18.Call.found call) hok hn hpath hp.2.2
    (by rw [hmeth]; decide)
  obtain ⟨_, _, _, _, h5, h6, h7, h8⟩ := C04.C04_node hreach hmem hhne
  have htr : (r0.run ops).tree.hasTrace = cfg.trace := by
    obtain ⟨tops, _, hrun⟩ := Router.run_tree r0 ops
    rw [hrun, (sameCfg_run r0.tree tops).1]
    unfold Router.new at hnew
    split at hnew
    · cases hnew
    · cases hnew; cases cfg.trace <;> rfl
  have hc : (r0.run ops).cors = c := by rw [(C16.C16_options_stable cfg r0 ops hnew).2.1, hcfg]
  refine ⟨n, hn, hmem, hhne, by rw [← hmeth]; exact hget, by rw [← htr]; exact h5, h6, h7, h8, fun hm hh => ?_⟩
  rw [Router.serveContext_ok h hok hn, hc]
  exact preflightGrant_handle hs req n hne hor hp hm hh

/-- The same for the one preflight path that is answered from the ROOT node, the empty path: `Allow-Methods` is the
root's `Allow` text, and the root's method set is OPTIONS, TRACE iff configured, and every method that has at least
one live route in the tree (`C04_star_partial`). -/
theorem C12_preflight_root (hs : Cors.sanitize origins allowHeaders exposed maxAge cred = some c)
    {cfg : RouterCfg} {r0 : Router} (hcfg : cfg.cors = c) (hnew : Router.new cfg = some r0) (ops : List ROp)
    {env : Env} {req : Req} {ps : Params} {call : Call}
    (h : (r0.run ops).serveContext env req ps = .call call) (hok : call.ok = true)
    (hpath : req.path = [])
    (hne : origins ≠ []) (hor : c.anyOrigins = true ∨ req.headers.get hOrigin ∈ origins)
    (hp : Cors.isPreflight req.method req.path req.headers) :
    call.node = some (r0.run ops).tree.root ∧
      (∀ m, m ∈ (r0.run ops).tree.root.methods ↔ m = mOPTIONS ∨ ((r0.run ops).tree.hasTrace = true ∧ m = mTRACE) ∨
        m ∈ liveMethods (r0.run ops).tree.counts) ∧
      (r0.run ops).tree.root.allow = joinWith [44, 32] (r0.run ops).tree.root.methods ∧
      (req.headers.get hACRM ∈ (r0.run ops).tree.root.methods → c.headerIsAllowed req.headers = true →
        PreflightGrant exposed maxAge cred c req (r0.run ops).tree.root call.respHeaders) := by
  have hreach : (r0.run ops).tree.Reach := Router.Reach.tree ⟨cfg, r0, ops, hnew, rfl⟩
  obtain ⟨n, hn⟩ := Router.serveContext_ok_node h hok
  have hfound := (P18.serveContext_call_found env _ req ps call h).1
  have hroot : n = (r0.run ops).tree.root :=
    served_root hreach.inv hfound (f := P18.Call.found call) hn (.inl hpath) (by rw [hp.1]; decide)
  subst hroot
  have hc : (r0.run ops).cors = c := by rw [(C16.C16_options_stable cfg r0 ops hnew).2.1, hcfg]
  refine ⟨hn, C04.C04_star_partial hreach, rfl, fun hm hh => ?_⟩
  rw [Router.serveContext_ok h hok hn, hc]
  exact preflightGrant_handle hs req _ hne hor hp hm hh

/-- `PreflightGrant` only looks at the seven CORS response headers. -/
theorem PreflightGrant.congr {req : Req} {n : Node} {h h' : Hdr} (hv : ∀ k ∈ C11.corsNames, h'.values k = h.values k)
    (hg : PreflightGrant exposed maxAge cred c req n h) : PreflightGrant exposed maxAge cred c req n h' := by
  unfold PreflightGrant at *
  rw [hv hACAM (by decide), hv hACAO (by decide), hv hACAC (by decide), hv hACEH (by decide), hv hACAH (by decide),
    hv hACMA (by decide), hv hVary (by decide)]
  exact hg

/-- **… and at the observation point.**  Under the hypotheses of `C12_preflight_router`, the grant is still there,
unchanged, in the header map after `ServeHTTP` and in the headers as sent, however the call ended with a response
(mux's own OPTIONS handler only sets `Allow`).  User code must not rewrite the CORS headers itself: the handler's
script, if the route's OPTIONS entry is a USER handler, and the recovery function's script name none of them. -/
theorem C12_preflight_final (hs : Cors.sanitize origins allowHeaders exposed maxAge cred = some c)
    {cfg : RouterCfg} {r0 : Router} (hcfg : cfg.cors = c) (hnew : Router.new cfg = some r0) (ops : List ROp)
    {env : Env} {pc : PanicCfg} {scripts : Scripts} {req : Req} {ps : Params} {call : Call} {out : Outcome} {rec : Rec}
    (h : (r0.run ops).serveHTTP env pc scripts req ps = (some call, out)) (hok : call.ok = true)
    (hpath : req.path ≠ [])
    (hne : origins ≠ []) (hor : c.anyOrigins = true ∨ req.headers.get hOrigin ∈ origins)
    (hp : Cors.isPreflight req.method req.path req.headers)
    (hu : ∀ id, call.handler.base = .user id → Quiet C11.corsNames (scripts.get id))
    (hr : Quiet C11.corsNames cfg.recActs) (ho : outRec out = some rec) :
    ∃ n, call.node = some n ∧ n ∈ nodesL (r0.run ops).tree.root.children ∧
      (req.headers.get hACRM ∈ n.methods → c.headerIsAllowed req.headers = true →
        PreflightGrant exposed maxAge cred c req n rec.hdr ∧
        ∀ s, rec.snap = some s → PreflightGrant exposed maxAge cred c req n s) := by
  obtain ⟨hsc, hfin⟩ := C11.serveHTTP_call h
  obtain ⟨n, hn, hmem, _, _, _, _, _, _, hgrant⟩ := C12_preflight_router hs hcfg hnew ops hsc hok hpath hne hor hp
  have hra : call.recActs = cfg.recActs := by
    rw [(P18.serveContext_call_recActs env _ req ps call hsc).1, C16.C16_recActs_stable cfg r0 ops hnew]
  have hK : ∀ k ∈ C11.corsNames, Keeps k (call.respHeaders.values k) (call.respHeaders.has k) rec := by
    intro k hk
    have hne : k ≠ hAllow ∧ k ≠ hXTrace ∧ k ≠ hContentLength := by
      simp only [C11.corsNames, List.mem_cons, List.not_mem_nil, or_false] at hk
      rcases hk with rfl | rfl | rfl | rfl | rfl | rfl | rfl <;> decide
    exact keeps_finish pc scripts call out rec k hne.1 hne.2.1 hne.2.2
      (fun id hb => (hu id hb).mono (by simpa using hk)) (by rw [hra]; exact hr.mono (by simpa using hk)) hfin ho
  refine ⟨n, hn, hmem, fun hm hh => ⟨(hgrant hm hh).congr (fun k hk => (hK k hk).values), fun s hsnap => ?_⟩⟩
  exact (hgrant hm hh).congr (fun k hk => ((hK k hk).snap s hsnap).1)

/-! ## Simple (non-preflight) requests -/

/-- **Allowed origin, live route, served method, not a preflight — every history.**  The map handed to the handler
carries `Access-Control-Allow-Origin` (`*` if configured, else the request's origin), Allow-Credentials and
Expose-Headers exactly as configured, none of the preflight-only headers, and `Vary: Origin`. -/
theorem C12_simple_router (hs : Cors.sanitize origins allowHeaders exposed maxAge cred = some c)
    {cfg : RouterCfg} {r0 : Router} (hcfg : cfg.cors = c) (hnew : Router.new cfg = some r0) (ops : List ROp)
    {env : Env} {req : Req} {ps : Params} {call : Call}
    (h : (r0.run ops).serveContext env req ps = .call call) (hok : call.ok = true)
    (hne : origins ≠ []) (hor : c.anyOrigins = true ∨ req.headers.get hOrigin ∈ origins)
    (hnp : ¬ Cors.isPreflight req.method req.path req.headers) :
    call.respHeaders.values hACAO = [if c.anyOrigins = true then [42] else req.headers.get hOrigin] ∧
    call.respHeaders.values hACAC = (if cred = true then [bytesOfString "true"] else []) ∧
    call.respHeaders.values hACEH = (if exposed ≠ [] ∧ exposed ≠ [[]] then [joinWith [44] exposed] else []) ∧
    call.respHeaders.has hACAM = false ∧ call.respHeaders.has hACAH = false ∧ call.respHeaders.has hACMA = false ∧
    call.respHeaders.values hVary = [hOrigin] := by
  obtain ⟨n, hn, hresp⟩ := C12_served h hok
  have hc : (r0.run ops).cors = c := by rw [(C16.C16_options_stable cfg r0 ops hnew).2.1, hcfg]
  rw [hresp, hc]
  obtain ⟨a, b, d, e, f, g⟩ := C12_simple hs n.methods n.allow req.method req.path req.headers hne hor hnp
  have hv := C12_vary hs n.methods n.allow req.method req.path req.headers
  have hacao : (c.handle n.methods n.allow [] req.method req.path req.headers).has hACAO = true := by
    rw [C11.C11_acao_iff hs]
    obtain ⟨_, _, _, ha, _⟩ := Cors.sanitize_eq_some hs
    exact ⟨hne, fun hp => absurd hp hnp, by simpa [ha] using hor⟩
  dsimp only at hv
  refine ⟨a, b, d, e, f, g, ?_⟩
  rw [hv]
  simp [hnp, hacao]

/-! ## Non-vacuity

The router of `C11history`: `NewRouter("r", WithCORS(origin a.example, Content-Type and X-Id allowed, X-Id exposed,
max-age 3600, credentials))`, then `Handle("/a", h1, GET)`, `Use(3)`; the browser-style preflight for `/a`. -/

def pReq : Req := { method := mOPTIONS, path := CorsEx.path, headers := CorsEx.preflight }

structure PView where
  ok : Bool
  methods : List Bytes
  acam : List Bytes
  vary : List Bytes
  final : Option (List Bytes)
  deriving DecidableEq
def pView (x : Option Call × Outcome) : Option PView :=
  x.1.map (fun c => ⟨c.ok, (c.node.map (·.methods)).getD [], c.respHeaders.values hACAM, c.respHeaders.values hVary,
    (outRec x.2).map (·.hdr.values hACAM)⟩)

/-- hypotheses of `C12_preflight_router` / `C12_preflight_final` that do not mention the call -/
example : Cors.sanitize [CorsEx.origin] [hContentType, CorsEx.xId] [CorsEx.xId] 3600 true = some C11.hCfg.cors ∧
    Router.new C11.hCfg = some C11.hR0 ∧ pReq.path ≠ [] ∧ [CorsEx.origin] ≠ [] ∧
    (CorsEx.cfg.anyOrigins = true ∨ pReq.headers.get hOrigin ∈ [CorsEx.origin]) ∧
    Cors.isPreflight pReq.method pReq.path pReq.headers ∧ CorsEx.cfg.headerIsAllowed pReq.headers = true ∧
    pReq.headers.get hACRM = mGET ∧ Quiet C11.corsNames C11.hCfg.recActs := by
  refine ⟨by decide +kernel, rfl, by decide +kernel, by decide +kernel, by decide +kernel, by decide +kernel,
    by decide +kernel, by decide +kernel, by decide +kernel⟩

/-- … and those that do: the preflight is served, the requested method GET is in the node's set, and the outcome:
`Allow-Methods: GET, HEAD, OPTIONS` handed over and still there after mux's OPTIONS handler ran -/
example : pView ((C11.hR0.run C11.hOps).serveHTTP CorsEx.env {} [] pReq []) =
    some ⟨true, [mGET, mHEAD, mOPTIONS], [bytesOfString "GET, HEAD, OPTIONS"], [hACRM, hACRH, hOrigin],
      some [bytesOfString "GET, HEAD, OPTIONS"]⟩ := by
  mux_eval [C11.hR0, C11.hOps]

/-- hypotheses of `C12_simple_router`: a GET from the listed origin on the live route is served and is no preflight -/
example : ¬ Cors.isPreflight mGET CorsEx.path CorsEx.simple ∧
    pView ((C11.hR0.run C11.hOps).serveHTTP CorsEx.env {} [] (C11.hReq CorsEx.path CorsEx.simple) []) =
      some ⟨true, [mGET, mHEAD, mOPTIONS], [], [hOrigin], some []⟩ := by
  refine ⟨by decide +kernel, ?_⟩
  mux_eval [C11.hR0, C11.hOps]

end Mux.C12
