/-
  C13 — A Group dispatches to the first accepting router and rejections leave no trace.
  Statements only (plus non-vacuity examples); helper lemmas and the definitions of
  `Matcher.hostsFree` / `Matcher.guarded` / `Group.notFoundCall` / `RTab.nameOf` live in Mux/Proofs/Group.lean.

  `Matcher.hostsFree m`  : no `.hosts` constructor anywhere in `m`.
  `Matcher.guarded m`    : every `.hosts` in `m` sits below some `.and` (weaker than `hostsFree`).
-/
import Mux.Proofs.Group
namespace Mux.C13
open Mux

/-- `e` rejects the request as originally received (whatever it leaves behind). -/
def Rejects (env : Env) (tab : Nat → Option Hosts) (req : Req) (e : Nat × Matcher) : Prop :=
  ∃ p ps, e.2.run env tab req req.path [] = .reject p ps

/-! ## Rejections leave no trace -/

/-- A hosts-free matcher — any nesting of and/or/any/pathVersion/headerVersion — that rejects leaves the request
path and the parameters as they were; the same holds for every `And` whatever its members are (hosts included,
and also when an earlier member had accepted and rewritten the path: the D12 repair). -/
theorem C13_no_trace (env : Env) (tab : Nat → Option Hosts) (req : Req) (path : Bytes) (ps : Params)
    (p' : Bytes) (ps' : Params) :
    (∀ m : Matcher, m.hostsFree = true → m.run env tab req path ps = .reject p' ps' → p' = path ∧ ps' = ps) ∧
    (∀ ms : List Matcher, (Matcher.and ms).run env tab req path ps = .reject p' ps' → p' = path ∧ ps' = ps) :=
  ⟨fun m hm h => run_reject_hostsFree env tab m hm req path ps p' ps' h,
   fun ms h => run_and_reject env tab ms req path ps p' ps' h⟩

/-- Strongest syntactic form: it suffices that every `Hosts` matcher sits below an `And`. -/
theorem C13_no_trace_guarded (env : Env) (tab : Nat → Option Hosts) (m : Matcher) (hm : m.guarded = true)
    (req : Req) (path : Bytes) (ps : Params) (p' : Bytes) (ps' : Params)
    (h : m.run env tab req path ps = .reject p' ps') : p' = path ∧ ps' = ps :=
  run_reject_guarded env tab m hm req path ps p' ps' h

theorem C13_hostsFree_guarded (m : Matcher) (h : m.hostsFree = true) : m.guarded = true :=
  Matcher.hostsFree_guarded m h

/-- EVERY matcher (a bare `Hosts` and `Or`s of them included) leaves the request PATH alone when it rejects.
Since `Group.serve` resets the parameters after a rejection, this is all the group loop needs: the side condition
of `C13_first`/`C13_notfound` holds for all matchers. (A bare rejecting `Hosts` may leave parameters captured by
its tree; inside an `Or` the next member sees them — that is why `C13_no_trace` excludes unguarded hosts.) -/
theorem C13_reject_path (env : Env) (tab : Nat → Option Hosts) (m : Matcher) (req : Req) (path : Bytes) (ps : Params)
    (p' : Bytes) (ps' : Params) (h : m.run env tab req path ps = .reject p' ps') : p' = path :=
  run_reject_path env tab m req path ps p' ps' h

/-! ## Dispatch -/

/-- The first router (in the order of `g.routers`) whose matcher does not reject the request as originally
received serves it: if that matcher accepts with `(p, ps)`, the outcome is exactly that router's own outcome on
the request with path `p` and the captured parameters `ps`. No side condition on the rejecting matchers is
needed (`C13_reject_path`). -/
theorem C13_first (env : Env) (tab : Nat → Option Hosts) (rt : RTab) (g : Group) (req : Req)
    (pre post : List (Nat × Matcher)) (rid : Nat) (m : Matcher) (p : Bytes) (ps : Params) (r : Router)
    (hg : g.routers = pre ++ (rid, m) :: post)
    (hpre : ∀ e ∈ pre, Rejects env tab req e)
    (hm : m.run env tab req req.path [] = .accept p ps)
    (hr : rt.get? rid = some r) :
    g.serve env tab rt req = r.serveContext env { req with path := p } ps := by
  unfold Group.serve
  rw [hg, go_append_reject env tab rt g req pre _ req.path hpre,
    go_cons_accept env tab rt g req rid m post req.path p ps hm, hr]

/-- General version threading the residual path: the loop over any suffix of the router list, started on ANY
current path, skips rejecting entries and hands the SAME path (and empty parameters) to the entries after them. -/
theorem C13_first_general (env : Env) (tab : Nat → Option Hosts) (rt : RTab) (g : Group) (req : Req)
    (pre rest : List (Nat × Matcher)) (path : Bytes)
    (hpre : ∀ e ∈ pre, ∃ p ps, e.2.run env tab req path [] = .reject p ps) :
    Group.serve.go env tab rt g req (pre ++ rest) path = Group.serve.go env tab rt g req rest path :=
  go_append_reject env tab rt g req pre rest path hpre

/-- What happens at the first non-rejecting entry when it does not accept / its router is gone: a fault or an
unsupported input of the matcher ends the dispatch (outside every recover); a missing table entry is fault 320. -/
theorem C13_first_stop (env : Env) (tab : Nat → Option Hosts) (rt : RTab) (g : Group) (req : Req)
    (pre post : List (Nat × Matcher)) (rid : Nat) (m : Matcher)
    (hg : g.routers = pre ++ (rid, m) :: post) (hpre : ∀ e ∈ pre, Rejects env tab req e) :
    (∀ s, m.run env tab req req.path [] = .fault s → g.serve env tab rt req = .fault s false) ∧
    (m.run env tab req req.path [] = .unsupported → g.serve env tab rt req = .unsupported) ∧
    (∀ p ps, m.run env tab req req.path [] = .accept p ps → rt.get? rid = none →
      g.serve env tab rt req = .fault 320 false) := by
  unfold Group.serve
  rw [hg, go_append_reject env tab rt g req pre _ req.path hpre]
  refine ⟨fun s h => go_cons_fault env tab rt g req rid m post req.path s h,
    fun h => go_cons_unsupported env tab rt g req rid m post req.path h, fun p ps h hr => ?_⟩
  rw [go_cons_accept env tab rt g req rid m post req.path p ps h, hr]

/-- If every matcher rejects, the group's not-found handler is called: no node, no parameters, router name `""`,
the path as received, under the group's recover. -/
theorem C13_notfound (env : Env) (tab : Nat → Option Hosts) (rt : RTab) (g : Group) (req : Req)
    (hall : ∀ e ∈ g.routers, Rejects env tab req e) :
    ∃ c, g.serve env tab rt req = .call c ∧ c.handler = g.notFound ∧ c.params = [] ∧ c.routerName = [] ∧
      c.path = req.path ∧ c.recover = g.recover ∧ c.node = none ∧ c.ok = false ∧ c.respHeaders = [] ∧
      c.headWrap = false := by
  refine ⟨{ handler := g.notFound, node := none, ok := false, params := [], routerName := [], respHeaders := [],
            headWrap := false, path := req.path, recover := g.recover, recActs := g.recActs }, ?_, rfl, rfl, rfl, rfl, rfl, rfl, rfl, rfl, rfl⟩
  unfold Group.serve
  have := go_append_reject env tab rt g req g.routers [] req.path hall
  rw [List.append_nil] at this
  rw [this, go_nil]; rfl

/-- `Group.Use(m…)` wraps the group's not-found handler in the new middlewares (applied with empty method,
pattern and router name), outermost last, and remembers them for routers added later; nothing else changes.
Together with `C13_notfound`: the handler called when no router accepts carries exactly the `Use` middlewares. -/
theorem C13_use_notfound (g : Group) (rt : RTab) (m : List Nat) :
    (g.use rt m).1.notFound.wraps = g.notFound.wraps ++ m.map (fun x => ⟨x, [], [], []⟩) ∧
    (g.use rt m).1.notFound.base = g.notFound.base ∧
    (g.use rt m).1.ms = g.ms ++ m ∧
    (g.use rt m).1.routers = g.routers ∧ (g.use rt m).1.recover = g.recover :=
  ⟨rfl, rfl, rfl, rfl, rfl⟩

/-- Over every history of `Add`/`Use`/`Remove` starting from a new group, the not-found handler is the group's
own one wrapped in exactly the middlewares given to `Use` so far (in order). -/
def UseInv (g : Group) : Prop :=
  g.notFound = { base := .groupNotFound, wraps := g.ms.map (fun x => ⟨x, [], [], []⟩) }

theorem C13_use_history (g : Group) (rt : RTab) :
    UseInv {} ∧
    (UseInv g → ∀ m, UseInv (g.use rt m).1) ∧
    (UseInv g → ∀ m rid g' rt', g.add rt m rid = some (g', rt') → UseInv g') ∧
    (UseInv g → ∀ name, UseInv (g.remove rt name)) := by
  refine ⟨rfl, ?_, ?_, fun h _ => h⟩
  · intro h m
    unfold UseInv at *
    simp only [Group.use, wrapWith, h, List.map_append]
  · intro h m rid g' rt' ha
    obtain ⟨r, _, _, hg', _⟩ := Group.add_some_inv g rt m rid g' rt' ha
    rw [hg']; exact h

/-! ## Names -/

/-- `Group.add`: error (`none`) when the router is not in the table or its name is already used in the group —
the group is then unchanged since nothing is returned; otherwise exactly `(rid, m)` is appended and the router
receives the group's middlewares. -/
theorem C13_names_add (g : Group) (rt : RTab) (m : Matcher) (rid : Nat) :
    (rt.get? rid = none → g.add rt m rid = none) ∧
    (∀ r, rt.get? rid = some r → r.tree.name ∈ g.names rt → g.add rt m rid = none) ∧
    (∀ r, rt.get? rid = some r → r.tree.name ∉ g.names rt →
      g.add rt m rid = some ({ g with routers := g.routers ++ [(rid, m)] }, rt.set rid (r.use g.ms))) :=
  ⟨Group.add_eq_none_of_missing g rt m rid, fun r => Group.add_eq_none_of_dup g rt m rid r,
   fun r => Group.add_eq_some g rt m rid r⟩

/-- Names stay unique: if the names of `g` (w.r.t. the table) are pairwise distinct and `add` succeeds, the
names of the new group w.r.t. the new table are the old ones plus the new router's name, and still pairwise
distinct.  No hypothesis on the ids is needed (`RTab.set` replaces every entry with that id and `Router.use`
keeps the name). -/
theorem C13_names_nodup (g : Group) (rt : RTab) (m : Matcher) (rid : Nat) (g' : Group) (rt' : RTab)
    (hnd : (g.names rt).Nodup) (h : g.add rt m rid = some (g', rt')) :
    (∃ r, rt.get? rid = some r ∧ g'.names rt' = g.names rt ++ [r.tree.name]) ∧ (g'.names rt').Nodup := by
  obtain ⟨r, hr, hd, hg', hrt'⟩ := Group.add_some_inv g rt m rid g' rt' h
  have hn : g'.names rt' = g.names rt ++ [r.tree.name] := by
    rw [hg', hrt']; exact Group.names_add g rt m rid r hr
  refine ⟨⟨r, hr, hn⟩, ?_⟩
  rw [hn, List.nodup_append]
  refine ⟨hnd, by simp, ?_⟩
  intro a ha b hb
  simp only [List.mem_singleton] at hb
  subst hb
  intro hab; subst hab; exact hd ha

/-- `Group.use` keeps the names (and so their uniqueness). -/
theorem C13_names_use (g : Group) (rt : RTab) (m : List Nat) :
    (g.use rt m).1.names (g.use rt m).2 = g.names rt :=
  Group.names_use g rt m

/-- `Group.remove name` deletes exactly the entries whose router (looked up in the table) has that name, keeping
the others in order; in terms of names: exactly `name` disappears. -/
theorem C13_names_remove (g : Group) (rt : RTab) (name : Bytes) :
    (g.remove rt name).routers = g.routers.filter (fun e => decide (rt.nameOf e.1 ≠ some name)) ∧
    (g.remove rt name).names rt = (g.names rt).filter (· ≠ name) ∧
    name ∉ (g.remove rt name).names rt ∧
    ((g.names rt).Nodup → ((g.remove rt name).names rt).Nodup) := by
  refine ⟨Group.remove_routers g rt name, Group.names_remove g rt name, ?_, ?_⟩
  · rw [Group.names_remove]; simp
  · intro h; rw [Group.names_remove]; exact h.filter _

/-! ## Non-vacuity -/

def exEnv : Env := ⟨fun _ _ => true⟩
def exRouter (name : Bytes) : Router := { tree := Tree.new name [] { base := .notFound } none }
def exRt : RTab := [(0, exRouter [97]), (1, exRouter [98])]
/-- `And(PathVersion("/v1/"), HeaderVersion(…))` then `PathVersion("/v1/")`: the scenario of the property text. -/
def exAnd : Matcher := .and [.pathVersion [] [[47, 118, 49, 47]], .headerVersion [] [118] [[50]]]
def exGroup : Group := { routers := [(0, exAnd), (1, .pathVersion [] [[47, 118, 49, 47]])] }
def exReq : Req := { method := [71], path := [47, 118, 49, 47, 120] }

example : exAnd.hostsFree = true ∧ (Matcher.or [.and [.hosts 0], .any]).guarded = true ∧
    (Matcher.or [.and [.hosts 0], .any]).hostsFree = false := by decide

-- the first member strips "/v1", the second rejects, the And restores the path:
example : exAnd.run exEnv (fun _ => none) exReq exReq.path [] = .reject [47, 118, 49, 47, 120] [] := by rfl
-- … so the second router still sees "/v1/x" and accepts; hypotheses of `C13_first` are satisfiable:
example : exGroup.routers = [(0, exAnd)] ++ (1, .pathVersion [] [[47, 118, 49, 47]]) :: [] ∧
    (∀ e ∈ [(0, exAnd)], Rejects exEnv (fun _ => none) exReq e) ∧
    (Matcher.pathVersion [] [[47, 118, 49, 47]]).run exEnv (fun _ => none) exReq exReq.path [] = .accept [47, 120] [] ∧
    exRt.get? 1 = some (exRouter [98]) := by
  refine ⟨rfl, ?_, rfl, rfl⟩
  intro e he; simp only [List.mem_singleton] at he; subst he
  exact ⟨_, _, rfl⟩
-- hypotheses of `C13_notfound`
example : ∀ e ∈ exGroup.routers, Rejects exEnv (fun _ => none) { exReq with path := [47, 120] } e := by
  intro e he
  simp only [exGroup, List.mem_cons, List.not_mem_nil, or_false] at he
  rcases he with he | he <;> subst he <;> exact ⟨_, _, rfl⟩
-- hypotheses of `C13_names_nodup`
example : (({} : Group).names exRt).Nodup ∧ (({} : Group).add exRt .any 0).isSome = true := by
  refine ⟨List.nodup_nil, ?_⟩
  rw [(C13_names_add {} exRt .any 0).2.2 (exRouter [97]) rfl (by simp [Group.names])]; rfl

end Mux.C13
