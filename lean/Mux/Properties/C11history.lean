/-
  C11 (whole histories, observation point) — "CORS never grants more than was configured" as ONE statement about
  `Router.serveHTTP` on a router made by `Router.new cfg` with a sanitized CORS configuration, after an ARBITRARY
  history of `Handle/Remove/Clean/Use`, for every request:

    * `NeverMore`            the clauses of C11 as a predicate on one header map;
    * `C11_history`          the map handed to the handler satisfies it, and so do the header map AFTER `ServeHTTP`
                             and the headers as sent (snapshot), whichever way the call ended;
    * `C11_history_no_call`  a request that never reaches a handler (a modelled runtime fault) is answered, if at all,
                             with an empty header map;
    * `C11_not_ok_final`     404 / 405: no CORS header at all on the FINAL record (clause d at the observation point);
    * `C11_not_ok_builtin`   the same for mux's own 404/405 handlers, without any hypothesis on scripts, with the status;
    * `C11_default`          a router without `WithCORS` has the sanitized "no origins" configuration.

  The only things the theorems assume besides the property's quantifier: user code — the scripts of USER handlers and
  of the recovery function — does not itself set/add/delete `Access-Control-Allow-Origin` / `-Credentials`
  (`P24.Quiet`).  That cannot be dropped: a handler that writes `Access-Control-Allow-Origin: *` itself is not a grant
  of the router (counterexample `C11_quiet_needed`).  Helper lemmas: `Mux/Proofs/CorsFinal.lean` (namespace `Mux.P24`).
  ASCII caveat of `C11_allowed_iff` (Go's `EqualFold`/`TrimSpace` on non-ASCII input) applies unchanged.
-/
import Mux.Proofs.CorsFinal
import Mux.Proofs.GetNodeFuel
import Mux.Properties.C11
import Mux.Properties.C16stable
namespace Mux.C11
open Mux Mux.P24

variable {origins allowHeaders exposed : List Bytes} {maxAge : Int} {cred : Bool} {c : Cors}

/-- The clauses of C11 for ONE header map `h` of the answer to `req`, where `ok`/`node` say whether the request was
routed (`ok = false`: 404/405) and to which node:
(a) `Access-Control-Allow-Origin` is absent, or `*` (only if `*` was configured), or the request's own `Origin` (only
    if exactly that origin is listed and `*` is not);
(b) `Access-Control-Allow-Credentials: true` only together with such an echoed, listed origin;
(c–f) if `Access-Control-Allow-Origin` is present at all, then the request was routed (not a 404/405), origins were
    configured, and — if the request is a preflight — the requested method is one the matched node serves and every
    requested header is allowed. -/
def NeverMore (origins : List Bytes) (c : Cors) (req : Req) (ok : Bool) (node : Option Node) (h : Hdr) : Prop :=
  (h.values hACAO = [] ∨ (h.values hACAO = [[42]] ∧ [42] ∈ origins) ∨
    (h.values hACAO = [req.headers.get hOrigin] ∧ req.headers.get hOrigin ∈ origins ∧ [42] ∉ origins)) ∧
  (h.get hACAC = bytesOfString "true" →
    h.values hACAO = [req.headers.get hOrigin] ∧ req.headers.get hOrigin ∈ origins ∧ [42] ∉ origins) ∧
  (h.has hACAO = true →
    ok = true ∧ origins ≠ [] ∧ ∃ n, node = some n ∧
      (Cors.isPreflight req.method req.path req.headers →
        req.headers.get hACRM ∈ n.methods ∧ c.headerIsAllowed req.headers = true))

/-- `NeverMore` only looks at the two grant headers. -/
theorem NeverMore.congr {req : Req} {ok : Bool} {node : Option Node} {h h' : Hdr}
    (hv : h'.values hACAO = h.values hACAO) (hc : h'.values hACAC = h.values hACAC) (hh : h'.has hACAO = h.has hACAO)
    (hn : NeverMore origins c req ok node h) : NeverMore origins c req ok node h' := by
  have hg : h'.get hACAC = h.get hACAC := by rw [Hdr.get_eq_headD, Hdr.get_eq_headD, hc]
  unfold NeverMore at *
  rw [hv, hg, hh]
  exact hn

/-- `serveHTTP` names a call exactly when `serveContext` produced it. -/
theorem serveHTTP_call {env : Env} {pc : PanicCfg} {scripts : Scripts} {r : Router} {req : Req} {ps : Params}
    {call : Call} {out : Outcome} (h : r.serveHTTP env pc scripts req ps = (some call, out)) :
    r.serveContext env req ps = .call call ∧ (ServeRes.call call).finish pc scripts = (some call, out) := by
  unfold Router.serveHTTP at h
  cases hsc : r.serveContext env req ps with
  | fault s rc => rw [hsc] at h; simp [ServeRes.finish] at h
  | unsupported => rw [hsc] at h; simp [ServeRes.finish] at h
  | call c' =>
    rw [hsc] at h
    have : c' = call := by simp [ServeRes.finish] at h; exact h.1
    subst this
    exact ⟨rfl, h⟩

/-- The map handed to the handler, one router state. -/
theorem neverMore_call (hs : Cors.sanitize origins allowHeaders exposed maxAge cred = some c)
    {env : Env} {r : Router} {req : Req} {ps : Params} {call : Call} (hc : r.cors = c)
    (h : r.serveContext env req ps = .call call) :
    NeverMore origins c req call.ok call.node call.respHeaders := by
  obtain ⟨h1, h2⟩ := C11_router hs hc h
  refine ⟨h1, h2, fun hhas => ?_⟩
  cases hok : call.ok with
  | false => rw [C11_not_ok h hok] at hhas; cases hhas
  | true =>
    obtain ⟨n, hn⟩ := Router.serveContext_ok_node h hok
    rw [Router.serveContext_ok h hok hn, hc] at hhas
    obtain ⟨a, b, _⟩ := (C11_acao_iff hs n.methods n.allow req.method req.path req.headers).mp hhas
    exact ⟨rfl, a, n, hn, b⟩

/-- **C11 over every history, at the observation point.**  Let `c` be any sanitized CORS configuration, `r0` the
router `NewRouter` makes with it (all other options arbitrary) and `ops` ANY history of `Handle/Remove/Clean/Use`.
For every request that reaches a handler (`serveHTTP` names the call):
the header map the router hands to the handler satisfies all clauses of C11 (`NeverMore`); and if the user handler's
script (when the selected handler is a user handler) and the recovery function do not themselves name the two grant
headers, then so do the header map after `ServeHTTP` and the headers as sent — whether the handler returned normally
or panicked and the recovery function answered; they have the very same grant headers as the map handed over. -/
theorem C11_history (hs : Cors.sanitize origins allowHeaders exposed maxAge cred = some c)
    {cfg : RouterCfg} {r0 : Router} (hcfg : cfg.cors = c) (hnew : Router.new cfg = some r0) (ops : List ROp)
    {env : Env} {pc : PanicCfg} {scripts : Scripts} {req : Req} {ps : Params} {call : Call} {out : Outcome}
    (h : (r0.run ops).serveHTTP env pc scripts req ps = (some call, out)) :
    NeverMore origins c req call.ok call.node call.respHeaders ∧
    ((∀ id, call.handler.base = .user id → Quiet [hACAO, hACAC] (scripts.get id)) →
      Quiet [hACAO, hACAC] cfg.recActs →
      ∀ rec, outRec out = some rec →
        NeverMore origins c req call.ok call.node rec.hdr ∧
        (∀ s, rec.snap = some s → NeverMore origins c req call.ok call.node s) ∧
        rec.hdr.values hACAO = call.respHeaders.values hACAO ∧ rec.hdr.values hACAC = call.respHeaders.values hACAC) := by
  obtain ⟨hsc, hfin⟩ := serveHTTP_call h
  have hc : (r0.run ops).cors = c := by rw [(C16.C16_options_stable cfg r0 ops hnew).2.1, hcfg]
  have hcall := neverMore_call hs hc hsc
  refine ⟨hcall, fun hu hr rec ho => ?_⟩
  have hra : call.recActs = cfg.recActs := by
    rw [(P18.serveContext_call_recActs env _ req ps call hsc).1, C16.C16_recActs_stable cfg r0 ops hnew]
  have hO := keeps_finish pc scripts call out rec hACAO (by decide) (by decide) (by decide)
    (fun id hb => (hu id hb).mono (by simp)) (by rw [hra]; exact hr.mono (by simp)) hfin ho
  have hC := keeps_finish pc scripts call out rec hACAC (by decide) (by decide) (by decide)
    (fun id hb => (hu id hb).mono (by simp)) (by rw [hra]; exact hr.mono (by simp)) hfin ho
  exact ⟨hcall.congr hO.values hC.values hO.has,
    fun s hsnap => hcall.congr (hO.snap s hsnap).1 (hC.snap s hsnap).1 (hO.snap s hsnap).2, hO.values, hC.values⟩

/-- A request that reaches no handler (a modelled runtime fault inside the dispatch, or an input outside the model's
domain): if it is answered at all — by the recovery function — the header map is empty. -/
theorem C11_history_no_call {env : Env} {pc : PanicCfg} {scripts : Scripts} {r : Router} {req : Req} {ps : Params}
    {out : Outcome} (h : r.serveHTTP env pc scripts req ps = (none, out)) :
    ∀ rec, outRec out = some rec → rec.hdr = [] ∧ rec.snap = some [] := by
  unfold Router.serveHTTP at h
  cases hsc : r.serveContext env req ps with
  | fault s rc =>
    rw [hsc] at h
    simp only [ServeRes.finish, Prod.mk.injEq, true_and] at h
    subst h
    cases rc
    · intro rec ho; cases ho
    · intro rec ho; cases ho; exact ⟨rfl, rfl⟩
  | unsupported =>
    rw [hsc] at h
    simp only [ServeRes.finish, Prod.mk.injEq, true_and] at h
    subst h
    intro rec ho; cases ho
  | call c' => rw [hsc] at h; simp [ServeRes.finish] at h

/-- A router built without `WithCORS` carries the sanitized "no origins" configuration: `C11_history` applies to
it with `origins = []`, so it never sends `Access-Control-Allow-Origin`. -/
theorem C11_default : Cors.sanitize [] [] [] 0 false = some {} := by decide +kernel

/-! ## 404 / 405 at the observation point -/

/-- The response headers CORS ever writes. -/
def corsNames : List Bytes := [hACAO, hACAC, hACAM, hACAH, hACEH, hACMA, hVary]

/-- **404 / 405: no CORS header on the final record.**  Any router state, any request that is not routed
(`call.ok = false`: no handler for the path, or none for the method): after `ServeHTTP` — the not-found / not-allowed
handler returned, or it panicked and the recovery function answered — none of the seven CORS response headers is in
the header map, nor in the headers as sent.  User code must not add them itself: the not-found handler's script, if it
is a USER handler (a custom `notFound` argument), and the recovery function's script name none of them. -/
theorem C11_not_ok_final {env : Env} {pc : PanicCfg} {scripts : Scripts} {r : Router} {req : Req} {ps : Params}
    {call : Call} {out : Outcome} {rec : Rec}
    (h : r.serveHTTP env pc scripts req ps = (some call, out)) (hok : call.ok = false)
    (hu : ∀ id, call.handler.base = .user id → Quiet corsNames (scripts.get id))
    (hr : Quiet corsNames r.recActs) (ho : outRec out = some rec) :
    ∀ k ∈ corsNames, rec.hdr.has k = false ∧ rec.hdr.values k = [] ∧
      ∀ s, rec.snap = some s → s.has k = false ∧ s.values k = [] := by
  obtain ⟨hsc, hfin⟩ := serveHTTP_call h
  have hra : call.recActs = r.recActs := (P18.serveContext_call_recActs env _ req ps call hsc).1
  have he : call.respHeaders = [] := C11_not_ok hsc hok
  intro k hk
  have hne : k ≠ hAllow ∧ k ≠ hXTrace ∧ k ≠ hContentLength := by
    simp only [corsNames, List.mem_cons, List.not_mem_nil, or_false] at hk
    rcases hk with rfl | rfl | rfl | rfl | rfl | rfl | rfl <;> decide
  have hK := keeps_finish pc scripts call out rec k hne.1 hne.2.1 hne.2.2
    (fun id hb => (hu id hb).mono (by simpa using hk)) (by rw [hra]; exact hr.mono (by simpa using hk)) hfin ho
  rw [he] at hK
  exact ⟨hK.has, hK.values, fun s hsnap => ⟨(hK.snap s hsnap).2, (hK.snap s hsnap).1⟩⟩

/-- mux's own 404/405 handlers (whatever middlewares wrap them), handler returned: no hypothesis on any script; the
status is 404 resp. 405 and the header map holds at most `Allow`. -/
theorem C11_not_ok_builtin {env : Env} {pc : PanicCfg} {scripts : Scripts} {r : Router} {req : Req} {ps : Params}
    {call : Call} {rec : Rec}
    (h : r.serveHTTP env pc scripts req ps = (some call, .normal rec)) (hok : call.ok = false)
    (hb : call.handler.base = .notFound ∨ call.handler.base = .notAllowed ∨ call.handler.base = .groupNotFound) :
    (∀ k ∈ corsNames, rec.hdr.has k = false ∧ ∀ s, rec.snap = some s → s.has k = false) ∧
    rec.code = some (if call.handler.base = .notAllowed then 405 else 404) ∧
    (∀ k, k ≠ hAllow → rec.hdr.has k = false) := by
  obtain ⟨hsc, hfin⟩ := serveHTTP_call h
  have he : call.respHeaders = [] := C11_not_ok hsc hok
  have hhw : call.headWrap = false := by
    cases hw : call.headWrap with
    | false => rfl
    | true => rw [((P18.serveContext_headWrap env r req ps call hsc).mp hw).1] at hok; cases hok
  simp only [ServeRes.finish, Prod.mk.injEq, true_and] at hfin
  unfold withRecover at hfin
  split at hfin
  · rename_i r' hrun
    cases hfin
    rw [runCall_eq] at hrun
    split at hrun
    · cases hrun
    · split at hrun
      · cases hrun
      · split at hrun
        · cases hrun
        · rename_i acts hscr
          cases hrun
          rw [hhw, Call.rec0, he]
          rcases hb with hb | hb | hb <;> rw [Handler.script, hb] at hscr <;> cases hscr <;>
            simp only [Bool.false_eq_true, if_false, runGet, hb, reduceCtorEq]
          · refine ⟨fun k _ => ⟨rfl, fun s hs => by cases hs; rfl⟩, rfl, fun k _ => rfl⟩
          · refine ⟨fun k hk => ?_, rfl, fun k hk => ?_⟩
            · have hne : hAllow ≠ k := by
                simp only [corsNames, List.mem_cons, List.not_mem_nil, or_false] at hk
                rcases hk with rfl | rfl | rfl | rfl | rfl | rfl | rfl <;> decide
              have : (Hdr.set [] hAllow call.allow).has k = false := by simp [Hdr.set, Hdr.has, hne]
              exact ⟨this, fun s hs => by cases hs; exact this⟩
            · have hne : hAllow ≠ k := fun e => hk e.symm
              simp [Rec.writeHeader, informational, Hdr.set, Hdr.has, hne]
          · refine ⟨fun k _ => ⟨rfl, fun s hs => by cases hs; rfl⟩, rfl, fun k _ => rfl⟩
  · split at hfin <;> cases hfin

/-! ## Non-vacuity

`NewRouter("r", WithCORS(origin a.example, credentials, …), WithRecovery(f))`, then `Handle("/a", h1, GET)` and `Use(3)`. -/

def hCfg : RouterCfg := { name := [114], cors := CorsEx.cfg, recover := true }
def hR0 : Router := (Router.new hCfg).getD default
def hOps : List ROp := [.handle CorsEx.path 1 [] [mGET], .use [3]]
def hReq (path : Bytes) (hdr : Hdr) : Req := { method := mGET, path := path, headers := hdr }
/-- what the examples look at: was the request routed, the grant header handed over, the grant header and the
status of the outcome's record -/
structure View where
  ok : Bool
  handed : List Bytes
  final : Option (List Bytes)
  code : Option Nat
  deriving DecidableEq
def hView (x : Option Call × Outcome) : Option View :=
  x.1.map (fun c => ⟨c.ok, c.respHeaders.values hACAO, (outRec x.2).map (·.hdr.values hACAO),
    (outRec x.2).bind (·.code)⟩)

/-- hypotheses of `C11_history`: a sanitized configuration, a router made with it, quiet scripts -/
example : Cors.sanitize [CorsEx.origin] [hContentType, CorsEx.xId] [CorsEx.xId] 3600 true = some hCfg.cors ∧
    Router.new hCfg = some hR0 ∧ Quiet [hACAO, hACAC] (Scripts.get [(1, [.setHeader hContentType [97], .write 3])] 1) ∧
    Quiet [hACAO, hACAC] hCfg.recActs ∧ Quiet corsNames hR0.recActs := by
  refine ⟨by decide +kernel, rfl, by decide +kernel, by decide +kernel, by decide +kernel⟩

/-- … and the premise: a GET from the listed origin on the live route is routed, the grant is handed to the handler
and is still there after the handler wrote its response (status 200) -/
example : hView ((hR0.run hOps).serveHTTP CorsEx.env {} [(1, [.setHeader hContentType [97], .write 3])]
      (hReq CorsEx.path CorsEx.simple) []) =
    some ⟨true, [CorsEx.origin], some [CorsEx.origin], some 200⟩ := by
  mux_eval [hR0, hOps]

/-- the same when the handler panics and the recovery function answers (status 500) -/
example : hView ((hR0.run hOps).serveHTTP CorsEx.env { handlers := [(1, 9)] } []
      (hReq CorsEx.path CorsEx.simple) []) =
    some ⟨true, [CorsEx.origin], some [CorsEx.origin], some 500⟩ := by
  mux_eval [hR0, hOps]

/-- premise of `C11_not_ok_final` / `C11_not_ok_builtin`: a 404 on that router, answered by mux's own handler -/
example : hView ((hR0.run hOps).serveHTTP CorsEx.env {} [] (hReq (bytesOfString "/nope") CorsEx.simple) []) =
    some ⟨false, [], some [], some 404⟩ := by
  mux_eval [hR0, hOps]

/-- **The `Quiet` hypothesis cannot be dropped**: a user handler that itself writes `Access-Control-Allow-Origin: *`
makes the final map carry `*` for a foreign origin although `*` was never configured — that header is the
application's, not a grant of the router (the map handed to the handler has none). -/
theorem C11_quiet_needed :
    hView ((hR0.run hOps).serveHTTP CorsEx.env {} [(1, [.setHeader hACAO [42]])] (hReq CorsEx.path CorsEx.simpleEvil) []) =
      some ⟨true, [], some [[42]], none⟩ ∧ [42] ∉ [CorsEx.origin] ∧
    ¬ Quiet [hACAO, hACAC] (Scripts.get [(1, [.setHeader hACAO [42]])] 1) := by
  refine ⟨by mux_eval [hR0, hOps], by decide +kernel, by decide +kernel⟩

end Mux.C11
