/-
  C09 — Middlewares wrap every handler in the documented onion order.

  `Handler.wraps` lists the middleware applications of a handler innermost first; every element records the
  arguments `(method, pattern, router)` its factory was called with.  `mkWraps ms k p name` is the list obtained by
  applying `ms` in order with the arguments `(k, p, name)`; an equation `h.wraps = mkWraps (own ++ useMs) k p name`
  therefore states order (the `Use` middlewares are the outermost ones, the most recent outermost), arguments, and
  "exactly once" (list equality) at the same time.

  Helper lemmas: Mux/Proofs/WOk*.lean (pattern-aware tree invariant, `getNode_target_pattern`), Mux/Proofs/Onion.lean.
-/
import Mux.Proofs.Onion
import Mux.Proofs.OnionOwn
import Mux.Proofs.OnionGroup
import Mux.Proofs.GetNodeFuel
import Mux.Proofs.Facade
import Mux.Properties.C13
namespace Mux.C09
open Mux Mux.P10

/-! ## The `Use` list of a history -/

/-- `useMs`: the concatenation of all `Use` arguments of the history, in order. -/
theorem C09_useMs (r : Router) (ops : List ROp) : (r.run ops).ms = r.ms ++ (ops.filterMap useArg).flatten :=
  run_ms r ops

theorem C09_useMs_new {cfg : RouterCfg} {r0 : Router} (hnew : Router.new cfg = some r0) (ops : List ROp) :
    (r0.run ops).ms = (ops.filterMap useArg).flatten := by
  rw [run_ms]
  unfold Router.new at hnew
  split at hnew
  · simp at hnew
  · simp only [Option.some.injEq] at hnew; subst hnew; rfl

/-! ## The invariant -/

/-- `WrapInv` holds for a new router and is kept by every operation, hence by every history. -/
theorem C09_wrap_new {cfg : RouterCfg} {r : Router} (h : Router.new cfg = some r) : WrapInv r := wrap_new h
theorem C09_wrap_step {r : Router} (hw : WrapInv r) (op : ROp) : WrapInv (r.step op) := wrap_step hw op
theorem C09_wrap_run {cfg : RouterCfg} {r0 : Router} (hnew : Router.new cfg = some r0) (ops : List ROp) :
    WrapInv (r0.run ops) := wrap_run (wrap_new hnew) ops

/-- `getNode_target_pattern`: on a tree with consistent stored patterns the node `Tree.add` registers on is
the node whose stored pattern (the one a later `Use` wraps with) is the registered pattern. -/
theorem C09_target_pattern (ic : Interceptors) {root root' : Node} {p v : Bytes} {rest : List Bytes}
    {path : List Nat} (hroot : Node.PatternOk root) (hp0 : root.pattern = [])
    (hs : splitString p = v :: rest) (h : getNode ic root v rest = .ok (root', path)) :
    Node.PatternOk root' ∧ ∃ m, root'.getAt path = some m ∧ m.pattern = p :=
  ⟨(getNode_target_pattern ic hroot h).1, getNode_target_registered ic hroot hp0 hs h⟩

/-- The invariant spelled out for a reachable router (`useMs` = all `Use` arguments so far, in order):
every handler the router stores — not only those some request reaches — has the documented stack. -/
theorem C09_stored {cfg : RouterCfg} {r0 : Router} (hnew : Router.new cfg = some r0) (ops : List ROp) :
    let r := r0.run ops
    let useMs := (ops.filterMap useArg).flatten
    -- 404
    r.tree.notFound.wraps = mkWraps useMs [] [] cfg.name ∧
    -- TRACE
    (∀ h, r.tree.trace = some h → h.wraps = mkWraps useMs mTRACE [] cfg.name) ∧
    -- the root node (`OPTIONS *` and its 405): pattern `""`
    (∀ e ∈ r.tree.root.handlers, e.2.wraps = mkWraps useMs e.1 [] cfg.name) ∧
    -- every entry `(key, h)` of every node below the root
    (∀ n ∈ nodesL r.tree.root.children, ∀ e ∈ n.handlers,
      ∃ own : List Nat, e.2.wraps = mkWraps (own ++ useMs) e.1 n.pattern cfg.name) ∧
    -- stored patterns are the concatenation of the segment texts
    Node.PatternOk r.tree.root := by
  intro r useMs
  have hw : WrapInv r := wrap_run (wrap_new hnew) ops
  have hms : r.ms = useMs := C09_useMs_new hnew ops
  have hname : r.tree.name = cfg.name := (run_cfg hnew ops).1
  unfold WrapInv at hw
  rw [hms] at hw
  refine ⟨hname ▸ hw.nf, hname ▸ hw.tr, hname ▸ hw.rootHs, ?_, hw.patternOk⟩
  intro n hn e he
  rw [← hname]
  exact ((All_iff_nodes _).2 _).1 (ListW_all hw.below) n hn e he

/-! ## The property -/

/-- `C09_order`: for every history from `NewRouter` and every request, the handler handed to `CallFunc` has
(see `OnionSpec`, with `callKey` = the request method, or `""` for a 405):
* 404: `mkWraps useMs "" "" name`;
* the TRACE short-circuit: `mkWraps useMs TRACE "" name`;
* `OPTIONS *` / the root's 405: `mkWraps useMs key "" name`;
* a route method, the automatic HEAD or OPTIONS, or the 405 of a matched node `n`:
  `∃ own, mkWraps (own ++ useMs) key n.pattern name`,
where `useMs` is the concatenation of the `Use` arguments of the history in order.  Since `wraps` is innermost
first, the `Use` middlewares are the outermost ones and the most recently added is the outermost, whether `Use`
came before or after the registration. -/
theorem C09_order {cfg : RouterCfg} {r0 : Router} (hnew : Router.new cfg = some r0) (ops : List ROp)
    (env : Env) (req : Req) (ps : Params) {c : Call}
    (hc : (r0.run ops).serveContext env req ps = .call c) :
    OnionSpec (ops.filterMap useArg).flatten cfg.name (r0.run ops).tree.root cfg.trace req c := by
  have hw : WrapInv (r0.run ops) := wrap_run (wrap_new hnew) ops
  have hinv : TreeInv (r0.run ops).tree := (Router.Reach.tree ⟨cfg, r0, ops, hnew, rfl⟩).inv
  have := serve_onion hw hinv env req ps hc
  rwa [C09_useMs_new hnew ops, (run_cfg hnew ops).1, (run_cfg hnew ops).2.1] at this

/-- Every element of the stack of a called handler carries that handler's key, the matched node's pattern
(`""` when there is none / for the root) and the router's name. -/
theorem C09_args {cfg : RouterCfg} {r0 : Router} (hnew : Router.new cfg = some r0) (ops : List ROp)
    (env : Env) (req : Req) (ps : Params) {c : Call}
    (hc : (r0.run ops).serveContext env req ps = .call c) :
    ∀ w ∈ c.handler.wraps, w.router = cfg.name ∧
      w.pattern = (match c.node with
        | some n => n.pattern
        | none => []) ∧
      (w.method = callKey req c ∨ (c.node = none ∧ w.method = []) ∨ (req.method = mTRACE ∧ w.method = mTRACE)) := by
  intro w hwm
  have hroot : (r0.run ops).tree.root.pattern = [] := (wrap_run (wrap_new hnew) ops).rootPat
  rcases C09_order hnew ops env req ps hc with ⟨h1, _, h3⟩ | ⟨_, h2, h3, _, h5⟩ | ⟨h1, _, _, h4⟩ | ⟨n, _, h1, _, own, h4⟩
  · rw [h3] at hwm
    obtain ⟨a, b, c', _⟩ := mem_mkWraps hwm
    exact ⟨c', by rw [h1]; exact b, .inr (.inl ⟨h1, a⟩)⟩
  · rw [h5] at hwm
    obtain ⟨a, b, c', _⟩ := mem_mkWraps hwm
    exact ⟨c', by rw [h3]; simp only [hroot]; exact b, .inr (.inr ⟨h2, a⟩)⟩
  · rw [h4] at hwm
    obtain ⟨a, b, c', _⟩ := mem_mkWraps hwm
    exact ⟨c', by rw [h1]; simp only [hroot]; exact b, .inl a⟩
  · rw [h4] at hwm
    obtain ⟨a, b, c', _⟩ := mem_mkWraps hwm
    exact ⟨c', by rw [h1]; exact b, .inl a⟩

/-! ## Who contributes the inner part `own` -/

/-- A handler freshly wrapped at registration: exactly the call's middleware list, innermost first. -/
theorem C09_wrapWith (b : Base) (k p name : Bytes) (ms : List Nat) :
    wrapWith { base := b } k p name ms = { base := b, wraps := mkWraps ms k p name } := rfl

/-- `C09_own`: after a successful `r.Handle(p, h, m, methods...)` the node of `p` (the node at `path`, whose stored
pattern is `p`) has, with `n0` = that node before the call (a node of the old tree with pattern `p`, or a fresh
node without handlers), see `AddedSpec`:
* for every `k` of `methods` (of `AnyMethods` when none is given) the entry `h` with stack `mkWraps (m ++ r.ms) k p name`:
  `own = m`;
* when GET is among them, HEAD with `mkWraps (m ++ r.ms) HEAD p name`: the same `own` as GET;
* OPTIONS and the 405 entry `""`: unchanged when `n0` had them, otherwise created with
  `mkWraps (m ++ r.ms) OPTIONS/"" p name` — they carry the `own` of the call that made the pattern live;
* every other entry unchanged. -/
theorem C09_own {r r' : Router} {p : Bytes} {h : Nat} {m : List Nat} {methods : List Bytes}
    (hw : WrapInv r) (he : r.handle p h m methods = .ok r') :
    ∃ (path : List Nat) (n0 n' : Node), path ≠ [] ∧ r'.tree.root.getAt path = some n' ∧ n'.pattern = p ∧
      (n0.handlers = [] ∨ ∃ y ∈ nodesL r.tree.root.children, y.pattern = p ∧ y.handlers = n0.handlers) ∧
      AddedSpec r.tree { base := .user h } p (m ++ r.ms) (effMethods methods) n0.handlers n'.handlers :=
  handle_own hw he

/-- The same, spelled out with `mkWraps` for the route methods and HEAD. -/
theorem C09_own_route {r r' : Router} {p : Bytes} {h : Nat} {m : List Nat} {methods : List Bytes}
    (hw : WrapInv r) (he : r.handle p h m methods = .ok r') :
    ∃ (path : List Nat) (n' : Node), r'.tree.root.getAt path = some n' ∧ n'.pattern = p ∧
      (∀ k ∈ effMethods methods,
        n'.handlers.get? k = some { base := .user h, wraps := mkWraps (m ++ r.ms) k p r.tree.name }) ∧
      (mGET ∈ effMethods methods →
        n'.handlers.get? mHEAD = some { base := .user h, wraps := mkWraps (m ++ r.ms) mHEAD p r.tree.name }) := by
  obtain ⟨path, _, n', _, h1, h2, _, hs⟩ := handle_own hw he
  exact ⟨path, n', h1, h2, hs.route, hs.head⟩

/-- Through a façade (`Prefix`, nested `Prefix`, `Resource`): `own = m ++ p.ms`, i.e. the route's middlewares, then
the prefix middlewares from the innermost prefix outwards (`Facade.sub` prepends the inner list), then `Use`. -/
theorem C09_own_facade {f : Facade} {r r' : Router} {pat : Bytes} {h : Nat} {m : List Nat} {methods : List Bytes}
    (hw : WrapInv r) (he : f.handle r pat h m methods = .ok r') :
    ∃ (path : List Nat) (n' : Node), r'.tree.root.getAt path = some n' ∧ n'.pattern = f.pattern ++ pat ∧
      (∀ k ∈ effMethods methods, n'.handlers.get? k =
        some { base := .user h, wraps := mkWraps ((m ++ f.ms) ++ r.ms) k (f.pattern ++ pat) r.tree.name }) ∧
      (mGET ∈ effMethods methods → n'.handlers.get? mHEAD =
        some { base := .user h, wraps := mkWraps ((m ++ f.ms) ++ r.ms) mHEAD (f.pattern ++ pat) r.tree.name }) :=
  C09_own_route hw he

/-! ## Groups -/

/-- `Group.Use(m...)`: the group's own not-found handler gets `m` on the outside (method, pattern and router name
`""`), `m` is remembered, and every member router receives `Router.Use(m...)` — provided the member ids are pairwise
distinct, which `Group.Add` guarantees (`ids_step`).  Routers outside the group are untouched. -/
theorem C09_group_use (g : Group) (rt : RTab) (m : List Nat) (hnd : (Group.ids g).Nodup) :
    (g.use rt m).1.notFound.wraps = g.notFound.wraps ++ mkWraps m [] [] [] ∧
    (g.use rt m).1.ms = g.ms ++ m ∧
    (∀ rid, (g.use rt m).2.get? rid =
      if rid ∈ Group.ids g then (rt.get? rid).map (·.use m) else rt.get? rid) :=
  ⟨(C13.C13_use_notfound g rt m).1, (C13.C13_use_notfound g rt m).2.2.1,
    fun rid => useFold_get m g.routers hnd rt rid⟩

/-- `Group.Add`: the added router receives `Router.Use(g.ms...)` — all `Group.Use` middlewares so far, outside
everything it already has; nothing else changes. -/
theorem C09_group_add (g : Group) (rt : RTab) (mt : Matcher) (rid : Nat) (g' : Group) (rt' : RTab)
    (h : g.add rt mt rid = some (g', rt')) :
    ∃ r, rt.get? rid = some r ∧ rt'.get? rid = some (r.use g.ms) ∧ (r.use g.ms).ms = r.ms ++ g.ms ∧
      (∀ id, id ≠ rid → rt'.get? id = rt.get? id) ∧ g'.ms = g.ms ∧ g'.notFound = g.notFound := by
  obtain ⟨r, hr, _, rfl, rfl⟩ := Group.add_some_inv g rt mt rid g' rt' h
  refine ⟨r, hr, by rw [RTab.get?_set]; simp, rfl, ?_, rfl, rfl⟩
  intro id hid
  rw [RTab.get?_set]; simp [hid]

/-- `C09_group`: over any history of `Group.Add/Use/Remove` and calls on the routers themselves, starting from a
group whose member ids are distinct (e.g. the empty group), every router of the table is its initial state run on
the plain history `effOps` — its own operations interleaved, in call order, with `Use (g.ms)` at the moment it is
added and `Use m` for every `Group.Use m` while it is a member.  Hence `C09_order`/`C09_stored` apply to it with
`useMs` = that interleaving. -/
theorem C09_group (s : GState) (hnd : (Group.ids s.1).Nodup) (prog : List GOp) (rid : Nat) :
    (grun s prog).2.get? rid = (s.2.get? rid).map (·.run (effOps s rid prog)) :=
  grun_get prog s hnd rid

/-- … combined with `C09_order` for a router made by `NewRouter` before it was put into the table. -/
theorem C09_group_order {cfg : RouterCfg} {r0 : Router} (hnew : Router.new cfg = some r0) (s : GState)
    (hnd : (Group.ids s.1).Nodup) (prog : List GOp) (rid : Nat) (hr : s.2.get? rid = some r0)
    (env : Env) (req : Req) (ps : Params) {c : Call} :
    ∃ r, (grun s prog).2.get? rid = some r ∧
      (r.serveContext env req ps = .call c →
        OnionSpec ((effOps s rid prog).filterMap useArg).flatten cfg.name r.tree.root cfg.trace req c) := by
  refine ⟨r0.run (effOps s rid prog), by rw [C09_group s hnd prog rid, hr]; rfl, fun hc => ?_⟩
  exact C09_order hnew _ env req ps hc

/-- The group's own not-found handler (called when no router accepts, `C13_notfound`) carries exactly the
`Group.Use` middlewares, in order, each created with method, pattern and router name `""`. -/
theorem C09_group_notfound (prog : List GOp) (rt : RTab) :
    (grun ({}, rt) prog).1.notFound =
      { base := .groupNotFound, wraps := mkWraps (grun ({}, rt) prog).1.ms [] [] [] } :=
  grun_useInv prog ({}, rt) rfl

/-! ## Non-vacuity

A real history (evaluated through the fuel version of `getNode`, `getNode_eq_F`): `Use(1)`; `GET /a` with `[2]`;
`Use(3)`; `Any /a/{id}` with `[4, 5]` registered through the nested façade `/a` `[11]` → `/{id}` … ; `Use(6)`.
So `Use` is called before, between and after the registrations. -/

def exCfg : RouterCfg := { name := [114], trace := true }   -- "r"
def exR0 : Router := (Router.new exCfg).getD default
def exOps : List ROp :=
  [.use [1], .handle (bytesOfString "/a") 7 [2] [mGET], .use [3],
   .handle (bytesOfString "/a/{id}") 8 ([4, 5] ++ ([12] ++ [11])) [], .use [6]]
def exEnv : Env := ⟨fun _ _ => true⟩

/-- `some wraps` of the handler called for a request, `none` if no handler is called. -/
def wrapsOf (r : Router) (req : Req) : Option (List Wrap) :=
  match r.serveContext exEnv req [] with
  | .call c => some c.handler.wraps
  | _ => none

theorem wrapsOf_some {r : Router} {req : Req} {ws : List Wrap} (h : wrapsOf r req = some ws) :
    ∃ c, r.serveContext exEnv req [] = .call c ∧ c.handler.wraps = ws := by
  unfold wrapsOf at h
  split at h
  · rename_i c hc; exact ⟨c, hc, by simpa using h⟩
  · cases h

-- the hypotheses of `C09_order` / `C09_stored` / `C09_args`
theorem exNew : Router.new exCfg = some exR0 := rfl
example : ((exOps.filterMap useArg).flatten) = [1, 3, 6] := by decide
-- a route method registered through a nested prefix: own = route ++ inner prefix ++ outer prefix, then all `Use`s
example : wrapsOf (exR0.run exOps) { method := mPOST, path := bytesOfString "/a/5" } =
    some (mkWraps ([4, 5, 12, 11] ++ [1, 3, 6]) mPOST (bytesOfString "/a/{id}") (bytesOfString "r")) := by
  mux_eval [exOps]
-- GET registered after `Use(1)` and before `Use(3)`, `Use(6)`: the `Use` part is the same `[1, 3, 6]`
example : wrapsOf (exR0.run exOps) { method := mGET, path := bytesOfString "/a" } =
    some (mkWraps ([2] ++ [1, 3, 6]) mGET (bytesOfString "/a") (bytesOfString "r")) := by
  mux_eval [exOps]
-- the automatic HEAD has GET's `own`, with method HEAD
example : wrapsOf (exR0.run exOps) { method := mHEAD, path := bytesOfString "/a" } =
    some (mkWraps ([2] ++ [1, 3, 6]) mHEAD (bytesOfString "/a") (bytesOfString "r")) := by
  mux_eval [exOps]
-- automatic OPTIONS and the 405 (`POST /a`) carry the `own` of the call that made `/a` live, method OPTIONS / ""
example : wrapsOf (exR0.run exOps) { method := mOPTIONS, path := bytesOfString "/a" } =
    some (mkWraps ([2] ++ [1, 3, 6]) mOPTIONS (bytesOfString "/a") (bytesOfString "r")) := by
  mux_eval [exOps]
example : wrapsOf (exR0.run exOps) { method := mPOST, path := bytesOfString "/a" } =
    some (mkWraps ([2] ++ [1, 3, 6]) [] (bytesOfString "/a") (bytesOfString "r")) := by
  mux_eval [exOps]
-- 404, `OPTIONS *`, TRACE: only the `Use` middlewares, pattern ""
example : wrapsOf (exR0.run exOps) { method := mGET, path := bytesOfString "/zzz" } =
    some (mkWraps [1, 3, 6] [] [] (bytesOfString "r")) := by
  mux_eval [exOps]
example : wrapsOf (exR0.run exOps) { method := mOPTIONS, path := [42] } =
    some (mkWraps [1, 3, 6] mOPTIONS [] (bytesOfString "r")) := by
  mux_eval [exOps]
example : wrapsOf (exR0.run exOps) { method := mTRACE, path := bytesOfString "/a/5" } =
    some (mkWraps [1, 3, 6] mTRACE [] (bytesOfString "r")) := by
  mux_eval [exOps]

/-- The hypothesis of `C09_order` is satisfiable on this history (matched-node case). -/
example : ∃ c, (exR0.run exOps).serveContext exEnv { method := mPOST, path := bytesOfString "/a/5" } [] = .call c := by
  have h : wrapsOf (exR0.run exOps) { method := mPOST, path := bytesOfString "/a/5" } =
      some (mkWraps ([4, 5, 12, 11] ++ [1, 3, 6]) mPOST (bytesOfString "/a/{id}") (bytesOfString "r")) := by
    mux_eval [exOps]
  obtain ⟨c, hc, _⟩ := wrapsOf_some h
  exact ⟨c, hc⟩

/-- Hypotheses of `C09_own` / `C09_own_facade`: `WrapInv` of a reachable router and a successful `Handle` through a
nested façade. -/
example : WrapInv (exR0.run [.use [1]]) ∧
    (match ((Facade.ofRouter (bytesOfString "/a") [11]).sub (bytesOfString "/b") [12]).handle
        (exR0.run [.use [1]]) (bytesOfString "/{id}") 8 [4, 5] [] with
      | .ok _ => true
      | .error _ => false) = true := by
  refine ⟨C09_wrap_run exNew _, ?_⟩
  mux_eval [Facade.handle]

/-- Hypotheses of `C09_group` / `C09_group_order`: a group history over a table with one fresh router; seen from the
router, `Group.Use(9)` before it was added arrives at `Add` (after its own `Use(1)`), `Group.Use(8)` afterwards. -/
def exProg : List GOp :=
  [.use [9], .router 0 (.use [1]), .add .any 0, .use [8], .router 0 (.handle (bytesOfString "/a") 7 [2] [mGET])]

example : (Group.ids ({} : Group)).Nodup ∧ RTab.get? [(0, exR0)] 0 = some exR0 := ⟨List.nodup_nil, rfl⟩
example : (effOps ({}, [(0, exR0)]) 0 exProg).map ropCode =
    [ROp.use [1], .use [9], .use [8], .handle (bytesOfString "/a") 7 [2] [mGET]].map ropCode := by decide +kernel
example : ((effOps ({}, [(0, exR0)]) 0 exProg).filterMap useArg).flatten = [1, 9, 8] := by decide +kernel

end Mux.C09
