/-
  C05 (groups, whole histories) — `GroupOk`, the hypothesis of `C05_group` ("`Group.ServeHTTP` never faults"), holds
  in EVERY state reached by a group history: `Group.Add`, `Group.Use`, `Group.Remove` and `Handle/Remove/Clean/Use`
  on member (or not yet added) routers through their own handles, in any order, starting from a group without
  members over a table of routers that were each made by `NewRouter` and a history.  So the group-level no-fault
  theorem needs no hypothesis about the state.  Helper: `Mux/Proofs/GroupHistory.lean` (namespace `Mux.P25`).
-/
import Mux.Proofs.GroupHistory
import Mux.Properties.C05match
import Mux.Properties.C05router
import Mux.Properties.C16
namespace Mux.C05
open Mux Mux.P10 Mux.P12

/-- Every router of the table was made by `NewRouter` and a history of `Handle/Remove/Clean/Use`. -/
def TabReach (rt : RTab) : Prop := ∀ e ∈ rt, e.2.Reach

/-- **C05_group_history**: `GroupOk` for every state of a group history.  Hypotheses: the group starts without
members (`NewGroup`; its middleware list, not-found handler and options are arbitrary); the routers in the table were
made by `NewRouter` and histories (`TabReach`); the `Hosts` matchers named in the matchers passed to `Group.Add` exist
in the `Hosts` table and were made by `NewHosts` and histories (`hm` — the natural well-formedness of the arguments of
`Add`; `C05_matchers_dangling` shows it is needed).  Nothing is assumed about intermediate states: in particular that
every member's router is in the table is DERIVED (`Group.Add` refuses an unknown router). -/
theorem C05_group_history (tab : Nat → Option Hosts) (g0 : Group) (hg0 : g0.routers = []) (rt0 : RTab)
    (h0 : TabReach rt0) (prog : List GOp)
    (hm : ∀ mt rid, GOp.add mt rid ∈ prog → AllHosts (HostsReachAt tab) mt) :
    GroupOk tab (grun (g0, rt0) prog).2 (grun (g0, rt0) prog).1 := by
  have hinv : P25.GInv (AllHosts (HostsReachAt tab)) Router.Reach (grun (g0, rt0) prog) :=
    P25.GInv.run P25.reach_step prog (P25.GInv.init g0 hg0 rt0 h0) hm
  intro e he
  obtain ⟨h1, r, hr⟩ := hinv.members e he
  exact ⟨h1, r, hr, hinv.table _ r hr⟩

/-- The statement of the audit (the group is `{}`). -/
theorem C05_group_history_new (tab : Nat → Option Hosts) (rt0 : RTab) (h0 : TabReach rt0) (prog : List GOp)
    (hm : ∀ mt rid, GOp.add mt rid ∈ prog → AllHosts (HostsReachAt tab) mt) :
    GroupOk tab (grun (({} : Group), rt0) prog).2 (grun (({} : Group), rt0) prog).1 :=
  C05_group_history tab {} rfl rt0 h0 prog hm

/-- **C05_group_history_serve** (clause "the same for `Group.ServeHTTP`", over whole histories): in every state of a
group history `Group.ServeHTTP` reaches no fault site — neither inside a matcher, nor the missing-router site 320, nor
inside the accepted router — for every request. -/
theorem C05_group_history_serve (env : Env) (tab : Nat → Option Hosts) (g0 : Group) (hg0 : g0.routers = [])
    (rt0 : RTab) (h0 : TabReach rt0) (prog : List GOp)
    (hm : ∀ mt rid, GOp.add mt rid ∈ prog → AllHosts (HostsReachAt tab) mt) (req : Req) (s : Nat) (rc : Bool) :
    Group.serve env tab (grun (g0, rt0) prog).2 (grun (g0, rt0) prog).1 req ≠ .fault s rc :=
  C05_group env tab _ _ (C05_group_history tab g0 hg0 rt0 h0 prog hm) req s rc


/-! ## `Group.ServeHTTP` with quiet user code -/

/-- The router was made by `NewRouter` with a real (callable) not-found handler, and a history. -/
def RouterMade (r : Router) : Prop :=
  ∃ cfg r0 ops, Router.new cfg = some r0 ∧ Callable cfg.notFoundBase ∧ r = r0.run ops

theorem RouterMade.reach {r : Router} (h : RouterMade r) : r.Reach := by
  obtain ⟨cfg, r0, ops, hnew, _, rfl⟩ := h
  exact ⟨cfg, r0, ops, hnew, rfl⟩

theorem RouterMade.step (r : Router) (op : ROp) (h : RouterMade r) : RouterMade (r.step op) := by
  obtain ⟨cfg, r0, ops, hnew, hnf, rfl⟩ := h
  exact ⟨cfg, r0, ops ++ [op], hnew, hnf, by simp [Router.run, List.foldl_append]⟩

/-- The handler such a router hands to `CallFunc` is callable, for every request. -/
theorem RouterMade.callable {r : Router} (h : RouterMade r) (env : Env) (req : Req) (ps : Params) (c : Call)
    (hc : r.serveContext env req ps = .call c) : Callable c.handler.base := by
  obtain ⟨cfg, r0, ops, hnew, hnf, rfl⟩ := h
  rcases C05_serveHTTP_quiet cfg r0 hnew hnf ops env [] req ps with ⟨c', _, _, h2, h3⟩ | ⟨_, h2⟩
  · rw [h2] at hc; cases hc; exact h3
  · rw [h2] at hc; cases hc

/-- **C05_group_serveHTTP_quiet** (clause "`Group.ServeHTTP` does not panic when the user's handlers do not", complete
`ServeHTTP`, whole group histories).  The group was made without members and with a callable not-found handler
(`NewGroup` always has one); every router of the table was made by `NewRouter` with a callable not-found handler and
a history; the `Hosts` matchers named in `Add`ed matchers exist and were made by `NewHosts` and histories.  Then in
EVERY state of EVERY group history, for EVERY request, with no panicking user code: `Group.ServeHTTP` selects a
callable handler (the group's not-found handler or one of the accepted router) and returns normally, or the request
lies outside the modelled domain (`.unsupported`: non-ASCII Host for a `Hosts` matcher, or a wide regexp class on a
non-ASCII path).  Never a fault, never a nil call. -/
theorem C05_group_serveHTTP_quiet (env : Env) (tab : Nat → Option Hosts) (scripts : Scripts) (g0 : Group)
    (hg0 : g0.routers = []) (hnf : Callable g0.notFound.base) (rt0 : RTab) (h0 : ∀ e ∈ rt0, RouterMade e.2)
    (prog : List GOp) (hm : ∀ mt rid, GOp.add mt rid ∈ prog → AllHosts (HostsReachAt tab) mt) (req : Req) :
    let s := grun (g0, rt0) prog
    (∃ c rec, s.1.serveHTTP env tab {} scripts s.2 req = (some c, .normal rec) ∧
        s.1.serve env tab s.2 req = .call c ∧ Callable c.handler.base) ∨
    s.1.serveHTTP env tab {} scripts s.2 req = (none, .unsupported) := by
  intro s
  have hinv : P25.GInv (fun _ => True) RouterMade s :=
    P25.GInv.run RouterMade.step prog (P25.GInv.init g0 hg0 rt0 h0) (fun _ _ _ => trivial)
  have hnofault := C05_group_history_serve env tab g0 hg0 rt0 (fun e he => (h0 e he).reach) prog hm req
  unfold Group.serveHTTP
  cases hs : s.1.serve env tab s.2 req with
  | fault k rc => exact absurd hs (hnofault k rc)
  | unsupported => exact .inr rfl
  | call c =>
    left
    have hb : Callable c.handler.base := by
      rcases C16.C16_group env tab s.2 s.1 req c hs with ⟨h1, _⟩ | ⟨pre, rid, m, post, p0, p, ps, r, _, _, _, hr, hc, _⟩
      · rw [h1, P25.grun_notFound_base prog (g0, rt0)]; exact hnf
      · exact (hinv.table rid r hr).callable env _ ps c hc
    obtain ⟨rec, hrec⟩ := runCall_quiet scripts c hb
    exact ⟨c, rec, by simp only [ServeRes.finish, hrec, withRecover], rfl, hb⟩

/-! ## Non-vacuity -/

/-- Two routers in the table; the group adds both (the second under the example matcher over a reachable `Hosts`),
uses a middleware, registers a route on a member through its own handle, removes one. -/
def exRt : RTab := [(7, exRouter), (8, { tree := Tree.new [115] [] { base := .notFound } none })]
def exGProg : List GOp :=
  [.add .any 7, .add exMatcher 8, .use [1], .router 7 (.handle [47, 97] 1 [] [mGET]), .remove [115]]

example : TabReach exRt := by
  intro e he
  simp only [exRt, List.mem_cons, List.not_mem_nil, or_false] at he
  rcases he with rfl | rfl
  · exact ⟨{ name := [114] }, _, [], rfl, rfl⟩
  · exact ⟨{ name := [115] }, _, [], rfl, rfl⟩
example : ∀ mt rid, GOp.add mt rid ∈ exGProg → AllHosts (HostsReachAt exTabR) mt := by
  intro mt rid h
  simp only [exGProg, List.mem_cons, List.not_mem_nil, or_false, GOp.add.injEq, reduceCtorEq, or_false] at h
  rcases h with ⟨rfl, _⟩ | ⟨rfl, _⟩
  · simp [AllHosts]
  · simp only [exMatcher, AllHosts, AllHostsL, and_true]
    exact ⟨_, rfl, _, rfl⟩
example : ∀ e ∈ exRt, RouterMade e.2 := by
  intro e he
  simp only [exRt, List.mem_cons, List.not_mem_nil, or_false] at he
  rcases he with rfl | rfl
  · exact ⟨{ name := [114] }, _, [], rfl, ⟨by decide, by decide⟩, rfl⟩
  · exact ⟨{ name := [115] }, _, [], rfl, ⟨by decide, by decide⟩, rfl⟩
example : Callable ({} : Group).notFound.base := ⟨by decide, by decide⟩
-- the history really builds a group with members: after the first three operations both routers are members
example : (grun (({} : Group), exRt) (exGProg.take 3)).1.routers.map (·.1) = [7, 8] := by decide +kernel

end Mux.C05
