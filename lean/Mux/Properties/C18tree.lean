/-
  C18 (tree part) — TRACE follows the `WithTrace` option: listed in every Allow set, never
  registrable by hand, answered before matching; without the option it is an ordinary method.
  (The `Trace` helper / escaping clauses of C18 live in `Mux/Properties/C18.lean`.)
-/
import Mux.Proofs.TreeHead
namespace Mux.C18
open Mux

/-- `C18_allow` (invariant form): with a TRACE handler configured, TRACE is in `Methods()` of every
node below the root that has handlers, and in the root's (`OPTIONS *`). -/
theorem C18_allow_inv {t : Tree} (hinv : TreeInv2 t) (htr : t.hasTrace = true) :
    (∀ n ∈ nodesL t.root.children, n.handlers ≠ [] → mTRACE ∈ n.methods) ∧ mTRACE ∈ t.root.methods := by
  refine ⟨?_, (root_methods hinv mTRACE).2 (.inr (.inl ⟨htr, rfl⟩))⟩
  intro n hn hne
  have hg : Good t.hasTrace n := ((All_iff_nodes _).2 _).1 hinv.below n hn
  exact ((good_methods hg hne).2 mTRACE).2 (.inr ⟨htr, rfl⟩)

/-- `C18_allow`: for every tree a history produces.  (`AllowHeader()` is the `", "`-join of
`Methods()` by definition, and by `C04_views_agree` the OPTIONS and 405 answers use that node.) -/
theorem C18_allow {t : Tree} (hr : t.Reach) (htr : t.hasTrace = true) :
    (∀ n ∈ nodesL t.root.children, n.handlers ≠ [] → mTRACE ∈ n.methods) ∧ mTRACE ∈ t.root.methods :=
  C18_allow_inv hr.inv2 htr

/-- Without the option TRACE is listed exactly where it was registered by hand. -/
theorem C18_allow_without {t : Tree} (hr : t.Reach) (htr : t.hasTrace = false) :
    (∀ n ∈ nodesL t.root.children, n.handlers ≠ [] → (mTRACE ∈ n.methods ↔ mTRACE ∈ n.handlers.keys)) ∧
    (mTRACE ∈ t.root.methods ↔ mTRACE ∈ liveMethods t.counts) := by
  obtain ⟨c1, c2, c3, c4, c5, c6, c7, c8, c9, c10⟩ := method_consts_ne
  constructor
  · intro n hn hne
    have hg : Good t.hasTrace n := ((All_iff_nodes _).2 _).1 hr.inv.below n hn
    rw [(good_methods hg hne).2 mTRACE]
    simp [htr, c10]
  · rw [root_methods hr.inv2 mTRACE]
    have h9 : ¬ mTRACE = mOPTIONS := fun h => c9 h.symm
    simp [htr, h9]

/-- `C18_reserved`: with a TRACE handler configured, a method list containing TRACE — at any
position — is never accepted. -/
theorem C18_reserved (t : Tree) (htr : t.hasTrace = true) (p : Bytes) (h : Handler) (ms : List Nat)
    (methods : List Bytes) (hm : mTRACE ∈ methods) :
    (∀ t', t.add p h ms methods ≠ .ok t') ∧ t.step (.add p h ms methods) = t := by
  have h1 := add_bad_not_ok t p h ms methods ⟨mTRACE, hm, .inr (.inr (.inl ⟨htr, rfl⟩))⟩
  refine ⟨h1, ?_⟩
  simp only [Tree.step]
  split
  · rename_i t' he; exact absurd he (h1 t')
  · rfl

/-- …and once the pattern is acceptable the error is `reserved` when TRACE is the first refused
entry (here: the only method). -/
theorem C18_reserved_error (t : Tree) (htr : t.hasTrace = true) (p : Bytes) (h : Handler) (ms : List Nat)
    {a : Option Bool} (hamb : t.root.checkAmb t.ic p false = .ok a) (ha : a ≠ some true)
    {segs : List Seg} (hsp : split t.ic p = .ok segs) :
    t.add p h ms [mTRACE] = .error .reserved := by
  unfold Tree.add
  simp only [bind, Except.bind, pure, Except.pure, hamb]
  have hc : t.checkMethods p [mTRACE] [] = .error .reserved := by
    rw [checkMethods_cons]; simp [htr]
  cases a with
  | none => simp [hsp, hc]
  | some b =>
    cases b with
    | true => exact absurd rfl ha
    | false => simp [hsp, hc]

/-- The TRACE short-circuit of `Tree.Handler`: answered by the configured handler on the root node
for every path, before any matching. -/
theorem C18_trace_shortcut (env : Env) (t : Tree) (path : Bytes) (ps : Params) (h : Handler)
    (htr : t.trace = some h) :
    t.handler env path ps mTRACE = .res { node := some t.root, handler := h, ok := true, params := ps } :=
  handler_traceV env t path ps h htr

/-! ## Non-vacuity -/

example : TreeInv2 exTreeT ∧ exTreeT.hasTrace = true ∧ exLeafT ∈ nodesL exTreeT.root.children ∧
    exLeafT.handlers ≠ [] := ⟨exTreeT_inv2, rfl, exLeafT_mem, by simp [exLeafT]⟩
example : mTRACE ∈ exLeafT.methods ∧ mTRACE ∈ exTreeT.root.methods :=
  ⟨(C18_allow_inv exTreeT_inv2 rfl).1 exLeafT exLeafT_mem (by simp [exLeafT]), (C18_allow_inv exTreeT_inv2 rfl).2⟩
example : exLeafT.allow = bytesOfString "GET, HEAD, OPTIONS, TRACE" ∧
    exTreeT.root.allow = bytesOfString "GET, OPTIONS, TRACE" := by decide +kernel
/-- a reachable tree with the option -/
example : ∃ t : Tree, t.Reach ∧ t.hasTrace = true :=
  ⟨(Tree.new [114] [] { base := .notFound } (some { base := .trace })).run
      [.add (bytesOfString "/a") { base := .user 1 } [] [mGET]],
    ⟨_, _, _, _, _, _, _, rfl⟩, (sameCfg_run _ _).1⟩
example : mTRACE ∈ [mGET, mTRACE] := by simp

end Mux.C18
