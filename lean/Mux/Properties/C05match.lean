/-
  C05 (matchers and groups) — no request makes `Hosts.Match`, the version matchers, any `And`/`Or`
  combination of them, or `Group.ServeHTTP` fault.  (Serve path of one router: `C05serve.lean`; parser and
  `Handle`: `C05.lean`.)  Helper lemmas: `Mux/Proofs/Hosts.lean` (namespace `Mux.P12`).
-/
import Mux.Proofs.HostsExamples
import Mux.Properties.C05serve
namespace Mux.C05
open Mux Mux.P12

/-! ## The single matchers -/

/-- `pathVersion.Match` never faults: the slice `ver[:len(ver)-1]` (site 300) is in range for every version
string, the empty one included (restated from C15). -/
theorem C05_matchers_pathVersion (param : Bytes) (vers : List Bytes) (p : Bytes) (ps : Params) (e : Err) :
    pathVersionMatch param vers p ps ≠ .error e :=
  pathVersionMatch_ne_error param vers p ps e

theorem C05_matchers_pathVersion_run (env : Env) (tab : Nat → Option Hosts) (param : Bytes) (vers : List Bytes)
    (req : Req) (path : Bytes) (ps : Params) :
    (∀ s, (Matcher.pathVersion param vers).run env tab req path ps ≠ .fault s) ∧
    (Matcher.pathVersion param vers).run env tab req path ps ≠ .unsupported :=
  run_pathVersion_total env tab param vers req path ps

/-- `headerVersion.Match` is total: it has no checked operation at all; as a matcher it accepts or rejects
and leaves the path alone — for every header list and every result of `mime.ParseMediaType`. -/
theorem C05_matchers_headerVersion (env : Env) (tab : Nat → Option Hosts) (param key : Bytes) (vers : List Bytes)
    (req : Req) (path : Bytes) (ps : Params) :
    (∃ ps', (Matcher.headerVersion param key vers).run env tab req path ps = .accept path ps') ∨
    (Matcher.headerVersion param key vers).run env tab req path ps = .reject path ps := by
  rw [run_headerVersion]
  cases headerVersionMatch param key vers req ps with
  | none => exact .inr rfl
  | some ps' => exact .inl ⟨ps', rfl⟩

/-- `Hosts.Match` never faults on a matcher made by `NewHosts` and any history of
`Add`/`Delete`/`RegisterInterceptor` — every Host string (non-ASCII ones leave the model: `.unsupported`). -/
theorem C05_matchers_hosts (env : Env) (hs : Hosts) (h : HostsReach hs) (host path : Bytes) (ps : Params) (s : Nat) :
    hs.match env host path ps ≠ .fault s :=
  C05_hosts_match h.inv env host path ps s

/-! ## Every matcher expression -/

/-- `Matcher.Match` never faults for any expression built from any/pathVersion/headerVersion/and/or and
`Hosts` matchers whose table entries exist and are reachable. -/
theorem C05_matchers (env : Env) (tab : Nat → Option Hosts) (m : Matcher) (hm : AllHosts (HostsReachAt tab) m)
    (req : Req) (path : Bytes) (ps : Params) (s : Nat) : m.run env tab req path ps ≠ .fault s :=
  run_no_fault env tab m (AllHosts.mono (fun _ h => h.inv) m hm) req path ps s

/-- The same from the invariant alone. -/
theorem C05_matchers_inv (env : Env) (tab : Nat → Option Hosts) (m : Matcher) (hm : AllHosts (HostsInvAt tab) m)
    (req : Req) (path : Bytes) (ps : Params) (s : Nat) : m.run env tab req path ps ≠ .fault s :=
  run_no_fault env tab m hm req path ps s

/-- The loops of `AndMatcher` and `OrMatcher`. -/
theorem C05_matchers_and_or (env : Env) (tab : Nat → Option Hosts) (ms : List Matcher)
    (hm : AllHostsL (HostsInvAt tab) ms) (req : Req) (path : Bytes) (ps : Params) (s : Nat) :
    runAnd env tab ms req path ps ≠ .fault s ∧ runOr env tab ms req path ps ≠ .fault s :=
  ⟨runAnd_no_fault env tab ms hm req path ps s, runOr_no_fault env tab ms hm req path ps s⟩

/-- The table hypothesis is needed: a dangling `Hosts` id is a (modelling) fault. -/
theorem C05_matchers_dangling (env : Env) (tab : Nat → Option Hosts) (id : Nat) (h : tab id = none)
    (req : Req) (path : Bytes) (ps : Params) : (Matcher.hosts id).run env tab req path ps = .fault 310 := by
  rw [Matcher.run, h]

/-! ## Groups -/

/-- Every member of the group has a fault-free matcher and its router is in the table and was made by
`NewRouter` and a history of `Handle/Remove/Clean/Use`. -/
def GroupOk (tab : Nat → Option Hosts) (rt : RTab) (g : Group) : Prop :=
  ∀ e ∈ g.routers, AllHosts (HostsReachAt tab) e.2 ∧ ∃ r, rt.get? e.1 = some r ∧ r.Reach

/-- `Group.ServeHTTP` never faults, for every request. -/
theorem C05_group (env : Env) (tab : Nat → Option Hosts) (rt : RTab) (g : Group) (hg : GroupOk tab rt g)
    (req : Req) (s : Nat) (rc : Bool) : Group.serve env tab rt g req ≠ .fault s rc := by
  unfold Group.serve
  apply go_no_fault
  intro e he
  obtain ⟨h1, r, h2, h3⟩ := hg e he
  exact ⟨AllHosts.mono (fun _ h => h.inv) e.2 h1, r, h2, fun req' ps s rc => C05_serve h3 env req' ps s rc⟩

/-- `GroupOk` survives `Group.Remove` (a sublist of the members). -/
theorem C05_group_remove (tab : Nat → Option Hosts) (rt : RTab) (g : Group) (hg : GroupOk tab rt g) (name : Bytes) :
    GroupOk tab rt (g.remove rt name) := by
  intro e he
  simp only [Group.remove, List.mem_filter] at he
  exact hg e he.1

/-! ## Non-vacuity -/

def exTab : Nat → Option Hosts := fun id => if id = 0 then some exHosts else none
def exTabR : Nat → Option Hosts := fun id => if id = 0 then some (hostsRun Hosts.empty [.add hApi, .add hSub]) else none

/-- `And(hosts, Or(pathVersion "/v1/", headerVersion))` -/
def exMatcher : Matcher := .and [.hosts 0, .or [.pathVersion [118] [[47,118,49,47]], .headerVersion [] [118] [[50]]]]

example : AllHosts (HostsInvAt exTab) exMatcher := by
  simp only [exMatcher, AllHosts, AllHostsL, and_true]
  exact ⟨exHosts, rfl, exHosts_inv⟩
example : AllHosts (HostsReachAt exTabR) exMatcher := by
  simp only [exMatcher, AllHosts, AllHostsL, and_true]
  exact ⟨_, rfl, _, rfl⟩

def exReq : Req := { method := mGET, path := [47,118,49,47,120], host := [65,80,73,46,69,120,97,109,112,108,101,46,99,111,109,58,56,48] }

/-- The example matcher accepts `GET /v1/x` for `API.Example.com:80`, rewriting the path to `/x` and recording
`v = /v1`; for `other.org` the `And` rejects and restores path and parameters. -/
example : outOf (exMatcher.run exEnv exTab exReq exReq.path []) = some (true, [47,120], [([118], [47,118,49])]) := by
  decide
example : outOf (exMatcher.run exEnv exTab { exReq with host := [111,116,104,101,114,46,111,114,103] } exReq.path []) =
    some (false, exReq.path, []) := by decide

def exRouter : Router := { tree := Tree.new [114] [] { base := .notFound } none }
example : exRouter.Reach := ⟨{ name := [114] }, _, [], rfl, rfl⟩
example : GroupOk exTabR [(7, exRouter)] { routers := [(7, exMatcher)] } := by
  intro e he
  simp only [List.mem_singleton] at he
  subst he
  refine ⟨?_, exRouter, rfl, ⟨{ name := [114] }, _, [], rfl, rfl⟩⟩
  simp only [exMatcher, AllHosts, AllHostsL, and_true]
  exact ⟨_, rfl, _, rfl⟩
/-- A member whose router is missing from the table is a fault (site 320): the hypothesis is needed. -/
example : ∃ s rc, Group.serve exEnv exTab [] { routers := [(7, .any)] } exReq = .fault s rc := ⟨320, false, rfl⟩

end Mux.C05
