/-
  C08 (tree part) — HEAD follows GET through every history, OPTIONS and the 405 entry exist on every
  node with handlers, OPTIONS cannot be removed while another method remains, reserved and unknown
  methods can never be registered by hand.
  (The `headResponse` recorder clauses of C08 live in `Mux/Properties/C08.lean`.)
-/
import Mux.Proofs.TreeHead
namespace Mux.C08
open Mux

/-- `C08_head_iff_get`: in every reachable tree every node (the root included) has a HEAD entry
exactly when it has a GET entry, and HEAD's stored handler has the same base as GET's (it was built
from the same handler value). -/
theorem C08_head_iff_get_inv {t : Tree} (hinv : TreeInv t) {n : Node} (hn : n ∈ t.root.nodes) :
    (mHEAD ∈ n.handlers.keys ↔ mGET ∈ n.handlers.keys) ∧
    (∀ hg hh, n.handlers.get? mGET = some hg → n.handlers.get? mHEAD = some hh → hh.base = hg.base) := by
  obtain ⟨c1, c2, c3, c4, c5, c6, c7, c8, c9, c10⟩ := method_consts_ne
  rw [Node.nodes_eq] at hn
  rcases List.mem_cons.1 hn with rfl | hn
  · have hk := hinv.rootKeys
    refine ⟨by rw [hk]; simp [c2, c3, c5, c6], ?_⟩
    intro hg hh h1 _
    have : (t.root.handlers.get? mGET).isSome := by rw [h1]; rfl
    rw [AMap.get?_isSome_iff, hk] at this
    simp [c2, c3] at this
  · have hg : Good t.hasTrace n := ((All_iff_nodes _).2 _).1 hinv.below n hn
    rcases hg.1.2 with h0 | h0
    · rw [h0]; simp [AMap.keys, AMap.get?]
    · exact ⟨h0.head_iff, h0.headBase⟩

theorem C08_head_iff_get {t : Tree} (hr : t.Reach) {n : Node} (hn : n ∈ t.root.nodes) :
    (mHEAD ∈ n.handlers.keys ↔ mGET ∈ n.handlers.keys) ∧
    (∀ hg hh, n.handlers.get? mGET = some hg → n.handlers.get? mHEAD = some hh → hh.base = hg.base) :=
  C08_head_iff_get_inv hr.inv hn

/-- HEAD is served exactly as long as GET is registered: what `Tree.Handler` finds for HEAD and for
GET on the same path is found or not found together. -/
theorem C08_head_served_iff_get {t : Tree} (hr : t.Reach) {n : Node} (hn : n ∈ t.root.nodes) :
    (n.handlers.get? mHEAD).isSome = (n.handlers.get? mGET).isSome := by
  have := (C08_head_iff_get hr hn).1
  rw [← AMap.get?_isSome_iff, ← AMap.get?_isSome_iff] at this
  exact Bool.eq_iff_iff.2 this

/-- `C08_options`: every node with handlers has the OPTIONS entry and the 405 entry. -/
theorem C08_options_inv {t : Tree} (hinv : TreeInv t) {n : Node} (hn : n ∈ t.root.nodes) (hne : n.handlers ≠ []) :
    mOPTIONS ∈ n.handlers.keys ∧ mNotAllowed ∈ n.handlers.keys :=
  (hinv.has_entries hn hne).symm

theorem C08_options {t : Tree} (hr : t.Reach) {n : Node} (hn : n ∈ t.root.nodes) (hne : n.handlers ≠ []) :
    mOPTIONS ∈ n.handlers.keys ∧ mNotAllowed ∈ n.handlers.keys :=
  C08_options_inv hr.inv hn hne

/-- …and removing OPTIONS (or HEAD, or `""`) by hand changes nothing on a node that still has
another method: `Remove(p, OPTIONS)` is ignored. -/
theorem C08_options_not_removable {t : Tree} (hr : t.Reach) {n : Node} (hn : n ∈ nodesL t.root.children)
    (hother : n.handlers.length ≠ 2) (methods : List Bytes) (hne : methods ≠ [])
    (hm : ∀ m ∈ methods, m = mOPTIONS ∨ m = mHEAD ∨ m = mNotAllowed) :
    removeMethods t.hasTrace methods n = n :=
  removeMethods_noop (((All_iff_nodes _).2 _).1 hr.inv.below n hn) methods hne hm hother

/-- The same with "another method remains" spelled out: the node has a key besides OPTIONS and `""`. -/
theorem C08_options_kept_while_other {t : Tree} (hr : t.Reach) {n : Node} (hn : n ∈ nodesL t.root.children)
    (hother : ∃ k ∈ n.handlers.keys, k ≠ mOPTIONS ∧ k ≠ mNotAllowed) :
    removeMethods t.hasTrace [mOPTIONS] n = n ∧ mOPTIONS ∈ (removeMethods t.hasTrace [mOPTIONS] n).handlers.keys := by
  have hg : Good t.hasTrace n := ((All_iff_nodes _).2 _).1 hr.inv.below n hn
  have hne : n.handlers ≠ [] := by
    obtain ⟨k, hk, _⟩ := hother
    intro h0; simp [h0, AMap.keys] at hk
  have hshape : KeyShape t.hasTrace n.handlers := by
    rcases hg.1.2 with h0 | h0
    · exact absurd h0 hne
    · exact h0
  have heq := removeMethods_noop hg [mOPTIONS] (by simp) (by simp) (length_ne_two_of_other hshape hother)
  exact ⟨heq, by rw [heq]; exact hshape.options⟩

/-- `C08_reserved`: a method list containing OPTIONS, HEAD, TRACE (when a TRACE handler is
configured) or a name outside `Methods` — at ANY position — is never accepted, on any tree. -/
theorem C08_reserved (t : Tree) (p : Bytes) (h : Handler) (ms : List Nat) (methods : List Bytes)
    (hbad : ∃ m ∈ methods, m = mOPTIONS ∨ m = mHEAD ∨ (t.hasTrace = true ∧ m = mTRACE) ∨ m ∉ methodsTable) :
    (∀ t', t.add p h ms methods ≠ .ok t') ∧ t.step (.add p h ms methods) = t := by
  have h1 := add_bad_not_ok t p h ms methods hbad
  refine ⟨h1, ?_⟩
  simp only [Tree.step]
  split
  · rename_i t' he; exact absurd he (h1 t')
  · rfl

/-- Once the pattern itself is acceptable the error is `reserved`, `unknownMethod` or `dupMethod`. -/
theorem C08_reserved_class (t : Tree) (p : Bytes) (h : Handler) (ms : List Nat) (methods : List Bytes)
    (hbad : ∃ m ∈ methods, m = mOPTIONS ∨ m = mHEAD ∨ (t.hasTrace = true ∧ m = mTRACE) ∨ m ∉ methodsTable)
    {a : Option Bool} (hamb : t.root.checkAmb t.ic p false = .ok a) (ha : a ≠ some true)
    {segs : List Seg} (hsp : split t.ic p = .ok segs) :
    ∃ e, t.add p h ms methods = .error e ∧ (e = .reserved ∨ e = .unknownMethod ∨ e = .dupMethod) :=
  add_bad_class t p h ms methods hbad hamb ha hsp

/-! ## Non-vacuity -/

example : TreeInv exTree ∧ exLeaf ∈ exTree.root.nodes ∧ exLeaf.handlers ≠ [] ∧ exLeaf.handlers.length ≠ 2 :=
  ⟨exTree_inv, exLeaf_mem_nodes, by simp [exLeaf], by simp [exLeaf]⟩
example : mOPTIONS ∈ exLeaf.handlers.keys ∧ mNotAllowed ∈ exLeaf.handlers.keys :=
  C08_options_inv exTree_inv exLeaf_mem_nodes (by simp [exLeaf])
example : (mHEAD ∈ exLeaf.handlers.keys ∧ mGET ∈ exLeaf.handlers.keys) := by decide +kernel
example : ∃ k ∈ exLeaf.handlers.keys, k ≠ mOPTIONS ∧ k ≠ mNotAllowed :=
  ⟨mGET, by decide +kernel, method_consts_ne.2.1, method_consts_ne.2.2.1⟩
example : removeMethods false [mOPTIONS] exLeaf = exLeaf :=
  removeMethods_noop exLeaf_good [mOPTIONS] (by simp) (by simp) (by simp [exLeaf])
/-- the hypothesis of `C08_reserved` at the last position of a list -/
example : ∃ m ∈ [mGET, mPOST, mHEAD], m = mOPTIONS ∨ m = mHEAD ∨ (exTree.hasTrace = true ∧ m = mTRACE) ∨
    m ∉ methodsTable := ⟨mHEAD, by simp, .inr (.inl rfl)⟩
example : ∃ m ∈ [mGET, bytesOfString "get"], m = mOPTIONS ∨ m = mHEAD ∨ (exTree.hasTrace = true ∧ m = mTRACE) ∨
    m ∉ methodsTable := ⟨bytesOfString "get", by simp, .inr (.inr (.inr (by decide +kernel)))⟩
/-- the pattern hypotheses of `C08_reserved_class` on the empty tree -/
example : ∃ a segs, (Tree.new [114] [] { base := .notFound } none).root.checkAmb [] (bytesOfString "/a") false = .ok a ∧
    a ≠ some true ∧ split [] (bytesOfString "/a") = .ok segs := by
  have h1 : (match (Tree.new [114] [] { base := .notFound } none).root.checkAmb [] (bytesOfString "/a") false with
      | .ok none => true | _ => false) = true := by decide +kernel
  have h2 : (match split [] (bytesOfString "/a") with | .ok _ => true | _ => false) = true := by decide +kernel
  split at h1
  · rename_i e1
    split at h2
    · rename_i segs e2
      exact ⟨none, segs, e1, by simp, e2⟩
    · simp at h2
  · simp at h1

end Mux.C08
