/-
  C01 through a Group — dispatch soundness of `Group.serve`.

  A group hands the request to the first router whose matcher accepts (`C13_first`), on the path `p` the matcher
  left and with the parameters `ps` the matcher captured.  This file generalises `C01_dispatch_sound` /
  `C01_dispatch_404` / `C01_found_from` to ARBITRARY incoming parameters `ps` and lifts them to `Group.serve`.

  The merge law of the parameters after the D30 repair (`setAll ps caps` is `ps` overridden / extended by `caps` in
  order with the model's `AMap.set`): for ANY incoming parameters `ps` with one entry per key (`ps.keys.Nodup`, what
  every context built by `Set` satisfies),

    * a found route reports EXACTLY `setAll ps (captures chain)`: a route capture wins over an equal-named matcher
      parameter, every other matcher parameter survives with its value (and its place);
    * the router's 404 reports EXACTLY `ps`

  (`C01_found_exact`, `C01_404_exact`, `C01_dispatch_exact`, `C01_group_dispatch_exact`).  The side condition cannot be
  dropped (`C01_exact_needs_nodup`) but always holds for what a group matcher hands over (`C01_group_params_nodup`,
  hence `C01_group_dispatch_exact_all` without any hypothesis on `ps`).  No disjointness between the
  matcher's parameter names and the names of the router's tree is needed any more.  Before the repair the undo of an
  abandoned branch was `ctx.Delete(name)`, which erased a matcher parameter of the same name (the former theorems
  `C01_group_collision` / `C01_collision_tree` proved that about the old model); `C01_group_collision_repaired` is the
  same table evaluated on the repaired model.

  The older, weaker lookup forms (`NodeSound`, `NotFoundSound`: "… or is gone", exact only under disjointness) are kept:
  they remain true and need no hypothesis on `ps` at all.

  Helper lemmas: `Mux/Proofs/GroupLift{Morph,Params,Serve,Reach}.lean` (namespace `Mux.P18`),
  `Mux/Proofs/Restore{,Match,Group,Matcher}.lean` (namespace `Mux.P19`).
-/
import Mux.Proofs.GroupLiftServe
import Mux.Proofs.GroupLiftReach
import Mux.Proofs.RestoreGroup
import Mux.Proofs.RestoreMatcher
import Mux.Proofs.GetNodeFuel
import Mux.Proofs.ResolveAllEval
import Mux.Properties.C01d
import Mux.Properties.C13
import Mux.Properties.C14reach
import Mux.Properties.C15
namespace Mux.C01
open Mux Mux.P18

/-! ## Vocabulary -/

/-- `ps` overridden / extended by `caps` in order: `caps.foldl (fun a e => a.set e.1 e.2) ps`. -/
abbrev setAll := Mux.P18.setAll
/-- The `seg.name` of every node below the root of the tree (`""` for literal nodes). -/
abbrev treeNames := Mux.P18.treeNames
/-- The names of the non-literal nodes below the root. -/
abbrev paramNames := Mux.P18.paramNames
/-- `Call.found c`: node, handler, `ok` and parameters of the call as a `Found` (to reuse `HandlerAgrees`). -/
abbrev Call.found := Mux.P18.Call.found
abbrev NodeSound := Mux.P18.NodeSound
abbrev NotFoundSound := Mux.P18.NotFoundSound
/-- A router history whose registered patterns are well-formed: `ROp.wf (.handle p …) = WfPattern p`. -/
abbrev ROp.wf := Mux.P18.ROp.wf

/-- The `set` fold: later captures override, fresh keys are appended; lookups. -/
theorem C01_setAll (ps : Params) (caps : List (Bytes × Bytes)) :
    setAll ps caps = caps.foldl (fun a e => a.set e.1 e.2) ps ∧
    (∀ k, k ∉ caps.map (·.1) → (setAll ps caps).get? k = ps.get? k) ∧
    ((caps.map (·.1)).Nodup → ∀ k v, (k, v) ∈ caps → (setAll ps caps).get? k = some v) ∧
    ((caps.map (·.1)).Nodup → (∀ k ∈ caps.map (·.1), k ∉ ps.keys) → setAll ps caps = ps ++ caps) :=
  ⟨rfl, fun _ hk => get?_setAll_other caps ps hk, fun hnd _ _ hkv => get?_setAll_mem caps ps hnd hkv,
    fun hnd hf => setAll_fresh caps ps hnd hf⟩

/-- `NodeSound env t path method ps c n` spelled out: the reported node `n` comes with a non-empty chain of tree
segments from the root whose instantiation spells `path` byte for byte; every value satisfies its segment's
constraint; `n` has handlers, its pattern is the concatenated segment texts and the handler / `ok` of the call agree
with `n`'s handler map; the capture names are pairwise distinct; and the parameters obey the merge law. -/
theorem C01_nodeSound_iff (env : Env) (t : Tree) (path method : Bytes) (ps : Params) (c : Call) (n : Node) :
    NodeSound env t path method ps c n ↔
    ∃ chain : List (Seg × Bytes),
      chain ≠ [] ∧ Chain t.root (chain.map (·.1)) n ∧ path = instChain chain ∧
      (∀ sv ∈ chain, sv.1.Satisfies env t.ic sv.2) ∧ n.handlers ≠ [] ∧ HandlerAgrees n method (Call.found c) ∧
      n.pattern = (chain.map (·.1.value)).flatten ∧
      ((captures chain).map (·.1)).Nodup ∧
      (∀ k, k ∈ (captures chain).map (·.1) ∨ k ∉ treeNames t →
        c.params.get? k = (setAll ps (captures chain)).get? k) ∧
      (∀ k, c.params.get? k = (setAll ps (captures chain)).get? k ∨ c.params.get? k = none) ∧
      ((∀ k ∈ ps.keys, k ∉ treeNames t) →
        c.params = ps ++ captures chain ∧ c.params = setAll ps (captures chain)) := Iff.rfl

/-- `NotFoundSound t ps c` spelled out: the router's own not-found handler, `ok = false`; keys foreign to the tree
keep their incoming value, every other key has its incoming value or is gone; with disjoint names exactly `ps`. -/
theorem C01_notFoundSound_iff (t : Tree) (ps : Params) (c : Call) :
    NotFoundSound t ps c ↔
    (c.handler = t.notFound ∧ c.ok = false ∧
      (∀ k, k ∉ treeNames t → c.params.get? k = ps.get? k) ∧
      (∀ k, c.params.get? k = ps.get? k ∨ c.params.get? k = none) ∧
      ((∀ k ∈ ps.keys, k ∉ treeNames t) → c.params = ps)) := Iff.rfl

/-! ## Reachable routers -/

/-- The tree of a router made by `NewRouter` and any history whose registered patterns are well-formed satisfies
`ReachAll` (equivalently `ReachWf`, `C03_reach_bridge`): the hypothesis of the theorems below. -/
theorem C01_router_reach {cfg : RouterCfg} {r0 : Router} (hnew : Router.new cfg = some r0) {ops : List ROp}
    (hops : ∀ op ∈ ops, ROp.wf op = true) : P14.ReachAll (r0.run ops).tree ∧ P9.ReachWf (r0.run ops).tree :=
  ⟨reachAll_run hnew hops, (reachAll_run hnew hops).reachWf⟩

/-- On such a tree the literal nodes have the name `""`: the disjointness hypothesis only concerns `""` and the
names of the route parameters. -/
theorem C01_disjoint_reach {t : Tree} (hr : P14.ReachAll t) {ps : Params} (h0 : [] ∉ ps.keys)
    (hp : ∀ k ∈ ps.keys, k ∉ paramNames t) : ∀ k ∈ ps.keys, k ∉ treeNames t :=
  disjoint_reach hr h0 hp

/-! ## `Router.serveContext` with incoming parameters (`C01_dispatch_sound` / `C01_dispatch_404` generalised) -/

/-- **`C01_dispatch_from`.**  For a router whose tree is reachable by a well-formed history, every request and ANY
incoming parameters `ps`: the call reports the router's name and the request path; a reported node is sound in the
sense of `NodeSound` (for a path other than `""`/`*`, outside the TRACE short-circuit); a call without node is the
router's 404 in the sense of `NotFoundSound`; `""`, `*` and TRACE report exactly `ps`. -/
theorem C01_dispatch_from (env : Env) (r : Router) (hr : P14.ReachAll r.tree) (req : Req) (ps : Params) (c : Call)
    (h : r.serveContext env req ps = .call c) :
    c.routerName = r.tree.name ∧ c.path = req.path ∧
    (∀ n, c.node = some n → req.path ≠ [] → req.path ≠ [42] → (r.tree.trace = none ∨ req.method ≠ mTRACE) →
      NodeSound env r.tree req.path req.method ps c n) ∧
    (c.node = none → NotFoundSound r.tree ps c) ∧
    ((req.path = [] ∨ req.path = [42] ∨ (r.tree.trace ≠ none ∧ req.method = mTRACE)) → c.params = ps) :=
  router_call_sound env r hr req ps c h

/-- The tree-level statement behind it (`C01_found_from` without its hypothesis on the incoming keys): it only needs
the two matcher hypotheses `NamesOkL []` and `IdxLit`, which hold on every reachable tree. -/
theorem C01_found_general (env : Env) (t : Tree) (hN : NamesOkL [] t.root.children) (hI : Node.All IdxLit t.root)
    (path method : Bytes) (ps : Params) (f : Found) (n : Node)
    (hp : path ≠ []) (hs : path ≠ [42]) (htr : t.trace = none ∨ method ≠ mTRACE)
    (h : t.handler env path ps method = .res f) (hf : f.node = some n) :
    ∃ chain : List (Seg × Bytes),
      chain ≠ [] ∧ Chain t.root (chain.map (·.1)) n ∧ path = instChain chain ∧
      (∀ sv ∈ chain, sv.1.Satisfies env t.ic sv.2) ∧ n.handlers ≠ [] ∧ HandlerAgrees n method f ∧
      ((captures chain).map (·.1)).Nodup ∧
      (∀ k, k ∈ (captures chain).map (·.1) ∨ k ∉ treeNames t →
        f.params.get? k = (setAll ps (captures chain)).get? k) ∧
      (∀ k, f.params.get? k = (setAll ps (captures chain)).get? k ∨ f.params.get? k = none) ∧
      ((∀ k ∈ ps.keys, k ∉ treeNames t) →
        f.params = ps ++ captures chain ∧ f.params = setAll ps (captures chain)) :=
  found_general env t hN hI path method ps f n hp hs htr h hf

theorem C01_404_general (env : Env) (t : Tree) (hN : NamesOkL [] t.root.children) (hI : Node.All IdxLit t.root)
    (path method : Bytes) (ps : Params) (f : Found)
    (h : t.handler env path ps method = .res f) (hf : f.node = none) :
    f.handler = t.notFound ∧ f.ok = false ∧
      (∀ k, k ∉ treeNames t → f.params.get? k = ps.get? k) ∧
      (∀ k, f.params.get? k = ps.get? k ∨ f.params.get? k = none) ∧
      ((∀ k ∈ ps.keys, k ∉ treeNames t) → f.params = ps) :=
  notFound_general env t hN hI path method ps f h hf

/-- The matcher is parametric in the incoming parameters: node, handler, `ok`, faults and unsupported inputs do not
depend on them (here: compared with no incoming parameters at all). -/
theorem C01_params_irrelevant (env : Env) (t : Tree) (path method : Bytes) (ps : Params) :
    (∀ s, t.handler env path ps method = .fault s ↔ t.handler env path [] method = .fault s) ∧
    (t.handler env path ps method = .unsupported ↔ t.handler env path [] method = .unsupported) ∧
    (∀ f, t.handler env path ps method = .res f →
      ∃ f0, t.handler env path [] method = .res f0 ∧ f.node = f0.node ∧ f.handler = f0.handler ∧ f.ok = f0.ok) ∧
    (∀ f0, t.handler env path [] method = .res f0 →
      ∃ f, t.handler env path ps method = .res f ∧ f.node = f0.node ∧ f.handler = f0.handler ∧ f.ok = f0.ok) := by
  have hT : Closed (fun _ _ : Params => True) := ⟨fun _ _ _ _ _ => trivial, fun _ _ _ _ _ _ _ => trivial⟩
  have hr_fault : ∀ {s : Nat} {y : HR}, HRRel (fun _ _ : Params => True) (.fault s) y → y = .fault s := by
    intro s y hy; cases y <;> simp only [HRRel] at hy; subst hy; rfl
  have hr_unsup : ∀ {y : HR}, HRRel (fun _ _ : Params => True) .unsupported y → y = .unsupported := by
    intro y hy; cases y <;> simp only [HRRel] at hy; rfl
  have h1 := handler_rel env t hT path method ps [] trivial
  have h2 := handler_rel env t hT path method [] ps trivial
  refine ⟨fun s => ⟨fun h => ?_, fun h => ?_⟩, ⟨fun h => ?_, fun h => ?_⟩, fun f h => ?_, fun f0 h => ?_⟩
  · rw [h] at h1; exact hr_fault h1
  · rw [h] at h2; exact hr_fault h2
  · rw [h] at h1; exact hr_unsup h1
  · rw [h] at h2; exact hr_unsup h2
  · rw [h] at h1
    obtain ⟨f0, h0, a, b, c, _⟩ := h1.res_left
    exact ⟨f0, h0, a, b, c⟩
  · rw [h] at h2
    obtain ⟨f, h0, a, b, c, _⟩ := h2.res_left
    exact ⟨f, h0, a.symm, b.symm, c.symm⟩

/-! ## `Group.serve` -/

/-- **`C01_group_dispatch_sound`.**  Let `(rid, m)` be the first entry of the group whose matcher does not reject the
request as received, let it accept with the rewritten path `p` and the parameters `ps`, and let its router `r` have a
tree reachable by a well-formed history.  Then `Group.serve` is `r.serveContext` on `(p, ps)` (`C13_first`), and every
call it produces reports `r`'s name and the REWRITTEN path `p`; a reported node comes with a chain whose instantiation
spells `p` byte for byte, with every value satisfying its constraint, `n.pattern` the concatenated texts, the handler
agreeing with `n`'s handler map, and parameters that are the matcher's `ps` merged with the chain's captures
(`NodeSound`: the route capture wins, foreign keys are kept; exactly `setAll ps (captures chain) = ps ++ captures chain`
when no key of `ps` is a name of `r`'s tree); the router's 404 reports `ps` (`NotFoundSound`: exactly `ps` under the
same disjointness). -/
theorem C01_group_dispatch_sound (env : Env) (tab : Nat → Option Hosts) (rt : RTab) (g : Group) (req : Req)
    (pre post : List (Nat × Matcher)) (rid : Nat) (m : Matcher) (p : Bytes) (ps : Params) (r : Router)
    (hg : g.routers = pre ++ (rid, m) :: post)
    (hpre : ∀ e ∈ pre, C13.Rejects env tab req e)
    (hm : m.run env tab req req.path [] = .accept p ps)
    (hrt : rt.get? rid = some r) (hr : P14.ReachAll r.tree) :
    g.serve env tab rt req = r.serveContext env { req with path := p } ps ∧
    ∀ c, g.serve env tab rt req = .call c →
      c.routerName = r.tree.name ∧ c.path = p ∧ c.recover = r.recover ∧
      (∀ n, c.node = some n → p ≠ [] → p ≠ [42] → (r.tree.trace = none ∨ req.method ≠ mTRACE) →
        NodeSound env r.tree p req.method ps c n) ∧
      (c.node = none → NotFoundSound r.tree ps c) ∧
      ((p = [] ∨ p = [42] ∨ (r.tree.trace ≠ none ∧ req.method = mTRACE)) → c.params = ps) := by
  have h1 := C13.C13_first env tab rt g req pre post rid m p ps r hg hpre hm hrt
  refine ⟨h1, fun c hc => ?_⟩
  rw [h1] at hc
  obtain ⟨a, b, c1, c2, c3⟩ := router_call_sound env r hr { req with path := p } ps c hc
  exact ⟨a, b, (serveContext_call_found env r _ ps c hc).2.2.2.1, c1, c2, c3⟩

/-- The exact form under DISJOINTNESS (no hypothesis on `ps` itself): when no parameter of the matcher has the name of a
node of the router's tree, the parameters handed to `CallFunc` are the matcher's followed by the route captures, and
a 404 reports the matcher's parameters unchanged.  (Before the D30 repair this was the only exact form and carried the
name `C01_group_dispatch_exact`.) -/
theorem C01_group_dispatch_disjoint (env : Env) (tab : Nat → Option Hosts) (rt : RTab) (g : Group) (req : Req)
    (pre post : List (Nat × Matcher)) (rid : Nat) (m : Matcher) (p : Bytes) (ps : Params) (r : Router)
    (hg : g.routers = pre ++ (rid, m) :: post)
    (hpre : ∀ e ∈ pre, C13.Rejects env tab req e)
    (hm : m.run env tab req req.path [] = .accept p ps)
    (hrt : rt.get? rid = some r) (hr : P14.ReachAll r.tree)
    (hd : ∀ k ∈ ps.keys, k ∉ treeNames r.tree) (c : Call) (hc : g.serve env tab rt req = .call c) :
    (∀ n, c.node = some n → p ≠ [] → p ≠ [42] → (r.tree.trace = none ∨ req.method ≠ mTRACE) →
      ∃ chain : List (Seg × Bytes), chain ≠ [] ∧ Chain r.tree.root (chain.map (·.1)) n ∧ p = instChain chain ∧
        (∀ sv ∈ chain, sv.1.Satisfies env r.tree.ic sv.2) ∧
        c.params = ps ++ captures chain ∧ c.params = setAll ps (captures chain) ∧
        n.pattern = (chain.map (·.1.value)).flatten ∧ HandlerAgrees n req.method (Call.found c)) ∧
    (c.node = none → c.params = ps ∧ c.handler = r.tree.notFound ∧ c.ok = false) := by
  obtain ⟨_, h⟩ := C01_group_dispatch_sound env tab rt g req pre post rid m p ps r hg hpre hm hrt hr
  obtain ⟨_, _, _, h1, h2, _⟩ := h c hc
  refine ⟨fun n hn hp hs htr => ?_, fun hn => ?_⟩
  · obtain ⟨chain, c1, c2, c3, c4, _, c6, c7, _, _, _, c11⟩ := h1 n hn hp hs htr
    exact ⟨chain, c1, c2, c3, c4, (c11 hd).1, (c11 hd).2, c7, c6⟩
  · obtain ⟨a, b, _, _, e⟩ := h2 hn
    exact ⟨e hd, a, b⟩

/-! ## The exact law after the D30 repair: arbitrary incoming parameters with one entry per key -/

/-- **`C01_found_exact`** (tree level).  On a tree whose index fast path selects literal children (`IdxLit`; every
reachable tree) and for ANY incoming parameters `ps` with one entry per key: a found route reports exactly the `set`
fold of the chain's captures over `ps`; keys that are no capture keep their incoming value.  With distinct names
along each chain of the tree (`NamesOkL []`; every reachable tree) the capture names are pairwise distinct, each
capture can be looked up, and under disjointness the fold is the concatenation. -/
theorem C01_found_exact (env : Env) (t : Tree) (hI : Node.All IdxLit t.root)
    (path method : Bytes) (ps : Params) (hnd : ps.keys.Nodup) (f : Found) (n : Node)
    (hp : path ≠ []) (hs : path ≠ [42]) (htr : t.trace = none ∨ method ≠ mTRACE)
    (h : t.handler env path ps method = .res f) (hf : f.node = some n) :
    ∃ chain : List (Seg × Bytes),
      chain ≠ [] ∧ Chain t.root (chain.map (·.1)) n ∧ path = instChain chain ∧
      (∀ sv ∈ chain, sv.1.Satisfies env t.ic sv.2) ∧ n.handlers ≠ [] ∧ HandlerAgrees n method f ∧
      f.params = setAll ps (captures chain) ∧
      (∀ k, k ∉ (captures chain).map (·.1) → f.params.get? k = ps.get? k) ∧
      (NamesOkL [] t.root.children →
        ((captures chain).map (·.1)).Nodup ∧
        (∀ k v, (k, v) ∈ captures chain → f.params.get? k = some v) ∧
        ((∀ k ∈ ps.keys, k ∉ treeNames t) → f.params = ps ++ captures chain)) :=
  P19.found_exact env t hI path method ps hnd f n hp hs htr h hf

/-- **`C01_404_exact`** (tree level): a 404 reports exactly the incoming parameters — no hypothesis on names. -/
theorem C01_404_exact (env : Env) (t : Tree) (hI : Node.All IdxLit t.root)
    (path method : Bytes) (ps : Params) (hnd : ps.keys.Nodup) (f : Found)
    (h : t.handler env path ps method = .res f) (hf : f.node = none) :
    f.params = ps ∧ f.handler = t.notFound ∧ f.ok = false :=
  P19.notFound_exact env t hI path method ps hnd f h hf

/-- At the level of the matcher: a miss of `matchChildren` hands back exactly the parameters it was given, a hit the
`set` fold of the captures of the chain taken — whatever the names in the tree. -/
theorem C01_match_exact (env : Env) (ic : Interceptors) (n : Node) (hI : Node.All IdxLit n) (path : Bytes) (ps : Params)
    (hnd : ps.keys.Nodup) :
    (∀ ps', n.matchChildren env ic path ps = .miss ps' → ps' = ps) ∧
    (∀ m ps', n.matchChildren env ic path ps = .hit m ps' →
      ∃ chain : List (Seg × Bytes), Chain n (chain.map (·.1)) m ∧ path = instChain chain ∧
        (∀ sv ∈ chain, sv.1.Satisfies env ic sv.2) ∧ m.handlers ≠ [] ∧ ps' = setAll ps (captures chain)) := by
  refine ⟨fun ps' h => P19.matchChildren_miss_restore h hI hnd, fun m ps' h => ?_⟩
  obtain ⟨chain, h1, h2, h3, h4, h5⟩ := P19.matchChildren_restore h
  exact ⟨chain, h1, h2, h3, h4, h5 hI hnd⟩

/-- **`C01_dispatch_exact`**: `Router.serveContext` on a reachable tree, any incoming parameters with one entry per
key. -/
theorem C01_dispatch_exact (env : Env) (r : Router) (hr : P14.ReachAll r.tree) (req : Req) (ps : Params)
    (hnd : ps.keys.Nodup) (c : Call) (h : r.serveContext env req ps = .call c) :
    (∀ n, c.node = some n → req.path ≠ [] → req.path ≠ [42] → (r.tree.trace = none ∨ req.method ≠ mTRACE) →
      ∃ chain : List (Seg × Bytes), chain ≠ [] ∧ Chain r.tree.root (chain.map (·.1)) n ∧ req.path = instChain chain ∧
        (∀ sv ∈ chain, sv.1.Satisfies env r.tree.ic sv.2) ∧
        c.params = setAll ps (captures chain) ∧ ((captures chain).map (·.1)).Nodup ∧
        (∀ k v, (k, v) ∈ captures chain → c.params.get? k = some v) ∧
        (∀ k, k ∉ (captures chain).map (·.1) → c.params.get? k = ps.get? k) ∧
        ((∀ k ∈ ps.keys, k ∉ treeNames r.tree) → c.params = ps ++ captures chain) ∧
        n.pattern = (chain.map (·.1.value)).flatten ∧ HandlerAgrees n req.method (Call.found c)) ∧
    (c.node = none → c.params = ps ∧ c.handler = r.tree.notFound ∧ c.ok = false) :=
  P19.router_call_exact env r hr req ps hnd c h

/-- **`C01_group_dispatch_exact`** (D30 repair; replaces the disjointness hypothesis of the former statement by "one
entry per key").  Let `(rid, m)` be the first entry of the group whose matcher does not reject, accepting with the
rewritten path `p` and ANY parameters `ps` with pairwise distinct keys, and let its router `r` have a tree reachable
by a well-formed history.  Then for every call `Group.serve` produces:

* a reported node `n` comes with a chain spelling `p` whose values satisfy their constraints, and the parameters handed
  to `CallFunc` are EXACTLY `setAll ps (captures chain)`: every route capture is there with its value (it wins over a
  matcher parameter of the same name), every key that is no capture has the matcher's value — in particular a matcher
  parameter named like a route parameter of an ABANDONED branch survives;
* the router's 404 reports EXACTLY the matcher's `ps`. -/
theorem C01_group_dispatch_exact (env : Env) (tab : Nat → Option Hosts) (rt : RTab) (g : Group) (req : Req)
    (pre post : List (Nat × Matcher)) (rid : Nat) (m : Matcher) (p : Bytes) (ps : Params) (r : Router)
    (hg : g.routers = pre ++ (rid, m) :: post)
    (hpre : ∀ e ∈ pre, C13.Rejects env tab req e)
    (hm : m.run env tab req req.path [] = .accept p ps)
    (hrt : rt.get? rid = some r) (hr : P14.ReachAll r.tree)
    (hnd : ps.keys.Nodup) (c : Call) (hc : g.serve env tab rt req = .call c) :
    (∀ n, c.node = some n → p ≠ [] → p ≠ [42] → (r.tree.trace = none ∨ req.method ≠ mTRACE) →
      ∃ chain : List (Seg × Bytes), chain ≠ [] ∧ Chain r.tree.root (chain.map (·.1)) n ∧ p = instChain chain ∧
        (∀ sv ∈ chain, sv.1.Satisfies env r.tree.ic sv.2) ∧
        c.params = setAll ps (captures chain) ∧ ((captures chain).map (·.1)).Nodup ∧
        (∀ k v, (k, v) ∈ captures chain → c.params.get? k = some v) ∧
        (∀ k, k ∉ (captures chain).map (·.1) → c.params.get? k = ps.get? k) ∧
        ((∀ k ∈ ps.keys, k ∉ treeNames r.tree) → c.params = ps ++ captures chain) ∧
        n.pattern = (chain.map (·.1.value)).flatten ∧ HandlerAgrees n req.method (Call.found c)) ∧
    (c.node = none → c.params = ps ∧ c.handler = r.tree.notFound ∧ c.ok = false) := by
  have h1 := C13.C13_first env tab rt g req pre post rid m p ps r hg hpre hm hrt
  rw [h1] at hc
  exact P19.router_call_exact env r hr { req with path := p } ps hnd c hc

/-- **The side condition always holds for a group matcher.**  `Group.serve` runs a matcher on NO incoming parameters;
every matcher kind writes with `Set` (`Hosts` through `Tree.handler`, whose exact law keeps one entry per key), so the
parameters an accepting matcher hands over have pairwise distinct keys — provided every `Hosts` matcher of the table
has the matcher hypothesis `IdxLit` (true after `NewHosts` and any history: `HostsReachWf.idxLit`, `HostsLateWf.idxLit`). -/
theorem C01_group_params_nodup (env : Env) (tab : Nat → Option Hosts)
    (htab : ∀ id hs, tab id = some hs → Node.All IdxLit hs.tree.root) (m : Matcher) (req : Req) (path p : Bytes)
    (ps : Params) (h : m.run env tab req path [] = .accept p ps) : ps.keys.Nodup :=
  P19.matcher_accept_nodup env tab htab m req path p ps h

/-- `C01_group_dispatch_exact` with its side condition discharged by `C01_group_params_nodup`: NO hypothesis on the
matcher's parameters at all. -/
theorem C01_group_dispatch_exact_all (env : Env) (tab : Nat → Option Hosts) (rt : RTab) (g : Group) (req : Req)
    (pre post : List (Nat × Matcher)) (rid : Nat) (m : Matcher) (p : Bytes) (ps : Params) (r : Router)
    (htab : ∀ id hs, tab id = some hs → Node.All IdxLit hs.tree.root)
    (hg : g.routers = pre ++ (rid, m) :: post)
    (hpre : ∀ e ∈ pre, C13.Rejects env tab req e)
    (hm : m.run env tab req req.path [] = .accept p ps)
    (hrt : rt.get? rid = some r) (hr : P14.ReachAll r.tree) (c : Call) (hc : g.serve env tab rt req = .call c) :
    (∀ n, c.node = some n → p ≠ [] → p ≠ [42] → (r.tree.trace = none ∨ req.method ≠ mTRACE) →
      ∃ chain : List (Seg × Bytes), chain ≠ [] ∧ Chain r.tree.root (chain.map (·.1)) n ∧ p = instChain chain ∧
        (∀ sv ∈ chain, sv.1.Satisfies env r.tree.ic sv.2) ∧
        c.params = setAll ps (captures chain) ∧ ((captures chain).map (·.1)).Nodup ∧
        (∀ k v, (k, v) ∈ captures chain → c.params.get? k = some v) ∧
        (∀ k, k ∉ (captures chain).map (·.1) → c.params.get? k = ps.get? k) ∧
        ((∀ k ∈ ps.keys, k ∉ treeNames r.tree) → c.params = ps ++ captures chain) ∧
        n.pattern = (chain.map (·.1.value)).flatten ∧ HandlerAgrees n req.method (Call.found c)) ∧
    (c.node = none → c.params = ps ∧ c.handler = r.tree.notFound ∧ c.ok = false) :=
  C01_group_dispatch_exact env tab rt g req pre post rid m p ps r hg hpre hm hrt hr
    (C01_group_params_nodup env tab htab m req req.path p ps hm) c hc

/-- The hypothesis on the table is satisfiable: no `Hosts` matcher at all, or one reached by a history. -/
example : (∀ id hs, (fun _ : Nat => (none : Option Hosts)) id = some hs → Node.All IdxLit hs.tree.root) ∧
    (∀ id hs, (fun _ : Nat => some P14.exHs) id = some hs → Node.All IdxLit hs.tree.root) := by
  constructor
  · intro _ _ h; cases h
  · intro _ hs h
    simp only [Option.some.injEq] at h
    subst h
    exact P14.exHs_reachWf.idxLit

/-! ## What the matcher parameters are (with no incoming parameters, as `Group.serve` runs matchers) -/

/-- `nil` matcher / `any`: no parameters, path unchanged. -/
theorem C01_group_params_any (env : Env) (tab : Nat → Option Hosts) (req : Req) (path p : Bytes) (ps : Params)
    (h : Matcher.any.run env tab req path [] = .accept p ps) : p = path ∧ ps = [] := by
  simp only [Matcher.run] at h
  cases h; exact ⟨rfl, rfl⟩

/-- Path version (`C15_path_first`, `C15_path_rewrite`): the first listed version `ver` that is a prefix of the path
is cut (its last byte, the `/`, stays); the parameters are `{param: ver without the trailing "/"}`, or none when no
parameter name is configured. -/
theorem C01_group_params_pathVersion (env : Env) (tab : Nat → Option Hosts) (param : Bytes) (vers : List Bytes)
    (req : Req) (path p : Bytes) (ps : Params)
    (h : (Matcher.pathVersion param vers).run env tab req path [] = .accept p ps) :
    ∃ pre ver post, vers = pre ++ ver :: post ∧ (∀ u ∈ pre, ¬ hasPrefix path u = true) ∧
      hasPrefix path ver = true ∧ p = path.drop (ver.length - 1) ∧
      ps = (if param ≠ [] then [(param, ver.dropLast)] else []) ∧
      ps.keys = (if param ≠ [] then [param] else []) := by
  have hrun : pathVersionMatch param vers path [] = .ok (some (p, ps)) := by
    simp only [Matcher.run] at h
    cases hpm : pathVersionMatch param vers path [] with
    | error e => rw [hpm] at h; cases e <;> cases h
    | ok o =>
      cases o with
      | none => rw [hpm] at h; cases h
      | some r =>
        obtain ⟨p', ps'⟩ := r
        rw [hpm] at h
        cases h; rfl
  obtain ⟨pre, ver, post, h1, h2, h3, h4, h5⟩ := (C15.C15_path_first param vers path [] p ps).1 hrun
  refine ⟨pre, ver, post, h1, h2, h3, h4, ?_, ?_⟩
  · rw [h5]; split <;> rfl
  · rw [h5]; split <;> rfl

/-- Header version (`C15_header_iff`): the parameters are `{param: the media-type parameter `key` of Accept}`. -/
theorem C01_group_params_headerVersion (env : Env) (tab : Nat → Option Hosts) (param key : Bytes) (vers : List Bytes)
    (req : Req) (path p : Bytes) (ps : Params)
    (h : (Matcher.headerVersion param key vers).run env tab req path [] = .accept p ps) :
    p = path ∧ ∃ mp, req.acceptParams = some mp ∧ ((mp.get? key).getD []) ∈ vers ∧
      ps = (if param ≠ [] then [(param, (mp.get? key).getD [])] else []) ∧
      ps.keys = (if param ≠ [] then [param] else []) := by
  rw [C15.C15_header_run] at h
  split at h
  · rename_i ps' heq
    cases h
    obtain ⟨_, mp, h1, h2, h3⟩ := (C15.C15_header_iff param key vers req [] ps).1 heq
    refine ⟨rfl, mp, h1, h2, ?_, ?_⟩
    · rw [h3]; split <;> rfl
    · rw [h3]; split <;> rfl
  · cases h

/-- `Hosts` (`C14_match_found_reach`): for a matcher reached by a well-formed history, the parameters are exactly the
captures of the matched domain pattern (whose instantiation is the normalised host); the path is unchanged. -/
theorem C01_group_params_hosts (env : Env) (tab : Nat → Option Hosts) (id : Nat) (hs : Hosts)
    (htab : tab id = some hs) (hr : P14.HostsReachWf hs) (req : Req) (path p : Bytes) (ps : Params)
    (h : (Matcher.hosts id).run env tab req path [] = .accept p ps) :
    p = path ∧ ∃ (n : Node) (chain : List (Seg × Bytes)),
      chain ≠ [] ∧ Chain hs.tree.root (chain.map (·.1)) n ∧ normHost req.host = instChain chain ∧
      (∀ sv ∈ chain, sv.1.Satisfies env hs.tree.ic sv.2) ∧ ps = captures chain ∧
      (n.handlers.get? mGET).isSome = true := by
  simp only [Matcher.run, htab] at h
  have ha : isAscii req.host = true := by
    cases hh : isAscii req.host with
    | true => rfl
    | false => rw [C14.C14_match_nonAscii env hs req.host path [] hh] at h; cases h
  exact C14.C14_match_found_reach env hs hr req.host path ha p ps h

/-- `And` threads path and parameters through its members in order (each member sees what the previous ones left);
`Or` stops at the first member that does not reject. -/
theorem C01_group_params_and_or (env : Env) (tab : Nat → Option Hosts) (req : Req) (path : Bytes) (ps : Params) :
    (∀ ms, (Matcher.and ms).run env tab req path ps =
      match runAnd env tab ms req path ps with
      | .reject _ _ => .reject path ps
      | r => r) ∧
    (runAnd env tab [] req path ps = .accept path ps) ∧
    (∀ m ms, runAnd env tab (m :: ms) req path ps =
      match m.run env tab req path ps with
      | .accept p' ps' => runAnd env tab ms req p' ps'
      | r => r) ∧
    (∀ ms, (Matcher.or ms).run env tab req path ps = runOr env tab ms req path ps) ∧
    (runOr env tab [] req path ps = .reject path ps) ∧
    (∀ m ms, runOr env tab (m :: ms) req path ps =
      match m.run env tab req path ps with
      | .reject p' ps' => runOr env tab ms req p' ps'
      | r => r) := by
  refine ⟨fun ms => ?_, ?_, fun m ms => ?_, fun ms => ?_, ?_, fun m ms => ?_⟩
  · rw [Matcher.run]; rfl
  · rw [runAnd]
  · rw [runAnd]; rfl
  · rw [Matcher.run]
  · rw [runOr]
  · rw [runOr]; rfl

/-! ## The former counterexample (D30), repaired: a matcher parameter named like a route parameter of an abandoned
branch -/

/-- The group `[PathVersion("id", "/v1") → cxRouter]` and what `CallFunc` is handed for `GET path`. -/
def cxGroup : Group := { routers := [(0, .pathVersion [105, 100] [[47, 118, 49, 47]])] }
def cxCall (path : Bytes) : Option (Option Bytes × Bool × Bytes × Params) :=
  match cxGroup.serve cxEnv (fun _ => none) [(0, cxRouter)] { method := cxGET, path := path } with
  | .call c => some (c.node.map (·.pattern), c.ok, c.path, c.params)
  | _ => none

/-- Routes `/u/{id}/a`, `/u/{id}/c`, `/u/{name}/b` (the tree these `Handle` calls build), behind a path-version
matcher `PathVersion("id", "/v1")`.  The tree satisfies the matcher's hypotheses (`NamesOkL []`, `IdxLit`), `id`
is one of its names (the disjointness hypothesis of `C01_group_dispatch_disjoint` FAILS), the matcher's parameters
`{id: /v1}` have one entry per key, and
* `GET /v1/u/5/b` is served by `/u/{name}/b` with the parameters `{id: /v1, name: 5}`: the branch `{id}/` matched `5`,
  overwrote the matcher's `id`, missed below, and its undo put `/v1` back (before the D30 repair it deleted `id`: the
  call carried `{name: 5}` only — theorem `C01_group_collision` of the unrepaired model);
* `GET /v1/u/5/z` is the router's 404 with the matcher's `{id: /v1}` (before the repair: no parameters).
This is what `C01_group_dispatch_exact` says: `setAll {id: /v1} {name: 5}`, and exactly `ps` for the 404. -/
theorem C01_group_collision_repaired :
    NamesOkL [] cxTree.root.children ∧ Node.All IdxLit cxTree.root ∧ ([105, 100] : Bytes) ∈ treeNames cxTree ∧
    (Matcher.pathVersion [105, 100] [[47, 118, 49, 47]]).run cxEnv (fun _ => none)
        { method := cxGET, path := [47, 118, 49, 47, 117, 47, 53, 47, 98] } [47, 118, 49, 47, 117, 47, 53, 47, 98] [] =
      .accept [47, 117, 47, 53, 47, 98] [([105, 100], [47, 118, 49])] ∧
    (AMap.keys [(([105, 100] : Bytes), ([47, 118, 49] : Bytes))]).Nodup ∧
    cxCall [47, 118, 49, 47, 117, 47, 53, 47, 98] =
      some (some cxName.pattern, true, [47, 117, 47, 53, 47, 98],
        [([105, 100], [47, 118, 49]), ([110, 97, 109, 101], [53])]) ∧
    cxCall [47, 118, 49, 47, 117, 47, 53, 47, 122] =
      some (none, false, [47, 117, 47, 53, 47, 122], [([105, 100], [47, 118, 49])]) := by
  refine ⟨cx_names, cx_idxLit, cx_collides, by rw [C15.C15_path_run]; rfl, by decide, by rfl, by rfl⟩

/-- The same at the level of `Tree.handler`: incoming `{id: v1}`; found with `{id: v1, name: 5}`, 404 with `{id: v1}`
(the unrepaired model answered `{name: 5}` and `{}`: former theorem `C01_collision_tree`). -/
theorem C01_collision_tree_repaired :
    (foundOf (cxTree.handler cxEnv [47, 117, 47, 53, 47, 98] cxPs cxGET)).map
        (fun f => (f.node.map (·.pattern), f.ok, f.params)) =
      some (some cxName.pattern, true, [([105, 100], [118, 49]), ([110, 97, 109, 101], [53])]) ∧
    (foundOf (cxTree.handler cxEnv [47, 117, 47, 53, 47, 122] cxPs cxGET)).map
        (fun f => (f.node.isNone, f.params)) = some (true, [([105, 100], [118, 49])]) :=
  ⟨cx_found, cx_404⟩

/-- The side condition "one entry per key" cannot be dropped from the exact law: with the key `id` TWICE in the
incoming parameters (`{id: v1, id: v2}`) the 404 of the same table reports `{id: v1, id: v1}` — the undo writes the
value `Get` saw into every entry of that key. -/
theorem C01_exact_needs_nodup :
    ¬ (AMap.keys (cxPs ++ [([105, 100], [118, 50])])).Nodup ∧
    (foundOf (cxTree.handler cxEnv [47, 117, 47, 53, 47, 122] (cxPs ++ [([105, 100], [118, 50])]) cxGET)).map
        (fun f => (f.node.isNone, f.params)) = some (true, [([105, 100], [118, 49]), ([105, 100], [118, 49])]) :=
  ⟨by decide, cx_dup⟩

/-! ## Non-vacuity: a group with a path-version matcher in front of a router with the route `/u/{id}` -/

def exCfg : RouterCfg := { name := [114] }
def exR0 : Router := (Router.new exCfg).getD default
def exOps : List ROp := [.handle (bytesOfString "/u/{id}") 7 [] [mGET]]
def exR : Router := exR0.run exOps
/-- `PathVersion("v", "/v1")` -/
def exM : Matcher := .pathVersion [118] [[47, 118, 49, 47]]
def exG : Group := { routers := [(0, exM)] }
def exRt : RTab := [(0, exR)]
def exEnvG : Env := ⟨fun _ _ => true⟩
/-- `GET /v1/u/5` -/
def exReqG : Req := { method := mGET, path := [47, 118, 49, 47, 117, 47, 53] }

theorem exR_reach : P14.ReachAll exR.tree :=
  (C01_router_reach (cfg := exCfg) rfl (ops := exOps) (by
    intro op hop
    simp only [exOps, List.mem_singleton] at hop
    subst hop
    decide +kernel)).1

/-- the names of the tree are `""` (the literal `/u/`) and `id` -/
theorem exR_names : treeNames exR.tree = [[], bytesOfString "id"] := by
  unfold treeNames P18.treeNames exR
  mux_eval [exOps, exR0]

/-- the hypotheses of `C01_group_dispatch_sound` / `C01_group_dispatch_exact` hold … -/
example : exG.routers = [] ++ (0, exM) :: [] ∧ (∀ e ∈ ([] : List (Nat × Matcher)), C13.Rejects exEnvG (fun _ => none) exReqG e) ∧
    exM.run exEnvG (fun _ => none) exReqG exReqG.path [] = .accept [47, 117, 47, 53] [([118], [47, 118, 49])] ∧
    exRt.get? 0 = some exR ∧ P14.ReachAll exR.tree ∧
    (∀ k ∈ AMap.keys [(([118] : Bytes), ([47, 118, 49] : Bytes))], k ∉ treeNames exR.tree) := by
  refine ⟨rfl, by simp, ?_, rfl, exR_reach, ?_⟩
  · rw [show exM = .pathVersion [118] [[47, 118, 49, 47]] from rfl, C15.C15_path_run]
    rfl
  · rw [exR_names]; decide +kernel

set_option synthInstance.maxSize 512 in
/-- … and the group hands `CallFunc` the node of `/u/{id}` with the parameters `{v: /v1, id: 5}` on the path `/u/5`. -/
example : (match exG.serve exEnvG (fun _ => none) exRt exReqG with
      | .call c => some (c.node.map (·.pattern), c.ok, c.path, c.params, c.routerName)
      | _ => none) =
    some (some (bytesOfString "/u/{id}"), true, [47, 117, 47, 53],
      [([118], [47, 118, 49]), (bytesOfString "id", [53])], [114]) := by
  unfold exRt exR
  mux_eval [exOps, exR0]

/-! ## Non-vacuity of `C01_group_dispatch_exact` where disjointness FAILS: the collision table as a real history -/

/-- `/u/{id}/a`, `/u/{id}/c`, `/u/{name}/b` -/
def colA : Bytes := [47, 117, 47, 123, 105, 100, 125, 47, 97]
def colC : Bytes := [47, 117, 47, 123, 105, 100, 125, 47, 99]
def colB : Bytes := [47, 117, 47, 123, 110, 97, 109, 101, 125, 47, 98]
/-- `Handle("/u/{id}/a")`, `Handle("/u/{id}/c")`, `Handle("/u/{name}/b")` -/
def colOps : List ROp := [.handle colA 1 [] [mGET], .handle colC 3 [] [mGET], .handle colB 2 [] [mGET]]
def colR : Router := exR0.run colOps
/-- `PathVersion("id", "/v1")` -/
def colM : Matcher := .pathVersion [105, 100] [[47, 118, 49, 47]]
def colG : Group := { routers := [(0, colM)] }
def colRt : RTab := [(0, colR)]
/-- `GET /v1/u/5/b`, `GET /v1/u/5/z` -/
def colReqB : Req := { method := mGET, path := [47, 118, 49, 47, 117, 47, 53, 47, 98] }
def colReqZ : Req := { method := mGET, path := [47, 118, 49, 47, 117, 47, 53, 47, 122] }

/-- Kernel evaluation of a router history whose tree has nodes with several children (`mux_eval2` for `Router.run`). -/
macro "mux_eval_router" "[" ids:ident,* "]" : tactic =>
  `(tactic| (simp only [$[$ids:ident],*, Router.run, List.foldl_cons, List.foldl_nil, Router.step,
      Router.handle, Tree.add, P10.getNode_eq_F, P16.getNodeF_eq_I]; decide +kernel))

theorem colR_reach : P14.ReachAll colR.tree :=
  (C01_router_reach (cfg := exCfg) rfl (ops := colOps) (by
    intro op hop
    simp only [colOps, List.mem_cons, List.not_mem_nil, or_false] at hop
    rcases hop with rfl | rfl | rfl <;> decide +kernel)).1

/-- The hypotheses of `C01_group_dispatch_exact` hold: the matcher accepts with `{id: /v1}` (one entry per key), the
router's tree is reachable … -/
theorem col_hyps : colG.routers = [] ++ (0, colM) :: [] ∧
    (∀ e ∈ ([] : List (Nat × Matcher)), C13.Rejects exEnvG (fun _ => none) colReqB e) ∧
    colM.run exEnvG (fun _ => none) colReqB colReqB.path [] =
      .accept [47, 117, 47, 53, 47, 98] [([105, 100], [47, 118, 49])] ∧
    colRt.get? 0 = some colR ∧ P14.ReachAll colR.tree ∧
    (AMap.keys [(([105, 100] : Bytes), ([47, 118, 49] : Bytes))]).Nodup := by
  refine ⟨rfl, by simp, ?_, rfl, colR_reach, by decide⟩
  rw [show colM = .pathVersion [105, 100] [[47, 118, 49, 47]] from rfl, C15.C15_path_run]
  rfl

/-- … although `id` IS a name of the router's tree (`C01_group_dispatch_disjoint` does not apply) … -/
theorem col_collides : ([105, 100] : Bytes) ∈ treeNames colR.tree := by
  have : (treeNames colR.tree).contains [105, 100] = true := by
    unfold treeNames colR
    mux_eval_router [colOps, exR0, colA, colB, colC]
  simpa using this

set_option synthInstance.maxSize 512 in
/-- … and the group hands `CallFunc` the node of `/u/{name}/b` with `{id: /v1, name: 5}` … -/
theorem col_found : (match colG.serve exEnvG (fun _ => none) colRt colReqB with
      | .call c => some (c.node.map (·.pattern), c.ok, c.path, c.params)
      | _ => none) =
    some (some colB, true, [47, 117, 47, 53, 47, 98], [([105, 100], [47, 118, 49]), ([110, 97, 109, 101], [53])]) := by
  unfold colRt colR
  mux_eval_router [colOps, exR0, colA, colB, colC]

set_option synthInstance.maxSize 512 in
/-- … resp. the router's 404 with exactly `{id: /v1}`. -/
theorem col_404 : (match colG.serve exEnvG (fun _ => none) colRt colReqZ with
      | .call c => some (c.node.map (·.pattern), c.ok, c.path, c.params)
      | _ => none) =
    some (none, false, [47, 117, 47, 53, 47, 122], [([105, 100], [47, 118, 49])]) := by
  unfold colRt colR
  mux_eval_router [colOps, exR0, colA, colB, colC]

/-- Hypotheses of `C01_group_params_hosts`: a `Hosts` matcher reached by a well-formed history (`C14reach.lean`),
registered under id 0, accepts the host `A.COM.cn:80`. -/
example : P14.HostsReachWf P14.exHs ∧
    (Matcher.hosts 0).run P14.exEnv (fun _ => some P14.exHs) { method := mGET, path := [47], host := P14.hostACn } [47] [] =
      .accept [47] [] := by
  refine ⟨P14.exHs_reachWf, ?_⟩
  obtain ⟨f, q, h1, h2, h3, _, h5, h6⟩ := P14.exHs_answer
  have ha : isAscii P14.hostACn = true := by decide
  simp only [Matcher.run]
  rw [C14.C14_match_res P14.exEnv P14.exHs P14.hostACn [47] [] f ha h1, h5, h6]; rfl

end Mux.C01
