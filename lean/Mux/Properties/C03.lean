/-
  C03 — route table lifecycle (refinement of the abstract table `Spec.Table`).  The tree-wide method
  counters of C04 (`C04_star`, I-count) are in `Mux.Properties.C04star`.

  All statements are about `t = (Tree.new …).run ops` and `tb = specRun (Tree.new …) ops` for a history
  `ops` of `add/remove/clean/use` in which every REGISTERED pattern has balanced, non-nested braces
  (`WfOps`; the arguments of `remove`/`clean` are arbitrary).  Without that hypothesis the statements are
  false for the model (and, by the tie, for the Go code): see the counterexample at the end.
-/
import Mux.Proofs.Table
import Mux.Proofs.TableFrame2
import Mux.Proofs.DecEq
namespace Mux.C03
open Mux Mux.P11

/-- Every pattern the history registers has balanced, non-nested braces. -/
def WfOps (ops : List TOp) : Prop := ∀ op ∈ ops, op.wf = true

/-- `C03_table` (I-table): the table read off the tree and the abstract table of the history are equal
as finite maps — the same patterns (a permutation of each other), the same method SETS per pattern,
the same live pairs —, both have pairwise
distinct patterns and non-empty method lists; in the tree even ALL nodes below the root (with or
without handlers) have pairwise distinct patterns. -/
theorem C03_table (name : Bytes) (ic : Interceptors) (nf : Handler) (tr : Option Handler) (ob nb : Base)
    (ops : List TOp) (hw : WfOps ops) :
    let t := (Tree.new name ic nf tr ob nb).run ops
    let tb := specRun (Tree.new name ic nf tr ob nb) ops
    (tableOf t).patterns.Perm tb.patterns ∧
    (∀ p ms ms', (p, ms) ∈ tableOf t → (p, ms') ∈ tb → ∀ m, m ∈ ms ↔ m ∈ ms') ∧
    (∀ p m, (tableOf t).has p m ↔ tb.has p m) ∧
    (tableOf t).patterns.Nodup ∧ tb.patterns.Nodup ∧
    (∀ e ∈ tableOf t, e.2 ≠ [] ∧ e.2.Nodup) ∧ (∀ e ∈ tb, e.2 ≠ []) ∧
    ((nodesL t.root.children).map (·.pattern)).Nodup := by
  intro t tb
  have h := sim_history name ic nf tr ob nb ops hw
  have hok := tableOf_ok h.inv
  obtain ⟨h1, h2⟩ := tables_agree hok.1 h.ok h.has
  exact ⟨(List.perm_ext_iff_of_nodup hok.1.nodup h.ok.nodup).2 h1, h2, h.has, hok.1.nodup, h.ok.nodup,
    fun e he => ⟨hok.1.nonempty e he, hok.2 e he⟩, h.ok.nonempty, patterns_nodup _ _ h.inv.sh⟩

/-- The same for any tree/table pair related by the simulation invariant. -/
theorem C03_table_inv {t : Tree} {tb : Spec.Table} (h : Sim t tb) :
    (∀ p, p ∈ (tableOf t).patterns ↔ p ∈ tb.patterns) ∧
    (∀ p ms ms', (p, ms) ∈ tableOf t → (p, ms') ∈ tb → ∀ m, m ∈ ms ↔ m ∈ ms') ∧
    (tableOf t).patterns.Nodup ∧ tb.patterns.Nodup :=
  ⟨(tables_agree (tableOf_ok h.inv).1 h.ok h.has).1, (tables_agree (tableOf_ok h.inv).1 h.ok h.has).2,
    (tableOf_ok h.inv).1.nodup, h.ok.nodup⟩

theorem hasTrace_history (name : Bytes) (ic : Interceptors) (nf : Handler) (tr : Option Handler) (ob nb : Base)
    (ops : List TOp) : ((Tree.new name ic nf tr ob nb).run ops).hasTrace = tr.isSome :=
  (sameCfg_run _ ops).1

/-- `C03_routes`: `Routes()` lists exactly `("*", OPTIONS [+TRACE])` and, for every live pattern of the
abstract table, the pattern with exactly its method set (hand-registered methods, HEAD iff GET,
OPTIONS, TRACE iff configured; sorted); every pattern of the tree is listed once. -/
theorem C03_routes (name : Bytes) (ic : Interceptors) (nf : Handler) (tr : Option Handler) (ob nb : Base)
    (ops : List TOp) (hw : WfOps ops) :
    let t := (Tree.new name ic nf tr ob nb).run ops
    let tb := specRun (Tree.new name ic nf tr ob nb) ops
    (∀ x, x ∈ t.routes ↔ x ∈ Spec.routes tr.isSome tb) ∧
    ((routesL t.root.children).map (·.1)).Nodup ∧ tb.patterns.Nodup := by
  intro t tb
  have h := sim_history name ic nf tr ob nb ops hw
  refine ⟨fun x => ?_, routes_patterns_nodup h.inv, h.ok.nodup⟩
  rw [← hasTrace_history name ic nf tr ob nb ops]
  exact routes_iff h x

theorem C03_routes_inv {t : Tree} {tb : Spec.Table} (h : Sim t tb) (x : Bytes × List Bytes) :
    x ∈ t.routes ↔ x ∈ Spec.routes t.hasTrace tb := routes_iff h x

/-- `C03_removed`: a request answered by a stored route handler of a node `n` below the root was
dispatched to a LIVE pair of the abstract table: `n.pattern` is live and, unless the method is
OPTIONS (whose handler is derived), `(n.pattern, method')` is live, `method'` being GET for HEAD.
Hence a removed, cleaned or never registered pattern/method pair is not served. -/
theorem C03_removed (name : Bytes) (ic : Interceptors) (nf : Handler) (tr : Option Handler) (ob nb : Base)
    (ops : List TOp) (hw : WfOps ops) (env : Env) (path method : Bytes) (f : Found) (n : Node) :
    let t := (Tree.new name ic nf tr ob nb).run ops
    let tb := specRun (Tree.new name ic nf tr ob nb) ops
    t.handler env path [] method = .res f → f.ok = true → f.node = some n → n ≠ t.root →
    n.pattern ∈ tb.patterns ∧
      (method ≠ mOPTIONS → tb.has n.pattern (if method = mHEAD then mGET else method)) := by
  intro t tb hres hok hn hroot
  exact served_live (sim_history name ic nf tr ob nb ops hw) hres hok hn hroot

theorem C03_removed_inv {t : Tree} {tb : Spec.Table} (h : Sim t tb) {env : Env} {path method : Bytes}
    {f : Found} {n : Node} (hres : t.handler env path [] method = .res f) (hok : f.ok = true)
    (hn : f.node = some n) (hroot : n ≠ t.root) :
    n.pattern ∈ tb.patterns ∧
      (method ≠ mOPTIONS → tb.has n.pattern (if method = mHEAD then mGET else method)) :=
  served_live h hres hok hn hroot

/-- `C03_no_error`: on the tree of such a history `Remove` and `Clean` never fail (no index fault, no
out-of-range path), whatever their arguments. -/
theorem C03_no_error (name : Bytes) (ic : Interceptors) (nf : Handler) (tr : Option Handler) (ob nb : Base)
    (ops : List TOp) (hw : WfOps ops) (p : Bytes) (methods : List Bytes) (e : Err) :
    ((Tree.new name ic nf tr ob nb).run ops).remove p methods ≠ .error e ∧
    ((Tree.new name ic nf tr ob nb).run ops).clean p ≠ .error e :=
  ⟨remove_no_error (sim_history name ic nf tr ob nb ops hw).inv p methods e,
   clean_no_error (sim_history name ic nf tr ob nb ops hw).inv p e⟩

/-- `C03_findPath` (`findPath_target`): `node.find(p)` succeeds exactly when some node below the root
has pattern `p`, and then it returns the path to THE node with that pattern — so `Remove`, the
duplicate check of `Handle` and `URL` act on the right node. -/
theorem C03_findPath (name : Bytes) (ic : Interceptors) (nf : Handler) (tr : Option Handler) (ob nb : Base)
    (ops : List TOp) (hw : WfOps ops) (p : Bytes) :
    let t := (Tree.new name ic nf tr ob nb).run ops
    ((t.root.findPath p).isSome = true ↔ ∃ x ∈ nodesL t.root.children, x.pattern = p) ∧
    (∀ path, t.root.findPath p = some path → ∃ x, t.root.getAt path = some x ∧ x ∈ nodesL t.root.children ∧
      x.pattern = p ∧ ∀ y ∈ nodesL t.root.children, y.pattern = p → y = x) := by
  intro t
  have hinv := (sim_history name ic nf tr ob nb ops hw).inv
  have hsound : ∀ path, t.root.findPath p = some path → ∃ x, t.root.getAt path = some x ∧
      x ∈ nodesL t.root.children ∧ x.pattern = p := by
    intro path hpath
    obtain ⟨x, hx, hxp, hne⟩ := findPath_sound t.ic t.root hinv.sh p path hpath
    rw [hinv.rootPat, List.nil_append] at hxp
    cases path with
    | nil => exact absurd rfl hne
    | cons i path => exact ⟨x, hx, getAt_mem_below hx, hxp⟩
  refine ⟨⟨fun hs => ?_, fun ⟨x, hx, hxp⟩ => ?_⟩, fun path hpath => ?_⟩
  · cases hf : t.root.findPath p with
    | none => rw [hf] at hs; cases hs
    | some path =>
      obtain ⟨x, _, hx, hxp⟩ := hsound path hf
      exact ⟨x, hx, hxp⟩
  · exact findPath_complete t.ic t.root hinv.sh p ⟨x, hx, by rw [hxp, hinv.rootPat]; rfl⟩
  · obtain ⟨x, hx, hmem, hxp⟩ := hsound path hpath
    exact ⟨x, hx, hmem, hxp, fun y hy hyp => node_unique hinv.sh hy hmem (hyp.trans hxp.symm)⟩

/-- `C03_clean` (the tree half of `C19_clean`): `Clean(pre)` deletes exactly the live patterns that
have `pre` as a textual prefix — also when `pre` ends inside a `{…}` token, and for `""` — and keeps
the methods of all others: the table read off the cleaned tree IS `Spec.clean` of the table read off
the tree (equality of lists, order included). -/
theorem C03_clean (name : Bytes) (ic : Interceptors) (nf : Handler) (tr : Option Handler) (ob nb : Base)
    (ops : List TOp) (hw : WfOps ops) (pre : Bytes) (t' : Tree)
    (he : ((Tree.new name ic nf tr ob nb).run ops).clean pre = .ok t') :
    tableOf t' = Spec.clean (tableOf ((Tree.new name ic nf tr ob nb).run ops)) pre :=
  tableOf_clean (sim_history name ic nf tr ob nb ops hw).inv he

/-- `PatternOk` (every node's pattern is its parent's pattern followed by its segment text) holds on
the tree of every such history. -/
theorem C03_patternOk (name : Bytes) (ic : Interceptors) (nf : Handler) (tr : Option Handler) (ob nb : Base)
    (ops : List TOp) (hw : WfOps ops) : Node.PatternOk ((Tree.new name ic nf tr ob nb).run ops).root := by
  have hinv := (sim_history name ic nf tr ob nb ops hw).inv
  exact patternOk_of_sh _ _ hinv.sh

/-! ## C03_frame (partial: trees without first-byte indexes)

Full statement of `C03_frame`: for every tree `t` of a history, if `t.handler env path [] m = .res f` with
`f.node = some q` and `q.pattern ≠ p` (resp. `¬ pre <+: q.pattern`), then `t.remove p ms` (resp.
`t.clean pre`) answers the same request with the same handler, the same `ok` flag, the same parameters
and a node with the same pattern and handler map.

Proved below under two extra hypotheses on `t`:
* `Node.All NoIdx t.root` — no node has a first-byte index and every node has fewer than `indexesSize`
  (5) children, so that `matchChildren` is the linear scan before and after the operation.  What is
  missing for the general case is I-sort/I-index for histories (the rebuilt index agrees with the scan:
  `Node.matchChildren_indexed_eq_scan` needs `IndexOk`, which is not yet an invariant of histories);
* `NamesOkL [] t.root.children` — the parameter-tracking hypothesis of C01 (`Mux.Proofs.MatchSound`):
  a subtree that fails hands the parameters back unchanged, so skipping a deleted subtree changes
  nothing. -/

/-- The answers agree: same handler, same `ok`, same parameters, node with the same pattern and
handler map. -/
abbrev SameAnswer := Mux.P11.SameAnswer

theorem C03_frame_remove_partial (name : Bytes) (ic : Interceptors) (nf : Handler) (tr : Option Handler)
    (ob nb : Base) (ops : List TOp) (hw : WfOps ops) (p : Bytes) (methods : List Bytes) (t' : Tree)
    (env : Env) (path method : Bytes) (f : Found) (q : Node) :
    let t := (Tree.new name ic nf tr ob nb).run ops
    Node.All NoIdx t.root → NamesOkL [] t.root.children → t.remove p methods = .ok t' →
    t.handler env path [] method = .res f → f.node = some q → q.pattern ≠ p →
    ∃ f', t'.handler env path [] method = .res f' ∧ SameAnswer f f' := by
  intro t hno hnames he hres hq hne
  exact frame_remove (sim_history name ic nf tr ob nb ops hw).inv hno hnames he hres hq hne

theorem C03_frame_clean_partial (name : Bytes) (ic : Interceptors) (nf : Handler) (tr : Option Handler)
    (ob nb : Base) (ops : List TOp) (hw : WfOps ops) (pre : Bytes) (t' : Tree)
    (env : Env) (path method : Bytes) (f : Found) (q : Node) :
    let t := (Tree.new name ic nf tr ob nb).run ops
    Node.All NoIdx t.root → NamesOkL [] t.root.children → t.clean pre = .ok t' →
    t.handler env path [] method = .res f → f.node = some q → ¬ pre <+: q.pattern →
    ∃ f', t'.handler env path [] method = .res f' ∧ SameAnswer f f' := by
  intro t hno hnames he hres hq hne
  exact frame_cleanT (sim_history name ic nf tr ob nb ops hw).inv hno hnames he hres hq hne

theorem C03_frame_remove_inv {t t' : Tree} {tb : Spec.Table} (h : Sim t tb) (hno : Node.All NoIdx t.root)
    (hnames : NamesOkL [] t.root.children) {p : Bytes} {methods : List Bytes}
    (he : t.remove p methods = .ok t') {env : Env} {path method : Bytes} {f : Found} {q : Node}
    (hres : t.handler env path [] method = .res f) (hq : f.node = some q) (hne : q.pattern ≠ p) :
    ∃ f', t'.handler env path [] method = .res f' ∧ SameAnswer f f' :=
  frame_remove h.inv hno hnames he hres hq hne

theorem C03_frame_clean_inv {t t' : Tree} {tb : Spec.Table} (h : Sim t tb) (hno : Node.All NoIdx t.root)
    (hnames : NamesOkL [] t.root.children) {pre : Bytes} (he : t.clean pre = .ok t')
    {env : Env} {path method : Bytes} {f : Found} {q : Node}
    (hres : t.handler env path [] method = .res f) (hq : f.node = some q) (hne : ¬ pre <+: q.pattern) :
    ∃ f', t'.handler env path [] method = .res f' ∧ SameAnswer f f' :=
  frame_cleanT h.inv hno hnames he hres hq hne

/-! ## Non-vacuity -/

/-- a history satisfying `WfOps`, with parameters, a removal of an arbitrary (ill-formed) pattern and a
`Clean` -/
example : WfOps [.add (bytesOfString "/posts/{id}") { base := .user 1 } [] [mGET],
    .add (bytesOfString "/posts/{id:\\d+}/x") { base := .user 2 } [1] [],
    .remove (bytesOfString "/po{sts") [mGET], .clean (bytesOfString "/posts/{i"), .use [2]] := by
  intro op hop
  simp only [List.mem_cons, List.not_mem_nil, or_false] at hop
  rcases hop with rfl | rfl | rfl | rfl | rfl <;> decide +kernel

/-- `WfPattern` rejects exactly the shapes of the counterexample below -/
example : WfPattern (bytesOfString "{abc{d}/x") = false ∧ WfPattern (bytesOfString "/a}b") = false ∧
    WfPattern (bytesOfString "/{id}/{name:\\w+}.html") = true := by decide +kernel

/-- the abstract operations on a small table -/
example : Spec.add [(bytesOfString "/a", [mGET])] (bytesOfString "/a") [mPOST] =
    [(bytesOfString "/a", [mGET, mPOST])] := by decide +kernel
example : Spec.add [(bytesOfString "/a", [mGET])] (bytesOfString "/b") [] =
    [(bytesOfString "/a", [mGET]), (bytesOfString "/b", anyMethods)] := by decide +kernel
example : Spec.remove [(bytesOfString "/a", [mGET, mPOST]), (bytesOfString "/b", [mGET])] (bytesOfString "/a")
    [mGET, mHEAD, mOPTIONS] = [(bytesOfString "/a", [mPOST]), (bytesOfString "/b", [mGET])] := by decide +kernel
example : Spec.remove [(bytesOfString "/a", [mGET, mPOST]), (bytesOfString "/b", [mGET])] (bytesOfString "/a")
    [mGET, mPOST] = [(bytesOfString "/b", [mGET])] := by decide +kernel
example : Spec.remove [(bytesOfString "/a", [mGET, mPOST]), (bytesOfString "/b", [mGET])] (bytesOfString "/b") [] =
    [(bytesOfString "/a", [mGET, mPOST])] := by decide +kernel
example : Spec.clean [(bytesOfString "/a/x", [mGET]), (bytesOfString "/b", [mGET]), (bytesOfString "/a", [mPUT])]
    (bytesOfString "/a") = [(bytesOfString "/b", [mGET])] := by decide +kernel
example : Spec.methodSet true [mPOST, mGET] = [mGET, mHEAD, mOPTIONS, mPOST, mTRACE] ∧
    Spec.methodSet false [mDELETE] = [mDELETE, mOPTIONS] := by decide +kernel
example : Spec.count [(bytesOfString "/a", [mGET, mPOST]), (bytesOfString "/b", [mGET])] mGET = 2 := by
  decide +kernel

/-- the hand-built tree of `Mux.Proofs.TreeReach` (route `GET /posts/{id}`) and its abstract table are
related by the simulation invariant … -/
def exTable : Spec.Table := [(bytesOfString "/posts/{id}", [mGET])]

theorem exTree_sim : Sim exTree exTable := by
  have hplain : Plain (bytesOfString "/posts/") := by unfold Plain; decide +kernel
  have hwf1 : WfVal (bytesOfString "/posts/") := .inl ⟨by decide +kernel, hplain⟩
  have hwf2 : WfVal (bytesOfString "{id}") :=
    .inr ⟨bytesOfString "id", [], by decide +kernel, by unfold Plain; decide +kernel, Plain.nil⟩
  have hleaf : Node.All (Sh []) exLeaf := by
    simp only [exLeaf, Node.All, AllL, and_true]; exact ShL_nil _ _
  have hmid : Node.All (Sh []) exMid := by
    rw [Node.All_iff]
    refine ⟨ShL_cons.2 ⟨⟨hwf2, by decide +kernel, by decide +kernel, fun _ => rfl⟩, by simp, ShL_nil _ _⟩, ?_⟩
    exact AllL_cons_iff.2 ⟨hleaf, AllL_nil _⟩
  have hroot : Node.All (Sh []) exTree.root := by
    rw [Node.All_iff]
    refine ⟨ShL_cons.2 ⟨⟨hwf1, by decide +kernel, by decide +kernel, fun hc => ?_⟩, by simp, ShL_nil _ _⟩, ?_⟩
    · exact absurd hc hplain.not_closed
    · exact AllL_cons_iff.2 ⟨hmid, AllL_nil _⟩
  have hgq : AllL (NodeOk (GQ false)) exTree.root.children := by
    show AllL (NodeOk (GQ false)) [exMid]
    simp only [AllL, and_true, exMid, Node.All]
    refine ⟨⟨GQ_empty false, by intro e he; simp at he⟩, ?_, trivial⟩
    have hg := exLeaf_good
    unfold exLeaf at hg
    exact ⟨⟨hg.1, .inr ⟨mGET, by decide +kernel, by unfold IsReg; decide +kernel⟩⟩, hg.2⟩
  have htab : tableOf exTree = exTable := by decide +kernel
  refine ⟨⟨⟨exTree_inv2, hgq, hroot, rfl⟩, fun q m => by rw [htab], ⟨by decide +kernel, by decide +kernel⟩⟩, ?_⟩
  intro m
  have hl : liveL exTree.root.children = [(exLeaf.pattern, exLeaf.handlers)] := by decide +kernel
  rw [hl]
  have hr : regKeys exLeaf.handlers = [mGET] := by decide +kernel
  simp only [cntE, List.filter_cons, List.filter_nil, hr, List.mem_singleton]
  by_cases hm : m = mGET
  · subst hm; decide +kernel
  · have : ¬ mGET = m := fun e => hm e.symm
    simp [hm, exTree, AMap.get?, this]

/-- … so the `_inv` statements apply to it: its `Routes()` are those of the table, -/
example : ∀ x, x ∈ exTree.routes ↔ x ∈ Spec.routes false exTable := C03_routes_inv exTree_sim
example : Spec.routes false exTable =
    [([42], [mOPTIONS]), (bytesOfString "/posts/{id}", [mGET, mHEAD, mOPTIONS])] := by decide +kernel
/-- and the hypotheses of `C03_removed_inv` hold for `HEAD /posts/5` (served by the `{id}` node, which
is not the root), whose conclusion names the live pair `("/posts/{id}", GET)`. -/
example : ∃ f n, exTree.handler ⟨fun _ _ => true⟩ (bytesOfString "/posts/5") [] mHEAD = .res f ∧ f.ok = true ∧
    f.node = some n ∧ n ≠ exTree.root ∧ exTable.has n.pattern mGET := by
  have h1 : (match exTree.handler ⟨fun _ _ => true⟩ (bytesOfString "/posts/5") [] mHEAD with
      | .res f => f.ok && (f.node.map (·.pattern) == some (bytesOfString "/posts/{id}")) | _ => false) = true := by
    decide +kernel
  split at h1
  · rename_i f e1
    simp only [Bool.and_eq_true, beq_iff_eq] at h1
    cases hn : f.node with
    | none => rw [hn] at h1; simp at h1
    | some n =>
      rw [hn] at h1
      simp only [Option.map_some, Option.some.injEq] at h1
      have hroot : n ≠ exTree.root := by
        intro e; rw [e] at h1
        exact absurd h1.2 (by decide +kernel)
      refine ⟨f, n, e1, h1.1, hn, hroot, ?_⟩
      have := (C03_removed_inv exTree_sim e1 h1.1 hn hroot).2 (by decide +kernel)
      simpa using this
  · simp at h1


/-- the hypotheses of `C03_frame_remove_inv`/`C03_frame_clean_inv` on the hand-built tree: no index,
tracked names, `GET /posts/5` dispatched to the `{id}` node, `Remove("/posts/")` (an interior pattern)
and `Clean("/x")` succeed and leave the answer as it was. -/
example : Node.All NoIdx exTree.root ∧ NamesOkL [] exTree.root.children := by
  refine ⟨?_, by decide⟩
  simp only [exTree, exMid, exLeaf, Node.All, AllL, and_true, NoIdx]
  decide
example : ∃ f q t1 t2, exTree.handler ⟨fun _ _ => true⟩ (bytesOfString "/posts/5") [] mGET = .res f ∧
    f.node = some q ∧ q.pattern ≠ bytesOfString "/posts/" ∧ ¬ bytesOfString "/x" <+: q.pattern ∧
    exTree.remove (bytesOfString "/posts/") [] = .ok t1 ∧ exTree.clean (bytesOfString "/x") = .ok t2 ∧
    (∃ f', t1.handler ⟨fun _ _ => true⟩ (bytesOfString "/posts/5") [] mGET = .res f' ∧ SameAnswer f f') ∧
    (∃ f', t2.handler ⟨fun _ _ => true⟩ (bytesOfString "/posts/5") [] mGET = .res f' ∧ SameAnswer f f') := by
  have hno : Node.All NoIdx exTree.root := by
    simp only [exTree, exMid, exLeaf, Node.All, AllL, and_true, NoIdx]; decide
  have hnames : NamesOkL [] exTree.root.children := by decide
  have h1 : (match exTree.handler ⟨fun _ _ => true⟩ (bytesOfString "/posts/5") [] mGET with
      | .res f => f.node.map (·.pattern) == some (bytesOfString "/posts/{id}") | _ => false) = true := by
    decide +kernel
  split at h1
  · rename_i f e1
    cases hn : f.node with
    | none => rw [hn] at h1; simp at h1
    | some q =>
      rw [hn] at h1
      simp only [Option.map_some, beq_iff_eq, Option.some.injEq] at h1
      have hne1 : q.pattern ≠ bytesOfString "/posts/" := by rw [h1]; decide +kernel
      have hne2 : ¬ bytesOfString "/x" <+: q.pattern := by
        rw [h1, ← hasPrefix_iff]; decide +kernel
      cases hr : exTree.remove (bytesOfString "/posts/") [] with
      | error e => exact absurd hr (remove_no_error exTree_sim.inv _ _ e)
      | ok t1 =>
        cases hc : exTree.clean (bytesOfString "/x") with
        | error e => exact absurd hc (clean_no_error exTree_sim.inv _ e)
        | ok t2 =>
          exact ⟨f, q, t1, t2, e1, hn, hne1, hne2, rfl, rfl,
            C03_frame_remove_inv exTree_sim hno hnames hr e1 hn hne1,
            C03_frame_clean_inv exTree_sim hno hnames hc e1 hn hne2⟩
  · simp at h1

/-! ## Why `WfOps` is needed

`Tree.run` of the history
  `add "{abc{d}/x" GET ; add "{abc{ee}/y" GET ; add "{abc{d}/x" POST`
(no interceptors, no TRACE) evaluates (`#eval`) to the tree
  root → "{abc" (literal, no handlers) → { "{d}/x" [pattern "{abc{d}/x", GET] , "{ee}/y" [pattern "{abc{ee}/y", GET] }
  root → "{abc{d}/x" (named, pattern "{abc{d}/x", POST)
because `longestPrefix "{abc{d}/x" "{abc{ee}/y" = 4` cuts INSIDE the parameter token (the second `{`
resets the start index), the split-off half `"{abc"` is a literal, and the third `add` compares the
named segment `"{abc{d}/x"` only with children of its own kind.  `Routes()` then lists the pattern
`"{abc{d}/x"` twice (`GET, HEAD, OPTIONS` and `OPTIONS, POST`), `specRun` has the single entry
`("{abc{d}/x", [GET, POST])`, and `Remove("{abc{d}/x")` deletes only the first of the two nodes.  So
`C03_table`, `C03_routes` and the uniqueness of patterns are FALSE for patterns with a brace inside a
parameter token; `WfPattern` (balanced, non-nested braces) excludes exactly these. -/

end Mux.C03
