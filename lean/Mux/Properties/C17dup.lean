/-
  C17 — "a duplicate pattern+method is ALWAYS rejected", completed in two directions:

  * the EMPTY method list: `Handle(p, h)` without methods registers the default set (`AnyMethods` = GET, POST,
    DELETE, PUT, PATCH, CONNECT), so it is a duplicate as soon as `p` is live with one of those.
    `C17_dup_live` (Mux/Properties/C17.lean) has `m ∈ methods`, which forces `methods ≠ []`; here the hypothesis
    is `m ∈ effMethods methods`;
  * the ROUTE TABLE OF THE HISTORY instead of the node: `C17_dup_live` speaks about the node `findPath` finds.  Here
    the hypothesis is "`(p, m)` is a live pair of the table of the history" — the abstract table `specRun` of a tree
    history, `C01.routerTable` of a router history from `NewRouter` — for every history of well-formed registrations.
-/
import Mux.Properties.C17
import Mux.Properties.C01router
namespace Mux.C17
open Mux Mux.P9 Mux.P11

/-- The method set a `Handle` call registers: the listed methods, the default set when none is listed. -/
theorem C17_effMethods (methods : List Bytes) :
    effMethods methods = (if methods = [] then anyMethods else methods) ∧
    anyMethods = [mGET, mPOST, mDELETE, mPUT, mPATCH, mCONNECT] := by
  refine ⟨?_, by decide⟩
  unfold effMethods
  cases methods <;> simp

/-- **Node form, any method list.**  The node `findPath` finds for `p` has an entry for `m`, and `m` is among the
methods the call registers (listed, or in the default set when the list is empty): never accepted, the tree is
unchanged. -/
theorem C17_dup_live_eff (t : Tree) (p : Bytes) (h : Handler) (ms : List Nat) (methods : List Bytes)
    (path : List Nat) (n : Node) (m : Bytes)
    (hpath : t.root.findPath p = some path) (hn : t.root.getAt path = some n)
    (hm : m ∈ effMethods methods) (hlive : n.handlers.contains m = true) :
    (∃ e, t.add p h ms methods = .error e) ∧ t.step (.add p h ms methods) = t := by
  have hat : t.hasMethodAt p m = true := by simp [Tree.hasMethodAt, hpath, hn, hlive]
  cases he : t.add p h ms methods with
  | ok t' =>
    obtain ⟨_, _, _, _, _, h4⟩ := add_ok_stages he
    exact absurd h4 (checkMethods_live t p (effMethods methods) [] hm hat)
  | error e => exact ⟨⟨e, rfl⟩, by simp only [Tree.step, he]⟩

/-- …with the error `dupMethod` when the pattern is acceptable and no registered method is reserved or unknown. -/
theorem C17_dup_live_eff_class (t : Tree) (p : Bytes) (h : Handler) (ms : List Nat) (methods : List Bytes)
    (path : List Nat) (n : Node) (m : Bytes)
    (hpath : t.root.findPath p = some path) (hn : t.root.getAt path = some n)
    (hm : m ∈ effMethods methods) (hlive : n.handlers.contains m = true)
    (hgood : ∀ m ∈ effMethods methods, ¬ BadMethod t.hasTrace m)
    {a : Option Bool} (hamb : t.root.checkAmb t.ic p false = .ok a) (ha : a ≠ some true)
    {segs : List Seg} (hsp : split t.ic p = .ok segs) :
    t.add p h ms methods = .error .dupMethod := by
  have hat : t.hasMethodAt p m = true := by simp [Tree.hasMethodAt, hpath, hn, hlive]
  cases hc : t.checkMethods p (effMethods methods) [] with
  | ok u => exact absurd hc (checkMethods_live t p (effMethods methods) [] hm hat)
  | error e =>
    have := checkMethods_error_dup t p (effMethods methods) [] e hgood hc
    subst this
    rw [add_eq, hamb]
    cases a with
    | none => simp only [hsp, hc]
    | some b =>
      cases b with
      | true => exact absurd rfl ha
      | false => simp only [hsp, hc]

/-- From the table to the node: on a tree satisfying the table invariant, a live pair `(p, m)` of the table read
off the tree is an entry of the node `findPath` finds for `p`. -/
theorem live_pair_findPath {t : Tree} (hinv : TInv t) {p m : Bytes} (hl : (tableOf t).has p m) :
    ∃ path n, t.root.findPath p = some path ∧ t.root.getAt path = some n ∧ n.handlers.contains m = true := by
  obtain ⟨e, he, hep, hk⟩ := (has_tableOf t p m).1 hl
  obtain ⟨y, hy, _, rfl⟩ := mem_liveL.1 he
  simp only at hep hk
  have hsome := findPath_complete t.ic t.root hinv.sh p ⟨y, hy, by rw [hep, hinv.rootPat]; rfl⟩
  obtain ⟨path, hpath⟩ := Option.isSome_iff_exists.1 hsome
  obtain ⟨x, hx, hxp, hpne⟩ := findPath_sound t.ic t.root hinv.sh p path hpath
  rw [hinv.rootPat, List.nil_append] at hxp
  have hxmem : x ∈ nodesL t.root.children := by
    cases path with
    | nil => exact absurd rfl hpne
    | cons i path => exact getAt_mem_below hx
  have : x = y := node_unique hinv.sh hxmem hy (by rw [hxp, hep])
  subst this
  exact ⟨path, x, hpath, hx, (AMap.contains_iff _ _).2 (mem_regKeys.1 hk).1⟩

/-- **Table form on one tree.**  On the tree of a well-formed history: `(p, m)` is a live pair of the table read
off the tree and the call registers `m`: never accepted, the tree is unchanged. -/
theorem C17_dup_table (t : Tree) (hr : P14.ReachAll t) (p m : Bytes) (hl : (tableOf t).has p m)
    (h : Handler) (ms : List Nat) (methods : List Bytes) (hm : m ∈ effMethods methods) :
    (∃ e, t.add p h ms methods = .error e) ∧ t.step (.add p h ms methods) = t := by
  obtain ⟨path, n, hpath, hn, hlive⟩ := live_pair_findPath hr.inv.ti hl
  exact C17_dup_live_eff t p h ms methods path n m hpath hn hm hlive

/-- **`C17_dup_history`: a duplicate pattern+method is always rejected**, against the abstract table of the history.
For every history `ops` of `add/remove/clean/use` on a fresh tree whose registered patterns are well-formed: if
`(p, m)` is a live pair of the abstract table `specRun … ops` (`C03_table`) and `m` is among the methods the new
`Handle(p, h, ms, methods…)` registers — listed, or in the default set when `methods = []` — then the call is
rejected and the tree is unchanged. -/
theorem C17_dup_history (name : Bytes) (ic : Interceptors) (nf : Handler) (tr : Option Handler) (ob nb : Base)
    (ops : List TOp) (hw : C03.WfOps ops) (p m : Bytes)
    (hl : (specRun (Tree.new name ic nf tr ob nb) ops).has p m)
    (h : Handler) (ms : List Nat) (methods : List Bytes) (hm : m ∈ effMethods methods) :
    let t := (Tree.new name ic nf tr ob nb).run ops
    (∃ e, t.add p h ms methods = .error e) ∧ t.step (.add p h ms methods) = t := by
  intro t
  have hsim := sim_history name ic nf tr ob nb ops hw
  exact C17_dup_table t ⟨name, ic, nf, tr, ob, nb, ops, hw, rfl⟩ p m ((hsim.has p m).2 hl) h ms methods hm

/-- **Router form.**  `NewRouter(cfg)`, any history of `Handle/Remove/Clean/Use` with well-formed registered
patterns; `(p, m)` a live pair of the route table of the history (`C01.routerTable`); a `Handle(p, h, mw, methods…)`
that registers `m`: it is rejected (`Router.handle` answers an error — the Go code panics) and the router is what it
was: same tree, hence the same `Routes()`, the same answer to every request. -/
theorem C17_dup_router {cfg : RouterCfg} {r0 : Router} (hnew : Router.new cfg = some r0) (ops : List ROp)
    (hops : ∀ op ∈ ops, C01.ROp.wf op = true) (p m : Bytes) (hl : (C01.routerTable r0 ops).has p m)
    (h : Nat) (mw : List Nat) (methods : List Bytes) (hm : m ∈ effMethods methods) :
    (∃ e, (r0.run ops).handle p h mw methods = .error e) ∧
      (r0.run ops).step (.handle p h mw methods) = r0.run ops ∧
      r0.run (ops ++ [.handle p h mw methods]) = r0.run ops := by
  obtain ⟨_, hhas, _, _⟩ := C01.C01_router_table hnew ops hops
  obtain ⟨⟨e, he⟩, _⟩ := C17_dup_table (r0.run ops).tree (C01.C01_router_reach hnew hops).1 p m ((hhas p m).2 hl)
    { base := .user h } (mw ++ (r0.run ops).ms) methods hm
  have herr : (r0.run ops).handle p h mw methods = .error e := by
    simp only [Router.handle, he, bind, Except.bind]
  have hstep : (r0.run ops).step (.handle p h mw methods) = r0.run ops := by
    simp only [Router.step, herr]
  refine ⟨⟨e, herr⟩, hstep, ?_⟩
  unfold Router.run
  rw [List.foldl_append, List.foldl_cons, List.foldl_nil]
  exact hstep

/-! ## Non-vacuity -/

/-- On the router with the single route `("/u/{id}", GET)` (history `C01.exOps`): `(/u/{id}, GET)` is a live pair of the
route table, GET is in the DEFAULT method set, so `Handle("/u/{id}", h)` WITHOUT methods — the case `C17_dup_live`
does not cover — is rejected by `C17_dup_router`; by evaluation the error is `dupMethod`. -/
example : Router.new C01.exCfg = some C01.exR0 ∧ (∀ op ∈ C01.exOps, C01.ROp.wf op = true) ∧
    (C01.routerTable C01.exR0 C01.exOps).has (bytesOfString "/u/{id}") mGET ∧ mGET ∈ effMethods [] := by
  refine ⟨rfl, C01.exOps_wf, ?_, by decide⟩
  refine ⟨[mGET], ?_, by decide⟩
  have : C01.routerTable C01.exR0 C01.exOps = [(bytesOfString "/u/{id}", [mGET])] := by
    unfold C01.routerTable
    simp only [C01.exOps, C01.routerTableFrom, Spec.stepWith, P18.topOf]
    mux_eval [C01.exR0]
  rw [this]
  exact List.mem_singleton.2 rfl

example : (match (C01.exR0.run C01.exOps).handle (bytesOfString "/u/{id}") 9 [] [] with
    | .error e => some e | .ok _ => none) = some .dupMethod := by
  mux_eval [C01.exOps, C01.exR0]

end Mux.C17
