/-
  C06 (the `Allow` header of a 405/OPTIONS response) — clause "every response is one the router could
  have produced sequentially at some instant between the request's start and end", read honestly.

  In Go a request that ends in the 405 (or automatic OPTIONS) handler is TWO critical sections of the
  router's RW lock: `Tree.Handler` (the tree walk that picks node and handler), and later — from inside
  the handler — `node.AllowHeader()` → `node.methodIndexEntity` (regenerated lock shape
  `[acqR, read node.methodIndex]`, one of `Ties.lockedApi`).  A writer may run in between.

  This file extends the system `Conc.treeSys` by that second reader (`AOp.allow`, in a NEW system
  `treeSysA`; nothing existing is changed), models the request as the one-thread program
  `[Handler(path, method), Allow(pattern)]`, and proves

  * `C06_allow_two_point` — the TWO-point statement that is true for every schedule: handler and
    parameters are those of ONE sequential state `l₁`, the `Allow` text that of ONE sequential state
    `l₂`, with `start ≤ l₁ ≤ l₂ ≤ end` inside the request's window;
  * `C06_allow_one_state` — sequentially (any single state of any well-formed history) a 405 answer of
    a node other than the `*` root never lists the refused method in that node's `Allow` text;
  * `C06_allow_one_point_false` — a kernel-checked schedule in which the request `PUT /a` is answered
    `405` with `Allow: GET, HEAD, OPTIONS, PUT`: by the previous item NO single sequential state
    produces this response, so the one-point reading of the clause is false for the `Allow` header.
-/
import Mux.Properties.C06
import Mux.Properties.C04
import Mux.Proofs.ConcProg
import Mux.Proofs.UrlTree
import Mux.Proofs.FrameExamples
namespace Mux.C06
open Mux Mux.RWLock Mux.Conc Mux.P14

/-! ## The system with the second critical section -/

/-- The calls of `Conc.Op`, plus `node.AllowHeader()` for the node registered under `pattern` (the Go
handler holds a pointer to the node the tree walk found; the model addresses it by its pattern, which
identifies a node of the tree — `P11.node_unique`). -/
inductive AOp where
  | base (op : Op)
  | allow (pattern : Bytes)

inductive AResp where
  | base (r : Resp)
  /-- `none`: no node with this pattern is in the tree any more -/
  | allow (text : Option Bytes)

/-- `AllowHeader()` of the node with this pattern in the current tree. -/
def allowOf (t : Tree) (pattern : Bytes) : Option Bytes :=
  ((t.root.findPath pattern).bind t.root.getAt).map Node.allow

def AOp.isWriter : AOp → Bool
  | .base op => op.isWriter
  | .allow _ => false

def AOp.api : AOp → String
  | .base op => op.api
  | .allow _ => "node.methodIndexEntity"

def asem (env : Env) : AOp → Tree → Tree × AResp
  | .base op, t => ((sem env op t).1, .base (sem env op t).2)
  | .allow p, t => (t, .allow (allowOf t p))

def AOp.toTOp? : AOp → Option TOp
  | .base op => op.toTOp?
  | .allow _ => none

theorem allow_accs_facts : ∀ a ∈ accsOf "node.methodIndexEntity", a.2 = false := by decide

/-- The locked helper is one read-mode critical section (regenerated fact), and it is one of the
methods whose discipline `C06_discipline` checks. -/
theorem C06_allow_mode_tie : (Ties.shapeOf "node.methodIndexEntity").bind Ties.firstAcq = some false ∧
    "node.methodIndexEntity" ∈ Ties.lockedApi := by decide

@[reducible] def treeSysA (env : Env) : Sys where
  σ := Tree
  Op := AOp
  Resp := AResp
  Loc := String
  mode := AOp.isWriter
  sem := asem env
  accs := fun op => accsOf op.api
  reader_pure := by
    intro op s h
    cases op with
    | base op => exact (treeSys env).reader_pure op s h
    | allow p => rfl
  reader_accs := by
    intro op h
    cases op with
    | base op => exact (treeSys env).reader_accs op h
    | allow p => exact allow_accs_facts

theorem runA_eq (env : Env) (t : Tree) (ops : List AOp) :
    run (treeSysA env) t ops = t.run (ops.filterMap AOp.toTOp?) := by
  induction ops generalizing t with
  | nil => rfl
  | cons op ops ih =>
    have : run (treeSysA env) t (op :: ops) = run (treeSysA env) ((asem env op t).1) ops := rfl
    rw [this, ih]
    cases op with
    | base op => cases op <;> rfl
    | allow p => rfl

/-! ## The two-point theorem -/

/-- **C06 for the `Allow` header: two linearization points.**  On a tree used under `WithLock(true)` by
any number of goroutines running any programs (writers included), under any schedule: let thread `i`
be a request, i.e. its program is `[Handler(path, [], method), Allow(pat)]`, and let both calls have
completed (records `A`, `B`).  Then there are indices `l₁ ≤ l₂` into the writer order `c.wlog` with
`A.start ≤ l₁` (`A.start` = number of writer effects when the request started) and `l₂ ≤ B.fin ≤ |wlog|`
(`B.fin` = number of writer effects when the request ended), such that

* the handler answer (node, handler, `ok`, parameters) is `Tree.handler` of the sequentially reachable
  tree after the first `l₁` writers, and
* the `Allow` text is that of the sequentially reachable tree after the first `l₂` writers.

No hypothesis beyond reachability.  That `l₁ = l₂` can NOT be had is `C06_allow_one_point_false`. -/
theorem C06_allow_two_point (env : Env) (t0 : Tree) (progs : Nat → List AOp) (c : Config (treeSysA env))
    (h : Reachable (S := treeSysA env) t0 progs c) (i : Nat) (path method pat : Bytes)
    (hp : progs i = [.base (.handler path [] method), .allow pat])
    (A B : RWLock.Rec (treeSysA env)) (hA : A ∈ c.done) (hB : B ∈ c.done) (hAi : A.tid = i) (hBi : B.tid = i)
    (hAo : A.call.op = .base (.handler path [] method)) (hBo : B.call.op = .allow pat) :
    ∃ l1 l2, A.call.start ≤ l1 ∧ l1 ≤ l2 ∧ l2 ≤ B.fin ∧ B.fin ≤ c.wlog.length ∧
      A.resp = .base (.handler ((t0.run ((c.wlog.take l1).filterMap AOp.toTOp?)).handler env path [] method)) ∧
      B.resp = .allow (allowOf (t0.run ((c.wlog.take l2).filterMap AOp.toTOp?)) pat) := by
  have hI := atomic_reachable h
  have hord := two_ops_ordered h hp (by simp) hA hB hAi hBi hAo hBo
  have hrt := (hI.realtime hA hB hord).1
  have ha := hI.recs A hA
  have hb := hI.recs B hB
  refine ⟨A.lin, B.lin, ha.start_le, hrt, hb.lin_le, hb.fin_le, ?_, ?_⟩
  · rw [ha.resp_eq, runA_eq, hAo]; rfl
  · rw [hb.resp_eq, runA_eq, hBo]; rfl

/-! ## One sequential state never lists the refused method -/

/-- **Sequentially.**  In the tree of any history with well-formed registered patterns: if the request
`(path, method)` is refused (`ok = false`) with the node `q` and `q` is not the root (the node of `*`,
whose `Allow` lists the methods of ALL routes), then the `Allow` text of `q` in the SAME tree is the
`", "`-join of `q.Methods()`, and `method` is not among them. -/
theorem C06_allow_one_state (t : Tree) (hr : ReachAll t) (env : Env) (path method : Bytes) (f : Found) (q : Node)
    (hres : t.handler env path [] method = .res f) (hok : f.ok = false) (hq : f.node = some q)
    (hroot : q.pattern ≠ []) :
    allowOf t q.pattern = some (joinWith [44, 32] q.methods) ∧ method ∉ q.methods := by
  have hinv := hr.inv
  have hwf := hr.reachWf
  -- the shape of the answer
  have hspec : q ∈ t.root.nodes ∧ q.handlers ≠ [] ∧ (method = mNotAllowed ∨ q.handlers.get? method = none) ∧
      ¬ (t.trace.isSome = true ∧ method = mTRACE) := by
    rcases handler_spec hinv.treeInv env path [] method with ⟨f', h1, h2⟩ | h1
    · rw [hres] at h1; injection h1 with h1; subst h1
      cases h2 with
      | notFound h _ _ => rw [hq] at h; cases h
      | trace _ _ _ _ _ h => rw [hok] at h; cases h
      | found _ _ _ _ _ _ h => rw [hok] at h; cases h
      | notAllowed n h1 h2 h3 h4 _ _ =>
        rw [hq] at h1; injection h1 with h1; subst h1
        refine ⟨h2, h3, h4, fun ⟨ht, hm⟩ => ?_⟩
        cases htr : t.trace with
        | none => rw [htr] at ht; cases ht
        | some hh =>
          have : t.handler env path [] method = .res { node := some t.root, handler := hh, ok := true, params := [] } := by
            unfold Tree.handler; simp [htr, hm]
          rw [hres] at this; injection this with this
          rw [this] at hok; cases hok
    · rw [hres] at h1; cases h1
  obtain ⟨hmem, hne, hnone, hntr⟩ := hspec
  have hbelow : q ∈ nodesL t.root.children := by
    have : t.root.nodes = t.root :: nodesL t.root.children := by
      cases hroot' : t.root; simp [Node.nodes, Node.children]
    rw [this, List.mem_cons] at hmem
    rcases hmem with rfl | h
    · exact absurd hinv.rootPat hroot
    · exact h
  -- `find` returns this node
  have htinv := P13.reach_tinv hwf
  have hsome := P11.findPath_complete t.ic t.root htinv.sh q.pattern ⟨q, hbelow, by rw [htinv.rootPat]; rfl⟩
  have hallow : allowOf t q.pattern = some q.allow := by
    cases hf : t.root.findPath q.pattern with
    | none => rw [hf] at hsome; cases hsome
    | some p =>
      obtain ⟨x, segs', h1, _, _, h4, h5⟩ := P13.reach_findPath hwf hf
      have hxn : x = q := P11.node_unique htinv.sh h4 hbelow h5
      subst hxn
      simp [allowOf, hf, h1]
  have hC := C04.C04_node_inv hinv.treeInv hbelow hne
  refine ⟨by rw [hallow, hC.2.2.2.2.2.2.2], fun hm => ?_⟩
  rcases (hC.2.2.2.1 method).1 hm with ⟨hk, hna⟩ | ⟨ht, hmt⟩
  · rcases hnone with h | h
    · exact hna h
    · have := (AMap.get?_isSome_iff q.handlers method).2 hk
      rw [h] at this; cases this
  · exact hntr ⟨by simpa [Tree.hasTrace] using ht, hmt⟩

/-! ## The one-point reading is false -/

/-- `/a` -/
def exA : Bytes := [47, 97]
/-- `GET, HEAD, OPTIONS, PUT` -/
def exAllowText : Bytes := [71, 69, 84, 44, 32, 72, 69, 65, 68, 44, 32, 79, 80, 84, 73, 79, 78, 83, 44, 32, 80, 85, 84]
/-- Set-up: `GET /a`. -/
def exTa : Tree := exT0.run [.add exA { base := .user 1 } [] [mGET]]
/-- Thread 0 is the request `PUT /a` (tree walk, then the `Allow` header of the node found); thread 1
registers `PUT /a`. -/
def exProgsA : Nat → List AOp := fun i =>
  if i = 0 then [.base (.handler exA [] mPUT), .allow exA]
  else if i = 1 then [.base (.add exA { base := .user 3 } [] [mPUT])] else []

theorem exTa_reach : ReachAll exTa := ⟨_, _, _, _, _, _, _, by decide, rfl⟩

/-- Before the registration, `PUT /a` is refused by the node of `/a`. -/
theorem exTa_refused : ∃ f q, exTa.handler exEnv exA [] mPUT = .res f ∧ f.node = some q ∧ q.pattern = exA ∧
    f.handler = { base := .notAllowed, wraps := [] } ∧ f.ok = false ∧ f.params = [] :=
  views_spec (by mux_eval [exTa, exT0]) (by mux_eval [exTa, exT0]) (by mux_eval [exTa, exT0]) (by mux_eval [exTa, exT0])

/-- After it, the `Allow` text of that node lists PUT. -/
theorem exTa_allow_after :
    allowOf (exTa.step (.add exA { base := .user 3 } [] [mPUT])) exA = some exAllowText := by
  mux_eval [exTa, exT0, allowOf]

/-- Non-vacuity of `C06_allow_one_state`: its hypotheses hold of the reached tree `exTa` (`GET /a`) and the
request `PUT /a`, which is refused by the node of `/a`; so that node's `Allow` text does not list PUT. -/
example : ∃ f q, exTa.handler exEnv exA [] mPUT = .res f ∧ f.ok = false ∧ f.node = some q ∧ q.pattern ≠ [] ∧
    allowOf exTa q.pattern = some (joinWith [44, 32] q.methods) ∧ mPUT ∉ q.methods := by
  obtain ⟨f, q, hres, hq, hp, _, hok, _⟩ := exTa_refused
  have hne : q.pattern ≠ [] := by rw [hp]; decide
  exact ⟨f, q, hres, hok, hq, hne, C06_allow_one_state exTa exTa_reach exEnv exA mPUT f q hres hok hq hne⟩

theorem mem_joinWith (sep : Bytes) (b : UInt8) : ∀ ms : List Bytes, b ∈ joinWith sep ms → b ∈ sep ∨ ∃ m ∈ ms, b ∈ m
  | [], h => by simp [joinWith] at h
  | [x], h => .inr ⟨x, by simp, by simpa [joinWith] using h⟩
  | x :: y :: ms, h => by
    simp only [joinWith, List.mem_append] at h
    rcases h with (h | h) | h
    · exact .inr ⟨x, by simp, h⟩
    · exact .inl h
    · rcases mem_joinWith sep b (y :: ms) h with h | ⟨m, hm, hb⟩
      · exact .inl h
      · exact .inr ⟨m, List.mem_cons_of_mem _ hm, hb⟩

/-- A rendering of `Methods()` whose `", "`-join is `GET, HEAD, OPTIONS, PUT` contains PUT (the text has
a `U`, and PUT is the only method name with a `U`). -/
theorem lists_put (i : Nat) (h : joinWith [44, 32] (renderMethods i) = exAllowText) : mPUT ∈ renderMethods i := by
  have hb : (85 : UInt8) ∈ joinWith [44, 32] (renderMethods i) := by rw [h]; decide
  rcases mem_joinWith _ _ _ hb with h | ⟨m, hm, hbm⟩
  · exact absurd h (by decide)
  · have hmt := (C04.C04_render_all i).2.2.1 m hm
    have : ∀ m ∈ methodsTable, (85 : UInt8) ∈ m → m = mPUT := by decide
    exact this m hmt hbm ▸ hm

/-- **The one-point reading of the clause is false for the `Allow` header.**  A schedule of the
two-thread program `exProgsA` on the router with `GET /a` — the tree walk of the request `PUT /a`, then
the whole `Handle(PUT /a)` of the other goroutine, then the `AllowHeader()` call of the request — in
which the request is answered

    405 (the `""` entry of the node of `/a`, `ok = false`)  with  `Allow: GET, HEAD, OPTIONS, PUT`,

while in NO tree of ANY history with well-formed registered patterns (so in no sequential state
whatsoever, inside or outside the request's window) a `PUT /a` refused by the node of `/a` has an
`Allow` text that lists PUT (`C06_allow_one_state`).  The two-point theorem applies to this run with
`l₁ = 0 < l₂ = 1`. -/
theorem C06_allow_one_point_false :
    ∃ (c : Config (treeSysA exEnv)) (A B : RWLock.Rec (treeSysA exEnv)) (f : Found) (q : Node),
      Reachable (S := treeSysA exEnv) exTa exProgsA c ∧ A ∈ c.done ∧ B ∈ c.done ∧ A.tid = 0 ∧ B.tid = 0 ∧
      A.call.op = .base (.handler exA [] mPUT) ∧ B.call.op = .allow exA ∧ A.lin = 0 ∧ B.lin = 1 ∧
      A.resp = .base (.handler (.res f)) ∧ f.ok = false ∧ f.node = some q ∧ q.pattern = exA ∧
      B.resp = .allow (some exAllowText) ∧
      ∀ t, ReachAll t → ∀ f' q', t.handler exEnv exA [] mPUT = .res f' → f'.ok = false → f'.node = some q' →
        q'.pattern = exA → allowOf t exA ≠ some exAllowText := by
  obtain ⟨f, q, hres, hq, hp, _, hok, _⟩ := exTa_refused
  have h0 : Reachable (S := treeSysA exEnv) exTa exProgsA (Config.init _ exProgsA) := .init
  obtain ⟨c1, A, h1, s1, l1, t1, w1, d1, a1, a2, _, a4, a5⟩ := solo h0 (i := 0) (op := AOp.base (.handler exA [] mPUT))
    (rest := [.allow exA]) rfl rfl
  obtain ⟨c2, W, h2, s2, l2, t2, w2, d2, _, _, _, _, _⟩ := solo h1 (i := 1)
    (op := AOp.base (.add exA { base := .user 3 } [] [mPUT])) (rest := []) (by rw [t1 1]; rfl) l1
  obtain ⟨c3, B, h3, s3, l3, t3, w3, d3, b1, b2, _, b4, b5⟩ := solo h2 (i := 0) (op := AOp.allow exA)
    (rest := []) (by rw [t2 0, upd_other _ _ _ _ (by decide), t1 0]; rfl) l2
  refine ⟨c3, A, B, f, q, h3, by rw [d3, d2, d1]; simp, by rw [d3]; simp, a1, b1, a2, b2, a5,
    by rw [b5, w2, w1]; rfl, ?_, hok, hq, hp, ?_, ?_⟩
  · rw [a4]; show AResp.base (Resp.handler (exTa.handler exEnv exA [] mPUT)) = _; rw [hres]
  · rw [b4, s2, s1]
    show AResp.allow (allowOf (exTa.step (.add exA { base := .user 3 } [] [mPUT])) exA) = _
    rw [exTa_allow_after]
  · intro t hr f' q' hres' hok' hq' hp' hall
    have hne : q'.pattern ≠ [] := by rw [hp']; decide
    obtain ⟨e1, e2⟩ := C06_allow_one_state t hr exEnv exA mPUT f' q' hres' hok' hq' hne
    rw [hp', hall] at e1
    injection e1 with e1
    exact e2 (lists_put _ e1.symm)

/-- Non-vacuity of `C06_allow_two_point`: it applies to that run, and there `l₁ < l₂` is forced. -/
example : ∃ (c : Config (treeSysA exEnv)) (A B : RWLock.Rec (treeSysA exEnv)),
    Reachable (S := treeSysA exEnv) exTa exProgsA c ∧ A ∈ c.done ∧ B ∈ c.done ∧ A.tid = 0 ∧ B.tid = 0 ∧
    A.call.op = .base (.handler exA [] mPUT) ∧ B.call.op = .allow exA ∧ exProgsA 0 = [.base (.handler exA [] mPUT), .allow exA] ∧
    A.lin < B.lin := by
  obtain ⟨c, A, B, _, _, h, hA, hB, a1, b1, a2, b2, a5, b5, _⟩ := C06_allow_one_point_false
  exact ⟨c, A, B, h, hA, hB, a1, b1, a2, b2, rfl, by omega⟩

end Mux.C06
