/-
  C02 for ALL histories (`Handle`, `Remove`, `Clean`, `Use` in any order, whatever the verdicts): how far
  does the refinement of the tree-free reference resolver `Spec.resolveAll` (`C02_resolve`, proved in
  `C02resolve.lean` for add-only histories) extend to histories that delete?

  INTENDED STATEMENT (`C02_resolve_all`): for every history `ops` with `WfOps ops`,
  `t := (Tree.new …).run ops`, every list `rs` with exactly the members of `(tableOf t).patterns`, every
  path other than `""`/`*`, no TRACE short-circuit: the outcome of `t.handler env path [] m` is
  `Admissible env ic rs path`, and it is 404 iff `resolveAll env ic rs path = []`.

  THIS STATEMENT IS FALSE — for the model and for the Go code (`C02_resolve_all_counterexample`):
  `Remove` deletes emptied leaves but never re-merges a node that has lost its handlers (or all but one
  of its children) with its single remaining child.  For LITERAL nodes this is invisible (a literal
  text is matched as a prefix, in one step or in two), for a PARAMETER node it is not: `{a}/` followed
  by the literal child `x` ends the capture at the first `/`, the merged node `{a}/x` of a freshly
  built router at the first `/x`.  So the dispatch depends on the history, not only on the route table.

  PROVED instead:
  * `C02_resolve_all_partial` / `C02_resolve_all_404_partial`: the intended statement for every history
    whose final tree satisfies `ParamStops` — below no parameter node do all live routes continue with
    one and the same literal byte.  Nothing else is asked: handler-less literal chains, unforked
    interior nodes and dead subtrees (what `Remove`/`Clean` leave behind) are covered, the tree need not
    be canonical.  `ParamStops` is decidable, it is violated by the counterexample, and it holds after
    every add-only history (`C02_resolve_all_addonly`), so the theorem contains `C02_resolve`.
  * `C02_resolve_all_chain`: unconditionally, for ALL histories, the answer is the FIRST chain of the
    tree's own segmentation in depth-first order, its route is a live route, and the answer is 404 iff
    no chain of per-segment matches reaches a node with handlers.  The gap to the intended statement
    is exactly "first occurrence of the node's own suffix" vs. "first occurrence of the merged suffix".
-/
import Mux.Properties.C02resolve
import Mux.Properties.C03
import Mux.Proofs.ResolveAllStops
import Mux.Proofs.ResolveAllChain
import Mux.Proofs.ResolveAllExamples
namespace Mux.C02
open Mux Mux.P8 Mux.P15 Mux.P16 Mux.Spec Mux.C03

/-! ## The intended statement is false -/

/-- **Counterexample to `C02_resolve_all`.**  History: `Handle("/{a}/")`, `Handle("/{a}/x")`,
`Remove("/{a}/")` (well-formed; the tree keeps `/` → `{a}/` → `x`, the node `{a}/` without handlers).
The route table is `["/{a}/x"]`, the same as that of a fresh router on which only `/{a}/x` is
registered (tree `/` → `{a}/x`).  `GET /1/y/x`:
  * after the history: 404 (the capture of `{a}/` ends at the first `/`, then `x` does not match `y/x`);
  * the reference resolver: exactly one outcome, `/{a}/x` with `a = 1/y` — not admissible, and
    "404 iff the resolver finds nothing" fails;
  * the fresh router: `/{a}/x` with `a = 1/y`.
Hence two routers with the same route table answer differently.  Confirmed on the Go code (probe
`/tmp/agents/P16/goprobe`, `std.NewRouter`: 200 `a=1/y` fresh, 404 after the history, `Routes()` equal;
the same with `Handle("/{a}/x")`, `Handle("/{a}/y")`, `Remove("/{a}/y")`, see
`C02_resolve_all_counterexample_fork`). -/
theorem C02_resolve_all_counterexample :
    WfOps cexOps ∧ WfOps cexFresh ∧
    (tableOf (P15.exT0.run cexOps)).patterns = [cexP] ∧ (tableOf (P15.exT0.run cexFresh)).patterns = [cexP] ∧
    (∃ f, (P15.exT0.run cexOps).handler P15.envAll cexPath [] mGET = .res f ∧ f.node = none ∧
      ¬ Admissible P15.envAll [] [cexP] cexPath (outcome f) ∧ resolveAll P15.envAll [] [cexP] cexPath ≠ []) ∧
    (∃ f, (P15.exT0.run cexFresh).handler P15.envAll cexPath [] mGET = .res f ∧
      outcome f = some (cexP, [([97], [49, 47, 121])])) ∧
    ¬ ParamStops (P15.exT0.run cexOps) := by
  refine ⟨cexOps_wf, cexFresh_wf, cexOps_table, cexFresh_table, ?_, ?_, cexOps_not_stops⟩
  · have h1 := cexOps_answer
    have h2 := cexOps_isRes
    cases hr : (P15.exT0.run cexOps).handler P15.envAll cexPath [] mGET with
    | res f =>
      rw [hr] at h1
      simp only [resOf, Option.map_eq_none_iff] at h1
      refine ⟨f, rfl, h1, ?_, by rw [cex_resolver]; simp⟩
      unfold outcome
      rw [h1]
      simp only [Option.map_none, Admissible, cex_resolver]
      simp
    | fault s => rw [hr] at h2; cases h2
    | unsupported => rw [hr] at h2; cases h2
  · have h1 := cexFresh_answer
    cases hr : (P15.exT0.run cexFresh).handler P15.envAll cexPath [] mGET with
    | res f => rw [hr] at h1; exact ⟨f, rfl, h1⟩
    | fault s => rw [hr] at h1; cases h1
    | unsupported => rw [hr] at h1; cases h1

/-- The same with a fork that is undone: `Handle("/{a}/x")`, `Handle("/{a}/y")`, `Remove("/{a}/y")` leaves
`/` → `{a}/` → `x` as well (the node `{a}/` was created by the split, it never had handlers). -/
theorem C02_resolve_all_counterexample_fork :
    WfOps cex2Ops ∧ (tableOf (P15.exT0.run cex2Ops)).patterns = [cexP] ∧
    (∃ f, (P15.exT0.run cex2Ops).handler P15.envAll cexPath [] mGET = .res f ∧ f.node = none ∧
      ¬ Admissible P15.envAll [] [cexP] cexPath (outcome f)) ∧
    ¬ ParamStops (P15.exT0.run cex2Ops) := by
  refine ⟨cex2Ops_wf, cex2Ops_table, ?_, cex2Ops_not_stops⟩
  have h1 := cex2Ops_answer
  have h2 := cex2Ops_isRes
  cases hr : (P15.exT0.run cex2Ops).handler P15.envAll cexPath [] mGET with
  | res f =>
    rw [hr] at h1
    simp only [resOf, Option.map_eq_none_iff] at h1
    refine ⟨f, rfl, h1, ?_⟩
    unfold outcome
    rw [h1]
    simp only [Option.map_none, Admissible, cex_resolver]
    simp
  | fault s => rw [hr] at h2; cases h2
  | unsupported => rw [hr] at h2; cases h2

/-! ## The statement under `ParamStops` -/

/-- **`ParamStops` in plain words**: it FAILS exactly when some parameter node below the root has a live
route below it and all live routes below it continue — relative to the node — with one and the same
literal byte (`rems c`: the remaining texts of the live routes below `c`, paired with the routes). -/
theorem C02_paramStops_iff (t : Tree) :
    ¬ ParamStops t ↔ ∃ c ∈ nodesL t.root.children, c.seg.kind ≠ .str ∧ rems c ≠ [] ∧
      ∃ b, b ≠ startByte ∧ ∀ r ∈ rems c, r.1.head? = some b := by
  unfold ParamStops
  constructor
  · intro h
    refine Classical.byContradiction fun hno => h fun c hc hk => ?_
    refine Classical.byContradiction fun he => hno ⟨c, hc, hk, (ext_ne_nil_iff c).1 he⟩
  · rintro ⟨c, hc, hk, h⟩ hall
    exact (ext_ne_nil_iff c).2 h (hall c hc hk)

/-- Tree form: every tree reached by a history of well-formed registrations (`ReachAll`: adds, removes,
cleans, middleware, in any order) that satisfies `ParamStops`. -/
theorem C02_resolve_all_reach (env : Env) (t : Tree) (ht : P14.ReachAll t) (hstop : ParamStops t) (rs : List Bytes)
    (hrs : ∀ p, p ∈ rs ↔ p ∈ (tableOf t).patterns) (path : Bytes) (hp : path ≠ []) (hstar : path ≠ [42])
    (method : Bytes) (htr : t.trace = none ∨ method ≠ mTRACE) (f : Found) (h : t.handler env path [] method = .res f) :
    Admissible env t.ic rs path (outcome f) := by
  have hinv := ht.inv
  have hlens : ∀ p ∈ (tableOf t).patterns, PieceLens p := by
    obtain ⟨name, ic, nf, tr, ob, nb, ops, hops, rfl⟩ := ht
    exact history_lens name ic nf tr ob nb ops hops
  have href := refines_tree env t hinv.s2 hinv.ti (goodTree_of hinv.ti hstop hlens) hinv.names path hp
  rw [C02_spec_order_independent env t.ic _ _ hrs path _]
  rw [Tree.handler_noTrace htr] at h
  rcases handlerNoTrace_res h with ⟨ps', hr, hnone, _⟩ | ⟨m, ps', hr, hnil, _⟩ | ⟨m, ps', hr, _, hsome, hps, _⟩
  · rw [Tree.matchRes_of_ne hp hstar] at hr
    unfold outcome; rw [hnone]
    exact href.2 ps' hr
  · rw [Tree.matchRes_of_ne hp hstar] at hr
    obtain ⟨_, _, _, _, h4, _⟩ := Node.matchChildren_hit hr
    exact absurd hnil h4
  · rw [Tree.matchRes_of_ne hp hstar] at hr
    unfold outcome; rw [hsome, hps]
    exact href.1 m ps' hr

/-- **`C02_resolve_all_partial`.**  For EVERY history of well-formed registrations (adds, removes,
cleans in any order, whatever the verdicts) whose final tree satisfies `ParamStops`, and every list
`rs` of exactly the live routes: every dispatch of a path other than `""` and `*` answers with a route
and parameters that the documented procedure admits for `rs`, and with 404 only if the procedure finds
no route.  Missing for the full statement: the hypothesis `ParamStops`, which cannot be dropped
(`C02_resolve_all_counterexample`). -/
theorem C02_resolve_all_partial (env : Env) (name : Bytes) (ic : Interceptors) (nf : Handler) (tr : Option Handler)
    (ob nb : Base) (ops : List TOp) (hw : WfOps ops)
    (hstop : ParamStops ((Tree.new name ic nf tr ob nb).run ops)) (rs : List Bytes)
    (hrs : ∀ p, p ∈ rs ↔ p ∈ (tableOf ((Tree.new name ic nf tr ob nb).run ops)).patterns)
    (path : Bytes) (hp : path ≠ []) (hstar : path ≠ [42]) (method : Bytes) (htr : tr = none ∨ method ≠ mTRACE)
    (f : Found) (h : ((Tree.new name ic nf tr ob nb).run ops).handler env path [] method = .res f) :
    Admissible env ic rs path (outcome f) := by
  have hcfg := sameCfg_run (Tree.new name ic nf tr ob nb) ops
  have hic : ((Tree.new name ic nf tr ob nb).run ops).ic = ic := hcfg.2.2.1
  have htr' : ((Tree.new name ic nf tr ob nb).run ops).trace = none ∨ method ≠ mTRACE := by
    rcases htr with rfl | h
    · left
      have h1 : ((Tree.new name ic nf none ob nb).run ops).hasTrace = false := hcfg.1
      unfold Tree.hasTrace at h1
      cases ht : ((Tree.new name ic nf none ob nb).run ops).trace with
      | none => rfl
      | some _ => rw [ht] at h1; cases h1
    · exact .inr h
  have := C02_resolve_all_reach env _ ⟨name, ic, nf, tr, ob, nb, ops, hw, rfl⟩ hstop rs hrs path hp hstar method htr' f h
  rw [hic] at this
  exact this

/-- "404 exactly when the procedure finds no route", for every history whose final tree satisfies
`ParamStops`. -/
theorem C02_resolve_all_404_partial (env : Env) (name : Bytes) (ic : Interceptors) (nf : Handler) (tr : Option Handler)
    (ob nb : Base) (ops : List TOp) (hw : WfOps ops)
    (hstop : ParamStops ((Tree.new name ic nf tr ob nb).run ops)) (rs : List Bytes)
    (hrs : ∀ p, p ∈ rs ↔ p ∈ (tableOf ((Tree.new name ic nf tr ob nb).run ops)).patterns)
    (path : Bytes) (hp : path ≠ []) (hstar : path ≠ [42]) (method : Bytes) (htr : tr = none ∨ method ≠ mTRACE)
    (f : Found) (h : ((Tree.new name ic nf tr ob nb).run ops).handler env path [] method = .res f) :
    f.node = none ↔ resolveAll env ic rs path = [] := by
  have := C02_resolve_all_partial env name ic nf tr ob nb ops hw hstop rs hrs path hp hstar method htr f h
  unfold outcome at this
  cases hf : f.node with
  | none => rw [hf] at this; exact ⟨fun _ => this, fun _ => rfl⟩
  | some n =>
    rw [hf] at this
    constructor
    · intro h'; cases h'
    · intro h'; simp only [Option.map_some, Admissible] at this; rw [h'] at this; cases this

/-- The node-level refinement WITHOUT canonical form: on any tree with the invariants of a well-formed
history, for a node `n` below which no parameter node is followed by a literal text common to all live
routes (`Good`, which also carries the length bound of `NewSegment`), a hit of `matchChildren` is an
outcome of the resolver run on the remainders read off the subtree (`rems n`), and a miss means that the
resolver finds nothing. -/
theorem C02_resolve_all_node (env : Env) (t : Tree) (hs : StructInv2 t) (hti : P11.TInv t) (n : Node)
    (hn : n ∈ t.root.nodes) (hg : AllL P16.Good n.children) (path : Bytes) (ps : Params) (used : List Bytes)
    (hN : NamesOkL used n.children) (hk : ∀ k ∈ ps.keys, k ∈ used) :
    (∀ m ps', n.matchChildren env t.ic path ps = .hit m ps' → (m.pattern, ps') ∈ resolveRems env t.ic (rems n) path ps) ∧
    (∀ ps', n.matchChildren env t.ic path ps = .miss ps' → resolveRems env t.ic (rems n) path ps = []) :=
  refinesR_node env t.ic n (All_sub _ hs.all n hn) (All_sub _ hti.sh n hn) hg path ps used _ (Nat.lt_succ_self _) hN hk

/-- `ParamStops` holds after every add-only history: `C02_resolve_all_partial` contains `C02_resolve`. -/
theorem C02_resolve_all_addonly (name : Bytes) (ic : Interceptors) (nf : Handler) (tr : Option Handler) (ob nb : Base)
    (ops : List TOp) (ha : AddOnly ops) (hw : WfOps ops) : ParamStops ((Tree.new name ic nf tr ob nb).run ops) :=
  paramStops_addOnly name ic nf tr ob nb ops ha hw

/-! ## What holds for ALL histories -/

/-- **`C02_resolve_all_chain`** (no hypothesis on the tree).  For every history of well-formed
registrations and every dispatch of a path other than `""` and `*`:
  * a hit is the node reached by the FIRST chain of per-segment matches in depth-first order (children
    in list order — literal, interceptor, regexp, named —, a node's own "path used up" case last; every
    segment yields ONE candidate: prefix for a literal, first occurrence of the node's suffix accepted by
    the constraint for a named/interceptor token, leftmost-first regexp match), with the parameters of
    that chain; the node carries a live route of the table;
  * the answer is 404 exactly when NO chain reaches a node with handlers.
(That the path is the instantiated pattern of the route reached is `C05`/`HandlerSound`.)  Compared
with `Spec.resolveAll` the only difference is the text of the segments: the tree's own, which after a
`Remove` may be a proper prefix of the merged one. -/
theorem C02_resolve_all_chain (env : Env) (name : Bytes) (ic : Interceptors) (nf : Handler) (tr : Option Handler)
    (ob nb : Base) (ops : List TOp) (hw : WfOps ops) (path : Bytes) (hp : path ≠ []) (hstar : path ≠ [42])
    (method : Bytes) (htr : tr = none ∨ method ≠ mTRACE) (f : Found)
    (h : ((Tree.new name ic nf tr ob nb).run ops).handler env path [] method = .res f) :
    let t := (Tree.new name ic nf tr ob nb).run ops
    (∀ n, f.node = some n →
      n.pattern ∈ (tableOf t).patterns ∧
      ∃ is, ReachesBy env ic t.root path [] is n f.params ∧
        ∀ is' m' ps'', ReachesBy env ic t.root path [] is' m' ps'' → is' = is ∨ Before is is') ∧
    (f.node = none ↔ ¬ ∃ m ps', Reaches env ic t.root path [] m ps') := by
  intro t
  have hcfg := sameCfg_run (Tree.new name ic nf tr ob nb) ops
  have hic : t.ic = ic := hcfg.2.2.1
  have htr' : t.trace = none ∨ method ≠ mTRACE := by
    rcases htr with rfl | h
    · left
      have h1 : ((Tree.new name ic nf none ob nb).run ops).hasTrace = false := hcfg.1
      unfold Tree.hasTrace at h1
      cases ht : ((Tree.new name ic nf none ob nb).run ops).trace with
      | none => rfl
      | some _ => rw [ht] at h1; cases h1
    · exact .inr h
  have hinv : P14.AllInv t := (P14.AllInv.new name ic nf tr ob nb).run hw
  have hroot : t.root ∈ t.root.nodes := by rw [Node.nodes_eq]; exact List.mem_cons_self
  have hkeys : ∀ k ∈ AMap.keys ([] : Params), k ∈ ([] : List Bytes) := by simp [AMap.keys]
  rw [Tree.handler_noTrace htr'] at h
  rcases handlerNoTrace_res h with ⟨ps', hr, hnone, _⟩ | ⟨m, ps', hr, hnil, _⟩ | ⟨m, ps', hr, hne, hsome, hps, _⟩
  · rw [Tree.matchRes_of_ne hp hstar] at hr
    have := (C02_complete_miss env t hinv.s2 t.root hroot path [] [] hinv.names hkeys ps' hr).2
    rw [hic] at this
    refine ⟨?_, fun _ => this, fun _ => hnone⟩
    intro n hn
    rw [hnone] at hn
    cases hn
  · rw [Tree.matchRes_of_ne hp hstar] at hr
    obtain ⟨_, _, _, _, h4, _⟩ := Node.matchChildren_hit hr
    exact absurd hnil h4
  · rw [Tree.matchRes_of_ne hp hstar] at hr
    obtain ⟨is, his, hfirst⟩ := C02_first_chain env t hinv.s2 t.root hroot path [] [] hinv.names hkeys m ps' hr
    rw [hic] at his hfirst
    refine ⟨?_, ?_⟩
    · intro n hn
      rw [hsome] at hn
      cases hn
      rw [hps]
      exact ⟨live_pattern_mem (reachesBy_below his hp) hne, is, his, hfirst⟩
    · rw [hsome]
      constructor
      · intro e; cases e
      · intro hno
        exact (hno ⟨m, ps', reaches_iff.2 ⟨is, his⟩⟩).elim

/-! ## Non-vacuity -/

/-- Hypotheses of `C02_resolve_all_partial` on a history with a `Remove` that leaves an UNFORKED interior
node: `/a/`, `/a/b` registered, `/a/` removed.  The tree is `/a/` (no handlers) → `b`; it is not in
canonical form for its table `["/a/b"]` (so `C02_resolve_partial` does not apply), `ParamStops` holds. -/
example : WfOps litOps ∧ ParamStops (P15.exT0.run litOps) ∧
    shapesOf 0 (P15.exT0.run litOps).root.children = [(0, litA, false), (1, [98], true)] ∧
    (tableOf (P15.exT0.run litOps)).patterns = [litAB] ∧ ¬ Canonical (P15.exT0.run litOps) [litAB] :=
  ⟨litOps_wf, litOps_stops, litOps_shape, litOps_table, litOps_not_canon⟩

/-- The instance of the theorem for this history, and what the dispatch of `/a/b` answers. -/
example (env : Env) (path : Bytes) (hp : path ≠ []) (hstar : path ≠ [42]) (f : Found)
    (h : (P15.exT0.run litOps).handler env path [] mGET = .res f) :
    Admissible env [] [litAB] path (outcome f) ∧ (f.node = none ↔ resolveAll env [] [litAB] path = []) :=
  have hrs : ∀ p, p ∈ [litAB] ↔ p ∈ (tableOf (P15.exT0.run litOps)).patterns := by rw [litOps_table]; exact fun _ => Iff.rfl
  ⟨C02_resolve_all_partial env [114] [] { base := .notFound } none .options .notAllowed litOps litOps_wf litOps_stops
      [litAB] hrs path hp hstar mGET (.inl rfl) f h,
    C02_resolve_all_404_partial env [114] [] { base := .notFound } none .options .notAllowed litOps litOps_wf litOps_stops
      [litAB] hrs path hp hstar mGET (.inl rfl) f h⟩

example : resOf ((P15.exT0.run litOps).handler P15.envAll litAB [] mGET) = some (litAB, []) := litOps_answer

/-- The same for a FORK that is undone: `/a/b`, `/a/c` registered (`/a/` → `b`, `c`), `/a/c` removed.  The
interior node `/a/` is left with one literal child and no handlers — neither live nor forked, so the
invariant `C02_forked` of the add-only theorem is lost and the tree is not canonical —, `ParamStops`
holds and the theorem applies. -/
example : WfOps forkOps ∧ ParamStops (P15.exT0.run forkOps) ∧
    shapesOf 0 (P15.exT0.run (forkOps.take 2)).root.children = [(0, litA, false), (1, [98], true), (1, [99], true)] ∧
    shapesOf 0 (P15.exT0.run forkOps).root.children = [(0, litA, false), (1, [98], true)] ∧
    (tableOf (P15.exT0.run forkOps)).patterns = [litAB] ∧ ¬ Canonical (P15.exT0.run forkOps) [litAB] ∧
    ¬ AllL TT (P15.exT0.run forkOps).root.children :=
  ⟨forkOps_wf, forkOps_stops, forkOps_before, forkOps_shape, forkOps_table, forkOps_not_canon, forkOps_not_TT⟩

example (env : Env) (path : Bytes) (hp : path ≠ []) (hstar : path ≠ [42]) (f : Found)
    (h : (P15.exT0.run forkOps).handler env path [] mGET = .res f) :
    Admissible env [] [litAB] path (outcome f) :=
  have hrs : ∀ p, p ∈ [litAB] ↔ p ∈ (tableOf (P15.exT0.run forkOps)).patterns := by rw [forkOps_table]; exact fun _ => Iff.rfl
  C02_resolve_all_partial env [114] [] { base := .notFound } none .options .notAllowed forkOps forkOps_wf forkOps_stops
    [litAB] hrs path hp hstar mGET (.inl rfl) f h

example : resOf ((P15.exT0.run forkOps).handler P15.envAll litAB [] mGET) = some (litAB, []) := forkOps_answer

/-- A history with `Clean` that leaves a DEAD leaf (`/a/` without handlers and without children, no
route at all): the hypotheses hold as well. -/
example : WfOps deadOps ∧ ParamStops (P15.exT0.run deadOps) ∧
    shapesOf 0 (P15.exT0.run deadOps).root.children = [(0, litA, false)] ∧
    (tableOf (P15.exT0.run deadOps)).patterns = [] :=
  ⟨deadOps_wf, deadOps_stops, deadOps_shape, deadOps_table⟩

/-- `ParamStops` is decidable and is what fails in the counterexample; hypotheses of
`C02_resolve_all_chain`: any well-formed history, e.g. the one of the counterexample. -/
example : WfOps cexOps ∧ ¬ ParamStops (P15.exT0.run cexOps) := ⟨cexOps_wf, cexOps_not_stops⟩

/-- Hypotheses of `C02_resolve_all_reach`. -/
example : P14.ReachAll (P15.exT0.run litOps) ∧ ParamStops (P15.exT0.run litOps) :=
  ⟨⟨_, _, _, _, _, _, litOps, litOps_wf, rfl⟩, litOps_stops⟩

/-- Hypotheses of `C02_resolve_all_addonly`. -/
example : AddOnly opsAB ∧ WfOps opsAB := ⟨opsAB_addOnly, opsAB_wf⟩

end Mux.C02
