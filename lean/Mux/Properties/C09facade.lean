/-
  C09 for façade programs and groups — `C19_equiv` (a façade program is its translation into plain `Router` calls)
  combined with `C09_order`, and the inner part `own` of the stack made explicit.

  `C09_order` says: the handler handed to `CallFunc` for a matched node has the stack `mkWraps (own ++ useMs) …` for
  SOME `own`.  Here `own` is identified and shown to persist: for a route registered through a façade object whose
  ancestry is `ch` (`FChain`: the creating calls `r.Prefix(p₁, m₁…).Prefix(p₂, m₂…)…`, outermost first)

      wraps = mkWraps (m ++ ch.ms ++ useMs) key (ch.pattern ++ pat) routerName

  `m` the middlewares of the registration itself, `ch.ms = mₙ ++ … ++ m₂ ++ m₁` (innermost façade first, outermost
  last), `useMs` ALL `Use` middlewares of the whole program in call order (before or after the registration);
  `wraps` lists applications innermost first, and every element carries `(key, full pattern, router name)`.
  It holds at registration and after every later program that does not re-register / remove / clean that entry.

  The semantics are those of `C19.lean`: `FOp`, `runF`, `desugar`, `plainOps` (`Mux/Proofs/Facade.lean`); for groups
  `GOp`, `grun`, `effOps` (`Mux/Proofs/OnionGroup.lean`).  Helper lemmas: `Mux/Proofs/FacadeOnion{Own,Prog}.lean`.
-/
import Mux.Proofs.FacadeOnionProg
import Mux.Proofs.GroupLiftServe
import Mux.Properties.C09
import Mux.Properties.C19
namespace Mux.C09
open Mux Mux.P10 Mux.P18

/-! ## Vocabulary -/

/-- All `Use` middlewares of a façade program (`.router (.use m)` operations), in call order. -/
abbrev progUseMs := Mux.P18.progUseMs
/-- Ancestry of a façade object: `(pattern, middlewares)` of the creating calls, outermost first. -/
abbrev FChain := Mux.P18.FChain
/-- The façade table / the ancestry chains a program builds (same indices). -/
abbrev tabOf := Mux.P18.tabOf
abbrev chainsOf := Mux.P18.chainsOf
/-- `Has t p k h0`: the tree has a node with pattern `p` (and handlers) whose entry for the key `k` is `h0`. -/
abbrev Has := Mux.P18.Has
/-- A later operation leaves the entry `(p, k)` alone: a `Handle` of another pattern, or of `p` with methods that
neither contain `k` nor create it (`k` is not HEAD next to a listed GET, not OPTIONS, not the 405 key); a `Remove` of
another pattern; a `Clean` whose prefix is not a prefix of `p`; any `Use`. -/
abbrev Untouched := Mux.P18.Untouched
/-- The registrations of a façade program: `(object, pattern argument, handler, middlewares, methods)`. -/
abbrev regOf := Mux.P18.regOf

instance (p k : Bytes) (op : ROp) : Decidable (Untouched p k op) := by
  cases op <;> unfold Untouched P18.Untouched <;> infer_instance

theorem C09_chain_defs (ch : FChain) :
    ch.pattern = (ch.map (·.1)).flatten ∧ ch.ms = (ch.reverse.map (·.2)).flatten ∧ ch.flat = ⟨ch.pattern, ch.ms⟩ :=
  ⟨rfl, rfl, rfl⟩

/-- Innermost first, outermost last: one more nesting level puts its middlewares IN FRONT. -/
theorem C09_chain_ms_snoc (ch : FChain) (p : Bytes) (m : List Nat) :
    FChain.ms (ch ++ [(p, m)]) = m ++ ch.ms ∧ FChain.pattern (ch ++ [(p, m)]) = ch.pattern ++ p := by
  simp [FChain.ms, FChain.pattern]

/-! ## The façade table of a program -/

/-- The interpreter's table is `tabOf`, and object `i` is the flat form (concatenated pattern, middlewares inside-out)
of its ancestry chain (`C19_nested_chain` for every object of every program). -/
theorem C09_facade_table (env : Env) (r0 : Router) (prog : List FOp) (i : Nat) :
    (runF env { router := r0 } prog).tab = tabOf prog ∧
    (tabOf prog)[i]? = ((chainsOf prog)[i]?).map FChain.flat :=
  ⟨runF_tab env prog { router := r0 }, tabOf_get prog i⟩

/-- How the ancestry chains grow: `r.Prefix/Resource` starts a chain, `p.Prefix/Resource` extends its parent's. -/
theorem C09_facade_chains (prog : List FOp) (op : FOp) :
    chainsOf (prog ++ [op]) =
      match op with
      | .newPrefix p m => chainsOf prog ++ [[(p, m)]]
      | .newResource p m => chainsOf prog ++ [[(p, m)]]
      | .subPrefix i p m => (match (chainsOf prog)[i]? with
        | some ch => chainsOf prog ++ [ch ++ [(p, m)]]
        | none => chainsOf prog)
      | .subResource i p m => (match (chainsOf prog)[i]? with
        | some ch => chainsOf prog ++ [ch ++ [(p, m)]]
        | none => chainsOf prog)
      | _ => chainsOf prog := by
  unfold chainsOf P18.chainsOf
  rw [List.foldl_append, List.foldl_cons, List.foldl_nil]
  cases op <;> rfl

/-! ## `C09_order` for façade programs -/

/-- The `Use` middlewares of the translation are those of the program. -/
theorem C09_facade_useMs (prog : List FOp) :
    ((plainOps (desugar prog)).filterMap useArg).flatten = progUseMs prog := useMs_desugar prog

/-- **`C09_facade_order`.**  For every façade program (Prefix / nested Prefix / Resource creation with middlewares,
handle / remove / clean through them, `Use` and plain calls on the router, URL queries) run on a new router, and every
request: the handler handed to `CallFunc` satisfies `OnionSpec` with `useMs` = all `Use` middlewares of the program —
404 / TRACE / `OPTIONS *` carry exactly `useMs`, an entry of a matched node `mkWraps (own ++ useMs) key n.pattern name`. -/
theorem C09_facade_order (envF : Env) {cfg : RouterCfg} {r0 : Router} (hnew : Router.new cfg = some r0) (prog : List FOp)
    (env : Env) (req : Req) (ps : Params) {c : Call}
    (hc : (runF envF { router := r0 } prog).router.serveContext env req ps = .call c) :
    OnionSpec (progUseMs prog) cfg.name (runF envF { router := r0 } prog).router.tree.root cfg.trace req c := by
  rw [(C19.C19_equiv envF r0 prog).1] at hc ⊢
  rw [← C09_facade_useMs]
  exact C09_order hnew _ env req ps hc

/-! ## Plain routers: `own` is the registration's list, and it persists -/

/-- **`C09_own_persists`.**  `NewRouter`; any history `pre`; a successful `Handle(p, h, m, methods…)`; any history
`post` that leaves the entry `(p, k)` alone; registered patterns well-formed.  For every listed method `k` (and HEAD
when GET is listed) the entry of the node of `p` is `h` with the stack `mkWraps (m ++ useMs) k p name`, `useMs` all
`Use` middlewares of the whole history. -/
theorem C09_own_persists {cfg : RouterCfg} {r0 : Router} (hnew : Router.new cfg = some r0) (pre post : List ROp)
    (p : Bytes) (h : Nat) (m : List Nat) (methods : List Bytes) (k : Bytes)
    (hwf : ∀ op ∈ pre ++ .handle p h m methods :: post, ROp.wf op = true)
    (hok : ∃ r', (r0.run pre).handle p h m methods = .ok r')
    (hpost : ∀ op ∈ post, Untouched p k op)
    (hk : k ∈ effMethods methods ∨ (k = mHEAD ∧ mGET ∈ effMethods methods)) :
    Has (r0.run (pre ++ .handle p h m methods :: post)).tree p k
      { base := .user h,
        wraps := mkWraps (m ++ ((pre ++ .handle p h m methods :: post).filterMap useArg).flatten) k p cfg.name } :=
  own_persists hnew pre post p h m methods k hwf hok hpost hk

/-- From the stored entry to the handler handed to `CallFunc`: on a router whose tree is reachable by a well-formed
history, a request answered by the node with pattern `p` under the key `k` (`callKey`: the request method, `""` for a
405) is handed exactly the stored entry. -/
theorem C09_has_dispatch {r : Router} (hr : P14.ReachAll r.tree) {p k : Bytes} {h0 : Handler} (hh : Has r.tree p k h0)
    (env : Env) (req : Req) (ps : Params) {c : Call} {n : Node}
    (hc : r.serveContext env req ps = .call c) (hn : c.node = some n) (hp : n.pattern = p)
    (hkey : callKey req c = k) : c.handler = h0 := by
  obtain ⟨hf, _⟩ := serveContext_call_found env r req ps c hc
  exact (has_dispatch hr.inv hh hf hn hp hkey).1

/-! ## Façade programs: `own = m ++ ch.ms` -/

/-- **`C09_facade_stack`.**  `NewRouter`; a façade program `pre`; a registration `op` (`p.Handle/Get/…` or
`res.Handle`) through object `i` with ancestry `ch` that succeeds; a façade program `post` whose translation leaves
the entry alone.  The stored entry of `(ch.pattern ++ pat, k)` is `h` with the stack
`mkWraps (m ++ ch.ms ++ progUseMs program) k (ch.pattern ++ pat) name`. -/
theorem C09_facade_stack (envF : Env) {cfg : RouterCfg} {r0 : Router} (hnew : Router.new cfg = some r0)
    (pre post : List FOp) (op : FOp) (i : Nat) (pat : Bytes) (h : Nat) (m : List Nat) (methods : List Bytes)
    (ch : FChain) (k : Bytes)
    (hreg : regOf op = some (i, pat, h, m, methods)) (hch : (chainsOf pre)[i]? = some ch)
    (hwf : ∀ o ∈ plainOps (desugar (pre ++ op :: post)), ROp.wf o = true)
    (hok : ∃ r', (runF envF { router := r0 } pre).router.handle (ch.pattern ++ pat) h (m ++ ch.ms) methods = .ok r')
    (hpost : ∀ o ∈ plainOps (desugarFrom (tabOf pre) post), Untouched (ch.pattern ++ pat) k o)
    (hk : k ∈ effMethods methods ∨ (k = mHEAD ∧ mGET ∈ effMethods methods)) :
    Has (runF envF { router := r0 } (pre ++ op :: post)).router.tree (ch.pattern ++ pat) k
      { base := .user h,
        wraps := mkWraps (m ++ ch.ms ++ progUseMs (pre ++ op :: post)) k (ch.pattern ++ pat) cfg.name } :=
  facade_persists envF hnew pre post op i pat h m methods ch k hreg hch hwf hok hpost hk

/-- The success hypothesis in façade terms: it is the success of the façade call itself (`C19_handle`). -/
theorem C09_facade_ok (envF : Env) (r0 : Router) (pre : List FOp) (i : Nat) (ch : FChain) (pat : Bytes) (h : Nat)
    (m : List Nat) (methods : List Bytes) (hch : (chainsOf pre)[i]? = some ch) :
    ∃ f, (runF envF { router := r0 } pre).tab[i]? = some f ∧ f = ch.flat ∧
      f.handle (runF envF { router := r0 } pre).router pat h m methods =
        (runF envF { router := r0 } pre).router.handle (ch.pattern ++ pat) h (m ++ ch.ms) methods := by
  refine ⟨ch.flat, ?_, rfl, rfl⟩
  rw [(C09_facade_table envF r0 pre i).1, (C09_facade_table envF r0 pre i).2, hch]; rfl

/-- **`C09_facade_dispatch`.**  … hence every request that the final router answers with the node of
`ch.pattern ++ pat` under the key `k` hands `CallFunc` the handler `h` with exactly the stack
`own ++ facadeMs ++ useMs` = `m ++ ch.ms ++ progUseMs program`, innermost first, every element created with
`(k, ch.pattern ++ pat, router name)`. -/
theorem C09_facade_dispatch (envF : Env) {cfg : RouterCfg} {r0 : Router} (hnew : Router.new cfg = some r0)
    (pre post : List FOp) (op : FOp) (i : Nat) (pat : Bytes) (h : Nat) (m : List Nat) (methods : List Bytes)
    (ch : FChain) (k : Bytes)
    (hreg : regOf op = some (i, pat, h, m, methods)) (hch : (chainsOf pre)[i]? = some ch)
    (hwf : ∀ o ∈ plainOps (desugar (pre ++ op :: post)), ROp.wf o = true)
    (hok : ∃ r', (runF envF { router := r0 } pre).router.handle (ch.pattern ++ pat) h (m ++ ch.ms) methods = .ok r')
    (hpost : ∀ o ∈ plainOps (desugarFrom (tabOf pre) post), Untouched (ch.pattern ++ pat) k o)
    (hk : k ∈ effMethods methods ∨ (k = mHEAD ∧ mGET ∈ effMethods methods))
    (env : Env) (req : Req) (ps : Params) {c : Call} {n : Node}
    (hc : (runF envF { router := r0 } (pre ++ op :: post)).router.serveContext env req ps = .call c)
    (hn : c.node = some n) (hp : n.pattern = ch.pattern ++ pat) (hkey : callKey req c = k) :
    c.handler = { base := .user h,
                  wraps := mkWraps (m ++ ch.ms ++ progUseMs (pre ++ op :: post)) k (ch.pattern ++ pat) cfg.name } ∧
    (∀ w ∈ c.handler.wraps, w.method = k ∧ w.pattern = ch.pattern ++ pat ∧ w.router = cfg.name) ∧
    c.handler.wraps.map (·.mw) = m ++ ch.ms ++ progUseMs (pre ++ op :: post) := by
  have hh := C09_facade_stack envF hnew pre post op i pat h m methods ch k hreg hch hwf hok hpost hk
  have hreach : P14.ReachAll (runF envF { router := r0 } (pre ++ op :: post)).router.tree := by
    rw [(C19.C19_equiv envF r0 _).1]
    exact reachAll_run hnew hwf
  have := C09_has_dispatch hreach hh env req ps hc hn hp hkey
  refine ⟨this, ?_, ?_⟩
  · intro w hw
    rw [this] at hw
    obtain ⟨a, b, c', _⟩ := mem_mkWraps hw
    exact ⟨a, b, c'⟩
  · rw [this]; exact mkWraps_mws _ _ _ _

/-! ## Groups -/

/-- **`C09_group_stack`.**  A router of the table of a group history (`Group.Add/Use/Remove` and calls on the routers
themselves): its plain history is `effOps` (`C09_group`) — its own calls, `Use(g.ms)` when it is added (the
`Group.Use`s BEFORE the `Add`, in order) and `Use(m)` for every `Group.Use(m)` AFTER it.  For a registration in that
history the stored entry is `h` with `mkWraps (m ++ useMs) k p name`, `useMs` the `Use` middlewares of `effOps` — the
router's own and the group's, interleaved in call order, whether they came before or after the registration. -/
theorem C09_group_stack {cfg : RouterCfg} {r0 : Router} (hnew : Router.new cfg = some r0) (s : GState)
    (hnd : (Group.ids s.1).Nodup) (gprog : List GOp) (rid : Nat) (hr : s.2.get? rid = some r0)
    (pre post : List ROp) (p : Bytes) (h : Nat) (m : List Nat) (methods : List Bytes) (k : Bytes)
    (heff : effOps s rid gprog = pre ++ .handle p h m methods :: post)
    (hwf : ∀ op ∈ effOps s rid gprog, ROp.wf op = true)
    (hok : ∃ r', (r0.run pre).handle p h m methods = .ok r')
    (hpost : ∀ op ∈ post, Untouched p k op)
    (hk : k ∈ effMethods methods ∨ (k = mHEAD ∧ mGET ∈ effMethods methods)) :
    ∃ R, (grun s gprog).2.get? rid = some R ∧ P14.ReachAll R.tree ∧
      Has R.tree p k
        { base := .user h, wraps := mkWraps (m ++ ((effOps s rid gprog).filterMap useArg).flatten) k p cfg.name } := by
  obtain ⟨R, h1, h2⟩ := group_persists hnew s hnd gprog rid hr pre post p h m methods k heff hwf hok hpost hk
  refine ⟨R, h1, ?_, h2⟩
  have : R = r0.run (effOps s rid gprog) := by
    rw [C09_group s hnd gprog rid, hr] at h1
    exact (Option.some.inj h1).symm
  rw [this]
  exact reachAll_run hnew hwf

/-- … and through a façade: a registration `Handle(ch.pattern ++ pat, h, m ++ ch.ms, …)` made through a façade object
with ancestry `ch` on a router that is (or later becomes) a member of a group has the stack
`m ++ ch.ms ++ useMs`, `useMs` the router's own and the group's `Use` middlewares in call order. -/
theorem C09_group_facade_stack {cfg : RouterCfg} {r0 : Router} (hnew : Router.new cfg = some r0) (s : GState)
    (hnd : (Group.ids s.1).Nodup) (gprog : List GOp) (rid : Nat) (hr : s.2.get? rid = some r0)
    (pre post : List ROp) (ch : FChain) (pat : Bytes) (h : Nat) (m : List Nat) (methods : List Bytes) (k : Bytes)
    (heff : effOps s rid gprog = pre ++ .handle (ch.pattern ++ pat) h (m ++ ch.ms) methods :: post)
    (hwf : ∀ op ∈ effOps s rid gprog, ROp.wf op = true)
    (hok : ∃ r', ch.flat.handle (r0.run pre) pat h m methods = .ok r')
    (hpost : ∀ op ∈ post, Untouched (ch.pattern ++ pat) k op)
    (hk : k ∈ effMethods methods ∨ (k = mHEAD ∧ mGET ∈ effMethods methods)) :
    ∃ R, (grun s gprog).2.get? rid = some R ∧ P14.ReachAll R.tree ∧
      Has R.tree (ch.pattern ++ pat) k
        { base := .user h,
          wraps := mkWraps (m ++ ch.ms ++ ((effOps s rid gprog).filterMap useArg).flatten) k (ch.pattern ++ pat)
            cfg.name } :=
  C09_group_stack hnew s hnd gprog rid hr pre post _ h (m ++ ch.ms) methods k heff hwf hok hpost hk

/-- The call handed to `CallFunc` by that router — also when the request reaches it through `Group.serve`
(`C13_first`: the group's answer is the accepted router's own answer). -/
theorem C09_group_dispatch (env : Env) (tab : Nat → Option Hosts) (rt : RTab) (g : Group) (req : Req)
    (pre post : List (Nat × Matcher)) (rid : Nat) (mt : Matcher) (p' : Bytes) (ps : Params) (R : Router)
    (hg : g.routers = pre ++ (rid, mt) :: post) (hpre : ∀ e ∈ pre, C13.Rejects env tab req e)
    (hm : mt.run env tab req req.path [] = .accept p' ps) (hrt : rt.get? rid = some R)
    (hreach : P14.ReachAll R.tree) {p k : Bytes} {h0 : Handler} (hh : Has R.tree p k h0)
    {c : Call} {n : Node} (hc : g.serve env tab rt req = .call c) (hn : c.node = some n) (hp : n.pattern = p)
    (hkey : callKey req c = k) : c.handler = h0 := by
  rw [C13.C13_first env tab rt g req pre post rid mt p' ps R hg hpre hm hrt] at hc
  exact C09_has_dispatch hreach hh env { req with path := p' } ps hc hn hp hkey

/-! ## Non-vacuity

`r.Use(9); api := r.Prefix("/api", 1); v1 := api.Prefix("/v1", 2)` — then `v1.Get("/users", h7, 3)` — then
`res := v1.Resource("/users/{id}", 4); res.Get(h8, 5); r.Use(6)`.  A real program on a real router. -/

def fxCfg : RouterCfg := { name := [114] }
def fxR0 : Router := (Router.new fxCfg).getD default
theorem fxNew : Router.new fxCfg = some fxR0 := rfl
def fxEnv : Env := ⟨fun _ _ => true⟩
def fxPre : List FOp :=
  [.router (.use [9]), .newPrefix (bytesOfString "/api") [1], .subPrefix 0 (bytesOfString "/v1") [2]]
def fxOp : FOp := .handle 1 (bytesOfString "/users") 7 [3] [mGET]
def fxPost : List FOp :=
  [.subResource 1 (bytesOfString "/users/{id}") [4], .resHandle 2 8 [5] [mGET], .router (.use [6])]
/-- the ancestry of `v1`: `/api` with `[1]`, then `/v1` with `[2]` -/
def fxCh : FChain := [(bytesOfString "/api", [1]), (bytesOfString "/v1", [2])]

example : regOf fxOp = some (1, bytesOfString "/users", 7, [3], [mGET]) := rfl
example : (chainsOf fxPre)[1]? = some fxCh := by decide +kernel
example : fxCh.pattern = bytesOfString "/api/v1" ∧ fxCh.ms = [2, 1] ∧ progUseMs (fxPre ++ fxOp :: fxPost) = [9, 6] := by
  decide +kernel
-- the translation, and its registered patterns are well-formed
theorem fx_desugar : (plainOps (desugar (fxPre ++ fxOp :: fxPost))).map ropCode =
    [ROp.use [9], .handle (bytesOfString "/api/v1/users") 7 [3, 2, 1] [mGET],
     .handle (bytesOfString "/api/v1/users/{id}") 8 [5, 4, 2, 1] [mGET], .use [6]].map ropCode := by decide +kernel
example : ∀ o ∈ plainOps (desugar (fxPre ++ fxOp :: fxPost)), ROp.wf o = true := by
  have h : plainOps (desugar (fxPre ++ fxOp :: fxPost)) =
      [ROp.use [9], .handle (bytesOfString "/api/v1/users") 7 [3, 2, 1] [mGET],
       .handle (bytesOfString "/api/v1/users/{id}") 8 [5, 4, 2, 1] [mGET], .use [6]] :=
    (List.map_inj_right ropCode_injective).1 fx_desugar
  rw [h]
  intro o ho
  simp only [List.mem_cons, List.not_mem_nil, or_false] at ho
  rcases ho with rfl | rfl | rfl | rfl
  · rfl
  · show WfPattern _ = true; decide +kernel
  · show WfPattern _ = true; decide +kernel
  · rfl
-- the registration succeeds
example : ∃ r', (runF fxEnv { router := fxR0 } fxPre).router.handle (fxCh.pattern ++ bytesOfString "/users") 7
    ([3] ++ fxCh.ms) [mGET] = .ok r' := by
  have : (match (runF fxEnv { router := fxR0 } fxPre).router.handle (fxCh.pattern ++ bytesOfString "/users") 7
      ([3] ++ fxCh.ms) [mGET] with
    | .ok _ => true
    | .error _ => false) = true := by
    simp only [fxPre, runF, List.foldl_cons, List.foldl_nil, FState.step, tabStep]
    mux_eval [fxR0, Router.use]
  split at this
  · exact ⟨_, by assumption⟩
  · cases this
-- the later program leaves the entries GET and HEAD of `/api/v1/users` alone
example : ∀ o ∈ plainOps (desugarFrom (tabOf fxPre) fxPost),
    Untouched (fxCh.pattern ++ bytesOfString "/users") mGET o ∧
    Untouched (fxCh.pattern ++ bytesOfString "/users") mHEAD o := by
  have h : (plainOps (desugarFrom (tabOf fxPre) fxPost)).map ropCode =
      [ROp.handle (bytesOfString "/api/v1/users/{id}") 8 [5, 4, 2, 1] [mGET], .use [6]].map ropCode := by
    decide +kernel
  rw [(List.map_inj_right ropCode_injective).1 h]
  intro o ho
  simp only [List.mem_cons, List.not_mem_nil, or_false] at ho
  rcases ho with rfl | rfl
  · exact ⟨.inl (by decide +kernel), .inl (by decide +kernel)⟩
  · exact ⟨trivial, trivial⟩
-- and the real router hands `CallFunc` exactly the stack `[3] ++ [2, 1] ++ [9, 6]` for GET, and for the automatic HEAD
example : wrapsOf (fxR0.run (plainOps (desugar (fxPre ++ fxOp :: fxPost))))
      { method := mGET, path := bytesOfString "/api/v1/users" } =
    some (mkWraps ([3] ++ [2, 1] ++ [9, 6]) mGET (bytesOfString "/api/v1/users") (bytesOfString "r")) := by
  simp only [fxPre, fxOp, fxPost, desugar, desugarFrom, desugarOp, tabStep, plainOps, Facade.ofRouter, Facade.sub,
    List.nil_append, List.append_nil, List.getElem?_cons_zero, List.getElem?_cons_succ, List.cons_append]
  mux_eval [fxR0]

/-- group variant: `Group.Use(9)`; the router's own `Use(1)`; `Add`; `Group.Use(8)`; a registration; `Group.Use(7)` —
seen from the router: `Use(1), Use(9), Use(8), Handle, Use(7)`. -/
def fxG : List GOp :=
  [.use [9], .router 0 (.use [1]), .add .any 0, .use [8], .router 0 (.handle (bytesOfString "/a") 7 [2] [mGET]), .use [7]]

example : (effOps ({}, [(0, fxR0)]) 0 fxG).map ropCode =
    ([ROp.use [1], .use [9], .use [8]] ++ ROp.handle (bytesOfString "/a") 7 [2] [mGET] :: [.use [7]]).map ropCode ∧
    ((effOps ({}, [(0, fxR0)]) 0 fxG).filterMap useArg).flatten = [1, 9, 8, 7] := by
  constructor <;> decide +kernel

end Mux.C09
